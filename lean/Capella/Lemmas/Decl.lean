import Capella.Model.Decl
/-!
Lemmas about the `decl.apply` machine, part 1: the termination measure.

`State.measure = D * (T + 1) + Q` where
* `D` = number of `promise_id` sites (and pending `fulfil` works) in agenda, queue and deferred entries,
* `T` = total syntactic mass of agenda, queue and deferred entries,
* `Q` = mass of agenda and queue only.
A transition that registers no promise strictly lowers `Q` (deferred entries are the only place mass
can go without being consumed, and they leave `Q`); a transition that registers a promise lowers `D`
and can raise `Q` at most to `T`; `T` and `D` never increase.
-/
namespace Capella.Decl

theorem sumBy_append {α : Type} (f : α → Nat) (a b : List α) :
    sumBy f (a ++ b) = sumBy f a + sumBy f b := by
  induction a with
  | nil => simp [sumBy]
  | cons x t ih => simp [sumBy, ih]; omega

theorem sumBy_map {α β : Type} (f : β → Nat) (g : α → β) (l : List α) :
    sumBy f (l.map g) = sumBy (fun a => f (g a)) l := by
  induction l with
  | nil => simp [sumBy]
  | cons x t ih => simp [sumBy, ih]

theorem sumBy_filter_split {α : Type} (f : α → Nat) (p : α → Bool) (l : List α) :
    sumBy f (l.filter p) + sumBy f (l.filter (fun a => !p a)) = sumBy f l := by
  induction l with
  | nil => simp [sumBy]
  | cons x t ih =>
    cases h : p x <;> simp [List.filter, h, sumBy] <;> omega

theorem kidsMass_eq (par : Id) (kids : List (Str × List Item)) :
    sumBy Work.mass (kids.map (fun kl => Work.items par kl.1 kl.2)) = kidsMass kids := by
  induction kids with
  | nil => simp [sumBy, kidsMass]
  | cons x t ih => obtain ⟨k, l⟩ := x; simp [sumBy, kidsMass, Work.mass, ih] at *

theorem kidsPidN_eq (f : Str → Nat) (par : Id) (kids : List (Str × List Item)) :
    sumBy (Work.pidN f) (kids.map (fun kl => Work.items par kl.1 kl.2)) = kidsPidN f kids := by
  induction kids with
  | nil => simp [sumBy, kidsPidN]
  | cons x t ih => obtain ⟨k, l⟩ := x; simp [sumBy, kidsPidN, Work.pidN, ih] at *

theorem syncMass_eq (par : Id) (sync : List (Str × List SyncObj)) :
    sumBy Work.mass (sync.map (fun kl => Work.syncs par kl.1 kl.2)) = syncMass sync := by
  induction sync with
  | nil => simp [sumBy, syncMass]
  | cons x t ih => obtain ⟨k, l⟩ := x; simp [sumBy, syncMass, Work.mass, ih] at *

theorem syncPidN_eq (f : Str → Nat) (par : Id) (sync : List (Str × List SyncObj)) :
    sumBy (Work.pidN f) (sync.map (fun kl => Work.syncs par kl.1 kl.2)) = syncPidN f sync := by
  induction sync with
  | nil => simp [sumBy, syncPidN]
  | cons x t ih => obtain ⟨k, l⟩ := x; simp [sumBy, syncPidN, Work.pidN, ih] at *

theorem delMass_eq (par : Id) (del : List (Str × List Val)) :
    sumBy Work.mass (del.map (fun kl => Work.dels par kl.1 kl.2)) = delMass del := by
  induction del with
  | nil => simp [sumBy, delMass]
  | cons x t ih => obtain ⟨k, l⟩ := x; simp [sumBy, delMass, Work.mass, ih] at *

theorem delPidN_eq (f : Str → Nat) (par : Id) (del : List (Str × List Val)) :
    sumBy (Work.pidN f) (del.map (fun kl => Work.dels par kl.1 kl.2)) = 0 := by
  induction del with
  | nil => simp [sumBy]
  | cons x t ih => simp [sumBy, Work.pidN, ih] at *

theorem fulfil_measure {s s' : State} {p : Str} {i : Id} (h : s.fulfil p i = .ok s') :
    s'.T = s.T ∧ s'.D = s.D ∧ s'.Q ≤ s.T ∧ s'.agenda = s.agenda := by
  unfold State.fulfil at h
  split at h
  · cases h
  · cases h
    have hm := sumBy_filter_split (fun e : Str × Action => e.2.mass) (fun e => e.1 == p) s.deferred
    have hd := sumBy_filter_split (fun e : Str × Action => e.2.pidN (fun _ => 1)) (fun e => e.1 == p) s.deferred
    simp only [State.T, State.Q, State.D, State.pidN, sumBy_append, sumBy_map] at *
    refine ⟨?_, ?_, ?_, trivial⟩ <;> omega


/-- effect of a helper that consumes syntax of mass `m` carrying `d` promise ids -/
structure Prog (s s' : State) (m d : Nat) : Prop where
  t : s'.T ≤ s.T + m
  dd : s'.D ≤ s.D + d
  p : s'.Q + 1 ≤ s.Q + m ∨ s'.D + 1 ≤ s.D + d

theorem defer_T (s : State) (p : Str) (a : Action) : (s.defer p a).T = s.T + a.mass := by
  simp [State.defer, State.T, State.Q, sumBy_append, sumBy]; omega
theorem defer_Q (s : State) (p : Str) (a : Action) : (s.defer p a).Q = s.Q := by
  simp [State.defer, State.Q]
theorem defer_D (s : State) (p : Str) (a : Action) : (s.defer p a).D = s.D + a.pidN (fun _ => 1) := by
  simp [State.defer, State.D, State.pidN, sumBy_append, sumBy]; omega

theorem Item.mass_pos (x : Item) : 1 ≤ x.mass := by
  cases x <;> simp [Item.mass] <;> omega

theorem checkTarget_items_nil {mm : MM} {s s' : State} {par attr}
    (h : (checkTarget mm s.g par attr).map (fun _ => s) = .ok s') : s' = s := by
  cases hc : checkTarget mm s.g par attr with
  | error e => simp [hc, Except.map] at h
  | ok r => simp [hc, Except.map] at h; exact h.symm

theorem stepItem_prog {mm s s' par attr} {x : Item} (h : stepItem mm s par attr x = .ok s') :
    Prog s s' x.mass (x.pidN (fun _ => 1)) := by
  unfold stepItem at h
  split at h
  · cases h
  · rename_i cr sg fx _
    cases x with
    | ref v =>
      simp only at h
      split at h
      · cases h
        refine ⟨?_, ?_, ?_⟩ <;> simp [defer_T, defer_Q, defer_D, Action.mass, Piece.mass, Item.mass, Action.pidN, Piece.pidN, Item.pidN]
      · cases h
      · cases h
        refine ⟨?_, ?_, ?_⟩ <;> simp [State.T, State.Q, State.D, State.pidN, Item.mass, Item.pidN]
      · cases h
    | str nid str =>
      simp only at h
      split at h
      · cases h
      · split at h
        · cases h
        · cases h
          refine ⟨?_, ?_, ?_⟩ <;> simp [State.T, State.Q, State.D, State.pidN, Item.mass, Item.pidN]
    | obj nid pid ty scal kids =>
      simp only at h
      split at h
      · cases h
        refine ⟨?_, ?_, ?_⟩ <;> simp [defer_T, defer_Q, defer_D, Action.mass, Piece.mass, Item.mass, Action.pidN, Piece.pidN, Item.pidN]
      · cases h
      · rename_i rs hrs
        split at h
        · cases h
        · rename_i cls _
          cases pid with
          | none =>
            simp [State.fulfilOpt, bind, Except.bind, pure, Except.pure] at h
            cases h
            refine ⟨?_, ?_, ?_⟩ <;>
              simp [State.T, State.Q, State.D, State.pidN, Item.mass, Item.pidN, optN, sumBy_append, kidsMass_eq, kidsPidN_eq] <;> omega
          | some p =>
            simp only [State.fulfilOpt, bind, Except.bind, pure, Except.pure] at h
            split at h
            · cases h
            · rename_i s2 hs2
              cases h
              obtain ⟨hT, hD, hQ, hA⟩ := fulfil_measure hs2
              have hA' : s2.agenda = s.agenda := hA
              simp only [State.T, State.Q, State.D, State.pidN, hA'] at hT hD hQ
              refine ⟨?_, ?_, ?_⟩ <;>
                simp [State.T, State.Q, State.D, State.pidN, Item.mass, Item.pidN, optN, sumBy_append, kidsMass_eq, kidsPidN_eq, hA'] <;> omega

theorem resolveRefs_mass (ps g) (l : List Item) : itemsMass (resolveRefs ps g l).1 = itemsMass l := by
  induction l with
  | nil => simp [resolveRefs]
  | cons x t ih =>
    cases x with
    | obj n p ty s k => simp [resolveRefs, itemsMass, ih]
    | str n s => simp [resolveRefs, itemsMass, ih]
    | ref v =>
      simp only [resolveRefs]
      split
      · rfl
      · simp [itemsMass, Item.mass, ih]
      · simp [itemsMass, Item.mass, ih]

theorem resolveRefs_pidN (f) (ps g) (l : List Item) : itemsPidN f (resolveRefs ps g l).1 = itemsPidN f l := by
  induction l with
  | nil => simp [resolveRefs]
  | cons x t ih =>
    cases x with
    | obj n p ty s k => simp [resolveRefs, itemsPidN, ih]
    | str n s => simp [resolveRefs, itemsPidN, ih]
    | ref v =>
      simp only [resolveRefs]
      split
      · rfl
      · simp [itemsPidN, Item.pidN, ih]
      · simp [itemsPidN, Item.pidN, ih]

theorem stepSet_prog {s s' par attr} {v : SetVal} (h : stepSet s par attr v = .ok s') :
    Prog s s' v.mass (v.pidN (fun _ => 1)) := by
  cases v with
  | scalar v =>
    simp only [stepSet] at h
    split at h
    · cases h
      refine ⟨?_, ?_, ?_⟩ <;> simp [defer_T, defer_Q, defer_D, Action.mass, Piece.mass, SetVal.mass, Action.pidN, Piece.pidN, SetVal.pidN]
    · cases h
    · cases h
      refine ⟨?_, ?_, ?_⟩ <;> simp [State.T, State.Q, State.D, State.pidN, SetVal.mass, SetVal.pidN]
  | list l =>
    simp only [stepSet] at h
    have hm := resolveRefs_mass s.ps s.g l
    have hp := resolveRefs_pidN (fun _ => 1) s.ps s.g l
    split at h
    · rename_i l' p heq
      cases h
      rw [heq] at hm hp
      simp only at hm hp
      refine ⟨?_, ?_, ?_⟩ <;> simp [defer_T, defer_Q, defer_D, Action.mass, Piece.mass, SetVal.mass, Action.pidN, Piece.pidN, SetVal.pidN, hm, hp] <;> omega
    · cases h
    · rename_i l' heq
      cases h
      rw [heq] at hm hp
      simp only at hm hp
      refine ⟨?_, ?_, ?_⟩ <;> simp [State.T, State.Q, State.D, State.pidN, SetVal.mass, SetVal.pidN, sumBy, Work.mass, Work.pidN, hm, hp] <;> omega



/-- weight `w` summed over the list-valued entries of a merged creation dict -/
def propW (w : List Item → Nat) : List (Str × PropVal) → Nat
  | [] => 0
  | (_, .s _) :: t => propW w t
  | (_, .l l) :: t => w l + propW w t

theorem propW_dictSet (w) (k : Str) (v : PropVal) (a : List (Str × PropVal)) :
    propW w (dictSet k v a) ≤ propW w a + propW w [(k, v)] := by
  induction a with
  | nil => simp [dictSet]
  | cons x t ih =>
    obtain ⟨k', v'⟩ := x
    simp only [dictSet]
    split
    · cases v <;> cases v' <;> simp [propW] <;> omega
    · cases v' <;> simp [propW] at * <;> omega

theorem propW_dictUnion (w) (a b : List (Str × PropVal)) :
    propW w (dictUnion a b) ≤ propW w a + propW w b := by
  unfold dictUnion
  induction b generalizing a with
  | nil => simp [propW]
  | cons x t ih =>
    obtain ⟨k, v⟩ := x
    simp only [List.foldl]
    have h1 := ih (dictSet k v a)
    have h2 := propW_dictSet w k v a
    cases v <;> simp [propW] at * <;> omega

theorem kidsMass_propKids (ps : List (Str × PropVal)) :
    kidsMass (propKids ps) = propW (fun l => 1 + itemsMass l) ps := by
  induction ps with
  | nil => simp [propKids, kidsMass, propW]
  | cons x t ih => obtain ⟨k, v⟩ := x; cases v <;> simp [propKids, kidsMass, propW, ih]

theorem kidsPidN_propKids (f) (ps : List (Str × PropVal)) :
    kidsPidN f (propKids ps) = propW (itemsPidN f) ps := by
  induction ps with
  | nil => simp [propKids, kidsPidN, propW]
  | cons x t ih => obtain ⟨k, v⟩ := x; cases v <;> simp [propKids, kidsPidN, propW, ih]

theorem propW_keys (w) (keys : List (Str × Atom)) :
    propW w (keys.map (fun ka => (ka.1, PropVal.s (.atom ka.2)))) = 0 := by
  induction keys with
  | nil => simp [propW]
  | cons x t ih => simp [propW, ih]

theorem propW_set_mass (set : List (Str × SetVal)) :
    propW (fun l => 1 + itemsMass l)
      (set.map (fun kv => (kv.1, setProp kv.2)))
      ≤ setMass set := by
  induction set with
  | nil => simp [propW, setMass]
  | cons x t ih => obtain ⟨k, v⟩ := x; cases v <;> simp [propW, setMass, SetVal.mass, setProp] at * <;> omega

theorem propW_set_pidN (f) (set : List (Str × SetVal)) :
    propW (itemsPidN f)
      (set.map (fun kv => (kv.1, setProp kv.2)))
      = setPidN f set := by
  induction set with
  | nil => simp [propW, setPidN]
  | cons x t ih => obtain ⟨k, v⟩ := x; cases v <;> simp [propW, setPidN, SetVal.pidN, setProp] at * <;> omega

theorem propW_ext_mass (ext : List (Str × List Item)) :
    propW (fun l => 1 + itemsMass l) (ext.map (fun kl => (kl.1, PropVal.l kl.2))) = kidsMass ext := by
  induction ext with
  | nil => simp [propW, kidsMass]
  | cons x t ih => obtain ⟨k, l⟩ := x; simp [propW, kidsMass] at *; omega

theorem propW_ext_pidN (f) (ext : List (Str × List Item)) :
    propW (itemsPidN f) (ext.map (fun kl => (kl.1, PropVal.l kl.2))) = kidsPidN f ext := by
  induction ext with
  | nil => simp [propW, kidsPidN]
  | cons x t ih => obtain ⟨k, l⟩ := x; simp [propW, kidsPidN] at *; omega

theorem props_mass (keys set ext) :
    kidsMass (propKids (propsOf keys set ext)) ≤ setMass set + kidsMass ext := by
  rw [kidsMass_propKids]
  unfold propsOf
  have h1 := propW_dictUnion (fun l => 1 + itemsMass l)
    (dictUnion (keys.map (fun ka => (ka.1, PropVal.s (.atom ka.2))))
      (set.map (fun kv => (kv.1, setProp kv.2))))
    (ext.map (fun kl => (kl.1, PropVal.l kl.2)))
  have h2 := propW_dictUnion (fun l => 1 + itemsMass l)
    (keys.map (fun ka => (ka.1, PropVal.s (.atom ka.2))))
    (set.map (fun kv => (kv.1, setProp kv.2)))
  have h3 := propW_keys (fun l => 1 + itemsMass l) keys
  have h4 := propW_set_mass set
  have h5 := propW_ext_mass ext
  omega

theorem props_pidN (f) (keys set ext) :
    kidsPidN f (propKids (propsOf keys set ext)) ≤ setPidN f set + kidsPidN f ext := by
  rw [kidsPidN_propKids]
  unfold propsOf
  have h1 := propW_dictUnion (itemsPidN f)
    (dictUnion (keys.map (fun ka => (ka.1, PropVal.s (.atom ka.2))))
      (set.map (fun kv => (kv.1, setProp kv.2))))
    (ext.map (fun kl => (kl.1, PropVal.l kl.2)))
  have h2 := propW_dictUnion (itemsPidN f)
    (keys.map (fun ka => (ka.1, PropVal.s (.atom ka.2))))
    (set.map (fun kv => (kv.1, setProp kv.2)))
  have h3 := propW_keys (itemsPidN f) keys
  have h4 := propW_set_pidN f set
  have h5 := propW_ext_pidN f ext
  omega



theorem optN_le_one (pid : Option Str) : optN (fun _ => 1) pid ≤ 1 := by cases pid <;> simp [optN]

theorem stepSync_prog {s s' par attr} {so : SyncObj} (h : stepSync s par attr so = .ok s') :
    Prog s s' so.mass (so.pidN (fun _ => 1)) := by
  obtain ⟨nid, nid2, ty, keys, pid, set, ext, sync⟩ := so
  simp only [stepSync] at h
  split at h
  · cases h
    refine ⟨?_, ?_, ?_⟩ <;> simp [defer_T, defer_Q, defer_D, Action.mass, Piece.mass, SyncObj.mass, Action.pidN, Piece.pidN, SyncObj.pidN] <;> omega
  · cases h
  · cases h
    have := optN_le_one pid
    refine ⟨?_, ?_, ?_⟩ <;> cases pid <;>
      simp [State.T, State.Q, State.D, State.pidN, SyncObj.mass, SyncObj.pidN, sumBy_append, sumBy, Work.mass, Work.pidN,
        syncMass_eq, kidsMass_eq, syncPidN_eq, kidsPidN_eq, optN] <;> omega
  · split at h
    · cases h
      refine ⟨?_, ?_, ?_⟩ <;> simp [defer_T, defer_Q, defer_D, Action.mass, Piece.mass, SyncObj.mass, Action.pidN, Piece.pidN, SyncObj.pidN] <;> omega
    · cases h
    · cases h
      have hm := props_mass keys set ext
      have hp := props_pidN (fun _ => 1) keys set ext
      refine ⟨?_, ?_, ?_⟩ <;> cases sync <;>
        simp [State.T, State.Q, State.D, State.pidN, SyncObj.mass, SyncObj.pidN, sumBy, Work.mass, Work.pidN,
          itemsMass, itemsPidN, Item.mass, Item.pidN, syncMass, syncPidN] <;> omega

theorem stepResync_prog {mm s s' par attr nid2 ty keys sync}
    (h : stepResync mm s par attr nid2 ty keys sync = .ok s') :
    Prog s s' (1 + syncMass sync) (syncPidN (fun _ => 1) sync) := by
  simp only [stepResync] at h
  split at h
  · cases h
    refine ⟨?_, ?_, ?_⟩ <;> simp [defer_T, defer_Q, defer_D, Action.mass, Piece.mass, Action.pidN, Piece.pidN]
  · cases h
  · cases h
    refine ⟨?_, ?_, ?_⟩ <;>
      simp [State.T, State.Q, State.D, State.pidN, sumBy_append, syncMass_eq, syncPidN_eq] <;> omega
  · split at h
    · cases h
    · split at h
      · cases h
      · split at h
        · cases h
        · cases h
        · cases h
          refine ⟨?_, ?_, ?_⟩ <;>
            simp [State.T, State.Q, State.D, State.pidN, sumBy_append, syncMass_eq, syncPidN_eq] <;> omega

theorem stepDel_prog {s s' par attr} {v : Val} (h : stepDel s par attr v = .ok s') :
    Prog s s' 1 0 := by
  have key : ∀ s'', (match resolveVal [] s.g v with
      | .error (.unres _) => (.error .valueError : Except Err State)
      | .error (.err e) => .error e
      | .ok (.str _) => .error .valueError
      | .ok (.obj i) =>
        if (s.g.members par attr).contains i then .ok { s with g := s.g.remove par attr i }
        else .error .valueError) = .ok s'' → Prog s s'' 1 0 := by
    intro s'' h
    split at h
    · cases h
    · cases h
    · cases h
    · split at h
      · cases h
        refine ⟨?_, ?_, ?_⟩ <;> simp [State.T, State.Q, State.D, State.pidN]
      · cases h
  unfold stepDel at h
  split at h
  · cases h
  · exact key _ h

theorem worksOf_mass (par : Id) (i : Instr) : sumBy Work.mass (worksOf par i) + 1 = i.mass := by
  simp [worksOf, sumBy_append, sumBy, kidsMass_eq, syncMass_eq, delMass_eq, Work.mass, Instr.mass]; omega

theorem worksOf_pidN (f) (par : Id) (i : Instr) : sumBy (Work.pidN f) (worksOf par i) = i.pidN f := by
  simp [worksOf, sumBy_append, sumBy, kidsPidN_eq, syncPidN_eq, delPidN_eq, Work.pidN, Instr.pidN]; omega

theorem startAction_prog {mm s s'} {a : Action} (ha : s.agenda = [])
    (h : startAction mm s a = .ok s') : Prog s s' a.mass (a.pidN (fun _ => 1)) := by
  cases a with
  | whole i =>
    simp only [startAction] at h
    split at h
    · cases h
      refine ⟨?_, ?_, ?_⟩ <;> simp [defer_T, defer_Q, defer_D, Action.mass, Action.pidN, Instr.mass] <;> omega
    · cases h
    · cases h
    · rename_i par _
      cases h
      have hm := worksOf_mass par i
      have hp := worksOf_pidN (fun _ => 1) par i
      refine ⟨?_, ?_, ?_⟩ <;>
        simp [State.T, State.Q, State.D, State.pidN, Action.mass, Action.pidN, ha, sumBy] <;> omega
  | piece par w =>
    cases w with
    | item attr x => exact stepItem_prog h
    | setE attr v => exact stepSet_prog h
    | sync attr so => exact stepSync_prog h
    | resync attr nid2 ty keys sy => exact stepResync_prog h

theorem stepWork_prog {mm s s'} {w : Work} (h : stepWork mm s w = .ok s') :
    Prog s s' w.mass (w.pidN (fun _ => 1)) := by
  cases w with
  | items par attr l =>
    cases l with
    | nil => have := checkTarget_items_nil h; subst this; refine ⟨?_, ?_, ?_⟩ <;> simp [Work.mass]
    | cons x l =>
      have := stepItem_prog h
      obtain ⟨a, b, c⟩ := this
      refine ⟨?_, ?_, ?_⟩ <;>
        simp [State.T, State.Q, State.D, State.pidN, sumBy, Work.mass, Work.pidN, itemsMass, itemsPidN] at * <;> omega
  | sets par l =>
    cases l with
    | nil => cases h; refine ⟨?_, ?_, ?_⟩ <;> simp [Work.mass]
    | cons x l =>
      obtain ⟨k, v⟩ := x
      have := stepSet_prog h
      obtain ⟨a, b, c⟩ := this
      refine ⟨?_, ?_, ?_⟩ <;>
        simp [State.T, State.Q, State.D, State.pidN, sumBy, Work.mass, Work.pidN, setMass, setPidN] at * <;> omega
  | syncs par attr l =>
    cases l with
    | nil => cases h; refine ⟨?_, ?_, ?_⟩ <;> simp [Work.mass]
    | cons x l =>
      have := stepSync_prog h
      obtain ⟨a, b, c⟩ := this
      refine ⟨?_, ?_, ?_⟩ <;>
        simp [State.T, State.Q, State.D, State.pidN, sumBy, Work.mass, Work.pidN, sosMass, sosPidN] at * <;> omega
  | resync par attr nid2 ty keys sync => exact stepResync_prog h
  | fulfil p i =>
    obtain ⟨a, b, c, d⟩ := fulfil_measure h
    refine ⟨?_, ?_, ?_⟩ <;> simp [Work.mass, Work.pidN] <;> omega
  | dels par attr l =>
    cases l with
    | nil => cases h; refine ⟨?_, ?_, ?_⟩ <;> simp [Work.mass]
    | cons x l =>
      have := stepDel_prog h
      obtain ⟨a, b, c⟩ := this
      refine ⟨?_, ?_, ?_⟩ <;>
        simp [State.T, State.Q, State.D, State.pidN, sumBy, Work.mass, Work.pidN] at * <;> omega

/-- every transition: total mass and pending promise ids do not grow, and either the runnable mass
shrinks or a promise id is used up -/
theorem step_prog {mm s s'} (h : step mm s = .ok (some s')) :
    s'.T ≤ s.T ∧ s'.D ≤ s.D ∧ (s'.Q < s.Q ∨ s'.D < s.D) := by
  unfold step at h
  split at h
  · rename_i w rest hag
    cases hw : stepWork mm { s with agenda := rest } w with
    | error e => simp [hw, Except.map] at h
    | ok s2 =>
      simp [hw, Except.map] at h
      subst h
      obtain ⟨a, b, c⟩ := stepWork_prog hw
      simp [State.T, State.Q, State.D, State.pidN, hag, sumBy] at *
      omega
  · rename_i hag
    split at h
    · cases h
    · rename_i a q hq
      cases hw : startAction mm { s with queue := q } a with
      | error e => simp [hw, Except.map] at h
      | ok s2 =>
        simp [hw, Except.map] at h
        subst h
        obtain ⟨a, b, c⟩ := startAction_prog (by simpa using hag) hw
        simp [State.T, State.Q, State.D, State.pidN, hag, hq, sumBy] at *
        omega

theorem Q_le_T (s : State) : s.Q ≤ s.T := by simp [State.T]

theorem step_measure {mm s s'} (h : step mm s = .ok (some s')) : s'.measure < s.measure := by
  obtain ⟨hT, hD, hp⟩ := step_prog h
  have h1 := Q_le_T s'
  unfold State.measure
  rcases hp with hq | hd
  · have : s'.D * (s'.T + 1) ≤ s.D * (s.T + 1) := Nat.mul_le_mul hD (by omega)
    omega
  · have h2 : (s'.D + 1) * (s.T + 1) ≤ s.D * (s.T + 1) := Nat.mul_le_mul (by omega) (Nat.le_refl _)
    have h3 : s'.D * (s'.T + 1) ≤ s'.D * (s.T + 1) := Nat.mul_le_mul (Nat.le_refl _) (by omega)
    rw [Nat.add_mul] at h2
    omega

/-- the loop ends within `measure` transitions -/
theorem run_measure_some (mm) : ∀ (n : Nat) (s : State), s.measure < n → (run mm n s).isSome
  | 0, _, h => by omega
  | n + 1, s, h => by
    unfold run
    split
    · simp
    · simp
    · rename_i s' hs
      have := step_measure hs
      exact run_measure_some mm n s' (by omega)

/-- more fuel does not change the answer -/
theorem run_mono (mm) : ∀ (n : Nat) (s : State) (r), run mm n s = some r → run mm (n + 1) s = some r
  | 0, _, _, h => by simp [run] at h
  | n + 1, s, r, h => by
    unfold run at h ⊢
    split
    · rename_i e he; simp [he] at h; simp [h]
    · rename_i he; simp [he] at h; simp [h]
    · rename_i s' he
      simp [he] at h
      exact run_mono mm n s' r h

/-- a transition leaves `promises` alone or appends one binding for a so far unbound id -/
def PsStep (s s' : State) : Prop :=
  s'.ps = s.ps ∨ ∃ p i, s.ps.lookup p = none ∧ s'.ps = s.ps ++ [(p, i)]

theorem fulfil_ps {s s' : State} {p i} (h : s.fulfil p i = .ok s') : PsStep s s' := by
  unfold State.fulfil at h
  split at h
  · cases h
  · rename_i hn
    cases h
    right
    refine ⟨p, i, ?_, rfl⟩
    cases hl : s.ps.lookup p <;> simp [hl] at hn ⊢

theorem stepItem_ps {mm s s' par attr} {x : Item} (h : stepItem mm s par attr x = .ok s') : PsStep s s' := by
  unfold stepItem at h
  split at h
  · cases h
  · cases x with
    | ref v =>
      simp only at h
      split at h <;> first | (cases h; left; rfl) | cases h
    | str nid str =>
      simp only at h
      split at h
      · cases h
      · split at h <;> first | (cases h; left; rfl) | cases h
    | obj nid pid ty scal kids =>
      simp only at h
      split at h
      · cases h; left; rfl
      · cases h
      · split at h
        · cases h
        · cases pid with
          | none =>
            simp [State.fulfilOpt, bind, Except.bind, pure, Except.pure] at h
            cases h; left; rfl
          | some p =>
            simp only [State.fulfilOpt, bind, Except.bind, pure, Except.pure] at h
            split at h
            · cases h
            · rename_i s2 hs2
              cases h
              have := fulfil_ps hs2
              exact this

theorem stepSet_ps {s s' par attr} {v : SetVal} (h : stepSet s par attr v = .ok s') : PsStep s s' := by
  cases v with
  | scalar v =>
    simp only [stepSet] at h
    split at h <;> first | (cases h; left; rfl) | cases h
  | list l =>
    simp only [stepSet] at h
    split at h <;> first | (cases h; left; rfl) | cases h

theorem stepSync_ps {s s' par attr} {so : SyncObj} (h : stepSync s par attr so = .ok s') : PsStep s s' := by
  obtain ⟨nid, nid2, ty, keys, pid, set, ext, sync⟩ := so
  simp only [stepSync] at h
  split at h
  · cases h; left; rfl
  · cases h
  · cases h; left; rfl
  · split at h <;> first | (cases h; left; rfl) | cases h

theorem stepResync_ps {mm s s' par attr nid2 ty keys sync}
    (h : stepResync mm s par attr nid2 ty keys sync = .ok s') : PsStep s s' := by
  simp only [stepResync] at h
  split at h
  · cases h; left; rfl
  · cases h
  · cases h; left; rfl
  · split at h
    · cases h
    · split at h
      · cases h
      · split at h <;> first | (cases h; left; rfl) | cases h

theorem stepDel_ps {s s' par attr} {v : Val} (h : stepDel s par attr v = .ok s') : PsStep s s' := by
  unfold stepDel at h
  split at h
  · cases h
  · split at h
    · cases h
    · cases h
    · cases h
    · split at h <;> first | (cases h; left; rfl) | cases h

theorem step_ps {mm s s'} (h : step mm s = .ok (some s')) : PsStep s s' := by
  unfold step at h
  split at h
  · rename_i w rest _
    simp only [Except.map] at h
    split at h
    · cases h
    · rename_i s2 hw
      simp at h; subst h
      cases w with
      | items par attr l =>
        cases l with
        | nil => have := checkTarget_items_nil hw; subst this; left; rfl
        | cons x l => have := stepItem_ps hw; exact this
      | sets par l =>
        cases l with
        | nil => cases hw; left; rfl
        | cons x l => have := stepSet_ps hw; exact this
      | syncs par attr l =>
        cases l with
        | nil => cases hw; left; rfl
        | cons x l => have := stepSync_ps hw; exact this
      | resync par attr nid2 ty keys sync => have := stepResync_ps hw; exact this
      | fulfil p i => have := fulfil_ps hw; exact this
      | dels par attr l =>
        cases l with
        | nil => cases hw; left; rfl
        | cons x l => have := stepDel_ps hw; exact this
  · split at h
    · cases h
    · rename_i a q _
      simp only [Except.map] at h
      split at h
      · cases h
      · rename_i s2 hw
        simp at h; subst h
        cases a with
        | whole i =>
          simp only [startAction] at hw
          split at hw <;> first | (cases hw; left; rfl) | cases hw
        | piece par pc =>
          cases pc with
          | item attr x => have := stepItem_ps hw; exact this
          | setE attr v => have := stepSet_ps hw; exact this
          | sync attr so => have := stepSync_ps hw; exact this
          | resync attr nid2 ty keys sy => have := stepResync_ps hw; exact this

theorem PsStep.lookup {s s'} (h : PsStep s s') {p i} (hp : s.ps.lookup p = some i) : s'.ps.lookup p = some i := by
  rcases h with h | ⟨q, j, _, h⟩
  · rw [h]; exact hp
  · rw [h, List.lookup_append]; simp [hp]

theorem lookup_none_not_mem (ps : Promises) (p : Str) (h : ps.lookup p = none) : p ∉ ps.map Prod.fst := by
  induction ps with
  | nil => simp
  | cons x t ih =>
    obtain ⟨k, v⟩ := x
    simp only [List.lookup] at h
    split at h
    · cases h
    · rename_i hne
      simp only [List.map_cons, List.mem_cons, not_or]
      refine ⟨?_, ih h⟩
      intro heq; subst heq; simp at hne

theorem PsStep.nodup {s s'} (h : PsStep s s') (hn : (s.ps.map Prod.fst).Nodup) : (s'.ps.map Prod.fst).Nodup := by
  rcases h with h | ⟨q, j, hq, h⟩
  · rw [h]; exact hn
  · rw [h, List.map_append, List.nodup_append]
    refine ⟨hn, by simp, ?_⟩
    intro a ha b hb
    simp at hb; subst hb
    intro hab; subst hab
    exact lookup_none_not_mem _ _ hq ha

/-- along a run: bindings are never changed or removed, and no id is bound twice -/
theorem run_ps {mm} : ∀ (n : Nat) (s r : State), run mm n s = some (.ok r) →
    (∀ p i, s.ps.lookup p = some i → r.ps.lookup p = some i) ∧
    ((s.ps.map Prod.fst).Nodup → (r.ps.map Prod.fst).Nodup)
  | 0, _, _, h => by simp [run] at h
  | n + 1, s, r, h => by
    unfold run at h
    split at h
    · simp at h
    · simp at h; subst h; exact ⟨fun _ _ h => h, fun h => h⟩
    · rename_i s' hs
      obtain ⟨a, b⟩ := run_ps n s' r h
      have hp := step_ps hs
      exact ⟨fun p i hpi => a p i (hp.lookup hpi), fun hn => b (hp.nodup hn)⟩

end Capella.Decl
