import Capella.Lemmas.AccessorFrame
import Capella.Model.CoupledList

/-! All-or-nothing at the accessor level: whatever is rejected before the first write leaves trees, index and
detached elements exactly as they were. -/
namespace Capella.Accessor
open Capella.Index Capella.AccTable

theorem bind_error {α β} (m : M α) (f : α → M β) (s : State) (e : Err) (h : (m s).val = .error e) :
    ((m >>= f) s).val = .error e ∧ ((m >>= f) s).st = (m s).st := by
  show (match m s with | ⟨.ok a, s'⟩ => f a s' | ⟨.error e, s'⟩ => ⟨.error e, s'⟩).val = _ ∧
       (match m s with | ⟨.ok a, s'⟩ => f a s' | ⟨.error e, s'⟩ => ⟨.error e, s'⟩).st = _
  rcases hms : m s with ⟨v, s'⟩
  rw [hms] at h
  simp only at h
  subst h
  exact ⟨rfl, rfl⟩

/-- a deletion refused while the purge contexts are being entered (a `PhysicalLinkEndsAccessor` reference, a
`TypecastAccessor` whose class lacks the attribute, an unresolvable placeholder …) raises that very error and changes
nothing: no tree, no index entry, no detached element -/
theorem deleteElems_refused (t : Tables) (self : ARow) (es : List Nat) (s : State) (e : Err)
    (h : (deleteEnter t self es s).val = .error e) :
    (deleteElems t self es s).val = .error e ∧ Same s (deleteElems t self es s).st := by
  unfold deleteElems
  obtain ⟨h1, h2⟩ := bind_error (deleteEnter t self es) _ s e h
  exact ⟨h1, by rw [h2]; exact (frame_deleteEnter t self es).fr s⟩

/-- a creation whose type hint matches no class (or several, or that needs a hint) is refused before anything is
reserved, appended or indexed -/
theorem accCreate_bad_type (fuel : Nat) (t : Tables) (row : ARow) (parent : Nat) (xmltag hint : Option String)
    (kw : List (String × Slot × KwVal)) (s : State) (e : Err) (h : (resolveXtype t row hint s).val = .error e) :
    (accCreate fuel t row parent xmltag hint kw s).val = .error e ∧ Same s (accCreate fuel t row parent xmltag hint kw s).st := by
  unfold accCreate
  obtain ⟨h1, h2⟩ := bind_error (resolveXtype t row hint) _ s e h
  exact ⟨h1, by rw [h2]; exact (frame_resolveXtype t row hint).fr s⟩

/-- `list.insert(i, NewObject(...))`, an object of another model: refused for every relation kind, nothing changes -/
theorem frame_listInsert_newObject (t row o es i h) : Frame (listInsert t row o es i (.newObject h)) := by
  unfold listInsert accInsert accInsertBase containInsert linkInsertM attrInsertM reqRelInsert; repeat' (first | contradiction | frame_step)

theorem frame_listInsert_foreign (t row o es i) : Frame (listInsert t row o es i .foreign) := by
  unfold listInsert accInsert accInsertBase containInsert linkInsertM attrInsertM reqRelInsert; repeat' (first | contradiction | frame_step)

/-- a full fixed-length list refuses `insert` with TypeError and changes nothing -/
theorem listInsert_fixed (t : Tables) (row : ARow) (o : Nat) (es : List Nat) (i : Int) (v : Val) (s : State)
    (hf : row.fixed ≠ 0) (hl : es.length ≥ row.fixed) :
    (listInsert t row o es i v s).val = .error .typeError ∧ Same s (listInsert t row o es i v s).st := by
  unfold listInsert
  have hc : (row.fixed != 0 && decide (es.length ≥ row.fixed)) = true := by simp [hf, hl]
  simp only [hc, if_true]
  exact ⟨rfl, ⟨rfl, rfl, rfl, rfl⟩⟩

/-- the sequence `AttrProxyAccessor.insert` writes is `list.insert` on the list in hand -/
theorem attrInsert_seq (elems : List Nat) (i : Int) (v : Nat) :
    elems.take (pySliceBound elems.length i) ++ [v] ++ elems.drop (pySliceBound elems.length i)
      = Capella.CoupledList.attrInsert elems i v := by
  simp [Capella.CoupledList.attrInsert, Capella.CoupledList.pyInsert, Capella.CoupledList.normIndex, pySliceBound]

/-- which members a whole-list / item / slice assignment drops: exactly the members whose own element is not among
the assigned values -/
theorem mem_setDropped (lst : List Nat) (values : List Val) (v : Nat) :
    v ∈ setDropped lst values ↔ v ∈ lst ∧ ¬ (∃ w ∈ values, w = Val.elem v) := by
  unfold setDropped setKeep
  rw [List.mem_filter]
  constructor
  · rintro ⟨h1, h2⟩
    refine ⟨h1, ?_⟩
    rintro ⟨w, hw, rfl⟩
    have : v ∈ values.filterMap (fun v => match v with | .elem n => some n | _ => none) :=
      List.mem_filterMap.mpr ⟨_, hw, rfl⟩
    simp only [Bool.not_eq_eq_eq_not, Bool.not_true, List.contains_eq_mem, decide_eq_false_iff_not] at h2
    exact h2 this
  · rintro ⟨h1, h2⟩
    refine ⟨h1, ?_⟩
    simp only [Bool.not_eq_eq_eq_not, Bool.not_true, List.contains_eq_mem, decide_eq_false_iff_not]
    intro hm
    obtain ⟨w, hw, he⟩ := List.mem_filterMap.mp hm
    apply h2
    refine ⟨w, hw, ?_⟩
    cases w <;> simp_all

/-- a slice bound inside the list is taken as it is -/
theorem pySliceBound_nat (n k : Nat) (h : k ≤ n) : pySliceBound n (k : Int) = k := by
  unfold pySliceBound
  have : ¬ ((k : Int) < 0) := by omega
  rw [if_neg this]
  simp; omega

/-- Python's `l[0:len(l)] = vs` replaces everything -/
theorem pySetSlice_whole {α : Type} (l vs : List α) : pySetSlice l 0 l.length vs = vs := by
  have h0 : pySliceBound l.length (0 : Int) = 0 := pySliceBound_nat l.length 0 (Nat.zero_le _)
  have h1 : pySliceBound l.length (l.length : Int) = l.length := pySliceBound_nat l.length l.length (Nat.le_refl _)
  simp [pySetSlice, h0, h1]

/-- Python's `l[k:k+1] = [v]` at a valid position is item assignment -/
theorem pySetSlice_one {α : Type} (l : List α) (k : Nat) (v : α) (h : k < l.length) :
    pySetSlice l k (k + 1) [v] = l.set k v := by
  have h1 : pySliceBound l.length (k : Int) = k := pySliceBound_nat _ _ (Nat.le_of_lt h)
  have h2 : pySliceBound l.length ((k : Int) + 1) = k + 1 := by
    have := pySliceBound_nat l.length (k + 1) h
    simpa using this
  simp only [pySetSlice, h1, h2]
  rw [Nat.max_eq_right (Nat.le_succ k), List.set_eq_take_append_cons_drop]
  simp [h]

/-- Python's `l[i:i] = [v]` is `l.insert(i, v)`, for every integer -/
theorem pySetSlice_empty_range (l : List Nat) (i : Int) (v : Nat) :
    pySetSlice l i i [v] = Capella.CoupledList.pyInsert l i v := by
  simp [pySetSlice, Capella.CoupledList.pyInsert, Capella.CoupledList.normIndex, pySliceBound]

/-- `DirectProxyAccessor.insert` / `RoleTagAccessor.insert` of an object into a list owned by the object itself or by
one of its descendants (/repo 0f18930, `_check_movable`): refused with ValueError; trees, indexes, detached elements and
pending creations are exactly as before. -/
theorem moveElem_below_itself (parent idx v : Nat) (s : State)
    (h : (subtreeRows s v).any (·.nid == parent) = true) :
    (moveElem parent idx v s).val = .error .valueError ∧ Same s (moveElem parent idx v s).st := by
  unfold moveElem
  simp only [bind, getS, h, hit, modS, raise]
  exact ⟨rfl, ⟨rfl, rfl, rfl, rfl⟩⟩

end Capella.Accessor
