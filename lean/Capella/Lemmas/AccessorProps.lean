import Capella.Lemmas.AccessorFrame
import Capella.Model.CoupledList

/-! All-or-nothing at the accessor level: whatever is rejected before the first write leaves trees, index and
detached elements exactly as they were. -/
namespace Capella.Accessor
open Capella.Index Capella.AccTable

theorem bind_error {α β} (m : M α) (f : α → M β) (s : State) (e : Err) (h : (m s).val = .error e) :
    ((m >>= f) s).val = .error e ∧ ((m >>= f) s).st = (m s).st := by
  show (match m s with | ⟨.ok a, s'⟩ => f a s' | ⟨.error e, s'⟩ => ⟨.error e, s'⟩).val = _ ∧
       (match m s with | ⟨.ok a, s'⟩ => f a s' | ⟨.error e, s'⟩ => ⟨.error e, s'⟩).st = _
  rcases hms : m s with ⟨v, s'⟩
  rw [hms] at h
  simp only at h
  subst h
  exact ⟨rfl, rfl⟩

/-- a deletion refused while the purge contexts are being entered (a `PhysicalLinkEndsAccessor` reference, a
`TypecastAccessor` whose class lacks the attribute, an unresolvable placeholder …) raises that very error and changes
nothing: no tree, no index entry, no detached element -/
theorem deleteElems_refused (t : Tables) (self : ARow) (es : List Nat) (s : State) (e : Err)
    (h : (deleteEnter t self es s).val = .error e) :
    (deleteElems t self es s).val = .error e ∧ Same s (deleteElems t self es s).st := by
  unfold deleteElems
  obtain ⟨h1, h2⟩ := bind_error (deleteEnter t self es) _ s e h
  exact ⟨h1, by rw [h2]; exact (frame_deleteEnter t self es).fr s⟩

/-- a creation whose type hint matches no class (or several, or that needs a hint) is refused before anything is
reserved, appended or indexed -/
theorem accCreate_bad_type (fuel : Nat) (t : Tables) (row : ARow) (parent : Nat) (xmltag hint : Option String)
    (kw : List (String × Slot × KwVal)) (s : State) (e : Err) (h : (resolveXtype t row hint s).val = .error e) :
    (accCreate fuel t row parent xmltag hint kw s).val = .error e ∧ Same s (accCreate fuel t row parent xmltag hint kw s).st := by
  unfold accCreate
  obtain ⟨h1, h2⟩ := bind_error (resolveXtype t row hint) _ s e h
  exact ⟨h1, by rw [h2]; exact (frame_resolveXtype t row hint).fr s⟩

/-- `list.insert(i, NewObject(...))`, an object of another model: refused for every relation kind, nothing changes -/
theorem frame_listInsert_newObject (row o es i h) : Frame (listInsert row o es i (.newObject h)) := by
  unfold listInsert accInsert containInsert linkInsertM attrInsertM; repeat' (first | contradiction | frame_step)

theorem frame_listInsert_foreign (row o es i) : Frame (listInsert row o es i .foreign) := by
  unfold listInsert accInsert containInsert linkInsertM attrInsertM; repeat' (first | contradiction | frame_step)

/-- a full fixed-length list refuses `insert` with TypeError and changes nothing -/
theorem listInsert_fixed (row : ARow) (o : Nat) (es : List Nat) (i : Int) (v : Val) (s : State)
    (hf : row.fixed ≠ 0) (hl : es.length ≥ row.fixed) :
    (listInsert row o es i v s).val = .error .typeError ∧ Same s (listInsert row o es i v s).st := by
  unfold listInsert
  have hc : (row.fixed != 0 && decide (es.length ≥ row.fixed)) = true := by simp [hf, hl]
  simp only [hc, if_true]
  exact ⟨rfl, ⟨rfl, rfl, rfl, rfl⟩⟩

/-- the sequence `AttrProxyAccessor.insert` writes is `list.insert` on the list in hand -/
theorem attrInsert_seq (elems : List Nat) (i : Int) (v : Nat) :
    elems.take (pySliceBound elems.length i) ++ [v] ++ elems.drop (pySliceBound elems.length i)
      = Capella.CoupledList.attrInsert elems i v := by
  simp [Capella.CoupledList.attrInsert, Capella.CoupledList.pyInsert, Capella.CoupledList.normIndex, pySliceBound]

end Capella.Accessor
