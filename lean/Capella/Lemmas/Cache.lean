import Capella.Model.Cache

/-! Helper lemmas for C19 (diagram cache lookups). Core Lean only. -/

namespace Capella.Cache

/-! ### `_walk_converters`: the fuel-free description and its agreement with `walk` -/

/-- what the unbounded Python generator yields: start at the object with id `i`, follow
`depends` until it is `None`. -/
inductive Chain (T : Table) : Str → List Conv → Prop
  | last {i c} : T.find i = some c → c.depends = none → Chain T i [c]
  | step {i c d rest} : T.find i = some c → c.depends = some d → Chain T d rest →
      Chain T i (c :: rest)

theorem Table.find_id {T : Table} {i : Str} {c : Conv} (h : T.find i = some c) : c.id = i := by
  unfold Table.find at h
  have := List.find?_some h
  simpa using this

theorem walk_sound {T : Table} : ∀ {n i ch}, walk T n i = some ch → Chain T i ch := by
  intro n
  induction n with
  | zero => intro i ch h; simp [walk] at h
  | succ n ih =>
    intro i ch h
    unfold walk at h
    split at h
    · simp at h
    · rename_i c hc
      split at h
      · rename_i hd
        simp at h; subst h
        exact .last hc hd
      · rename_i d hd
        cases hw : walk T n d with
        | none => simp [hw] at h
        | some rest =>
          simp [hw] at h; subst h
          exact .step hc hd (ih hw)

theorem walk_complete {T : Table} {i ch} (h : Chain T i ch) : ∀ n, ch.length ≤ n → walk T n i = some ch := by
  induction h with
  | last hc hd =>
    intro n hn
    cases n with
    | zero => simp at hn
    | succ n => simp [walk, hc, hd]
  | step hc hd _ ih =>
    intro n hn
    cases n with
    | zero => simp at hn
    | succ n =>
      have := ih n (by simpa using hn)
      simp [walk, hc, hd, this]

theorem Chain.det {T : Table} {i ch ch'} (h : Chain T i ch) : Chain T i ch' → ch = ch' := by
  induction h generalizing ch' with
  | last hc hd =>
    intro h'
    cases h' with
    | last hc' hd' => rw [hc] at hc'; cases hc'; rfl
    | step hc' hd' _ => rw [hc] at hc'; cases hc'; rw [hd] at hd'; cases hd'
  | step hc hd _ ih =>
    intro h'
    cases h' with
    | last hc' hd' => rw [hc] at hc'; cases hc'; rw [hd] at hd'; cases hd'
    | step hc' hd' hr' =>
      rw [hc] at hc'; cases hc'; rw [hd] at hd'; cases hd'
      rw [ih hr']

/-- more fuel never changes the answer -/
theorem walk_mono {T : Table} {n m i ch} (h : walk T n i = some ch) (hnm : n ≤ m) :
    walk T m i = some ch := by
  have hc := walk_sound h
  have hl : ch.length ≤ n := by
    clear hnm hc
    induction n generalizing i ch with
    | zero => simp [walk] at h
    | succ n ih =>
      unfold walk at h
      split at h
      · simp at h
      · split at h
        · simp at h; subst h; simp
        · rename_i d hd
          cases hw : walk T n d with
          | none => simp [hw] at h
          | some rest =>
            simp [hw] at h; subst h
            have := ih hw
            simp; omega
  exact walk_complete hc m (by omega)

theorem Chain.ne_nil {T : Table} {i ch} (h : Chain T i ch) : ch ≠ [] := by
  cases h <;> simp

theorem Chain.head_id {T : Table} {i ch} (h : Chain T i ch) : ∃ c rest, ch = c :: rest ∧ c.id = i := by
  cases h with
  | last hc _ => exact ⟨_, _, rfl, Table.find_id hc⟩
  | step hc _ _ => exact ⟨_, _, rfl, Table.find_id hc⟩

/-- every non-empty suffix of a chain is the chain of its first element -/
theorem Chain.suffix {T : Table} {i ch} (h : Chain T i ch) :
    ∀ pre c rest, ch = pre ++ c :: rest → Chain T c.id (c :: rest) := by
  induction h with
  | last hc hd =>
    intro pre c rest he
    cases pre with
    | nil =>
      simp at he; obtain ⟨rfl, rfl⟩ := he
      rw [Table.find_id hc]; exact .last hc hd
    | cons p ps =>
      simp at he
  | step hc hd hr ih =>
    intro pre c rest he
    cases pre with
    | nil =>
      simp at he; obtain ⟨rfl, rfl⟩ := he
      rw [Table.find_id hc]; exact .step hc hd hr
    | cons p ps =>
      simp at he
      exact ih ps c rest he.2

/-- a chain that ends visits every converter object at most once -/
theorem Chain.nodup {T : Table} {i ch} (h : Chain T i ch) : (ch.map (·.id)).Nodup := by
  induction h with
  | last hc hd => simp
  | @step i c d rest hc hd hr ih =>
    rw [List.map_cons, List.nodup_cons]
    refine ⟨?_, ih⟩
    intro hm
    obtain ⟨c', hc', hid⟩ := List.mem_map.mp hm
    obtain ⟨pre, post, hsplit⟩ := List.append_of_mem hc'
    have hs := hr.suffix pre c' post hsplit
    have hfull : Chain T c'.id (c :: rest) := by
      rw [hid, Table.find_id hc]; exact .step hc hd hr
    have := hs.det hfull
    have hl := congrArg List.length this
    rw [hsplit] at hl
    simp at hl
    omega

/-! ### `__load_cache` -/

section
variable {B D : Type}

/-- declarative "nearest cached ancestor": position `k` of the chain holds a cache-loadable
converter whose file `u ++ e` exists, and no earlier cache-loadable converter's file does -/
def Nearest (openf : Str → Option B) (u : Str) (ch : List Conv) (k : Nat) (c : Conv) (e : Str) (b : B) : Prop :=
  ch[k]? = some c ∧ usableFor u c = some e ∧ openf (u ++ e) = some b ∧
  ∀ j, j < k → ∀ c' e', ch[j]? = some c' → usableFor u c' = some e' → openf (u ++ e') = none

/-- nothing usable is cached for `u` along the chain -/
def NoneCached (openf : Str → Option B) (u : Str) (ch : List Conv) : Prop :=
  ∀ c ∈ ch, ∀ e, usableFor u c = some e → openf (u ++ e) = none

/-- the names `__load_cache` asks the handler for when the first hit is at position `k` -/
def probedNames (u : Str) (ch : List Conv) (k : Nat) : List Str :=
  ((ch.take (k + 1)).filterMap (usableFor u)).map (u ++ ·)

theorem Nearest.unique {openf : Str → Option B} {u ch k c e b k' c' e' b'}
    (h : Nearest openf u ch k c e b) (h' : Nearest openf u ch k' c' e' b') :
    k = k' ∧ c = c' ∧ e = e' ∧ b = b' := by
  obtain ⟨h1, h2, h3, h4⟩ := h
  obtain ⟨h1', h2', h3', h4'⟩ := h'
  have hk : k = k' := by
    rcases Nat.lt_trichotomy k k' with hlt | heq | hgt
    · have := h4' k hlt c e h1 h2; rw [h3] at this; cases this
    · exact heq
    · have := h4 k' hgt c' e' h1' h2'; rw [h3'] at this; cases this
  subst hk
  rw [h1] at h1'; cases h1'
  rw [h2] at h2'; cases h2'
  rw [h3] at h3'; cases h3'
  exact ⟨rfl, rfl, rfl, rfl⟩

theorem probe_hit {openf : Str → Option B} {u : Str} :
    ∀ (ch : List Conv) (o : Nat) {names i c b},
      probe openf u ch o = (names, some (i, c, b)) →
      ∃ k e, i = o + k ∧ Nearest openf u ch k c e b ∧ names = probedNames u ch k := by
  intro ch
  induction ch with
  | nil => intro o names i c b h; simp [probe] at h
  | cons x rest ih =>
    intro o names i c b h
    unfold probe at h
    split at h
    · rename_i hx
      obtain ⟨k, e, hi, hn, hnames⟩ := ih (o + 1) h
      refine ⟨k + 1, e, by omega, ?_, ?_⟩
      · obtain ⟨h1, h2, h3, h4⟩ := hn
        refine ⟨by simpa using h1, h2, h3, ?_⟩
        intro j hj c' e' hc' he'
        cases j with
        | zero => simp at hc'; subst hc'; rw [hx] at he'; cases he'
        | succ j => exact h4 j (by omega) c' e' (by simpa using hc') he'
      · rw [hnames]; simp [probedNames, List.take_succ_cons, hx]
    · rename_i e hx
      split at h
      · rename_i b' hb
        simp at h
        obtain ⟨rfl, rfl, rfl, rfl⟩ := h
        refine ⟨0, e, rfl, ⟨by simp, hx, hb, by intro j hj; omega⟩, ?_⟩
        simp [probedNames, hx]
      · rename_i hb
        cases hp : probe openf u rest (o + 1) with
        | mk ns r =>
          rw [hp] at h
          simp at h
          obtain ⟨rfl, rfl⟩ := h
          obtain ⟨k, e', hi, hn, hnames⟩ := ih (o + 1) hp
          refine ⟨k + 1, e', by omega, ?_, ?_⟩
          · obtain ⟨h1, h2, h3, h4⟩ := hn
            refine ⟨by simpa using h1, h2, h3, ?_⟩
            intro j hj c' e'' hc' he'
            cases j with
            | zero => simp at hc'; subst hc'; rw [hx] at he'; cases he'; exact hb
            | succ j => exact h4 j (by omega) c' e'' (by simpa using hc') he'
          · rw [hnames]; simp [probedNames, List.take_succ_cons, hx]

theorem probe_miss {openf : Str → Option B} {u : Str} :
    ∀ (ch : List Conv) (o : Nat) {names},
      probe openf u ch o = (names, none) →
      NoneCached openf u ch ∧ names = (ch.filterMap (usableFor u)).map (u ++ ·) := by
  intro ch
  induction ch with
  | nil => intro o names h; simp [probe] at h; subst h; simp [NoneCached]
  | cons x rest ih =>
    intro o names h
    unfold probe at h
    split at h
    · rename_i hx
      obtain ⟨hn, hnames⟩ := ih (o + 1) h
      refine ⟨?_, by simp [hnames, hx]⟩
      intro c hc e he
      rcases List.mem_cons.mp hc with rfl | hc
      · rw [hx] at he; cases he
      · exact hn c hc e he
    · rename_i e hx
      split at h
      · simp at h
      · rename_i hb
        cases hp : probe openf u rest (o + 1) with
        | mk ns r =>
          rw [hp] at h
          simp at h
          obtain ⟨rfl, rfl⟩ := h
          obtain ⟨hn, hnames⟩ := ih (o + 1) hp
          refine ⟨?_, by simp [hnames, hx]⟩
          intro c hc e' he
          rcases List.mem_cons.mp hc with rfl | hc
          · rw [hx] at he; cases he; exact hb
          · exact hn c hc e' he

/-- a hit exists iff something usable is cached (`probe` is total and decides it) -/
theorem nearest_or_none (openf : Str → Option B) (u : Str) (ch : List Conv) :
    (∃ k c e b, Nearest openf u ch k c e b) ∨ NoneCached openf u ch := by
  cases hp : probe openf u ch 0 with
  | mk names r =>
    cases r with
    | none => exact .inr (probe_miss ch 0 hp).1
    | some t =>
      obtain ⟨i, c, b⟩ := t
      obtain ⟨k, e, _, hn, _⟩ := probe_hit ch 0 hp
      exact .inl ⟨k, c, e, b, hn⟩

theorem Nearest.not_none {openf : Str → Option B} {u ch k c e b}
    (h : Nearest openf u ch k c e b) : ¬ NoneCached openf u ch := by
  intro hn
  obtain ⟨h1, h2, h3, _⟩ := h
  have := hn c (List.mem_of_getElem? h1) e h2
  rw [h3] at this; cases this

theorem loadCache_hit (ops : Ops B D) {openf : Str → Option B} {u ch k c e b}
    (h : Nearest openf u ch k c e b) :
    loadCache ops openf u ch =
      ((probedNames u ch k).map .opened ++ [.fromCache c.id] ++ evsLoad (ch.take k),
       .ok (runLoad ops (ch.take k) (ops.fromCache c.id b))) := by
  unfold loadCache
  cases hp : probe openf u ch 0 with
  | mk names r =>
    cases r with
    | none => exact absurd (probe_miss ch 0 hp).1 h.not_none
    | some t =>
      obtain ⟨i, c', b'⟩ := t
      obtain ⟨k', e', hi, hn, hnames⟩ := probe_hit ch 0 hp
      obtain ⟨rfl, rfl, rfl, rfl⟩ := h.unique hn
      simp at hi; subst hi
      simp [hnames]

theorem loadCache_miss (ops : Ops B D) {openf : Str → Option B} {u ch}
    (h : NoneCached openf u ch) :
    loadCache ops openf u ch =
      (((ch.filterMap (usableFor u)).map (u ++ ·)).map .opened, .error .keyError) := by
  unfold loadCache
  cases hp : probe openf u ch 0 with
  | mk names r =>
    cases r with
    | none => simp [(probe_miss ch 0 hp).2]
    | some t =>
      obtain ⟨i, c, b⟩ := t
      obtain ⟨k, e, _, hn, _⟩ := probe_hit ch 0 hp
      exact absurd h hn.not_none

/-- the lookup only depends on the files named `u ++ e` for extensions `e` of the chain -/
theorem probe_congr {openf openf' : Str → Option B} {u : Str} :
    ∀ (ch : List Conv) (o : Nat),
      (∀ c ∈ ch, ∀ e, usableFor u c = some e → openf (u ++ e) = openf' (u ++ e)) →
      probe openf u ch o = probe openf' u ch o := by
  intro ch
  induction ch with
  | nil => intro o _; simp [probe]
  | cons x rest ih =>
    intro o h
    have hr := ih (o + 1) (fun c hc e he => h c (List.mem_cons_of_mem _ hc) e he)
    unfold probe
    split
    · exact hr
    · rename_i e hx
      rw [← h x (List.mem_cons_self) e hx, hr]

/-! ### direct conversion (`convert_format`) -/

theorem takeWhile_id_ne {ch : List Conv} (hnd : (ch.map (·.id)).Nodup) :
    ∀ {k c}, ch[k]? = some c → ch.takeWhile (fun x => x.id != c.id) = ch.take k := by
  induction ch with
  | nil => intro k c h; simp at h
  | cons x rest ih =>
    intro k c h
    rw [List.map_cons, List.nodup_cons] at hnd
    cases k with
    | zero =>
      simp at h; subst h
      simp
    | succ k =>
      simp at h
      have hmem : c ∈ rest := List.mem_of_getElem? h
      have hne : x.id ≠ c.id := by
        intro heq
        exact hnd.1 (heq ▸ List.mem_map_of_mem hmem)
      have := ih hnd.2 h
      simp [hne, this]

theorem runLoad_eq_runChain (ops : Ops B D) {ch : List Conv}
    (h : ∀ c ∈ ch, c.hasConvert = c.isFormat) (d : D) :
    runLoad ops ch d = runChain ops false ch d := by
  induction ch with
  | nil => rfl
  | cons x rest ih =>
    have hr := ih (fun c hc => h c (List.mem_cons_of_mem _ hc))
    simp only [runLoad, runChain, List.foldr_cons] at hr ⊢
    rw [hr]
    simp [stepLoad, stepRun, h x List.mem_cons_self]

theorem evsLoad_eq_evsRun {ch : List Conv}
    (h : ∀ c ∈ ch, c.hasConvert = c.isFormat) :
    evsLoad ch = evsRun false ch := by
  unfold evsLoad evsRun
  apply List.map_congr_left
  intro c hc
  simp [evLoad, evRun, h c (List.mem_reverse.mp hc)]

end

/-! ### file names -/

def SuffixFree (exts : List Str) : Prop :=
  ∀ e ∈ exts, ∀ e' ∈ exts, e <:+ e' → e = e'

theorem suffixFree_of_B {exts : List Str} (h : suffixFreeB exts = true) : SuffixFree exts := by
  intro e he e' he' hs
  unfold suffixFreeB at h
  rw [List.all_eq_true] at h
  have := h e he
  rw [List.all_eq_true] at this
  have := this e' he'
  simp only [Bool.or_eq_true, Bool.not_eq_true', beq_iff_eq] at this
  rcases this with h1 | h1
  · have : e.isSuffixOf e' = true := List.isSuffixOf_iff_suffix.mpr hs
    rw [h1] at this; cases this
  · exact h1

/-- `uuid + ext` determines both the uuid and the extension, for all strings, as soon as no
extension is a proper suffix of another -/
theorem name_injective {exts : List Str} (hs : SuffixFree exts) {u u' e e' : Str}
    (he : e ∈ exts) (he' : e' ∈ exts) (h : u ++ e = u' ++ e') : u = u' ∧ e = e' := by
  have hee : e = e' := by
    rcases List.append_eq_append_iff.mp h with ⟨a, h1, h2⟩ | ⟨a, h1, h2⟩
    · -- u' = u ++ a, e = a ++ e'
      exact (hs e' he' e he ⟨a, h2.symm⟩).symm
    · -- u = u' ++ a, e' = a ++ e
      exact hs e he e' he' ⟨a, h2.symm⟩
  subst hee
  exact ⟨List.append_cancel_right h, rfl⟩

/-- what is probed for a diagram is cache-loadable, and its name is a plain file name -/
theorem usableFor_some {u : Str} {c : Conv} {e : Str} (h : usableFor u c = some e) :
    usableExt c = some e ∧ plainName (u ++ e) = true := by
  unfold usableFor at h
  split at h
  · cases h
  · rename_i e' he'
    split at h
    · rename_i hp; cases h; exact ⟨he', hp⟩
    · cases h

/-- a plain name is resolved to itself by every handler (all clauses of `Capella.Path.target`) -/
theorem target_of_plain (h : Capella.Path.Handler) (sd n : Str) (hp : plainName n = true) :
    Capella.Path.target h sd n = Capella.Path.normalize [] [sd] ++ [n] := by
  have : Capella.Path.normalize [] [n] = [n] := by simpa [plainName] using hp
  cases h <;> simp [Capella.Path.target, this]

theorem usableFor_of_plain {u : Str} {c : Conv} {e : Str} (h : usableExt c = some e)
    (hp : plainName (u ++ e) = true) : usableFor u c = some e := by
  simp [usableFor, h, hp]

theorem usableExt_mem_exts {T : Table} {c : Conv} {e : Str} (hc : c ∈ T.convs)
    (he : usableExt c = some e) : e ∈ T.exts := by
  unfold Table.exts
  exact List.mem_filterMap.mpr ⟨c, hc, he⟩

theorem Chain.mem_convs {T : Table} {i ch} (h : Chain T i ch) : ∀ c ∈ ch, c ∈ T.convs := by
  induction h with
  | last hc _ =>
    intro c hm; simp at hm; subst hm
    exact List.mem_of_find?_eq_some hc
  | step hc _ _ ih =>
    intro c hm
    rcases List.mem_cons.mp hm with rfl | hm
    · exact List.mem_of_find?_eq_some hc
    · exact ih c hm

/-! ### table well-formedness as propositions -/

structure Table.WF (T : Table) : Prop where
  acyclic    : T.acyclicB = true
  dispatch   : T.dispatchAgreeB = true
  suffixFree : suffixFreeB T.exts = true
  registered : T.usableRegisteredB = true
  nodup      : T.idsNodupB = true

theorem Table.chain_sound {T : Table} {i ch} (h : T.chain i = some ch) : Chain T i ch :=
  walk_sound h

/-- with unique entry-point names, `_find_format_converter(name)` loads the listed object -/
theorem Table.entry_of_mem {T : Table} (hnd : (T.entries.map (·.1)).Nodup) {n i : Str}
    (h : (n, i) ∈ T.entries) : T.entry n = some i := by
  unfold Table.entry
  generalize T.entries = es at hnd h
  induction es with
  | nil => simp at h
  | cons x rest ih =>
    rw [List.map_cons, List.nodup_cons] at hnd
    rcases List.mem_cons.mp h with rfl | h
    · simp
    · have hne : x.1 ≠ n := by
        intro heq
        exact hnd.1 (heq ▸ List.mem_map_of_mem (f := (·.1)) h)
      simp [hne, ih hnd.2 h]

theorem Table.WF.registered_entry {T : Table} (wf : T.WF) {c : Conv} {e : Str}
    (hc : c ∈ T.convs) (he : usableExt c = some e) : ∃ s, T.entry s = some c.id := by
  have h := wf.registered
  unfold Table.usableRegisteredB at h
  rw [List.all_eq_true] at h
  have := h c hc
  simp only [he, Option.isNone_some, Bool.false_or, List.any_eq_true, decide_eq_true_eq] at this
  obtain ⟨⟨n, i⟩, hmem, hid⟩ := this
  have hn := wf.nodup
  unfold Table.idsNodupB at hn
  simp only [Bool.and_eq_true, decide_eq_true_eq] at hn
  refine ⟨n, ?_⟩
  have := Table.entry_of_mem hn.2 hmem
  simpa [← hid] using this

theorem Table.WF.dispatch_mem {T : Table} (wf : T.WF) {c : Conv} (hc : c ∈ T.convs) :
    c.hasConvert = c.isFormat := by
  have h := wf.dispatch
  unfold Table.dispatchAgreeB at h
  rw [List.all_eq_true] at h
  simpa using h c hc

/-! ### `render` in its three situations -/

section
variable {B D : Type}

theorem render_hit (T : Table) (ops : Ops B D) {openf : Str → Option B} (fresh : Except Err D)
    {cfg : Cfg} {u f i : Str} {ch : List Conv} (pretty : Bool)
    (hf : T.entry f = some i) (hc : T.chain i = some ch) (hcache : cfg.cache = true)
    {k c e b} (hn : Nearest openf u ch k c e b) :
    render T ops openf fresh cfg u (some f) pretty =
      ((probedNames u ch k).map .opened ++ [.fromCache c.id] ++ evsLoad (ch.take k),
       .ok (runLoad ops (ch.take k) (ops.fromCache c.id b))) := by
  simp only [render, hf, hc, hcache, loadCache_hit ops hn, if_true]

theorem render_miss_noallow (T : Table) (ops : Ops B D) {openf : Str → Option B} (fresh : Except Err D)
    {cfg : Cfg} {u f i : Str} {ch : List Conv} (pretty : Bool)
    (hf : T.entry f = some i) (hc : T.chain i = some ch) (hcache : cfg.cache = true)
    (hallow : cfg.allowRender = false) (hn : NoneCached openf u ch) :
    render T ops openf fresh cfg u (some f) pretty =
      (((ch.filterMap (usableFor u)).map (u ++ ·)).map .opened, .error .notInCache) := by
  simp [render, hf, hc, hcache, hallow, loadCache_miss ops hn]

theorem render_miss_allow (T : Table) (ops : Ops B D) {openf : Str → Option B} (fresh : Except Err D)
    {cfg : Cfg} {u f i : Str} {ch : List Conv} (pretty : Bool)
    (hf : T.entry f = some i) (hc : T.chain i = some ch) (hcache : cfg.cache = true)
    (hallow : cfg.allowRender = true) (hn : NoneCached openf u ch) :
    render T ops openf fresh cfg u (some f) pretty =
      (((ch.filterMap (usableFor u)).map (u ++ ·)).map .opened ++ (renderFresh ops fresh pretty ch).1,
       (renderFresh ops fresh pretty ch).2) := by
  simp [render, hf, hc, hcache, hallow, loadCache_miss ops hn]

theorem render_nocache (T : Table) (ops : Ops B D) (openf : Str → Option B) (fresh : Except Err D)
    {cfg : Cfg} {u f i : Str} {ch : List Conv} (pretty : Bool)
    (hf : T.entry f = some i) (hc : T.chain i = some ch) (hcache : cfg.cache = false) :
    render T ops openf fresh cfg u (some f) pretty = renderFresh ops fresh pretty ch := by
  simp [render, hf, hc, hcache]

theorem openedNames_map_opened (ns : List Str) : openedNames (ns.map .opened) = ns := by
  induction ns with
  | nil => rfl
  | cons n rest ih => simp [openedNames] at ih ⊢; exact ih

theorem openedNames_append (a b : List Ev) : openedNames (a ++ b) = openedNames a ++ openedNames b := by
  simp [openedNames]

theorem openedNames_evsLoad (ch : List Conv) : openedNames (evsLoad ch) = [] := by
  unfold evsLoad openedNames
  rw [List.filterMap_eq_nil_iff]
  intro ev hev
  obtain ⟨c, _, rfl⟩ := List.mem_map.mp hev
  cases h : c.hasConvert <;> simp [evLoad, h]

theorem openedNames_evsRun (p : Bool) (ch : List Conv) : openedNames (evsRun p ch) = [] := by
  unfold evsRun openedNames
  rw [List.filterMap_eq_nil_iff]
  intro ev hev
  obtain ⟨c, _, rfl⟩ := List.mem_map.mp hev
  cases p <;> cases h1 : c.isPretty <;> cases h2 : c.isFormat <;> simp [evRun, h1, h2]

theorem openedNames_renderFresh (ops : Ops B D) (fresh : Except Err D) (p : Bool) (ch : List Conv) :
    openedNames (renderFresh ops fresh p ch).1 = [] := by
  unfold renderFresh
  cases fresh with
  | error e => rfl
  | ok d =>
    show openedNames (Ev.fresh :: evsRun p ch) = []
    have := openedNames_evsRun p ch
    simp [openedNames] at this ⊢
    exact this

theorem probedNames_sub (u : Str) (ch : List Conv) (k : Nat) :
    ∀ n ∈ probedNames u ch k, ∃ c ∈ ch, ∃ e, usableFor u c = some e ∧ n = u ++ e := by
  intro n hn
  unfold probedNames at hn
  obtain ⟨e, he, rfl⟩ := List.mem_map.mp hn
  obtain ⟨c, hc, hce⟩ := List.mem_filterMap.mp he
  exact ⟨c, List.mem_of_mem_take hc, e, hce, rfl⟩

/-- every file name `render` opens on the cache handler is `u ++ e` for a cache extension `e`
of a converter on the chain -/
theorem render_opened_sub (T : Table) (ops : Ops B D) (openf : Str → Option B) (fresh : Except Err D)
    (cfg : Cfg) (u : Str) (fmt : Option Str) (pretty : Bool) :
    ∀ n ∈ openedNames (render T ops openf fresh cfg u fmt pretty).1,
      ∃ c ∈ T.convs, ∃ e, usableFor u c = some e ∧ n = u ++ e := by
  intro n hn
  cases fmt with
  | none =>
    simp only [render] at hn
    rw [openedNames_renderFresh] at hn; cases hn
  | some f =>
    cases hf : T.entry f with
    | none => simp [render, hf, openedNames] at hn
    | some i =>
      cases hc : T.chain i with
      | none => simp [render, hf, hc, openedNames] at hn
      | some ch =>
        have hsub := (Table.chain_sound hc).mem_convs
        cases hcache : cfg.cache with
        | false =>
          rw [render_nocache T ops openf fresh pretty hf hc hcache, openedNames_renderFresh] at hn
          cases hn
        | true =>
          rcases nearest_or_none openf u ch with ⟨k, c, e, b, hnear⟩ | hnone
          · rw [render_hit T ops fresh pretty hf hc hcache hnear] at hn
            simp only [openedNames_append, openedNames_map_opened, openedNames_evsLoad,
              List.append_nil] at hn
            have : openedNames [Ev.fromCache c.id] = [] := rfl
            rw [this, List.append_nil] at hn
            obtain ⟨c', hc', e', he', rfl⟩ := probedNames_sub u ch k n hn
            exact ⟨c', hsub c' hc', e', he', rfl⟩
          · cases hallow : cfg.allowRender with
            | false =>
              rw [render_miss_noallow T ops fresh pretty hf hc hcache hallow hnone,
                openedNames_map_opened] at hn
              obtain ⟨e, he, rfl⟩ := List.mem_map.mp hn
              obtain ⟨c, hc', hce⟩ := List.mem_filterMap.mp he
              exact ⟨c, hsub c hc', e, hce, rfl⟩
            | true =>
              rw [render_miss_allow T ops fresh pretty hf hc hcache hallow hnone,
                openedNames_append, openedNames_map_opened, openedNames_renderFresh,
                List.append_nil] at hn
              obtain ⟨e, he, rfl⟩ := List.mem_map.mp hn
              obtain ⟨c, hc', hce⟩ := List.mem_filterMap.mp he
              exact ⟨c, hsub c hc', e, hce, rfl⟩

/-- `render` looks at the cache only through the names `u ++ e`, `e` a cache extension -/
theorem render_congr (T : Table) (ops : Ops B D) {openf openf' : Str → Option B} (fresh : Except Err D)
    (cfg : Cfg) (u : Str) (fmt : Option Str) (pretty : Bool)
    (h : ∀ e ∈ T.exts, openf (u ++ e) = openf' (u ++ e)) :
    render T ops openf fresh cfg u fmt pretty = render T ops openf' fresh cfg u fmt pretty := by
  cases fmt with
  | none => rfl
  | some f =>
    cases hf : T.entry f with
    | none => simp [render, hf]
    | some i =>
      cases hc : T.chain i with
      | none => simp [render, hf, hc]
      | some ch =>
        have hsub := (Table.chain_sound hc).mem_convs
        have hp : probe openf u ch 0 = probe openf' u ch 0 :=
          probe_congr ch 0 (fun c hc' e he => h e (usableExt_mem_exts (hsub c hc') (usableFor_some he).1))
        simp only [render, hf, hc, loadCache, hp]

end

end Capella.Cache
