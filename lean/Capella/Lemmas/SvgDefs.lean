import Capella.Lemmas.Svg
import Capella.Model.SvgDefs

/-! Lemmas about the `<defs>` state machine (`Capella/Model/SvgDefs.lean`), part 1: what is referenced is
defined — through every deduplication shortcut. Core Lean only. -/

namespace Capella.Svg

@[simp] theorem note_defs (st : DState) (b : Br) : (st.note b).defs = st.defs := rfl
@[simp] theorem note_cache (st : DState) (b : Br) : (st.note b).cache = st.cache := rfl
@[simp] theorem note_topIds (st : DState) (b : Br) : (st.note b).topIds = st.topIds := rfl
@[simp] theorem note_allIds (st : DState) (b : Br) : (st.note b).allIds = st.allIds := rfl
@[simp] theorem push_defs (st : DState) (e : DefEl) : (st.push e).defs = st.defs ++ [e] := rfl
@[simp] theorem push_cache (st : DState) (e : DefEl) : (st.push e).cache = st.cache := rfl
@[simp] theorem push_topIds (st : DState) (e : DefEl) : (st.push e).topIds = st.topIds ++ [e.id] := by
  simp [DState.topIds, DState.push]
@[simp] theorem push_allIds (st : DState) (e : DefEl) : (st.push e).allIds = st.allIds ++ e.ids := by
  simp [DState.allIds, DState.push]
@[simp] theorem cached_defs (st : DState) (n : Str) : (st.cached n).defs = st.defs := rfl
@[simp] theorem cached_cache (st : DState) (n : Str) : (st.cached n).cache = n :: st.cache := rfl
@[simp] theorem cached_topIds (st : DState) (n : Str) : (st.cached n).topIds = st.topIds := rfl
@[simp] theorem cached_allIds (st : DState) (n : Str) : (st.cached n).allIds = st.allIds := rfl

/-- nothing is ever removed from `<defs>` or from `deco_cache` -/
structure Mono (st st' : DState) : Prop where
  all : ∀ x ∈ st.allIds, x ∈ st'.allIds
  top : ∀ x ∈ st.topIds, x ∈ st'.topIds
  cache : ∀ n ∈ st.cache, n ∈ st'.cache

theorem Mono.refl (st : DState) : Mono st st := ⟨fun _ h => h, fun _ h => h, fun _ h => h⟩
theorem Mono.trans {a b c : DState} (h1 : Mono a b) (h2 : Mono b c) : Mono a c :=
  ⟨fun x h => h2.all x (h1.all x h), fun x h => h2.top x (h1.top x h), fun x h => h2.cache x (h1.cache x h)⟩
theorem Mono.note (st : DState) (b : Br) : Mono st (st.note b) := ⟨fun _ h => h, fun _ h => h, fun _ h => h⟩
theorem Mono.push (st : DState) (e : DefEl) : Mono st (st.push e) :=
  ⟨fun _ h => by simp [h], fun _ h => by simp [h], fun _ h => h⟩
theorem Mono.cached (st : DState) (n : Str) : Mono st (st.cached n) :=
  ⟨fun _ h => h, fun _ h => h, fun _ h => by simp [h]⟩

/-- what the drawing state guarantees for every name in `deco_cache`: its `…Symbol` id, all ids of its
own fragment and everything its fragments reference are defined; and every element's own id is one of
the ids it defines -/
structure Inv (symbols : List SymbolRow) (st : DState) : Prop where
  own : ∀ e ∈ st.defs, e.id ∈ e.ids
  sym : ∀ n ∈ st.cache, n ++ symbolSuffix ∈ st.topIds
  row : ∀ n ∈ st.cache, ∀ r, findSymbol symbols n = some r → ∀ x ∈ r.ids, x ∈ st.allIds
  inner : ∀ n ∈ st.cache, ∀ fuel, ∀ x ∈ symbolInnerRefs symbols fuel n, x ∈ st.allIds

theorem Inv.empty (symbols : List SymbolRow) : Inv symbols {} :=
  ⟨(fun _ h => nomatch h), (fun _ h => nomatch h), (fun _ h => nomatch h), (fun _ h => nomatch h)⟩

theorem Inv.topSub {symbols : List SymbolRow} {st : DState} (h : Inv symbols st) : ∀ x ∈ st.topIds, x ∈ st.allIds := by
  intro x hx
  obtain ⟨e, he, rfl⟩ := List.mem_map.mp hx
  exact List.mem_flatMap.mpr ⟨e, he, h.own e he⟩

theorem Inv.note {symbols : List SymbolRow} {st : DState} (h : Inv symbols st) (b : Br) : Inv symbols (st.note b) :=
  ⟨h.own, h.sym, h.row, h.inner⟩

/-- adding an element whose own id is among its ids keeps the invariant -/
theorem Inv.push {symbols : List SymbolRow} {st : DState} (h : Inv symbols st) (e : DefEl) (he : e.id ∈ e.ids) :
    Inv symbols (st.push e) := by
  refine ⟨?_, ?_, ?_, ?_⟩
  · intro e' h'
    simp only [push_defs, List.mem_append, List.mem_singleton] at h'
    rcases h' with h' | rfl
    · exact h.own e' h'
    · exact he
  · intro n hn; simp only [push_topIds, List.mem_append]; exact .inl (h.sym n hn)
  · intro n hn r hr x hx; simp only [push_allIds, List.mem_append]; exact .inl (h.row n hn r hr x hx)
  · intro n hn f x hx; simp only [push_allIds, List.mem_append]; exact .inl (h.inner n hn f x hx)

/-! ### `guardLoop` and `_add_decofactory` -/

theorem guardLoop_inv {symbols : List SymbolRow} {hit miss : Br} {f : Str → DState → Except Err DState}
    (hf : ∀ d st st', f d st = .ok st' → Inv symbols st → Inv symbols st' ∧ d ∈ st'.cache ∧ Mono st st') :
    ∀ (xs : List Str) (st st' : DState), guardLoop hit miss f xs st = .ok st' → Inv symbols st →
      Inv symbols st' ∧ (∀ d ∈ xs, d ∈ st'.cache) ∧ Mono st st' := by
  intro xs
  induction xs with
  | nil =>
    intro st st' h hi
    simp only [guardLoop, Except.ok.injEq] at h
    subst h
    exact ⟨hi, (fun _ hd => nomatch hd), Mono.refl _⟩
  | cons d ds ih =>
    intro st st' h hi
    simp only [guardLoop] at h
    by_cases hc : st.cache.contains d = true
    · simp only [hc, if_true] at h
      obtain ⟨i', hall, hm⟩ := ih _ _ h (hi.note hit)
      refine ⟨i', ?_, (Mono.note st hit).trans hm⟩
      intro x hx
      rcases List.mem_cons.mp hx with rfl | hx
      · exact hm.cache x (by simpa using hc)
      · exact hall x hx
    · simp only [hc, bind, Except.bind] at h
      cases hfd : f d (st.note miss) with
      | error e => rw [hfd] at h; simp at h
      | ok st1 =>
        rw [hfd] at h
        simp only [Bool.false_eq_true, if_false] at h
        obtain ⟨i1, hd1, m1⟩ := hf d _ _ hfd (hi.note miss)
        obtain ⟨i', hall, hm⟩ := ih _ _ h i1
        refine ⟨i', ?_, ((Mono.note st miss).trans m1).trans hm⟩
        intro x hx
        rcases List.mem_cons.mp hx with rfl | hx
        · exact hm.cache x hd1
        · exact hall x hx

theorem addDeco_inv {symbols : List SymbolRow} (hwf : ∀ r ∈ symbols, symbolWF symbols r = true)
    (herr : errorSymbolOK symbols = true) :
    ∀ (fuel : Nat) (name : Str) (st st' : DState), addDeco symbols fuel name st = .ok st' → Inv symbols st →
      Inv symbols st' ∧ name ∈ st'.cache ∧ Mono st st' := by
  intro fuel
  induction fuel with
  | zero => intro name st st' h; simp [addDeco] at h
  | succ fuel ih =>
    intro name st st' h hi
    unfold addDeco at h
    cases hfs : findSymbol symbols name with
    | some r =>
      rw [hfs] at h
      simp only [bind, Except.bind] at h
      cases hl : guardLoop .depCached .depNew (addDeco symbols fuel) r.deps ((st.push (symEl r)).note .decoRow) with
      | error e => rw [hl] at h; cases h
      | ok st2 =>
        rw [hl] at h
        simp only [pure, Except.pure, Except.ok.injEq] at h
        subst h
        obtain ⟨hn, hm⟩ := findSymbol_name hfs
        have hw := hwf r hm
        simp only [symbolWF, Bool.and_eq_true, List.all_eq_true, decide_eq_true_eq] at hw
        have hidin : r.name ∈ r.ids := by simpa using hw.1.1.2
        have hown : (symEl r).id ∈ (symEl r).ids := by
          simp only [symEl, hw.1.1.1, Option.getD_some]; exact hidin
        obtain ⟨i2, hdeps, m2⟩ := guardLoop_inv (fun d a b => ih d a b) _ _ _ hl ((hi.push _ hown).note _)
        have m1 : Mono st st2 := ((Mono.push st (symEl r)).trans (Mono.note _ _)).trans m2
        have hrids : ∀ x ∈ r.ids, x ∈ st2.allIds := fun x hx =>
          m2.all x (by simp only [note_allIds, push_allIds, List.mem_append]; exact .inr hx)
        refine ⟨⟨i2.own, ?_, ?_, ?_⟩, by simp, m1.trans (Mono.cached _ _)⟩
        · intro n hn'
          simp only [cached_cache, List.mem_cons] at hn'
          simp only [cached_topIds]
          rcases hn' with rfl | hn'
          · exact m2.top _ (by simp [symEl, hw.1.1.1, hn])
          · exact i2.sym n hn'
        · intro n hn' r' hr' x hx
          simp only [cached_cache, List.mem_cons] at hn'
          simp only [cached_allIds]
          rcases hn' with rfl | hn'
          · rw [hfs] at hr'; cases hr'; exact hrids x hx
          · exact i2.row n hn' r' hr' x hx
        · intro n hn' f x hx
          simp only [cached_cache, List.mem_cons] at hn'
          simp only [cached_allIds]
          rcases hn' with rfl | hn'
          · cases f with
            | zero => simp [symbolInnerRefs] at hx
            | succ f =>
              unfold symbolInnerRefs at hx
              rw [hfs] at hx
              rcases List.mem_append.mp hx with hx | hx
              · have := hw.2 x hx
                simp only [Bool.or_eq_true, List.any_eq_true] at this
                rcases this with hin | ⟨d, hd, hds⟩
                · exact hrids x (by simpa using hin)
                · cases hfd : findSymbol symbols d with
                  | none => rw [hfd] at hds; cases hds
                  | some sd =>
                    rw [hfd] at hds
                    exact i2.row d (hdeps d hd) sd hfd x (by simpa using hds)
              · obtain ⟨d, hd, hxd⟩ := List.mem_flatMap.mp hx
                exact i2.inner d (hdeps d hd) f x hxd
          · exact i2.inner n hn' f x hx
    | none =>
      rw [hfs] at h
      cases hfe : findSymbol symbols errorName with
      | none => rw [hfe] at h; cases h
      | some e =>
        rw [hfe] at h
        simp only [bind, Except.bind] at h
        cases hl : guardLoop .depCached .depNew (addDeco symbols fuel) e.deps
            ((st.push (fallbackEl name e)).note .decoFallback) with
        | error e' => rw [hl] at h; cases h
        | ok st2 =>
          rw [hl] at h
          simp only [pure, Except.pure, Except.ok.injEq] at h
          subst h
          have hown : (fallbackEl name e).id ∈ (fallbackEl name e).ids := by simp [fallbackEl]
          obtain ⟨i2, _, m2⟩ := guardLoop_inv (fun d a b => ih d a b) _ _ _ hl ((hi.push _ hown).note _)
          have m1 : Mono st st2 := ((Mono.push st _).trans (Mono.note _ _)).trans m2
          have herefs : e.refs = [] := by
            unfold errorSymbolOK at herr
            rw [hfe] at herr
            simp only [Bool.and_eq_true, List.isEmpty_iff] at herr
            exact herr.1
          refine ⟨⟨i2.own, ?_, ?_, ?_⟩, by simp, m1.trans (Mono.cached _ _)⟩
          · intro n hn'
            simp only [cached_cache, List.mem_cons] at hn'
            simp only [cached_topIds]
            rcases hn' with rfl | hn'
            · exact m2.top _ (by simp [fallbackEl])
            · exact i2.sym n hn'
          · intro n hn' r' hr' x hx
            simp only [cached_cache, List.mem_cons] at hn'
            simp only [cached_allIds]
            rcases hn' with rfl | hn'
            · rw [hfs] at hr'; cases hr'
            · exact i2.row n hn' r' hr' x hx
          · intro n hn' f x hx
            simp only [cached_cache, List.mem_cons] at hn'
            simp only [cached_allIds]
            rcases hn' with rfl | hn'
            · cases f with
              | zero => simp [symbolInnerRefs] at hx
              | succ f =>
                unfold symbolInnerRefs at hx
                rw [hfs, hfe] at hx
                simp only [herefs] at hx
                cases hx
            · exact i2.inner n hn' f x hx

theorem useLoop_inv {symbols : List SymbolRow} (hwf : ∀ r ∈ symbols, symbolWF symbols r = true)
    (herr : errorSymbolOK symbols = true) {uses : List Str} {st st' : DState}
    (h : useLoop symbols uses st = .ok st') (hi : Inv symbols st) :
    Inv symbols st' ∧ (∀ u ∈ uses, u ∈ st'.cache) ∧ Mono st st' :=
  guardLoop_inv (fun d a b => addDeco_inv hwf herr _ d a b) _ _ _ h hi

/-! ### `_deploy_defs`: gradients and markers -/

theorem mem_insertPair (p q : Str × Val) : ∀ l : List (Str × Val), q ∈ insertPair p l ↔ q = p ∨ q ∈ l := by
  intro l
  induction l with
  | nil => simp [insertPair]
  | cons x xs ih =>
    simp only [insertPair]
    split
    · simp
    · simp only [List.mem_cons, ih]
      constructor
      · rintro (h | h | h)
        · exact .inr (.inl h)
        · exact .inl h
        · exact .inr (.inr h)
      · rintro (h | h | h)
        · exact .inr (.inl h)
        · exact .inl h
        · exact .inr (.inr h)

theorem mem_sortPairs (q : Str × Val) : ∀ l : List (Str × Val), q ∈ sortPairs l ↔ q ∈ l := by
  intro l
  induction l with
  | nil => simp [sortPairs]
  | cons x xs ih =>
    have : sortPairs (x :: xs) = insertPair x (sortPairs xs) := rfl
    rw [this, mem_insertPair, ih]
    simp

/-- what a step that only ever appends elements whose own id is among their ids preserves -/
structure Step (symbols : List SymbolRow) (st st' : DState) : Prop where
  mono : Mono st st'
  cache : st'.cache = st.cache
  inv : Inv symbols st → Inv symbols st'

theorem Step.refl (symbols : List SymbolRow) (st : DState) : Step symbols st st := ⟨Mono.refl _, rfl, id⟩
theorem Step.trans {symbols : List SymbolRow} {a b c : DState} (h1 : Step symbols a b) (h2 : Step symbols b c) :
    Step symbols a c := ⟨h1.mono.trans h2.mono, by rw [h2.cache, h1.cache], fun h => h2.inv (h1.inv h)⟩
theorem Step.note (symbols : List SymbolRow) (st : DState) (b : Br) : Step symbols st (st.note b) :=
  ⟨Mono.note _ _, rfl, fun h => h.note b⟩
theorem Step.push (symbols : List SymbolRow) (st : DState) (e : DefEl) (he : e.id ∈ e.ids) :
    Step symbols st (st.push e) := ⟨Mono.push _ _, rfl, fun h => h.push e he⟩

theorem gradStep_spec {symbols : List SymbolRow} {defaults : List (Str × Val)} {s : Styling} {st st' : DState}
    {kv : Str × Val} (h : gradStep defaults s st kv = .ok st') :
    Step symbols st st' ∧ (isMarkerKey kv.1 = false → ∀ hs, kv.2 = .grad hs → gradId hs ∈ st'.topIds) := by
  unfold gradStep at h
  by_cases hk : isMarkerKey kv.1 = true
  · simp only [hk, if_true, bind, Except.bind] at h
    cases hh : hexOf (refStroke defaults s) with
    | error e => rw [hh] at h; cases h
    | ok x =>
      rw [hh] at h
      simp only [pure, Except.pure, Except.ok.injEq] at h
      subst h
      exact ⟨Step.note _ _ _, fun hf => by rw [hk] at hf; cases hf⟩
  · simp only [hk, Bool.false_eq_true, if_false] at h
    cases hv : kv.2 with
    | grad hs =>
      rw [hv] at h
      simp only at h
      by_cases hc : st.topIds.contains (gradId hs) = true
      · simp only [hc, if_true, pure, Except.pure, Except.ok.injEq] at h
        subst h
        refine ⟨Step.note _ _ _, fun _ hs' he => ?_⟩
        cases he
        simpa using hc
      · simp only [hc, Bool.false_eq_true, if_false, pure, Except.pure, Except.ok.injEq] at h
        subst h
        refine ⟨(Step.push _ _ _ (by simp [gradEl])).trans (Step.note _ _ _), fun _ hs' he => ?_⟩
        cases he
        simp [gradEl]
    | color x => rw [hv] at h; simp only [pure, Except.pure, Except.ok.injEq] at h; subst h; exact ⟨Step.note _ _ _, fun _ hs he => by cases he⟩
    | str x => rw [hv] at h; simp only [pure, Except.pure, Except.ok.injEq] at h; subst h; exact ⟨Step.note _ _ _, fun _ hs he => by cases he⟩
    | num x => rw [hv] at h; simp only [pure, Except.pure, Except.ok.injEq] at h; subst h; exact ⟨Step.note _ _ _, fun _ hs he => by cases he⟩
    | none => rw [hv] at h; simp only [pure, Except.pure, Except.ok.injEq] at h; subst h; exact ⟨Step.note _ _ _, fun _ hs he => by cases he⟩
    | other x => rw [hv] at h; simp only [pure, Except.pure, Except.ok.injEq] at h; subst h; exact ⟨Step.note _ _ _, fun _ hs he => by cases he⟩

theorem gradLoop_spec {symbols : List SymbolRow} {defaults : List (Str × Val)} {s : Styling} :
    ∀ (ks : List (Str × Val)) (st st' : DState), gradLoop defaults s ks st = .ok st' →
      Step symbols st st' ∧ ∀ kv ∈ ks, isMarkerKey kv.1 = false → ∀ hs, kv.2 = .grad hs → gradId hs ∈ st'.topIds := by
  intro ks
  induction ks with
  | nil =>
    intro st st' h
    simp only [gradLoop, Except.ok.injEq] at h
    subst h
    exact ⟨Step.refl _ _, fun _ hk => nomatch hk⟩
  | cons kv ks ih =>
    intro st st' h
    simp only [gradLoop, bind, Except.bind] at h
    cases h1 : gradStep defaults s st kv with
    | error e => rw [h1] at h; cases h
    | ok st1 =>
      rw [h1] at h
      obtain ⟨s1, g1⟩ := gradStep_spec (symbols := symbols) h1
      obtain ⟨s2, g2⟩ := ih _ _ h
      refine ⟨s1.trans s2, ?_⟩
      intro kv' hkv hm hs he
      rcases List.mem_cons.mp hkv with rfl | hkv
      · exact s2.mono.top _ (g1 hm hs he)
      · exact g2 kv' hkv hm hs he

theorem markerStep_spec {symbols : List SymbolRow} {defaults : List (Str × Val)} {markers : List MarkerRow}
    {s : Styling} {st st' : DState} {attr : Str} (h : markerStep defaults markers s st attr = .ok st') :
    Step symbols st st' ∧
    ∀ m, lookup s.attrs attr = some (.str m) →
      ∃ hx, hexOf (deployStroke defaults s) = .ok hx ∧ joinId m [hx] ∈ st'.topIds := by
  unfold markerStep at h
  cases hm : deployMarkerName true defaults s attr with
  | none =>
    rw [hm] at h; simp only [pure, Except.pure, Except.ok.injEq] at h; subst h
    refine ⟨Step.note _ _ _, ?_⟩
    intro m hl
    simp [deployMarkerName, hl] at hm
  | some v =>
    rw [hm] at h
    cases v with
    | none =>
      simp only [pure, Except.pure, Except.ok.injEq] at h; subst h
      refine ⟨Step.note _ _ _, ?_⟩
      intro m hl
      simp [deployMarkerName, hl] at hm
    | str m' =>
      simp only [bind, Except.bind] at h
      cases hh : hexOf (deployStroke defaults s) with
      | error e => rw [hh] at h; cases h
      | ok hx =>
        rw [hh] at h
        simp only at h
        have hmm : ∀ m, lookup s.attrs attr = some (.str m) → m = m' := by
          intro m hl
          simp [deployMarkerName, hl] at hm
          exact hm
        by_cases hc : st.topIds.contains (joinId m' [hx]) = true
        · simp only [hc, if_true, pure, Except.pure, Except.ok.injEq] at h
          subst h
          refine ⟨Step.note _ _ _, fun m hl => ⟨hx, rfl, ?_⟩⟩
          rw [hmm m hl]
          simpa using hc
        · simp only [hc, Bool.false_eq_true, if_false] at h
          by_cases hk : hasMarker markers m' = true
          · simp only [hk, if_true, pure, Except.pure, Except.ok.injEq] at h
            subst h
            refine ⟨(Step.push _ _ _ (by simp [markerEl])).trans (Step.note _ _ _), fun m hl => ⟨hx, rfl, ?_⟩⟩
            rw [hmm m hl]
            simp [markerEl]
          · simp [hk] at h
    | color x => cases h
    | num x => cases h
    | grad x => cases h
    | other x => cases h

/-- **`_deploy_defs` with its shortcuts still defines every id the styling references** -/
theorem deployDefs_closed {symbols : List SymbolRow} {styles : List StyleEntry} {markers : List MarkerRow}
    {s : Styling} {st st' : DState} {rs : List Str}
    (hr : styleRefs styles s = .ok rs) (hd : deployDefs styles markers s st = .ok st') :
    Step symbols st st' ∧ ∀ r ∈ rs, r ∈ st'.topIds := by
  unfold styleRefs at hr
  unfold deployDefs at hd
  simp only [bind, Except.bind] at hr hd
  cases hg : getStyle styles s.dc s.cls with
  | error e => rw [hg] at hr; cases hr
  | ok defaults =>
    rw [hg] at hr hd
    simp only at hr hd
    cases hr1 : refStep defaults s (gradRefs s.attrs) markerStart with
    | error e => rw [hr1] at hr; cases hr
    | ok acc1 =>
      rw [hr1] at hr
      cases hd0 : gradLoop defaults s (iterItems defaults s) st with
      | error e => rw [hd0] at hd; cases hd
      | ok st0 =>
        rw [hd0] at hd
        simp only at hd
        cases hd1 : markerStep defaults markers s st0 markerStart with
        | error e => rw [hd1] at hd; cases hd
        | ok st1 =>
          rw [hd1] at hd
          simp only at hr hd
          obtain ⟨s0, g0⟩ := gradLoop_spec (symbols := symbols) _ _ _ hd0
          obtain ⟨s1, m1⟩ := markerStep_spec (symbols := symbols) hd1
          obtain ⟨s2, m2⟩ := markerStep_spec (symbols := symbols) hd
          refine ⟨(s0.trans s1).trans s2, ?_⟩
          have hgrad : ∀ r ∈ gradRefs s.attrs, r ∈ st'.topIds := by
            intro r hr'
            unfold gradRefs at hr'
            obtain ⟨⟨k, v⟩, hkv, hsome⟩ := List.mem_filterMap.mp hr'
            simp only at hsome
            by_cases hk : isMarkerKey k = true
            · simp [hk] at hsome
            · simp only [hk, Bool.false_eq_true, if_false] at hsome
              cases v with
              | grad hs =>
                simp only [Option.some.injEq] at hsome
                subst hsome
                have hin : (k, Val.grad hs) ∈ iterItems defaults s :=
                  List.mem_append_right _ ((mem_sortPairs _ _).mpr hkv)
                exact s2.mono.top _ (s1.mono.top _ (g0 _ hin (by simpa using hk) hs rfl))
              | color x => cases hsome
              | str x => cases hsome
              | num x => cases hsome
              | none => cases hsome
              | other x => cases hsome
          intro r hrm
          rcases refStep_mem hr r hrm with hin | ⟨m, hx, hl, hh, rfl⟩
          · rcases refStep_mem hr1 r hin with hin | ⟨m, hx, hl, hh, rfl⟩
            · exact hgrad r hin
            · obtain ⟨hx', hh', hmem⟩ := m1 m hl
              rw [stroke_agree defaults s hh hh']
              exact s2.mono.top _ hmem
          · obtain ⟨hx', hh', hmem⟩ := m2 m hl
            rw [stroke_agree defaults s hh hh']
            exact hmem

/-- `_deploy_defs` never fails to be a `Step`, whatever is referenced -/
theorem deployDefs_step {symbols : List SymbolRow} {styles : List StyleEntry} {markers : List MarkerRow}
    {s : Styling} {st st' : DState} (hd : deployDefs styles markers s st = .ok st') : Step symbols st st' := by
  unfold deployDefs at hd
  simp only [bind, Except.bind] at hd
  cases hg : getStyle styles s.dc s.cls with
  | error e => rw [hg] at hd; cases hd
  | ok defaults =>
    rw [hg] at hd
    simp only at hd
    cases hd0 : gradLoop defaults s (iterItems defaults s) st with
    | error e => rw [hd0] at hd; cases hd
    | ok st0 =>
      rw [hd0] at hd
      simp only at hd
      cases hd1 : markerStep defaults markers s st0 markerStart with
      | error e => rw [hd1] at hd; cases hd
      | ok st1 =>
        rw [hd1] at hd
        simp only at hd
        exact ((gradLoop_spec (symbols := symbols) _ _ _ hd0).1.trans (markerStep_spec hd1).1).trans (markerStep_spec hd).1

/-! ### one object, the whole document -/

/-- **`draw_object` on any drawing state**: afterwards every id referenced from the new group — marker,
gradient, symbol — and from inside the symbol fragments it relies on is defined in `<defs>`; nothing
that was defined before is lost -/
theorem drawObjectS_closed {T : Tables} (wf : T.WF) {dc : Option Str} {o : Obj} {st st' : DState} {d : DrawnS}
    (h : drawObjectS T dc o st = .ok (d, st')) (hi : Inv T.symbols st) :
    Inv T.symbols st' ∧ Mono st st' ∧ (∀ r ∈ d.outer, r ∈ st'.topIds) ∧ ∀ r ∈ d.inner, r ∈ st'.allIds := by
  unfold drawObjectS at h
  simp only [bind, Except.bind] at h
  cases hg : getStyle T.styles dc (styleType o.kind ++ '.' :: o.cls) with
  | error e => rw [hg] at h; cases h
  | ok defaults =>
    rw [hg] at h
    simp only at h
    split at h
    · cases h
    · cases h1 : styleRefs T.styles (prepare T dc o defaults).objStyle with
      | error e => rw [h1] at h; cases h
      | ok shapeRefs =>
        rw [h1] at h; simp only at h
        cases h2 : textRefsOf T (prepare T dc o defaults) with
        | error e => rw [h2] at h; cases h
        | ok textRefs =>
          rw [h2] at h; simp only at h
          cases h3 : useLoop T.symbols (prepare T dc o defaults).uses st with
          | error e => rw [h3] at h; cases h
          | ok st1 =>
            rw [h3] at h; simp only at h
            cases h4 : deployDefs T.styles T.markers (prepare T dc o defaults).objStyle st1 with
            | error e => rw [h4] at h; cases h
            | ok st2 =>
              rw [h4] at h; simp only at h
              cases h5 : deployDefs T.styles T.markers (prepare T dc o defaults).textStyle st2 with
              | error e => rw [h5] at h; cases h
              | ok st3 =>
                rw [h5] at h
                simp only [pure, Except.pure, Except.ok.injEq, Prod.mk.injEq] at h
                obtain ⟨hd, hst⟩ := h
                subst hd; subst hst
                obtain ⟨i1, huse, m1⟩ := useLoop_inv wf.symbols wf.error h3 hi
                obtain ⟨s2, r2⟩ := deployDefs_closed (symbols := T.symbols) h1 h4
                have s3 : Step T.symbols st2 st3 := deployDefs_step h5
                have i3 : Inv T.symbols st3 := s3.inv (s2.inv i1)
                have hc3 : ∀ u ∈ (prepare T dc o defaults).uses, u ∈ st3.cache := by
                  intro u hu; rw [s3.cache, s2.cache]; exact huse u hu
                refine ⟨i3, (m1.trans s2.mono).trans s3.mono, ?_, ?_⟩
                · intro r hr
                  simp only [List.mem_append] at hr
                  rcases hr with (hr | hr) | hr
                  · exact s3.mono.top r (r2 r hr)
                  · unfold textRefsOf at h2
                    by_cases ht : (prepare T dc o defaults).text = true
                    · simp only [ht, if_true] at h2
                      exact (deployDefs_closed (symbols := T.symbols) h2 h5).2 r hr
                    · simp only [ht] at h2
                      simp at h2
                      subst h2; cases hr
                  · obtain ⟨u, hu, rfl⟩ := List.mem_map.mp hr
                    exact i3.sym u (hc3 u hu)
                · intro r hr
                  obtain ⟨u, hu, hx⟩ := List.mem_flatMap.mp hr
                  exact i3.inner u (hc3 u hu) _ r hx

theorem drawAllS_closed {T : Tables} (wf : T.WF) {dc : Option Str} :
    ∀ (os : List Obj) (st st' : DState) (ds : List DrawnS), drawAllS T dc os st = .ok (ds, st') → Inv T.symbols st →
      Inv T.symbols st' ∧ Mono st st' ∧ (∀ r ∈ ds.flatMap (·.outer), r ∈ st'.topIds) ∧
        ∀ r ∈ ds.flatMap (·.inner), r ∈ st'.allIds := by
  intro os
  induction os with
  | nil =>
    intro st st' ds h hi
    simp only [drawAllS, Except.ok.injEq, Prod.mk.injEq] at h
    obtain ⟨rfl, rfl⟩ := h
    exact ⟨hi, Mono.refl _, (fun _ hr => nomatch hr), (fun _ hr => nomatch hr)⟩
  | cons o os ih =>
    intro st st' ds h hi
    simp only [drawAllS, bind, Except.bind] at h
    cases h1 : drawObjectS T dc o st with
    | error e => rw [h1] at h; cases h
    | ok p1 =>
      obtain ⟨d, st1⟩ := p1
      rw [h1] at h
      simp only at h
      cases h2 : drawAllS T dc os st1 with
      | error e => rw [h2] at h; cases h
      | ok p2 =>
        obtain ⟨ds', st2⟩ := p2
        rw [h2] at h
        simp only [pure, Except.pure, Except.ok.injEq, Prod.mk.injEq] at h
        obtain ⟨rfl, rfl⟩ := h
        obtain ⟨i1, m1, c1, e1⟩ := drawObjectS_closed wf h1 hi
        obtain ⟨i2, m2, c2, e2⟩ := ih _ _ _ h2 i1
        refine ⟨i2, m1.trans m2, ?_, ?_⟩
        · intro r hr
          simp only [List.flatMap_cons, List.mem_append] at hr
          rcases hr with hr | hr
          · exact m2.top r (c1 r hr)
          · exact c2 r hr
        · intro r hr
          simp only [List.flatMap_cons, List.mem_append] at hr
          rcases hr with hr | hr
          · exact m2.all r (e1 r hr)
          · exact e2 r hr

end Capella.Svg
