import Capella.Lemmas.XmlWritten
import Capella.Lemmas.XmlLexFuel
import Capella.Lemmas.XmlBuild
/-! Characters → tokens for whole trees: the writer's output lexes to `toksE`, for every line
length (layer 2 of the round trip; C01/C02). -/
namespace Capella.Xml

/-- `s` is a complete run of tokens `ts`, whatever follows -/
def Lexes (s : Str) (ts : List Tok) : Prop :=
  ∀ (X : Str) (f : Nat), lexAll (f + ts.length) (s ++ X) = (lexAll f X).map (ts ++ ·)

theorem Lexes.nil : Lexes [] [] := by
  intro X f; simp

theorem Lexes.append {s1 s2 : Str} {t1 t2 : List Tok} (h1 : Lexes s1 t1) (h2 : Lexes s2 t2) :
    Lexes (s1 ++ s2) (t1 ++ t2) := by
  intro X f
  rw [List.append_assoc, List.length_append, show f + (t1.length + t2.length) = (f + t2.length) + t1.length by omega,
    h1, h2]
  cases lexAll f X <;> simp

theorem Lexes.single {s : Str} {t : Tok} (h : ∀ X, nextTok (s ++ X) = .tok t X) : Lexes s [t] := by
  intro X f
  simp only [List.length_singleton]
  rw [lexAll_tok (h X)]
  rfl

/-- character data followed by markup -/
theorem Lexes.text {w t s2 : Str} {ts2 : List Tok} (hne : w ≠ []) (hlt : w.all (· != '<') = true)
    (hcd : hasCdataEnd w = false) (hcr : '\r' ∉ w) (hdec : unescapeXml w = some t)
    (hs2 : ∃ r, s2 = '<' :: r) (h2 : Lexes s2 ts2) : Lexes (w ++ s2) (.text t :: ts2) := by
  intro X f
  obtain ⟨r, rfl⟩ := hs2
  rw [List.append_assoc, List.length_cons, show f + (ts2.length + 1) = (f + ts2.length) + 1 by omega]
  rw [List.cons_append, lexAll_tok (nextTok_text w t hne hlt hcd hcr hdec (r ++ X))]
  rw [← List.cons_append, h2]
  cases lexAll f X <;> simp

theorem Lexes.nl_ind (n : Nat) {s2 : Str} {ts2 : List Tok} (hs2 : ∃ r, s2 = '<' :: r) (h2 : Lexes s2 ts2) :
    Lexes (('\n' :: ind n) ++ s2) (.text ('\n' :: ind n) :: ts2) := by
  apply Lexes.text _ _ _ _ _ hs2 h2
  · simp
  · simp only [List.all_eq_true, bne_iff_ne, ne_eq]
    intro c hc; rcases mem_nl_ind hc with h | h <;> subst h <;> decide
  · apply hasCdataEnd_no_gt
    intro hc; rcases mem_nl_ind hc with h | h <;> exact absurd h (by decide)
  · intro hc; rcases mem_nl_ind hc with h | h <;> exact absurd h (by decide)
  · apply unescGo_no_amp
    intro hc; rcases mem_nl_ind hc with h | h <;> exact absurd h (by decide)

/-! ### one element -/

theorem serElem_head (ll : Nat) (pns : List (Str × Str)) (isRoot : Bool) (indent pos : Nat) (e : Elem) :
    ∃ r, (serElem ll pns isRoot indent pos e).1 = '<' :: r := by
  cases e with
  | mk tag nsd attrs text tail kids =>
    unfold serElem
    simp only
    split
    · exact ⟨_, rfl⟩
    · exact ⟨_, rfl⟩

/-- the start tag of a well-formed element is one token -/
theorem Lexes_stag {pns : List (Str × Str)} (hinv : NsInv pns) {tag nsd attrs text tail kids}
    (hwf : wfElem pns (.mk tag nsd attrs text tail kids) = true)
    (ll : Nat) (isRoot : Bool) (ai pos : Nat) (force sc : Bool) (pk : List Str) :
    Lexes ('<' :: (unmap (scope pns nsd) tag ++
        ((serAttrs ll ai isRoot (unmappedAttrs pk (scope pns nsd) attrs) pos force).1 ++ closerStr sc)))
      [.stag (unmap (scope pns nsd) tag) (rawAttrs pk (scope pns nsd) attrs) sc] := by
  obtain ⟨hns, htag, hattrs, hnd, _⟩ := wfElem_facts hwf
  obtain ⟨hsc, hinvW⟩ := hinv.scope hns
  rw [hsc] at htag hattrs ⊢
  obtain ⟨hn, hs⟩ := lexName_unmap hinvW false tag htag
  obtain ⟨hreads, hmap⟩ := unmappedAttrs_reads hinvW pk attrs hattrs
  apply Lexes.single
  intro X
  have := nextTok_stag (unmap (nsd ++ pns) tag) hn hs ll ai isRoot (unmappedAttrs pk (nsd ++ pns) attrs)
    dvOf hreads (by rw [hmap]; exact rawAttrs_distinct hinvW pk attrs (fun kv h => (hattrs kv h).1) hnd)
    pos force sc X
  rw [hmap] at this
  simpa [List.append_assoc] using this

theorem Lexes_etag {name : Str} (hn : lexName name) :
    Lexes ('<' :: '/' :: (name ++ ['>'])) [.etag name] := by
  apply Lexes.single
  intro X
  simpa using nextTok_etag name hn X

theorem serKids_tc (ll : Nat) (nsmap : List (Str × Str)) (indent pos : Nat) (ks : List Elem) :
    (serKids ll nsmap indent none pos false ks).2.2 = false := by
  induction ks generalizing pos with
  | nil => simp [serKids]
  | cons k ks ih =>
    unfold serKids
    simp only [pyNonBlank, Bool.false_eq_true, ↓reduceIte]
    exact ih _

theorem wfElem_text {pns : List (Str × Str)} {tag nsd attrs t tail kids}
    (h : wfElem pns (.mk tag nsd attrs (some t) tail kids) = true) :
    kids = [] ∧ t ≠ [] ∧ t.all xmlChar = true := by
  simp only [wfElem, Bool.and_eq_true, textOk] at h
  obtain ⟨⟨⟨_, ht⟩, _⟩, _⟩ := h
  exact ⟨by simpa using ht.1.1, by simpa using ht.1.2, ht.2⟩

mutual
/-- **characters → tokens, elements**: for every line length, column and indentation the written
element lexes to `toksE` -/
theorem Lexes_serElem (ll : Nat) (pns : List (Str × Str)) (hinv : NsInv pns) (isRoot : Bool)
    (indent pos : Nat) (e : Elem) (hwf : wfElem pns e = true) :
    Lexes (serElem ll pns isRoot indent pos e).1 (toksE pns isRoot indent e) := by
  match e, hwf with
  | .mk tag nsd attrs text tail kids, hwf =>
    obtain ⟨hns, htag, _, _, hkids⟩ := wfElem_facts hwf
    obtain ⟨hsc, hinvW⟩ := hinv.scope hns
    have hname := (lexName_unmap hinvW false tag (by rw [← hsc]; exact htag)).1
    rw [← hsc] at hname hinvW
    unfold serElem toksE
    simp only
    split
    · -- self-closing
      have := Lexes_stag hinv hwf ll isRoot (2 * (indent + 2)) (pos + 1 + utf8Len (unmap (scope pns nsd) tag))
        false true (if isRoot = true then [] else keysOf pns)
      simpa [closerStr, List.append_assoc, keysOf] using this
    · -- expanded
      have hstag := Lexes_stag hinv hwf ll isRoot (2 * (indent + 2)) (pos + 1 + utf8Len (unmap (scope pns nsd) tag))
        false false (if isRoot = true then [] else keysOf pns)
      have hetag := Lexes_etag hname
      cases text with
      | some t =>
        obtain ⟨hk, hne, hx⟩ := wfElem_text hwf
        subst hk
        have hnb := textWritten_some hne
        have htxt : Lexes (writtenText t ++ '<' :: '/' :: (unmap (scope pns nsd) tag ++ ['>']))
            (.text t :: [.etag (unmap (scope pns nsd) tag)]) :=
          Lexes.text (writtenText_ne_nil t hx hne)
            (by simp only [List.all_eq_true, bne_iff_ne, ne_eq]; intro c hc; exact (writtenText_chars t c hc).1)
            (writtenText_no_cdata_end t) (fun hc => (writtenText_chars t _ hc).2 rfl)
            (writtenText_reads t hx) ⟨_, rfl⟩ hetag
        have := Lexes.append hstag htxt
        simp only [List.isEmpty_nil, hnb, ↓reduceIte, serText_multiline t hne, serKids, Bool.not_true,
          Bool.false_and, Bool.false_eq_true, toksK, List.append_nil]
        simpa [closerStr, List.append_assoc, keysOf] using this
      | none =>
        have hK := Lexes_serKids ll (scope pns nsd) hinvW (indent + 1)
          (serAttrs ll (2 * (indent + 2)) isRoot
            (unmappedAttrs (if isRoot = true then [] else List.map (fun x => x.1) pns) (scope pns nsd) attrs)
            (pos + 1 + utf8Len (unmap (scope pns nsd) tag)) false).2 kids hkids
        have htc := serKids_tc ll (scope pns nsd) (indent + 1)
          (serAttrs ll (2 * (indent + 2)) isRoot
            (unmappedAttrs (if isRoot = true then [] else List.map (fun x => x.1) pns) (scope pns nsd) attrs)
            (pos + 1 + utf8Len (unmap (scope pns nsd) tag)) false).2 kids
        obtain ⟨htail, _, _⟩ := wfElem_shape hwf
        subst htail
        simp only [textWritten, Bool.false_eq_true, ↓reduceIte, htc, Bool.not_false, Bool.and_true,
          List.nil_append]
        cases kids with
        | nil =>
          have := Lexes.append hstag hetag
          simp only [serKids, toksK, List.isEmpty_nil, Bool.not_true, Bool.false_eq_true, ↓reduceIte,
            List.nil_append, List.append_nil]
          simpa [closerStr, List.append_assoc, keysOf] using this
        | cons k ks =>
          have hclose := Lexes.nl_ind indent ⟨_, rfl⟩ hetag
          have := Lexes.append hstag (Lexes.append hK hclose)
          simp only [List.isEmpty_cons, Bool.not_false, ↓reduceIte, Bool.false_eq_true]
          simpa [closerStr, List.append_assoc, keysOf] using this

/-- … and the children, each on its own line -/
theorem Lexes_serKids (ll : Nat) (nsmap : List (Str × Str)) (hinv : NsInv nsmap) (indent pos : Nat)
    (ks : List Elem) (hwf : wfKids nsmap ks = true) :
    Lexes (serKids ll nsmap indent none pos false ks).1 (toksK nsmap indent ks) := by
  match ks, hwf with
  | [], _ => simpa [serKids, toksK] using Lexes.nil
  | k :: ks', hwf =>
    simp only [wfKids, Bool.and_eq_true] at hwf
    unfold serKids toksK
    simp only [Bool.false_eq_true, ↓reduceIte, pyNonBlank, List.append_nil]
    have hE := Lexes_serElem ll nsmap hinv false indent (2 * indent) k hwf.1
    have hK := Lexes_serKids ll nsmap hinv indent (serElem ll nsmap false indent (2 * indent) k).2 ks' hwf.2
    have hEK := Lexes.append hE hK
    obtain ⟨r, hr⟩ := serElem_head ll nsmap false indent (2 * indent) k
    have := Lexes.nl_ind indent (s2 := (serElem ll nsmap false indent (2 * indent) k).1 ++
      (serKids ll nsmap indent none (serElem ll nsmap false indent (2 * indent) k).2 false ks').1)
      ⟨r ++ _, by rw [hr]; rfl⟩ hEK
    simpa [List.append_assoc] using this
end

end Capella.Xml
