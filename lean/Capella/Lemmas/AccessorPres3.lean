import Capella.Lemmas.AccessorPres2

/-! `Pres` for the mutation methods of the accessors and of `ElementListCouplingMixin`. -/
namespace Capella.Accessor
open Capella.Index Capella.AccTable

theorem pres_containInsert (o es i v) : Pres (containInsert o es i v) := by unfold containInsert; pres_auto
macro_rules | `(tactic| pres_lemma) => `(tactic| with_reducible apply pres_containInsert)
theorem pres_createLinkElem (row p tg b) : Pres (createLinkElem row p tg b) := by unfold createLinkElem; pres_auto
macro_rules | `(tactic| pres_lemma) => `(tactic| with_reducible apply pres_createLinkElem)
theorem pres_linkInsertM (row o es i v) : Pres (linkInsertM row o es i v) := by unfold linkInsertM; pres_auto
macro_rules | `(tactic| pres_lemma) => `(tactic| with_reducible apply pres_linkInsertM)
theorem pres_linkDelete (row o x) : Pres (linkDelete row o x) := by unfold linkDelete; pres_auto
macro_rules | `(tactic| pres_lemma) => `(tactic| with_reducible apply pres_linkDelete)
theorem pres_linkClearM (row o) : Pres (linkClearM row o) := by unfold linkClearM; pres_auto
macro_rules | `(tactic| pres_lemma) => `(tactic| with_reducible apply pres_linkClearM)
theorem pres_linkSet_go (row owner old created) (vs) : Pres (linkSet.go row owner old created vs) := by
  induction vs generalizing created with
  | nil => unfold linkSet.go; pres_auto
  | cons _ _ ih => unfold linkSet.go; repeat' (first | (with_reducible apply ih) | pres_step)
macro_rules | `(tactic| pres_lemma) => `(tactic| with_reducible apply pres_linkSet_go)
theorem pres_linkSet (row o vs it) : Pres (linkSet row o vs it) := by unfold linkSet; pres_auto
macro_rules | `(tactic| pres_lemma) => `(tactic| with_reducible apply pres_linkSet)
theorem pres_setLinks (row o vs) : Pres (setLinks row o vs) := by unfold setLinks; pres_auto
macro_rules | `(tactic| pres_lemma) => `(tactic| with_reducible apply pres_setLinks)
theorem pres_attrInsertM (row o es i v) : Pres (attrInsertM row o es i v) := by unfold attrInsertM; pres_auto
macro_rules | `(tactic| pres_lemma) => `(tactic| with_reducible apply pres_attrInsertM)
theorem pres_attrDelete (row o es x) : Pres (attrDelete row o es x) := by unfold attrDelete; pres_auto
macro_rules | `(tactic| pres_lemma) => `(tactic| with_reducible apply pres_attrDelete)
theorem pres_isInstanceOf (t n c) : Pres (isInstanceOf t n c) := by unfold isInstanceOf; pres_auto
macro_rules | `(tactic| pres_lemma) => `(tactic| with_reducible apply pres_isInstanceOf)
theorem pres_typecastTarget (t row) : Pres (typecastTarget t row) := by unfold typecastTarget; pres_auto
macro_rules | `(tactic| pres_lemma) => `(tactic| with_reducible apply pres_typecastTarget)
theorem pres_typecastOnOwner (t row o) : Pres (typecastOnOwner t row o) := by unfold typecastOnOwner; pres_auto
macro_rules | `(tactic| pres_lemma) => `(tactic| with_reducible apply pres_typecastOnOwner)
theorem pres_coupledRow (t row o) : Pres (coupledRow t row o) := by unfold coupledRow; pres_auto
macro_rules | `(tactic| pres_lemma) => `(tactic| with_reducible apply pres_coupledRow)
theorem pres_findRelations (o) : Pres (findRelations o) := by unfold findRelations; pres_auto
macro_rules | `(tactic| pres_lemma) => `(tactic| with_reducible apply pres_findRelations)
theorem pres_accDeleteBase (t row o es x) : Pres (accDeleteBase t row o es x) := by unfold accDeleteBase; pres_auto
macro_rules | `(tactic| pres_lemma) => `(tactic| with_reducible apply pres_accDeleteBase)
theorem pres_accDelete (t row o es x) : Pres (accDelete t row o es x) := by unfold accDelete; pres_auto
macro_rules | `(tactic| pres_lemma) => `(tactic| with_reducible apply pres_accDelete)
theorem pres_reqRelInsert (t o i v) : Pres (reqRelInsert t o i v) := by unfold reqRelInsert; pres_auto
macro_rules | `(tactic| pres_lemma) => `(tactic| with_reducible apply pres_reqRelInsert)
theorem pres_accInsertBase (t row o es i v) : Pres (accInsertBase t row o es i v) := by unfold accInsertBase; pres_auto
macro_rules | `(tactic| pres_lemma) => `(tactic| with_reducible apply pres_accInsertBase)
theorem pres_accInsert (t row o es i v) : Pres (accInsert t row o es i v) := by unfold accInsert; pres_auto
macro_rules | `(tactic| pres_lemma) => `(tactic| with_reducible apply pres_accInsert)
theorem pres_directSet_go (owner i) (vs) : Pres (directSet.go row owner i vs) := by
  induction vs generalizing i with
  | nil => unfold directSet.go; pres_auto
  | cons _ _ ih => unfold directSet.go; repeat' (first | (with_reducible apply ih) | pres_step)
macro_rules | `(tactic| pres_lemma) => `(tactic| with_reducible apply pres_directSet_go)
theorem pres_directSet (t row o vs) : Pres (directSet t row o vs) := by unfold directSet; pres_auto
macro_rules | `(tactic| pres_lemma) => `(tactic| with_reducible apply pres_directSet)
theorem pres_accSetBase (t row o vs) : Pres (accSetBase t row o vs) := by unfold accSetBase; pres_auto
macro_rules | `(tactic| pres_lemma) => `(tactic| with_reducible apply pres_accSetBase)
theorem pres_accSet (t row o vs) : Pres (accSet t row o vs) := by unfold accSet; pres_auto
macro_rules | `(tactic| pres_lemma) => `(tactic| with_reducible apply pres_accSet)
theorem pres_accDelBase (t row o) : Pres (accDelBase t row o) := by unfold accDelBase; pres_auto
macro_rules | `(tactic| pres_lemma) => `(tactic| with_reducible apply pres_accDelBase)
theorem pres_accDel (t row o) : Pres (accDel t row o) := by unfold accDel; pres_auto
macro_rules | `(tactic| pres_lemma) => `(tactic| with_reducible apply pres_accDel)
theorem pres_listInsert (t row o es i v) : Pres (listInsert t row o es i v) := by unfold listInsert; pres_auto
macro_rules | `(tactic| pres_lemma) => `(tactic| with_reducible apply pres_listInsert)
theorem pres_listDelItem (t row o es i) : Pres (listDelItem t row o es i) := by unfold listDelItem; pres_auto
macro_rules | `(tactic| pres_lemma) => `(tactic| with_reducible apply pres_listDelItem)
theorem pres_listSetItem (t row o es i v) : Pres (listSetItem t row o es i v) := by unfold listSetItem; pres_auto
macro_rules | `(tactic| pres_lemma) => `(tactic| with_reducible apply pres_listSetItem)
theorem pres_listSetSlice (t row o es lo hi vs) : Pres (listSetSlice t row o es lo hi vs) := by unfold listSetSlice; pres_auto
macro_rules | `(tactic| pres_lemma) => `(tactic| with_reducible apply pres_listSetSlice)
theorem pres_accCreateObjBase (t row o h kw) : Pres (accCreateObjBase t row o h kw) := by unfold accCreateObjBase; pres_auto
macro_rules | `(tactic| pres_lemma) => `(tactic| with_reducible apply pres_accCreateObjBase)
theorem pres_accCreateObj (t row o h kw) : Pres (accCreateObj t row o h kw) := by unfold accCreateObj; pres_auto
macro_rules | `(tactic| pres_lemma) => `(tactic| with_reducible apply pres_accCreateObj)
theorem pres_listCreate (t row o es h kw) : Pres (listCreate t row o es h kw) := by unfold listCreate; pres_auto
macro_rules | `(tactic| pres_lemma) => `(tactic| with_reducible apply pres_listCreate)

end Capella.Accessor
