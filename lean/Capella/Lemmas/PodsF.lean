import Capella.Lemmas.Pods
namespace Capella.Pods

variable {P : Params}

theorem codec_html (hP : P.Lawful) (a : Str) (w : Bool) (s : Str)
    (hv : htmlValid P s = true) (hst : P.xhtml = true → htmlStable P s = true) :
    CodecOk P ⟨.html, a, w⟩ (.str s) := by
  cases s with
  | nil =>
    exact Or.inr ⟨Or.inr (by simp [neDefault]), by
      simp [denote, defaultVal, hP.repair_nil]; exact Same.rfl' _⟩
  | cons c r =>
    cases hr : P.repair (c :: r) with
    | none => simp [htmlValid, hr] at hv
    | some x =>
      simp only [htmlValid, hr] at hv
      refine Or.inl ⟨rfl, by simp [neDefault], x, by simp [toXml, hr], hv, .str x, ?_, ?_⟩
      · cases hx : P.xhtml with
        | false => simp [fromXml, hx]
        | true =>
          have hidem := hst hx
          simp only [htmlStable, hr, decide_eq_true_eq] at hidem
          simp [fromXml, hx, hidem]
      · simp [denote, hr]; exact Same.rfl' _

theorem codec_float_fin (hP : P.Lawful) (a : Str) (w : Bool) (x : P.F) :
    CodecOk P ⟨.float, a, w⟩ (.float (.fin x)) := by
  cases hz : P.fIsZero x with
  | true =>
    exact Or.inr ⟨Or.inr (by simp [neDefault, neZero, hz]), by
      simp only [denote, defaultVal]
      exact Or.inr ⟨_, _, rfl, rfl, hP.zero_isZero, hz⟩⟩
  | false =>
    refine Or.inl ⟨rfl, by simp [neDefault, neZero, hz], P.fRepr x, rfl, hP.float_xml x, .float (.fin x), ?_, ?_⟩
    · simp [fromXml, floatFromXml, hP.float_ne_star x, hP.float_rt x]
    · simp [denote]; exact Same.rfl' _

theorem codec_float_inf (a : Str) (w : Bool) : CodecOk P ⟨.float, a, w⟩ (.float .inf) := by
  refine Or.inl ⟨rfl, by simp [neDefault, neZero], star, rfl, by decide, .float .inf, ?_, ?_⟩
  · simp [fromXml, floatFromXml]
  · simp [denote]; exact Same.rfl' _

theorem codec_float_int (hP : P.Lawful) (a : Str) (w : Bool) (i : Int) (hv : (P.fOfInt i).isSome = true) :
    CodecOk P ⟨.float, a, w⟩ (.int i) := by
  cases hx : P.fOfInt i with
  | none => rw [hx] at hv; simp at hv
  | some x =>
    have hz := hP.ofInt_zero i x hx
    by_cases h0 : i = 0
    · subst h0
      simp at hz
      exact Or.inr ⟨Or.inr (by simp [neDefault, neZero]), by
        simp only [denote, defaultVal, hx]
        exact Or.inr ⟨_, _, rfl, rfl, hP.zero_isZero, hz⟩⟩
    · refine Or.inl ⟨rfl, by simp [neDefault, neZero, h0], P.fRepr x, by simp [toXml, hx, floatToXml],
        hP.float_xml x, .float (.fin x), ?_, ?_⟩
      · simp [fromXml, floatFromXml, hP.float_ne_star x, hP.float_rt x]
      · simp [denote, hx]; exact Same.rfl' _

theorem codec_float_bool (hP : P.Lawful) (a : Str) (w : Bool) (b : Bool)
    (hv : (P.fOfInt (if b then 1 else 0)).isSome = true) :
    CodecOk P ⟨.float, a, w⟩ (.bool b) := by
  cases hx : P.fOfInt (if b then 1 else 0) with
  | none => rw [hx] at hv; simp at hv
  | some x =>
    have hz := hP.ofInt_zero _ x hx
    cases b with
    | false =>
      simp at hz hx
      exact Or.inr ⟨Or.inr (by simp [neDefault, neZero]), by
        simp only [denote, defaultVal]
        simp [hx]
        exact Or.inr ⟨_, _, rfl, rfl, hP.zero_isZero, hz⟩⟩
    | true =>
      simp at hz hx
      refine Or.inl ⟨rfl, by simp [neDefault, neZero], P.fRepr x, by simp [toXml, hx, floatToXml],
        hP.float_xml x, .float (.fin x), ?_, ?_⟩
      · simp [fromXml, floatFromXml, hP.float_ne_star x, hP.float_rt x]
      · simp [denote, hx]; exact Same.rfl' _

theorem codec_dt_aware (hP : P.Lawful) (a : Str) (w : Bool) (t : P.T) (hok : P.isoOk t = true) :
    CodecOk P ⟨.datetime, a, w⟩ (.aware t) := by
  refine Or.inl ⟨rfl, by simp [neDefault], reSet (P.iso t), rfl, xmlOk_reSet _ (hP.iso_xml t),
    .aware (P.truncMs t), ?_, ?_⟩
  · simp [fromXml, reGet_reSet _ (hP.iso_shape t), hP.iso_rt t hok]
  · simp [denote]; exact Same.rfl' _

theorem codec_dt_naive (hP : P.Lawful) (a : Str) (w : Bool) (n : P.N)
    (hv : (match P.localize n with | some t => P.isoOk t | none => false) = true) :
    CodecOk P ⟨.datetime, a, w⟩ (.naive n) := by
  cases ht : P.localize n with
  | none => rw [ht] at hv; simp at hv
  | some t =>
    rw [ht] at hv
    refine Or.inl ⟨rfl, by simp [neDefault], reSet (P.iso t), by simp [toXml, ht],
      xmlOk_reSet _ (hP.iso_xml t), .aware (P.truncMs t), ?_, ?_⟩
    · simp [fromXml, reGet_reSet _ (hP.iso_shape t), hP.iso_rt t hv]
    · simp [denote, ht]; exact Same.rfl' _

theorem codec_enum_str (a : Str) (w : Bool) (e : EnumCls) (n s : Str)
    (he : e.wf = true) (hv : (e.byName s).isSome = true) :
    CodecOk P ⟨.enum e n, a, w⟩ (.str s) := by
  have hst : e.stringy = true := by
    simp only [EnumCls.wf, Bool.and_eq_true] at he; exact he.2
  cases hx : e.byName s with
  | none => rw [hx] at hv; simp at hv
  | some x =>
    by_cases hs : s = n
    · subst hs
      exact Or.inr ⟨Or.inr (by simp [neDefault, hst]), by
        simp [denote, defaultVal]; exact Same.rfl' _⟩
    · refine Or.inl ⟨rfl, by simp [neDefault, hs], x, by simp [toXml, hx], byName_xml e he s x hx,
        .member e.name s x, ?_, ?_⟩
      · simp [fromXml, byValue_of_byName e he s x hx]
      · simp [denote, hx]; exact Same.rfl' _

theorem codec_enum_member (a : Str) (w : Bool) (e : EnumCls) (n c m x : Str)
    (he : e.wf = true) (hc : c = e.name) (hm : e.byName m = some x) :
    CodecOk P ⟨.enum e n, a, w⟩ (.member c m x) := by
  subst hc
  by_cases hs : m = n
  · subst hs
    exact Or.inr ⟨Or.inr (by simp [neDefault]), by
      simp [denote, defaultVal, hm]; exact Same.rfl' _⟩
  · refine Or.inl ⟨rfl, by simp [neDefault, hs], x, rfl, byName_xml e he m x hm,
      .member e.name m x, ?_, ?_⟩
    · simp [fromXml, byValue_of_byName e he m x hm]
    · simp [denote]; exact Same.rfl' _

end Capella.Pods
