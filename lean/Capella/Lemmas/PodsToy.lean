import Capella.Lemmas.PodsH
/-!
A concrete lawful parameter instance: shows that `Params.Lawful` is satisfiable (the theorems of
`Props/C07.lean` are not vacuous) and lets the `example`s there compute.
"Floats" are integers printed with a trailing `.0`; three fixed timestamps; HTML repair is the identity.
-/
namespace Capella.Pods.Toy
open Capella.Pods

def dotZero : Str := ['.', '0']

def fRepr (x : Int) : Str := pyIntRepr x ++ dotZero

def fParse (s : Str) : Option (FloatV Int) :=
  if s.drop (s.length - 2) = dotZero then (pyIntParse (s.take (s.length - 2))).map .fin else none

def isoSamples : List Str :=
  ["2024-02-29T23:59:59.999+00:00".toList, "1999-12-31T00:00:00.000-05:30".toList,
   "2020-06-01T12:00:00.500+05:30:15".toList]

def iso (t : Fin 3) : Str := isoSamples.getD t.val []

def fromIso (s : Str) : Option (Unit ⊕ Fin 3) :=
  if s = iso 0 then some (.inr 0) else if s = iso 1 then some (.inr 1)
  else if s = iso 2 then some (.inr 2) else none

def params : Params where
  F := Int
  fZero := 0
  fRepr := fRepr
  fParse := fParse
  fOfInt := fun i => some i
  fIsZero := fun x => x == 0
  N := Unit
  T := Fin 3
  localize := fun _ => some 0
  iso := iso
  fromIso := fromIso
  truncMs := id
  isoOk := fun _ => true
  repair := some
  xhtml := false
  escLinked := some
  unescLinked := id

theorem fParse_fRepr (x : Int) : fParse (fRepr x) = some (.fin x) := by
  simp [fParse, fRepr, dotZero, pyIntParse_repr]

theorem ne_star (x : Int) : fRepr x ≠ star := by
  intro h
  have := congrArg List.length h
  simp [fRepr, star, dotZero] at this

theorem f_xml (x : Int) : xmlOk (fRepr x) = true := by
  have := xmlOk_pyIntRepr x
  simp only [xmlOk] at this
  simp [fRepr, xmlOk, List.all_append, this, dotZero]
  decide

theorem ofInt_zero (i x : Int) (h : some i = some x) : (x == 0) = decide (i = 0) := by
  have h' : i = x := by simpa using h
  rw [h']
  by_cases hx : x = 0 <;> simp [hx]

theorem iso_rt : ∀ t : Fin 3, true = true → fromIso (iso t) = some (Sum.inr t) := by decide
theorem iso_shape : ∀ t : Fin 3, reSet (iso t) ≠ iso t ∨ reGet (iso t) = iso t := by decide
theorem iso_xml : ∀ t : Fin 3, xmlOk (iso t) = true := by decide

theorem lawful : params.Lawful where
  float_rt := fParse_fRepr
  float_ne_star := ne_star
  float_xml := f_xml
  zero_isZero := rfl
  ofInt_zero := ofInt_zero
  iso_rt := iso_rt
  iso_shape := iso_shape
  iso_xml := iso_xml
  trunc_idem := fun _ => rfl
  trunc_ok := fun _ _ => rfl
  repair_nil := rfl

/-- the same instance with a `repair` that is not idempotent: every non-empty fragment grows -/
def growing : Params := { params with repair := fun s => if s = [] then some [] else some ('x' :: s) }

theorem growing_lawful : growing.Lawful where
  float_rt := fParse_fRepr
  float_ne_star := ne_star
  float_xml := f_xml
  zero_isZero := rfl
  ofInt_zero := ofInt_zero
  iso_rt := iso_rt
  iso_shape := iso_shape
  iso_xml := iso_xml
  trunc_idem := fun _ => rfl
  trunc_ok := fun _ _ => rfl
  repair_nil := rfl

end Capella.Pods.Toy
