import Capella.Model.Git

/-!
# Lemmas about the git-transaction model (C16)
-/
namespace Capella.Git
variable {P : Type} [DecidableEq P]

/-! ## trees -/

theorem Tree.get_nil (p : P) : Tree.get ([] : Tree P) p = none := rfl

theorem Tree.get_set_same (t : Tree P) (p : P) (b : Bytes) : (t.set p b).get p = some b := by
  simp [Tree.get, Tree.set]

theorem Tree.get_filter_ne (t : Tree P) (p q : P) (h : q ≠ p) :
    Tree.get (t.filter (fun e => e.1 ≠ p)) q = t.get q := by
  simp only [Tree.get, List.find?_filter]
  congr 1
  induction t with
  | nil => rfl
  | cons a as ih =>
    by_cases ha : a.1 = q
    · have : a.1 ≠ p := fun hh => h (by rw [← ha, hh])
      simp [List.find?_cons, ha, h]
    · simp only [List.find?_cons, ha, decide_false, Bool.and_false]
      simpa using ih

theorem Tree.get_set_other (t : Tree P) (p q : P) (b : Bytes) (h : q ≠ p) :
    (t.set p b).get q = t.get q := by
  have h' : p ≠ q := fun hh => h hh.symm
  have := Tree.get_filter_ne t p q h
  simp only [Tree.get, Tree.set, List.find?_cons, h', decide_false] at this ⊢
  exact this

theorem Tree.get_set (t : Tree P) (p q : P) (b : Bytes) :
    (t.set p b).get q = if q = p then some b else t.get q := by
  by_cases h : q = p
  · subst h; simp [Tree.get_set_same]
  · simp [h, Tree.get_set_other t p q b h]

theorem Tree.get_none_of_not_mem (t : Tree P) (p : P) (h : p ∉ t.map (·.1)) : t.get p = none := by
  simp only [Tree.get, Option.map_eq_none_iff, List.find?_eq_none]
  intro e he
  simp only [decide_eq_true_eq]
  intro hh
  exact h (by rw [← hh]; exact List.mem_map_of_mem he)

/-- `same` decides extensional equality of trees -/
theorem Tree.same_iff (a b : Tree P) : a.same b = true ↔ ∀ p, a.get p = b.get p := by
  constructor
  · intro h p
    by_cases hm : p ∈ a.map (·.1) ++ b.map (·.1)
    · have := List.all_eq_true.mp h p hm
      simpa using this
    · simp only [List.mem_append, not_or] at hm
      rw [Tree.get_none_of_not_mem a p hm.1, Tree.get_none_of_not_mem b p hm.2]
  · intro h
    apply List.all_eq_true.mpr
    intro p _
    simp [h p]

/-! ## git commands without failure -/

@[simp] theorem call_none (c : Cmd P) (s : St P) :
    call none c s = ({ s with calls := s.calls + 1, trace := c :: s.trace }, false) := by
  simp [call]

/-- the writes of a transaction body, applied to the index -/
def applyWrites : List (P × Bytes) → Tree P → Tree P
  | [], t => t
  | (p, b) :: ws, t => applyWrites ws (t.set p b)

/-- the last bytes written to `q`, if any -/
def lastWrite : List (P × Bytes) → P → Option Bytes
  | [], _ => none
  | (p, b) :: ws, q => match lastWrite ws q with
    | some c => some c
    | none => if q = p then some b else none

theorem applyWrites_get (ws : List (P × Bytes)) : ∀ (t : Tree P) (q : P),
    (applyWrites ws t).get q = match lastWrite ws q with
      | some c => some c
      | none => t.get q := by
  induction ws with
  | nil => intro t q; rfl
  | cons w ws ih =>
    intro t q
    obtain ⟨p, b⟩ := w
    simp only [applyWrites, lastWrite]
    rw [ih]
    cases h : lastWrite ws q with
    | some c => rfl
    | none =>
      simp only [Tree.get_set]
      split <;> rfl

def writeOps (ws : List (P × Bytes)) : List (Op P) := ws.map (fun w => Op.write w.1 w.2)

/-- one completed write, no git failure: file written, `git add` -/
def writeStep (p : P) (b : Bytes) (s : St P) : St P :=
  { commits := s.commits, refs := s.refs, head := s.head, index := s.index.set p b,
    files := (fun q => if q = p then some b else s.files q), txnOpen := s.txnOpen,
    calls := s.calls + 1, trace := Cmd.add p :: s.trace }

/-- the state after a body of completed writes, no git failure -/
def afterWrites : List (P × Bytes) → St P → St P
  | [], s => s
  | (p, b) :: ws, s => afterWrites ws (writeStep p b s)

theorem runBody_writes (rol : Bool) (ws : List (P × Bytes)) : ∀ s : St P,
    runBody none rol (writeOps ws) s = (afterWrites ws s, none) := by
  induction ws with
  | nil => intro s; rfl
  | cons w ws ih =>
    intro s
    obtain ⟨p, b⟩ := w
    have := ih (writeStep p b s)
    simp only [writeOps] at this
    simp only [writeOps, List.map_cons, runBody, runOp, stage, call_none, addPath, if_true, afterWrites]
    exact this

theorem afterWrites_frame (ws : List (P × Bytes)) : ∀ s : St P,
    (afterWrites ws s).commits = s.commits ∧ (afterWrites ws s).refs = s.refs ∧
    (afterWrites ws s).head = s.head ∧ (afterWrites ws s).txnOpen = s.txnOpen ∧
    (afterWrites ws s).index = applyWrites ws s.index ∧
    (∀ q, (afterWrites ws s).files q = match lastWrite ws q with
      | some c => some c
      | none => s.files q) := by
  induction ws with
  | nil => intro s; simp [afterWrites, applyWrites, lastWrite]
  | cons w ws ih =>
    intro s
    obtain ⟨p, b⟩ := w
    simp only [afterWrites, applyWrites, lastWrite]
    obtain ⟨h1, h2, h3, h4, h5, h6⟩ := ih (writeStep p b s)
    refine ⟨h1, h2, h3, h4, h5, ?_⟩
    intro q
    rw [h6 q]
    cases lastWrite ws q with
    | some c => rfl
    | none => simp only [writeStep]; split <;> rfl

/-- commits, refs, HEAD and the transaction flag are the same -/
def Frame (s s' : St P) : Prop :=
  s'.commits = s.commits ∧ s'.refs = s.refs ∧ s'.head = s.head ∧ s'.txnOpen = s.txnOpen

theorem Frame.refl (s : St P) : Frame s s := ⟨rfl, rfl, rfl, rfl⟩

theorem Frame.trans {a b c : St P} (h1 : Frame a b) (h2 : Frame b c) : Frame a c :=
  ⟨h2.1.trans h1.1, h2.2.1.trans h1.2.1, h2.2.2.1.trans h1.2.2.1, h2.2.2.2.trans h1.2.2.2⟩

theorem stage_frame (fault : Option Nat) (p : P) (s : St P) : Frame s (stage fault p s).1 := by
  by_cases hf : fault = some s.calls
  · simp [stage, call, hf, Frame]
  · simp only [stage, call, hf, decide_false, addPath]
    split <;> simp [Frame]

theorem runOp_frame (fault : Option Nat) (rol : Bool) (o : Op P) (s : St P) :
    Frame s (runOp fault rol o s).1 := by
  cases o with
  | write p b =>
    have := stage_frame fault p { s with files := (fun q => if q = p then some b else s.files q) }
    simp only [runOp]
    split <;> (rename_i h; rw [h] at this; exact this)
  | writeAbort p b =>
    have := stage_frame fault p { s with files := (fun q => if q = p then some b else s.files q) }
    simp only [runOp]
    split <;> (rename_i h; rw [h] at this; exact this)
  | writeIgnored p b => simp [runOp, call, Frame]
  | openOnly p b => simp [runOp, Frame]
  | writeNoDir p => simp [runOp, Frame]
  | raise => simp [runOp, Frame]
  | nested =>
    simp only [runOp]
    split
    · exact Frame.refl s
    · by_cases hf : fault = some s.calls <;> simp [call, hf, Frame]

/-- Any body, any failing command: the body never touches commits, refs, HEAD or the transaction flag. -/
theorem runBody_frame (fault : Option Nat) (rol : Bool) (body : List (Op P)) : ∀ s : St P,
    Frame s (runBody fault rol body s).1 := by
  induction body with
  | nil => intro s; exact Frame.refl s
  | cons o os ih =>
    intro s
    have hop := runOp_frame fault rol o s
    simp only [runBody]
    rcases hr : runOp fault rol o s with ⟨s1, _ | e⟩
    · rw [hr] at hop
      exact hop.trans (ih s1)
    · rw [hr] at hop
      exact hop

/-! ## commits and trees -/

theorem treeOf_congr (s s' : St P) (c : Nat) (h : s'.commits = s.commits) : treeOf s' c = treeOf s c := by
  simp [treeOf, h]

theorem treeOf_append_old (s s' : St P) (k : Commit P) (c : Nat) (hc : c < s.commits.length)
    (h : s'.commits = s.commits ++ [k]) : treeOf s' c = treeOf s c := by
  simp [treeOf, h, List.getElem?_append_left hc]

theorem treeOf_append_new (s s' : St P) (k : Commit P) (h : s'.commits = s.commits ++ [k]) :
    treeOf s' s.commits.length = k.tree := by
  simp [treeOf, h]

/-! ## roll-back and finish without git failure -/

/-- the state `__rollback` produces -/
def rolled (old : Nat) (s : St P) : St P :=
  { commits := s.commits, refs := s.refs, head := old, index := treeOf s old,
    files := (fun p => (treeOf s old).get p), txnOpen := s.txnOpen,
    calls := s.calls + 2, trace := Cmd.clean :: Cmd.resetHard :: s.trace }

theorem rollback_none (old : Nat) (e : Option Err) (s : St P) :
    rollback none old e s = (rolled old s, e) := by
  have hfiles : ∀ (x i f : Option Bytes),
      (if x.isSome = true then (if (i.isSome || x.isSome) = true then x else f) else none) = x := by
    intro x i f; cases x <;> simp
  simp only [rollback, call_none, resetHard, cleanAll, rolled, treeOf]
  congr 1
  congr 1
  funext p
  exact hfiles _ _ _

/-- the hypotheses under which a state is "between transactions": no transaction open, HEAD is a
commit, the index is HEAD's tree, the files are the index (`git status` is empty) -/
def Valid (s : St P) : Prop :=
  s.txnOpen = false ∧ s.head < s.commits.length ∧
  (∀ p, s.index.get p = (treeOf s s.head).get p) ∧ (∀ p, s.files p = s.index.get p)

/-- same repository and work tree, as far as anyone can observe (the index may be a different list
with the same content) -/
def Restored (s s' : St P) : Prop :=
  s'.refs = s.refs ∧ s'.head = s.head ∧ s'.files = s.files ∧ (∀ p, s'.index.get p = s.index.get p) ∧
  s'.txnOpen = false

theorem rolled_restores (s s2 : St P) (hv : Valid s) (hh : s2.refs = s.refs)
    (ht : ∀ p, (treeOf s2 s.head).get p = (treeOf s s.head).get p) (ho : s2.txnOpen = false) :
    Restored s (rolled s.head s2) := by
  refine ⟨hh, rfl, ?_, ?_, ho⟩
  · funext p
    simp only [rolled]
    rw [ht p, hv.2.2.2 p, hv.2.2.1 p]
  · intro p
    simp only [rolled]
    rw [ht p, hv.2.2.1 p]

theorem rolled_valid (s s2 : St P) (hv : Valid s) (hc : s2.commits = s.commits ∨ ∃ k, s2.commits = s.commits ++ [k])
    (ho : s2.txnOpen = false) : Valid (rolled s.head s2) := by
  refine ⟨ho, ?_, ?_, ?_⟩
  · simp only [rolled]
    rcases hc with h | ⟨k, h⟩ <;> rw [h]
    · exact hv.2.1
    · simp; have := hv.2.1; omega
  · intro p; simp [rolled, treeOf]
  · intro p; simp [rolled]

/-- the commit object `commit-tree` creates -/
def newCommit (o : Opts) (old : Nat) (s : St P) : Commit P :=
  { parent := some old, tree := s.index, info := o.info }

theorem finish_none_empty (o : Opts) (target : Str) (old : Nat) (s : St P)
    (hi : o.ignoreEmpty = true) (hs : s.index.same (treeOf s old) = true) :
    finish none o target old s =
      ({ s with calls := s.calls + 2, trace := Cmd.catFile :: Cmd.writeTree :: s.trace }, none, false) := by
  simp [finish, hi, treeOf] at hs ⊢
  simp [hs]

theorem finish_none_dry (o : Opts) (target : Str) (old : Nat) (s : St P)
    (hd : o.dry = true) (hn : o.ignoreEmpty = false ∨ s.index.same (treeOf s old) = false) :
    ∃ s', finish none o target old s = (s', none, false) ∧ s'.commits = s.commits ++ [newCommit o old s] ∧
      s'.refs = s.refs ∧ s'.txnOpen = s.txnOpen := by
  cases hi : o.ignoreEmpty
  · simp only [finish, call_none, hi, hd, if_true, Bool.false_eq_true, if_false]
    exact ⟨_, rfl, rfl, rfl, rfl⟩
  · rcases hn with hn | hn
    · rw [hi] at hn; cases hn
    · simp only [treeOf] at hn
      simp only [finish, call_none, hi, hd, if_true, treeOf, hn]
      exact ⟨_, rfl, rfl, rfl, rfl⟩

theorem finish_none_commit (o : Opts) (target : Str) (old : Nat) (s : St P)
    (hd : o.dry = false) (hn : o.ignoreEmpty = false ∨ s.index.same (treeOf s old) = false) :
    ∃ s', finish none o target old s = (s', none, true) ∧ s'.commits = s.commits ++ [newCommit o old s] ∧
      s'.refs = setRef s.refs target s.commits.length ∧ s'.head = s.commits.length ∧
      s'.index = s.index ∧ s'.files = s.files ∧ s'.txnOpen = s.txnOpen := by
  cases hi : o.ignoreEmpty
  · simp only [finish, call_none, hi, hd, Bool.false_eq_true, if_false]
    exact ⟨_, rfl, rfl, rfl, rfl, rfl, rfl, rfl⟩
  · rcases hn with hn | hn
    · rw [hi] at hn; cases hn
    · simp only [treeOf] at hn
      simp only [finish, call_none, hi, hd, if_true, treeOf, hn, Bool.false_eq_true, if_false]
      exact ⟨_, rfl, rfl, rfl, rfl, rfl, rfl, rfl⟩

/-! ## the transaction without git failure -/

theorem objectLike_head : objectLike headStr = true := by decide

/-- handler state right after `__enter__` -/
def entered (s : St P) : St P :=
  { commits := s.commits, refs := s.refs, head := s.head, index := s.index, files := s.files,
    txnOpen := true, calls := 1, trace := [Cmd.revParseHead] }

theorem transaction_none (rev : Str) (o : Opts) (body : List (Op P)) (s : St P)
    (hobj : objectLike (o.remoteBranch.getD rev) = false) (ho : s.txnOpen = false) :
    transaction none rev o body s =
      match runBody none (objectLike rev) body (entered s) with
      | (s2, some e) => rollback none s.head (some e) { s2 with txnOpen := false }
      | (s2, none) =>
        match finish none o (qualify (o.remoteBranch.getD rev)) s.head s2 with
        | (s3, e, true) => ({ s3 with txnOpen := false }, e)
        | (s3, e, false) => rollback none s.head e { s3 with txnOpen := false } := by
  have hne : o.remoteBranch.getD rev ≠ headStr := by
    intro h; rw [h, objectLike_head] at hobj; cases hobj
  simp only [transaction, hne, hobj, ho, entered, if_false, call_none, Bool.false_eq_true]
  rcases runBody none (objectLike rev) body _ with ⟨s2, _ | e⟩
  · simp only
    rcases finish none o (qualify (o.remoteBranch.getD rev)) s.head s2 with ⟨s3, e, _ | _⟩ <;> rfl
  · rfl

end Capella.Git
