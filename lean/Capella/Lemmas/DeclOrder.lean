import Capella.Lemmas.DeclCE2
/-!
Lemmas about the `decl.apply` machine, part 4: what a successful order tells about every other order.

* `rank ps p` — the position at which `p` was bound (`promises` is append-only);
* `acyHead r` / `acyQ r` — every promise an entry waits for has a smaller rank than every promise id
  declared inside the entry.  A successful run proves this for its own binding order (`acy_back`, by
  induction from the end of the run backwards).
* `DefKey` — a deferred entry is filed under a promise that is unbound and that its head uses.
* the clean fragment (no `!find`, `!uuid` only on objects of the initial graph, no string children,
  a metamodel that accepts every creation): the only exception a transition can raise is
  "promise_id defined twice" (`clean_step_error`).
-/
namespace Capella.Decl

def indS (q : Str) : Str → Nat := fun p => if p = q then 1 else 0

/-- weight counting the bindings / declarations of `q` -/
def keyInd (q : Str) : Eff → Nat := fun e => match e with | .bind p _ => if p = q then 1 else 0 | _ => 0

theorem keysUse_key (q) : ∀ keys, keysUse (keyInd q) keys = 0
  | [] => rfl
  | (_, a) :: t => by cases a <;> simp [keysUse, atomUse, keyInd, keysUse_key q t]

theorem valUse_key (q) (v : Val) : valUse (keyInd q) v = 0 := by
  cases v with
  | atom a => cases a <;> simp [valUse, atomUse, keyInd]
  | find ty keys => simp [valUse, keysUse_key]

theorem scalUse_key (q) : ∀ scal, scalUse (keyInd q) scal = 0
  | [] => rfl
  | (_, v) :: t => by simp [scalUse, valUse_key, scalUse_key q t]

mutual
theorem Item.effN_key (sc pm q) (par : Id) (attr : Str) : ∀ x : Item,
    x.effN sc pm (keyInd q) par attr = x.pidN (indS q)
  | .obj nid pid ty scal kids => by
    have := kidsEffN_key sc pm q nid kids
    cases pid <;> simp [Item.effN, Item.pidN, keyInd, optEff, optN, indS, scalUse_key, this]
  | .ref v => by
    simp only [Item.effN, Item.pidN, valUse_key]
    split <;> simp [keyInd]
  | .str _ _ => by simp [Item.effN, Item.pidN, keyInd]
theorem kidsEffN_key (sc pm q) (par : Id) : ∀ kids : List (Str × List Item),
    kidsEffN sc pm (keyInd q) par kids = kidsPidN (indS q) kids
  | [] => rfl
  | (a, l) :: t => by simp [kidsEffN, kidsPidN, itemsEffN_key sc pm q par a l, kidsEffN_key sc pm q par t]
theorem itemsEffN_key (sc pm q) (par : Id) (attr : Str) : ∀ l : List Item,
    itemsEffN sc pm (keyInd q) par attr l = itemsPidN (indS q) l
  | [] => rfl
  | x :: t => by simp [itemsEffN, itemsPidN, Item.effN_key sc pm q par attr x, itemsEffN_key sc pm q par attr t]
end

theorem Action.effN_key_le (sc pm q) (a : Action) : a.effN sc pm (keyInd q) ≤ a.pidN (indS q) := by
  cases a with
  | whole i =>
    simp only [Action.effN, Instr.effN, Action.pidN, Instr.pidN, valUse_key, kidsEffN_key]
    omega
  | piece par w =>
    cases w with
    | item attr x => simp [Action.effN, Action.pidN, Piece.pidN, Item.effN_key]
    | setE _ _ => simp [Action.effN]
    | sync _ _ => simp [Action.effN]
    | resync _ _ _ _ _ => simp [Action.effN]

theorem sumBy_key (q : Str) : ∀ l : Promises,
    sumBy (fun e : Str × Id => keyInd q (.bind e.1 e.2)) l = (l.map Prod.fst).count q
  | [] => by simp [sumBy]
  | x :: t => by
    have ih := sumBy_key q t
    simp only [sumBy, List.map_cons, List.count_cons, ih]
    by_cases hx : x.1 = q <;> simp [hx, keyInd] <;> omega

theorem doneN_key (s : State) (q : Str) : s.doneN (keyInd q) = (s.ps.map Prod.fst).count q := by
  unfold State.doneN
  have h2 : (fun e : Id × Str × Id => keyInd q (.edge e.1 e.2.1 e.2.2)) = fun _ => 0 := rfl
  have h3 : (fun e : Id × Str => keyInd q (.obj e.1 e.2)) = fun _ => 0 := rfl
  rw [h2, h3, sumBy_zero, sumBy_zero, sumBy_key]
  rfl

theorem lookup_mem_keys {ps : Promises} {p : Str} {i : Id} (h : ps.lookup p = some i) : p ∈ ps.map Prod.fst := by
  induction ps with
  | nil => simp at h
  | cons x t ih =>
    obtain ⟨k, v⟩ := x
    simp only [List.lookup] at h
    split at h
    · rename_i hk; simp at hk; simp [hk]
    · simp [ih h]

theorem lookup_none_of_not_mem {ps : Promises} {p : Str} (h : p ∉ ps.map Prod.fst) : ps.lookup p = none := by
  cases hl : ps.lookup p with
  | none => rfl
  | some i => exact absurd (lookup_mem_keys hl) h

/-! ## ranks -/

/-- the position at which `p` was bound (`length` when it is not bound) -/
def rank (ps : Promises) (p : Str) : Nat := (ps.map Prod.fst).idxOf p

theorem rank_lt {ps t : Promises} {p : Str} (h : p ∈ ps.map Prod.fst) : rank (ps ++ t) p < ps.length := by
  unfold rank
  rw [List.map_append, List.idxOf_append]
  simp only [h, ↓reduceIte]
  have := List.idxOf_lt_length_iff.mpr h
  simpa using this

theorem rank_ge {ps t : Promises} {p : Str} (h : p ∉ ps.map Prod.fst) : ps.length ≤ rank (ps ++ t) p := by
  unfold rank
  rw [List.map_append, List.idxOf_append]
  simp [h]

theorem PsStep.prefix {s s'} (h : PsStep s s') : ∃ t, s'.ps = s.ps ++ t := by
  rcases h with h | ⟨q, j, _, h⟩
  · exact ⟨[], by simp [h]⟩
  · exact ⟨[(q, j)], h⟩

theorem run_prefix {mm} : ∀ (n : Nat) (s r : State), run mm n s = some (.ok r) → ∃ t, r.ps = s.ps ++ t
  | 0, _, _, h => by simp [run] at h
  | n + 1, s, r, h => by
    unfold run at h
    split at h
    · simp at h
    · simp at h; subst h; exact ⟨[], by simp⟩
    · rename_i s' hs
      obtain ⟨t, ht⟩ := run_prefix n s' r h
      obtain ⟨t', ht'⟩ := (step_ps hs).prefix
      exact ⟨t' ++ t, by rw [ht, ht', List.append_assoc]⟩

/-! ## acyclicity of a document with respect to a binding order -/

def acyHead (r : Str → Nat) (x : Item) : Prop := ∀ p, x.headUses p → ∀ q, 0 < x.pidN (indS q) → r p < r q

def acyQ (r : Str → Nat) (i : Instr) : Prop := ∀ p, i.parent.usesP p → ∀ q, 0 < i.pidN (indS q) → r p < r q

theorem Item.all_head {P : Item → Prop} {x : Item} (h : x.all P) : P x := by
  cases x with
  | obj nid pid ty scal kids => exact h.1
  | ref v => exact h
  | str n s => exact h

theorem Action.acy {r : Str → Nat} {a : Action} (h : a.all (acyHead r) (acyQ r)) {p q : Str}
    (hu : a.headUses p) (hd : 0 < a.pidN (indS q)) : r p < r q := by
  cases a with
  | whole i => exact h.1 p hu q hd
  | piece par w =>
    cases w with
    | item attr x => exact (Item.all_head h) p hu q hd
    | setE _ _ => exact h.elim
    | sync _ _ => exact h.elim
    | resync _ _ _ _ _ => exact h.elim

/-- what the invariant of a successful run says at one of its states: a promise id that is still to be
declared by something pending is not bound yet -/
theorem pending_unbound {mm sc st pm c s} (hinv : Inv mm sc st pm c s) (hc1 : ∀ q, c (keyInd q) ≤ 1) {q : Str}
    (hpend : 1 ≤ s.pendN sc pm (keyInd q)) : q ∉ s.ps.map Prod.fst := by
  have := hinv.cons (keyInd q) (Or.inr (by intro o a m; rfl)) (Or.inr (by intro i c c'; rfl)) (by intro p i _; rfl)
  have h1 := hc1 q
  rw [doneN_key] at this
  intro hm
  have : 0 < (s.ps.map Prod.fst).count q := List.count_pos_iff.mpr hm
  omega

/-- **from the end of a successful run backwards**: everything that was ever pending is acyclic with
respect to the order in which the run bound the promises -/
theorem acy_back {mm sc st pm c} (hc1 : ∀ q, c (keyInd q) ≤ 1) : ∀ (n : Nat) (s sf : State),
    Inv mm sc st pm c s → run mm n s = some (.ok sf) → sf.deferred = [] →
    s.all (acyHead (rank sf.ps)) (acyQ (rank sf.ps))
  | 0, _, _, _, h, _ => by simp [run] at h
  | n + 1, s, sf, hinv, h, hd => by
    unfold run at h
    split at h
    · simp at h
    · rename_i hs
      simp at h; subst h
      obtain ⟨ha, hq⟩ := step_none hs
      exact ⟨by simp [ha], by simp [hq], by simp [hd]⟩
    · rename_i s' hs
      have hinv' := (step_ce hinv hs).1
      have ih := acy_back hc1 n s' sf hinv' h hd
      obtain ⟨t, ht⟩ := run_prefix n s' sf h
      obtain ⟨t', ht'⟩ := (step_ps hs).prefix
      have hpre : sf.ps = s.ps ++ (t' ++ t) := by rw [ht, ht', List.append_assoc]
      -- a promise bound now has a smaller rank than one that something pending is still to declare
      have key : ∀ p q, (∃ i, s.ps.lookup p = some i) → 1 ≤ s.pendN sc pm (keyInd q) →
          rank sf.ps p < rank sf.ps q := by
        intro p q ⟨i, hi⟩ hq
        rw [hpre]
        have h1 := rank_lt (t := t' ++ t) (lookup_mem_keys hi)
        have h2 := rank_ge (t := t' ++ t) (pending_unbound hinv hc1 hq)
        omega
      obtain ⟨k, hk⟩ := step_ceStep hinv.ce hs
      cases hk with
      | nil par attr rest ha => exact (CEStep.nil (mm := mm) par attr rest ha).all_bwd trivial ih
      | setsNil par rest ha => exact (CEStep.setsNil (mm := mm) par rest ha).all_bwd trivial ih
      | deferRef b par attr v p hp hr => exact (CEStep.deferRef (mm := mm) b par attr v p hp hr).all_bwd trivial ih
      | deferObj b par attr nid pid ty scal kids p hp hr =>
        exact (CEStep.deferObj (mm := mm) b par attr nid pid ty scal kids p hp hr).all_bwd trivial ih
      | append b par attr v i hp hr =>
        refine (CEStep.append (mm := mm) b par attr v i hp hr).all_bwd ?_ ih
        intro p _ q hq
        simp [Item.pidN] at hq
      | single b par attr nid str cr k fx cls hp hk hc =>
        refine (CEStep.single (mm := mm) b par attr nid str cr k fx cls hp hk hc).all_bwd ?_ ih
        intro p hu
        exact hu.elim
      | create b par attr nid pid ty scal kids rs cr sg fx cls s2 hp hr hk hc hf =>
        refine (CEStep.create (mm := mm) b par attr nid pid ty scal kids rs cr sg fx cls s2 hp hr hk hc hf).all_bwd ?_ ih
        intro p hu q hq
        obtain ⟨_, hps, _⟩ := hp.same
        have hb := resolveScal_bound hr hu
        rw [hps] at hb
        refine key p q hb ?_
        have h1 := (hp.pendN (sc := sc) (pm := pm) (F := keyInd q)).1
        rw [Item.effN_key] at h1
        omega
      | deferWhole i q p ha hq hr => exact (CEStep.deferWhole (mm := mm) i q p ha hq hr).all_bwd trivial ih
      | expand i q par ha hq hr =>
        have hi : i.ce st pm := hinv.ce.2.1 (.whole i) (by simp [hq])
        refine (CEStep.expand (mm := mm) i q par ha hq hr).all_bwd ⟨?_, hi.2.2.2.1, hi.2.2.2.2.1, hi.2.2.2.2.2⟩ ih
        intro p hu q' hq'
        refine key p q' (resolveVal_bound hr hu) ?_
        have : s.pendN sc pm (keyInd q') ≥ (Action.whole i).effN sc pm (keyInd q') := by
          simp only [State.pendN, hq, sumBy]; omega
        simp only [Action.effN, Instr.effN, valUse_key, kidsEffN_key] at this
        simp only [Instr.pidN, hi.2.2.2.1, hi.2.2.2.2.1, setPidN, syncPidN] at hq'
        omega

/-! ## deferred entries wait for what they are filed under -/

def DefKey (s : State) : Prop := ∀ e ∈ s.deferred, s.ps.lookup e.1 = none ∧ e.2.headUses e.1

theorem CEStep.defKey {mm s c s'} (h : CEStep mm s c s') (hd : DefKey s) : DefKey s' := by
  cases h with
  | nil par attr rest ha => exact hd
  | setsNil par rest ha => exact hd
  | deferRef b par attr v p hp hr =>
    obtain ⟨_, hps, hdf⟩ := hp.same
    intro e he
    simp only [State.defer, hdf, List.mem_append, List.mem_singleton] at he
    rcases he with he | rfl
    · simpa [State.defer, hps] using hd e he
    · obtain ⟨hu, hn⟩ := resolveVal_unres hr
      exact ⟨by simpa [State.defer] using hn, hu⟩
  | deferObj b par attr nid pid ty scal kids p hp hr =>
    obtain ⟨_, hps, hdf⟩ := hp.same
    intro e he
    simp only [State.defer, hdf, List.mem_append, List.mem_singleton] at he
    rcases he with he | rfl
    · simpa [State.defer, hps] using hd e he
    · obtain ⟨hu, hn⟩ := resolveScal_unres hr
      exact ⟨by simpa [State.defer] using hn, hu⟩
  | append b par attr v i hp hr =>
    obtain ⟨_, hps, hdf⟩ := hp.same
    intro e he
    simpa [hps] using hd e (by simpa [hdf] using he)
  | single b par attr nid str cr k fx cls hp hk hc =>
    obtain ⟨_, hps, hdf⟩ := hp.same
    intro e he
    simpa [hps] using hd e (by simpa [hdf] using he)
  | create b par attr nid pid ty scal kids rs cr sg fx cls s2 hp hr hk hc hf =>
    obtain ⟨_, hps, hdf⟩ := hp.same
    cases pid with
    | none =>
      simp [State.fulfilOpt] at hf; subst hf
      intro e he
      simpa [hps] using hd e (by simpa [hdf] using he)
    | some p =>
      simp only [State.fulfilOpt, State.fulfil] at hf
      split at hf
      · cases hf
      · cases hf
        intro e he
        simp only [List.mem_filter, hdf] at he
        obtain ⟨hn, hu⟩ := hd e he.1
        refine ⟨?_, hu⟩
        simp only [lookup_append_single, hps, hn]
        have : (e.1 == p) = false := by simpa using he.2
        simp [this]
  | deferWhole i q p ha hq hr =>
    intro e he
    simp only [State.defer, List.mem_append, List.mem_singleton] at he
    rcases he with he | rfl
    · exact hd e he
    · obtain ⟨hu, hn⟩ := resolveVal_unres hr
      exact ⟨hn, hu⟩
  | expand i q par ha hq hr => exact hd

/-! ## the clean fragment -/

/-- `!uuid` only on objects of the initial graph -/
def Atom.okIn (g0 : Graph) : Atom → Prop
  | .uuid i => g0.has i = true
  | _ => True

def Val.cleanScal (g0 : Graph) : Val → Prop
  | .atom a => a.okIn g0
  | .find _ _ => False

def Val.cleanRef (g0 : Graph) : Val → Prop
  | .atom (.str _) => False
  | .atom a => a.okIn g0
  | .find _ _ => False

def cleanHead (g0 : Graph) : Item → Prop
  | .obj _ _ _ scal _ => ∀ kv ∈ scal, kv.2.cleanScal g0
  | .ref v => v.cleanRef g0
  | .str _ _ => False

def cleanQ (g0 : Graph) (i : Instr) : Prop := i.parent.cleanRef g0

/-- the objects of `g0` are still there -/
def GExt (g0 g : Graph) : Prop := ∀ i, g0.has i = true → g.has i = true

/-- a metamodel that accepts every creation -/
def MM.Total (mm : MM) : Prop :=
  (∀ c a, ∃ d sg, mm.kind c a = .coupled (.xtype (some d)) sg 0) ∧ (∀ h, ∃ c, mm.hint h = some c)

theorem total_free (dflt : List (Str × Str)) : (MM.free dflt).Total :=
  ⟨fun _ a => ⟨_, _, rfl⟩, fun h => ⟨h, rfl⟩⟩

theorem has_append (g : Graph) (l : List (Id × Str)) (i : Id) (h : g.has i = true) :
    ({ g with objs := g.objs ++ l } : Graph).has i = true := by
  simp only [Graph.has, List.any_append, Bool.or_eq_true] at *
  exact Or.inl h

theorem create_has (g : Graph) (par attr nid cls rs) (i : Id) (h : g.has i = true) :
    (g.create par attr nid cls rs).has i = true := by
  simp only [Graph.has, (create_objs g par attr nid cls rs).1, List.any_append, Bool.or_eq_true] at *
  exact Or.inl h

theorem CEStep.gext {mm g0 s c s'} (h : CEStep mm s c s') (hg : GExt g0 s.g) : GExt g0 s'.g := by
  cases h with
  | nil par attr rest ha => exact hg
  | setsNil par rest ha => exact hg
  | deferRef b par attr v p hp hr => simpa [State.defer, hp.same.1] using hg
  | deferObj b par attr nid pid ty scal kids p hp hr => simpa [State.defer, hp.same.1] using hg
  | append b par attr v i hp hr =>
    intro j hj
    have := hg j hj
    simpa [Graph.append, Graph.has, hp.same.1] using this
  | single b par attr nid str cr k fx cls hp hk hc =>
    intro j hj
    exact create_has _ _ _ _ _ _ j (by simpa [hp.same.1] using hg j hj)
  | create b par attr nid pid ty scal kids rs cr sg fx cls s2 hp hr hk hc hf =>
    intro j hj
    have h2 := (fulfilOpt_same hf).2
    simp only [h2]
    exact create_has _ _ _ _ _ _ j (by simpa [hp.same.1] using hg j hj)
  | deferWhole i q p ha hq hr => exact hg
  | expand i q par ha hq hr => exact hg

theorem resolveAtom_clean {ps g0 g a} (ha : Atom.okIn g0 a) (hg : GExt g0 g) (e : Err) :
    resolveAtom ps g a ≠ .error (.err e) := by
  cases a with
  | str s => simp [resolveAtom]
  | promise p => simp only [resolveAtom]; split <;> simp
  | uuid i => simp [resolveAtom, hg i ha]
  | obj i => simp [resolveAtom]

theorem resolveVal_cleanScal {ps g0 g v} (hv : Val.cleanScal g0 v) (hg : GExt g0 g) (e : Err) :
    resolveVal ps g v ≠ .error (.err e) := by
  cases v with
  | atom a => exact resolveAtom_clean hv hg e
  | find _ _ => exact hv.elim

theorem resolveVal_cleanRef {ps g0 g v} (hv : Val.cleanRef g0 v) (hg : GExt g0 g) :
    (∀ e, resolveVal ps g v ≠ .error (.err e)) ∧ ∀ s, resolveVal ps g v ≠ .ok (.str s) := by
  cases v with
  | find _ _ => exact hv.elim
  | atom a =>
    cases a with
    | str s => exact hv.elim
    | promise p => constructor <;> intros <;> simp only [resolveVal, resolveAtom] <;> split <;> simp
    | uuid i => constructor <;> intros <;> simp [resolveVal, resolveAtom, hg i hv]
    | obj i => constructor <;> intros <;> simp [resolveVal, resolveAtom]

theorem resolveScal_clean {ps g0 g} (hg : GExt g0 g) (e : Err) : ∀ scal, (∀ kv ∈ scal, kv.2.cleanScal g0) →
    resolveScal ps g scal ≠ .error (.err e)
  | [], _ => by simp [resolveScal]
  | (k, v) :: t, h => by
    simp only [resolveScal, bind, Except.bind]
    have hv := resolveVal_cleanScal (ps := ps) (h (k, v) (by simp)) hg e
    have ht := resolveScal_clean (ps := ps) hg e t (fun kv hkv => h kv (List.mem_cons_of_mem _ hkv))
    split
    · rename_i e' he'; intro heq; cases heq; exact hv he'
    · split
      · rename_i e' he'; intro heq; cases heq; exact ht he'
      · simp [pure, Except.pure]

theorem total_checkTarget {mm : MM} (ht : mm.Total) (g : Graph) (par : Id) (attr : Str) :
    ∃ d sg, checkTarget mm g par attr = .ok (.xtype (some d), sg, 0) := by
  obtain ⟨d, sg, h⟩ := ht.1 ((g.clsOf par).getD []) attr
  exact ⟨d, sg, by simp [checkTarget, attrKind, h]⟩

theorem total_createClass {mm : MM} (ht : mm.Total) (g : Graph) (par : Id) (attr : Str) (d : Str) (ty : Option Str) :
    ∃ cls, createClass mm g par attr (.xtype (some d)) 0 ty = .ok cls := by
  cases ty with
  | none => exact ⟨d, by simp [createClass, Creator.classFor]⟩
  | some h =>
    cases h with
    | nil => exact ⟨d, by simp [createClass, Creator.classFor]⟩
    | cons a t =>
      obtain ⟨c, hc⟩ := ht.2 (a :: t)
      exact ⟨c, by simp [createClass, Creator.classFor, hc]⟩

/-- what a failing transition of the clean fragment looks like: an object description whose promise id
is already bound is being created -/
def DupAt (s : State) (e : Err) : Prop :=
  ∃ b par attr nid p ty scal kids j, Pop s par attr (.obj nid (some p) ty scal kids) b ∧
    s.ps.lookup p = some j ∧ e = .dupPromise p

theorem stepItem_clean_error {mm g0 s b par attr x e} (ht : mm.Total) (hp : Pop s par attr x b)
    (hx : cleanHead g0 x) (hg : GExt g0 s.g) (h : stepItem mm b par attr x = .error e) : DupAt s e := by
  obtain ⟨hbg, hbps, _⟩ := hp.same
  obtain ⟨d, sg, hk⟩ := total_checkTarget ht b.g par attr
  unfold stepItem at h
  rw [hk] at h
  simp only at h
  cases x with
  | ref v =>
    obtain ⟨h1, h2⟩ := resolveVal_cleanRef (ps := b.ps) hx (hbg ▸ hg)
    simp only at h
    split at h
    · cases h
    · rename_i e' he; exact absurd he (h1 e')
    · cases h
    · rename_i s' hs; exact absurd hs (h2 s')
  | str nid str => exact hx.elim
  | obj nid pid ty scal kids =>
    simp only at h
    split at h
    · cases h
    · rename_i e' he; exact absurd he (resolveScal_clean (hbg ▸ hg) e' scal hx)
    · rename_i rs hrs
      obtain ⟨cls, hc⟩ := total_createClass ht b.g par attr d ty
      rw [hc] at h
      simp only [bind, Except.bind] at h
      split at h
      · rename_i e' hf
        cases h
        cases pid with
        | none => simp [State.fulfilOpt] at hf
        | some p =>
          simp only [State.fulfilOpt, State.fulfil] at hf
          split at hf
          · rename_i hsome
            cases hf
            cases hl : b.ps.lookup p with
            | none => simp [hl] at hsome
            | some j => exact ⟨b, par, attr, nid, p, ty, scal, kids, j, hp, hbps ▸ hl, rfl⟩
          · cases hf
      · cases h

theorem clean_step_error {mm g0 P Q s e} (ht : mm.Total) (hs : s.all P Q)
    (hcl : s.all (cleanHead g0) (cleanQ g0)) (hg : GExt g0 s.g) (h : step mm s = .error e) : DupAt s e := by
  unfold step at h
  split at h
  · rename_i w rest hagd
    cases hw : stepWork mm { s with agenda := rest } w with
    | ok s2 => simp [hw, Except.map] at h
    | error e' =>
      simp [hw, Except.map] at h
      subst h
      have hwa : w.all P := hs.1 w (by simp [hagd])
      have hwc : w.all (cleanHead g0) := hcl.1 w (by simp [hagd])
      cases w with
      | items par attr l =>
        cases l with
        | nil =>
          obtain ⟨d, sg, hk⟩ := total_checkTarget ht s.g par attr
          simp [stepWork, hk, Except.map] at hw
        | cons x l =>
          simp only [stepWork] at hw
          exact stepItem_clean_error ht (.agenda l rest hagd) (Item.all_head hwc.1) hg hw
      | sets par l =>
        have : l = [] := hwa
        subst this
        cases hw
      | syncs _ _ _ => exact hwa.elim
      | resync _ _ _ _ _ _ => exact hwa.elim
      | fulfil _ _ => exact hwa.elim
      | dels _ _ _ => exact hwa.elim
  · rename_i hagd
    split at h
    · cases h
    · rename_i a q hq
      cases hw : startAction mm { s with queue := q } a with
      | ok s2 => simp [hw, Except.map] at h
      | error e' =>
        simp [hw, Except.map] at h
        subst h
        have haa : a.all P Q := hs.2.1 a (by simp [hq])
        have hac : a.all (cleanHead g0) (cleanQ g0) := hcl.2.1 a (by simp [hq])
        cases a with
        | whole i =>
          obtain ⟨h1, h2⟩ := resolveVal_cleanRef (ps := s.ps) (hac.1 : i.parent.cleanRef g0) hg
          simp only [startAction] at hw
          split at hw
          · cases hw
          · rename_i e'' he; exact absurd he (h1 e'')
          · rename_i s'' hs''; exact absurd hs'' (h2 s'')
          · cases hw
        | piece par pc =>
          cases pc with
          | item attr x => exact stepItem_clean_error ht (.queue q hagd hq) (Item.all_head hac) hg hw
          | setE _ _ => exact haa.elim
          | sync _ _ => exact haa.elim
          | resync _ _ _ _ _ => exact haa.elim

end Capella.Decl
