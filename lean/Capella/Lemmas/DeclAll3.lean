import Capella.Lemmas.DeclAll
/-!
Lemmas about the `decl.apply` machine, part 8 (every document): **a parked entry is never dropped**.
`deferred` only changes by appending an entry (`deferred[p].append(d)`) or by popping the entries filed
under the id that is being bound (`instructions.extend(deferred.pop(promise, ()))`): an entry filed under `p`
is still there for as long as `p` is unbound.
-/
namespace Capella.Decl

/-- an entry filed under `p` stays parked unless `p` gets bound -/
def Keeps (p : Str) (s s' : State) : Prop :=
  (∃ e ∈ s.deferred, e.1 = p) → s'.ps.lookup p = none → ∃ e ∈ s'.deferred, e.1 = p

theorem keeps_defer (p : Str) (s : State) (q : Str) (a : Action) : Keeps p s (s.defer q a) := by
  intro ⟨e, he, hp⟩ _
  exact ⟨e, by simp [State.defer, he], hp⟩

theorem keeps_fulfil {p : Str} {s s' : State} {q : Str} {i : Id} (hf : s.fulfil q i = .ok s') : Keeps p s s' := by
  unfold State.fulfil at hf
  split at hf
  · cases hf
  · cases hf
    intro ⟨e, he, hp⟩ hn
    refine ⟨e, ?_, hp⟩
    simp only [List.mem_filter]
    refine ⟨he, ?_⟩
    by_cases hq : e.1 = q
    · exfalso
      have : (s.ps ++ [(q, i)]).lookup p = none := hn
      rw [← hp, hq, List.lookup_append] at this
      cases hl : s.ps.lookup q <;> simp [hl, List.lookup] at this
    · simp [hq]

theorem keeps_fulfilOpt {p : Str} {s s' : State} {pid : Option Str} {i : Id} (hf : s.fulfilOpt pid i = .ok s') :
    Keeps p s s' := by
  cases pid with
  | none => simp [State.fulfilOpt] at hf; subst hf; exact fun h _ => h
  | some q => exact keeps_fulfil hf

theorem stepItem_keeps {p : Str} {mm s s' par attr} {x : Item} (h : stepItem mm s par attr x = .ok s') : Keeps p s s' := by
  unfold stepItem at h
  split at h
  · cases h
  · cases x with
    | ref v =>
      simp only at h
      split at h
      · cases h; exact keeps_defer _ _ _ _
      · cases h
      · cases h; exact fun h _ => h
      · cases h
    | str nid str =>
      simp only at h
      split at h
      · cases h
      · split at h
        · cases h
        · cases h; exact fun h _ => h
    | obj nid pid ty scal kids =>
      simp only at h
      split at h
      · cases h; exact keeps_defer _ _ _ _
      · cases h
      · split at h
        · cases h
        · simp only [bind, Except.bind, pure, Except.pure] at h
          split at h
          · cases h
          · rename_i s2 hs2
            cases h
            have h2 := keeps_fulfilOpt (p := p) hs2
            exact h2

theorem stepSet_keeps {p : Str} {s s' par attr} {v : SetVal} (h : stepSet s par attr v = .ok s') : Keeps p s s' := by
  cases v with
  | scalar v =>
    simp only [stepSet] at h
    split at h
    · cases h; exact keeps_defer _ _ _ _
    · cases h
    · cases h; exact fun h _ => h
  | list l =>
    simp only [stepSet] at h
    split at h
    · cases h; exact keeps_defer _ _ _ _
    · cases h
    · cases h; exact fun h _ => h

theorem stepSync_keeps {p : Str} {s s' par attr} {so : SyncObj} (h : stepSync s par attr so = .ok s') : Keeps p s s' := by
  obtain ⟨nid, nid2, ty, keys, pid, set, ext, sync⟩ := so
  simp only [stepSync] at h
  split at h
  · cases h; exact keeps_defer _ _ _ _
  · cases h
  · cases h; exact fun h _ => h
  · split at h
    · cases h; exact keeps_defer _ _ _ _
    · cases h
    · cases h; exact fun h _ => h

theorem stepResync_keeps {p : Str} {mm s s' par attr nid2 ty keys sync} (h : stepResync mm s par attr nid2 ty keys sync = .ok s') : Keeps p s s' := by
  simp only [stepResync] at h
  split at h
  · cases h; exact keeps_defer _ _ _ _
  · cases h
  · cases h; exact fun h _ => h
  · split at h
    · cases h
    · split at h
      · cases h
      · split at h <;> first | (cases h; exact fun h _ => h) | cases h

theorem stepDel_keeps {p : Str} {s s' par attr} {v : Val} (h : stepDel s par attr v = .ok s') : Keeps p s s' := by
  unfold stepDel at h
  split at h
  · cases h
  · split at h
    · cases h
    · cases h
    · cases h
    · split at h <;> first | (cases h; exact fun h _ => h) | cases h

/-- every transition keeps what is parked under an id that stays unbound -/
theorem step_keeps {p : Str} {mm s s'} (h : step mm s = .ok (some s')) : Keeps p s s' := by
  unfold step at h
  split at h
  · rename_i w rest _
    simp only [Except.map] at h
    split at h
    · cases h
    · rename_i s2 hw
      simp at h; subst h
      cases w with
      | items par attr l =>
        cases l with
        | nil => have := checkTarget_items_nil hw; subst this; exact fun h _ => h
        | cons x l =>
          have h2 := stepItem_keeps (p := p) hw
          exact h2
      | sets par l =>
        cases l with
        | nil => cases hw; exact fun h _ => h
        | cons x l =>
          have h2 := stepSet_keeps (p := p) hw
          exact h2
      | syncs par attr l =>
        cases l with
        | nil => cases hw; exact fun h _ => h
        | cons x l =>
          have h2 := stepSync_keeps (p := p) hw
          exact h2
      | resync par attr nid2 ty keys sync =>
        have h2 := stepResync_keeps (p := p) hw
        exact h2
      | fulfil q i =>
        have h2 := keeps_fulfil (p := p) hw
        exact h2
      | dels par attr l =>
        cases l with
        | nil => cases hw; exact fun h _ => h
        | cons x l =>
          have h2 := stepDel_keeps (p := p) hw
          exact h2
  · split at h
    · cases h
    · rename_i a q _
      simp only [Except.map] at h
      split at h
      · cases h
      · rename_i s2 hw
        simp at h; subst h
        cases a with
        | whole i =>
          simp only [startAction] at hw
          split at hw
          · cases hw; exact keeps_defer _ _ _ _
          · cases hw
          · cases hw
          · cases hw; exact fun h _ => h
        | piece par pc =>
          cases pc with
          | item attr x =>
            have h2 := stepItem_keeps (p := p) hw
            exact h2
          | setE attr v =>
            have h2 := stepSet_keeps (p := p) hw
            exact h2
          | sync attr so =>
            have h2 := stepSync_keeps (p := p) hw
            exact h2
          | resync attr nid2 ty keys sy =>
            have h2 := stepResync_keeps (p := p) hw
            exact h2


/-- along a run: what is parked under an id that never gets bound is still parked at the end -/
theorem run_keeps_parked {p : Str} {mm} : ∀ (n : Nat) (s sf : State), run mm n s = some (.ok sf) →
    (∃ e ∈ s.deferred, e.1 = p) → sf.ps.lookup p = none → ∃ e ∈ sf.deferred, e.1 = p
  | 0, _, _, h, _, _ => by simp [run] at h
  | n + 1, s, sf, h, hp, hn => by
    unfold run at h
    split at h
    · simp at h
    · simp at h; subst h; exact hp
    · rename_i s' hs
      have hn' : s'.ps.lookup p = none := by
        cases hl : s'.ps.lookup p with
        | none => rfl
        | some i => have := (run_ps n s' sf h).1 p i hl; rw [hn] at this; cases this
      exact run_keeps_parked n s' sf h (step_keeps hs hp hn') hn

end Capella.Decl
