import Capella.Model.GitPrepared
import Capella.Lemmas.GitTxn
import Capella.Lemmas.GitPush

/-! Lemmas about transaction objects that are made and entered in two steps (C16). -/
namespace Capella.Git

variable {P : Type} [DecidableEq P]

/-- The idiomatic `with handler.write_transaction(**opts): body` is: make the object, enter it at once. -/
theorem transactionPush_eq_create_enter (fault : Option Nat) (rev : Str) (o : Opts) (po : PushOpts)
    (body : List (Op P)) (s : St P) (rem : Remote) :
    transactionPush fault rev o po body s rem =
      match create fault rev o po s with
      | (s0, .error e) => ((s0, some e), rem)
      | (s0, .ok tx) => enterRun fault rev tx body s0 rem := by
  unfold transactionPush create enterRun
  simp only []
  cases hobj : objectLike (o.remoteBranch.getD rev)
  · simp only [Bool.false_eq_true, if_false]
    rfl
  · simp

/-- what a successful `create` returns -/
theorem create_ok (fault : Option Nat) (rev : Str) (o : Opts) (po : PushOpts) (s : St P) (tx : Txn)
    (h : (create fault rev o po s).2 = .ok tx) :
    objectLike (o.remoteBranch.getD rev) = false ∧ tx = { o := o, po := po, target := qualify (o.remoteBranch.getD rev) } := by
  unfold create at h
  cases hobj : objectLike (o.remoteBranch.getD rev)
  · simp only [hobj, Bool.false_eq_true, if_false] at h
    injection h with h
    exact ⟨rfl, h.symm⟩
  · simp [hobj] at h

/-- `create` touches nothing but the command counter and the trace -/
theorem create_frame (fault : Option Nat) (rev : Str) (o : Opts) (po : PushOpts) (s : St P) :
    (create fault rev o po s).1.commits = s.commits ∧ (create fault rev o po s).1.refs = s.refs ∧
    (create fault rev o po s).1.head = s.head ∧ (create fault rev o po s).1.index = s.index ∧
    (create fault rev o po s).1.files = s.files ∧ (create fault rev o po s).1.txnOpen = s.txnOpen := by
  unfold create
  simp only
  split <;> split <;> simp [call]

/-- **When the object was made does not matter**: an object made at any earlier moment (any state `s'`, any
failing command `fault'` there), entered now, behaves exactly like a transaction made now. -/
theorem enterRun_of_created (fault fault' : Option Nat) (rev : Str) (o : Opts) (po : PushOpts) (s' : St P) (tx : Txn)
    (h : (create fault' rev o po s').2 = .ok tx) (body : List (Op P)) (s : St P) (rem : Remote) :
    enterRun fault rev tx body { s with calls := 0, trace := [] } rem = transactionPush fault rev o po body s rem := by
  obtain ⟨hobj, rfl⟩ := create_ok fault' rev o po s' tx h
  have hne : o.remoteBranch.getD rev ≠ headStr := by
    intro hh; rw [hh, objectLike_head] at hobj; cases hobj
  rw [transactionPush_eq_create_enter]
  unfold create
  simp only [hne, hobj, if_false, Bool.false_eq_true]

/-! ### every commit a transaction creates sits on the HEAD at entry -/

theorem finish_commits (fault : Option Nat) (o : Opts) (target : Str) (old : Nat) (s : St P) :
    (finish fault o target old s).1.commits = s.commits ∨
      ∃ k, (finish fault o target old s).1.commits = s.commits ++ [k] ∧ k.parent = some old := by
  simp only [finish, call]
  by_cases h0 : fault = some s.calls <;> by_cases h1 : fault = some (s.calls + 1) <;>
  by_cases h2 : fault = some (s.calls + 2) <;> by_cases h3 : fault = some (s.calls + 3) <;>
  by_cases h4 : fault = some (s.calls + 4) <;>
  cases hi : o.ignoreEmpty <;> cases hd : o.dry <;>
  cases hs : s.index.same (treeOf s old) <;>
  simp_all [treeOf]

theorem restoreRef_commits (fault : Option Nat) (target : Str) (oldT : Option Nat) (s : St P) :
    (restoreRef fault target oldT s).1.commits = s.commits := by
  by_cases h : fault = some s.calls <;> simp [restoreRef, call, h]

theorem finishPush_commits (fault : Option Nat) (o : Opts) (po : PushOpts) (target : Str) (old : Nat) (s : St P)
    (rem : Remote) :
    (finishPush fault o po target old s rem).1.1.commits = s.commits ∨
      ∃ k, (finishPush fault o po target old s rem).1.1.commits = s.commits ++ [k] ∧ k.parent = some old := by
  unfold finishPush
  split
  · exact finish_commits fault o target old s
  · simp only [call]
    by_cases h0 : fault = some s.calls
    · simp [h0]
    · simp only [h0, decide_false]
      have hf := finish_commits fault o target old { s with calls := s.calls + 1, trace := Cmd.revParseTarget target :: s.trace }
      rcases hfin : finish fault o target old { s with calls := s.calls + 1, trace := Cmd.revParseTarget target :: s.trace }
        with ⟨s2, e, _ | _⟩
      · rw [hfin] at hf; exact hf
      · rw [hfin] at hf
        simp only at hf ⊢
        by_cases hp : fault = some s2.calls
        · simp only [hp, decide_true]
          rw [restoreRef_commits]
          exact hf
        · simp only [hp, decide_false]
          split
          · exact hf
          · rw [restoreRef_commits]; exact hf

theorem rollback_head_commits (fault : Option Nat) (old : Nat) (e : Option Err) (s : St P) :
    (rollback fault old e s).1.commits = s.commits := (rollback_keeps fault old e s).2.1

/-- the part of `enterRun` after the "already open" check, for an arbitrary base `old` -/
theorem enterTail_commits (fault : Option Nat) (rol : Bool) (tx : Txn) (body : List (Op P)) (s1 : St P) (rem : Remote)
    (old : Nat) :
    let r : Res P × Remote :=
      match runBody fault rol body s1 with
      | (s2, some e) => (rollback fault old (some e) { s2 with txnOpen := false }, rem)
      | (s2, none) =>
        match finishPush fault tx.o tx.po tx.target old s2 rem with
        | ((s3, e, true), rem') => (({ s3 with txnOpen := false }, e), rem')
        | ((s3, e, false), rem') => (rollback fault old e { s3 with txnOpen := false }, rem')
    r.1.1.commits = s1.commits ∨ ∃ k, r.1.1.commits = s1.commits ++ [k] ∧ k.parent = some old := by
  have hb := runBody_frame fault rol body s1
  rcases hr : runBody fault rol body s1 with ⟨s2, _ | e⟩
  · rw [hr] at hb
    have hc : s2.commits = s1.commits := hb.1
    have hf := finishPush_commits fault tx.o tx.po tx.target old s2 rem
    simp only []
    rcases hfp : finishPush fault tx.o tx.po tx.target old s2 rem with ⟨⟨s3, e, _ | _⟩, rem'⟩
    · rw [hfp] at hf
      simp only at hf ⊢
      rw [rollback_head_commits]
      simpa [hc] using hf
    · rw [hfp] at hf
      simpa [hc] using hf
  · rw [hr] at hb
    simp only
    rw [rollback_head_commits]
    left; exact hb.1

/-- **The parent is the HEAD at entry.**  Whatever the body does, whichever command fails, whatever the options:
the commits that exist after `with tx: body` are those from before plus at most one, and that one has as parent
the commit the handler's work tree was at when the `with` block was entered. -/
theorem enterRun_commits (fault : Option Nat) (rev : Str) (tx : Txn) (body : List (Op P)) (s : St P) (rem : Remote) :
    (enterRun fault rev tx body s rem).1.1.commits = s.commits ∨
      ∃ k, (enterRun fault rev tx body s rem).1.1.commits = s.commits ++ [k] ∧ k.parent = some s.head := by
  unfold enterRun
  simp only [call]
  by_cases h0 : fault = some s.calls
  · simp [h0]
  · simp only [h0, decide_false]
    cases ho : s.txnOpen
    · simp only [Bool.false_eq_true, if_false]
      exact enterTail_commits fault (objectLike rev) tx body
        { s with calls := s.calls + 1, trace := Cmd.revParseHead :: s.trace, txnOpen := true } rem s.head
    · simp

/-- the same for one step of a history: new commits sit on the HEAD right before THIS step -/
theorem step_commits (rev : Str) (st : Step P) (w : World P) :
    (step rev st w).1.st.commits = w.st.commits ∨
      ∃ k, (step rev st w).1.st.commits = w.st.commits ++ [k] ∧ k.parent = some w.st.head := by
  cases st with
  | create o po =>
    left
    have := (create_frame none rev o po w.st).1
    simp only [step]
    split <;> (rename_i h; rw [h] at this; exact this)
  | run i fault body =>
    simp only [step]
    split
    · left; rfl
    · rename_i tx _
      exact enterRun_commits fault rev tx body { w.st with calls := 0, trace := [] } w.rem

/-- commits are never taken away by later steps -/
theorem runSteps_commits (rev : Str) (steps : List (Step P)) : ∀ w : World P,
    ∃ more, (runSteps rev steps w).st.commits = w.st.commits ++ more := by
  induction steps with
  | nil => intro w; exact ⟨[], by simp [runSteps]⟩
  | cons st rest ih =>
    intro w
    obtain ⟨more, hm⟩ := ih (step rev st w).1
    simp only [runSteps]
    rcases step_commits rev st w with h | ⟨k, h, _⟩
    · exact ⟨more, by rw [hm, h]⟩
    · exact ⟨k :: more, by rw [hm, h]; simp⟩

theorem runSteps_append (rev : Str) (a b : List (Step P)) (w : World P) :
    runSteps rev (a ++ b) w = runSteps rev b (runSteps rev a w) := by
  induction a generalizing w with
  | nil => rfl
  | cons st rest ih => simp only [List.cons_append, runSteps]; exact ih _

/-- **Every interleaving.**  In any history of making and entering transaction objects on one handler (objects
entered long after they were made, in any order, the same object several times, with aborts, dry runs and failing
git commands in between): a commit that the `k`-th step adds is still there at the end, and its parent is the
commit the handler was at right before that step. -/
theorem interleaving_parent (rev : Str) (pre post : List (Step P)) (st : Step P) (w : World P) :
    let w1 := runSteps rev pre w
    let w2 := (step rev st w1).1
    let wf := runSteps rev (pre ++ st :: post) w
    (w2.st.commits = w1.st.commits ∨
      ∃ k, w2.st.commits = w1.st.commits ++ [k] ∧ k.parent = some w1.st.head ∧
        wf.st.commits[w1.st.commits.length]? = some k) ∧
    ∃ more, wf.st.commits = w2.st.commits ++ more := by
  intro w1 w2 wf
  have hwf : wf = runSteps rev post w2 := by
    simp only [wf, runSteps_append, runSteps]; rfl
  obtain ⟨more, hm⟩ := runSteps_commits rev post w2
  refine ⟨?_, more, by rw [hwf, hm]⟩
  rcases step_commits rev st w1 with h | ⟨k, h, hp⟩
  · left; exact h
  · right
    refine ⟨k, h, hp, ?_⟩
    rw [hwf, hm]
    have : w2.st.commits = w1.st.commits ++ [k] := h
    rw [this]
    simp

end Capella.Git
