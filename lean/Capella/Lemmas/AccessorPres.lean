import Capella.Lemmas.AccessorInv

/-! Every mutation method of the accessor model keeps the index invariant (`Pres`), for every descriptor row and
every argument: the proofs only walk the program structure (`pres_auto`), the content is `pres_emit`. -/
namespace Capella.Accessor
open Capella.Index Capella.AccTable

/-- extensible: one alternative per proved `pres_*` lemma -/
syntax "pres_lemma" : tactic

syntax "pres_step" : tactic
syntax "pres_auto" : tactic
macro_rules
  | `(tactic| pres_auto) => `(tactic| repeat' pres_step)
macro_rules
  | `(tactic| pres_step) => `(tactic| (first
      | intro _
      | exact pres_pure _
      | exact pres_raise _
      | exact pres_getS
      | exact pres_emit _
      | (with_reducible apply pres_modS; intro _; rfl)
      | pres_lemma
      | with_reducible apply pres_bind
      | with_reducible apply pres_tryExcept
      | with_reducible apply pres_suppress
      | with_reducible apply pres_tryCatch
      | with_reducible apply pres_attempt
      | with_reducible apply pres_forM_
      | with_reducible apply pres_forIn
      | assumption
      | split
      | (dsimp only)))

macro_rules | `(tactic| pres_lemma) => `(tactic| fail "no lemma")

theorem pres_hit (b) : Pres (hit b) := by unfold hit; pres_auto
macro_rules | `(tactic| pres_lemma) => `(tactic| with_reducible apply pres_hit)
theorem pres_touch (ns) : Pres (touch ns) := by unfold touch; pres_auto
macro_rules | `(tactic| pres_lemma) => `(tactic| with_reducible apply pres_touch)
theorem pres_getRow (n) : Pres (getRow n) := by unfold getRow; pres_auto
macro_rules | `(tactic| pres_lemma) => `(tactic| with_reducible apply pres_getRow)
theorem pres_ensureKnown (ns) : Pres (ensureKnown ns) := by unfold ensureKnown; pres_auto
macro_rules | `(tactic| pres_lemma) => `(tactic| with_reducible apply pres_ensureKnown)
theorem pres_attrOf (n k) : Pres (attrOf n k) := by unfold attrOf; pres_auto
macro_rules | `(tactic| pres_lemma) => `(tactic| with_reducible apply pres_attrOf)
theorem pres_findFragment (n) : Pres (findFragment n) := by unfold findFragment; pres_auto
macro_rules | `(tactic| pres_lemma) => `(tactic| with_reducible apply pres_findFragment)
theorem pres_kidsOf (n) : Pres (kidsOf n) := by unfold kidsOf; pres_auto
macro_rules | `(tactic| pres_lemma) => `(tactic| with_reducible apply pres_kidsOf)
theorem pres_parentOf (n) : Pres (parentOf n) := by unfold parentOf; pres_auto
macro_rules | `(tactic| pres_lemma) => `(tactic| with_reducible apply pres_parentOf)
theorem pres_setRows (fi rows) : Pres (setRows fi rows) := by unfold setRows; pres_auto
macro_rules | `(tactic| pres_lemma) => `(tactic| with_reducible apply pres_setRows)
theorem pres_fragOf (fi) : Pres (fragOf fi) := by unfold fragOf; pres_auto
macro_rules | `(tactic| pres_lemma) => `(tactic| with_reducible apply pres_fragOf)
theorem pres_updRow (n g) : Pres (updRow n g) := by unfold updRow; pres_auto
macro_rules | `(tactic| pres_lemma) => `(tactic| with_reducible apply pres_updRow)
theorem pres_setAttr (n k v) : Pres (setAttr n k v) := by unfold setAttr; pres_auto
macro_rules | `(tactic| pres_lemma) => `(tactic| with_reducible apply pres_setAttr)
theorem pres_popAttr (n k) : Pres (popAttr n k) := by unfold popAttr; pres_auto
macro_rules | `(tactic| pres_lemma) => `(tactic| with_reducible apply pres_popAttr)
theorem pres_removeElem (n) : Pres (removeElem n) := by unfold removeElem; pres_auto
macro_rules | `(tactic| pres_lemma) => `(tactic| with_reducible apply pres_removeElem)
theorem pres_removeElemNoIndex (n) : Pres (removeElemNoIndex n) := by unfold removeElemNoIndex; pres_auto
macro_rules | `(tactic| pres_lemma) => `(tactic| with_reducible apply pres_removeElemNoIndex)
theorem pres_takeLimbo (n) : Pres (takeLimbo n) := by unfold takeLimbo; pres_auto
macro_rules | `(tactic| pres_lemma) => `(tactic| with_reducible apply pres_takeLimbo)
theorem pres_newElement (p t n a) : Pres (newElement p t n a) := by unfold newElement; pres_auto
macro_rules | `(tactic| pres_lemma) => `(tactic| with_reducible apply pres_newElement)
theorem pres_indexElem (n) : Pres (indexElem n) := by unfold indexElem; pres_auto
macro_rules | `(tactic| pres_lemma) => `(tactic| with_reducible apply pres_indexElem)
theorem pres_linkAt (p i seg) : Pres (linkAt p i seg) := by unfold linkAt; pres_auto
macro_rules | `(tactic| pres_lemma) => `(tactic| with_reducible apply pres_linkAt)
theorem pres_moveElem (p i v) : Pres (moveElem p i v) := by unfold moveElem; pres_auto
macro_rules | `(tactic| pres_lemma) => `(tactic| with_reducible apply pres_moveElem)

theorem pres_lookupM (k) : Pres (lookupM k) := by unfold lookupM; pres_auto
macro_rules | `(tactic| pres_lemma) => `(tactic| with_reducible apply pres_lookupM)
theorem pres_followLink (l) : Pres (followLink l) := by unfold followLink; pres_auto
macro_rules | `(tactic| pres_lemma) => `(tactic| with_reducible apply pres_followLink)
theorem pres_followLinks_go (ib) (ps) : Pres (followLinks.go ib ps) := by
  induction ps with
  | nil => unfold followLinks.go; pres_auto
  | cons p ps ih => unfold followLinks.go; pres_auto
macro_rules | `(tactic| pres_lemma) => `(tactic| with_reducible apply pres_followLinks_go)
theorem pres_followLinks (l b) : Pres (followLinks l b) := by unfold followLinks; pres_auto
macro_rules | `(tactic| pres_lemma) => `(tactic| with_reducible apply pres_followLinks)
theorem pres_createLink (a b) : Pres (createLink a b) := by unfold createLink; pres_auto
macro_rules | `(tactic| pres_lemma) => `(tactic| with_reducible apply pres_createLink)
theorem pres_generateUuidM (p w) : Pres (generateUuidM p w) := by unfold generateUuidM; pres_auto
macro_rules | `(tactic| pres_lemma) => `(tactic| with_reducible apply pres_generateUuidM)
theorem pres_cleanupAfterFailure (fi p k) : Pres (cleanupAfterFailure fi p k) := by unfold cleanupAfterFailure; pres_auto
macro_rules | `(tactic| pres_lemma) => `(tactic| with_reducible apply pres_cleanupAfterFailure)
theorem pres_withNewUuid {α} (p w) (body : String → M α) (hb : ∀ k, Pres (body k)) : Pres (withNewUuid p w body) := by
  unfold withNewUuid; repeat' (first | exact hb _ | pres_step)
macro_rules | `(tactic| pres_lemma) => `(tactic| with_reducible apply pres_withNewUuid)
theorem pres_matchXtypeGeneric (t h) : Pres (matchXtypeGeneric t h) := by unfold matchXtypeGeneric; pres_auto
macro_rules | `(tactic| pres_lemma) => `(tactic| with_reducible apply pres_matchXtypeGeneric)
theorem pres_buildXtype (c) : Pres (buildXtype c) := by unfold buildXtype; pres_auto
macro_rules | `(tactic| pres_lemma) => `(tactic| with_reducible apply pres_buildXtype)
theorem pres_matchXtype (t r h) : Pres (matchXtype t r h) := by unfold matchXtype; pres_auto
macro_rules | `(tactic| pres_lemma) => `(tactic| with_reducible apply pres_matchXtype)
theorem pres_guessXtype (t r) : Pres (guessXtype t r) := by unfold guessXtype; pres_auto
macro_rules | `(tactic| pres_lemma) => `(tactic| with_reducible apply pres_guessXtype)
theorem pres_resolveXtype (t r h) : Pres (resolveXtype t r h) := by unfold resolveXtype; pres_auto
macro_rules | `(tactic| pres_lemma) => `(tactic| with_reducible apply pres_resolveXtype)
theorem pres_nextFresh : Pres nextFresh := by unfold nextFresh; pres_auto
macro_rules | `(tactic| pres_lemma) => `(tactic| with_reducible apply pres_nextFresh)
theorem pres_setStringPod (n a w v) : Pres (setStringPod n a w v) := by unfold setStringPod; pres_auto
macro_rules | `(tactic| pres_lemma) => `(tactic| with_reducible apply pres_setStringPod)
theorem pres_setPod (P n d v) : Pres (setPod P n d v) := by unfold setPod; pres_auto
macro_rules | `(tactic| pres_lemma) => `(tactic| with_reducible apply pres_setPod)


/-- creation, for every nesting depth: `accCreate`, `ModelElement.__init__`, `RoleTagAccessor.__set__` -/
theorem pres_create_trio (fuel : Nat) :
    (∀ t row obj spec, Pres (roleTagSet fuel t row obj spec)) ∧
    (∀ t cls parent xmltag uuid kw, Pres (modelElementInit fuel t cls parent xmltag uuid kw)) ∧
    (∀ t row parent xmltag hint kw, Pres (accCreate fuel t row parent xmltag hint kw)) := by
  induction fuel with
  | zero =>
    have h1 : ∀ t row obj spec, Pres (roleTagSet 0 t row obj spec) := by
      intro t row obj spec; unfold roleTagSet
      repeat' (first | pres_step | (exfalso; omega))
    have h2 : ∀ t cls parent xmltag uuid kw, Pres (modelElementInit 0 t cls parent xmltag uuid kw) := by
      intro t cls parent xmltag uuid kw; unfold modelElementInit
      repeat' (first | exact h1 _ _ _ _ | pres_step)
    refine ⟨h1, h2, ?_⟩
    intro t row parent xmltag hint kw; unfold accCreate
    repeat' (first | exact h2 _ _ _ _ _ _ | (with_reducible apply pres_withNewUuid) | pres_step)
  | succ n ih =>
    obtain ⟨_, _, ih3⟩ := ih
    have h1 : ∀ t row obj spec, Pres (roleTagSet (n + 1) t row obj spec) := by
      intro t row obj spec; unfold roleTagSet
      repeat' (first | exact ih3 _ _ _ _ _ _ | (injection ‹(_ : Nat) = Nat.succ _› with hh; subst hh) | pres_step)
    have h2 : ∀ t cls parent xmltag uuid kw, Pres (modelElementInit (n + 1) t cls parent xmltag uuid kw) := by
      intro t cls parent xmltag uuid kw; unfold modelElementInit
      repeat' (first | exact h1 _ _ _ _ | pres_step)
    refine ⟨h1, h2, ?_⟩
    intro t row parent xmltag hint kw; unfold accCreate
    repeat' (first | exact h2 _ _ _ _ _ _ | (with_reducible apply pres_withNewUuid) | pres_step)

theorem pres_roleTagSet (fuel t row obj spec) : Pres (roleTagSet fuel t row obj spec) := (pres_create_trio fuel).1 t row obj spec
macro_rules | `(tactic| pres_lemma) => `(tactic| with_reducible apply pres_roleTagSet)
theorem pres_accCreate (fuel t row parent xmltag hint kw) : Pres (accCreate fuel t row parent xmltag hint kw) :=
  (pres_create_trio fuel).2.2 t row parent xmltag hint kw
macro_rules | `(tactic| pres_lemma) => `(tactic| with_reducible apply pres_accCreate)

end Capella.Accessor
