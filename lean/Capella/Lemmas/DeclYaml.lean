import Capella.Model.DeclYaml
set_option linter.unusedSimpArgs false
/-! Round trip of the tag codec: `construct (represent v) = v` for every well-formed value. -/
namespace Capella.DeclYaml

def customTag (t : Str) : Bool := t = tStr || t = tPromise || t = tUuid || t = tFind || t = tNew

theorem t1 : tStr ≠ tPromise := by decide
theorem t2 : tStr ≠ tUuid := by decide
theorem t3 : tStr ≠ tFind := by decide
theorem t4 : tStr ≠ tNew := by decide
theorem t5 : tUuid ≠ tPromise := by decide
theorem t6 : tFind ≠ tPromise := by decide
theorem t7 : tFind ≠ tUuid := by decide
theorem t8 : tNew ≠ tPromise := by decide
theorem t9 : tNew ≠ tUuid := by decide
theorem t10 : tNew ≠ tFind := by decide
theorem t11 : tMap ≠ tPromise := by decide
theorem t12 : tMap ≠ tUuid := by decide
theorem t13 : tMap ≠ tFind := by decide
theorem t14 : tMap ≠ tNew := by decide
theorem t15 : tSeq ≠ tPromise := by decide
theorem t16 : tSeq ≠ tUuid := by decide
theorem t17 : tSeq ≠ tFind := by decide
theorem t18 : tSeq ≠ tNew := by decide

def noTypeKey : List (Str × DVal) → Prop
  | [] => True
  | (k, _) :: t => k ≠ kType ∧ noTypeKey t

mutual
/-- values `dump` can be handed such that `load` gives them back: UUID references are valid UUID strings,
new-object markers carry a non-empty string type hint and no `_type` keyword, opaque plain scalars do
not masquerade as one of decl's tags -/
def WF : DVal → Prop
  | .str _ => True
  | .plain tag _ => customTag tag = false
  | .promise _ => True
  | .uuid u => isUuid u = true
  | .find attrs => WFkvs attrs
  | .newobj ty kw => (∃ t, ty = .str t ∧ t ≠ []) ∧ noTypeKey kw ∧ WFkvs kw
  | .map kvs => WFkvs kvs
  | .list l => WFlist l
def WFkvs : List (Str × DVal) → Prop
  | [] => True
  | (_, v) :: t => WF v ∧ WFkvs t
def WFlist : List DVal → Prop
  | [] => True
  | v :: t => WF v ∧ WFlist t
end

theorem popType_append (kw : List (Str × DVal)) (ty : DVal) (h : noTypeKey kw) :
    popType (kw ++ [(kType, ty)]) = some (ty, kw) := by
  induction kw with
  | nil => simp [popType]
  | cons x t ih =>
    obtain ⟨k, v⟩ := x
    simp only [noTypeKey] at h
    simp [popType, h.1, ih h.2]

theorem constructKvs_type (tyN : Node) (ty : DVal) (hty : construct tyN = .ok ty) :
    ∀ (kw : List (Str × DVal)), noTypeKey kw → constructKvs (representKvs kw) = .ok kw →
      constructKvs (representKvsType tyN kw) = .ok (kw ++ [(kType, ty)])
  | [], _, _ => by simp [representKvsType, constructKvs, hty, t1, t2, t3, t4]
  | (k, v) :: t, hn, hk => by
    simp only [noTypeKey] at hn
    simp only [representKvs, constructKvs] at hk
    cases hv : construct (represent v) with
    | error e => simp [hv] at hk
    | ok v' =>
      cases hc : constructKvs (representKvs t) with
      | error e => simp [hv, hc] at hk
      | ok t' =>
        simp [hv, hc] at hk
        obtain ⟨rfl, rfl⟩ := hk
        have ih := constructKvs_type tyN ty hty t' hn.2 hc
        simp [representKvsType, hn.1, constructKvs, hv, ih]

mutual
theorem construct_represent : ∀ v : DVal, WF v → construct (represent v) = .ok v
  | .str s, _ => by simp [represent, construct, t1, t2, t3, t4, t5, t6, t7, t8, t9, t10, t11, t12, t13, t14, t15, t16, t17, t18]
  | .plain tag s, h => by
    simp only [WF, customTag, Bool.or_eq_false_iff, decide_eq_false_iff_not] at h
    simp [represent, construct, h]
  | .promise p, _ => by simp [represent, construct]
  | .uuid u, h => by
    simp only [WF] at h
    simp [represent, construct, h, t1, t2, t3, t4, t5, t6, t7, t8, t9, t10, t11, t12, t13, t14, t15, t16, t17, t18]
  | .find attrs, h => by
    simp only [WF] at h
    have := constructKvs_representKvs attrs h
    simp [represent, construct, this, t1, t2, t3, t4, t5, t6, t7, t8, t9, t10, t11, t12, t13, t14, t15, t16, t17, t18]
  | .newobj ty kw, h => by
    simp only [WF] at h
    obtain ⟨⟨t, rfl, ht⟩, hn, hk⟩ := h
    have hk' := constructKvs_representKvs kw hk
    have hty : construct (represent (.str t)) = .ok (.str t) := by simp [represent, construct, t1, t2, t3, t4, t5, t6, t7, t8, t9, t10, t11, t12, t13, t14, t15, t16, t17, t18]
    have := constructKvs_type (represent (.str t)) (.str t) hty kw hn hk'
    have htr : truthy (.str t) = true := by cases t <;> simp_all [truthy]
    simp only [represent, htr, if_true, construct] at this ⊢
    simp [this, popType_append kw (.str t) hn, t1, t2, t3, t4, t5, t6, t7, t8, t9, t10, t11, t12, t13, t14, t15, t16, t17, t18]
  | .map kvs, h => by
    simp only [WF] at h
    have := constructKvs_representKvs kvs h
    simp [represent, construct, this, t1, t2, t3, t4, t5, t6, t7, t8, t9, t10, t11, t12, t13, t14, t15, t16, t17, t18]
  | .list l, h => by
    simp only [WF] at h
    have := constructList_representList l h
    simp [represent, construct, this, t1, t2, t3, t4, t5, t6, t7, t8, t9, t10, t11, t12, t13, t14, t15, t16, t17, t18]
theorem constructKvs_representKvs : ∀ kvs : List (Str × DVal), WFkvs kvs → constructKvs (representKvs kvs) = .ok kvs
  | [], _ => by simp [representKvs, constructKvs]
  | (k, v) :: t, h => by
    simp only [WFkvs] at h
    simp [representKvs, constructKvs, construct_represent v h.1, constructKvs_representKvs t h.2]
theorem constructList_representList : ∀ l : List DVal, WFlist l → constructList (representList l) = .ok l
  | [], _ => by simp [representList, constructList]
  | v :: t, h => by
    simp only [WFlist] at h
    simp [representList, constructList, construct_represent v h.1, constructList_representList t h.2]
end


theorem load_dump (instrs : List DVal) (md : List (Str × DVal)) (hi : WFlist instrs) (hm : WFkvs md) :
    loadWithMetadata (dumpDocs instrs md) = .ok (md, instrs) := by
  have h1 : construct (represent (.list instrs)) = .ok (.list instrs) := construct_represent _ (by simpa [WF] using hi)
  have h2 : construct (represent (.map md)) = .ok (.map md) := construct_represent _ (by simpa [WF] using hm)
  unfold dumpDocs
  cases md with
  | nil => simp [loadWithMetadata, constructAll, h1, instrsOf]
  | cons x t => simp [loadWithMetadata, constructAll, h1, h2, instrsOf, metaOf]

end Capella.DeclYaml
