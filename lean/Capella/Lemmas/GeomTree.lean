/-
Lemmas about box nesting (`Capella.Model.GeomTree`), by induction over the tree of notation nodes: translation
equivariance of a whole placed tree, moving a top-level node, and the nesting invariant (children inside their
parent with the margin, ports attached to the border), with its consequence for every ancestor.
-/
import Capella.Model.GeomTree
import Capella.Lemmas.GeomView
import Capella.Lemmas.GeomMore

namespace Capella.Geom

/-! ### one `snap_to_parent` -/

theorem snapToParent_translate (oh m : Rat) (parent child : Box) (v : V2) :
    snapToParent oh m (parent.translate v) (child.translate v) = (snapToParent oh m parent child).map (·.translate v) := by
  obtain ⟨cpos, csize, cport⟩ := child
  cases cport with
  | true =>
    simp only [snapToParent, Box.translate_port, if_true, snapPort_translate]
    cases snapPort parent ⟨cpos, csize, true⟩ oh <;> rfl
  | false =>
    simp only [snapToParent, Box.translate_port, Box.translate_size, Bool.false_eq_true, if_false, snapChild_translate]
    split_ifs <;> rfl

/-- what one `snap_to_parent` guarantees -/
theorem snapToParent_spec (oh m : Rat) (h0 : 0 ≤ oh) (parent child box : Box)
    (h : snapToParent oh m parent child = .ok box) :
    box.port = child.port ∧ (child.port = false → insideMargin m parent box) ∧
    (child.port = true → portFits oh parent box → portAttached parent box.pos box.size) := by
  obtain ⟨cpos, csize, cport⟩ := child
  cases cport with
  | true =>
    simp only [snapToParent, if_true] at h
    cases hsp : snapPort parent ⟨cpos, csize, true⟩ oh with
    | error e => rw [hsp] at h; simp at h
    | ok p =>
      rw [hsp] at h
      simp only [Except.ok.injEq] at h
      subst h
      refine ⟨rfl, fun hc => by simp at hc, fun _ hf => ?_⟩
      obtain ⟨pos', hpos', hatt, _⟩ := snapPort_spec parent ⟨cpos, csize, true⟩ oh h0 hf.1 hf.2.1 hf.2.2.1 hf.2.2.2
      rw [hsp] at hpos'
      cases hpos'
      exact hatt
  | false =>
    simp only [snapToParent, Bool.false_eq_true, if_false] at h
    split_ifs at h with hs
    simp only [Except.ok.injEq] at h
    subst h
    have hspec := snapChild_spec parent ⟨cpos, csize, false⟩ csize m
    simp only at hspec
    exact ⟨rfl, fun _ => ⟨hspec.1, hspec.2.1, hspec.2.2.1 hs.1, hspec.2.2.2 hs.2⟩, fun hc => by simp at hc⟩

/-! ### translation of a placed tree -/

theorem Except.map_ok'' {ε α β : Type} (f : α → β) (a : α) : (Except.ok a : Except ε α).map f = .ok (f a) := rfl
theorem Except.map_error'' {ε α β : Type} (f : α → β) (e : ε) : (Except.error e : Except ε α).map f = .error e := rfl

mutual
/-- placing a node below a translated parent yields the translated placed tree -/
theorem place_translate (oh m : Rat) (v : V2) (parent : Box) :
    ∀ n : Node, place oh m (parent.translate v) n = (place oh m parent n).map (Placed.translate v)
  | .mk rel size port kids => by
    simp only [place]
    have hb : ({ pos := (parent.translate v).pos + rel, size := size, port := port } : Box)
        = ({ pos := parent.pos + rel, size := size, port := port } : Box).translate v := by
      simp only [Box.translate, Box.mk.injEq, and_true]
      exact V2.add_right_comm' _ _ _
    rw [hb, snapToParent_translate]
    cases snapToParent oh m parent { pos := parent.pos + rel, size := size, port := port } with
    | error e => rfl
    | ok box =>
      simp only [Except.map_ok'']
      rw [placeList_translate oh m v box kids]
      cases placeList oh m box kids with
      | error e => rfl
      | ok ks => rfl
theorem placeList_translate (oh m : Rat) (v : V2) (parent : Box) :
    ∀ ns : List Node, placeList oh m (parent.translate v) ns = (placeList oh m parent ns).map (Placed.translateList v)
  | [] => rfl
  | n :: ns => by
    simp only [placeList]
    rw [place_translate oh m v parent n, placeList_translate oh m v parent ns]
    cases place oh m parent n with
    | error e => rfl
    | ok p =>
      cases placeList oh m parent ns with
      | error e => rfl
      | ok ps => rfl
end

/-- moving a top-level node (changing only its stored position) translates that node and everything inside it -/
theorem placeTop_move (oh m : Rat) (v : V2) :
    ∀ n : Node, placeTop oh m (n.moveTop v) = (placeTop oh m n).map (Placed.translate v)
  | .mk rel size port kids => by
    simp only [placeTop, Node.moveTop]
    have hb : ({ pos := rel + v, size := size, port := port } : Box) = ({ pos := rel, size := size, port := port } : Box).translate v := rfl
    rw [hb, placeList_translate]
    cases placeList oh m { pos := rel, size := size, port := port } kids with
    | error e => rfl
    | ok ks => rfl

/-! ### the nesting invariant -/

mutual
theorem place_nested (oh m : Rat) (h0 : 0 ≤ oh) (parent : Box) :
    ∀ (n : Node) (p : Placed), place oh m parent n = .ok p → Nested oh m parent p
  | .mk rel size port kids, p, h => by
    simp only [place] at h
    cases hs : snapToParent oh m parent { pos := parent.pos + rel, size := size, port := port } with
    | error e => rw [hs] at h; simp at h
    | ok box =>
      rw [hs] at h
      simp only at h
      cases hk : placeList oh m box kids with
      | error e => rw [hk] at h; simp at h
      | ok ks =>
        rw [hk] at h
        simp only [Except.ok.injEq] at h
        subst h
        obtain ⟨hport, hin, hatt⟩ := snapToParent_spec oh m h0 parent _ box hs
        simp only at hport hin hatt
        exact ⟨fun hb => hin (by rw [← hport]; exact hb), fun hb => hatt (by rw [← hport]; exact hb),
          placeList_nested oh m h0 box kids ks hk⟩
theorem placeList_nested (oh m : Rat) (h0 : 0 ≤ oh) (parent : Box) :
    ∀ (ns : List Node) (ps : List Placed), placeList oh m parent ns = .ok ps → NestedList oh m parent ps
  | [], ps, h => by
    simp only [placeList, Except.ok.injEq] at h
    subst h
    trivial
  | n :: ns, ps, h => by
    simp only [placeList] at h
    cases hp : place oh m parent n with
    | error e => rw [hp] at h; simp at h
    | ok p =>
      rw [hp] at h
      simp only at h
      cases hl : placeList oh m parent ns with
      | error e => rw [hl] at h; simp at h
      | ok ps' =>
        rw [hl] at h
        simp only [Except.ok.injEq] at h
        subst h
        exact ⟨place_nested oh m h0 parent n p hp, placeList_nested oh m h0 parent ns ps' hl⟩
end

theorem insideMargin_trans (m : Rat) (hm : 0 ≤ m) (outer parent box : Box) (h1 : insideMargin 0 outer parent)
    (h2 : insideMargin m parent box) : insideMargin 0 outer box := by
  obtain ⟨a1, a2, a3, a4⟩ := h1
  obtain ⟨b1, b2, b3, b4⟩ := h2
  exact ⟨by linarith, by linarith, by linarith, by linarith⟩

mutual
/-- nesting is transitive: what sits correctly in its parent lies inside everything the parent lies inside -/
theorem nested_allInside (oh m : Rat) (hm : 0 ≤ m) (outer parent : Box) (hpar : insideMargin 0 outer parent) :
    ∀ p : Placed, Nested oh m parent p → AllInside outer p
  | .mk box kids, h => by
    simp only [Nested] at h
    simp only [AllInside]
    by_cases hp : box.port = true
    · exact Or.inl hp
    · have hb : insideMargin 0 outer box := insideMargin_trans m hm outer parent box hpar (h.1 (by simpa using hp))
      exact Or.inr ⟨hb, nestedList_allInside oh m hm outer box hb kids h.2.2⟩
theorem nestedList_allInside (oh m : Rat) (hm : 0 ≤ m) (outer parent : Box) (hpar : insideMargin 0 outer parent) :
    ∀ ps : List Placed, NestedList oh m parent ps → AllInsideList outer ps
  | [], _ => trivial
  | p :: ps, h => by
    simp only [NestedList] at h
    exact ⟨nested_allInside oh m hm outer parent hpar p h.1, nestedList_allInside oh m hm outer parent hpar ps h.2⟩
end

theorem insideMargin_self (b : Box) : insideMargin 0 b b :=
  ⟨by simp, by simp, by simp, by simp⟩

end Capella.Geom
