import Capella.Lemmas.AccessorProps

/-! Round 5: the enlarged accessor model – POD assignments of every kind never touch an index; the virtual ReqIF
relations refuse every edit; `TypecastAccessor` delegates. -/
namespace Capella.Accessor
open Capella.Index Capella.AccTable

/-- `IxKeep m`: whatever `m` returns or raises, no index dictionary changes and no index instruction is issued -/
structure IxKeep {α} (m : M α) : Prop where
  keep : ∀ s, (m s).st.ix = s.ix ∧ (m s).st.log = s.log

theorem ixkeep_pure {α} (a : α) : IxKeep (pure a : M α) := ⟨fun _ => ⟨rfl, rfl⟩⟩
theorem ixkeep_raise {α} (e : Err) : IxKeep (raise e : M α) := ⟨fun _ => ⟨rfl, rfl⟩⟩
theorem ixkeep_getS : IxKeep getS := ⟨fun _ => ⟨rfl, rfl⟩⟩
theorem ixkeep_modS (f : State → State) (hf : ∀ s, (f s).ix = s.ix ∧ (f s).log = s.log) : IxKeep (modS f) := ⟨fun s => hf s⟩

theorem ixkeep_bind {α β} (m : M α) (f : α → M β) (hm : IxKeep m) (hf : ∀ a, IxKeep (f a)) : IxKeep (m >>= f) := by
  constructor
  intro s
  have h1 := hm.keep s
  show (match m s with | ⟨.ok a, s'⟩ => f a s' | ⟨.error e, s'⟩ => ⟨.error e, s'⟩).st.ix = _ ∧
       (match m s with | ⟨.ok a, s'⟩ => f a s' | ⟨.error e, s'⟩ => ⟨.error e, s'⟩).st.log = _
  rcases hms : m s with ⟨v, s'⟩
  rw [hms] at h1
  cases v with
  | ok a => have h2 := (hf a).keep s'; exact ⟨h2.1.trans h1.1, h2.2.trans h1.2⟩
  | error e => exact h1

theorem ixkeep_forM_ {α} (l : List α) (f : α → M Unit) (hf : ∀ a, IxKeep (f a)) : IxKeep (forM_ l f) := by
  induction l with
  | nil => exact ixkeep_pure ()
  | cons a as ih => exact ixkeep_bind _ _ (hf a) (fun _ => ih)

syntax "ixkeep_lemma" : tactic
syntax "ixkeep_step" : tactic
syntax "ixkeep_auto" : tactic
macro_rules
  | `(tactic| ixkeep_auto) => `(tactic| repeat' ixkeep_step)
macro_rules
  | `(tactic| ixkeep_step) => `(tactic| (first
      | intro _
      | exact ixkeep_pure _
      | exact ixkeep_raise _
      | exact ixkeep_getS
      | (with_reducible apply ixkeep_modS; intro _; exact ⟨rfl, rfl⟩)
      | ixkeep_lemma
      | with_reducible apply ixkeep_bind
      | with_reducible apply ixkeep_forM_
      | assumption
      | split
      | (dsimp only)))
macro_rules | `(tactic| ixkeep_lemma) => `(tactic| fail "no lemma")

theorem ixkeep_hit (b) : IxKeep (hit b) := by unfold hit; ixkeep_auto
macro_rules | `(tactic| ixkeep_lemma) => `(tactic| with_reducible apply ixkeep_hit)
theorem ixkeep_touch (ns) : IxKeep (touch ns) := by unfold touch; ixkeep_auto
macro_rules | `(tactic| ixkeep_lemma) => `(tactic| with_reducible apply ixkeep_touch)
theorem ixkeep_getRow (n) : IxKeep (getRow n) := by unfold getRow; ixkeep_auto
macro_rules | `(tactic| ixkeep_lemma) => `(tactic| with_reducible apply ixkeep_getRow)
theorem ixkeep_ensureKnown (ns) : IxKeep (ensureKnown ns) := by unfold ensureKnown; ixkeep_auto
macro_rules | `(tactic| ixkeep_lemma) => `(tactic| with_reducible apply ixkeep_ensureKnown)
theorem ixkeep_attrOf (n k) : IxKeep (attrOf n k) := by unfold attrOf; ixkeep_auto
macro_rules | `(tactic| ixkeep_lemma) => `(tactic| with_reducible apply ixkeep_attrOf)
theorem ixkeep_setRows (fi rows) : IxKeep (setRows fi rows) := by unfold setRows; ixkeep_auto
macro_rules | `(tactic| ixkeep_lemma) => `(tactic| with_reducible apply ixkeep_setRows)
theorem ixkeep_fragOf (fi) : IxKeep (fragOf fi) := by unfold fragOf; ixkeep_auto
macro_rules | `(tactic| ixkeep_lemma) => `(tactic| with_reducible apply ixkeep_fragOf)
theorem ixkeep_updRow (n g) : IxKeep (updRow n g) := by unfold updRow; ixkeep_auto
macro_rules | `(tactic| ixkeep_lemma) => `(tactic| with_reducible apply ixkeep_updRow)
theorem ixkeep_setAttr (n k v) : IxKeep (setAttr n k v) := by unfold setAttr; ixkeep_auto
macro_rules | `(tactic| ixkeep_lemma) => `(tactic| with_reducible apply ixkeep_setAttr)
theorem ixkeep_popAttr (n k) : IxKeep (popAttr n k) := by unfold popAttr; ixkeep_auto
macro_rules | `(tactic| ixkeep_lemma) => `(tactic| with_reducible apply ixkeep_popAttr)
theorem ixkeep_setStringPod (n a w v) : IxKeep (setStringPod n a w v) := by unfold setStringPod; ixkeep_auto
macro_rules | `(tactic| ixkeep_lemma) => `(tactic| with_reducible apply ixkeep_setStringPod)
theorem ixkeep_setPod (P n d v) : IxKeep (setPod P n d v) := by unfold setPod; ixkeep_auto
macro_rules | `(tactic| ixkeep_lemma) => `(tactic| with_reducible apply ixkeep_setPod)

/-- an attribute assignment through the API (`obj.name = …`, `obj.description = …`, a Bool/Int/Enum attribute), of
whatever POD kind, with whatever value, returning or raising -/
theorem ixkeep_apiStep_pod (t : Tables) (o : Nat) (d rp v) : IxKeep (apiStep t (.podSetK o d rp v)) := by
  unfold apiStep; ixkeep_auto
theorem ixkeep_apiStep_stringpod (t : Tables) (o : Nat) (a w v) : IxKeep (apiStep t (.podSet o a w v)) := by
  unfold apiStep; ixkeep_auto

theorem bind_ok {α β} (m : M α) (f : α → M β) (s : State) (a : α) (h : (m s).val = .ok a) :
    (m >>= f) s = f a (m s).st := by
  show (match m s with | ⟨.ok a, s'⟩ => f a s' | ⟨.error e, s'⟩ => ⟨.error e, s'⟩) = _
  rcases hms : m s with ⟨v, s'⟩
  rw [hms] at h
  simp only at h
  subst h
  rfl

/-- the virtual ReqIF relations (`ModelElement.requirements`, `Requirement.related`: `ElementRelationAccessor`) refuse
every edit – insertion and deletion with NotImplementedError, assignment and `del` with TypeError – and change nothing -/
theorem elementRelation_refuses (t : Tables) (row : ARow) (o : Nat) (es : List Nat) (i : Int) (v : Val) (x : Nat)
    (vs : List Val) (s : State) (hk : row.kind = .elementRelationAccessor) :
    ((accInsert t row o es i v s).val = .error .notImplemented ∧ Same s (accInsert t row o es i v s).st) ∧
    ((accDelete t row o es x s).val = .error .notImplemented ∧ Same s (accDelete t row o es x s).st) ∧
    ((accSet t row o vs s).val = .error .typeError ∧ Same s (accSet t row o vs s).st) ∧
    ((accDel t row o s).val = .error .typeError ∧ Same s (accDel t row o s).st) := by
  unfold accInsert accInsertBase accDelete accDeleteBase accSet accSetBase accDel accDelBase
  simp only [hk]
  exact ⟨⟨rfl, ⟨rfl, rfl, rfl, rfl⟩⟩, ⟨rfl, ⟨rfl, rfl, rfl, rfl⟩⟩, ⟨rfl, ⟨rfl, rfl, rfl, rfl⟩⟩, ⟨rfl, ⟨rfl, rfl, rfl, rfl⟩⟩⟩

/-- `TypecastAccessor.insert` of an object that is not an instance of the class the relation casts to: TypeError, and
nothing changes (the relation it delegates to is not even looked up) -/
theorem typecast_insert_wrong_class (t : Tables) (row : ARow) (o : Nat) (es : List Nat) (i : Int) (v : Nat) (cls : String)
    (s : State) (hk : row.kind = .typecastAccessor) (hc : row.elemClass = some cls)
    (hi : (isInstanceOf t v cls s).val = .ok false) :
    (accInsert t row o es i (.elem v) s).val = .error .typeError ∧ Same s (accInsert t row o es i (.elem v) s).st := by
  have hf := (frame_isInstanceOf t v cls).fr s
  unfold accInsert
  simp only [hk, hc]
  rw [bind_ok (pure cls) _ s cls rfl]
  have hs : ((pure cls : M String) s).st = s := rfl
  rw [hs, bind_ok (isInstanceOf t v cls) _ s false hi]
  exact ⟨rfl, hf⟩

/-- `RequirementsRelationAccessor.delete` of an object that is not among the relations of the list's owner: ValueError
("Target object not in this list"), and nothing changes -/
theorem reqRel_delete_not_member (t : Tables) (row : ARow) (o : Nat) (es : List Nat) (x : Nat) (rels : List Nat) (s : State)
    (hk : row.kind = .requirementsRelationAccessor) (hr : (findRelations o s).val = .ok rels) (hx : rels.contains x = false) :
    (accDelete t row o es x s).val = .error .valueError ∧ Same s (accDelete t row o es x s).st := by
  have hf := (frame_findRelations o).fr s
  unfold accDelete accDeleteBase
  simp only [hk]
  rw [bind_ok (findRelations o) _ s rels hr]
  simp only [hx]
  exact ⟨rfl, hf⟩

/-- `TypecastAccessor.delete` IS the `delete` of the relation it casts (`getattr(self.class_, self.attr)`), on the same
list and object; when the class it casts to has no such relation the call raises AttributeError and changes nothing -/
theorem typecast_delete_delegates (t : Tables) (row : ARow) (o : Nat) (es : List Nat) (x : Nat) (s : State)
    (hk : row.kind = .typecastAccessor) :
    (∀ inner, (typecastTarget t row s).val = .ok inner →
      accDelete t row o es x s = accDeleteBase t inner o es x { (typecastTarget t row s).st with hits := "typecast.delete" :: (typecastTarget t row s).st.hits }) ∧
    (∀ e, (typecastTarget t row s).val = .error e →
      (accDelete t row o es x s).val = .error e ∧ Same s (accDelete t row o es x s).st) := by
  constructor
  · intro inner h
    unfold accDelete
    simp only [hk]
    rw [bind_ok (typecastTarget t row) _ s inner h]
    rfl
  · intro e h
    unfold accDelete
    simp only [hk]
    obtain ⟨h1, h2⟩ := bind_error (typecastTarget t row) _ s e h
    exact ⟨h1, by rw [h2]; exact (frame_typecastTarget t row).fr s⟩

end Capella.Accessor
