import Capella.Model.Delete
namespace Capella.Delete

theorem runExit_sub (sub : List Nat) (refs : List Ref) (e : Exit) :
    ∀ q ∈ runExit sub refs e, q ∈ refs := by
  intro q hq
  cases e <;> simp only [runExit, List.mem_filter] at hq <;> exact hq.1

theorem foldl_runExit_sub (sub : List Nat) (es : List Exit) (refs : List Ref) :
    ∀ q ∈ es.foldl (runExit sub) refs, q ∈ refs := by
  induction es generalizing refs with
  | nil => intro q hq; exact hq
  | cons e es ih =>
    intro q hq
    exact runExit_sub sub refs e q (ih _ q hq)

/-- a reference killed by one exit stays dead through the remaining exits -/
theorem foldl_runExit_dead (sub : List Nat) (es : List Exit) (refs : List Ref) (q : Ref)
    (h : q ∉ refs) : q ∉ es.foldl (runExit sub) refs :=
  fun hq => h (foldl_runExit_sub sub es refs q hq)

theorem foldl_runExit_kills (sub : List Nat) (es : List Exit) (refs : List Ref) (q : Ref) (e : Exit)
    (he : e ∈ es) (hk : ∀ refs', q ∉ runExit sub refs' e) : q ∉ es.foldl (runExit sub) refs := by
  induction es generalizing refs with
  | nil => simp at he
  | cons a as ih =>
    simp only [List.foldl_cons]
    rcases List.mem_cons.mp he with rfl | he'
    · exact foldl_runExit_dead sub as _ q (hk refs)
    · exact ih _ he'

theorem enterAll_ok_no_refusing (g : G) (rs : List Ref) (es : List Exit)
    (h : enterAll g rs = .ok es) : ∀ r ∈ rs, r.kind ≠ .refusing := by
  induction rs generalizing es with
  | nil => intro r hr; simp at hr
  | cons a as ih =>
    simp only [enterAll, bind, Except.bind, pure, Except.pure] at h
    split at h
    · cases h
    · rename_i e he
      split at h
      · cases h
      · rename_i es' hes
        intro r hr
        rcases List.mem_cons.mp hr with rfl | hr'
        · intro hk
          simp [enter, hk] at he
        · exact ih es' hes r hr'

/-- every reported reference of a purgeable kind gets an exit that removes it -/
theorem enterAll_covers (g : G) (rs : List Ref) (es : List Exit) (h : enterAll g rs = .ok es)
    (r : Ref) (hr : r ∈ rs) (hg : r ∈ g.refs) :
    (r.kind = .attrList → Exit.rewriteList r.owner r.slot ∈ es) ∧
    (r.kind = .attrSingle → Exit.dropAttr r.owner r.slot ∈ es) ∧
    (r.kind = .linkElem → ∃ cs, Exit.dropLinkElems cs ∈ es ∧ r.carrier ∈ cs) := by
  induction rs generalizing es with
  | nil => simp at hr
  | cons a as ih =>
    simp only [enterAll, bind, Except.bind, pure, Except.pure] at h
    split at h
    · cases h
    · rename_i e he
      split at h
      · cases h
      · rename_i es' hes
        simp only [Except.ok.injEq] at h
        rcases List.mem_cons.mp hr with rfl | hr'
        · refine ⟨?_, ?_, ?_⟩
          · intro hk
            simp only [enter, hk, Except.ok.injEq] at he
            subst he; subst h; simp
          · intro hk
            simp only [enter, hk, Except.ok.injEq] at he
            subst he; subst h; simp
          · intro hk
            simp only [enter, hk, Except.ok.injEq] at he
            subst he; subst h
            refine ⟨_, List.mem_cons_self, ?_⟩
            simp only [List.mem_map, List.mem_filter, decide_eq_true_eq]
            exact ⟨r, ⟨hg, rfl, rfl, hk, rfl⟩, rfl⟩
        · obtain ⟨h1, h2, h3⟩ := ih es' hes hr'
          have hsub : ∀ x ∈ es', x ∈ es := by
            intro x hx
            subst h
            cases e with
            | none => exact hx
            | some y => exact List.mem_cons_of_mem _ hx
          refine ⟨fun hk => hsub _ (h1 hk), fun hk => hsub _ (h2 hk), ?_⟩
          intro hk
          obtain ⟨cs, hc1, hc2⟩ := h3 hk
          exact ⟨cs, hsub _ hc1, hc2⟩

theorem delete_spec (g g' : G) (sub : List Nat) (h : delete g sub = .ok g') :
    -- (1) no refusing reference pointed into the subtree
    (∀ r ∈ g.refs, r.target ∈ sub → r.kind ≠ .refusing) ∧
    -- (2) every remaining reference was there before (nothing is added or altered) …
    (∀ q ∈ g'.refs, q ∈ g.refs ∧ q.owner ∉ sub) ∧
    -- (3) … and no remaining reference of a purgeable kind points at a deleted element
    (∀ q ∈ g'.refs, q.target ∈ sub → q.kind = .readOnly ∨ q.kind = .unexposed) ∧
    -- (4) the deleted elements are gone and everything that is gone was deleted or a purged link element
    (∀ n ∈ g'.elems, n ∈ g.elems ∧ n ∉ sub) := by
  unfold delete at h
  simp only [bind, Except.bind, pure, Except.pure] at h
  split at h
  · cases h
  · rename_i exits hex
    simp only [Except.ok.injEq] at h
    subst h
    refine ⟨?_, ?_, ?_, ?_⟩
    · intro r hr ht
      exact enterAll_ok_no_refusing g _ exits hex r (by simp [reported, hr, ht])
    · intro q hq
      have := foldl_runExit_sub sub exits.reverse _ q hq
      simp only [List.mem_filter, decide_eq_true_eq] at this
      exact ⟨this.1, this.2.1⟩
    · intro q hq ht
      have hq1 := foldl_runExit_sub sub exits.reverse _ q hq
      simp only [List.mem_filter, decide_eq_true_eq] at hq1
      have hrep : q ∈ reported g sub := by simp [reported, hq1.1, ht]
      obtain ⟨c1, c2, c3⟩ := enterAll_covers g _ exits hex q hrep hq1.1
      have hnr := enterAll_ok_no_refusing g _ exits hex q hrep
      cases hk : q.kind with
      | readOnly => exact Or.inl rfl
      | unexposed => exact Or.inr rfl
      | refusing => exact absurd hk hnr
      | attrList =>
        exfalso
        refine foldl_runExit_kills sub exits.reverse _ q _ (List.mem_reverse.mpr (c1 hk)) ?_ hq
        intro refs' hm
        simp [runExit, ht] at hm
      | attrSingle =>
        exfalso
        refine foldl_runExit_kills sub exits.reverse _ q _ (List.mem_reverse.mpr (c2 hk)) ?_ hq
        intro refs' hm
        simp [runExit] at hm
      | linkElem =>
        exfalso
        obtain ⟨cs, hcs, hc⟩ := c3 hk
        refine foldl_runExit_kills sub exits.reverse _ q _ (List.mem_reverse.mpr hcs) ?_ hq
        intro refs' hm
        simp [runExit, hc] at hm
    · intro n hn
      simp only [List.mem_filter, List.mem_append, not_or, decide_eq_true_eq] at hn
      exact ⟨hn.1, hn.2.1⟩

/-- a refusing reference into the subtree makes the deletion fail (before anything is written:
`delete` returns no new graph at all) -/
theorem delete_refused (g : G) (sub : List Nat) (r : Ref) (hr : r ∈ g.refs) (ht : r.target ∈ sub)
    (hk : r.kind = .refusing) : delete g sub = .error .notImplemented := by
  have hrep : r ∈ reported g sub := by simp [reported, hr, ht]
  have : ∀ rs, r ∈ rs → enterAll g rs = .error .notImplemented := by
    intro rs
    induction rs with
    | nil => intro h; simp at h
    | cons a as ih =>
      intro h
      simp only [enterAll, bind, Except.bind]
      rcases List.mem_cons.mp h with rfl | h'
      · simp [enter, hk]
      · cases he : enter g a with
        | error e =>
          cases hka : a.kind <;> simp [enter, hka] at he
          subst he; rfl
        | ok v => simp [ih h']
  simp [delete, bind, Except.bind, this _ hrep]

end Capella.Delete

namespace Capella.Delete

theorem mem_purgedCarriers (es : List Exit) (cs : List Nat) (c : Nat)
    (h : Exit.dropLinkElems cs ∈ es) (hc : c ∈ cs) : c ∈ purgedCarriers es := by
  induction es with
  | nil => simp at h
  | cons e es ih =>
    rcases List.mem_cons.mp h with rfl | h'
    · simp [purgedCarriers, hc]
    · cases e <;> simp [purgedCarriers, ih h']

/-- a link element IS the reference: every link element that pointed into the deleted set is itself
removed from the model (not merely stripped of its target attribute) -/
theorem delete_removes_link_elements' (g g' : G) (sub : List Nat) (h : delete g sub = .ok g')
    (r : Ref) (hr : r ∈ g.refs) (ht : r.target ∈ sub) (hk : r.kind = .linkElem) :
    r.carrier ∉ g'.elems := by
  unfold delete at h
  simp only [bind, Except.bind, pure, Except.pure] at h
  split at h
  · cases h
  · rename_i exits hex
    simp only [Except.ok.injEq] at h
    subst h
    have hrep : r ∈ reported g sub := by simp [reported, hr, ht]
    obtain ⟨_, _, c3⟩ := enterAll_covers g _ exits hex r hrep hr
    obtain ⟨cs, hcs, hc⟩ := c3 hk
    intro hm
    simp only [List.mem_filter, List.mem_append, not_or, decide_eq_true_eq] at hm
    exact hm.2.2 (mem_purgedCarriers exits cs r.carrier hcs hc)

end Capella.Delete
