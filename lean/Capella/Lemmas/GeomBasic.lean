/-
Basic facts about the geometry kernel model (`Capella.Model.Geom`): extensionality, box corner
coordinates, explicit forms of `line_intersect` against axis-parallel lines.
-/
import Capella.Model.Geom
import Mathlib.Tactic.Linarith
import Mathlib.Tactic.FieldSimp
import Mathlib.Tactic.Ring
import Mathlib.Tactic.Positivity

namespace Capella.Geom


theorem V2.ext' {a b : V2} (hx : a.x = b.x) (hy : a.y = b.y) : a = b := by
  cases a; cases b; simp_all

@[simp] theorem Box.tl_x (b : Box) : b.tl.x = b.pos.x := rfl
@[simp] theorem Box.tl_y (b : Box) : b.tl.y = b.pos.y := rfl
@[simp] theorem Box.tr_x (b : Box) : b.tr.x = b.pos.x + b.size.x := by simp [Box.tr, V2.had]
@[simp] theorem Box.tr_y (b : Box) : b.tr.y = b.pos.y := by simp [Box.tr, V2.had]
@[simp] theorem Box.bl_x (b : Box) : b.bl.x = b.pos.x := by simp [Box.bl, V2.had]
@[simp] theorem Box.bl_y (b : Box) : b.bl.y = b.pos.y + b.size.y := by simp [Box.bl, V2.had]
@[simp] theorem Box.br_x (b : Box) : b.br.x = b.pos.x + b.size.x := by simp [Box.br]
@[simp] theorem Box.br_y (b : Box) : b.br.y = b.pos.y + b.size.y := by simp [Box.br]
@[simp] theorem Box.center_x (b : Box) : b.center.x = b.pos.x + b.size.x / 2 := by simp [Box.center, V2.sdiv]
@[simp] theorem Box.center_y (b : Box) : b.center.y = b.pos.y + b.size.y / 2 := by simp [Box.center, V2.sdiv]

/-- `line_intersect` does not depend on the order of the two lines -/
theorem lineIntersect_swap (p1 p2 p3 p4 : V2) :
    lineIntersect p3 p4 p1 p2 = lineIntersect p1 p2 p3 p4 := by
  unfold lineIntersect
  simp only
  have hd : (p3.x - p4.x) * (p1.y - p2.y) - (p1.x - p2.x) * (p3.y - p4.y)
      = -((p1.x - p2.x) * (p3.y - p4.y) - (p3.x - p4.x) * (p1.y - p2.y)) := by ring
  by_cases h : (p1.x - p2.x) * (p3.y - p4.y) - (p3.x - p4.x) * (p1.y - p2.y) = 0
  · have h' : (p3.x - p4.x) * (p1.y - p2.y) - (p1.x - p2.x) * (p3.y - p4.y) = 0 := by rw [hd, h]; simp
    simp [h, h']
  · have h' : (p3.x - p4.x) * (p1.y - p2.y) - (p1.x - p2.x) * (p3.y - p4.y) ≠ 0 := by
      rw [hd]; exact neg_ne_zero.mpr h
    simp only [if_neg h, if_neg h']
    rw [hd]
    congr 1
    apply V2.ext'
    · simp only; rw [div_neg, ← neg_div]; congr 1; ring
    · simp only; rw [div_neg, ← neg_div]; congr 1; ring

/-- line through `a`, `s` (not vertical) against a vertical line -/
theorem lineIntersect_vline (a s p3 p4 : V2) (hx : p3.x = p4.x) (hy : p3.y ≠ p4.y) (hd : s.x ≠ a.x) :
    lineIntersect a s p3 p4 = .ok ⟨p3.x, a.y + (p3.x - a.x) * (s.y - a.y) / (s.x - a.x)⟩ := by
  have h1 : s.x - a.x ≠ 0 := sub_ne_zero.mpr hd
  have h2 : p3.y - p4.y ≠ 0 := sub_ne_zero.mpr hy
  have hden : (a.x - s.x) * (p3.y - p4.y) - (p3.x - p4.x) * (a.y - s.y) ≠ 0 := by
    have : (a.x - s.x) * (p3.y - p4.y) - (p3.x - p4.x) * (a.y - s.y) = -((s.x - a.x) * (p3.y - p4.y)) := by
      rw [hx]; ring
    rw [this]; exact neg_ne_zero.mpr (mul_ne_zero h1 h2)
  unfold lineIntersect
  simp only [if_neg hden]
  congr 1
  apply V2.ext'
  · simp only; rw [hx] at *; field_simp; ring
  · simp only; rw [hx] at *; field_simp; ring

/-- line through `a`, `s` (not horizontal) against a horizontal line -/
theorem lineIntersect_hline (a s p3 p4 : V2) (hy : p3.y = p4.y) (hx : p3.x ≠ p4.x) (hd : s.y ≠ a.y) :
    lineIntersect a s p3 p4 = .ok ⟨a.x + (p3.y - a.y) * (s.x - a.x) / (s.y - a.y), p3.y⟩ := by
  have h1 : s.y - a.y ≠ 0 := sub_ne_zero.mpr hd
  have h2 : p3.x - p4.x ≠ 0 := sub_ne_zero.mpr hx
  have hden : (a.x - s.x) * (p3.y - p4.y) - (p3.x - p4.x) * (a.y - s.y) ≠ 0 := by
    have : (a.x - s.x) * (p3.y - p4.y) - (p3.x - p4.x) * (a.y - s.y) = (p3.x - p4.x) * (s.y - a.y) := by
      rw [hy]; ring
    rw [this]; exact mul_ne_zero h2 h1
  unfold lineIntersect
  simp only [if_neg hden]
  congr 1
  apply V2.ext'
  · simp only; rw [hy] at *; field_simp; ring
  · simp only; rw [hy] at *; field_simp; ring

theorem ratio_bounds (n d k : Rat) (hd : d ≠ 0) (hk : 0 ≤ k) (h : n * n ≤ (k * d) * (k * d)) :
    -k ≤ n / d ∧ n / d ≤ k := by
  have habs : |n| ≤ k * |d| := by
    have h2 : n ^ 2 ≤ (k * |d|) ^ 2 := by
      have : (k * |d|) ^ 2 = (k * d) * (k * d) := by
        rw [mul_pow, sq_abs]; ring
      rw [this]; nlinarith
    exact abs_le_of_sq_le_sq h2 (mul_nonneg hk (abs_nonneg d))
  have hpos : 0 < |d| := abs_pos.mpr hd
  have : |n / d| ≤ k := by
    rw [abs_div, div_le_iff₀ hpos]; exact habs
  exact abs_le.mp this

theorem onOutline_left_mid (b : Box) (hw : 0 < b.size.x) (hh : 0 < b.size.y) :
    onOutline b (b.pos + b.size.had ⟨0, 1/2⟩) := by
  simp only [onOutline, inBox, V2.had, V2.add_x, V2.add_y]
  refine ⟨⟨?_, ?_, ?_, ?_⟩, Or.inl ?_⟩ <;> linarith


end Capella.Geom
