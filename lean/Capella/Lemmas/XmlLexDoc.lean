import Capella.Lemmas.XmlLexTree
/-! Characters → tokens for whole documents (comments around the root, final line break). -/
namespace Capella.Xml

/-- `s` lexes to `ts`, leaving the characters `s'` (white space) not yet part of a token -/
def LexesTo (s : Str) (ts : List Tok) (s' : Str) : Prop :=
  ∀ (X : Str) (f : Nat), lexAll (f + ts.length) (s ++ X) = (lexAll f (s' ++ X)).map (ts ++ ·)

theorem Lexes.to {s : Str} {ts : List Tok} (h : Lexes s ts) : LexesTo s ts [] := by
  intro X f; simpa using h X f

theorem LexesTo.trans {s1 s1' s2 s2' : Str} {t1 t2 : List Tok} (h1 : LexesTo s1 t1 s1')
    (h2 : LexesTo (s1' ++ s2) t2 s2') : LexesTo (s1 ++ s2) (t1 ++ t2) s2' := by
  intro X f
  rw [List.append_assoc, List.length_append, show f + (t1.length + t2.length) = (f + t2.length) + t1.length by omega,
    h1, ← List.append_assoc, h2]
  cases lexAll f (s2' ++ X) <;> simp

/-! ### comments next to the root -/

def nlOnly (s : Str) : Prop := ∀ c ∈ s, c = '\n'

theorem escape_gt_id {s : Str} (h : '>' ∉ s) : escape isEscGt s = s := by
  induction s with
  | nil => rfl
  | cons c rest ih =>
    have hc : c ≠ '>' := fun hc => h (by simp [hc])
    simp [escape, isEscGt, hc, ih (fun hm => h (List.mem_cons_of_mem _ hm))]

theorem splitNl_no_nl {s : Str} (h : '\n' ∉ s) : splitNl s = [s] := by
  induction s with
  | nil => rfl
  | cons c rest ih =>
    have hc : c ≠ '\n' := fun hc => h (by simp [hc])
    simp [splitNl, hc, ih (fun hm => h (List.mem_cons_of_mem _ hm))]

theorem commentOk_facts {c : Comment} (h : commentOk c = true) :
    c.tail = none ∧ noDoubleDash c.text = true ∧ '>' ∉ c.text ∧ '\n' ∉ c.text ∧ '\r' ∉ c.text := by
  simp only [commentOk, Bool.and_eq_true, List.all_eq_true, bne_iff_ne, ne_eq] at h
  refine ⟨by simpa using h.1.1, h.1.2, ?_, ?_, ?_⟩
  · intro hm; exact (h.2 _ hm).1.1 rfl
  · intro hm; exact (h.2 _ hm).1.2 rfl
  · intro hm; exact (h.2 _ hm).2 rfl

/-- what `_serialize_comment` writes for a well-formed sibling comment -/
theorem serComment_written {c : Comment} (h : commentOk c = true) :
    serComment 0 c = ('\n' :: '<' :: '!' :: '-' :: '-' :: (c.text ++ ['-', '-', '>', '\n']), 0) := by
  obtain ⟨htail, _, hgt, hnl, _⟩ := commentOk_facts h
  have htext : (serText (escape isEscGt) false (some c.text) (2 * 0)).1 = c.text := by
    cases hc : c.text with
    | nil => simp [serText]
    | cons x xs =>
      rw [← hc]
      have : serText (escape isEscGt) false (some c.text) (2 * 0) =
          (joinSep [] ((splitNl c.text).map (escape isEscGt)),
            ((splitNl c.text).getLast?.getD []).length + (if (splitNl c.text).length > 1 then 2 * 0 else 0)) := by
        rw [hc]; rfl
      rw [this, splitNl_no_nl hnl]
      simp [joinSep, escape_gt_id hgt]
  unfold serComment
  simp only [htail, pyNonBlank, Bool.false_eq_true, ↓reduceIte, htext, ind, Nat.mul_zero,
    List.replicate_zero, List.nil_append, Prod.mk.injEq, and_true]
  simp

theorem nlOnly_text {w : Str} (hw : nlOnly w) (_hne : w ≠ []) :
    w.all (· != '<') = true ∧ hasCdataEnd w = false ∧ '\r' ∉ w ∧ unescapeXml w = some w := by
  refine ⟨?_, ?_, ?_, ?_⟩
  · simp only [List.all_eq_true, bne_iff_ne, ne_eq]; intro c hc; rw [hw c hc]; decide
  · apply hasCdataEnd_no_gt; intro hc; exact absurd (hw _ hc) (by decide)
  · intro hc; exact absurd (hw _ hc) (by decide)
  · apply unescGo_no_amp; intro hc; exact absurd (hw _ hc) (by decide)

theorem nlOnly_append {a b : Str} (ha : nlOnly a) (hb : nlOnly b) : nlOnly (a ++ b) := by
  intro c hc
  rcases List.mem_append.mp hc with h | h
  · exact ha c h
  · exact hb c h

theorem nlOnly_nl : nlOnly ['\n'] := by intro c hc; simpa using hc

theorem toksCs_pend_nlOnly (cs : List Comment) (pend : Str) (hp : nlOnly pend) : nlOnly (toksCs pend cs).2 := by
  induction cs generalizing pend with
  | nil => simpa [toksCs] using hp
  | cons c cs ih => simpa [toksCs] using ih ['\n'] nlOnly_nl

/-- a run of sibling comments, with white space pending before and after -/
theorem LexesTo_comments (cs : List Comment) (hok : ∀ c ∈ cs, commentOk c = true) (pend : Str)
    (hp : nlOnly pend) (pos : Nat) :
    LexesTo (pend ++ (serComments cs pos).1) (toksCs pend cs).1 (toksCs pend cs).2 := by
  induction cs generalizing pend pos with
  | nil =>
    intro X f; simp [serComments, toksCs]
  | cons c cs ih =>
    have hc := hok c List.mem_cons_self
    obtain ⟨_, hdd, _, _, hcr⟩ := commentOk_facts hc
    have ih' := ih (fun x hx => hok x (List.mem_cons_of_mem _ hx)) ['\n'] nlOnly_nl 0
    intro X f
    simp only [serComments, serComment_written hc, toksCs, List.length_cons]
    have hw := nlOnly_text (nlOnly_append hp nlOnly_nl) (by simp)
    have e1 : pend ++ ('\n' :: '<' :: '!' :: '-' :: '-' :: (c.text ++ ['-', '-', '>', '\n']) ++ (serComments cs 0).1) ++ X =
        (pend ++ ['\n']) ++ '<' :: ('!' :: '-' :: '-' :: (c.text ++ '-' :: '-' :: '>' :: (['\n'] ++ (serComments cs 0).1 ++ X))) := by
      simp [List.append_assoc]
    rw [e1, show f + ((toksCs ['\n'] cs).1.length + 1 + 1) = ((f + (toksCs ['\n'] cs).1.length) + 1) + 1 by omega,
      lexAll_tok (nextTok_text _ _ (by simp) hw.1 hw.2.1 hw.2.2.1 hw.2.2.2 _),
      lexAll_tok (nextTok_comment c.text _ hdd hcr), ih' X f]
    cases lexAll f ((toksCs ['\n'] cs).2 ++ X) <;> simp

/-! ### the document -/

theorem textTok_lexes (p : Str) (hp : nlOnly p) {s2 : Str} (hs2 : ∃ r, s2 = '<' :: r) :
    LexesTo (p ++ s2) (textTok p) s2 := by
  intro X f
  unfold textTok
  split
  · rename_i h; subst h; simp
  · rename_i h
    obtain ⟨r, rfl⟩ := hs2
    have hw := nlOnly_text hp h
    simp only [List.length_singleton, List.append_assoc, List.cons_append]
    rw [lexAll_tok (nextTok_text p p h hw.1 hw.2.1 hw.2.2.1 hw.2.2.2 (r ++ X))]
    cases lexAll f ('<' :: (r ++ X)) <;> simp

/-- **characters → tokens, documents**: for every line length the written document (after
pending white space `pend`) lexes to `toksDocP pend d` -/
theorem lex_serializeP (pend : Str) (hp : nlOnly pend) (ll : Nat) (d : Doc) (hwf : wfDoc d = true) :
    lex (pend ++ serialize ll true [] true d) = some (toksDocP pend d) := by
  simp only [wfDoc, Bool.and_eq_true, List.all_eq_true] at hwf
  obtain ⟨⟨hroot, hpre⟩, hpost⟩ := hwf
  have htail : d.root.tail = none := by
    cases hr : d.root with
    | mk tag nsd attrs text tail kids => rw [hr] at hroot; exact (wfElem_shape hroot).1
  -- the pieces
  have hA := LexesTo_comments d.pre hpre pend hp 0
  have hB := LexesTo_comments d.post hpost [] (by intro c hc; simp at hc) (serComments d.pre 0).2
  have hE := (Lexes_serElem ll [] NsInv.nil true 0 (serComments d.pre 0).2 d.root hroot).to
  obtain ⟨r, hr⟩ := serElem_head ll [] true 0 (serComments d.pre 0).2 d.root
  have hT := textTok_lexes (toksCs pend d.pre).2 (toksCs_pend_nlOnly d.pre pend hp)
    (s2 := (serElem ll [] true 0 (serComments d.pre 0).2 d.root).1) ⟨r, hr⟩
  simp only [List.nil_append] at hB
  have inner := LexesTo.trans hE (s2 := (serComments d.post (serComments d.pre 0).2).1) (by simpa using hB)
  have mid := LexesTo.trans hT inner
  rw [List.append_assoc] at mid
  have h1 := LexesTo.trans hA mid
  -- the final line break, then end of input
  have hend := nlOnly_text (nlOnly_append (toksCs_pend_nlOnly d.post [] (by intro c hc; simp at hc)) nlOnly_nl) (by simp)
  apply lexAll_adequate ((0 + 1 + 1) + ((toksCs pend d.pre).1 ++ (textTok (toksCs pend d.pre).2 ++
    (toksE [] true 0 d.root ++ (toksCs [] d.post).1))).length)
  have hs : pend ++ serialize ll true [] true d =
      ((pend ++ (serComments d.pre 0).1) ++ ((serElem ll [] true 0 (serComments d.pre 0).2 d.root).1 ++
        (serComments d.post (serComments d.pre 0).2).1)) ++ ['\n'] := by
    simp [serialize, htail, pyNonBlank, List.append_assoc]
  rw [hs, h1 ['\n'] (0 + 1 + 1),
    lexAll_tok (nextTok_text_eof _ _ (by simp) hend.1 hend.2.1 hend.2.2.1 hend.2.2.2), lexAll_eof]
  simp [toksDocP, List.append_assoc]

theorem lex_serialize (ll : Nat) (d : Doc) (hwf : wfDoc d = true) :
    lex (serialize ll true [] true d) = some (toksDoc d) := by
  simpa [toksDoc] using lex_serializeP [] (by intro c hc; simp at hc) ll d hwf

end Capella.Xml
