import Capella.Model.DeclDelete
import Capella.Lemmas.Delete
/-! Lemmas about the declarative deletion loop (`Model/DeclDelete.lean`). -/
namespace Capella.DeclDelete
open Capella.Delete

/-- `target.index(obj)` answers the index at which `obj` itself sits, and erasing that index erases `obj` -/
theorem idxOf?_spec (ms : List Nat) (x i : Nat) (h : ms.idxOf? x = some i) :
    ms[i]? = some x ∧ ms.eraseIdx i = ms.erase x := by
  refine ⟨?_, ?_⟩
  · induction ms generalizing i with
    | nil => simp at h
    | cons m ms ih =>
      rw [List.idxOf?_cons] at h
      by_cases hm : m = x
      · subst hm; simp at h; subst h; simp
      · have : (m == x) = false := by simpa using hm
        simp only [this] at h
        cases hi : ms.idxOf? x with
        | none => simp [hi] at h
        | some j =>
          simp [hi] at h; subst h
          simpa using ih j hi
  · rw [List.erase_eq_eraseIdx, h]

theorem filter_all (ms : List Nat) : ms.filter (fun _ => true) = ms :=
  List.filter_eq_self.mpr (by simp)

theorem filter_erase_step (ms l : List Nat) (x : Nat) (hnd : ms.Nodup) :
    (ms.erase x).filter (fun m => decide (m ∉ l)) = ms.filter (fun m => decide (m ∉ x :: l)) := by
  rw [List.Nodup.erase_eq_filter hnd, List.filter_filter]
  apply List.filter_congr
  intro a _
  by_cases h1 : a = x <;> by_cases h2 : a ∈ l <;> simp [h1, h2]

/-- The loop, completely: it stops after some number `k` of the named objects; the objects deleted are exactly the
first `k` named ones, in the order named; the list in hand has lost exactly those; the state is the one reached by
deleting exactly those; and there is no error iff all were processed. -/
theorem delMembers_spec {σ : Type} (del1 : σ → Nat → Except Err σ) (res : σ → Nat → Bool)
    (s : σ) (ms done named : List Nat) (hnd : ms.Nodup) :
    ∃ k, k ≤ named.length ∧
      (delMembers del1 res s ms done named).deleted = done ++ named.take k ∧
      (delMembers del1 res s ms done named).members = ms.filter (fun m => decide (m ∉ named.take k)) ∧
      applyAll del1 s (named.take k) = some (delMembers del1 res s ms done named).st ∧
      ((delMembers del1 res s ms done named).err = none ↔ k = named.length) := by
  induction named generalizing s ms done with
  | nil => exact ⟨0, by simp [delMembers, applyAll, filter_all]⟩
  | cons x xs ih =>
    have stop : ∀ e : Err, ∃ k, k ≤ (x :: xs).length ∧
        (Res.mk s ms done (some e)).deleted = done ++ (x :: xs).take k ∧
        (Res.mk s ms done (some e)).members = ms.filter (fun m => decide (m ∉ (x :: xs).take k)) ∧
        applyAll del1 s ((x :: xs).take k) = some (Res.mk s ms done (some e)).st ∧
        ((Res.mk s ms done (some e)).err = none ↔ k = (x :: xs).length) := by
      intro e; exact ⟨0, by simp [applyAll, filter_all]⟩
    unfold delMembers
    by_cases hr : res s x = true
    · simp only [hr, Bool.not_true, Bool.false_eq_true, if_false]
      cases hi : ms.idxOf? x with
      | none => exact stop _
      | some i =>
        obtain ⟨hget, herase⟩ := idxOf?_spec ms x i hi
        simp only [hget]
        cases hd : del1 s x with
        | error e => exact stop e
        | ok s' =>
          simp only []
          rw [herase]
          obtain ⟨k, hk, h1, h2, h3, h4⟩ := ih s' (ms.erase x) (done ++ [x]) (List.Nodup.erase x hnd)
          refine ⟨k + 1, by simpa using hk, ?_, ?_, ?_, ?_⟩
          · simpa [List.take_succ_cons] using h1
          · rw [h2, List.take_succ_cons]; exact filter_erase_step ms _ x hnd
          · simp [List.take_succ_cons, applyAll, hd, h3]
          · simpa using h4
    · have : res s x = false := by simpa using hr
      simp only [this, Bool.not_false, if_true]
      exact stop _

theorem checked_ok {roots pl : List Nat} {k : Except Delete.Err G} {g' : G} (h : checked roots pl k = .ok g') :
    k = .ok g' := by
  unfold checked at h
  split at h
  · cases h
  · exact h

theorem liftErr_ok {k : Except Delete.Err G} {g' : G} (h : liftErr k = .ok g') : k = .ok g' := by
  cases k with
  | ok g => simpa [liftErr] using h
  | error e => cases e <;> simp [liftErr] at h

/-- one object deleted on the graph (subtree in one fragment file): `delete_spec` -/
theorem del1_spec (c : Ctx) (hloc : ∀ x, c.loc x = c.sub x) (g g' : G) (x : Nat) (h : del1 c g x = .ok g') :
    (∀ q ∈ g'.refs, q ∈ g.refs ∧ q.owner ∉ c.sub x) ∧
    (∀ q ∈ g'.refs, q.target ∈ c.sub x → q.kind = .readOnly ∨ q.kind = .unexposed) ∧
    (∀ n ∈ g'.elems, n ∈ g.elems ∧ n ∉ c.sub x) := by
  have h' := checked_ok (liftErr_ok h)
  rw [hloc x] at h'
  have := delete_spec g g' (c.sub x) h'
  exact ⟨this.2.1, this.2.2.1, this.2.2.2⟩

/-- a sequence of objects deleted one after the other: every one of them is gone with its subtree, no purgeable
reference to any of them remains, nothing was added -/
theorem applyAll_spec (c : Ctx) (hloc : ∀ x, c.loc x = c.sub x) (l : List Nat) (g g' : G)
    (h : applyAll (del1 c) g l = some g') :
    (∀ q ∈ g'.refs, q ∈ g.refs) ∧ (∀ n ∈ g'.elems, n ∈ g.elems) ∧
    (∀ x ∈ l, ∀ n ∈ c.sub x, n ∉ g'.elems) ∧
    (∀ x ∈ l, ∀ q ∈ g'.refs, q.owner ∉ c.sub x ∧ (q.target ∈ c.sub x → q.kind = .readOnly ∨ q.kind = .unexposed)) := by
  induction l generalizing g with
  | nil =>
    simp only [applyAll, Option.some.injEq] at h; subst h
    exact ⟨fun _ h => h, fun _ h => h, by simp, by simp⟩
  | cons x xs ih =>
    simp only [applyAll] at h
    cases hd : del1 c g x with
    | error e => simp [hd] at h
    | ok g1 =>
      simp only [hd] at h
      obtain ⟨a1, a2, a3⟩ := del1_spec c hloc g g1 x hd
      obtain ⟨b1, b2, b3, b4⟩ := ih g1 h
      refine ⟨fun q hq => (a1 q (b1 q hq)).1, fun n hn => (a3 n (b2 n hn)).1, ?_, ?_⟩
      · intro y hy n hn hm
        rcases List.mem_cons.mp hy with rfl | hy'
        · exact (a3 n (b2 n hm)).2 hn
        · exact b3 y hy' n hn hm
      · intro y hy q hq
        rcases List.mem_cons.mp hy with rfl | hy'
        · exact ⟨(a1 q (b1 q hq)).2, a2 q (b1 q hq)⟩
        · exact b4 y hy' q hq

/-- whatever the purge contexts remove beyond the subtree is a link element that pointed into it -/
theorem purgedCarriers_are_links (g : G) (sub : List Nat) (rs : List Ref) (es : List Exit)
    (h : enterAll g rs = .ok es) (hrs : ∀ r ∈ rs, r.target ∈ sub) :
    ∀ c ∈ purgedCarriers es, ∃ q ∈ g.refs, q.kind = .linkElem ∧ q.target ∈ sub ∧ q.carrier = c := by
  induction rs generalizing es with
  | nil =>
    simp only [enterAll, Except.ok.injEq] at h; subst h
    intro c hc; simp [purgedCarriers] at hc
  | cons a as ih =>
    simp only [enterAll, bind, Except.bind, pure, Except.pure] at h
    split at h
    · cases h
    · rename_i e he
      split at h
      · cases h
      · rename_i es' hes
        simp only [Except.ok.injEq] at h
        have ih' := ih es' hes (fun r hr => hrs r (List.mem_cons_of_mem _ hr))
        have ha := hrs a (List.mem_cons_self ..)
        intro c hc
        cases e with
        | none => subst h; exact ih' c hc
        | some x =>
          subst h
          cases hk : a.kind <;> simp [enter, hk] at he
          · subst he; exact ih' c (by simpa [purgedCarriers] using hc)
          · subst he; exact ih' c (by simpa [purgedCarriers] using hc)
          · subst he
            simp only [purgedCarriers, List.mem_append, List.mem_map, List.mem_filter] at hc
            rcases hc with ⟨q, ⟨hq, hcond⟩, rfl⟩ | hc
            · simp only [Bool.and_eq_true, decide_eq_true_eq] at hcond
              exact ⟨q, hq, hcond.2.2.1, hcond.2.2.2 ▸ ha, rfl⟩
            · exact ih' c hc

/-- **Nothing else is removed** by one deletion: an element outside the subtree that is not a link element pointing
into it is still there. -/
theorem delete_keeps_the_rest (g g' : G) (sub : List Nat) (h : delete g sub = .ok g') (n : Nat)
    (hn : n ∈ g.elems) (hs : n ∉ sub)
    (hl : ∀ q ∈ g.refs, q.kind = .linkElem → q.target ∈ sub → q.carrier ≠ n) : n ∈ g'.elems := by
  unfold delete at h
  simp only [bind, Except.bind, pure, Except.pure] at h
  split at h
  · cases h
  · rename_i exits hex
    simp only [Except.ok.injEq] at h
    subst h
    simp only [List.mem_filter, List.mem_append, not_or, decide_eq_true_eq]
    refine ⟨hn, hs, fun hc => ?_⟩
    obtain ⟨q, hq, hk, ht, hcq⟩ := purgedCarriers_are_links g sub _ exits hex
      (by intro r hr; simp only [reported, List.mem_filter, decide_eq_true_eq] at hr; exact hr.2) n hc
    exact hl q hq hk ht hcq

theorem applyAll_keeps_the_rest (c : Ctx) (hloc : ∀ x, c.loc x = c.sub x) (l : List Nat) (g g' : G)
    (h : applyAll (del1 c) g l = some g') (n : Nat) (hn : n ∈ g.elems) (hs : ∀ x ∈ l, n ∉ c.sub x)
    (hl : ∀ x ∈ l, ∀ q ∈ g.refs, q.kind = .linkElem → q.target ∈ c.sub x → q.carrier ≠ n) : n ∈ g'.elems := by
  induction l generalizing g with
  | nil => simp only [applyAll, Option.some.injEq] at h; subst h; exact hn
  | cons x xs ih =>
    simp only [applyAll] at h
    cases hd : del1 c g x with
    | error e => simp [hd] at h
    | ok g1 =>
      simp only [hd] at h
      have hd' := checked_ok (liftErr_ok hd)
      rw [hloc x] at hd'
      have h1 : n ∈ g1.elems := delete_keeps_the_rest g g1 (c.sub x) hd' n hn (hs x (List.mem_cons_self ..))
        (hl x (List.mem_cons_self ..))
      have hsub := (delete_spec g g1 (c.sub x) hd').2.1
      exact ih g1 h h1 (fun y hy => hs y (List.mem_cons_of_mem _ hy))
        (fun y hy q hq => hl y (List.mem_cons_of_mem _ hy) q (hsub q hq).1)

end Capella.DeclDelete
