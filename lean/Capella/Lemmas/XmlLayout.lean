import Capella.Model.Xml
/-! The running column of `_serialize_element`'s attribute loop: the counter is the real column,
and a line break is taken exactly when that column exceeds the line length (or is forced). -/
namespace Capella.Xml

/-- the column after writing `s`, starting in column `p` -/
def colAfter : Nat → Str → Nat
  | p, [] => p
  | p, c :: s => if c = '\n' then colAfter 0 s else colAfter (p + 1) s

theorem colAfter_append (p : Nat) (a b : Str) : colAfter p (a ++ b) = colAfter (colAfter p a) b := by
  induction a generalizing p with
  | nil => rfl
  | cons c cs ih => simp only [List.cons_append, colAfter]; split <;> exact ih _

theorem colAfter_flat (p : Nat) (s : Str) (h : '\n' ∉ s) : colAfter p s = p + s.length := by
  induction s generalizing p with
  | nil => rfl
  | cons c cs ih =>
    have hc : c ≠ '\n' := fun hc => h (by simp [hc])
    simp only [colAfter, hc, ↓reduceIte, List.length_cons]
    rw [ih _ (fun hm => h (List.mem_cons_of_mem _ hm))]; omega

theorem colAfter_spaces (p n : Nat) : colAfter p (List.replicate n ' ') = p + n := by
  rw [colAfter_flat _ _ (by simp [List.mem_replicate])]; simp

/-- one attribute as written after its separator -/
def attrText (w : Str × Str) : Str := w.1 ++ '=' :: '"' :: (w.2 ++ ['"'])

/-- the separator decision of the loop, as a function of the column -/
def breaksAt (ll pos : Nat) (force : Bool) : Bool := decide (pos > ll) || force

theorem serAttrs_cons (ll ai : Nat) (isRoot : Bool) (w : Str × Str) (rest : List (Str × Str))
    (pos : Nat) (force : Bool) :
    (serAttrs ll ai isRoot (w :: rest) pos force).1 =
      (if breaksAt ll pos force then '\n' :: List.replicate ai ' ' else [' ']) ++ attrText w ++
      (serAttrs ll ai isRoot rest
        ((if breaksAt ll pos force then ai else pos + 1) + w.1.length + w.2.length + 3)
        (isRoot && w.1 == "id".toList)).1 := by
  obtain ⟨a, v⟩ := w
  simp [serAttrs, attrText, breaksAt, List.append_assoc]

theorem colAfter_attr (p : Nat) (a v rest : Str) (ha : '\n' ∉ a) (hv : '\n' ∉ v) :
    colAfter p (a ++ '=' :: '"' :: (v ++ '"' :: rest)) = colAfter (p + a.length + v.length + 3) rest := by
  rw [colAfter_append, colAfter_flat _ a ha]
  simp only [colAfter, show ('=' : Char) ≠ '\n' by decide, show ('"' : Char) ≠ '\n' by decide, ↓reduceIte]
  rw [colAfter_append, colAfter_flat _ v hv]
  simp only [colAfter, show ('"' : Char) ≠ '\n' by decide, ↓reduceIte]
  congr 1; omega

/-- **the counter is the column**: if no name or written value contains a line break, the `pos`
the loop carries (and returns) is the true column of the output -/
theorem serAttrs_pos_exact (ll ai : Nat) (isRoot : Bool) (ws : List (Str × Str))
    (hnl : ∀ w ∈ ws, '\n' ∉ w.1 ∧ '\n' ∉ w.2) (pos : Nat) (force : Bool) :
    (serAttrs ll ai isRoot ws pos force).2 = colAfter pos (serAttrs ll ai isRoot ws pos force).1 := by
  induction ws generalizing pos force with
  | nil => simp [serAttrs, colAfter]
  | cons w rest ih =>
    obtain ⟨a, v⟩ := w
    obtain ⟨ha, hv⟩ := hnl (a, v) List.mem_cons_self
    have ih' := ih (fun x hx => hnl x (List.mem_cons_of_mem _ hx))
    simp only [serAttrs]
    rw [ih']
    generalize (decide (pos > ll) || force) = b
    cases b
    · simp only [Bool.false_eq_true, ↓reduceIte, List.cons_append, List.nil_append, List.append_assoc,
        colAfter, show (' ' : Char) ≠ '\n' by decide]
      rw [colAfter_attr _ a v _ ha hv]
    · simp only [↓reduceIte, List.cons_append, List.append_assoc, colAfter]
      rw [colAfter_append, colAfter_spaces, colAfter_attr _ a v _ ha hv]
      simp

/-- flat layout: every attribute after a single space -/
def flatAttrs : List (Str × Str) → Str
  | [] => []
  | w :: rest => ' ' :: (attrText w ++ flatAttrs rest)

/-- **an unbounded line never breaks**: if the whole tag fits (`pos + length ≤ ll`) and no break
is forced, the attributes are written on one line -/
theorem serAttrs_flat (ll ai : Nat) (ws : List (Str × Str)) (pos : Nat)
    (hfit : pos + (flatAttrs ws).length ≤ ll + 1) :
    (serAttrs ll ai false ws pos false).1 = flatAttrs ws := by
  induction ws generalizing pos with
  | nil => rfl
  | cons w rest ih =>
    obtain ⟨a, v⟩ := w
    simp only [flatAttrs, attrText, List.length_cons, List.length_append, List.length_nil] at hfit
    have hb : (decide (pos > ll) || false) = false := by
      simp only [Bool.or_false, decide_eq_false_iff_not]; omega
    simp only [serAttrs, hb, Bool.false_eq_true, ↓reduceIte, Bool.false_and, flatAttrs, attrText]
    rw [ih _ (by omega)]
    simp [List.append_assoc]

end Capella.Xml
