import Capella.Lemmas.XmlLexDoc
/-! The three layers combined: `parse ∘ serialize = canon` on well-formed documents. -/
namespace Capella.Xml

theorem isBlank_of_nlOnly {p : Str} (h : nlOnly p) : isBlank p = true := by
  simp only [isBlank, List.all_eq_true]
  intro c hc; rw [h c hc]; decide

/-- after skipping the declaration, reading `pend ++ serialize …` gives the canonical document -/
theorem parseBody_serialize (pend : Str) (hp : nlOnly pend) (ll : Nat) (d : Doc) (hwf : wfDoc d = true) :
    parseBody (pend ++ serialize ll true [] true d) = some (canonDoc d) := by
  unfold parseBody
  rw [lex_serializeP pend hp ll d hwf]
  have hb := build_toksDocP pend (isBlank_of_nlOnly hp) d hwf
  simp only
  cases hbs : build BState.init (toksDocP pend d) with
  | none => simp [hbs] at hb
  | some st =>
    simp only [hbs, Option.bind_some] at hb
    simp only [hb, resolve_rawDoc d hwf]
    rfl

theorem serElem_head2 (ll : Nat) (pns : List (Str × Str)) (isRoot : Bool) (indent pos : Nat)
    (tag : Str) (nsd attrs : List (Str × Str)) (text tail : Option Str) (kids : List Elem) :
    ∃ r, (serElem ll pns isRoot indent pos (.mk tag nsd attrs text tail kids)).1 =
      '<' :: (unmap (scope pns nsd) tag ++ r) := by
  unfold serElem
  simp only
  split
  · simp only [List.cons_append, List.append_assoc]
    exact ⟨_, rfl⟩
  · simp only [List.cons_append, List.append_assoc]
    exact ⟨_, rfl⟩

/-- the output of `serialize` does not start with an XML declaration -/
theorem stripDecl_serialize (ll : Nat) (d : Doc) (hwf : wfDoc d = true) :
    stripDecl (serialize ll true [] true d) = some (serialize ll true [] true d) := by
  have hroot : wfElem [] d.root = true := by
    simp only [wfDoc, Bool.and_eq_true] at hwf; exact hwf.1.1
  cases hpre : d.pre with
  | cons c cs =>
    have : ∃ r, serialize ll true [] true d = '\n' :: r := by
      simp only [serialize, hpre, ↓reduceIte, serComments, serComment]
      split <;> exact ⟨_, rfl⟩
    obtain ⟨r, hr⟩ := this
    rw [hr]; rfl
  | nil =>
    cases hr : d.root with
    | mk tag nsd attrs text tail kids =>
      rw [hr] at hroot
      obtain ⟨hns, htag, _, _, _⟩ := wfElem_facts hroot
      obtain ⟨hsc, hinvW⟩ := NsInv.nil.scope hns
      have hname := lexName_unmap hinvW false tag (by rw [← hsc]; exact htag)
      rw [← hsc] at hname
      obtain ⟨c, cs, hc, _⟩ := lexName_head hname.1
      have hq : c ≠ '?' := by
        have := hname.2
        rw [hc] at this
        simp only [nameStartOk, Bool.and_eq_true, bne_iff_ne, ne_eq] at this
        exact this.2
      have : ∃ r, serialize ll true [] true d = '<' :: c :: r := by
        obtain ⟨r, hr2⟩ := serElem_head2 ll [] true 0 0 tag nsd attrs text tail kids
        simp only [serialize, hpre, hr, ↓reduceIte, serComments, List.nil_append, hr2, hc,
          List.cons_append, List.append_assoc]
        exact ⟨_, rfl⟩
      obtain ⟨r, hr'⟩ := this
      rw [hr']
      unfold stripDecl
      split
      · rename_i heq; simp only [List.cons.injEq] at heq; exact absurd heq.2.1 hq
      · rfl

/-- `write_xml` puts the declaration in front; the reader skips it -/
theorem stripDecl_writeXml (k : FragKind) (d : Doc) :
    stripDecl (writeXml k d) =
      some ('\n' :: serialize (if k = .semantic then LINE_LENGTH else MAXSIZE) true [] true d) := rfl

end Capella.Xml
