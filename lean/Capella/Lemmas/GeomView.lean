/-
Bounds, viewport, `snap_to_parent`, `boxsnap`, `Edge.vector_snap`, default routes.
-/
import Capella.Lemmas.GeomSnap
import Capella.Lemmas.GeomTranslate

namespace Capella.Geom

/-! ### rectangles -/

theorem Rect.encloses_refl (r : Rect) : r.encloses r := ⟨le_refl _, le_refl _, le_refl _, le_refl _⟩

theorem Rect.encloses_trans {a b c : Rect} (h1 : a.encloses b) (h2 : b.encloses c) : a.encloses c :=
  ⟨le_trans h1.1 h2.1, le_trans h1.2.1 h2.2.1, le_trans h2.2.2.1 h1.2.2.1, le_trans h2.2.2.2 h1.2.2.2⟩

theorem Rect.union_left (a b : Rect) : (a.union b).encloses a :=
  ⟨min_le_left _ _, min_le_left _ _, le_max_left _ _, le_max_left _ _⟩

theorem Rect.union_right (a b : Rect) : (a.union b).encloses b :=
  ⟨min_le_right _ _, min_le_right _ _, le_max_right _ _, le_max_right _ _⟩

theorem Rect.union_least {a b c : Rect} (ha : c.encloses a) (hb : c.encloses b) : c.encloses (a.union b) :=
  ⟨le_min ha.1 hb.1, le_min ha.2.1 hb.2.1, max_le ha.2.2.1 hb.2.2.1, max_le ha.2.2.2 hb.2.2.2⟩

theorem Rect.ext' {a b : Rect} (h1 : a.minx = b.minx) (h2 : a.miny = b.miny) (h3 : a.maxx = b.maxx)
    (h4 : a.maxy = b.maxy) : a = b := by
  cases a; cases b; simp_all

theorem Rect.union_translate (a b : Rect) (v : V2) :
    (a.translate v).union (b.translate v) = (a.union b).translate v := by
  apply Rect.ext' <;> simp [Rect.union, Rect.translate, min_add_add_right, max_add_add_right]

/-! ### viewport -/

theorem viewport_fold_spec (bs : List Rect) :
    ∀ (acc : Option Rect) (v : Rect),
      bs.foldl (fun acc r => some (extendViewport acc r)) acc = some v →
      (∀ a, acc = some a → v.encloses a) ∧ (∀ r ∈ bs, v.encloses r) ∧
      (∀ c : Rect, (∀ a, acc = some a → c.encloses a) → (∀ r ∈ bs, c.encloses r) → c.encloses v) := by
  induction bs with
  | nil =>
    intro acc v h
    simp only [List.foldl_nil] at h
    subst h
    refine ⟨fun a ha => ?_, fun r hr => absurd hr (List.not_mem_nil), fun c hc _ => hc v rfl⟩
    cases ha; exact Rect.encloses_refl _
  | cons r rest ih =>
    intro acc v h
    simp only [List.foldl_cons] at h
    obtain ⟨h1, h2, h3⟩ := ih _ v h
    have hv := h1 _ rfl
    refine ⟨fun a ha => ?_, fun r' hr' => ?_, fun c hc hrs => ?_⟩
    · subst ha
      exact Rect.encloses_trans hv (Rect.union_left _ _)
    · rcases List.mem_cons.mp hr' with rfl | hmem
      · cases acc with
        | none => exact hv
        | some a => exact Rect.encloses_trans hv (Rect.union_right _ _)
      · exact h2 r' hmem
    · apply h3 c
      · intro a ha
        cases ha
        cases acc with
        | none => exact hrs r (List.mem_cons_self)
        | some a0 => exact Rect.union_least (hc a0 rfl) (hrs r (List.mem_cons_self))
      · intro r' hr'; exact hrs r' (List.mem_cons_of_mem _ hr')

theorem viewport_some (bs : List Rect) (h : bs ≠ []) : ∃ v, viewport bs = some v := by
  unfold viewport
  have : ∀ (l : List Rect) (acc : Option Rect), (acc.isSome ∨ l ≠ []) →
      ∃ v, l.foldl (fun acc r => some (extendViewport acc r)) acc = some v := by
    intro l
    induction l with
    | nil =>
      intro acc h
      rcases h with h | h
      · cases acc with
        | none => simp at h
        | some a => exact ⟨a, rfl⟩
      · exact absurd rfl h
    | cons r rest ih =>
      intro acc _
      simp only [List.foldl_cons]
      exact ih _ (Or.inl rfl)
  exact this bs none (Or.inr h)

theorem extendViewport_translate (vp : Option Rect) (r : Rect) (v : V2) :
    extendViewport (vp.map (·.translate v)) (r.translate v) = (extendViewport vp r).translate v := by
  cases vp with
  | none => rfl
  | some a => exact Rect.union_translate a r v

theorem viewport_translate (bs : List Rect) (v : V2) :
    viewport (bs.map (·.translate v)) = (viewport bs).map (·.translate v) := by
  unfold viewport
  have : ∀ (l : List Rect) (acc : Option Rect),
      (l.map (·.translate v)).foldl (fun acc r => some (extendViewport acc r)) (acc.map (·.translate v))
      = (l.foldl (fun acc r => some (extendViewport acc r)) acc).map (·.translate v) := by
    intro l
    induction l with
    | nil => intro acc; rfl
    | cons r rest ih =>
      intro acc
      simp only [List.map_cons, List.foldl_cons]
      rw [extendViewport_translate]
      exact ih (some (extendViewport acc r))
  exact this bs none

/-! ### bounds -/

theorem foldl_union_spec (f : α → Rect) (l : List α) :
    ∀ (acc : Rect), (l.foldl (fun a x => a.union (f x)) acc).encloses acc ∧
      ∀ x ∈ l, (l.foldl (fun a x => a.union (f x)) acc).encloses (f x) := by
  induction l with
  | nil => intro acc; exact ⟨Rect.encloses_refl _, fun x hx => absurd hx (List.not_mem_nil)⟩
  | cons y rest ih =>
    intro acc
    simp only [List.foldl_cons]
    obtain ⟨h1, h2⟩ := ih (acc.union (f y))
    refine ⟨Rect.encloses_trans h1 (Rect.union_left _ _), fun x hx => ?_⟩
    rcases List.mem_cons.mp hx with rfl | hmem
    · exact Rect.encloses_trans h1 (Rect.union_right _ _)
    · exact h2 x hmem

theorem boxBounds_encloses (b : Box) (labels : List Box) :
    (boxBounds b labels).encloses (Rect.ofBox b) ∧ ∀ l ∈ labels, (boxBounds b labels).encloses (Rect.ofBox l) :=
  foldl_union_spec Rect.ofBox labels (Rect.ofBox b)

theorem edgeBounds_encloses (labels : List Box) (p0 : V2) (points : List V2) :
    (∀ p ∈ p0 :: points, (edgeBounds labels p0 points).encloses (Rect.ofPoint p)) ∧
    (∀ l ∈ labels, (edgeBounds labels p0 points).encloses (Rect.ofBox l)) := by
  unfold edgeBounds
  cases labels with
  | nil =>
    obtain ⟨h1, h2⟩ := foldl_union_spec Rect.ofPoint points (Rect.ofPoint p0)
    refine ⟨fun p hp => ?_, fun l hl => absurd hl (List.not_mem_nil)⟩
    rcases List.mem_cons.mp hp with rfl | hmem
    · exact h1
    · exact h2 p hmem
  | cons l ls =>
    simp only
    obtain ⟨h1, h2⟩ := foldl_union_spec Rect.ofPoint points
      ((ls.foldl (fun acc l => acc.union (Rect.ofBox l)) (Rect.ofBox l)).union (Rect.ofPoint p0))
    obtain ⟨g1, g2⟩ := foldl_union_spec Rect.ofBox ls (Rect.ofBox l)
    refine ⟨fun p hp => ?_, fun l' hl' => ?_⟩
    · rcases List.mem_cons.mp hp with rfl | hmem
      · exact Rect.encloses_trans h1 (Rect.union_right _ _)
      · exact h2 p hmem
    · rcases List.mem_cons.mp hl' with rfl | hmem
      · exact Rect.encloses_trans h1 (Rect.encloses_trans (Rect.union_left _ _) g1)
      · exact Rect.encloses_trans h1 (Rect.encloses_trans (Rect.union_left _ _) (g2 l' hmem))

/-! ### `snap_to_parent` -/

theorem midBox_pos (parent child : Box) (oh : Rat) :
    (midBox parent child oh).pos = parent.pos + child.size.sdiv 2 - ⟨oh, oh⟩ := by
  unfold midBox; simp only

theorem midBox_size (parent child : Box) (oh : Rat)
    (hx : child.size.x < parent.size.x + 2 * oh) (hy : child.size.y < parent.size.y + 2 * oh) :
    (midBox parent child oh).size = ⟨parent.size.x - child.size.x + 2 * oh, parent.size.y - child.size.y + 2 * oh⟩ := by
  have e1 : parent.pos.x + parent.size.x - child.size.x / 2 + oh - (parent.pos.x + child.size.x / 2 - oh)
      = parent.size.x - child.size.x + 2 * oh := by ring
  have e2 : parent.pos.y + parent.size.y - child.size.y / 2 + oh - (parent.pos.y + child.size.y / 2 - oh)
      = parent.size.y - child.size.y + 2 * oh := by ring
  unfold midBox normSize
  simp only [V2.sub_x, V2.sub_y, V2.add_x, V2.add_y, V2.sdiv, e1, e2]
  rw [if_neg (by linarith), if_neg (by linarith)]

/-- a port ends up attached to its parent's border -/
theorem snapPort_spec (parent child : Box) (oh : Rat) (h0 : 0 ≤ oh)
    (hsx : oh ≤ child.size.x) (hsy : oh ≤ child.size.y)
    (hx : child.size.x < parent.size.x + 2 * oh) (hy : child.size.y < parent.size.y + 2 * oh) :
    ∃ pos', snapPort parent child oh = .ok pos' ∧ portAttached parent pos' child.size ∧
      onOutline (midBox parent child oh) (pos' + child.size.sdiv 2) := by
  have hpos := midBox_pos parent child oh
  have hsize := midBox_size parent child oh hx hy
  have hw : 0 < (midBox parent child oh).size.x := by rw [hsize]; simp only; linarith
  have hh : 0 < (midBox parent child oh).size.y := by rw [hsize]; simp only; linarith
  obtain ⟨nm, hnm, hout⟩ := vectorSnap_spec (midBox parent child oh) (child.pos + child.size.sdiv 2)
    (child.pos + child.size.sdiv 2) .oblique hw hh (by decide)
  refine ⟨child.pos + (nm - (child.pos + child.size.sdiv 2)), ?_, ?_, ?_⟩
  · unfold snapPort; simp only [hnm]
  · obtain ⟨⟨b1, b2, b3, b4⟩, hside⟩ := hout
    simp only [hpos, hsize] at b1 b2 b3 b4 hside
    simp only [V2.sub_x, V2.sub_y, V2.add_x, V2.add_y, V2.sdiv] at b1 b2 b3 b4 hside
    simp only [portAttached, V2.sub_x, V2.sub_y, V2.add_x, V2.add_y, V2.sdiv]
    refine ⟨⟨by linarith, by linarith, by linarith, by linarith⟩, ?_⟩
    rcases hside with h | h | h | h
    · exact Or.inl (by linarith)
    · exact Or.inr (Or.inl (by linarith))
    · exact Or.inr (Or.inr (Or.inl (by linarith)))
    · exact Or.inr (Or.inr (Or.inr (by linarith)))
  · have : child.pos + (nm - (child.pos + child.size.sdiv 2)) + child.size.sdiv 2 = nm :=
      V2.ext' (by simp [V2.sdiv]; ring) (by simp [V2.sdiv]; ring)
    rw [this]; exact hout

/-- a child keeps the parent's margin on the top/left, and where a size is left it does not overflow -/
theorem snapChild_spec (parent child : Box) (raw : V2) (m : Rat) :
    let r := snapChild parent child raw m
    parent.pos.x + m ≤ r.1.x ∧ parent.pos.y + m ≤ r.1.y ∧
    (0 < r.2.x → r.1.x + r.2.x ≤ parent.pos.x + parent.size.x - m) ∧
    (0 < r.2.y → r.1.y + r.2.y ≤ parent.pos.y + parent.size.y - m) := by
  simp only [snapChild, V2.add_x, V2.add_y, V2.sub_x, V2.sub_y]
  refine ⟨le_max_right _ _, le_max_right _ _, ?_, ?_⟩
  · intro h
    have hm := min_le_right child.size.x
        (parent.pos.x + parent.size.x - max child.pos.x (parent.pos.x + m) - m)
    split_ifs at h ⊢
    all_goals first
      | exact absurd h (lt_irrefl _)
      | (dsimp only at h ⊢; linarith)
  · intro h
    have hm := min_le_right child.size.y
        (parent.pos.y + parent.size.y - max child.pos.y (parent.pos.y + m) - m)
    split_ifs at h ⊢
    all_goals first
      | exact absurd h (lt_irrefl _)
      | (dsimp only at h ⊢; linarith)

end Capella.Geom
