import Capella.Model.Http
import Capella.Lemmas.Quote

/-!
# Lemmas about the URL templating of the HTTP handler (C14)
-/
namespace Capella.Http
open Capella.Path (Str)

/-- the literal characters of a scanned template, in order -/
def lits : List Piece → Str
  | [] => []
  | .lit c :: rest => c :: lits rest
  | .esc _ :: rest => lits rest

/-- the literal text in front of the first escape -/
def litPrefix : List Piece → Str
  | .lit c :: rest => c :: litPrefix rest
  | _ => []

/-- whatever is inserted for an escape other than `%%` consists of characters `quote` emits: unreserved
characters, `%`, and `/` — never `?`, `#` or a blank -/
theorem value_chars (parts : List Str) (c : Char) (v : Str) (h : value parts c = some v) :
    ∀ x ∈ v, x ≠ '?' ∧ x ≠ '#' ∧ x ≠ ' ' := by
  have hq : ∀ (s : Bool) (t : Str), ∀ x ∈ q s t, x ≠ '?' ∧ x ≠ '#' ∧ x ≠ ' ' := by
    intro s t x hx
    have := Capella.Quote.quote_chars s (utf8 t) x hx
    refine ⟨?_, ?_, ?_⟩ <;> (rintro rfl; cases s <;> simp [Capella.Quote.okChar, Capella.Quote.alwaysSafe] at this)
  unfold value at h
  simp only at h
  split at h
  · cases h; exact hq _ _
  · split at h
    · cases h; exact hq _ _
    · split at h
      · cases h; exact hq _ _
      · split at h
        · cases h; exact hq _ _
        · split at h
          · cases h; exact hq _ _
          · split at h
            · cases h; intro x hx; simp at hx; subst hx; decide
            · cases h

/-- `%q` inserts no `/` either -/
theorem value_q_no_slash (parts : List Str) (v : Str) (h : value parts 'q' = some v) : '/' ∉ v := by
  have : v = q false (pathStr parts) := by
    simp [value] at h; exact h.symm
  subst this
  intro hm
  have := Capella.Quote.quote_chars false _ '/' hm
  simp [Capella.Quote.okChar, Capella.Quote.alwaysSafe] at this

theorem subst_count (parts : List Str) (x : Char) (hx : x = '?' ∨ x = '#' ∨ x = ' ') :
    ∀ (ps : List Piece) (u : Str), subst parts ps = .ok u → u.count x = (lits ps).count x := by
  intro ps
  induction ps with
  | nil => intro u h; simp [subst] at h; subst h; rfl
  | cons p rest ih =>
    intro u h
    cases p with
    | lit c =>
      simp only [subst] at h
      cases hr : subst parts rest with
      | error e => rw [hr] at h; cases h
      | ok r =>
        rw [hr] at h
        simp only [Except.map] at h
        cases h
        simp [lits, List.count_cons, ih r hr]
    | esc c =>
      simp only [subst] at h
      cases hv : value parts c with
      | none => rw [hv] at h; cases h
      | some v =>
        rw [hv] at h
        cases hr : subst parts rest with
        | error e => rw [hr] at h; cases h
        | ok r =>
          rw [hr] at h
          simp only [Except.map] at h
          cases h
          have hnot : x ∉ v := by
            intro hm
            have := value_chars parts c v hv x hm
            rcases hx with rfl | rfl | rfl
            · exact this.1 rfl
            · exact this.2.1 rfl
            · exact this.2.2 rfl
          simp [lits, List.count_append, List.count_eq_zero_of_not_mem hnot, ih r hr]

theorem subst_prefix (parts : List Str) :
    ∀ (ps : List Piece) (u : Str), subst parts ps = .ok u → litPrefix ps <+: u := by
  intro ps
  induction ps with
  | nil => intro u _; exact List.nil_prefix
  | cons p rest ih =>
    intro u h
    cases p with
    | lit c =>
      simp only [subst] at h
      cases hr : subst parts rest with
      | error e => rw [hr] at h; cases h
      | ok r =>
        rw [hr] at h
        simp only [Except.map] at h
        cases h
        exact (List.prefix_cons_inj c).mpr (ih r hr)
    | esc c => exact List.nil_prefix

/-- escapes consume `%` and a letter or `%`: the literal characters of a template contain all its `?`, `#`, blanks -/
theorem lits_count (x : Char) (hx : x = '?' ∨ x = '#' ∨ x = ' ') : ∀ t : Str, (lits (scan t)).count x = t.count x := by
  have hne : x ≠ '%' := by rcases hx with rfl | rfl | rfl <;> decide
  have hesc : ∀ c, isEscChar c = true → x ≠ c := by
    intro c hc he
    subst he
    rcases hx with rfl | rfl | rfl <;> simp [isEscChar] at hc
  intro t
  induction t using scan.induct with
  | case1 c rest hc ih =>
    simp only [scan, hc, if_true, lits, ih, List.count_cons]
    have h1 : ('%' == x) = false := by simpa using (fun h : '%' = x => hne h.symm)
    have h2 : (c == x) = false := by simpa using (fun h : c = x => hesc c hc h.symm)
    simp [h1, h2]
  | case2 c rest hc ih =>
    simp only [scan, hc, Bool.false_eq_true, if_false, lits, ih, List.count_cons]
  | case3 c rest hne' ih =>
    rw [scan]
    · simp only [lits, ih, List.count_cons]
    · intro c' r' h; exact hne' c' r' h
  | case4 => rfl

end Capella.Http
