import Capella.Model.RenderCache

/-! Lemmas about the render cache: the keyed variant is transparent (invariant + induction over the
history); the coded variant is transparent on histories that use one parameter set. -/
namespace Capella.RenderCache

variable {Pic Err : Type} (create : Params → Except Err Pic) (errImg : Err → Pic)

theorem inv_init : Inv create errImg (Cache.init : Cache Pic Err) := by
  simp [Inv, Cache.init]

theorem inv_invalidate (c : Cache Pic Err) : Inv create errImg (invalidate c) := by
  simp [Inv, invalidate]

theorem fresh_keyed (c : Cache Pic Err) (p : Params) :
    Inv create errImg (fresh .keyed create errImg c p).1 ∧ (fresh .keyed create errImg c p).2.2 = create p := by
  unfold fresh
  cases h : create p <;> simp [Inv, invalidate, h]

theorem renderFresh_keyed (c : Cache Pic Err) (p : Params) (hc : Inv create errImg c) :
    Inv create errImg (renderFresh .keyed create errImg c p).1
      ∧ (renderFresh .keyed create errImg c p).2.2 = create p := by
  unfold renderFresh
  cases hr : c.render with
  | none => exact fresh_keyed create errImg c p
  | some pic =>
    simp only
    split
    · exact fresh_keyed create errImg c p
    · rename_i hl
      have hl : c.last = p := by simpa using hl
      simp only [Inv, hr] at hc
      cases he : c.error with
      | some e =>
        simp only [he] at hc
        refine ⟨?_, ?_⟩
        · simp [Inv, hr, he, hc]
        · simp [← hl, hc.1]
      | none =>
        simp only [he] at hc
        refine ⟨?_, ?_⟩
        · simp [Inv, hr, he, hc]
        · simp [← hl, hc]

theorem run_keyed (c : Cache Pic Err) (hc : Inv create errImg c) (ops : List Op) :
    (run .keyed create errImg c ops).map (Option.map (·.2)) = ops.map (spec create) := by
  induction ops generalizing c with
  | nil => rfl
  | cons op r ih =>
    cases op with
    | render p =>
      have h := renderFresh_keyed create errImg c p hc
      simp only [run, step, List.map_cons, spec, Option.map_some, h.2]
      rw [ih _ h.1]
    | invalidate =>
      simp only [run, step, List.map_cons, spec, Option.map_none]
      rw [ih _ (inv_invalidate create errImg c)]

/-- the invariant of the coded variant on single-parameter histories: `last` stays `[]` and whatever is stored was
created with `p0` -/
def InvCoded (p0 : Params) (c : Cache Pic Err) : Prop :=
  match c.render with
  | none => c.error = none
  | some pic =>
    match c.error with
    | some e => create p0 = .error e ∧ pic = errImg e
    | none => create p0 = .ok pic

theorem fresh_coded (p0 : Params) (c : Cache Pic Err) :
    InvCoded create errImg p0 (fresh .coded create errImg c p0).1
      ∧ (fresh .coded create errImg c p0).2.2 = create p0 := by
  unfold fresh
  cases h : create p0 <;> simp [InvCoded, invalidate, h]

theorem renderFresh_coded (p0 : Params) (c : Cache Pic Err) (hc : InvCoded create errImg p0 c) :
    InvCoded create errImg p0 (renderFresh .coded create errImg c p0).1
      ∧ (renderFresh .coded create errImg c p0).2.2 = create p0 := by
  unfold renderFresh
  cases hr : c.render with
  | none => exact fresh_coded create errImg p0 c
  | some pic =>
    simp only
    split
    · exact fresh_coded create errImg p0 c
    · simp only [InvCoded, hr] at hc
      cases he : c.error with
      | some e =>
        simp only [he] at hc
        exact ⟨by simp [InvCoded, hr, he, hc], by simp [hc.1]⟩
      | none =>
        simp only [he] at hc
        exact ⟨by simp [InvCoded, hr, he, hc], by simp [hc]⟩

theorem run_coded_single (p0 : Params) (c : Cache Pic Err) (hc : InvCoded create errImg p0 c) (ops : List Op)
    (h : ∀ op ∈ ops, op = .render p0 ∨ op = .invalidate) :
    (run .coded create errImg c ops).map (Option.map (·.2)) = ops.map (spec create) := by
  induction ops generalizing c with
  | nil => rfl
  | cons op r ih =>
    have hr : ∀ op ∈ r, op = .render p0 ∨ op = .invalidate := fun o ho => h o (List.mem_cons_of_mem _ ho)
    rcases h op (List.mem_cons_self ..) with rfl | rfl
    · have h2 := renderFresh_coded create errImg p0 c hc
      simp only [run, step, List.map_cons, spec, Option.map_some, h2.2]
      rw [ih _ h2.1 hr]
    · simp only [run, step, List.map_cons, spec, Option.map_none]
      rw [ih _ (by simp [InvCoded, invalidate]) hr]

end Capella.RenderCache
