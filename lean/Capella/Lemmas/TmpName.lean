import Capella.Model.Path

/-!
# `_tmpname` on bytes (C14 / C15)

`tmpName n = "." ++ takeBytes 250 n ++ ".tmp"`: the name is cut after the longest prefix of whole
characters that fits into 250 **bytes** of UTF-8 (`len(os.fsencode(name))`).  Proved here: the cut is
the specification of the Python loop, the result never exceeds 255 bytes, names of at most 250 bytes
are not cut (so `tmpName` is injective on them), a temp name always has the shape `.….tmp`, and — on
whole paths — `tmpPath` is injective on paths whose last component has at most 250 bytes and never
produces a path whose last component lacks that shape.
-/
namespace Capella.Path

theorem utf8Size_pos (c : Char) : 0 < c.utf8Size := by
  have := Char.utf8Size_pos c; omega

theorem utf8Size_le_four (c : Char) : c.utf8Size ≤ 4 := Char.utf8Size_le_four c

theorem utf8Len_append (a b : Str) : utf8Len (a ++ b) = utf8Len a + utf8Len b := by
  induction a with
  | nil => simp [utf8Len]
  | cons c cs ih => simp [utf8Len, ih, Nat.add_assoc]

theorem utf8Len_replicate (k : Nat) (c : Char) : utf8Len (List.replicate k c) = k * c.utf8Size := by
  induction k with
  | zero => simp [utf8Len]
  | succ k ih => simp [List.replicate_succ, utf8Len, ih, Nat.succ_mul, Nat.add_comm]

/-- every character takes at least one byte -/
theorem length_le_utf8Len (s : Str) : s.length ≤ utf8Len s := by
  induction s with
  | nil => simp [utf8Len]
  | cons c cs ih => have := utf8Size_pos c; simp [utf8Len]; omega

theorem takeBytes_prefix (n : Nat) (s : Str) : takeBytes n s <+: s := by
  induction s generalizing n with
  | nil => simp [takeBytes]
  | cons c cs ih =>
    simp only [takeBytes]
    split
    · exact List.prefix_cons_inj c |>.mpr (ih _)
    · exact List.nil_prefix

theorem utf8Len_takeBytes_le (n : Nat) (s : Str) : utf8Len (takeBytes n s) ≤ n := by
  induction s generalizing n with
  | nil => simp [takeBytes, utf8Len]
  | cons c cs ih =>
    simp only [takeBytes]
    split
    · have := ih (n - c.utf8Size); simp only [utf8Len]; omega
    · simp [utf8Len]

/-- a name that fits is not cut -/
theorem takeBytes_eq_self (n : Nat) (s : Str) (h : utf8Len s ≤ n) : takeBytes n s = s := by
  induction s generalizing n with
  | nil => simp [takeBytes]
  | cons c cs ih =>
    simp only [utf8Len] at h
    have h1 : c.utf8Size ≤ n := by omega
    simp only [takeBytes, h1, if_true]
    rw [ih (n - c.utf8Size) (by omega)]

/-- the cut is maximal: if something was cut off, one more character would not have fitted — together
with `takeBytes_prefix` and `utf8Len_takeBytes_le` this is the result of the Python loop
`while len(os.fsencode(name)) > limit: name = name[:-1]` -/
theorem takeBytes_maximal (n : Nat) (s : Str) (h : takeBytes n s ≠ s) :
    ∃ c rest, s = takeBytes n s ++ c :: rest ∧ n < utf8Len (takeBytes n s) + c.utf8Size := by
  induction s generalizing n with
  | nil => simp [takeBytes] at h
  | cons c cs ih =>
    simp only [takeBytes] at h ⊢
    split
    · rename_i hc
      simp only [hc, if_true, ne_eq, List.cons.injEq, true_and] at h
      obtain ⟨d, rest, h1, h2⟩ := ih (n - c.utf8Size) h
      refine ⟨d, rest, by rw [List.cons_append, ← h1], ?_⟩
      simp only [utf8Len]; omega
    · rename_i hc
      exact ⟨c, cs, rfl, by simp [utf8Len]; omega⟩

theorem takeBytes_subset (n : Nat) (s : Str) (c : Char) (h : c ∈ takeBytes n s) : c ∈ s :=
  (takeBytes_prefix n s).subset h

/-- **The temp name fits the file system's limit**: never more than 255 bytes, whatever the name. -/
theorem tmpName_utf8Len_le (n : Str) : utf8Len (tmpName n) ≤ 255 := by
  have := utf8Len_takeBytes_le 250 n
  have h4 : utf8Len ['.', 't', 'm', 'p'] = 4 := by decide
  have h1 : Char.utf8Size '.' = 1 := by decide
  show utf8Len ('.' :: (takeBytes 250 n ++ ['.', 't', 'm', 'p'])) ≤ 255
  rw [utf8Len, utf8Len_append, h4, h1]
  omega

theorem tmpName_eq_iff (a b : Str) : tmpName a = tmpName b ↔ takeBytes 250 a = takeBytes 250 b := by
  simp [tmpName]

/-- **Injective where nothing is cut**: two names of at most 250 bytes with the same temp name are equal. -/
theorem tmpName_inj_short (a b : Str) (ha : utf8Len a ≤ 250) (hb : utf8Len b ≤ 250)
    (h : tmpName a = tmpName b) : a = b := by
  rw [tmpName_eq_iff, takeBytes_eq_self _ _ ha, takeBytes_eq_self _ _ hb] at h
  exact h

/-- the shape of a temp name: a leading dot and the suffix `.tmp` -/
def TmpShaped (n : Str) : Prop := n.head? = some '.' ∧ ['.', 't', 'm', 'p'] <:+ n ∧ 5 ≤ n.length

theorem tmpName_shaped (n : Str) : TmpShaped (tmpName n) := by
  refine ⟨rfl, ?_, ?_⟩
  · exact ⟨'.' :: takeBytes 250 n, by simp [tmpName]⟩
  · simp [tmpName]

instance (n : Str) : Decidable (TmpShaped n) := by unfold TmpShaped; exact inferInstance

/-- the pinned 250-*character* cut overshoots the limit: 126 two-byte characters give 257 bytes -/
theorem tmpNameOld_too_long : 255 < utf8Len (tmpNameOld (List.replicate 126 'é')) := by
  have h2 : Char.utf8Size 'é' = 2 := by decide
  have h4 : utf8Len ['.', 't', 'm', 'p'] = 4 := by decide
  have h1 : Char.utf8Size '.' = 1 := by decide
  show 255 < utf8Len ('.' :: ((List.replicate 126 'é').take 250 ++ ['.', 't', 'm', 'p']))
  rw [List.take_of_length_le (by simp), utf8Len, utf8Len_append, utf8Len_replicate, h1, h2, h4]
  decide

/-! ### whole paths -/

theorem tmpPath_getLast (parts : List Str) (n : Str) (h : parts.getLast? = some n) :
    tmpPath parts = parts.dropLast ++ [tmpName n] := by
  simp [tmpPath, h]

/-- usable temp names from syntactic conditions: on a list of paths whose last components have at most
250 bytes and are not themselves shaped like a temp name, `tmpPath` is injective and never hits a
member of the list. -/
theorem tmpPath_ok (ps : List (List Str))
    (hne : ∀ p ∈ ps, p ≠ [])
    (hshort : ∀ p ∈ ps, ∀ n, p.getLast? = some n → utf8Len n ≤ 250)
    (hshape : ∀ p ∈ ps, ∀ n, p.getLast? = some n → ¬ TmpShaped n) :
    (∀ p ∈ ps, ∀ q ∈ ps, tmpPath p = tmpPath q → p = q) ∧ (∀ p ∈ ps, ∀ q ∈ ps, tmpPath p ≠ q) := by
  have last : ∀ p : List Str, p ≠ [] → ∃ n, p.getLast? = some n ∧ p = p.dropLast ++ [n] := by
    intro p hp
    refine ⟨p.getLast hp, List.getLast?_eq_some_getLast hp, (List.dropLast_concat_getLast hp).symm⟩
  constructor
  · intro p hp q hq he
    obtain ⟨n, hn, hpn⟩ := last p (hne p hp)
    obtain ⟨m, hm, hqm⟩ := last q (hne q hq)
    rw [tmpPath_getLast p n hn, tmpPath_getLast q m hm] at he
    have h1 := List.append_inj' he rfl
    have h2 : tmpName n = tmpName m := by simpa using h1.2
    have h3 := tmpName_inj_short n m (hshort p hp n hn) (hshort q hq m hm) h2
    rw [hpn, hqm, h1.1, h3]
  · intro p hp q hq he
    obtain ⟨n, hn, _⟩ := last p (hne p hp)
    obtain ⟨m, hm, hqm⟩ := last q (hne q hq)
    rw [tmpPath_getLast p n hn] at he
    rw [hqm] at he
    have h1 := List.append_inj' he rfl
    have h2 : tmpName n = m := by simpa using h1.2
    exact hshape q hq m hm (h2 ▸ tmpName_shaped n)

end Capella.Path
