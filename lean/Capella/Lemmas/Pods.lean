import Capella.Model.Pods

/-!
Helper lemmas for C07: the attribute map, the integer codec, the two `DatetimePOD` regexes,
enum lookups, the per-kind codec round trips and the generic `get ∘ set` lemma.
-/
namespace Capella.Pods
namespace Attrs

theorem get_set_same (a : Attrs) (k v : Str) : (a.set k v).get k = some v := by
  induction a with
  | nil => simp [set, get]
  | cons p r ih =>
    obtain ⟨k', v'⟩ := p
    by_cases h : k' = k
    · simp [set, get, h]
    · simp [set, get, h, ih]

theorem get_pop_same (a : Attrs) (k : Str) : (a.pop k).get k = none := by
  induction a with
  | nil => simp [pop, get]
  | cons p r ih =>
    obtain ⟨k0, v0⟩ := p
    by_cases h0 : k0 = k
    · simpa [pop, List.filter, h0] using ih
    · simpa [pop, List.filter, h0, get] using ih

theorem has_pop_same (a : Attrs) (k : Str) : (a.pop k).has k = false := by
  simp [has, get_pop_same]

theorem has_set_same (a : Attrs) (k v : Str) : (a.set k v).has k = true := by
  simp [has, get_set_same]

/-- the other attributes keep their values *and their order* under a store … -/
theorem pop_set (a : Attrs) (k v : Str) : (a.set k v).pop k = a.pop k := by
  induction a with
  | nil => simp [set, pop, List.filter]
  | cons p r ih =>
    obtain ⟨k0, v0⟩ := p
    by_cases h0 : k0 = k
    · simp [set, pop, List.filter, h0]
    · simpa [set, pop, List.filter, h0] using ih

/-- … and under a removal -/
theorem pop_pop (a : Attrs) (k : Str) : (a.pop k).pop k = a.pop k := by
  simp [pop, List.filter_filter]
theorem get_set_other (a : Attrs) (k k' v : Str) (h : k' ≠ k) : (a.set k v).get k' = a.get k' := by
  induction a with
  | nil => simp [set, get, Ne.symm h]
  | cons p r ih =>
    obtain ⟨k0, v0⟩ := p
    simp only [set]
    split
    · subst_vars; simp [get, Ne.symm h]
    · simp only [get]; split <;> simp_all

theorem get_pop_other (a : Attrs) (k k' : Str) (h : k' ≠ k) : (a.pop k).get k' = a.get k' := by
  induction a with
  | nil => simp [pop, get]
  | cons p r ih =>
    obtain ⟨k0, v0⟩ := p
    simp only [pop, List.filter] at ih ⊢
    by_cases h0 : k0 = k
    · subst h0
      have : ¬ k0 = k' := fun e => h e.symm
      simp [get, this, ih]
    · simp only [h0, decide_false, Bool.not_false, get]
      split <;> simp_all
end Attrs

theorem isDigit_bounds (c : Char) (h : c.isDigit = true) : 48 ≤ c.toNat ∧ c.toNat ≤ 57 := by
  simp only [Char.isDigit, Bool.and_eq_true, decide_eq_true_eq] at h
  obtain ⟨h1, h2⟩ := h
  have h1' : '0'.val ≤ c.val := h1
  rw [UInt32.le_iff_toNat_le] at h1' h2
  exact ⟨h1', h2⟩

theorem isDigit_not_space (c : Char) (h : c.isDigit = true) : isPySpace c = false := by
  have := isDigit_bounds c h
  simp only [isPySpace]
  simp
  omega

theorem isDigit_xml (c : Char) (h : c.isDigit = true) : xmlChar c = true := by
  have := isDigit_bounds c h
  simp only [xmlChar]
  simp
  omega

theorem strip_id (s : Str) (a b : Char) (ha : isPySpace a = false) (hb : isPySpace b = false)
    (h1 : s.head? = some a) (h2 : s.getLast? = some b) : strip s = s := by
  unfold strip
  cases s with
  | nil => simp at h1
  | cons x r =>
    simp at h1; subst h1
    have : List.dropWhile isPySpace (x :: r) = x :: r := by simp [List.dropWhile, ha]
    rw [this]
    have h3 : (x :: r).reverse.head? = some b := by rw [List.head?_reverse]; exact h2
    cases hr : (x :: r).reverse with
    | nil => simp at hr
    | cons y t =>
      rw [hr] at h3; simp at h3; subst h3
      simp [List.dropWhile, hb]
      have := congrArg List.reverse hr
      simpa using this.symm


theorem digitsOk_of_all_digits : ∀ (l : Str), l ≠ [] → (∀ c ∈ l, c.isDigit = true) → digitsOk l = true
  | [], h, _ => absurd rfl h
  | [c], _, hd => by simpa [digitsOk] using hd c (by simp)
  | c :: c' :: r, _, hd => by
    have hc : c.isDigit = true := hd c (by simp)
    have hc' : c'.isDigit = true := hd c' (by simp)
    have ih := digitsOk_of_all_digits (c' :: r) (by simp) (fun x hx => hd x (by simp [hx]))
    by_cases hne : c' = '_'
    · subst hne
      simp [Char.isDigit] at hc'
    · rw [digitsOk.eq_4]
      · simp [hc, ih]
      · intro h; simp at h
      · intro r' h; simp at h; exact hne h.1

theorem toDigits_facts (n : Nat) :
    ∃ c r, Nat.toDigits 10 n = c :: r ∧ (∀ x ∈ c :: r, x.isDigit = true) := by
  have hne := @Nat.toDigits_ne_nil n 10
  cases h : Nat.toDigits 10 n with
  | nil => exact absurd h hne
  | cons c r =>
    refine ⟨c, r, rfl, ?_⟩
    intro x hx
    rw [← h] at hx
    exact Nat.isDigit_of_mem_toDigits (by decide) (by decide) hx

theorem filter_underscore (l : Str) (h : ∀ x ∈ l, x.isDigit = true) :
    l.filter (fun c => c != '_') = l := by
  rw [List.filter_eq_self]
  intro x hx
  have := h x hx
  by_cases hx' : x = '_'
  · subst hx'; simp [Char.isDigit] at this
  · simpa using hx'

theorem getLast?_digit (c : Char) (r : Str) (h : ∀ x ∈ c :: r, x.isDigit = true) :
    ∃ b, (c :: r).getLast? = some b ∧ b.isDigit = true := by
  have hne : c :: r ≠ [] := by simp
  refine ⟨(c :: r).getLast hne, List.getLast?_eq_some_getLast hne, h _ (List.getLast_mem hne)⟩

theorem parseSigned_digits (c : Char) (r : Str) (h : ∀ x ∈ c :: r, x.isDigit = true) (neg : Bool) :
    parseSigned neg (c :: r) =
    some (if neg then - ((Nat.ofDigitChars 10 (c :: r) 0 : Nat) : Int) else ((Nat.ofDigitChars 10 (c :: r) 0 : Nat) : Int)) := by
  unfold parseSigned
  rw [digitsOk_of_all_digits (c :: r) (by simp) h, filter_underscore _ h]
  simp

theorem pyIntParse_repr (i : Int) : pyIntParse (pyIntRepr i) = some i := by
  obtain ⟨c, r, hD, hdig⟩ := toDigits_facts i.natAbs
  have hval : Nat.ofDigitChars 10 (c :: r) 0 = i.natAbs := by
    rw [← hD]; exact Nat.ofDigitChars_ten_toDigits
  obtain ⟨b, hb, hbd⟩ := getLast?_digit c r hdig
  have hc : c.isDigit = true := hdig c (by simp)
  unfold pyIntRepr pyIntParse
  by_cases hneg : i < 0
  · simp only [hneg, if_true, hD]
    have hs : strip ('-' :: c :: r) = '-' :: c :: r :=
      strip_id _ '-' b (by decide) (isDigit_not_space b hbd) (by simp) (by
        rw [List.getLast?_cons_cons]; exact hb)
    rw [hs]
    show parseSigned true (c :: r) = _
    rw [parseSigned_digits c r hdig true, hval]
    simp only [if_true]
    congr 1
    omega
  · simp only [hneg, if_false, hD]
    have hs : strip (c :: r) = c :: r :=
      strip_id _ c b (isDigit_not_space c hc) (isDigit_not_space b hbd) (by simp) hb
    rw [hs]
    have hm : c ≠ '-' := by rintro rfl; simp [Char.isDigit] at hc
    have hp : c ≠ '+' := by rintro rfl; simp [Char.isDigit] at hc
    split
    · rename_i h; simp at h; exact absurd h.1 hm
    · rename_i h; simp at h; exact absurd h.1 hp
    · rw [parseSigned_digits c r hdig false, hval]
      simp only [Bool.false_eq_true, if_false]
      congr 1
      omega

theorem xmlOk_pyIntRepr (i : Int) : xmlOk (pyIntRepr i) = true := by
  obtain ⟨c, r, hD, hdig⟩ := toDigits_facts i.natAbs
  unfold pyIntRepr xmlOk
  split
  · rw [hD, List.all_cons]
    simp only [Bool.and_eq_true, List.all_eq_true]
    exact ⟨by decide, fun x hx => isDigit_xml x (hdig x hx)⟩
  · rw [hD, List.all_eq_true]
    exact fun x hx => isDigit_xml x (hdig x hx)


theorem reSetRev_some (r r' : Str) (h : reSetRev r = some r') :
    ∃ d4 d3 d2 d1 sg rest, r = d4 :: d3 :: ':' :: d2 :: d1 :: sg :: rest ∧
      r' = d4 :: d3 :: d2 :: d1 :: sg :: rest ∧
      (d4.isDigit && d3.isDigit && d2.isDigit && d1.isDigit && isSign sg) = true := by
  unfold reSetRev at h
  split at h
  · rename_i d4 d3 d2 d1 sg rest
    split at h
    · rename_i hc
      simp at h
      exact ⟨d4, d3, d2, d1, sg, rest, rfl, h.symm, hc⟩
    · simp at h
  · simp at h

theorem reGetRev_of (d4 d3 d2 d1 sg : Char) (rest : Str)
    (hc : (d4.isDigit && d3.isDigit && d2.isDigit && d1.isDigit && isSign sg) = true) :
    reGetRev (d4 :: d3 :: d2 :: d1 :: sg :: rest) = some (d4 :: d3 :: ':' :: d2 :: d1 :: sg :: rest) := by
  simp only [reGetRev, hc, if_true]

theorem reSet_nl (s r r' : Str) (hs : s.reverse = '\n' :: r) (hr : reSetRev r = some r') :
    reSet s = ('\n' :: r').reverse := by
  unfold reSet; rw [hs]; simp only [hr]

theorem reSet_nonl (s r' : Str) (hs : ∀ r, s.reverse ≠ '\n' :: r) (hr : reSetRev s.reverse = some r') :
    reSet s = r'.reverse := by
  unfold reSet
  split
  · rename_i r h; exact absurd h (hs r)
  · simp only [hr]

theorem reSet_none_nl (s r : Str) (hs : s.reverse = '\n' :: r) (hr : reSetRev r = none) : reSet s = s := by
  unfold reSet; rw [hs]; simp only [hr]

theorem reSet_none_nonl (s : Str) (hs : ∀ r, s.reverse ≠ '\n' :: r) (hr : reSetRev s.reverse = none) :
    reSet s = s := by
  unfold reSet
  split
  · rename_i r h; exact absurd h (hs r)
  · simp only [hr]

theorem reGet_nl (s r r' : Str) (hs : s.reverse = '\n' :: r) (hr : reGetRev r = some r') :
    reGet s = ('\n' :: r').reverse := by
  unfold reGet; rw [hs]; simp only [hr]

theorem reGet_nonl (s r' : Str) (hs : ∀ r, s.reverse ≠ '\n' :: r) (hr : reGetRev s.reverse = some r') :
    reGet s = r'.reverse := by
  unfold reGet
  split
  · rename_i r h; exact absurd h (hs r)
  · simp only [hr]

theorem reGet_reSet (s : Str) (h : IsoShape s) : reGet (reSet s) = s := by
  by_cases hm : reSet s = s
  · rcases h with h | h
    · exact absurd hm h
    · rw [hm, h]
  · clear h
    by_cases hnl : ∃ r, s.reverse = '\n' :: r
    · obtain ⟨r, hs⟩ := hnl
      cases hr : reSetRev r with
      | none => exact absurd (reSet_none_nl s r hs hr) hm
      | some r' =>
        obtain ⟨d4, d3, d2, d1, sg, rest, rfl, rfl, hc⟩ := reSetRev_some _ _ hr
        rw [reSet_nl s _ _ hs hr]
        rw [reGet_nl _ _ _ (List.reverse_reverse _) (reGetRev_of _ _ _ _ _ _ hc), ← hs]
        simp
    · have hnl' : ∀ r, s.reverse ≠ '\n' :: r := fun r h => hnl ⟨r, h⟩
      cases hr : reSetRev s.reverse with
      | none => exact absurd (reSet_none_nonl s hnl' hr) hm
      | some r' =>
        obtain ⟨d4, d3, d2, d1, sg, rest, hrr, rfl, hc⟩ := reSetRev_some _ _ hr
        have hd4 : d4 ≠ '\n' := by
          rintro rfl
          simp [Char.isDigit] at hc
        rw [reSet_nonl s _ hnl' hr]
        rw [reGet_nonl _ _ (by
              intro r h; rw [List.reverse_reverse] at h; simp at h; exact hd4 h.1)
            (by rw [List.reverse_reverse]; exact reGetRev_of _ _ _ _ _ _ hc), ← hrr]
        simp

theorem xmlOk_reverse (s : Str) : xmlOk s.reverse = xmlOk s := by
  simp [xmlOk, List.all_reverse]

theorem xmlOk_reSet (s : Str) (h : xmlOk s = true) : xmlOk (reSet s) = true := by
  have hr : xmlOk s.reverse = true := by rw [xmlOk_reverse]; exact h
  by_cases hnl : ∃ r, s.reverse = '\n' :: r
  · obtain ⟨r, hs⟩ := hnl
    cases hrr : reSetRev r with
    | none => rw [reSet_none_nl s r hs hrr]; exact h
    | some r' =>
      obtain ⟨d4, d3, d2, d1, sg, rest, rfl, rfl, hc⟩ := reSetRev_some _ _ hrr
      rw [reSet_nl s _ _ hs hrr, xmlOk_reverse]
      rw [hs] at hr
      simp only [xmlOk, List.all_cons, Bool.and_eq_true] at hr ⊢
      exact ⟨hr.1, hr.2.1, hr.2.2.1, hr.2.2.2.2⟩
  · have hnl' : ∀ r, s.reverse ≠ '\n' :: r := fun r h => hnl ⟨r, h⟩
    cases hrr : reSetRev s.reverse with
    | none => rw [reSet_none_nonl s hnl' hrr]; exact h
    | some r' =>
      obtain ⟨d4, d3, d2, d1, sg, rest, hs, rfl, hc⟩ := reSetRev_some _ _ hrr
      rw [reSet_nonl s _ hnl' hrr, xmlOk_reverse]
      rw [hs] at hr
      simp only [xmlOk, List.all_cons, Bool.and_eq_true] at hr ⊢
      exact ⟨hr.1, hr.2.1, hr.2.2.2⟩


theorem Same.rfl' {P : Params} (a : PyVal P) : Same P a a := Or.inl rfl

/-- the disjunction `codec_cases` establishes -/
def CodecOk (P : Params) (d : Desc) (v : PyVal P) : Prop :=
  (isNone v = false ∧ neDefault P d v = true ∧
      ∃ data, toXml P d v = .ok data ∧ xmlOk data = true ∧
        ∃ w, fromXml P d data = .ok w ∧ Same P w (denote P d v))
  ∨ ((isNone v = true ∨ neDefault P d v = false) ∧ Same P (defaultVal P d) (denote P d v))

theorem find_mem_snd (l : List (Str × Str)) (s x : Str)
    (h : (l.find? (fun m => decide (m.1 = s))).map (·.2) = some x) : x ∈ l.map (·.2) := by
  cases hf : l.find? (fun m => decide (m.1 = s)) with
  | none => rw [hf] at h; simp at h
  | some m =>
    rw [hf] at h; simp at h
    have := List.mem_of_find?_eq_some hf
    rw [← h]; exact List.mem_map_of_mem this

theorem byValue_of_byName_list : ∀ (l : List (Str × Str)) (s x : Str),
    allDistinct (l.map (·.2)) = true →
    (l.find? (fun m => decide (m.1 = s))).map (·.2) = some x →
    (l.find? (fun m => decide (m.2 = x))).map (·.1) = some s
  | [], _, _, _, h => by simp at h
  | (n0, v0) :: r, s, x, hd, h => by
    simp only [List.map_cons, allDistinct, Bool.and_eq_true, Bool.not_eq_true'] at hd
    by_cases hn : n0 = s
    · subst hn
      simp at h
      subst h
      simp
    · have h' : (r.find? (fun m => decide (m.1 = s))).map (·.2) = some x := by
        simpa [List.find?, hn] using h
      have hx : x ∈ r.map (·.2) := find_mem_snd r s x h'
      have hv : v0 ≠ x := by
        rintro rfl
        have := hd.1
        rw [List.contains_eq_mem] at this
        simp at this
        simp at hx
        obtain ⟨a, ha⟩ := hx
        exact this a ha
      have ih := byValue_of_byName_list r s x hd.2 h'
      simpa [List.find?, hv] using ih

theorem byValue_of_byName (e : EnumCls) (he : e.wf = true) (s x : Str) (h : e.byName s = some x) :
    e.byValue x = some s := by
  simp only [EnumCls.wf, Bool.and_eq_true] at he
  exact byValue_of_byName_list e.members s x he.1.1.2 h

theorem byName_xml (e : EnumCls) (he : e.wf = true) (s x : Str) (h : e.byName s = some x) :
    xmlOk x = true := by
  simp only [EnumCls.wf, Bool.and_eq_true] at he
  have hall := he.1.2
  unfold EnumCls.byName at h
  cases hf : e.members.find? (fun m => decide (m.1 = s)) with
  | none => rw [hf] at h; simp at h
  | some m =>
    rw [hf] at h; simp at h
    have := List.mem_of_find?_eq_some hf
    rw [List.all_eq_true] at hall
    rw [← h]; exact hall m this

end Capella.Pods
