import Capella.Model.Pods
namespace Capella.Pods

theorem tags_ne : tBodies ≠ tLanguages := by decide

theorem langs_append (s t : Spec) : langs (s ++ t) = langs s ++ langs t := by simp [langs]
theorem bodies_append (s t : Spec) : bodies (s ++ t) = bodies s ++ bodies t := by simp [bodies]

theorem langs_new (v k : Str) : langs [⟨tBodies, some v⟩, ⟨tLanguages, some k⟩] = [⟨tLanguages, some k⟩] := by
  simp [langs, List.filter, tags_ne]
theorem bodies_new (v k : Str) : bodies [⟨tBodies, some v⟩, ⟨tLanguages, some k⟩] = [⟨tBodies, some v⟩] := by
  simp [bodies, List.filter, Ne.symm tags_ne]

/-- `setNth tBodies` leaves the `languages` children alone … -/
theorem langs_setNth (v : Str) : ∀ (s : Spec) (i : Nat), langs (setNth tBodies v s i) = langs s
  | [], _ => rfl
  | c :: r, i => by
    unfold setNth
    by_cases hc : c.tag = tBodies
    · have hl : ¬ c.tag = tLanguages := by rw [hc]; exact tags_ne
      cases i with
      | zero => simp [hc, langs, List.filter, tags_ne]
      | succ i =>
        have := langs_setNth v r i
        simp only [langs] at this
        simp [hc, langs, List.filter, tags_ne, this]
    · have := langs_setNth v r i
      simp only [langs] at this
      simp only [hc, if_false, langs, List.filter]
      split <;> simp [this]

/-- … and rewrites exactly the `i`-th `bodies` child -/
theorem bodies_setNth (v : Str) : ∀ (s : Spec) (i : Nat),
    bodies (setNth tBodies v s i) = (bodies s).modify i (fun c => { c with text := some v })
  | [], _ => by simp [setNth, bodies]
  | c :: r, i => by
    unfold setNth
    by_cases hc : c.tag = tBodies
    · cases i with
      | zero => simp [hc, bodies, List.filter]
      | succ i =>
        have := bodies_setNth v r i
        simp only [bodies] at this
        simp [hc, bodies, List.filter, this]
    · have := bodies_setNth v r i
      simp only [bodies] at this
      simp [hc, bodies, List.filter, this]

end Capella.Pods
