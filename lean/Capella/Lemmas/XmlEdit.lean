import Capella.Lemmas.XmlWritten
import Capella.Model.XmlEdit
/-! Tree edits preserve Capella-shapedness; the canonical order is information-equal (C02). -/
namespace Capella.Xml

/-! ### `wfElem` taken apart and put together -/

theorem wfElem_iff {pns : List (Str × Str)} {tag nsd attrs text tail kids} :
    wfElem pns (.mk tag nsd attrs text tail kids) = true ↔
    (nsdeclsOk pns nsd = true ∧ qnameOk (scope pns nsd) false tag = true ∧
     attrs.all (fun kv => qnameOk (scope pns nsd) true kv.1 && kv.2.all xmlChar) = true ∧
     distinctStrs (keysOf attrs) = true ∧ textOk text kids.isEmpty = true ∧ tail.isNone = true ∧
     wfKids (scope pns nsd) kids = true) := by
  simp only [wfElem, Bool.and_eq_true]
  constructor
  · rintro ⟨⟨⟨⟨⟨⟨h1, h2⟩, h3⟩, h4⟩, h5⟩, h6⟩, h7⟩; exact ⟨h1, h2, h3, h4, h5, h6, h7⟩
  · rintro ⟨h1, h2, h3, h4, h5, h6, h7⟩; exact ⟨⟨⟨⟨⟨⟨h1, h2⟩, h3⟩, h4⟩, h5⟩, h6⟩, h7⟩

/-! ### attributes -/

theorem mem_setKV {k v : Str} {l : List (Str × Str)} {x : Str × Str} (h : x ∈ setKV k v l) :
    x ∈ l ∨ x = (k, v) := by
  induction l with
  | nil => simp [setKV] at h; exact Or.inr h
  | cons y ys ih =>
    obtain ⟨a, w⟩ := y
    simp only [setKV] at h
    split at h
    · rename_i hak
      rcases List.mem_cons.mp h with h | h
      · right; rw [h, hak]
      · left; exact List.mem_cons_of_mem _ h
    · rcases List.mem_cons.mp h with h | h
      · left; rw [h]; exact List.mem_cons_self
      · rcases ih h with h | h
        · left; exact List.mem_cons_of_mem _ h
        · right; exact h

theorem keysOf_setKV (k v : Str) (l : List (Str × Str)) :
    keysOf (setKV k v l) = if k ∈ keysOf l then keysOf l else keysOf l ++ [k] := by
  induction l with
  | nil => simp [setKV, keysOf]
  | cons y ys ih =>
    obtain ⟨a, w⟩ := y
    simp only [setKV]
    by_cases hak : a = k
    · subst hak; simp [keysOf]
    · have hka : ¬ k = a := fun h => hak h.symm
      simp only [hak, ↓reduceIte, keysOf, List.map_cons, List.mem_cons, hka, false_or] at ih ⊢
      rw [ih]
      split
      · rename_i h; simp [h]
      · rename_i h; simp [h]

theorem setKV_nodup {k v : Str} {l : List (Str × Str)} (h : (keysOf l).Nodup) :
    (keysOf (setKV k v l)).Nodup := by
  rw [keysOf_setKV]
  split
  · exact h
  · rename_i hk
    exact List.nodup_append.mpr ⟨h, by simp, fun a ha b hb hab => by
      simp only [List.mem_singleton] at hb; subst hb; subst hab; exact hk ha⟩

/-! ### children -/

theorem wfKids_insertNth {m : List (Str × Str)} {ks : List Elem} {kid : Elem} (i : Nat)
    (hk : wfKids m ks = true) (hkid : wfElem m kid = true) : wfKids m (insertNth i kid ks) = true := by
  induction ks generalizing i with
  | nil => simp [insertNth, wfKids, hkid]
  | cons y ys ih =>
    simp only [wfKids, Bool.and_eq_true] at hk
    cases i with
    | zero => simp [insertNth, wfKids, hkid, hk.1, hk.2]
    | succ j => simp [insertNth, wfKids, hk.1, ih j hk.2]

theorem wfKids_removeNth {m : List (Str × Str)} {ks : List Elem} (i : Nat)
    (hk : wfKids m ks = true) : wfKids m (removeNth i ks) = true := by
  induction ks generalizing i with
  | nil => simp [removeNth, wfKids]
  | cons y ys ih =>
    simp only [wfKids, Bool.and_eq_true] at hk
    cases i with
    | zero => simpa [removeNth] using hk.2
    | succ j => simp [removeNth, wfKids, hk.1, ih j hk.2]

theorem modifyNth_isEmpty (f : Elem → Elem) (i : Nat) (ks : List Elem) :
    (modifyNth f i ks).isEmpty = ks.isEmpty := by
  cases ks with
  | nil => cases i <;> rfl
  | cons y ys => cases i <;> rfl

theorem wfKids_modifyNth {m : List (Str × Str)} {ks : List Elem} (g : Elem → Elem) (i : Nat)
    (hk : wfKids m ks = true)
    (hg : ∀ k, nthKid i ks = some k → wfElem m k = true → wfElem m (g k) = true) :
    wfKids m (modifyNth g i ks) = true := by
  induction ks generalizing i with
  | nil => cases i <;> simp [modifyNth, wfKids]
  | cons y ys ih =>
    simp only [wfKids, Bool.and_eq_true] at hk
    cases i with
    | zero => simp [modifyNth, wfKids, hk.2, hg y rfl hk.1]
    | succ j =>
      simp only [modifyNth, wfKids, hk.1, Bool.true_and]
      exact ih j hk.2 (fun k hkn => hg k (by simpa [nthKid] using hkn))

/-! ### one edit at its target -/

theorem fn_preserves_wf (m : List (Str × Str)) (ed : Edit) (t : Elem)
    (hwf : wfElem m t = true) (hok : ed.okAtTarget m t = true) : wfElem m (ed.fn t) = true := by
  cases t with
  | mk tag nsd attrs text tail kids =>
    obtain ⟨h1, h2, h3, h4, h5, h6, h7⟩ := wfElem_iff.mp hwf
    cases ed with
    | setAttr p k v =>
      simp only [Edit.okAtTarget, Bool.and_eq_true] at hok
      simp only [Edit.fn, Elem.setAttr]
      refine wfElem_iff.mpr ⟨h1, h2, ?_, ?_, h5, h6, h7⟩
      · simp only [List.all_eq_true] at h3 ⊢
        intro x hx
        rcases mem_setKV hx with hx | hx
        · exact h3 x hx
        · subst hx; simp [hok.1, hok.2]
      · exact distinctStrs_iff.mpr (setKV_nodup (distinctStrs_iff.mp h4))
    | delAttr p k =>
      simp only [Edit.fn, Elem.delAttr]
      refine wfElem_iff.mpr ⟨h1, h2, ?_, ?_, h5, h6, h7⟩
      · simp only [List.all_eq_true] at h3 ⊢
        intro x hx; exact h3 x (List.mem_filter.mp hx).1
      · exact distinctStrs_iff.mpr
          (List.Nodup.sublist (List.Sublist.map _ List.filter_sublist) (distinctStrs_iff.mp h4))
    | setText p txt =>
      simp only [Edit.okAtTarget] at hok
      simp only [Edit.fn, Elem.setText]
      exact wfElem_iff.mpr ⟨h1, h2, h3, h4, hok, h6, h7⟩
    | insertKid p i kid =>
      simp only [Edit.okAtTarget, Bool.and_eq_true, Option.isNone_iff_eq_none] at hok
      simp only [Edit.fn, Elem.insertKid]
      refine wfElem_iff.mpr ⟨h1, h2, h3, h4, ?_, h6, wfKids_insertNth i h7 hok.2⟩
      rw [hok.1]; rfl
    | removeKid p i =>
      simp only [Edit.fn, Elem.removeKid]
      refine wfElem_iff.mpr ⟨h1, h2, h3, h4, ?_, h6, wfKids_removeNth i h7⟩
      cases text with
      | none => rfl
      | some t =>
        have hk : kids = [] := by
          simp only [textOk, Bool.and_eq_true, List.isEmpty_iff] at h5; exact h5.1.1
        subst hk
        simpa [removeNth] using h5

/-! ### an edit somewhere in the tree -/

theorem editAt_preserves_wf (chk : List (Str × Str) → Elem → Bool) (f : Elem → Elem)
    (hf : ∀ m t, wfElem m t = true → chk m t = true → wfElem m (f t) = true)
    (path : List Nat) (m : List (Str × Str)) (e : Elem)
    (hwf : wfElem m e = true) (hok : okAt m chk path e = true) : wfElem m (editAt path f e) = true := by
  induction path generalizing m e with
  | nil => exact hf m e hwf (by simpa [okAt] using hok)
  | cons i p ih =>
    cases e with
    | mk tag nsd attrs text tail kids =>
      obtain ⟨h1, h2, h3, h4, h5, h6, h7⟩ := wfElem_iff.mp hwf
      simp only [editAt]
      refine wfElem_iff.mpr ⟨h1, h2, h3, h4, ?_, h6, ?_⟩
      · rw [modifyNth_isEmpty]; exact h5
      · apply wfKids_modifyNth _ _ h7
        intro k hk hkwf
        simp only [okAt, hk] at hok
        exact ih _ k hkwf hok

/-- **an accepted edit keeps the document Capella-shaped** -/
theorem edit_preserves_wf (ed : Edit) (d : Doc) (hwf : wfDoc d = true) (hok : ed.ok d = true) :
    wfDoc (ed.apply d) = true := by
  simp only [wfDoc, Bool.and_eq_true] at hwf ⊢
  refine ⟨⟨?_, hwf.1.2⟩, hwf.2⟩
  exact editAt_preserves_wf ed.okAtTarget ed.fn (fun m t h1 h2 => fn_preserves_wf m ed t h1 h2)
    ed.path [] d.root hwf.1.1 hok

/-- … and so does any finite history of accepted edits -/
theorem history_preserves_wf (es : List Edit) (d : Doc) (hwf : wfDoc d = true) (hok : okAll es d = true) :
    wfDoc (applyAll es d) = true := by
  induction es generalizing d with
  | nil => exact hwf
  | cons e es ih =>
    simp only [okAll, Bool.and_eq_true] at hok
    exact ih (e.apply d) (edit_preserves_wf e d hwf hok.1) hok.2

theorem applyAll_append (a b : List Edit) (d : Doc) : applyAll (a ++ b) d = applyAll b (applyAll a d) := by
  induction a generalizing d with
  | nil => rfl
  | cons e es ih => simp [applyAll, ih]

theorem okAll_append (a b : List Edit) (d : Doc) :
    okAll (a ++ b) d = (okAll a d && okAll b (applyAll a d)) := by
  induction a generalizing d with
  | nil => simp [okAll, applyAll]
  | cons e es ih => simp [okAll, applyAll, ih, Bool.and_assoc]

/-! ### the file order is information-equal to the memory order -/

theorem lookupAttr_of_mem {a v : Str} {attrs : List (Str × Str)} (hnd : (keysOf attrs).Nodup)
    (h : (a, v) ∈ attrs) : lookupAttr a attrs = some v := by
  induction attrs with
  | nil => simp at h
  | cons x xs ih =>
    obtain ⟨k, w⟩ := x
    simp only [keysOf, List.map_cons, List.nodup_cons] at hnd
    simp only [lookupAttr]
    rcases List.mem_cons.mp h with h | h
    · simp only [Prod.mk.injEq] at h; simp [h.1, h.2]
    · have hk : k ≠ a := by
        rintro rfl
        exact hnd.1 (by simpa [keysOf] using mem_keysOf.mpr ⟨v, h⟩)
      rw [if_neg hk]; exact ih hnd.2 h

theorem nodup_of_keys_nodup {l : List (Str × Str)} (h : (keysOf l).Nodup) : l.Nodup := by
  induction l with
  | nil => exact List.nodup_nil
  | cons x xs ih =>
    simp only [keysOf, List.map_cons, List.nodup_cons, List.mem_map, not_exists, not_and] at h ⊢
    exact ⟨fun hx => h.1 x hx rfl, ih h.2⟩

theorem specialsOf_perm {attrs : List (Str × Str)} (hnd : (keysOf attrs).Nodup) :
    (specialsOf attrs).Perm (attrs.filter fun kv => specialAttrs.contains kv.1) := by
  apply (List.perm_ext_iff_of_nodup ?_ ?_).mpr
  · intro kv
    obtain ⟨a, v⟩ := kv
    simp only [specialsOf, List.mem_filterMap, Option.map_eq_some_iff, Prod.mk.injEq, List.mem_filter,
      List.contains_eq_mem, decide_eq_true_eq]
    constructor
    · rintro ⟨a', ha', v', hv', rfl, rfl⟩
      exact ⟨lookupAttr_mem hv', ha'⟩
    · rintro ⟨hm, ha⟩
      exact ⟨a, ha, v, lookupAttr_of_mem hnd hm, rfl, rfl⟩
  · apply nodup_of_keys_nodup
    rw [keysOf_specialsOf]
    exact List.Nodup.sublist List.filter_sublist (by decide)
  · exact List.Nodup.sublist List.filter_sublist (nodup_of_keys_nodup hnd)

theorem canonAttrs_perm {attrs : List (Str × Str)} (hnd : (keysOf attrs).Nodup) :
    (canonAttrs attrs).Perm attrs := by
  rw [canonAttrs_eq]
  exact ((specialsOf_perm hnd).append_right _).trans (List.filter_append_perm _ attrs)

theorem canonNs_perm {pns nsd : List (Str × Str)} (h : nsdeclsOk pns nsd = true) (isRoot : Bool)
    (hroot : isRoot = true → pns = []) :
    (canonNs (if isRoot then [] else keysOf pns) (nsd ++ pns)).Perm nsd := by
  obtain ⟨hd, _⟩ := nsdeclsOk_facts h
  unfold canonNs
  refine ((sortNs_perm (nsd ++ pns)).filter _).trans ?_
  rw [List.filter_append]
  have h1 : nsd.filter (fun p => !(if isRoot = true then [] else keysOf pns).contains p.1) = nsd := by
    apply List.filter_eq_self.mpr
    intro x hx
    cases isRoot with
    | true => simp
    | false => simpa using (hd x hx).2.2.2
  have h2 : pns.filter (fun p => !(if isRoot = true then [] else keysOf pns).contains p.1) = [] := by
    cases isRoot with
    | true => rw [hroot rfl]; rfl
    | false =>
      apply List.filter_eq_nil_iff.mpr
      intro x hx
      simpa using mem_keysOf.mpr ⟨x.2, hx⟩
  rw [h1, h2, List.append_nil]

mutual
theorem canonElem_infoEq (pns : List (Str × Str)) (hinv : NsInv pns) (isRoot : Bool)
    (hroot : isRoot = true → pns = []) (e : Elem) (hwf : wfElem pns e = true) :
    InfoEq (canonElem pns isRoot e) e := by
  match e, hwf with
  | .mk tag nsd attrs text tail kids, hwf =>
    obtain ⟨hns, _, _, hnd, hkids⟩ := wfElem_facts hwf
    obtain ⟨hsc, hinvW⟩ := hinv.scope hns
    unfold canonElem InfoEq
    rw [hsc]
    refine ⟨rfl, ?_, canonAttrs_perm hnd, rfl, rfl, ?_⟩
    · exact canonNs_perm hns isRoot hroot
    · exact canonKids_infoEq (nsd ++ pns) hinvW kids (by rw [← hsc]; exact hkids)

theorem canonKids_infoEq (m : List (Str × Str)) (hinv : NsInv m) (ks : List Elem)
    (hwf : wfKids m ks = true) : InfoEqL (canonKids m ks) ks := by
  match ks, hwf with
  | [], _ => simp [canonKids, InfoEqL]
  | k :: ks', hwf =>
    simp only [wfKids, Bool.and_eq_true] at hwf
    simp only [canonKids, InfoEqL]
    exact ⟨canonElem_infoEq m hinv false (by simp) k hwf.1, canonKids_infoEq m hinv ks' hwf.2⟩
end

/-- **the document in file order carries the same information** -/
theorem canonDoc_infoEq (d : Doc) (hwf : wfDoc d = true) : InfoEqDoc (canonDoc d) d := by
  simp only [wfDoc, Bool.and_eq_true] at hwf
  exact ⟨rfl, canonElem_infoEq [] NsInv.nil true (fun _ => rfl) d.root hwf.1.1, rfl⟩

end Capella.Xml
