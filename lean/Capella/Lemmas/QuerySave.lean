import Capella.Model.QuerySave
import Capella.Lemmas.Query

/-! Lemmas for `Capella/Model/QuerySave.lean` (type index across `save()`). -/
namespace Capella.Query

theorem mem_insertIdx (idx : Index) (xt : Str) (i : Nat) (x : Str) (j : Nat) :
    (∃ p ∈ insertIdx idx xt i, p.1 = x ∧ j ∈ p.2) ↔ ((∃ p ∈ idx, p.1 = x ∧ j ∈ p.2) ∨ (x = xt ∧ j = i)) := by
  induction idx with
  | nil => simp [insertIdx]; intro _; exact eq_comm
  | cons p rest ih =>
    unfold insertIdx
    by_cases h : p.1 = xt
    · rw [if_pos h]
      simp only [List.mem_cons, exists_eq_or_imp, List.mem_append, List.not_mem_nil, or_false]
      constructor
      · rintro (⟨h1, h2 | h2⟩ | h3)
        · exact Or.inl (Or.inl ⟨h1, h2⟩)
        · exact Or.inr ⟨h1 ▸ h.symm ▸ rfl, h2⟩
        · exact Or.inl (Or.inr h3)
      · rintro ((⟨h1, h2⟩ | h3) | ⟨h4, h5⟩)
        · exact Or.inl ⟨h1, Or.inl h2⟩
        · exact Or.inr h3
        · exact Or.inl ⟨h4 ▸ h, Or.inr h5⟩
    · rw [if_neg h]
      simp only [List.mem_cons, exists_eq_or_imp]
      rw [ih]
      constructor
      · rintro (h1 | h2 | h3)
        · exact Or.inl (Or.inl h1)
        · exact Or.inl (Or.inr h2)
        · exact Or.inr h3
      · rintro ((h1 | h2) | h3)
        · exact Or.inl h1
        · exact Or.inr (Or.inl h2)
        · exact Or.inr (Or.inr h3)

theorem flat_insertIdx_perm (idx : Index) (xt : Str) (i : Nat) :
    ((insertIdx idx xt i).flatMap (·.2)).Perm (i :: idx.flatMap (·.2)) := by
  induction idx with
  | nil => simp [insertIdx]
  | cons p rest ih =>
    unfold insertIdx
    by_cases h : p.1 = xt
    · rw [if_pos h]
      simp only [List.flatMap_cons, List.append_assoc]
      exact (List.perm_middle).trans (List.Perm.refl _) |>.symm |>.symm
    · rw [if_neg h]
      simp only [List.flatMap_cons]
      exact ((List.Perm.append_left p.2 ih).trans List.perm_middle)

theorem mem_foldl_insertIdx (items : List (Nat × Str)) (acc : Index) (x : Str) (j : Nat) :
    (∃ p ∈ items.foldl (fun idx it => insertIdx idx it.2 it.1) acc, p.1 = x ∧ j ∈ p.2) ↔
      ((∃ p ∈ acc, p.1 = x ∧ j ∈ p.2) ∨ (j, x) ∈ items) := by
  induction items generalizing acc with
  | nil => simp
  | cons it rest ih =>
    simp only [List.foldl_cons, List.mem_cons]
    rw [ih, mem_insertIdx]
    constructor
    · rintro ((h | ⟨h1, h2⟩) | h)
      · exact Or.inl h
      · exact Or.inr (Or.inl (by rw [h1, h2]))
      · exact Or.inr (Or.inr h)
    · rintro (h | h | h)
      · exact Or.inl (Or.inl h)
      · exact Or.inl (Or.inr ⟨(Prod.mk.inj h).2, (Prod.mk.inj h).1⟩)
      · exact Or.inr h

theorem flat_foldl_insertIdx_perm (items : List (Nat × Str)) (acc : Index) :
    ((items.foldl (fun idx it => insertIdx idx it.2 it.1) acc).flatMap (·.2)).Perm
      (acc.flatMap (·.2) ++ items.map (·.1)) := by
  induction items generalizing acc with
  | nil => simp
  | cons it rest ih =>
    simp only [List.foldl_cons, List.map_cons]
    refine (ih _).trans ?_
    refine ((flat_insertIdx_perm acc it.2 it.1).append_right _).trans ?_
    exact (List.perm_middle).symm

/-- a rebuilt index lists exactly the typed elements of the walk, each once -/
theorem rebuildOf_exact (items : List (Nat × Str)) : FragExact (rebuildOf items) items where
  mem_iff := by
    intro xt i
    unfold rebuildOf
    rw [mem_foldl_insertIdx]
    simp
  perm := by
    unfold rebuildOf
    simpa using flat_foldl_insertIdx_perm items []

theorem afterSave_exact (replaced : Bool) (old : Index) (items : List (Nat × Str))
    (h : replaced = false → FragExact old items) : FragExact (afterSave replaced old items) items := by
  unfold afterSave
  cases replaced with
  | true => simpa using rebuildOf_exact items
  | false => simpa using h rfl

theorem mem_typedItems (nodes : List Node) (i : Nat) (xt : Str) :
    (i, xt) ∈ typedItems nodes ↔ ∃ n, nodes[i]? = some n ∧ n.sem = true ∧ n.xtype = xt ∧ xt ≠ [] := by
  unfold typedItems
  simp only [List.mem_filterMap]
  constructor
  · rintro ⟨⟨n, k⟩, hm, hf⟩
    have hk := List.mem_zipIdx_iff_getElem?.mp hm
    by_cases hc : (n.sem && !n.xtype.isEmpty) = true
    · simp only [hc, if_true, Option.some.injEq, Prod.mk.injEq] at hf
      obtain ⟨rfl, rfl⟩ := hf
      simp only [Bool.and_eq_true, Bool.not_eq_true', List.isEmpty_eq_false_iff] at hc
      exact ⟨n, by simpa using hk, hc.1, rfl, hc.2⟩
    · simp [hc] at hf
  · rintro ⟨n, hn, hs, hx, hne⟩
    refine ⟨(n, i), List.mem_zipIdx_iff_getElem?.mpr (by simpa using hn), ?_⟩
    have : (n.sem && !n.xtype.isEmpty) = true := by
      simp only [Bool.and_eq_true, Bool.not_eq_true', List.isEmpty_eq_false_iff]
      exact ⟨hs, hx ▸ hne⟩
    simp [hx, hs, hne]

theorem typedItems_nodup (nodes : List Node) : ((typedItems nodes).map (·.1)).Nodup := by
  unfold typedItems
  have hsub : ((nodes.zipIdx.filterMap (fun p => if p.1.sem && !p.1.xtype.isEmpty then some (p.2, p.1.xtype) else none)).map (·.1)).Sublist
      (nodes.zipIdx.map (·.2)) := by
    generalize nodes.zipIdx = l
    induction l with
    | nil => simp
    | cons a rest ih =>
      simp only [List.filterMap_cons, List.map_cons]
      split
      · exact ih.cons _
      · rename_i b hb
        split at hb
        · cases hb; exact ih.cons_cons _
        · cases hb
  refine hsub.nodup ?_
  rw [List.zipIdx_map_snd]
  exact List.nodup_range'

theorem perm_flatMap_pointwise {α β : Type} (l : List α) (f g : α → List β) (h : ∀ a ∈ l, (f a).Perm (g a)) :
    (l.flatMap f).Perm (l.flatMap g) := by
  induction l with
  | nil => simp
  | cons a rest ih =>
    simp only [List.flatMap_cons]
    exact (h a (by simp)).append (ih (fun b hb => h b (by simp [hb])))

/-- after `save()`: fragments whose root was replaced carry a rebuilt index, the others kept an index
that was exact; together they are consistent with the trees -/
theorem savedIndex_consistent' (nodes : List Node) (frs : List SavedFragment)
    (hkept : ∀ f ∈ frs, f.replaced = false → FragExact f.old f.items)
    (hcover : (frs.flatMap (·.items)).Perm (typedItems nodes)) :
    IndexConsistent nodes (savedIndex frs) where
  mem_iff := by
    intro xt i
    have hex : ∀ f ∈ frs, FragExact (afterSave f.replaced f.old f.items) f.items :=
      fun f hf => afterSave_exact _ _ _ (hkept f hf)
    rw [← mem_typedItems, ← hcover.mem_iff]
    unfold savedIndex
    simp only [List.mem_flatMap]
    constructor
    · rintro ⟨p, ⟨f, hf, hp⟩, h1, h2⟩
      exact ⟨f, hf, ((hex f hf).mem_iff xt i).mp ⟨p, hp, h1, h2⟩⟩
    · rintro ⟨f, hf, hi⟩
      obtain ⟨p, hp, h1, h2⟩ := ((hex f hf).mem_iff xt i).mpr hi
      exact ⟨p, ⟨f, hf, hp⟩, h1, h2⟩
  nodup := by
    have hex : ∀ f ∈ frs, FragExact (afterSave f.replaced f.old f.items) f.items :=
      fun f hf => afterSave_exact _ _ _ (hkept f hf)
    unfold savedIndex
    rw [List.flatMap_assoc]
    have h1 := perm_flatMap_pointwise frs (fun f => (afterSave f.replaced f.old f.items).flatMap (·.2))
      (fun f => f.items.map (·.1)) (fun f hf => (hex f hf).perm)
    refine h1.nodup_iff.mpr ?_
    have h2 : (frs.flatMap (fun f => f.items.map (·.1))) = (frs.flatMap (·.items)).map (·.1) := by
      rw [List.map_flatMap]
    rw [h2]
    exact (hcover.map _).nodup_iff.mpr (typedItems_nodup nodes)

theorem mem_foldl_insertNew (items : List (Nat × Str)) (acc : List Str) (s : Str) :
    s ∈ items.foldl (fun a it => insertNew a (nsPrefix it.2)) acc ↔ (s ∈ acc ∨ ∃ it ∈ items, nsPrefix it.2 = s) := by
  induction items generalizing acc with
  | nil => simp
  | cons it rest ih =>
    simp only [List.foldl_cons, List.mem_cons, exists_eq_or_imp]
    rw [ih]
    have hm : s ∈ insertNew acc (nsPrefix it.2) ↔ (s ∈ acc ∨ nsPrefix it.2 = s) := by
      unfold insertNew
      split
      · rename_i hc
        constructor
        · exact Or.inl
        · rintro (h | h)
          · exact h
          · exact h ▸ (List.contains_iff_mem.mp hc)
      · simp only [List.mem_append, List.mem_singleton]
        exact or_congr Iff.rfl eq_comm
    rw [hm, or_assoc]

theorem mem_neededPrefixes (items : List (Nat × Str)) (s : Str) :
    s ∈ neededPrefixes items ↔ (s = "xmi".toList ∨ s = "xsi".toList ∨ ∃ it ∈ items, nsPrefix it.2 = s) := by
  unfold neededPrefixes
  rw [mem_foldl_insertNew]
  simp only [List.mem_cons, List.not_mem_nil, or_false, or_assoc]

theorem sameSet_iff (a b : List Str) : sameSet a b = true ↔ ∀ s, s ∈ a ↔ s ∈ b := by
  unfold sameSet
  simp only [Bool.and_eq_true, List.all_eq_true, List.contains_iff_mem]
  constructor
  · rintro ⟨h1, h2⟩ s
    exact ⟨h1 s, h2 s⟩
  · intro h
    exact ⟨fun s hs => (h s).mp hs, fun s hs => (h s).mpr hs⟩

/-- an index entry that points at no node of the trees (an element that was taken out of the tree but
not out of the index) makes the index inconsistent -/
theorem orphan_inconsistent (nodes : List Node) (idx : Index) (xt : Str) (i : Nat)
    (ho : nodes.length ≤ i) (hm : ∃ p ∈ idx, p.1 = xt ∧ i ∈ p.2) : ¬ IndexConsistent nodes idx := by
  intro hc
  obtain ⟨n, hn, _⟩ := (hc.mem_iff xt i).mp hm
  have : i < nodes.length := by
    rcases Nat.lt_or_ge i nodes.length with h | h
    · exact h
    · rw [List.getElem?_eq_none h] at hn; cases hn
  omega

end Capella.Query
