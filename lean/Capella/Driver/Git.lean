import Capella.Driver.Util
import Capella.Model.Git
import Capella.Model.GitPush
import Capella.Model.GitPrepared
/-! Protocol driver for the git-transaction model (C16): ops `git.run`, `git.objectlike`.
An element of `txns` is a whole `with handler.write_transaction(**opts): body` (no key `step`), or one step of a
history of prepared transaction objects: `"step": "create"` (options; the object joins the pool if it is not refused)
or `"step": "run"` (`"tx"`: index into the pool, `"fault"`, `"body"`). -/
namespace Capella.Driver.Git
open Lean Capella.Driver Capella.Git

def natsJson (l : List Nat) : Json := Json.arr (l.map (fun (n : Nat) => (Json.num (n : Nat)))).toArray

def parseTree (j : Json) : Except String (Tree String) := do
  let a ← j.getArr?
  a.toList.mapM (fun (e : Json) => do
    let x ← e.getArr?
    let p ← (x[0]!).getStr?
    let c ← fromJson? (α := Array Nat) (x[1]!)
    pure (p, c.toList))

def parseOp (_sub : String) (j : Json) : Except String (Op String) := do
  let a ← j.getArr?
  let k ← (a[0]!).getStr?
  match k with
  | "raise" => pure .raise
  | "nested" => pure .nested
  | _ =>
    let p ← (a[1]!).getStr?
    let c ← fromJson? (α := Array Nat) (a[2]!)
    match k with
    | "w" => pure (.write p c.toList)
    | "wp" => pure (.writeAbort p c.toList)
    | "open" => pure (.openOnly p c.toList)
    | "wign" => pure (.writeIgnored p c.toList)
    | "wnodir" => pure (.writeNoDir p)
    | _ => throw s!"unknown op {k}"

def errName : Err → String
  | .abort => "abort" | .gitfail => "gitfail" | .objectlike => "objectlike"
  | .alreadyOpen => "alreadyOpen" | .nodir => "nodir" | .needsTxn => "needsTxn"

def cmdName : Cmd String → String
  | .revParseHead => "rev-parse HEAD" | .revParseSym => "rev-parse --symbolic-full-name HEAD"
  | .revParseRev => "rev-parse <revision>"
  | .add p => s!"add {p}" | .writeTree => "write-tree" | .catFile => "cat-file" | .commitTree => "commit-tree"
  | .resetSoft => "reset --soft" | .updateRef t => s!"update-ref {String.ofList t}" | .resetHard => "reset --hard"
  | .clean => "clean"
  | .revParseTarget t => s!"rev-parse --verify --quiet {String.ofList t}" | .push t => s!"push {String.ofList t}"

def sortPairs (l : List (String × Json)) : List (String × Json) :=
  (l.toArray.qsort (fun a b => a.1 < b.1)).toList

def treeJson (univ : List String) (get : String → Option Bytes) : Json :=
  Json.arr ((sortPairs (univ.filterMap (fun p => (get p).map (fun c => (p, natsJson c))))).map
    (fun e => Json.arr #[Json.str e.1, e.2])).toArray

def commitJson (c : Commit String) : Json :=
  Json.arr #[(match c.parent with | some p => Json.num (p : Nat) | none => Json.null),
             treeJson (c.tree.map (·.1)).eraseDups c.tree.get]

def refsJson (refs : List (Str × Nat)) : Json :=
  Json.arr ((sortPairs (refs.map (fun r => (String.ofList r.1, Json.num (r.2 : Nat))))).map
    (fun r => Json.arr #[Json.str r.1, r.2])).toArray

def stateJson (n0 : Nat) (univ : List String) (s : St String) (e : Option Err) (rem : Option Remote := none) : Json :=
  Json.mkObj [
    ("remote", match rem with | none => Json.null | some r => refsJson r),
    ("newcommits", Json.arr ((s.commits.drop n0).map commitJson).toArray),
    ("refs", Json.arr ((sortPairs (s.refs.map (fun r => (String.ofList r.1, Json.num (r.2 : Nat))))).map
      (fun r => Json.arr #[Json.str r.1, r.2])).toArray),
    ("head", Json.num (s.head : Nat)),
    ("index", treeJson univ s.index.get),
    ("files", treeJson univ s.files),
    ("err", match e with | none => Json.null | some e => Json.str (errName e)),
    ("trace", Json.arr (s.trace.reverse.map (fun c => Json.str (cmdName c))).toArray),
    ("ncommits", Json.num (s.commits.length : Nat))]

def handle (op : String) (j : Json) : Except String Json := do
  match op with
  | "git.objectlike" =>
    let names ← j.getObjValAs? (Array String) "names"
    pure (Json.arr (names.map (fun n => Json.bool (objectLike n.toList))))
  | "git.run" =>
    let commitsJ ← j.getObjValAs? (Array Json) "commits"
    let commits ← commitsJ.toList.mapM (fun (c : Json) => do
      let parent := (c.getObjValAs? Nat "parent").toOption
      let tree ← parseTree (← c.getObjVal? "tree")
      pure ({ parent := parent, tree := tree } : Commit String))
    let st ← j.getObjVal? "state"
    let refsJ ← st.getObjValAs? (Array Json) "refs"
    let refs ← refsJ.toList.mapM (fun (r : Json) => do
      let a ← r.getArr?
      pure ((← (a[0]!).getStr?).toList, ← (a[1]!).getNat?))
    let remote0 : Option Remote := match st.getObjValAs? (Array Json) "remote" with
      | .ok a => (a.toList.mapM (fun (r : Json) => do
          let x ← r.getArr?
          pure ((← (x[0]!).getStr?).toList, ← (x[1]!).getNat?))).toOption
      | .error _ => none
    let head ← st.getObjValAs? Nat "head"
    let index ← parseTree (← st.getObjVal? "index")
    let files ← parseTree (← st.getObjVal? "files")
    let rev ← j.getObjValAs? String "revision"
    let sub ← j.getObjValAs? String "subdir"
    let subp := if sub = "" then "" else sub ++ "/"
    let txnsJ ← j.getObjValAs? (Array Json) "txns"
    let mut s : St String := { commits := commits, refs := refs, head := head, index := index,
                               files := Tree.get files, txnOpen := false, calls := 0, trace := [] }
    let mut univ : List String := ((files.map (·.1)) ++ (index.map (·.1))).eraseDups
    let mut outs : Array Json := #[]
    let mut rem : Remote := remote0.getD []
    let mut pool : Array Txn := #[]
    for t in txnsJ do
      let stepKind := (t.getObjValAs? String "step").toOption
      if stepKind == some "run" then
        let fault := (t.getObjValAs? Nat "fault").toOption
        let i ← t.getObjValAs? Nat "tx"
        let bodyJ ← t.getObjValAs? (Array Json) "body"
        let body ← bodyJ.toList.mapM (parseOp subp)
        for o in body do
          match o with
          | .write p _ | .writeAbort p _ | .openOnly p _ | .writeIgnored p _ => univ := if p ∈ univ then univ else p :: univ
          | _ => pure ()
        match pool[i]? with
        | none => throw s!"no transaction object {i}"
        | some tx =>
          let r := enterRun fault rev.toList tx body { s with calls := 0, trace := [] } rem
          s := r.1.1
          rem := r.2
          outs := outs.push (stateJson commits.length univ s r.1.2 (remote0.map (fun _ => rem)))
        continue
      let dry ← t.getObjValAs? Bool "dry"
      let ie ← t.getObjValAs? Bool "ignore_empty"
      let rb := (t.getObjValAs? String "remote_branch").toOption
      let fault := (t.getObjValAs? Nat "fault").toOption
      let bodyJ ← t.getObjValAs? (Array Json) "body"
      let body ← bodyJ.toList.mapM (parseOp subp)
      for o in body do
        match o with
        | .write p _ | .writeAbort p _ | .openOnly p _ | .writeIgnored p _ => univ := if p ∈ univ then univ else p :: univ
        | _ => pure ()
      let o : Opts := { dry := dry, ignoreEmpty := ie, remoteBranch := rb.map String.toList }
      let push := (t.getObjValAs? Bool "push").toOption.getD false
      let declines := (t.getObjValAs? Bool "remote_declines").toOption.getD false
      -- without a remote (`remote0 = none`) every push is declined: there is no `origin`
      let po : PushOpts := { push := push, declines := declines || remote0.isNone }
      if stepKind == some "create" then
        match create none rev.toList o po s with
        | (s', .ok tx) =>
          s := s'
          pool := pool.push tx
          outs := outs.push (stateJson commits.length univ s none (remote0.map (fun _ => rem)))
        | (s', .error e) =>
          s := s'
          outs := outs.push (stateJson commits.length univ s (some e) (remote0.map (fun _ => rem)))
        continue
      let r := transactionPush fault rev.toList o po body s rem
      s := r.1.1
      rem := r.2
      outs := outs.push (stateJson commits.length univ s r.1.2 (remote0.map (fun _ => rem)))
    pure (Json.arr outs)
  | _ => throw s!"unknown op {op}"

end Capella.Driver.Git

/-- `lake env lean --run Capella/Driver/Git.lean` -/
def main : IO Unit := Capella.Driver.runLoop Capella.Driver.Git.handle
