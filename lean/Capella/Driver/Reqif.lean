import Capella.Driver.Util
import Capella.Model.Reqif
import Capella.Model.ReqifXml
/-! Line-protocol driver for the ReqIF exporter model (C20).

ops:
* `export`  : `{"module": <module>, "xhtml": [[raw, converted|null], …]}` → `{"err": "assertion"|"parser"}` or the document
* `decide`  : `{"target": null|"<path>", "compress": null|true|false}` → `{"compress": bool, "old": bool}`
* `tables`  : the standard attribute tables of the model
* `tree`    : `{"module", "xhtml", "env": {default_comment, now, tool_id, source_tool_id}, "metadata": {comment, title, creation_time}}`
              → `{"err": …}` or `{"tree": <element>, "idents": […], "refs": […]}`; an element is
              `{"t": tag, "a": [[name, value], …], "x": text|null, "c": [<element>, …]}` or `{"raw": canonical xhtml}`
-/
namespace Capella.Driver.Reqif
open Lean Capella.Driver Capella.Reqif

def optObj (j : Json) (k : String) : Option Json :=
  match j.getObjVal? k with
  | .ok .null => none
  | .ok v => some v
  | .error _ => none

def parseEnumValue (j : Json) : Except String EnumValue := do
  pure { uuid := ← getStr j "uuid", longName := ← getStr j "long_name", description := ← getStr j "description" }

def parseDataType (j : Json) : Except String DataType := do
  let vs ← j.getObjValAs? (Array Json) "values"
  let isEnum := match j.getObjValAs? Bool "is_enum" with | .ok b => b | .error _ => true
  pure { uuid := ← getStr j "uuid", longName := ← getStr j "long_name", values := ← vs.toList.mapM parseEnumValue,
         isEnum := isEnum }

def parseAttrDef (j : Json) : Except String AttrDef := do
  let dt ← match optObj j "data_type" with
    | some d => (some <$> parseDataType d)
    | none => pure none
  pure { uuid := ← getStr j "uuid", longName := ← getStr j "long_name", description := ← getStr j "description",
         isEnum := ← getBool j "is_enum", multiValued := ← getBool j "multi_valued", dataType := dt }

def parseValue (j : Json) : Except String Value := do
  let k ← j.getObjValAs? String "k"
  match k with
  | "bool" => pure (.bool (← getBool j "v"))
  | "date" => match optObj j "v" with
    | some (.str s) => pure (.date (some s.toList))
    | some _ => throw "date: string expected"
    | none => pure (.date none)
  | "int" => pure (.int (← getInt j "v"))
  | "real" =>
    let inf ← getInt j "inf"
    if inf > 0 then pure (.real .posInf) else if inf < 0 then pure (.real .negInf)
    else pure (.real (.fin (← getStr j "repr")))
  | "string" => pure (.string (← getStr j "v"))
  | "enum" => pure (.enum (← getStrList j "v"))
  | _ => throw s!"unknown value kind {k}"

def parseAttr (j : Json) : Except String Attr := do
  let d ← match optObj j "def" with
    | some d => (some <$> parseAttrDef d)
    | none => pure none
  pure { defn := d, value := ← parseValue (← j.getObjVal? "value") }

def parseReq (j : Json) : Except String Req := do
  let t ← match optObj j "type" with
    | some t => pure (some { uuid := ← getStr t "uuid", longName := ← getStr t "long_name",
                             description := ← getStr t "description" : ReqType })
    | none => pure none
  let attrs ← j.getObjValAs? (Array Json) "attrs"
  pure { uuid := ← getStr j "uuid", longName := ← getStr j "long_name", identifier := ← getStr j "identifier",
         chapterName := ← getStr j "chapter_name", name := ← getStr j "name", text := ← getStr j "text",
         type := t, attrs := ← attrs.toList.mapM parseAttr }

partial def parseFolder (j : Json) : Except String Folder := do
  let reqs ← j.getObjValAs? (Array Json) "reqs"
  let fs ← j.getObjValAs? (Array Json) "folders"
  pure (.mk (← reqs.toList.mapM parseReq) (← fs.toList.mapM parseFolder))

/-- the observed iteration order of the sets: per requirement type key the `(definition uuid, kind)` pairs -/
def parseOrder (j : Json) : Except String (List (Option Str × List (Option Str × Str))) := do
  match optObj j "set_order" with
  | none => pure []
  | some o =>
    let rows ← o.getArr?
    rows.toList.mapM fun r => do
      let k := (optObj r "type").bind fun v => match v with | .str s => some s.toList | _ => none
      let ds ← r.getObjValAs? (Array Json) "defs"
      let ds ← ds.toList.mapM fun d => do
        let u := (optObj d "def").bind fun v => match v with | .str s => some s.toList | _ => none
        pure (u, ← getStr d "kind")
      pure (k, ds)

def indexOf? {α : Type} [DecidableEq α] (a : α) : List α → Nat
  | [] => 0
  | b :: l => if a = b then 0 else indexOf? a l + 1

/-- the rearrangement of a set described by the observed order (keys that were not observed go last) -/
def orderFrom (obs : List (Option Str × List (Option Str × Str))) (k : Option Str) (l : List ADKey) : List ADKey :=
  match obs.find? (fun r => r.1 = k) with
  | none => l
  | some r =>
    let pos (x : ADKey) : Nat := indexOf? (x.1.map (·.uuid), x.2.name) r.2
    sortBy (fun a b => pos a ≤ pos b) l

theorem orderFrom_perm (obs) (k : Option Str) (l : List ADKey) : (orderFrom obs k l).Perm l := by
  unfold orderFrom
  split
  · exact .refl _
  · exact sortBy_perm _ _

def parseModule (j : Json) : Except String Reqif.Module := do
  let obs ← parseOrder j
  let t ← match optObj j "type" with
    | some t => pure (some { uuid := ← getStr t "uuid", longName := ← getStr t "long_name" : ModType })
    | none => pure none
  let reqs ← j.getObjValAs? (Array Json) "reqs"
  let fs ← j.getObjValAs? (Array Json) "folders"
  pure { modelUuid := ← getStr j "model_uuid", uuid := ← getStr j "uuid", longName := ← getStr j "long_name",
         description := ← getStr j "description", type := t,
         reqs := ← reqs.toList.mapM parseReq, folders := ← fs.toList.mapM parseFolder,
         setOrder := orderFrom obs, setOrder_perm := orderFrom_perm obs }

def parseXhtml (j : Json) : Except String (Str → Option Str) := do
  let rows ← j.getObjValAs? (Array Json) "xhtml"
  let tbl ← rows.toList.mapM fun r => do
    let a ← (r.getArr?)
    match a.toList with
    | [.str raw, .str conv] => pure (raw.toList, some conv.toList)
    | [.str raw, .null] => pure (raw.toList, (none : Option Str))
    | _ => throw "xhtml row"
  pure fun s => match tbl.find? (fun r => r.1 = s) with
    | some r => r.2
    | none => some ('?' :: s)      -- a lookup the harness did not anticipate shows up in the diff

def jopt (o : Option Str) : Json := match o with | some s => jstr s | none => .null
def jid (i : Reqif.Ident) : Json := jstr i.render
def jkind (k : Kind) : Json := jstr k.name

def jbool? (o : Option Bool) : Json := match o with | some b => .bool b | none => .null

def jAttrDef (rt : Option Str) (a : AttrDefEl) : Json :=
  Json.mkObj [("id", jid (a.ident rt)), ("kind", jkind a.kind), ("long_name", jopt a.longName), ("desc", jopt a.desc),
    ("multi_valued", jbool? a.multiValued), ("dt_ref", jid a.dtRef)]

def jStdAttrDef (owner : Str → Reqif.Ident) (x : Str × Kind) : Json :=
  Json.mkObj [("id", jid (owner x.1)), ("kind", jkind x.2), ("long_name", jstr ("ReqIF.".toList ++ x.1)), ("desc", .null),
    ("multi_valued", .null), ("dt_ref", jid (.stdDatatype x.1))]

def jSpecType (t : SpecTypeEl) : Json :=
  Json.mkObj [("id", jid (sotIdent t.rt)), ("long_name", jopt t.longName), ("desc", jopt t.desc),
    ("std", Json.arr (t.std.map (jStdAttrDef (.stdAttr t.rt))).toArray),
    ("custom", Json.arr (t.custom.map (jAttrDef t.rt)).toArray)]

def jSpecificationType (t : SpecificationTypeEl) : Json :=
  Json.mkObj [("id", jid (stIdent t.mt)), ("long_name", jopt t.longName), ("desc", jopt t.desc),
    ("std", Json.arr (t.std.map (jStdAttrDef (.stdSpecAttr t.mt))).toArray), ("custom", Json.arr #[])]

def jStdValue (owner : Str → Reqif.Ident) (v : StdValueEl) : Json :=
  Json.mkObj [("kind", jkind v.kind), ("def_ref", jid (owner v.name)), ("the_value", jopt v.theValue),
    ("enum_refs", Json.arr #[])]

def jAttrValue (rt : Option Str) (v : AttrValueEl) : Json :=
  Json.mkObj [("kind", jkind v.kind), ("def_ref", jid (.attrDef rt v.ad v.kind)), ("the_value", jopt v.theValue),
    ("enum_refs", Json.arr (v.enumRefs.map (fun u => jid (.obj u))).toArray)]

def jDatatype (d : DatatypeEl) : Json :=
  Json.mkObj [("id", jid d.key.ident), ("kind", jkind d.kind), ("long_name", jopt d.longName),
    ("values", match d.values with
      | none => .null
      | some vs => Json.arr (vs.map fun v =>
          Json.mkObj [("id", jid (.obj v.uuid)), ("long_name", jopt v.longName), ("desc", jopt v.desc)]).toArray)]

def jDoc (d : Doc) : Json :=
  Json.mkObj [
    ("header_id", jid (.obj d.headerUuid)),
    ("datatypes", Json.arr (d.datatypes.map jDatatype).toArray),
    ("spec_types", Json.arr (d.specTypes.map jSpecType).toArray),
    ("specification_type", jSpecificationType d.specificationType),
    ("spec_objects", Json.arr (d.specObjects.map fun o =>
      Json.mkObj [("id", jid (.obj o.uuid)), ("long_name", jopt o.longName),
        ("values", Json.arr ((o.std.map (jStdValue (.stdAttr o.rt))) ++ o.attrs.map (jAttrValue o.rt)).toArray),
        ("type_ref", jid (sotIdent o.rt))]).toArray),
    ("specification", Json.mkObj [
      ("id", jid (.obj d.specification.uuid)), ("long_name", jopt d.specification.longName),
      ("desc", jopt d.specification.desc), ("type_ref", jid (stIdent d.specification.mt)),
      ("values", Json.arr (d.specification.values.map (jStdValue (.stdSpecAttr d.specification.mt))).toArray),
      ("children", Json.arr (d.specification.children.map fun h =>
        Json.mkObj [("id", jid (.hier h.uuid)), ("obj_ref", jid (.obj h.uuid))]).toArray)]),
    ("defs", Json.arr (d.defs.map jid).toArray),
    ("refs", Json.arr (d.refs.map jid).toArray)]

def optStr (j : Json) (k : String) : Option Str :=
  match optObj j k with
  | some (.str s) => some s.toList
  | _ => none

partial def jXml : Xml → Json
  | .raw s => Json.mkObj [("raw", jstr s)]
  | .el t a x c => Json.mkObj [("t", jstr t), ("a", Json.arr (a.map fun p => Json.arr #[jstr p.1, jstr p.2]).toArray),
      ("x", jopt x), ("c", Json.arr (c.map jXml).toArray)]

def parseEnv (j : Json) : Except String Env := do
  pure { defaultComment := ← getStr j "default_comment", now := ← getStr j "now", toolId := ← getStr j "tool_id",
         sourceToolId := ← getStr j "source_tool_id" }

def parseMetadata (j : Json) : Metadata :=
  { comment := optStr j "comment", title := optStr j "title", creationTime := optStr j "creation_time" }

def handle (op : String) (j : Json) : Except String Json := do
  match op with
  | "export" =>
    let m ← parseModule (← j.getObjVal? "module")
    let x ← parseXhtml j
    match «export» x m with
    | .error .assertion => pure (Json.mkObj [("err", "assertion")])
    | .error .parser => pure (Json.mkObj [("err", "parser")])
    | .error .attribute => pure (Json.mkObj [("err", "AttributeError")])
    | .ok d => pure (Json.mkObj [("doc", jDoc d), ("dfs", jstrs (m.dfs.map (·.uuid)))])
  | "tree" =>
    let m ← parseModule (← j.getObjVal? "module")
    let x ← parseXhtml j
    let e ← parseEnv (← j.getObjVal? "env")
    let md := parseMetadata ((optObj j "metadata").getD (Json.mkObj []))
    match exportXml x e md m with
    | .error .assertion => pure (Json.mkObj [("err", "assertion")])
    | .error .parser => pure (Json.mkObj [("err", "parser")])
    | .error .attribute => pure (Json.mkObj [("err", "AttributeError")])
    | .ok t => pure (Json.mkObj [("tree", jXml t), ("idents", jstrs t.idents), ("refs", jstrs t.refTexts)])
  | "decide" =>
    let t : Target := match optObj j "target" with
      | some (.str p) => .path p.toList
      | _ => .stream
    let c : Option Bool := match optObj j "compress" with
      | some (.bool b) => some b
      | _ => none
    pure (Json.mkObj [("compress", .bool (compressDecision t c)), ("old", .bool (compressDecisionOld t c))])
  | "tables" =>
    pure (Json.mkObj [
      ("spec_object", Json.arr (stdSpecObjectAttrs.map fun x =>
        Json.arr #[jstr x.1, jkind x.2.1, Json.str (reprStr x.2.2)]).toArray),
      ("specification", Json.arr (stdSpecificationAttrs.map fun x => Json.arr #[jstr x.1, jkind x.2]).toArray)])
  | _ => throw s!"unknown op {op}"

end Capella.Driver.Reqif

/-- `lake env lean --run Capella/Driver/Reqif.lean` -/
def main : IO Unit := Capella.Driver.runLoop Capella.Driver.Reqif.handle
