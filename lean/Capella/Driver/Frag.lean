import Capella.Driver.Util
import Capella.Model.Frag
namespace Capella.Driver.Frag
open Lean Capella.Driver Capella.Frag

def optStr (j : Json) : Except String (Option Str) :=
  match j with
  | Json.null => pure none
  | Json.str s => pure (some s.toList)
  | _ => throw "bad optional string"

def jopt (o : Option Str) : Json := match o with | some s => jstr s | none => Json.null

/-- `[key, tag, xt|null, [kids…]]` -/
partial def getTree (j : Json) : Except String Tree := do
  let a ← (fromJson? j : Except String (Array Json))
  match a.toList with
  | [k, tag, xt, kids] =>
    let ks ← (fromJson? kids : Except String (Array Json))
    let kids ← ks.toList.mapM getTree
    pure (.node (← fromJson? k) (← fromJson? tag : String).toList (← optStr xt) kids)
  | _ => throw "bad tree node"

partial def jFNode : FNode → Json
  | .elem k tag xt kids => Json.arr #[Json.str "elem", Json.num k, jstr tag, jopt xt, Json.arr (kids.map jFNode).toArray]
  | .href tag xt k => Json.arr #[Json.str "href", jstr tag, jopt xt, Json.num k]

def jobs (o : Obs) : Json := Json.arr #[jstr o.1, Json.num o.2.1, jopt o.2.2]
def jkeys (l : List Key) : Json := Json.arr (l.map (fun (k : Nat) => Json.num (JsonNumber.fromNat k))).toArray
def jo {α : Type} (f : α → Json) : Option α → Json
  | some a => Json.mkObj [("r", f a)]
  | none => Json.mkObj [("e", Json.str "KeyError")]

def getXts (j : Json) : Except String (List (Option Str)) := do
  let a ← (fromJson? j : Except String (Array Json))
  a.toList.mapM optStr

def query (st : Store) (fuel : Nat) (q : Json) : Except String Json := do
  let a ← (fromJson? q : Except String (Array Json))
  match a.toList with
  | [Json.str "files"] => pure (Json.arr (st.files.map jFNode).toArray)
  | [Json.str "children", k, xts] =>
    pure (jo (fun l => Json.arr (l.map (fun p => Json.arr #[Json.num p.1, jopt p.2])).toArray)
      (childrenXt st (← getXts xts) (← fromJson? k)))
  | [Json.str "desc", k, tags] =>
    let tags ← (fromJson? tags : Except String (Array String))
    pure (jo (fun l => Json.arr (l.map jobs).toArray)
      (descendants st fuel (tags.toList.map String.toList) (← fromJson? k)))
  | [Json.str "descxt", k, xts] =>
    pure (jo (fun l => Json.arr (l.map jobs).toArray) (descendantsXt st fuel (← getXts xts) (← fromJson? k)))
  | [Json.str "parent", k] =>
    pure (match fparent st (← fromJson? k) with | some p => Json.num p | none => Json.null)
  | [Json.str "ancestors", k] => pure (jkeys (ancestors st fuel (← fromJson? k)))
  | [Json.str "search", b, xts] => pure (jkeys (searchBelow st fuel (← getXts xts) (← fromJson? b)))
  | [Json.str "fileof", k] =>
    pure (match fileOf st (← fromJson? k) with | some p => Json.num p | none => Json.null)
  | [Json.str "raw", k] => pure (jo jkeys (rawChildren st (← fromJson? k)))
  | _ => throw "unknown query"

def handle (op : String) (j : Json) : Except String Json := do
  match op with
  | "frag.run" =>
    let t ← getTree (← j.getObjVal? "tree")
    let cutl ← j.getObjValAs? (Array Nat) "cut"
    let cuts := cutl.toList
    let fuel ← getNat j "fuel"
    let st := split (fun k => cuts.contains k) t
    let qs ← j.getObjValAs? (Array Json) "queries"
    let rs ← qs.toList.mapM (query st fuel)
    pure (Json.arr rs.toArray)
  | "frag.fuel" =>
    let t ← getTree (← j.getObjVal? "tree")
    pure (Json.num (fuelT t))
  | _ => throw s!"unknown op {op}"

end Capella.Driver.Frag

/-- `lake env lean --run Capella/Driver/Frag.lean` -/
def main : IO Unit := Capella.Driver.runLoop Capella.Driver.Frag.handle
