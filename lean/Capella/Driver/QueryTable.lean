import Capella.Driver.Util
import Capella.Model.QueryTable
import Capella.Gen.Hier
import Capella.Gen.HierRels
namespace Capella.Driver.QueryTable
open Lean Capella.Driver Capella.Query Capella.QTable

abbrev S := Capella.Query.Str

def optNat (j : Json) (k : String) : Option Nat :=
  match j.getObjVal? k with
  | .ok v => (v.getNat?).toOption
  | _ => none

def strOr (j : Json) (k : String) : S :=
  match j.getObjValAs? String k with
  | .ok s => s.toList
  | _ => []

def boolOr (j : Json) (k : String) (d : Bool) : Bool :=
  match j.getObjValAs? Bool k with
  | .ok b => b
  | _ => d

def parseAttrs (j : Json) : Except String Attrs := do
  let arr ← j.getArr?
  arr.toList.mapM (fun kv => do
    let k ← (← kv.getArrVal? 0).getStr?
    let v ← (← kv.getArrVal? 1).getStr?
    pure (k.toList, v.toList))

def parseNode (j : Json) : Except String Node := do
  let attrs ← match j.getObjVal? "attrs" with
    | .ok a => parseAttrs a
    | _ => pure []
  pure { uid := strOr j "id", tag := strOr j "tag", xtype := strOr j "xt", attrs := attrs,
         parent := optNat j "p", sem := boolOr j "sem" true, placeholder := boolOr j "ph" false,
         visual := boolOr j "visual" false }

def jnat (n : Nat) : Json := Json.num (JsonNumber.fromNat n)
def jnats (l : List Nat) : Json := Json.arr (l.map jnat).toArray
def jS (s : String) : Json := Json.str s

def tnameS (i : Nat) : String := (Gen.Hier.typeNames[i]?).getD ""
def tname (i : Nat) : S := (tnameS i).toList

/-- the relations of an element by its type name; unregistered / no type = the generic wrapper -/
def classFor (xt : S) : Option ClassRels :=
  let s := String.ofList xt
  match Gen.HierRels.classes.find? (fun c => c.xt == s && c.xt != "") with
  | some c => some c
  | none => Gen.HierRels.classes.find? (fun c => c.xt == "")

def trelsFor (xt : S) : List TRel :=
  match classFor xt with
  | some c => trelsOf Gen.HierRels.rows c
  | none => []

def jrefsT (l : List (Nat × S × Option Nat)) : Json :=
  Json.arr (l.map (fun x => Json.arr #[jnat x.1, jstr x.2.1,
    match x.2.2 with | some k => jnat k | none => Json.num (JsonNumber.fromInt (-1))])).toArray

def jkind : RKind → Json
  | .attr a => Json.arr #[jS "attr", jS a]
  | .child t x f => Json.arr #[jS "child", jS t, jS x, jS f]
  | .typecast t => Json.arr #[jS "typecast", jS t]
  | .index w i => Json.arr #[jS "index", jS w, jnat i]
  | .alias t => Json.arr #[jS "alias", jS t]
  | .acc c => Json.arr #[jS "acc", jS c]

def handle (op : String) (j : Json) : Except String Json := do
  match op with
  | "tables" =>
    -- the generated tables as the driver reads them, for the round trip against the live classes
    let hs := Gen.Hier.handlers.map (fun h => Json.arr #[jS (tnameS h.xt), jnat h.cls, jnats h.supers,
      match h.built with | some x => jS (tnameS x) | none => Json.null])
    let bs := Gen.Hier.backrefs.map (fun b => Json.mkObj [("owner", jS b.owner), ("name", jS b.name),
      ("targets", jnats b.targets), ("builts", Json.arr (b.builts.map (fun x => match x with
        | some x => jS (tnameS x) | none => Json.null)).toArray),
      ("attrs", Json.arr (b.attrs.map jS).toArray), ("aslist", Json.bool b.aslist),
      ("candidates", Json.arr ((candidates Gen.Hier.handlers b).map (fun x => jS (tnameS x))).toArray)])
    let cs := Gen.HierRels.classes.map (fun c => Json.mkObj [("xt", jS c.xt), ("rels", Json.arr (c.rels.map (fun p =>
      match rowAt Gen.HierRels.rows p.1, rowAt Gen.HierRels.rows p.2 with
      | some r, some t => Json.arr #[jS r.name, jkind r.kind, Json.bool r.aslist, jS t.name]
      | _, _ => Json.null)).toArray)])
    pure (Json.mkObj [
      ("type_names_ok", Json.bool (Gen.Hier.typeNames.all typeNameOk)),
      ("handlers", Json.arr hs.toArray), ("backrefs", Json.arr bs.toArray), ("classes", Json.arr cs.toArray)])
  | "findrefsT" =>
    let nodes ← (← (← j.getObjVal? "nodes").getArr?).toList.mapM parseNode
    let trelArr := (nodes.map (fun n => trelsFor n.xtype)).toArray
    let trels : Nat → List TRel := fun i => trelArr.getD i []
    let targets ← getStrList j "targets"
    let ys := targets.map (fun u => lookupId nodes u)
    let table : Array (List (TRel × Option (List Nat))) :=
      ((List.range nodes.length).map (fun i => (trels i).map (fun t => (t, viewTargets nodes i t)))).toArray
    let val : Nat → TRel → Option (List Nat) := fun i t =>
      match (table.getD i []).find? (fun e => e.1 == t) with
      | some e => e.2
      | none => viewTargets nodes i t
    pure (Json.mkObj [
      ("results", Json.arr (ys.map (fun y => match y with
        | some y => jrefsT (findRefsTV nodes val trels y) | none => Json.null)).toArray),
      ("brute", Json.arr (ys.map (fun y => match y with
        | some y => jrefsT (bruteRefsTV nodes val trels y) | none => Json.null)).toArray),
      ("nrels", jnat ((List.range nodes.length).foldl (fun acc i => acc + (trels i).length) 0))])
  | "backrefT" =>
    let nodes ← (← (← j.getObjVal? "nodes").getArr?).toList.mapM parseNode
    let idx ← (← (← j.getObjVal? "index").getArr?).toList.mapM (fun e => do
      let xt ← (← e.getArrVal? 0).getStr?
      let is ← (← (← e.getArrVal? 1).getArr?).toList.mapM (fun n => n.getNat?)
      pure (xt.toList, is))
    let trelArr := (nodes.map (fun n => trelsFor n.xtype)).toArray
    let trels : Nat → List TRel := fun i => trelArr.getD i []
    let qs ← (← j.getObjVal? "queries").getArr?
    let answers ← qs.toList.mapM (fun q => do
      let y ← getNat q "y"
      let owner ← q.getObjValAs? String "owner"
      let name ← q.getObjValAs? String "name"
      match Gen.Hier.backrefs.find? (fun b => b.owner == owner && b.name == name) with
      | none => pure (Json.str "no-such-row")
      | some b =>
        match backrefGet nodes idx trels tname Gen.Hier.handlers b y with
        | none => pure (Json.str "raises")
        | some (.list l) => pure (Json.mkObj [("list", jnats l)])
        | some (.one none) => pure (Json.mkObj [("one", Json.null)])
        | some (.one (some x)) => pure (Json.mkObj [("one", jnat x)]))
    pure (Json.arr answers.toArray)
  | _ => throw s!"unknown op {op}"

end Capella.Driver.QueryTable

/-- `lake env lean --run Capella/Driver/QueryTable.lean` -/
def main : IO Unit := Capella.Driver.runLoop Capella.Driver.QueryTable.handle
