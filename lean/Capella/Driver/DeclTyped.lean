import Capella.Driver.Util
import Capella.Model.DeclTyped
import Capella.Gen.Pods
/-!
Protocol driver for typed find keys (`Model/DeclTyped.lean`).

op `typed`: `{row: index into Gen.Pods.podTable, value: val, repair: str|null, fofint: str|null,
exact: bool, localize: [y,mo,d,h,mi,s,us,off]|null}` →
`{kind, twice: "found"|"creates-again"|"rejected:<Err>", finds: bool, keyOk: bool, norm: val}`.
val: `{t:"none"}|{t:"bool",v}|{t:"int",v:"<decimal>"}|{t:"float",v:"<repr>"}|{t:"str",v}|
{t:"naive",v:"<id>"}|{t:"aware",f:[y,mo,d,h,mi,s,us,off]}`.

Oracles (what CPython/libxml2 do, parameters of the model as in C07): `repair` = `helpers.repair_html(v)`
of the one HTML value of the request; `fofint` = `repr(float(i))` of the one int of the request (null =
OverflowError), `exact` = `float(i) == i`; `localize` = `astimezone()` of the one naive value. Floats are
identified by their `repr` (`float(repr(x)) == x`); the datetime codec is the concrete one of C07.
-/
namespace Capella.Driver.DeclTyped
open Lean Capella.Driver Capella.Pods Capella.DeclTyped

def floatOfRepr (s : Str) : FloatV Str :=
  if s = "nan".toList then .nan else if s = "inf".toList then .inf
  else if s = "-inf".toList then .ninf else .fin s

def reprOfFloat : FloatV Str → Str
  | .nan => "nan".toList | .inf => "inf".toList | .ninf => "-inf".toList | .fin s => s

def isZeroRepr (s : Str) : Bool := s = "0.0".toList || s = "-0.0".toList

def optStr (j : Json) (k : String) : Option Str :=
  match j.getObjVal? k with
  | .ok (.str s) => some s.toList
  | _ => none

def dtOfArr (j : Json) : Except String DT := do
  match (← fromJson? (α := Array Int) j).toList with
  | [y, mo, d, h, mi, sc, us, off] => pure ⟨y.toNat, mo.toNat, d.toNat, h.toNat, mi.toNat, sc.toNat, us.toNat, off⟩
  | _ => throw "bad datetime fields"

def baseP (o : Json) : Params :=
  { F := Str
    fZero := "0.0".toList
    fRepr := id
    fParse := fun s => some (floatOfRepr s)
    fOfInt := fun _ => optStr o "fofint"
    fIsZero := isZeroRepr
    N := Str
    T := Unit
    localize := fun _ => none
    iso := fun _ => []
    fromIso := fun _ => none
    truncMs := id
    isoOk := fun _ => false
    repair := fun s => if s.isEmpty then some [] else optStr o "repair"
    xhtml := false
    escLinked := some
    unescLinked := id }

def localizeOf (o : Json) : Str → Option DT := fun _ =>
  match o.getObjVal? "localize" with
  | .ok j => (dtOfArr j).toOption
  | .error _ => none

def mkP (o : Json) : Params := withDT (baseP o) (localizeOf o) (fun _ => none)

def mkC (o : Json) : Cmp (mkP o) :=
  let exact := (o.getObjValAs? Bool "exact").toOption.getD false
  dtCmp (baseP o) (localizeOf o) (fun _ => none)
    (fun (x y : Str) => decide (x = y) || (isZeroRepr x && isZeroRepr y))
    (fun (x : Str) (i : Int) => if isZeroRepr x then decide (i = 0) else exact && decide (optStr o "fofint" = some x))
    (fun (a b : Str) => decide (a = b))

def valOf (o : Json) (j : Json) : Except String (PyVal (mkP o)) := do
  let t ← j.getObjValAs? String "t"
  match t with
  | "none" => pure .none
  | "bool" => pure (.bool (← getBool j "v"))
  | "int" =>
    let s ← j.getObjValAs? String "v"
    match s.toInt? with
    | some i => pure (.int i)
    | none => throw s!"bad int {s}"
  | "float" => pure (.float (floatOfRepr (← getStr j "v")))
  | "str" => pure (.str (← getStr j "v"))
  | "naive" => pure (.naive (← getStr j "v"))
  | "aware" => pure (.aware (← dtOfArr (← j.getObjVal? "f")))
  | "other" => pure .other
  | x => throw s!"unknown value type {x}"

def valJson (o : Json) : PyVal (mkP o) → Json
  | .none => Json.mkObj [("t", "none")]
  | .bool b => Json.mkObj [("t", "bool"), ("v", b)]
  | .int i => Json.mkObj [("t", "int"), ("v", toString i)]
  | .float f => Json.mkObj [("t", "float"), ("v", jstr (reprOfFloat f))]
  | .str s => Json.mkObj [("t", "str"), ("v", jstr s)]
  | .member _ n _ => Json.mkObj [("t", "member"), ("name", jstr n)]
  | .naive n => Json.mkObj [("t", "naive"), ("v", jstr n)]
  | .aware t => Json.mkObj [("t", "aware"), ("f", Json.arr #[Json.num t.y, Json.num t.mo, Json.num t.d, Json.num t.h,
      Json.num t.mi, Json.num t.s, Json.num t.us, Json.num (Lean.JsonNumber.fromInt t.off)])]
  | .selector r => Json.mkObj [("t", "selector"), ("v", jstr r)]
  | .other => Json.mkObj [("t", "other")]

def errName : Err → String
  | .typeError => "TypeError" | .valueError => "ValueError" | .keyError => "KeyError"
  | .assertionError => "AssertionError" | .attributeError => "AttributeError"
  | .overflowError => "OverflowError" | .unsupported => "Unsupported"

def kindName : Kind → String
  | .string => "string" | .html => "html" | .bool => "bool" | .int => "int" | .float => "float"
  | .datetime => "datetime" | .selector => "selector" | .enum _ _ => "enum" | .other _ => "other"

def handle (op : String) (j : Json) : Except String Json := do
  match op with
  | "typed" =>
    let i ← getNat j "row"
    match Capella.Gen.Pods.podTable[i]? with
    | none => throw s!"no table row {i}"
    | some r =>
      let d := r.desc
      let v ← valOf j (← j.getObjVal? "value")
      let tw := match syncTwice (mkP j) (mkC j) d [] v with
        | .found => "found" | .createsAgain => "creates-again" | .rejected e => "rejected:" ++ errName e
      pure (Json.mkObj [("kind", kindName d.kind), ("cls", r.cls), ("pyname", r.pyname), ("twice", tw),
        ("finds", findsOwn (mkP j) (mkC j) d [] v), ("keyOk", keyOk (mkP j) (mkC j) d v),
        ("norm", valJson j (norm (mkP j) d [] v))])
  | _ => throw s!"unknown op {op}"

end Capella.Driver.DeclTyped

/-- `lake env lean --run Capella/Driver/DeclTyped.lean` -/
def main : IO Unit := Capella.Driver.runLoop Capella.Driver.DeclTyped.handle
