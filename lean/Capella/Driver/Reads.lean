import Capella.Driver.Util
import Capella.Model.Reads
namespace Capella.Driver.Reads
open Lean Capella.Driver Capella.Reads

/-- optional string field: absent or `null` = `none` -/
def optStr (j : Json) (k : String) : Option Str :=
  match j.getObjVal? k with
  | .ok (Json.str s) => some s.toList
  | _ => none

def jopt (o : Option Str) : Json := match o with | some s => jstr s | none => Json.null

def cs (x : String) : Str := x.toList

/-- build the smallest state in which the factory for one diagram element runs -/
def factoryState (kind : String) (j : Json) : Except String (State × DElem) := do
  let name := optStr j "name"
  let nameA : Attrs := match name with | some n => [(kName, n)] | none => []
  match kind with
  | "reqrel" =>
    let rt ← j.getObjValAs? String "rt"
    let ln := optStr j "longname"
    let relA : Attrs := match rt with
      | "absent" => []
      | "dangling" => [(kRelType, cs "#dead")]
      | _ => [(kRelType, cs "#t")]
    let tA : Attrs := match ln with | some l => [(kLongName, l)] | none => []
    let sem : List Elem := [⟨cs "x", cs "CapellaIncomingRelation", nameA ++ relA⟩] ++
      (if rt == "real" then [⟨cs "t", cs "RelationType", tA⟩] else [])
    let e : DElem := ⟨cs "e", cs "CapellaIncomingRelation", cs "x", none, []⟩
    pure (⟨sem, [⟨cs "d", [e]⟩]⟩, e)
  | "incext" =>
    let e : DElem := ⟨cs "e", cs "AbstractCapabilityExtend", cs "x", optStr j "dname", []⟩
    pure (⟨[⟨cs "x", cs "AbstractCapabilityExtend", nameA⟩], [⟨cs "d", [e]⟩]⟩, e)
  | "pseudo" =>
    let st : Attrs := match optStr j "wp" with | some w => [(kWp, w)] | none => []
    let e : DElem := ⟨cs "e", cs "ChoicePseudoState", cs "x", none, st⟩
    pure (⟨[⟨cs "x", cs "ChoicePseudoState", nameA⟩], [⟨cs "d", [e]⟩]⟩, e)
  | k => throw s!"unknown factory kind {k}"

def observe (v : Variant) (s : State) : Json :=
  let r := render v s (cs "d")
  let p := r.2.head?
  let styleAfter : Option Str := match findDiagram r.1.dgs (cs "d") with
    | some dg => (dg.elems.head?).bind (fun e => aget e.style kWp)
    | none => none
  Json.mkObj [
    ("label", match p with | some q => jstr q.label | none => Json.null),
    ("symbol", match p with | some q => Json.bool q.symbol | none => Json.null),
    ("name_after", jopt (view r.1.sem (cs "x") kName)),
    ("wp_after", jopt styleAfter),
    ("state_changed", Json.bool (decide (r.1 ≠ s)))]

def parseAttrs (j : Json) : Except String Attrs := do
  let arr ← j.getArr?
  arr.toList.mapM (fun kv => do
    let k ← (← kv.getArrVal? 0).getStr?
    let v ← (← kv.getArrVal? 1).getStr?
    pure (k.toList, v.toList))

def parseElem (j : Json) : Except String Elem := do
  let uid ← getStr j "id"
  let xt ← getStr j "xt"
  let attrs ← parseAttrs (← j.getObjVal? "attrs")
  pure ⟨uid, xt, attrs⟩

def parseOp (j : Json) : Except String ReadOp := do
  let o ← j.getObjValAs? String "o"
  match o with
  | "attr" => pure (.attr (← getStr j "u") (← getStr j "k"))
  | "has" => pure (.has (← getStr j "u"))
  | "dump" => pure (.dump (← getStr j "u"))
  | "search" => pure (.search (← getStrList j "xts"))
  | "refsTo" => pure (.refsTo (← getStr j "u"))
  | "render" => pure (.render (← getStr j "d"))
  | _ => throw s!"unknown read op {o}"

def jattrs (a : Attrs) : Json := Json.arr (a.map (fun kv => Json.arr #[jstr kv.1, jstr kv.2])).toArray

def jout : Out → Json
  | .str o => jopt o
  | .bool b => Json.bool b
  | .attrs none => Json.null
  | .attrs (some a) => jattrs a
  | .ids l => jstrs l
  | .pic p => Json.arr (p.map (fun q => Json.mkObj [("uid", jstr q.uid), ("label", jstr q.label),
      ("symbol", Json.bool q.symbol)])).toArray

def handle (op : String) (j : Json) : Except String Json := do
  match op with
  | "run" =>
    let sem ← (← (← j.getObjVal? "sem").getArr?).toList.mapM parseElem
    let ops ← (← (← j.getObjVal? "ops").getArr?).toList.mapM parseOp
    let s : State := ⟨sem, []⟩
    let r := run .repaired s ops
    pure (Json.mkObj [("outs", Json.arr (r.2.map jout).toArray), ("changed", Json.bool (decide (r.1 ≠ s)))])
  | "factory" =>
    let kind ← j.getObjValAs? String "kind"
    let (s, _) ← factoryState kind j
    pure (Json.mkObj [("repaired", observe .repaired s), ("coded", observe .coded s)])
  | "pvmt.apply2" =>
    let groups ← getStrList j "groups"
    let name ← getStr j "name"
    let gs : List PVGroup := groups.map (fun n => ⟨n, []⟩)
    let d : PVGroup := ⟨name, [(cs "default", cs "1")]⟩
    let a := pvmtApply gs d
    let b := pvmtApply a.1 d
    pure (Json.mkObj [
      ("after1", jstrs (a.1.map (·.name))),
      ("after2", jstrs (b.1.map (·.name))),
      ("same", Json.bool (decide (b.1 = a.1) && decide (a.2 = b.2)))])
  | _ => throw s!"unknown op {op}"

end Capella.Driver.Reads

/-- `lake env lean --run Capella/Driver/Reads.lean` -/
def main : IO Unit := Capella.Driver.runLoop Capella.Driver.Reads.handle
