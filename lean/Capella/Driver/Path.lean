import Capella.Driver.Util
import Capella.Model.Path
import Capella.Model.Quote
import Capella.Model.Http
import Capella.Model.Symlink
namespace Capella.Driver.Path
open Lean Capella.Driver Capella.Path

def handlerOf : String → Except String Handler
  | "local" => pure .localDir | "memory" => pure .memory | "zip" => pure .zip
  | "git" => pure .git | "http" => pure .http | "glart" => pure .glart
  | h => throw s!"unknown handler {h}"

def handle (op : String) (j : Json) : Except String Json := do
  match op with
  | "path.mk" =>
    let args ← getStrList j "args"
    let p := mkPath args
    pure (Json.mkObj [("root", jstr p.root), ("parts", jstrs p.parts)])
  | "path.normalize" =>
    let base ← getStrList j "base"
    let path ← getStrList j "path"
    pure (jstrs (normalize base path))
  | "path.relpath" =>
    let path ← getStrList j "path"
    let start ← getStrList j "start"
    pure (jstrs (relpath path start))
  | "path.resolve" =>
    let dir ← getStrList j "dir"
    let ref ← getStrList j "ref"
    pure (jstrs (resolve dir ref))
  | "path.target" =>
    let h ← handlerOf (← j.getObjValAs? String "handler")
    let sd ← getStr j "subdir"
    let n ← getStr j "name"
    pure (jstrs (target h sd n))
  | "path.joinpath" =>
    let self ← getStrList j "self"
    let p ← getStr j "path"
    pure (jstrs (joinpath self p))
  | "path.tmp" =>
    let parts ← getStrList j "parts"
    pure (jstrs (tmpPath parts))
  | "quote" =>
    let s ← j.getObjValAs? String "s"
    let safe ← getBool j "slash_safe"
    pure (jstr (Capella.Quote.quote safe (utf8 s)))
  | "path.physical" =>
    -- {"links": [[[parts…], "target"], …], "root": [parts…], "handler": h, "subdir": sd, "name": n, "fuel": k}
    let linksJ ← j.getObjValAs? (Array Json) "links"
    let links ← linksJ.toList.mapM (fun (e : Json) => do
      let a ← e.getArr?
      let loc ← fromJson? (α := Array String) (a[0]!)
      let t ← (a[1]!).getStr?
      pure (loc.toList.map String.toList, t.toList))
    let root ← getStrList j "root"
    let h ← handlerOf (← j.getObjValAs? String "handler")
    let sd ← getStr j "subdir"
    let n ← getStr j "name"
    let fuel ← j.getObjValAs? Nat "fuel"
    match physical links fuel root h sd n with
    | some r => pure (jstrs r)
    | none => pure (Json.str "ELOOP")
  | "http.request" =>
    let path ← getStr j "path"
    let sd ← getStr j "subdir"
    let n ← getStr j "name"
    match Capella.Http.request path sd n with
    | .url u => pure (Json.mkObj [("url", jstr u)])
    | .valueError => pure (Json.mkObj [("err", Json.str "ValueError")])
    | .keyError c => pure (Json.mkObj [("err", Json.str ("KeyError:%" ++ String.singleton c))])
  | "unquote" =>
    let s ← getStr j "s"
    pure (Json.arr ((Capella.Quote.unquote s).map (fun b => Json.num b.toNat)).toArray)
  | _ => throw s!"unknown op {op}"

end Capella.Driver.Path

/-- `lake env lean --run Capella/Driver/Path.lean` -/
def main : IO Unit := Capella.Driver.runLoop Capella.Driver.Path.handle
