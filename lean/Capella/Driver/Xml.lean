import Capella.Driver.Util
import Capella.Model.Xml
import Capella.Model.XmlParse
import Capella.Model.XmlSpec
import Capella.Model.XmlEdit
import Capella.Model.XmlNsUpdate
import Capella.Model.XmlLoose
import Capella.Model.XmlBytes
import Capella.Model.XmlWide
import Capella.Gen.Ns
namespace Capella.Driver.Xml
open Lean Capella.Driver Capella.Xml

def optStr (j : Json) : Except String (Option (List Char)) :=
  match j with
  | .null => pure none
  | .str s => pure (some s.toList)
  | _ => throw "expected string or null"

def pairs (j : Json) : Except String (List (List Char × List Char)) := do
  let a ← j.getArr?
  a.toList.mapM fun p => do
    let k ← (← p.getArrVal? 0).getStr?
    let v ← (← p.getArrVal? 1).getStr?
    pure (k.toList, v.toList)

/-- element = `[tag, [[prefix, uri]…], [[name, value]…], text|null, tail|null, [kids…]]` -/
partial def elemOf (j : Json) : Except String Elem := do
  let tag ← (← j.getArrVal? 0).getStr?
  let ns ← pairs (← j.getArrVal? 1)
  let attrs ← pairs (← j.getArrVal? 2)
  let text ← optStr (← j.getArrVal? 3)
  let tail ← optStr (← j.getArrVal? 4)
  let kids ← (← (← j.getArrVal? 5).getArr?).toList.mapM elemOf
  pure (.mk tag.toList ns attrs text tail kids)

def commentOf (j : Json) : Except String Comment := do
  let t ← (← j.getArrVal? 0).getStr?
  let tl ← optStr (← j.getArrVal? 1)
  pure ⟨t.toList, tl⟩

/-- document = `{"pre": [[text, tail]…], "root": element, "post": […]}` -/
def docOf (j : Json) : Except String Doc := do
  let pre ← (← (← j.getObjVal? "pre").getArr?).toList.mapM commentOf
  let post ← (← (← j.getObjVal? "post").getArr?).toList.mapM commentOf
  let root ← elemOf (← j.getObjVal? "root")
  pure ⟨pre, root, post⟩

def jopt : Option (List Char) → Json
  | none => .null
  | some s => jstr s

def jpairs (l : List (List Char × List Char)) : Json :=
  Json.arr (l.map fun p => Json.arr #[jstr p.1, jstr p.2]).toArray

partial def elemJson : Elem → Json
  | .mk tag ns attrs text tail kids =>
    Json.arr #[jstr tag, jpairs ns, jpairs attrs, jopt text, jopt tail,
      Json.arr (kids.map elemJson).toArray]

def errName : Err → String
  | .assertion => "AssertionError" | .value => "ValueError" | .key => "KeyError"

def clsOf : String → Except String (Char → Bool)
  | "text" => pure isEscText | "comments" => pure isEscComments | "gt" => pure isEscGt
  | c => throw s!"unknown class {c}"

def escOf : String → Except String (List Char → List Char)
  | "content" => pure escapeContent
  | c => do let cls ← clsOf c; pure (escape cls)

def kindOf : String → Except String FragKind
  | "semantic" => pure .semantic | "visual" => pure .visual | "other" => pure .other
  | k => throw s!"unknown kind {k}"

def nsErrName : NsErr → String
  | .unsupportedPlugin => "UnsupportedPluginError" | .unsupportedVersion => "UnsupportedPluginVersionError"
  | .ambiguous => "RuntimeError" | .valueError => "ValueError" | .viewpointMissing => "CorruptModelError"
  | .assertion => "AssertionError" | .noMetadata => "RuntimeError" | .keyError => "KeyError"
  | .childDeclares => "unmodelled:child-declares" | .needsFixup => "unmodelled:needs-fixup"

def docJson (d : Doc) : Json :=
  let cj (c : Comment) : Json := Json.arr #[jstr c.text, jopt c.tail]
  Json.mkObj [("pre", Json.arr (d.pre.map cj).toArray), ("root", elemJson d.root),
    ("post", Json.arr (d.post.map cj).toArray)]

def optElem (j : Json) : Except String (Option Elem) :=
  match j with
  | .null => pure none
  | _ => do pure (some (← elemOf j))

def editOf (j : Json) : Except String Edit := do
  let path ← j.getObjValAs? (List Nat) "path"
  match (← j.getObjValAs? String "edit") with
  | "setAttr" => do pure (Edit.setAttr path (← getStr j "name") (← getStr j "value"))
  | "delAttr" => do pure (Edit.delAttr path (← getStr j "name"))
  | "setText" => do pure (Edit.setText path (← optStr (← j.getObjVal? "value")))
  | "insertKid" => do pure (Edit.insertKid path (← getNat j "index") (← elemOf (← j.getObjVal? "kid")))
  | "removeKid" => do pure (Edit.removeKid path (← getNat j "index"))
  | e => throw s!"unknown edit {e}"

/-- index of the first edit of a script that is not accepted (`Edit.ok`) in the document it meets -/
def firstBad : List Edit → Doc → Nat → Option Nat
  | [], _, _ => none
  | e :: es, d, i => if e.ok d then firstBad es (e.apply d) (i + 1) else some i

/-- node = element `[tag, ns, attrs, text, tail, [nodes…]]` or content-only node `["#", text, tail]` -/
partial def nodeOf (j : Json) : Except String Node := do
  let a ← j.getArr?
  if a.size == 3 then
    let t ← (← j.getArrVal? 1).getStr?
    let tl ← optStr (← j.getArrVal? 2)
    pure (.com t.toList tl)
  else
    let tag ← (← j.getArrVal? 0).getStr?
    let ns ← pairs (← j.getArrVal? 1)
    let attrs ← pairs (← j.getArrVal? 2)
    let text ← optStr (← j.getArrVal? 3)
    let tail ← optStr (← j.getArrVal? 4)
    let kids ← (← (← j.getArrVal? 5).getArr?).toList.mapM nodeOf
    pure (.el tag.toList ns attrs text tail kids)

def werrName : WErr → String
  | .writer e => errName e | .typeError => "TypeError"

/-- column after writing `s` from column `p` (the driver's own copy of `Lemmas/XmlLayout.colAfter`) -/
def colAfterD : Nat → List Char → Nat
  | p, [] => p
  | p, c :: s => if c = '\n' then colAfterD 0 s else colAfterD (p + 1) s

def handle (op : String) (j : Json) : Except String Json := do
  match op with
  | "xml.wide" =>
    -- the statements of the widened round-trip theorems (`Props/C01`: writer_reads_only_the_view, parse_ser_wide,
    -- leaf_tails_lost, ser_idempotent_wide), evaluated on one document
    let ll ← getNat j "ll"
    let d ← docOf (← j.getObjVal? "doc")
    let out := serialize ll true [] true d
    let file := declare "utf-8".toList ++ out
    let wfW := wfDocW d
    let wfV := wfDocV d
    let lossy := !wfW
    let rb := readBack lossy d
    let p := parse file
    let parseOk := match p with | some r => Doc.beq r rb | none => false
    let idem := match p with | some r => serialize ll true [] true r == out | none => false
    pure (Json.mkObj [("wfW", wfW), ("wfV", wfV), ("collapses", collapsesE d.root),
      ("loses_tail", losesTailE true d.root),
      ("view_same_bytes", serialize ll true [] true (viewDoc false d) == out && serialize ll true [] true (viewDoc true d) == out),
      ("parse_is_readback", if wfV then Json.bool parseOk else Json.null),
      ("idem", if wfV then Json.bool idem else Json.null),
      ("readback", if wfV then docJson rb else Json.null)])
  | "xml.serializeN" =>
    let ll ← getNat j "ll"
    let sib ← getBool j "siblings"
    let pre ← (← (← j.getObjVal? "pre").getArr?).toList.mapM commentOf
    let post ← (← (← j.getObjVal? "post").getArr?).toList.mapM commentOf
    let root ← nodeOf (← j.getObjVal? "root")
    match serializeN ll sib [] true pre root post with
    | .error e => pure (Json.mkObj [("raises", werrName e), ("has_inner", root.hasCom)])
    | .ok o => pure (Json.mkObj [("out", jstr o), ("has_inner", root.hasCom)])
  | "xml.stag" =>
    -- the statement of `stag_column_exact` on the start tag of a parentless element
    let ll ← getNat j "ll"
    let pos ← getNat j "pos"
    let e ← elemOf (← j.getObjVal? "elem")
    let nsmap := scope [] e.nsdecls
    let tagS := unmap nsmap e.tag
    let ws := unmappedAttrs [] nsmap e.attrs
    let r := serAttrs ll 4 true ws (pos + 1 + utf8Len tagS) false
    let col := colAfterD pos ('<' :: tagS ++ r.1)
    let broke := r.1.contains '\n'
    let surplus := utf8Len tagS - tagS.length
    pure (Json.mkObj [("pos", r.2), ("col", col), ("broke", broke), ("surplus", surplus),
      ("formula", r.2 == col + (if broke then 0 else surplus)), ("out", jstr ('<' :: tagS ++ r.1))])
  | "xml.encode" =>
    -- `s.encode("utf-8")` and the width the writer adds for a tag
    let s ← getStr j "s"
    pure (Json.mkObj [("bytes", Json.arr ((encodeUtf8 s).map fun (n : Nat) => Json.num (JsonNumber.fromNat n)).toArray),
      ("width", utf8Len s), ("chars", s.length)])
  | "xml.history" =>
    -- C02: an observed step of an API history as a script of modelled edits: the contract `okAll` the theorems
    -- assume, and whether the script really leads from the tree before to the tree after
    let d ← docOf (← j.getObjVal? "doc")
    let after ← docOf (← j.getObjVal? "after")
    let es ← (← (← j.getObjVal? "edits").getArr?).toList.mapM editOf
    let bad := firstBadE es d 0
    pure (Json.mkObj [("ok", okAllE es d), ("ok_strict", okAll es d), ("same", Doc.beq (applyAll es d) after),
      ("first_bad", match bad with | some i => Json.num (JsonNumber.fromNat i) | none => Json.null)])
  | "xml.updateNs" =>
    -- `ModelFile.update_namespaces(viewpoints)` with the live plugin table
    let d ← docOf (← j.getObjVal? "doc")
    let vps ← pairs (← j.getObjVal? "vps")
    match updateNs Capella.Gen.Ns.plugins vps d with
    | .error e => pure (Json.mkObj [("raises", nsErrName e)])
    | .ok d' =>
      let n := match newNsmap Capella.Gen.Ns.plugins vps d.root with | .ok n => n | .error _ => []
      let kind (x : Item) : String :=
        match ask Capella.Gen.Ns.plugins vps x.2.1 x.2.2 with
        | .ok .nothing => "nothing" | .ok (.fixed _) => "fixed"
        | .ok (.lookup ns) => if (lookupNs ns x.1).isSome then "lookup-found" else "lookup-missing"
        | .error _ => "error"
      let asks := ((iterS [] d.root).map kind).eraseDups
      pure (Json.mkObj [("doc", docJson d'), ("nsmap", jpairs (sortKV n)),
        ("replaced", !(dictEq d.root.nsdecls n)), ("asks", Json.arr (asks.map Json.str).toArray)])
  | "xml.updateAll" =>
    -- `MelodyLoader.update_namespaces()`: viewpoints from the .afm root, every semantic fragment
    let afm ← optElem (← j.getObjVal? "afm")
    let frags ← (← (← j.getObjVal? "frags").getArr?).toList.mapM fun f => do
      let k ← kindOf (← (← f.getArrVal? 0).getStr?)
      let d ← docOf (← f.getArrVal? 1)
      pure (k, d)
    match updateAll Capella.Gen.Ns.plugins afm frags with
    | .error e => pure (Json.mkObj [("raises", nsErrName e)])
    | .ok r => pure (Json.mkObj [("docs", Json.arr (r.map fun kd => docJson kd.2).toArray)])
  | "xml.viewpoints" =>
    let afm ← optElem (← j.getObjVal? "afm")
    match viewpointsOf afm with
    | .error e => pure (Json.mkObj [("raises", nsErrName e)])
    | .ok v => pure (Json.mkObj [("vps", jpairs v)])
  | "xml.nsPrefix" =>
    let url ← getStr j "url"
    match nsPrefixOf Capella.Gen.Ns.plugins url with
    | .error e => pure (Json.mkObj [("raises", nsErrName e)])
    | .ok k => pure (Json.mkObj [("key", jstr k)])
  | "xml.escape" =>
    let s ← getStr j "s"
    let c ← j.getObjValAs? String "cls"
    let cls ← clsOf (if c == "content" then "text" else c)
    let esc ← escOf c
    if escapeRaises cls s then pure (Json.mkObj [("raises", "KeyError")])
    else pure (Json.mkObj [("out", jstr (esc s))])
  | "xml.classes" =>
    -- membership of the given code points in the character classes the writer uses
    let cps ← j.getObjValAs? (Array Nat) "cps"
    let f (p : Char → Bool) : Json := Json.arr ((cps.filter (fun n => p (Char.ofNat n))).map fun (n : Nat) => Json.num (JsonNumber.fromNat n))
    pure (Json.mkObj [("text", f isEscText), ("comments", f isEscComments), ("space", f isPySpace)])
  | "xml.serialize" =>
    let ll ← getNat j "ll"
    let sib ← getBool j "siblings"
    let pns ← pairs (← j.getObjVal? "pns")
    let isRoot ← getBool j "is_root"
    let d ← docOf (← j.getObjVal? "doc")
    match elemErr pns d.root with
    | some e => pure (Json.mkObj [("raises", errName e)])
    | none => pure (Json.mkObj [("out", jstr (serialize ll sib pns isRoot d))])
  | "xml.write" =>
    let k ← match j.getObjValAs? String "suffix" with
      | .ok sfx => pure (fragKindOfSuffix sfx.toList)
      | .error _ => kindOf (← j.getObjValAs? String "kind")
    let d ← docOf (← j.getObjVal? "doc")
    match elemErr [] d.root with
    | some e => pure (Json.mkObj [("raises", errName e)])
    | none => pure (Json.mkObj [("out", jstr (writeXml k d))])
  | "xml.attrs" =>
    -- `_unmapped_attrs` alone
    let pk ← getStrList j "parent_keys"
    let nsmap ← pairs (← j.getObjVal? "nsmap")
    let attrs ← pairs (← j.getObjVal? "attrs")
    pure (jpairs (unmappedAttrs pk nsmap attrs))
  | "xml.text" =>
    let cls ← escOf (← j.getObjValAs? String "cls")
    let ml ← getBool j "multiline"
    let t ← optStr (← j.getObjVal? "text")
    let pos ← getNat j "pos"
    let r := serText cls ml t pos
    pure (Json.mkObj [("out", jstr r.1), ("pos", r.2)])
  | "xml.roundVersion" =>
    let v ← getStr j "v"
    let p ← getNat j "prec"
    pure (jstr (roundVersion v p))
  | "xml.parse" =>
    let s ← getStr j "s"
    match parse s with
    | none => pure (Json.mkObj [("fail", true)])
    | some d =>
      let cj (c : Comment) : Json := Json.arr #[jstr c.text, jopt c.tail]
      pure (Json.mkObj [("doc", Json.mkObj [("pre", Json.arr (d.pre.map cj).toArray),
        ("root", elemJson d.root), ("post", Json.arr (d.post.map cj).toArray)])])
  | "xml.roundtrip" =>
    -- the statements of the round-trip theorems, evaluated on one document
    let ll ← getNat j "ll"
    let d ← docOf (← j.getObjVal? "doc")
    let out := serialize ll true [] true d
    let toks := lex out
    let lexOk := toks == some (toksDoc d)
    let built := (build BState.init (toksDoc d)).bind BState.finish
    let buildOk := match built with | some r => Doc.beq r (rawDoc d) | none => false
    let resOk := match resolve [] (rawDoc d).root with | some r => Elem.beq r (canonElem [] true d.root) | none => false
    let parseOk := match parse out with | some r => Doc.beq r (canonDoc d) | none => false
    let idem := (serialize ll true [] true (canonDoc d)) == out
    pure (Json.mkObj [("wf", wfDoc d), ("lex", lexOk), ("build", buildOk), ("resolve", resOk),
      ("parse", parseOk), ("canon_same_bytes", idem)])
  | "xml.save_reload" =>
    -- C02: what `write_xml` writes for the in-memory document, and the statement of `save_reload`
    let k ← kindOf (← j.getObjValAs? String "kind")
    let d ← docOf (← j.getObjVal? "doc")
    match elemErr [] d.root with
    | some e => pure (Json.mkObj [("raises", errName e)])
    | none =>
      let out := writeXml k d
      let wf := wfDoc d
      if wf then
        let canonOk := match parse out with | some r => Doc.beq r (canonDoc d) | none => false
        pure (Json.mkObj [("out", jstr out), ("wf", wf), ("reload_is_canon", canonOk),
          ("info_equal", infoEqB (canonDoc d) d)])
      else if wfDocE d then
        -- Capella-shaped up to `""` texts: the statement of `save_reload_empty`
        let canonOk := match parse out with | some r => Doc.beq r (canonDoc (dropDoc d)) | none => false
        pure (Json.mkObj [("out", jstr out), ("wf", wf), ("wfE", true), ("reload_is_canon_drop", canonOk),
          ("info_equal", infoEqB (canonDoc (dropDoc d)) (dropDoc d))])
      else pure (Json.mkObj [("out", jstr out), ("wf", wf)])
  | "xml.edit" =>
    let d ← docOf (← j.getObjVal? "doc")
    let path ← j.getObjValAs? (List Nat) "path"
    let ed ← match (← j.getObjValAs? String "edit") with
      | "setAttr" => do pure (Edit.setAttr path (← getStr j "name") (← getStr j "value"))
      | "delAttr" => do pure (Edit.delAttr path (← getStr j "name"))
      | "setText" => do pure (Edit.setText path (← optStr (← j.getObjVal? "value")))
      | "insertKid" => do pure (Edit.insertKid path (← getNat j "index") (← elemOf (← j.getObjVal? "kid")))
      | "removeKid" => do pure (Edit.removeKid path (← getNat j "index"))
      | e => throw s!"unknown edit {e}"
    let d' := ed.apply d
    let cj (c : Comment) : Json := Json.arr #[jstr c.text, jopt c.tail]
    pure (Json.mkObj [("doc", Json.mkObj [("pre", Json.arr (d'.pre.map cj).toArray),
        ("root", elemJson d'.root), ("post", Json.arr (d'.post.map cj).toArray)]),
      ("wf", wfDoc d')])
  | "xml.unescape" =>
    let s ← getStr j "s"
    let strict ← getBool j "strict"
    match (if strict then unescapeXml s else unescape s) with
    | none => pure (Json.mkObj [("fail", true)])
    | some r => pure (Json.mkObj [("out", jstr r)])
  | "xml.splitName" =>
    let s ← getStr j "s"
    let r := splitName s
    pure (Json.arr #[jstr r.1, jstr r.2])
  | _ => throw s!"unknown op {op}"

end Capella.Driver.Xml

/-- `lake env lean --run Capella/Driver/Xml.lean` -/
def main : IO Unit := Capella.Driver.runLoop Capella.Driver.Xml.handle
