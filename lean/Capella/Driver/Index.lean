import Capella.Driver.Util
import Capella.Model.Index
/-!
Stateful protocol driver for the index model (`Capella.Index`).
  index.load   {frags:[{name,semantic,ign,tree:[{nid,ids,xt,href}]}]}   → rebuild every fragment
  index.apply  {ops:[{k:"attach",fi,pos,seg}|{k:"detach",fi,seg}|{k:"reserve",fi,key}|{k:"unreserve",fi,key}
                    |{k:"rebuild",fi}|{k:"reorder",fi,nids}|{k:"swapRoot",fi,nid}|{k:"detachNoIndex",fi,seg}]}
  index.query  {keys:[…], xts:[…]}   → lookups across fragments + sorted type index per xtype
  index.dump   {}                    → per fragment: tree nids, idc (sorted), xtc (sorted)
  index.dups   {}                    → check_duplicate_uuids verdict (repaired / as it was)
  index.genuuid {fi, want?, cands}   → generate_uuid
-/
open Lean Capella.Driver Capella.Index

namespace Capella.Driver.Index

def entryOf (j : Json) : Except String Entry := do
  let nid ← j.getObjValAs? Nat "nid"
  let ids ← j.getObjValAs? (Array String) "ids"
  let xt := (j.getObjValAs? String "xt").toOption
  let href := (j.getObjValAs? String "href").toOption
  pure { nid := nid, ids := ids.toList, xt := xt, href := href }

def segOf (j : Json) (k : String) : Except String (List Entry) := do
  let a ← j.getObjValAs? (Array Json) k
  a.toList.mapM entryOf

def errName : Err → String
  | .corrupt => "Corrupt" | .keyError => "KeyError" | .valueError => "ValueError"
  | .typeError => "TypeError" | .runtime => "RuntimeError" | .other s => s

def liftE {α} (e : Except Err α) : Except String α :=
  match e with | .ok a => .ok a | .error e => .error (errName e)

def sortStrs (l : List String) : List String := (l.toArray.qsort (· < ·)).toList
def sortNats (l : List Nat) : List Nat := (l.toArray.qsort (· < ·)).toList
def jnat (n : Nat) : Json := Json.num (JsonNumber.fromNat n)

def dumpFrag (f : Frag) : Json :=
  let idc := (f.idc.toArray.qsort (fun a b => a.1 < b.1)).toList
  Json.mkObj [
    ("name", Json.str f.name),
    ("tree", Json.arr (f.tree.map (fun e => jnat e.nid)).toArray),
    ("idc", Json.mkObj (idc.map (fun (k, v) => (k, match v with | some n => jnat n | none => Json.null)))),
    ("hrefs", Json.mkObj (((f.hrefs.toArray.qsort (fun a b => a.1 < b.1)).toList).map (fun (k, v) => (k, jnat v)))),
    ("xtc", Json.arr ((sortStrs (f.xtc.map (·.1)).eraseDups).map (fun x =>
        Json.mkObj [("xt", Json.str x), ("nids", Json.arr ((sortNats ((f.xtc.filter (·.1 == x)).map (·.2))).map jnat).toArray)])).toArray)]

def opOf (j : Json) : Except String (Loader → Except String Loader) := do
  let k ← j.getObjValAs? String "k"
  let fi ← j.getObjValAs? Nat "fi"
  match k with
  | "attach" =>
    let pos ← j.getObjValAs? Nat "pos"
    let seg ← segOf j "seg"
    pure fun l => liftE (step l (.attach fi pos seg))
  | "detach" =>
    let seg ← segOf j "seg"
    pure fun l => liftE (step l (.detach fi seg))
  | "detachNoIndex" =>
    let seg ← segOf j "seg"
    pure fun l => match l[fi]? with
      | some f => .ok (l.set fi (detachNoIndex f seg))
      | none => .error "no such fragment"
  | "reserve" =>
    let key ← j.getObjValAs? String "key"
    pure fun l => liftE (step l (.reserve fi key))
  | "unreserve" =>
    let key ← j.getObjValAs? String "key"
    pure fun l => liftE (step l (.unreserve fi key))
  | "rebuild" => pure fun l => liftE (step l (.rebuild fi))
  | "swapRoot" =>
    let nid ← j.getObjValAs? Nat "nid"
    pure fun l => liftE (step l (.swapRoot fi nid))
  | "reorder" =>
    let nids ← j.getObjValAs? (Array Nat) "nids"
    pure fun l => match l[fi]? with
      | some f =>
        let tree := nids.toList.filterMap (fun n => f.tree.find? (·.nid == n))
        liftE (step l (.reorder fi tree))
      | none => .error "no such fragment"
  | _ => throw s!"unknown index op {k}"

def handle (st : Loader) (op : String) (j : Json) : Except String (Loader × Json) := do
  match op with
  | "index.load" =>
    let frags ← j.getObjValAs? (Array Json) "frags"
    let l ← frags.toList.mapM (fun fj => do
      let name ← fj.getObjValAs? String "name"
      let sem ← fj.getObjValAs? Bool "semantic"
      let ign ← fj.getObjValAs? Bool "ign"
      let tree ← segOf fj "tree"
      let f : Frag := { name := name, semantic := sem, ignDups := ign, tree := tree, idc := [], xtc := [], hrefs := [] }
      liftE (idcacheRebuild f))
    pure (l, jnat l.length)
  | "index.apply" =>
    let ops ← j.getObjValAs? (Array Json) "ops"
    let mut l := st
    for oj in ops.toList do
      let f ← opOf oj
      l ← f l
    pure (l, Json.str "ok")
  | "index.query" =>
    let keys ← j.getObjValAs? (Array String) "keys"
    let xts ← j.getObjValAs? (Array String) "xts"
    let ks := keys.toList.map (fun k => (k, match lookup st k with
      | .ok n => jnat n
      | .error _ => if (st.filterMap (fun f => fragGet f k)).length > 1 then Json.str "Ambiguous" else Json.null))
    let xs := xts.toList.map (fun x => (x, Json.arr ((sortNats (st.flatMap (fun f => (f.xtc.filter (·.1 == x)).map (·.2)))).map jnat).toArray))
    pure (st, Json.mkObj [("keys", Json.mkObj ks), ("xts", Json.mkObj xs)])
  | "index.dump" => pure (st, Json.arr (st.map dumpFrag).toArray)
  | "index.dups" =>
    pure (st, Json.mkObj [("repaired", Json.bool (hasCrossDups st)), ("old", Json.bool (hasCrossDupsOld st))])
  | "index.genuuid" =>
    let fi ← j.getObjValAs? Nat "fi"
    let want := (j.getObjValAs? String "want").toOption
    let cands ← j.getObjValAs? (Array String) "cands"
    match generateUuid st fi want cands.toList with
    | .ok (l, k) => pure (l, Json.str k)
    | .error e => throw (errName e)
  | _ => throw s!"unknown op {op}"

end Capella.Driver.Index

partial def indexLoop (h out : IO.FS.Stream) (st : Loader) : IO Unit := do
  let line ← h.getLine
  if line.isEmpty then return ()
  let l := line.trimAscii.toString
  if l.isEmpty then indexLoop h out st else
  match Json.parse l with
  | .error e =>
    out.putStrLn (Json.mkObj [("err", Json.str s!"parse: {e}")]).compress
    indexLoop h out st
  | .ok j =>
    match (do let op ← j.getObjValAs? String "op"; Capella.Driver.Index.handle st op j) with
    | .ok (st', r) =>
      out.putStrLn (Json.mkObj [("ok", r)]).compress
      indexLoop h out st'
    | .error e =>
      out.putStrLn (Json.mkObj [("err", Json.str e)]).compress
      indexLoop h out st

def main : IO Unit := do
  let out ← IO.getStdout
  indexLoop (← IO.getStdin) out []
  out.flush
