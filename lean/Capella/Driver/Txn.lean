import Capella.Driver.Util
import Capella.Model.Path
import Capella.Model.Txn
/-! Protocol driver for the write-transaction model (C15): op `txn.run`. -/
namespace Capella.Driver.Txn
open Lean Capella.Driver Capella.Txn

/-- `_tmpname` on a `/`-separated relative path (reuses the C14 path model) -/
def tmpS (p : String) : String :=
  String.intercalate "/" ((Capella.Path.tmpPath (Capella.Path.splitSlash p.toList)).map String.ofList)

def errOf : String → Except String Err
  | "value" => pure .value | "interrupt" => pure .interrupt | "user" => pure .user
  | s => match s.splitOn ":" with
    | ["os", n] => match n.toNat? with
      | some k => pure (.os k)
      | none => throw s!"bad errno {n}"
    | _ => throw s!"unknown error kind {s}"

def errName : Err → String
  | .os n => s!"os:{n}" | .value => "value" | .interrupt => "interrupt" | .user => "user"
  | .alreadyWritten => "alreadyWritten" | .alreadyOpen => "alreadyOpen" | .noTxn => "noTxn"
  | .tmpClash => "tmpClash"

def evJson : Ev String → Json
  | .open_ p => Json.arr #["open", p] | .ser => Json.arr #["serialize", ""]
  | .write p => Json.arr #["write", p] | .close p => Json.arr #["close", p]
  | .rename p => Json.arr #["rename", p] | .unlink p => Json.arr #["unlink", p]

def natsJson (l : List Nat) : Json := Json.arr (l.map (fun (n : Nat) => (Json.num (n : Nat)))).toArray

def optErr : Option Err → Json
  | none => Json.null
  | some e => Json.str (errName e)

def optTxn : Option (List String) → Json
  | none => Json.null
  | some l => Json.arr ((l.toArray.qsort (· < ·)).map Json.str)

def ordOf (prio : List String) (l : List String) : List String :=
  prio.filter (· ∈ l) ++ l.filter (· ∉ prio)

def parseOp (j : Json) : Except String (Op String) := do
  let k ← j.getObjValAs? String "k"
  match k with
  | "frag" =>
    let p ← j.getObjValAs? String "path"
    let pay ← j.getObjValAs? (Array Nat) "payload"
    let nodir ← j.getObjValAs? Bool "nodir"
    pure (.frag { path := p, decl := [1], payload := pay.toList, nodir := nodir })
  | "raise" => do
    let e ← errOf (← j.getObjValAs? String "err")
    pure (.raise e)
  | "nested" => pure .nested
  | _ => throw s!"unknown op kind {k}"

def listing (univ tmps : List String) (fs : String → Option Bytes) : Json :=
  Json.arr (univ.filterMap (fun p =>
    match fs p with
    | none => none
    | some c => some (Json.arr #[Json.str p, if p ∈ tmps then Json.str "tmp" else natsJson c]))).toArray

def handle (op : String) (j : Json) : Except String Json := do
  match op with
  | "txn.run" =>
    let filesJ ← j.getObjValAs? (Array Json) "files"
    let files ← filesJ.toList.mapM (fun (e : Json) => do
      let a ← e.getArr?
      let p ← (a[0]!).getStr?
      let c ← fromJson? (α := Array Nat) (a[1]!)
      pure (p, c.toList))
    let opsJ ← j.getObjValAs? (Array Json) "ops"
    let ops ← opsJ.toList.mapM parseOp
    let dry ← getBool j "dry"
    let prio ← j.getObjValAs? (Array String) "prio"
    let rprio ← j.getObjValAs? (Array String) "retry_prio"
    let univ ← j.getObjValAs? (Array String) "universe"
    let faultsJ ← j.getObjValAs? (Array Json) "faults"
    let faults ← faultsJ.toList.mapM (fun (e : Json) => do
      let a ← e.getArr?
      let i ← (a[0]!).getNat?
      let err ← errOf (← (a[1]!).getStr?)
      let eff ← (a[2]!).getBool?
      pure (i, ({ err := err, eff := eff } : Fault)))
    let σ : Sched := fun n => (faults.find? (·.1 = n)).map (·.2)
    let fs0 : String → Option Bytes := fun q => (files.find? (·.1 = q)).map (·.2)
    let tmps := ops.filterMap (fun o => match o with | .frag f => some (tmpS f.path) | _ => none)
    let s0 : St String := { fs := fs0, txn := none, clock := 0, log := [] }
    let r := transaction tmpS (ordOf prio.toList) σ dry ops s0
    let s1 : St String := { r.1 with clock := 0, log := [] }
    let r2 := transaction tmpS (ordOf rprio.toList) noFault false ops s1
    pure (Json.mkObj [
      ("trace", Json.arr (r.1.log.reverse.map evJson).toArray),
      ("err", optErr r.2),
      ("txn", optTxn r.1.txn),
      ("files", listing univ.toList tmps r.1.fs),
      ("retry_err", optErr r2.2),
      ("retry_txn", optTxn r2.1.txn),
      ("retry_files", listing univ.toList tmps r2.1.fs)])
  | _ => throw s!"unknown op {op}"

end Capella.Driver.Txn

/-- `lake env lean --run Capella/Driver/Txn.lean` -/
def main : IO Unit := Capella.Driver.runLoop Capella.Driver.Txn.handle
