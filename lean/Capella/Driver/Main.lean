import Capella.Driver.Path
/-!
Protocol driver. stdin: one JSON object per line with at least `"op": "<component>.<name>"`.
stdout: one line per input line: `{"ok": <result>}` or `{"err": "<msg>"}`.
Run with `lake env lean --run Capella/Driver/Main.lean`.
-/
open Lean

def dispatch (j : Json) : Except String Json := do
  let op ← j.getObjValAs? String "op"
  if op.startsWith "path." || op == "quote" || op == "unquote" then Capella.Driver.Path.handle op j
  else throw s!"unknown op {op}"

def answer (line : String) : String :=
  match Json.parse line with
  | .error e => (Json.mkObj [("err", Json.str s!"parse: {e}")]).compress
  | .ok j =>
    match dispatch j with
    | .ok r => (Json.mkObj [("ok", r)]).compress
    | .error e => (Json.mkObj [("err", Json.str e)]).compress

partial def loop (h : IO.FS.Stream) (out : IO.FS.Stream) : IO Unit := do
  let line ← h.getLine
  if line.isEmpty then return ()
  let l := line.trimAscii.toString
  if !l.isEmpty then out.putStrLn (answer l)
  loop h out

def main : IO Unit := do
  let out ← IO.getStdout
  loop (← IO.getStdin) out
  out.flush
