import Capella.Driver.Util
import Capella.Model.CacheSM
import Capella.Gen.Formats
namespace Capella.Driver.Cache
open Lean Capella.Driver Capella.Cache

def errName : Err → String
  | .unknownFormat => "UnknownOutputFormat" | .keyError => "KeyError"
  | .notInCache => "NotInCache" | .renderError => "RenderError"
  | .valueError => "ValueError" | .diverges => "Diverges"

def stageName : Stage → String | .parse => "parse" | .render => "render"

def termJson : Capella.Cache.Term → Json
  | .file n => Json.arr #[Json.str "file", jstr n]
  | .fromCache i t => Json.arr #[Json.str "from_cache", jstr i, termJson t]
  | .convert i t => Json.arr #[Json.str "convert", jstr i, termJson t]
  | .pretty i t => Json.arr #[Json.str "convert_pretty", jstr i, termJson t]
  | .call i t => Json.arr #[Json.str "call", jstr i, termJson t]
  | .fresh => Json.arr #[Json.str "fresh"]
  | .errImage s e => Json.arr #[Json.str "error_image", Json.str (stageName s), Json.str (errName e)]
  | .errImageX s w => Json.arr #[Json.str "error_image", Json.str (stageName s), jstr w]

def evJson : Ev → Json
  | .opened n => Json.arr #[Json.str "open", jstr n]
  | .fromCache i => Json.arr #[Json.str "from_cache", jstr i]
  | .convert i => Json.arr #[Json.str "convert", jstr i]
  | .pretty i => Json.arr #[Json.str "convert_pretty", jstr i]
  | .call i => Json.arr #[Json.str "call", jstr i]
  | .fresh => Json.arr #[Json.str "fresh"]
  | .errImage s => Json.arr #[Json.str "error_image", Json.str (stageName s)]

def resJson : Except Err Capella.Cache.Term → Json
  | .ok t => Json.mkObj [("ok", termJson t)]
  | .error e => Json.mkObj [("raise", Json.str (errName e))]

def specOf : String → Except String Spec
  | "falsy" => pure .falsy | "samePath" => pure .samePath | "handler" => pure .handler
  | "mapping" => pure .mapping | "pathOrUrl" => pure .pathOrUrl
  | s => throw s!"unknown cache spec {s}"

def handlerName : Handler → String
  | .loaders => "loaders" | .given => "given" | .fromKwargs => "fromKwargs" | .fromPath => "fromPath"

def optStr (j : Json) (k : String) : Except String (Option Str) :=
  match j.getObjVal? k with
  | .ok Json.null => pure none
  | .ok (Json.str s) => pure (some s.toList)
  | .ok _ => throw s!"{k}: string or null expected"
  | .error _ => pure none

def optJ : Option Str → Json | none => Json.null | some s => jstr s

def convJson (c : Conv) : Json := Json.mkObj [
  ("id", jstr c.id), ("ext", optJ c.ext), ("fromCache", Json.bool c.fromCache),
  ("hasConvert", Json.bool c.hasConvert), ("isFormat", Json.bool c.isFormat),
  ("isPretty", Json.bool c.isPretty), ("depends", optJ c.depends)]


/-! second layer: call sequences on one diagram object, with injected faults -/

def kindOf : String → Except String ExcKind
  | "KeyError" => pure .keyError | "UnknownOutputFormat" => pure .unknownFormat | "Other" => pure .other
  | s => throw s!"unknown exception kind {s}"

def errFName : ErrF → String
  | .base e => errName e
  | .stored e => errName e
  | .raised _ k => "Injected:" ++ String.ofList k.name
  | .typeError => "TypeError"
  | .noExtension => "ValueError"

def reprJson : ReprOut Capella.Cache.Term → Json
  | .short => Json.arr #[Json.str "repr"]
  | .drawn d => Json.arr #[Json.str "repr", termJson d]

def outJson : Out Capella.Cache.Term → Json
  | .value d => termJson d
  | .figure d => Json.arr #[Json.str "figure", termJson d]
  | .repr r => reprJson r
  | .bundle items => Json.arr #[Json.str "bundle", Json.arr (items.map fun p => Json.arr #[jstr p.1, termJson p.2]).toArray]
  | .bundleNone => Json.arr #[Json.str "none"]
  | .bundleText r => Json.arr #[Json.str "bundle_text", reprJson r]
  | .written n d => Json.arr #[Json.str "written", optJ n, termJson d]
  | .done => Json.arr #[Json.str "done"]

def resFJson : Except ErrF (Out Capella.Cache.Term) → Json
  | .ok t => Json.mkObj [("ok", outJson t)]
  | .error e => Json.mkObj [("raise", Json.str (errFName e))]

def stName : St Capella.Cache.Term → String
  | .empty => "empty" | .rendered _ => "rendered" | .failed _ _ => "failed"

def getBoolD (j : Json) (k : String) (d : Bool) : Bool :=
  match j.getObjValAs? Bool k with | .ok b => b | .error _ => d

def pairList (j : Json) (k : String) : Except String (List (Str × ExcKind)) := do
  match j.getObjVal? k with
  | .error _ => pure []
  | .ok v =>
    let arr ← v.getArr?
    arr.toList.mapM fun x => do
      let a ← x.getArr?
      let n ← (a[0]?.getD Json.null).getStr?
      let kd ← kindOf (← (a[1]?.getD Json.null).getStr?)
      pure (n.toList, kd)

def faultList (j : Json) (k : String) : Except String ConvFaults := do
  match j.getObjVal? k with
  | .error _ => pure []
  | .ok v =>
    let arr ← v.getArr?
    arr.toList.mapM fun x => do
      let a ← x.getArr?
      let o ← (a[0]?.getD Json.null).getStr?
      let i ← (a[1]?.getD Json.null).getStr?
      let kd ← kindOf (← (a[2]?.getD Json.null).getStr?)
      pure (o.toList, i.toList, kd)

def optStrList (j : Json) (k : String) : Except String (Option (List Str)) :=
  match j.getObjVal? k with
  | .ok Json.null => pure none
  | .error _ => pure none
  | .ok _ => (getStrList j k).map some

def entryOf (j : Json) : Except String (Entry × Bool) := do
  let e ← j.getObjValAs? String "entry"
  let pretty := getBoolD j "pretty" false
  let pe := getBoolD j "pe" true
  let draw := getBoolD j "draw" false
  match e with
  | "render" => pure (.render (← optStr j "fmt") pretty pe, pe)
  | "as" => pure (.asFmt (← getStr j "fmt"), true)
  | "html" => pure (.html, true)
  | "repr" => pure (.repr draw, true)
  | "mimebundle" =>
    let exc ← (do match j.getObjVal? "exc" with | .error _ => pure [] | .ok _ => getStrList j "exc")
    pure (.mimebundle (← optStrList j "inc") exc draw, true)
  | "save" => pure (.save (getBoolD j "given" true) (← getStr j "fmt") pretty pe, pe)
  | "invalidate" => pure (.invalidate, true)
  | s => throw s!"unknown entry {s}"

def seqLoop (E : Env Str Capella.Cache.Term) : St Capella.Cache.Term → List Json → Except String (List Json)
  | _, [] => pure []
  | st, c :: rest => do
    let (en, pe) ← entryOf c
    let files ← getStrList c "files"
    let bad ← pairList c "bad"
    let createOk := getBoolD c "create_ok" true
    let q : Req Str Capella.Cache.Term :=
      { openf := openOfF files bad, create := if createOk then .ok .fresh else .error .renderError }
    let r := step E st q en
    let created := r.2.1.contains Ev.fresh && willCreate st pe
    let o := Json.mkObj [("trace", Json.arr (r.2.1.map evJson).toArray), ("result", resFJson r.2.2),
      ("state", Json.str (stName r.1)), ("created", Json.bool created)]
    pure (o :: (← seqLoop E r.1 rest))

def T := Capella.Gen.Formats.table

def handle (op : String) (j : Json) : Except String Json := do
  match op with
  | "cache.render" =>
    let via ← j.getObjValAs? String "via"
    let u ← getStr j "uuid"
    let fmt ← optStr j "fmt"
    let pretty ← getBool j "pretty"
    let spec ← specOf (← j.getObjValAs? String "spec")
    let allow ← getBool j "allow"
    let files ← getStrList j "files"
    let freshOk ← getBool j "fresh_ok"
    let cfg : Cfg := { cache := (cacheOf spec).isSome, allowRender := allow }
    let fresh : Except Err Capella.Cache.Term := if freshOk then .ok .fresh else .error .renderError
    let r ← match via, fmt with
      | "render", _ => pure (render T termOps (openOf files) fresh cfg u fmt pretty)
      | "as", some f => pure (asFmt T termOps (openOf files) fresh cfg u f)
      | _, _ => throw "via: render | as (with fmt)"
    pure (Json.mkObj [("trace", Json.arr (r.1.map evJson).toArray), ("result", resJson r.2),
      ("handler", match cacheOf spec with | none => Json.null | some h => Json.str (handlerName h))])
  | "cache.seq" =>
    let spec ← specOf (← j.getObjValAs? String "spec")
    let E : Env Str Capella.Cache.Term :=
      { T := T, ops := termOpsF (← faultList j "conv_faults"),
        cfg := { cache := (cacheOf spec).isSome, allowRender := (← getBool j "allow") },
        u := (← getStr j "uuid"), name := (← getStr j "name"), mimes := Capella.Gen.Formats.mimes }
    let calls ← (← j.getObjVal? "calls").getArr?
    pure (Json.arr (← seqLoop E .empty calls.toList).toArray)
  | "cache.dump-mimes" =>
    pure (Json.arr (Capella.Gen.Formats.mimes.map fun p => Json.arr #[jstr p.1, jstr p.2]).toArray)
  | "cache.convert_format" =>
    let src ← optStr j "src"
    let tgt ← getStr j "tgt"
    let pretty ← getBool j "pretty"
    pure (resJson (convertFormat T termOps src tgt pretty (.file "DATA".toList)))
  | "cache.chain" =>
    let f ← getStr j "fmt"
    pure (match (T.entry f).bind T.chain with
      | none => Json.null
      | some ch => jstrs (ch.map (·.id)))
  | "cache.dump-table" =>
    pure (Json.mkObj [("convs", Json.arr (T.convs.map convJson).toArray),
      ("entries", Json.arr (T.entries.map fun e => Json.arr #[jstr e.1, jstr e.2]).toArray),
      ("exts", jstrs T.exts)])
  | _ => throw s!"unknown op {op}"

end Capella.Driver.Cache

/-- `lake env lean --run Capella/Driver/Cache.lean` -/
def main : IO Unit := Capella.Driver.runLoop Capella.Driver.Cache.handle
