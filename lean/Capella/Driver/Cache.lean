import Capella.Driver.Util
import Capella.Model.Cache
import Capella.Gen.Formats
namespace Capella.Driver.Cache
open Lean Capella.Driver Capella.Cache

def errName : Err → String
  | .unknownFormat => "UnknownOutputFormat" | .keyError => "KeyError"
  | .notInCache => "NotInCache" | .renderError => "RenderError"
  | .valueError => "ValueError" | .diverges => "Diverges"

def stageName : Stage → String | .parse => "parse" | .render => "render"

def termJson : Capella.Cache.Term → Json
  | .file n => Json.arr #[Json.str "file", jstr n]
  | .fromCache i t => Json.arr #[Json.str "from_cache", jstr i, termJson t]
  | .convert i t => Json.arr #[Json.str "convert", jstr i, termJson t]
  | .pretty i t => Json.arr #[Json.str "convert_pretty", jstr i, termJson t]
  | .call i t => Json.arr #[Json.str "call", jstr i, termJson t]
  | .fresh => Json.arr #[Json.str "fresh"]
  | .errImage s e => Json.arr #[Json.str "error_image", Json.str (stageName s), Json.str (errName e)]

def evJson : Ev → Json
  | .opened n => Json.arr #[Json.str "open", jstr n]
  | .fromCache i => Json.arr #[Json.str "from_cache", jstr i]
  | .convert i => Json.arr #[Json.str "convert", jstr i]
  | .pretty i => Json.arr #[Json.str "convert_pretty", jstr i]
  | .call i => Json.arr #[Json.str "call", jstr i]
  | .fresh => Json.arr #[Json.str "fresh"]
  | .errImage s => Json.arr #[Json.str "error_image", Json.str (stageName s)]

def resJson : Except Err Capella.Cache.Term → Json
  | .ok t => Json.mkObj [("ok", termJson t)]
  | .error e => Json.mkObj [("raise", Json.str (errName e))]

def specOf : String → Except String Spec
  | "falsy" => pure .falsy | "samePath" => pure .samePath | "handler" => pure .handler
  | "mapping" => pure .mapping | "pathOrUrl" => pure .pathOrUrl
  | s => throw s!"unknown cache spec {s}"

def handlerName : Handler → String
  | .loaders => "loaders" | .given => "given" | .fromKwargs => "fromKwargs" | .fromPath => "fromPath"

def optStr (j : Json) (k : String) : Except String (Option Str) :=
  match j.getObjVal? k with
  | .ok Json.null => pure none
  | .ok (Json.str s) => pure (some s.toList)
  | .ok _ => throw s!"{k}: string or null expected"
  | .error _ => pure none

def optJ : Option Str → Json | none => Json.null | some s => jstr s

def convJson (c : Conv) : Json := Json.mkObj [
  ("id", jstr c.id), ("ext", optJ c.ext), ("fromCache", Json.bool c.fromCache),
  ("hasConvert", Json.bool c.hasConvert), ("isFormat", Json.bool c.isFormat),
  ("isPretty", Json.bool c.isPretty), ("depends", optJ c.depends)]

def T := Capella.Gen.Formats.table

def handle (op : String) (j : Json) : Except String Json := do
  match op with
  | "cache.render" =>
    let via ← j.getObjValAs? String "via"
    let u ← getStr j "uuid"
    let fmt ← optStr j "fmt"
    let pretty ← getBool j "pretty"
    let spec ← specOf (← j.getObjValAs? String "spec")
    let allow ← getBool j "allow"
    let files ← getStrList j "files"
    let freshOk ← getBool j "fresh_ok"
    let cfg : Cfg := { cache := (cacheOf spec).isSome, allowRender := allow }
    let fresh : Except Err Capella.Cache.Term := if freshOk then .ok .fresh else .error .renderError
    let r ← match via, fmt with
      | "render", _ => pure (render T termOps (openOf files) fresh cfg u fmt pretty)
      | "as", some f => pure (asFmt T termOps (openOf files) fresh cfg u f)
      | _, _ => throw "via: render | as (with fmt)"
    pure (Json.mkObj [("trace", Json.arr (r.1.map evJson).toArray), ("result", resJson r.2),
      ("handler", match cacheOf spec with | none => Json.null | some h => Json.str (handlerName h))])
  | "cache.convert_format" =>
    let src ← optStr j "src"
    let tgt ← getStr j "tgt"
    let pretty ← getBool j "pretty"
    pure (resJson (convertFormat T termOps src tgt pretty (.file "DATA".toList)))
  | "cache.chain" =>
    let f ← getStr j "fmt"
    pure (match (T.entry f).bind T.chain with
      | none => Json.null
      | some ch => jstrs (ch.map (·.id)))
  | "cache.dump-table" =>
    pure (Json.mkObj [("convs", Json.arr (T.convs.map convJson).toArray),
      ("entries", Json.arr (T.entries.map fun e => Json.arr #[jstr e.1, jstr e.2]).toArray),
      ("exts", jstrs T.exts)])
  | _ => throw s!"unknown op {op}"

end Capella.Driver.Cache

/-- `lake env lean --run Capella/Driver/Cache.lean` -/
def main : IO Unit := Capella.Driver.runLoop Capella.Driver.Cache.handle
