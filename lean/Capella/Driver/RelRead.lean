import Capella.Driver.Util
import Capella.Model.RelRead
import Capella.Gen.Reads
import Std.Data.HashMap
namespace Capella.Driver.RelRead
open Lean Capella.Driver Capella.Frag Capella.RelRead Capella.ReadTable

def optStr (j : Json) : Except String (Option Str) :=
  match j with
  | Json.null => pure none
  | Json.str s => pure (some s.toList)
  | _ => throw "bad optional string"

/-- `[key, tag, xt|null, [kids…]]` (as in `Driver/Frag.lean`) -/
partial def getTree (j : Json) : Except String Tree := do
  let a ← (fromJson? j : Except String (Array Json))
  match a.toList with
  | [k, tag, xt, kids] =>
    let ks ← (fromJson? kids : Except String (Array Json))
    let kids ← ks.toList.mapM getTree
    pure (.node (← fromJson? k) (← fromJson? tag : String).toList (← optStr xt) kids)
  | _ => throw "bad tree node"

def getXts (j : Json) : Except String (List (Option Str)) := do
  let a ← (fromJson? j : Except String (Array Json))
  a.toList.mapM optStr

def jerr : Err → Json
  | .keyError => Json.str "KeyError"
  | .runtimeError => Json.str "RuntimeError"
  | .attributeError => Json.str "AttributeError"
  | .typeError => Json.str "TypeError"
  | .valueError => Json.str "ValueError"
  | .unsupported => Json.str "unsupported"

def jkeys (l : List Key) : Json := Json.arr (l.map (fun (k : Nat) => Json.num (JsonNumber.fromNat k))).toArray

def jres : Res → Json
  | .error e => Json.mkObj [("e", jerr e)]
  | .ok (.list l) => Json.mkObj [("r", Json.arr #[Json.str "list", jkeys l])]
  | .ok (.single none) => Json.mkObj [("r", Json.arr #[Json.str "single", Json.null])]
  | .ok (.single (some k)) => Json.mkObj [("r", Json.arr #[Json.str "single", Json.num (JsonNumber.fromNat k)])]
  | .ok (.spec k p) => Json.mkObj [("r", Json.arr #[Json.str "spec", Json.num (JsonNumber.fromNat k), Json.bool p])]

/-- `{"<key>": {"<attr>": value}}` -/
def getTable {α : Type} (j : Json) (field : String) (conv : Json → Except String α) :
    Except String (Std.HashMap Nat (List (Str × α))) := do
  let o ← j.getObjVal? field
  let kvs ← match o with
    | Json.obj m => pure (m.foldl (fun acc k v => (k, v) :: acc) [])
    | _ => throw s!"{field}: object expected"
  let mut out : Std.HashMap Nat (List (Str × α)) := {}
  for (k, v) in kvs do
    let key ← match k.toNat? with | some n => pure n | none => throw "bad key"
    let inner ← match v with
      | Json.obj m => pure (m.foldl (fun acc a x => (a, x) :: acc) [])
      | _ => throw "object expected"
    let vals ← inner.mapM (fun (a, x) => do pure (a.toList, ← conv x))
    out := out.insert key vals
  pure out

def mkEnv (j : Json) : Except String Env := do
  let noid ← j.getObjValAs? (Array Nat) "noid"
  let noidSet : Std.HashMap Nat Unit := noid.foldl (fun m k => m.insert k ()) {}
  let refs ← getTable j "refs" (fun x => do let a ← (fromJson? x : Except String (Array Nat)); pure a.toList)
  let attrs ← getTable j "attrs" (fun x => do let s ← (fromJson? x : Except String String); pure s.toList)
  pure { hasId := fun k => !noidSet.contains k,
         refs := fun k a => (refs.get? k).bind (fun l => l.lookup a),
         attr := fun k a => (attrs.get? k).bind (fun l => l.lookup a) }

/-- the files in the loader's order: main file first, then the fragments by the given root keys -/
def orderFiles (st : Store) (order : List Key) : List FNode :=
  st.main :: (order.filterMap (fun k => st.frags.find? (fun f => fkey f == k)) ++
    st.frags.filter (fun f => !order.contains (fkey f)))

def query (tb : Table) (st : Store) (files : List FNode) (env : Env) (fuel : Nat) (q : Json) : Except String Json := do
  let a ← (fromJson? q : Except String (Array Json))
  match a.toList with
  | [Json.str "rel", k, Json.str name] => pure (jres (readAttr tb st files env fuel 6 name (← fromJson? k)))
  | [Json.str "search", xts] => pure (jkeys (searchFiles files (← getXts xts)))
  | [Json.str "searchbelow", b, xts] =>
    pure (jkeys (searchBelowOrd st files fuel (← getXts xts) (← fromJson? b)))
  | [Json.str "kind", k, Json.str name] =>
    pure (match slotFor tb st name (← fromJson? k) with
      | .ok (some r) => Json.str (reprStr r.kind)
      | _ => Json.null)
  | _ => throw "unknown query"

def jslot (tb : Table) (p : String × Nat) : Json :=
  match tb.rows[p.2]? with
  | some r => Json.arr #[Json.str p.1, Json.str (r.cls ++ "." ++ r.attr), Json.str (reprStr r.kind)]
  | none => Json.arr #[Json.str p.1, Json.null, Json.null]

def handle (op : String) (j : Json) : Except String Json := do
  match op with
  | "reads.run" =>
    let t ← getTree (← j.getObjVal? "tree")
    let cutl ← j.getObjValAs? (Array Nat) "cut"
    let cuts : Std.HashMap Nat Unit := cutl.foldl (fun m k => m.insert k ()) {}
    let order ← j.getObjValAs? (Array Nat) "order"
    let fuel ← getNat j "fuel"
    let env ← mkEnv j
    let st := split (fun k => cuts.contains k) t
    let files := orderFiles st order.toList
    let qs ← j.getObjValAs? (Array Json) "queries"
    let rs ← qs.toList.mapM (query Capella.Gen.Reads.table st files env fuel)
    pure (Json.arr rs.toArray)
  | "reads.table" =>
    -- the generated table as the model sees it, for the round-trip check of the translator
    let tb := Capella.Gen.Reads.table
    pure (Json.mkObj [("rows", Json.num tb.rows.length), ("classes", Json.num tb.classes.length),
      ("slots", Json.num (JsonNumber.fromNat ((tb.classes.map (·.slots.length)).foldl (· + ·) 0))),
      ("digest", Json.arr (tb.classes.map (fun c => Json.arr #[Json.str c.xtype, Json.arr (c.slots.map (jslot tb)).toArray])).toArray)])
  | _ => throw s!"unknown op {op}"

end Capella.Driver.RelRead

/-- `lake env lean --run Capella/Driver/RelRead.lean` -/
def main : IO Unit := Capella.Driver.runLoop Capella.Driver.RelRead.handle
