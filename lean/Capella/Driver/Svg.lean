import Capella.Driver.Util
import Capella.Model.Svg
import Capella.Model.SvgDefs
import Capella.Model.Wrap
import Capella.Model.SvgText
import Capella.Gen.StylesAux
namespace Capella.Driver.Svg
open Lean Capella.Driver Capella.Svg

def errName : Err → String
  | .malformedClass => "MalformedClass" | .unknownMarker => "UnknownMarker" | .badColor => "BadColor"
  | .unsupported => "Unsupported" | .invalidType => "InvalidType" | .diverges => "Diverges"
  | .invalidAttribute => "InvalidAttribute"

def valOf (j : Json) : Except String Val :=
  match j with
  | Json.null => pure .none
  | _ =>
    match j.getObjValAs? String "color" with
    | .ok h => pure (.color h.toList)
    | .error _ =>
      match j.getObjValAs? String "str" with
      | .ok s => pure (.str s.toList)
      | .error _ =>
        match j.getObjValAs? String "num" with
        | .ok s => pure (.num s.toList)
        | .error _ =>
          match j.getObjValAs? (Array String) "grad" with
          | .ok a => pure (.grad (a.toList.map String.toList))
          | .error _ =>
            match j.getObjValAs? String "other" with
            | .ok s => pure (.other s.toList)
            | .error _ => throw "bad style value"

def valJson : Val → Json
  | .none => Json.null
  | .color h => Json.mkObj [("color", jstr h)]
  | .str s => Json.mkObj [("str", jstr s)]
  | .num s => Json.mkObj [("num", jstr s)]
  | .grad hs => Json.mkObj [("grad", jstrs hs)]
  | .other s => Json.mkObj [("other", jstr s)]

def kindOf : String → Except String Kind
  | "box" => pure .box | "edge" => pure .edge | "circle" => pure .circle
  | "symbol" => pure .symbol | "box_symbol" => pure .boxSymbol
  | k => throw s!"unknown kind {k}"

def styleOf (j : Json) : Except String (List (Str × Val)) := do
  let arr ← j.getObjValAs? (Array Json) "style"
  arr.toList.mapM fun p => do
    let a ← (fromJson? p : Except String (Array Json))
    match a.toList with
    | [Json.str k, v] => do pure (k.toList, ← valOf v)
    | _ => throw "style: [key, value] expected"

def objOf (j : Json) : Except String Obj := do
  pure { kind := ← kindOf (← j.getObjValAs? String "kind"), id := ← getStr j "id", cls := ← getStr j "cls",
         context := ← getStrList j "context", hasLabel := ← getBool j "hasLabel",
         nFloating := ← getNat j "nFloating", nEdgeLabels := ← getNat j "nEdgeLabels",
         nFeatures := ← getNat j "nFeatures", hasChildren := ← getBool j "hasChildren",
         hasDescription := ← getBool j "hasDescription", style := ← styleOf j }

def optStr (j : Json) (k : String) : Option Str :=
  match j.getObjValAs? String k with
  | .ok s => some s.toList
  | .error _ => none

def ratOf (j : Json) : Except String Rat := do
  let a ← (fromJson? j : Except String (Array Int))
  match a.toList with
  | [n, d] => if d = 0 then throw "zero denominator" else pure (mkRat n d.toNat)
  | _ => throw "[num, den] expected"

def ratKey (j : Json) (k : String) : Except String Rat := do ratOf (← j.getObjVal? k)

def T := Capella.Gen.Styles.tables

def drawnJson (d : Drawn) : Json := Json.mkObj [
  ("group", Json.arr #[jstr d.group.id, jstr d.group.cls]), ("refs", jstrs d.refs), ("defs", jstrs d.defs)]

def int4 (b : Int × Int × Int × Int) : Json :=
  Json.arr #[Json.num b.1, Json.num b.2.1, Json.num b.2.2.1, Json.num b.2.2.2]

/-- extent table: strings with their width and height, anything else has extent 0 -/
def extTable (j : Json) : Except String (List (Str × Rat × Rat)) := do
  let arr ← j.getObjValAs? (Array Json) "ext"
  arr.toList.mapM fun p => do
    let a ← (fromJson? p : Except String (Array Json))
    match a.toList with
    | [Json.str s, w, h] => do pure (s.toList, ← ratOf w, ← ratOf h)
    | _ => throw "ext: [string, [n,d], [n,d]] expected"

def extW (tbl : List (Str × Rat × Rat)) (s : Str) : Rat :=
  match tbl.find? (fun p => p.1 = s) with | some p => p.2.1 | none => 0
def extH (tbl : List (Str × Rat × Rat)) (s : Str) : Rat :=
  match tbl.find? (fun p => p.1 = s) with | some p => p.2.2 | none => 0

def kindName : DefKind → String
  | .symbol => "symbol" | .marker => "marker" | .gradient => "gradient"

def brName : Br → String
  | .decoRow => "deco:registered" | .decoFallback => "deco:error-fallback" | .depCached => "dep:cached"
  | .depNew => "dep:new" | .useCached => "use:cached" | .useNew => "use:new" | .gradNew => "gradient:new"
  | .gradDup => "gradient:already-defined" | .gradSkip => "iter:plain-value" | .iterMarker => "iter:marker-attribute"
  | .markerNone => "marker:none" | .markerNew => "marker:new" | .markerDup => "marker:already-defined"

def diagramOf (j : Json) : Except String Diagram := do
  let vp : Option Viewport ← match j.getObjVal? "viewport" with
    | .ok Json.null | .error _ => pure none
    | .ok v => do pure (some { x := ← ratKey v "x", y := ← ratKey v "y", w := ← ratKey v "w", h := ← ratKey v "h" })
  let elems ← (← j.getObjValAs? (Array Json) "elems").toList.mapM fun e => do
    pure ({ hidden := ← getBool e "hidden", obj := ← objOf (← e.getObjVal? "obj") } : Elem)
  pure { cls := optStr j "dc", viewport := vp, elems := elems }

/-- does every visible element satisfy the hypotheses of `every_styled_element_draws`? -/
def hypothesesHold (d : Diagram) : Bool :=
  (d.elems.filter (fun e => !e.hidden)).all fun e =>
    e.obj.style.all (overridePlainOK T.markers (isEdgeType e.obj.kind)) &&
    (e.obj.style.isEmpty || !isInfixOfB "symbol".toList ((styleType e.obj.kind ++ '.' :: e.obj.cls).map lowerChar))

def handle (op : String) (j : Json) : Except String Json := do
  match op with
  | "svg.hyp" => pure (Json.bool (hypothesesHold (← diagramOf j)))
  | "svg.renderS" =>
    match renderS T (← diagramOf j) with
    | .ok doc => pure (Json.mkObj [("ok", Json.mkObj [
        ("viewBox", int4 doc.viewBox),
        ("groups", Json.arr (doc.groups.map fun g => Json.arr #[jstr g.id, jstr g.cls]).toArray),
        ("refs", jstrs doc.refs),
        ("defs", Json.arr (doc.defs.map fun e => Json.arr #[Json.str (kindName e.kind), jstr e.id, jstrs e.ids]).toArray),
        ("noClash", Json.bool (noClash T.symbols (doc.defs.map (·.id)))),
        ("log", Json.arr ((doc.log.eraseDups).map fun b => Json.str (brName b)).toArray)])])
    | .error e => pure (Json.mkObj [("raise", Json.str (errName e))])
  | "svg.draw" =>
    let fixed := (j.getObjValAs? Bool "fixed").toOption.getD true
    let o ← objOf (← j.getObjVal? "obj")
    match drawObjectWith fixed T (optStr j "dc") o with
    | .ok d => pure (Json.mkObj [("ok", drawnJson d)])
    | .error e => pure (Json.mkObj [("raise", Json.str (errName e))])
  | "svg.render" =>
    let fixed := (j.getObjValAs? Bool "fixed").toOption.getD true
    let vp : Option Viewport ← match j.getObjVal? "viewport" with
      | .ok Json.null | .error _ => pure none
      | .ok v => do pure (some { x := ← ratKey v "x", y := ← ratKey v "y", w := ← ratKey v "w", h := ← ratKey v "h" })
    let elems ← (← j.getObjValAs? (Array Json) "elems").toList.mapM fun e => do
      pure ({ hidden := ← getBool e "hidden", obj := ← objOf (← e.getObjVal? "obj") } : Elem)
    match renderWith fixed T { cls := optStr j "dc", viewport := vp, elems := elems } with
    | .ok doc => pure (Json.mkObj [("ok", Json.mkObj [
        ("viewBox", int4 doc.viewBox),
        ("groups", Json.arr (doc.groups.map fun g => Json.arr #[jstr g.id, jstr g.cls]).toArray),
        ("refs", jstrs doc.refs), ("defs", jstrs doc.defs)])])
    | .error e => pure (Json.mkObj [("raise", Json.str (errName e))])
  | "svg.intround" => pure (Json.num (intround (← ratKey j "q")))
  | "svg.get_style" =>
    match getStyle T.styles (optStr j "dc") (← getStr j "oc") with
    | .ok st => pure (Json.mkObj [("ok", Json.arr (st.map fun p => Json.arr #[jstr p.1, valJson p.2]).toArray)])
    | .error e => pure (Json.mkObj [("raise", Json.str (errName e))])
  | "svg.wrap" =>
    let tbl ← extTable j
    let spaces ← getStr j "spaces"
    let lines ← getStrList j "lines"
    pure (jstrs (Capella.Wrap.wordWrap (fun c => spaces.contains c) (extW tbl) (← ratKey j "width") lines))
  | "svg.escape" =>
    let t ← getStr j "s"
    pure (Json.mkObj [("text", jstr (Capella.SvgText.escText t)), ("attr", jstr (Capella.SvgText.escAttr t)),
      ("legal", Json.bool (t.all Capella.SvgText.xmlLegal)),
      ("unescText", match Capella.SvgText.unesc (Capella.SvgText.escText t) with | some r => jstr r | none => Json.null)])
  | "svg.label" =>
    let tbl ← extTable j
    let spaces ← getStr j "spaces"
    let labels ← (← j.getObjValAs? (Array Json) "labels").toList.mapM fun l => do
      let a ← (fromJson? l : Except String (Array String))
      pure (a.toList.map String.toList)
    match Capella.Wrap.renderLabels (fun c => spaces.contains c) (extW tbl) (extH tbl) (← ratKey j "rectW") (← ratKey j "rectH")
        (← ratKey j "pad") (← ratKey j "icon") labels with
    | some ls => pure (Json.mkObj [("lines", jstrs ls)])
    | none => pure (Json.mkObj [("assert", Json.bool true)])
  | "svg.voverflow" =>
    let tbl ← extTable j
    let spaces ← getStr j "spaces"
    let lines ← getStrList j "lines"
    pure (jstrs (Capella.Wrap.vOverflow (fun c => spaces.contains c) (extW tbl) (extH tbl) lines
      (← ratKey j "height") (← ratKey j "maxw")))
  | "svg.dump-tables" =>
    pure (Json.mkObj [
      ("styles", Json.arr (T.styles.map fun e => Json.arr #[jstr e.dc, jstr e.oc,
          Json.arr (e.props.map fun p => Json.arr #[jstr p.1, valJson p.2]).toArray]).toArray),
      ("markers", Json.arr (T.markers.map fun m => Json.arr #[jstr m.name, jstrs m.deps, Json.bool m.idFaithful, jstrs m.refs]).toArray),
      ("symbols", Json.arr (T.symbols.map fun s => Json.arr #[jstr s.name,
          (match s.producedId with | some i => jstr i | none => Json.null), jstrs s.deps, jstrs s.ids, jstrs s.refs]).toArray),
      ("digests", Json.arr (Capella.Gen.Styles.symbolIdDigests.map fun d => Json.arr #[jstr d.1, jstr d.2.1, jstr d.2.2]).toArray),
      ("clash", jstrs Capella.Gen.Styles.observedClashIds),
      ("sets", Json.mkObj [("all_ports", jstrs T.allPorts), ("function_ports", jstrs T.functionPorts),
        ("component_ports", jstrs T.componentPorts), ("all_directed_ports", jstrs T.allDirectedPorts),
        ("only_icons", jstrs T.onlyIcons), ("needs_feature_line", jstrs T.needsFeatureLine),
        ("always_top_label", jstrs T.alwaysTopLabel)])])
  | _ => throw s!"unknown op {op}"

end Capella.Driver.Svg

/-- `lake env lean --run Capella/Driver/Svg.lean` -/
def main : IO Unit := Capella.Driver.runLoop Capella.Driver.Svg.handle
