import Capella.Driver.Util
import Capella.Model.Factories
import Capella.Gen.Effects
import Capella.Model.RenderCache
import Capella.Model.Introspect
import Capella.Gen.Introspect
namespace Capella.Driver.Factories
open Lean Capella.Driver Capella.Effects Capella.Factories

def optStr (j : Json) (k : String) : Option Effects.Str :=
  match j.getObjVal? k with
  | .ok (Json.str s) => some s.toList
  | _ => none

def optNat (j : Json) (k : String) : Option Nat :=
  match j.getObjValAs? Nat k with
  | .ok n => some n
  | _ => none

def parseNode (j : Json) : Except String Node := do
  let tag ← getStr j "tag"
  let attrs ← (← (← j.getObjVal? "attrs").getArr?).toList.mapM (fun kv => do
    let k ← (← kv.getArrVal? 0).getStr?
    let v ← (← kv.getArrVal? 1).getStr?
    pure (k.toList, v.toList))
  let kids ← j.getObjValAs? (Array Nat) "kids"
  pure { tag := tag, attrs := attrs, kids := kids.toList, parent := optNat j "parent", text := optStr j "text" }

def jopt (o : Option Effects.Str) : Json := match o with | some s => jstr s | none => Json.null

def jres : Res → Json
  | .drawn e => Json.mkObj [("r", "drawn"), ("uid", jstr e.uid), ("box", Json.bool e.isBox), ("sc", jopt e.styleclass),
      ("label", jstr e.label), ("labels", jstrs e.labels),
      ("features", match e.features with | some f => jstrs f | none => Json.null),
      ("symbol", Json.bool e.symbol), ("port", Json.bool e.port), ("hidden", Json.bool e.hidden),
      ("hidelabel", Json.bool e.hidelabel), ("parent", jopt e.parent)]
  | .skip => Json.mkObj [("r", "skip")]
  | .feats p fs => Json.mkObj [("r", "feats"), ("parent", jstr p), ("features", jstrs fs)]
  | .error w => Json.mkObj [("r", "error"), ("why", jstr w)]

def instrName : Instr → String
  | .getAttr .. => "getAttr" | .allAttrs .. => "allAttrs" | .kids .. => "kids" | .parent .. => "parent"
  | .follow .. => "follow" | .tag .. => "tag" | .text .. => "text" | .setAttr .. => "setAttr"
  | .delAttr .. => "delAttr" | .setText .. => "setText" | .appendKid .. => "appendKid" | .removeKid .. => "removeKid"

def handle (op : String) (j : Json) : Except String Json := do
  match op with
  | "parse" =>
    let nodes ← (← (← j.getObjVal? "nodes").getArr?).toList.mapM parseNode
    let dtree ← getNat j "dtree"
    let data ← j.getObjValAs? (Array Nat) "data"
    let variant := (j.getObjValAs? String "variant").toOption.getD "live"
    let tbl := Capella.Gen.Effects.table.dispatch
    let p := parseElems tbl dtree data.toList []
    let _ := variant
    let r := p.exec nodes
    let tr := p.trace nodes
    let writes := tr.filter (fun i => !i.isRead)
    -- which requests were issued (by kind): branch coverage of the model
    let kinds := ["getAttr", "kids", "parent", "follow", "tag", "text"].map (fun k =>
      (k, Json.num (tr.filter (fun i => instrName i == k)).length))
    pure (Json.mkObj [("results", Json.arr (r.2.map jres).toArray), ("changed", Json.bool (decide (r.1 ≠ nodes))),
      ("requests", Json.num tr.length), ("writes", Json.num writes.length), ("by_kind", Json.mkObj kinds)])
  | "cache.run" =>
    let variant ← j.getObjValAs? String "variant"
    let v : RenderCache.Variant := if variant == "keyed" then .keyed else .coded
    let pp (x : Json) : Except String RenderCache.Params := do
      (← x.getArr?).toList.mapM (fun kv => do
        let k ← (← kv.getArrVal? 0).getStr?
        let w ← (← kv.getArrVal? 1).getStr?
        pure (k.toList, w.toList))
    let fails ← (← (← j.getObjVal? "fails").getArr?).toList.mapM pp
    let ops ← (← (← j.getObjVal? "ops").getArr?).toList.mapM (fun o => do
      let k ← o.getObjValAs? String "o"
      if k == "render" then do pure (RenderCache.Op.render (← pp (← o.getObjVal? "p")))
      else pure RenderCache.Op.invalidate)
    let create : RenderCache.Params → Except RenderCache.Params RenderCache.Params :=
      fun p => if fails.contains p then .error p else .ok p
    let outs := RenderCache.run v create (fun e => ("__error__".toList, []) :: e) RenderCache.Cache.init ops
    let jp (p : RenderCache.Params) : Json := Json.arr (p.map (fun kv => Json.arr #[jstr kv.1, jstr kv.2])).toArray
    pure (Json.arr (outs.map (fun o => match o with
      | none => Json.null
      | some (fr, .ok p) => Json.mkObj [("fresh", Json.bool fr), ("err", Json.bool false), ("with", jp p)]
      | some (fr, .error e) => Json.mkObj [("fresh", Json.bool fr), ("err", Json.bool true), ("with", jp e)])).toArray)
  | "intro.loop" =>
    -- one representation loop of the live code over a table of attribute outcomes (C11 round 4)
    let fn ← getStr j "fn"
    let oracle ← getBool j "oracle"
    let classes := Capella.Gen.Introspect.classes
    let gots ← (← (← j.getObjVal? "vals").getArr?).toList.mapM (fun (v : Json) => do
      match v with
      | Json.str "attrError" => pure (Introspect.Got.attrError, ([] : List Introspect.Str))
      | Json.str _ => pure (Introspect.Got.otherError, [])
      | _ =>
        let cn ← getStr v "cls"
        let raises ← getStrList v "raises"
        match classes.find? (fun c => c.name == cn) with
        | some c => pure (Introspect.Got.value ⟨c, fun m => raises.contains m⟩, [])
        | none => pure (Introspect.Got.otherError, [cn]))
    let sites := Introspect.sitesOf Capella.Gen.Introspect.sites fn
    pure (Json.mkObj [
      ("completes", Json.bool (Introspect.loop oracle sites (gots.map (·.1)))),
      ("sites", Json.num sites.length),
      ("unknown_classes", jstrs (gots.map (·.2)).flatten)])
  | "intro.table" =>
    pure (Json.mkObj [
      ("sites", Json.arr (Capella.Gen.Introspect.sites.map (fun s =>
        Json.arr #[jstr s.fn, jstr s.attr, Json.bool s.guarded, Json.num s.conds.length])).toArray),
      ("classes", Json.arr (Capella.Gen.Introspect.classes.map (fun c =>
        Json.arr #[jstr c.name, jstrs c.attrs, jstrs c.defines, jstrs c.partialOn])).toArray)])
  | "table.info" =>
    pure (Json.mkObj [
      ("functions", Json.num Capella.Gen.Effects.fnNames.length),
      ("dispatch", Json.arr (Capella.Gen.Effects.table.dispatch.map (fun r =>
        Json.arr #[jstr r.key, jstr r.name, Json.bool r.modelledB])).toArray),
      ("rows", Json.num (Capella.Gen.Effects.rowChunks.map List.length).sum),
      ("reachable", Json.num Capella.Gen.Effects.reachable.length)])
  | _ => throw s!"unknown op {op}"

end Capella.Driver.Factories

/-- `lake env lean --run Capella/Driver/Factories.lean` -/
def main : IO Unit := Capella.Driver.runLoop Capella.Driver.Factories.handle
