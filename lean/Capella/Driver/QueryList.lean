import Capella.Driver.Util
import Capella.Model.QueryList
namespace Capella.Driver.QueryList
open Lean Capella.Driver Capella.Query Capella.QList

abbrev S := Capella.Query.Str

def parseAtom (j : Json) : Except String Atom :=
  match j.getObjVal? "s" with
  | .ok (Json.str s) => pure (.s s.toList)
  | _ => match j.getObjVal? "i" with
    | .ok v => do pure (.i (← v.getInt?))
    | _ => match j.getObjVal? "o" with
      | .ok v => do pure (.o (← v.getNat?))
      | _ => match j.getObjVal? "f" with
        | .ok v => do
          let num ← (← v.getArrVal? 0).getInt?
          let den ← (← v.getArrVal? 1).getNat?
          pure (.f num den)
        | _ => pure .none

def parsePyVal (j : Json) : Except String (Option PyVal) :=
  match j with
  | Json.null => pure none
  | _ => match j.getObjVal? "a" with
    | .ok a => do pure (some (.atom (← parseAtom a)))
    | _ => match j.getObjVal? "o" with
      | .ok v => do pure (some (.obj (← v.getNat?)))
      | _ => match j.getObjVal? "os" with
        | .ok v => do
          let l ← (← v.getArr?).toList.mapM (fun n => n.getNat?)
          pure (some (.objs l))
        | _ => do
          let v ← j.getObjVal? "as"
          let l ← (← v.getArr?).toList.mapM parseAtom
          pure (some (.atoms l))

def jnat (n : Nat) : Json := Json.num (JsonNumber.fromNat n)
def jint (n : Int) : Json := Json.num (JsonNumber.fromInt n)
def jnats (l : List Nat) : Json := Json.arr (l.map jnat).toArray

def jatom : Atom → Json
  | .s x => Json.mkObj [("s", jstr x)]
  | .i x => Json.mkObj [("i", jint x)]
  | .none => Json.mkObj [("n", Json.bool true)]
  | .o n => Json.mkObj [("o", jnat n)]
  | .f n d => Json.mkObj [("f", Json.arr #[jint n, jnat d])]

def jpyval : PyVal → Json
  | .atom a => Json.mkObj [("a", jatom a)]
  | .obj n => Json.mkObj [("o", jnat n)]
  | .objs l => Json.mkObj [("os", jnats l)]
  | .atoms l => Json.mkObj [("as", Json.arr (l.map jatom).toArray)]

def errName : Err → String
  | .attributeError => "AttributeError"
  | .keyError => "KeyError"
  | .valueError => "ValueError"
  | .typeError => "TypeError"
  | .indexError => "IndexError"
  | .assertionError => "AssertionError"

def jerr (e : Err) : Json := Json.mkObj [("err", Json.str (errName e))]

def optInt (j : Json) (k : String) : Option Int :=
  match j.getObjVal? k with
  | .ok v => (v.getInt?).toOption
  | _ => none

def optBool (j : Json) (k : String) : Option Bool :=
  match j.getObjValAs? Bool k with
  | .ok b => some b
  | _ => none

def optPath (j : Json) (k : String) : Option (List S) :=
  match j.getObjValAs? (Array String) k with
  | .ok a => some (a.toList.map String.toList)
  | _ => none

def parseCls (s : String) : ListClass :=
  if s = "mixed" then .mixed else .plain s.toList

def clsName : ListClass → String
  | .mixed => "mixed"
  | .plain c => String.ofList c

def parseFilter (q : Json) : Except String Filter := do
  pure { path := ← getStrList q "path", positive := (optBool q "positive").getD true,
         single := (optBool q "fsingle").getD false, lowercase := (optBool q "lower").getD false }

structure Env where
  w : World
  uuid : Nat → S
  l : List Nat
  cls : ListClass
  mapkey : Option (List S)
  mapvalue : Option (List S)

def runOp (env : Env) (q : Json) : Except String Json := do
  let k ← q.getObjValAs? String "k"
  match k with
  | "name" =>
    let name ← getStr q "name"
    match parseName ((optBool q "mixed").getD false) name with
    | none => pure (Json.str "AttributeError")
    | some f => pure (Json.mkObj [("path", jstrs f.path), ("positive", Json.bool f.positive),
        ("single", Json.bool f.single), ("lower", Json.bool f.lowercase)])
  | "nest" =>
    let f ← parseFilter q
    match f.nest (← getStr q "attr") with
    | none => pure (Json.str "AttributeError")
    | some f => pure (Json.mkObj [("path", jstrs f.path), ("positive", Json.bool f.positive),
        ("single", Json.bool f.single), ("lower", Json.bool f.lowercase)])
  | "call" =>
    let f ← parseFilter q
    let vals ← (← (← q.getObjVal? "vals").getArr?).toList.mapM parseAtom
    match call env.w f vals (optBool q "single") env.l with
    | .error e => pure (jerr e)
    | .ok (.list ms) => pure (Json.mkObj [("list", jnats ms)])
    | .ok (.one x) => pure (Json.mkObj [("one", jnat x)])
  | "iter" =>
    let f ← parseFilter q
    match iterKeys env.w f env.l [] with
    | .error e => pure (jerr e)
    | .ok ks => pure (Json.mkObj [("keys", Json.arr (ks.map jatom).toArray)])
  | "contains" =>
    let f ← parseFilter q
    let v ← parseAtom (← q.getObjVal? "val")
    match containsE env.w f v env.l with
    | .error e => pure (jerr e)
    | .ok b => pure (Json.mkObj [("b", Json.bool b)])
  | "pred" =>
    match filterPath env.w (← getStrList q "path") env.l with
    | .error e => pure (jerr e)
    | .ok r => pure (Json.mkObj [("list", jnats r)])
  | "map" =>
    match mapPath env.w env.uuid (← getStrList q "path") env.l with
    | .error e => pure (jerr e)
    | .ok r => pure (Json.mkObj [("list", jnats r)])
  | "add" =>
    let other ← (← (← q.getObjVal? "other").getArr?).toList.mapM (fun n => n.getNat?)
    let ocls := parseCls (← q.getObjValAs? String "ocls")
    let r := add env.cls ocls env.l other ((optBool q "reflected").getD false)
    pure (Json.mkObj [("cls", Json.str (match r.1 with | .mixed => "mixed" | .plain _ => "plain")), ("list", jnats r.2)])
  | "sub" =>
    let other ← (← (← q.getObjVal? "other").getArr?).toList.mapM (fun n => n.getNat?)
    pure (Json.mkObj [("list", jnats (subE env.uuid env.l other ((optBool q "reflected").getD false)))])
  | "in" =>
    pure (Json.mkObj [("b", Json.bool (containsObj env.l (← getNat q "obj")))])
  | "index" =>
    match pyIndex env.l (← getInt q "i") with
    | none => pure (jerr .indexError)
    | some x => pure (Json.mkObj [("one", jnat x)])
  | "slice" =>
    match pySlice { start := optInt q "start", stop := optInt q "stop", step := optInt q "step" } env.l with
    | none => pure (jerr .valueError)
    | some r => pure (Json.mkObj [("list", jnats r)])
  | "getstr" =>
    match getStrItem env.w env.mapkey env.mapvalue (← parseAtom (← q.getObjVal? "key")) env.l with
    | .error e => pure (jerr e)
    | .ok v => pure (Json.mkObj [("v", jpyval v)])
  | "get" =>
    match getDefault env.w env.mapkey env.mapvalue (← parseAtom (← q.getObjVal? "key")) env.l with
    | .error e => pure (jerr e)
    | .ok none => pure (Json.mkObj [("v", Json.null)])
    | .ok (some v) => pure (Json.mkObj [("v", jpyval v)])
  | "keys" =>
    match keysView env.w env.mapkey env.l with
    | .error e => pure (jerr e)
    | .ok ks => pure (Json.mkObj [("keys", Json.arr (ks.map (fun k => match k with
        | none => Json.null | some v => jpyval v)).toArray)])
  | _ => throw s!"unknown list op {k}"

def handle (op : String) (j : Json) : Except String Json := do
  match op with
  | "listops" =>
    let objs ← (← (← j.getObjVal? "objs").getArr?).toList.mapM (fun o => do
      let attrs ← (← (← o.getObjVal? "attrs").getArr?).toList.mapM (fun kv => do
        let k ← (← kv.getArrVal? 0).getStr?
        let v ← parsePyVal (← kv.getArrVal? 1)
        pure (k.toList, v))
      pure ((← getStr o "uuid"), attrs))
    let arr := objs.toArray
    let w : World := fun n a => match arr[n]? with
      | some o => (o.2.lookup a).join
      | none => none
    let uuid : Nat → S := fun n => match arr[n]? with
      | some o => o.1
      | none => []
    let l ← (← (← j.getObjVal? "list").getArr?).toList.mapM (fun n => n.getNat?)
    let env : Env := { w := w, uuid := uuid, l := l, cls := parseCls ((j.getObjValAs? String "cls").toOption.getD "mixed"),
                       mapkey := optPath j "mapkey", mapvalue := optPath j "mapvalue" }
    let ops ← (← j.getObjVal? "ops").getArr?
    let answers ← ops.toList.mapM (runOp env)
    pure (Json.arr answers.toArray)
  | _ => throw s!"unknown op {op}"

end Capella.Driver.QueryList

/-- `lake env lean --run Capella/Driver/QueryList.lean` -/
def main : IO Unit := Capella.Driver.runLoop Capella.Driver.QueryList.handle
