import Capella.Driver.Util
import Capella.Model.Accessor
import Capella.Gen.Acc
/-!
Stateful protocol driver for the accessor model (`Capella.Accessor`).
  acc.load  {frags:[{name,semantic,ign,idtypes,rows:[[nid,parent|null,tag,[[k,v]…],xt|null]…]}]}
  acc.step  {call:{m,cls,attr,owner,elems|null,…}, draws:[…], fresh:[…]}
            → {err, why, ops, touched, kids, view, created, hits}
  acc.dump  {}   → per fragment: rows + the three dictionaries (sorted)
  acc.row   {cls, attr} → the generated descriptor row as the model sees it (translator round trip)
-/
open Lean Capella.Driver Capella.Index Capella.Accessor Capella.AccTable

namespace Capella.Driver.Accessor

def tables : Tables := { rows := Capella.Gen.Acc.table, classes := Capella.Gen.Acc.classTable }

def jnat (n : Nat) : Json := Json.num (JsonNumber.fromNat n)
def jopt {α} (f : α → Json) : Option α → Json | some a => f a | none => Json.null

def optNat (j : Json) : Option Nat := match j.getNat? with | .ok n => some n | .error _ => none
def optStr (j : Json) : Option String := match j.getStr? with | .ok n => some n | .error _ => none

def rowOf (j : Json) : Except String Row := do
  let a ← j.getArr?
  match a.toList with
  | [n, p, t, atj, x] =>
    let attrs ← (← atj.getArr?).toList.mapM (fun kv => do
      match (← kv.getArr?).toList with
      | [k, v] => pure ((← k.getStr?), (← v.getStr?))
      | _ => throw "attr pair")
    pure { nid := ← n.getNat?, parent := optNat p, tag := ← t.getStr?, attrs := attrs, xt := optStr x }
  | _ => throw "row"

def errName : Capella.Accessor.Err → String
  | .typeError => "TypeError" | .valueError => "ValueError" | .nonUnique => "NonUniqueMemberError"
  | .keyError => "KeyError" | .notImplemented => "NotImplementedError" | .attributeError => "AttributeError"
  | .runtimeError => "RuntimeError" | .corrupt => "CorruptModelError" | .indexError => "IndexError"
  | .assertion => "AssertionError" | .protocol _ => "!protocol" | .unmodelled _ => "!unmodelled"

def errWhy : Capella.Accessor.Err → Json
  | .protocol w => Json.str w | .unmodelled w => Json.str w | _ => Json.null

def valOf (j : Json) : Except String Val := do
  match j.getObjVal? "e" with
  | .ok e => pure (.elem (← e.getNat?))
  | .error _ =>
    match j.getObjVal? "new" with
    | .ok h => pure (.newObject (← h.getStr?))
    | .error _ =>
      match j.getObjVal? "s" with
      | .ok s => pure (.str (← s.getStr?))
      | .error _ => pure .foreign

def findRow (cls attr : String) : Except String ARow :=
  match tables.rows.find? (fun r => r.cls == cls && r.attr == attr) with
  | some r => .ok r
  | none => .error s!"no descriptor row {cls}.{attr}"

/-- a POD descriptor as reflected by the harness: {kind, attr, w, enum?:{name, stringy, members:[[n,v]…], default}} -/
def podDescOf (j : Json) : Except String Capella.Pods.Desc := do
  let kind ← j.getObjValAs? String "kind"
  let attr ← j.getObjValAs? String "attr"
  let w ← j.getObjValAs? Bool "w"
  let k : Capella.Pods.Kind ← (match kind with
    | "StringPOD" => pure .string | "HTMLStringPOD" => pure .html | "BoolPOD" => pure .bool | "IntPOD" => pure .int
    | "FloatPOD" => pure .float | "DatetimePOD" => pure .datetime
    | "EnumPOD" => do
      let e ← j.getObjVal? "enum"
      let ms ← (← e.getObjValAs? (Array Json) "members").toList.mapM (fun m => do
        match (← m.getArr?).toList with
        | [n, v] => do pure ((← n.getStr?).toList, (← v.getStr?).toList)
        | _ => throw "enum member")
      pure (.enum { name := (← e.getObjValAs? String "name").toList, stringy := ← e.getObjValAs? Bool "stringy", members := ms }
        (← e.getObjValAs? String "default").toList)
    | other => pure (.other other.toList))
  pure { kind := k, attr := attr.toList, writable := w }

def podLitOf (j : Json) : Except String PodLit := do
  match j.getObjVal? "s" with
  | .ok x => pure (.str (← x.getStr?))
  | .error _ =>
  match j.getObjVal? "b" with
  | .ok x => pure (.bool (← x.getBool?))
  | .error _ =>
  match j.getObjVal? "i" with
  | .ok x => pure (.int (← x.getInt?))
  | .error _ =>
  match j.getObjVal? "m" with
  | .ok x => (match (← x.getArr?).toList with
    | [c, n, v] => do pure (.member (← c.getStr?) (← n.getStr?) (← v.getStr?))
    | _ => throw "member")
  | .error _ =>
  match j.getObjVal? "n" with
  | .ok _ => pure .none
  | .error _ => pure .other

/-- what `helpers.repair_html` made of the values of this request: [[value, repaired | null (it raised)] …] -/
def repairOf (j : Json) : Except String (List (List Char × Option (List Char))) := do
  match j.getObjVal? "rep" with
  | .error _ => pure []
  | .ok r => (← r.getArr?).toList.mapM (fun p => do
    match (← p.getArr?).toList with
    | [a, b] => do pure ((← a.getStr?).toList, (optStr b).map (·.toList))
    | _ => throw "repair pair")

partial def kwOf (j : Json) : Except String (List (String × Slot × KwVal)) := do
  (← j.getArr?).toList.mapM (fun it => do
    let k ← it.getObjValAs? String "k"
    let slot ← it.getObjValAs? String "slot"
    match slot with
    | "missing" => pure (k, Slot.missing, KwVal.str "")
    | "plain" => pure (k, Slot.notDescriptor, KwVal.str "")
    | "pod" =>
      pure (k, Slot.stringPod (← it.getObjValAs? String "attr") (← it.getObjValAs? Bool "w"), KwVal.str (← it.getObjValAs? String "v"))
    | "str" => pure (k, Slot.other "str", KwVal.str (← it.getObjValAs? String "v"))
    | "podk" =>
      pure (k, Slot.pod (← podDescOf (← it.getObjVal? "d")) (← repairOf it), KwVal.lit (← podLitOf (← it.getObjVal? "v")))
    | "role" =>
      let row ← findRow (← it.getObjValAs? String "cls") (← it.getObjValAs? String "attr")
      let nw ← it.getObjVal? "new"
      let spec := NewSpec.mk (← nw.getObjValAs? String "hint") (← kwOf (← nw.getObjVal? "kw"))
      pure (k, Slot.role row, KwVal.newObj spec)
    | other => pure (k, Slot.other other, KwVal.str ""))

def entryJson (e : Entry) : Json := jnat e.nid

def opJson : Op → Json
  | .attach fi pos seg => Json.mkObj [("k", "attach"), ("fi", jnat fi), ("pos", jnat pos), ("nids", Json.arr (seg.map entryJson).toArray)]
  | .detach fi seg => Json.mkObj [("k", "detach"), ("fi", jnat fi), ("nids", Json.arr (seg.map entryJson).toArray)]
  | .reserve fi k => Json.mkObj [("k", "reserve"), ("fi", jnat fi), ("key", Json.str k)]
  | .unreserve fi k => Json.mkObj [("k", "unreserve"), ("fi", jnat fi), ("key", Json.str k)]
  | .rebuild fi => Json.mkObj [("k", "rebuild"), ("fi", jnat fi)]
  | .reorder fi _ => Json.mkObj [("k", "reorder"), ("fi", jnat fi)]
  | .swapRoot fi n => Json.mkObj [("k", "swapRoot"), ("fi", jnat fi), ("nid", jnat n)]

def sortAttrs (a : List (String × String)) : List (String × String) := (a.toArray.qsort (fun x y => x.1 < y.1)).toList

def rowJson (r : Row) : Json :=
  Json.arr #[jnat r.nid, jopt jnat r.parent, Json.str r.tag,
    Json.arr ((sortAttrs r.attrs).map (fun (k, v) => Json.arr #[Json.str k, Json.str v])).toArray, jopt Json.str r.xt]

def sortStrs (l : List String) : List String := (l.toArray.qsort (· < ·)).toList
def sortNats (l : List Nat) : List Nat := (l.toArray.qsort (· < ·)).toList

def dumpIx (f : Frag) : List (String × Json) :=
  let idc := (f.idc.toArray.qsort (fun a b => a.1 < b.1)).toList
  [("idc", Json.mkObj (idc.map (fun (k, v) => (k, jopt jnat v)))),
   ("hrefs", Json.mkObj (((f.hrefs.toArray.qsort (fun a b => a.1 < b.1)).toList).map (fun (k, v) => (k, jnat v)))),
   ("xtc", Json.mkObj ((sortStrs (f.xtc.map (·.1)).eraseDups).map (fun x =>
      (x, Json.arr ((sortNats ((f.xtc.filter (·.1 == x)).map (·.2))).map jnat).toArray))))]

/-- decode one API call -/
def callOf (call : Json) : Except String (Call × Option (ARow × Nat)) := do
  let m ← call.getObjValAs? String "m"
  if m == "podset" then
    let n ← call.getObjValAs? Nat "owner"
    return (.podSet n (← call.getObjValAs? String "xml") (← call.getObjValAs? Bool "w") (← call.getObjValAs? String "v"), none)
  if m == "podsetk" then
    let n ← call.getObjValAs? Nat "owner"
    return (.podSetK n (← podDescOf (← call.getObjVal? "d")) (← repairOf call) (← podLitOf (← call.getObjVal? "v")), none)
  let row ← findRow (← call.getObjValAs? String "cls") (← call.getObjValAs? String "attr")
  let owner ← call.getObjValAs? Nat "owner"
  let elems := (call.getObjValAs? (Array Nat) "elems").toOption.map (·.toList)
  let idx := (call.getObjValAs? Int "i").toOption.getD 0
  let c : Call ← (match m with
    | "create" => do
      pure (Call.create row owner elems (call.getObjValAs? String "hint").toOption (← kwOf (← call.getObjVal? "kw")))
    | "insert" => do pure (Call.insert row owner elems idx (← valOf (← call.getObjVal? "v")))
    | "delitem" => pure (Call.delItem row owner elems idx)
    | "setitem" => do pure (Call.setItem row owner elems idx (← valOf (← call.getObjVal? "v")))
    | "setslice" => do
      pure (Call.setSlice row owner elems (← call.getObjValAs? Int "lo") (← call.getObjValAs? Int "hi")
        (← (← call.getObjValAs? (Array Json) "vs").toList.mapM valOf))
    | "set" => do pure (Call.set row owner (← (← call.getObjValAs? (Array Json) "vs").toList.mapM valOf))
    | "del" => pure (Call.del row owner)
    | "roleset" => do
      let nw ← call.getObjVal? "new"
      pure (Call.roleSet row owner (NewSpec.mk (← nw.getObjValAs? String "hint") (← kwOf (← nw.getObjVal? "kw"))))
    | other => throw s!"unknown method {other}")
  pure (c, some (row, owner))

def handle (st : State) (op : String) (j : Json) : Except String (State × Json) := do
  match op with
  | "acc.load" =>
    let frags ← j.getObjValAs? (Array Json) "frags"
    let parsed ← frags.toList.mapM (fun fj => do
      let name ← fj.getObjValAs? String "name"
      let sem ← fj.getObjValAs? Bool "semantic"
      let ign ← fj.getObjValAs? Bool "ign"
      let idtypes ← fj.getObjValAs? (Array String) "idtypes"
      let rows ← (← fj.getObjValAs? (Array Json) "rows").toList.mapM rowOf
      let af : AFrag := { name := name, semantic := sem, idtypes := idtypes.toList, rows := rows }
      let f0 : Frag := { name := name, semantic := sem, ignDups := ign, tree := rows.map (entryOf idtypes.toList), idc := [], xtc := [], hrefs := [] }
      match idcacheRebuild f0 with
      | .ok f => pure (af, f)
      | .error _ => throw "CorruptModelError")
    let s : State := { frags := parsed.map (·.1), ix := parsed.map (·.2) }
    pure (s, jnat parsed.length)
  | "acc.step" =>
    let call ← j.getObjVal? "call"
    let draws := ((j.getObjValAs? (Array String) "draws").toOption.map (·.toList)).getD []
    let fresh := ((j.getObjValAs? (Array Nat) "fresh").toOption.map (·.toList)).getD []
    let (c, rel) ← callOf call
    let r := apiStep tables c (beginCall st draws fresh)
    let s1 := r.st
    let (err, why, created) := match r.val with
      | .ok c => (Json.null, Json.null, jopt jnat c)
      | .error e => (Json.str (errName e), errWhy e, Json.null)
    -- the freshly fetched view of the relation after the call
    let view := match rel with
      | some (row, owner) => (match (accGet tables row owner s1).val with
        | .ok v => Json.arr (v.map jnat).toArray
        | .error _ => Json.null)
      | none => Json.null
    let touched := s1.touched.eraseDups
    let tj := touched.map (fun n => match Capella.Accessor.findRow s1 n with
      | some r => Json.arr #[jnat n, (match locate s1.frags n with | some (fi, _) => jnat fi | none => Json.null), rowJson r]
      | none => Json.arr #[jnat n, Json.null, Json.null])
    let kj := touched.map (fun n => (toString n, Json.arr ((kids (rowsOf s1 n) n).map (fun r => jnat r.nid)).toArray))
    let out := Json.mkObj [("err", err), ("why", why), ("created", created),
      ("ops", Json.arr (s1.log.map opJson).toArray), ("touched", Json.arr tj.toArray), ("kids", Json.mkObj kj),
      ("view", view), ("hits", Json.arr (s1.hits.reverse.map Json.str).toArray),
      ("draws_left", jnat s1.draws.length)]
    pure ({ s1 with log := [], touched := [], hits := [] }, out)
  | "acc.patch" =>
    -- state transfer for a step the model declined and that only changed attributes the index does not read
    let n ← j.getObjValAs? Nat "nid"
    let attrs ← (← j.getObjValAs? (Array Json) "attrs").toList.mapM (fun kv => do
      match (← kv.getArr?).toList with
      | [k, v] => pure ((← k.getStr?), (← v.getStr?))
      | _ => throw "attr pair")
    let upd (rows : List Row) : List Row := rows.map (fun r => if r.nid == n then { r with attrs := attrs } else r)
    pure ({ st with frags := st.frags.map (fun f => { f with rows := upd f.rows }), limbo := upd st.limbo }, Json.str "ok")
  | "acc.dump" =>
    let fr := (st.frags.zip st.ix).map (fun (af, f) => Json.mkObj ([("name", Json.str af.name),
      ("rows", Json.arr (af.rows.map rowJson).toArray),
      ("tree", Json.arr (f.tree.map (fun e => jnat e.nid)).toArray)] ++ dumpIx f))
    pure (st, Json.arr fr.toArray)
  | "acc.row" =>
    let row ← findRow (← j.getObjValAs? String "cls") (← j.getObjValAs? String "attr")
    pure (st, Json.mkObj [("kind", Json.str (reprStr row.kind)), ("writable", Json.bool row.writable), ("aslist", Json.bool row.aslist),
      ("fixed", jnat row.fixed), ("unique", Json.bool row.unique), ("xtypes", Json.arr (row.xtypes.map Json.str).toArray),
      ("tag", jopt Json.str row.tag), ("follow", jopt Json.str row.follow), ("backattr", jopt Json.str row.backattr),
      ("rootelem", Json.arr (row.rootelem.map Json.str).toArray), ("follow_abstract", Json.bool row.followAbstract),
      ("elem_class", jopt Json.str row.elemClass), ("classes", Json.arr (row.classes.map Json.str).toArray),
      ("single_attr", jopt Json.str row.singleAttr)])
  | _ => throw s!"unknown op {op}"

end Capella.Driver.Accessor

partial def accLoop (h out : IO.FS.Stream) (st : State) : IO Unit := do
  let line ← h.getLine
  if line.isEmpty then return ()
  let l := line.trimAscii.toString
  if l.isEmpty then accLoop h out st else
  match Json.parse l with
  | .error e =>
    out.putStrLn (Json.mkObj [("err", Json.str s!"parse: {e}")]).compress
    out.flush
    accLoop h out st
  | .ok j =>
    match (do let op ← j.getObjValAs? String "op"; Capella.Driver.Accessor.handle st op j) with
    | .ok (st', r) =>
      out.putStrLn (Json.mkObj [("ok", r)]).compress
      out.flush
      accLoop h out st'
    | .error e =>
      out.putStrLn (Json.mkObj [("err", Json.str e)]).compress
      out.flush
      accLoop h out st

def main : IO Unit := do
  let out ← IO.getStdout
  accLoop (← IO.getStdin) out { frags := [], ix := [] }
  out.flush
