import Capella.Driver.Util
import Capella.Model.Pods
import Capella.Model.PodsDt
import Capella.Model.PodsLinked
import Capella.Model.PodsSpecMap
import Capella.Gen.Pods
/-!
Protocol driver for the POD model (property C07).

The parameters of the model (what CPython / libxml2 compute) are supplied per request as *oracle
tables* (`"oracle": {"repair": [[s, r|null], …], "fparse": …}`) recorded by the harness from the
implementation; a lookup miss yields a sentinel that can never agree with the implementation.
Descriptors are taken from the generated table by row index, so a run ties model, table and code.

Not oracles any more: aware datetimes are structured values (`DT`), `isoformat` / `fromisoformat` on the
shapes the code writes / millisecond truncation are the functions of `Model/PodsDt.lean` (the `fromiso`
oracle answers only for foreign shapes); `escape_linked_text` / `unescape_linked_text` are the functions
of `Model/PodsLinked.lean` on the sub-language (the `esc` / `unesc` oracles answer only for foreign
strings; `look` is `loader[href]`).
-/
namespace Capella.Driver.Pods
open Lean Capella.Driver Capella.Pods

def missS : Str := "\x00ORACLE-MISS".toList

def lookup {α : Type} (tbl : List (Str × α)) (k : Str) : Option α :=
  (tbl.find? (fun p => p.1 = k)).map (·.2)

/-- `[[key, value|null], …]` -/
def getTable (j : Json) (k : String) : List (Str × Option Str) :=
  match j.getObjVal? k with
  | .ok (.arr a) =>
    a.toList.filterMap fun e =>
      match e with
      | .arr #[.str x, .str y] => some (x.toList, some y.toList)
      | .arr #[.str x, .null] => some (x.toList, none)
      | _ => none
  | _ => []

/-- floats are identified by their `repr`; "nan"/"inf"/"-inf" are the non-finite ones -/
def floatOfRepr (s : Str) : FloatV Str :=
  if s = "nan".toList then .nan else if s = "inf".toList then .inf
  else if s = "-inf".toList then .ninf else .fin s

def reprOfFloat : FloatV Str → Str
  | .nan => "nan".toList | .inf => "inf".toList | .ninf => "-inf".toList | .fin s => s

/-- "y,mo,d,h,mi,s,us,off" -/
def dtOfCsv (s : Str) : Option DT :=
  match ((String.ofList s).splitOn ",").map String.toInt? with
  | [some y, some mo, some d, some h, some mi, some sc, some us, some off] =>
    some ⟨y.toNat, mo.toNat, d.toNat, h.toNat, mi.toNat, sc.toNat, us.toNat, off⟩
  | _ => none

def missDT : DT := ⟨0, 0, 0, 0, 0, 0, 0, 0⟩

/-- `[[href, "named", name] | [href, "unnamed"|"missing"|"malformed"], …]` -/
def lookOf (j : Json) (k : String) : Str → Target :=
  let tbl : List (Str × Target) :=
    match j.getObjVal? k with
    | .ok (.arr a) =>
      a.toList.filterMap fun e =>
        match e with
        | .arr #[.str h, .str "named", .str n] => some (h.toList, Target.named n.toList)
        | .arr #[.str h, .str "unnamed"] => some (h.toList, Target.unnamed)
        | .arr #[.str h, .str "missing"] => some (h.toList, Target.missing)
        | .arr #[.str h, .str "malformed"] => some (h.toList, Target.malformed)
        | _ => none
    | _ => []
  fun h => (lookup tbl h).getD (.named missS)

/-- the float / HTML part: still oracles -/
def baseParams (o : Json) : Params :=
  let fparse := getTable o "fparse"
  let fofint := getTable o "fofint"
  let repair := getTable o "repair"
  let esc := getTable o "esc"
  let unesc := getTable o "unesc"
  let look := lookOf o "look"
  { F := Str
    fZero := "0.0".toList
    fRepr := id
    fParse := fun s => match lookup fparse s with
      | some (some r) => some (floatOfRepr r) | some none => none | none => some (.fin missS)
    fOfInt := fun i => match lookup fofint (toString i).toList with
      | some (some r) => some r | some none => none | none => some missS
    fIsZero := fun s => s = "0.0".toList || s = "-0.0".toList
    N := Str
    T := Unit
    localize := fun _ => none
    iso := fun _ => missS
    fromIso := fun _ => none
    truncMs := id
    isoOk := fun _ => false
    repair := fun s => match lookup repair s with
      | some r => r | none => some missS
    xhtml := (o.getObjValAs? Bool "xhtml").toOption.getD false
    -- the model's own codec on the sub-language, the oracle elsewhere
    escLinked := fun s => match escapeLinked s with
      | some r => exceptToOption r
      | none => match lookup esc s with | some r => r | none => some missS
    unescLinked := fun s => match unescapeLinked look s with
      | some (.ok r) => r
      | some (.error _) => missS
      | none => match lookup unesc s with | some (some r) => r | _ => missS }

def mkParams (o : Json) : Params :=
  let localize := getTable o "localize"    -- naive id -> "y,mo,…,off" of `astimezone()`, null = it raises
  let fromiso := getTable o "fromiso"      -- foreign shapes only: "A<csv>" aware, "N<nid>" naive, null error
  withDT (baseParams o)
    (fun n => match lookup localize n with
      | some (some r) => some ((dtOfCsv r).getD missDT) | some none => none | none => some missDT)
    (fun s => match lookup fromiso s with
      | some (some ('A' :: t)) => some (.inr ((dtOfCsv t).getD missDT))
      | some (some ('N' :: n)) => some (.inl n)
      | some none => none
      | _ => some (.inr missDT))

def dtOfJson (j : Json) : Except String DT := do
  match (← j.getObjValAs? (Array Int) "f").toList with
  | [y, mo, d, h, mi, sc, us, off] => pure ⟨y.toNat, mo.toNat, d.toNat, h.toNat, mi.toNat, sc.toNat, us.toNat, off⟩
  | _ => throw "bad datetime fields"

def dtJson (t : DT) : Json :=
  Json.arr #[Json.num t.y, Json.num t.mo, Json.num t.d, Json.num t.h, Json.num t.mi, Json.num t.s, Json.num t.us,
    Json.num (Lean.JsonNumber.fromInt t.off)]

def valOfJson (P : Params) (hF : P.F = Str) (hN : P.N = Str) (hT : P.T = DT) (j : Json) :
    Except String (PyVal P) := do
  let t ← j.getObjValAs? String "t"
  match t with
  | "none" => pure .none
  | "bool" => pure (.bool (← getBool j "v"))
  | "int" =>
    let s ← j.getObjValAs? String "v"
    match s.toInt? with
    | some i => pure (.int i)
    | none => throw s!"bad int {s}"
  | "float" => pure (.float (hF ▸ floatOfRepr (← getStr j "v")))
  | "str" => pure (.str (← getStr j "v"))
  | "member" => pure (.member (← getStr j "cls") (← getStr j "name") (← getStr j "value"))
  | "naive" => pure (.naive (hN ▸ (← getStr j "v")))
  | "aware" => pure (.aware (hT ▸ (← dtOfJson j)))
  | "selector" => pure (.selector (← getStr j "v"))
  | "other" => pure .other
  | x => throw s!"unknown value type {x}"

def errName : Err → String
  | .typeError => "TypeError" | .valueError => "ValueError" | .keyError => "KeyError"
  | .assertionError => "AssertionError" | .attributeError => "AttributeError"
  | .overflowError => "OverflowError" | .unsupported => "Unsupported"

def jattrs (a : Attrs) : Json := Json.arr (a.map fun p => Json.arr #[jstr p.1, jstr p.2]).toArray

def getAttrs (j : Json) (k : String) : Except String Attrs := do
  let a ← j.getObjValAs? (Array (Array String)) k
  a.toList.mapM fun p =>
    match p with
    | #[x, y] => pure (x.toList, y.toList)
    | _ => throw "bad attrs"

def kindJson : Kind → Json
  | .string => "string" | .html => "html" | .bool => "bool" | .int => "int" | .float => "float"
  | .datetime => "datetime" | .selector => "selector"
  | .enum e n => Json.mkObj [("enum", jstr e.name), ("stringy", e.stringy), ("default", jstr n),
      ("members", Json.arr (e.members.map fun m => Json.arr #[jstr m.1, jstr m.2]).toArray)]
  | .other n => Json.mkObj [("other", jstr n)]

def defaultJson : DefaultLit → Json
  | .emptyStr => "emptyStr" | .emptyMarkup => "emptyMarkup" | .false => "false"
  | .zeroInt => "zeroInt" | .zeroFloat => "zeroFloat" | .none => "none"
  | .selectorEmpty => "selectorEmpty"
  | .member n => Json.mkObj [("member", jstr n)]
  | .other r => Json.mkObj [("other", r)]

def rowJson (r : Row) : Json :=
  Json.mkObj [("cls", r.cls), ("pyname", r.pyname), ("owner", r.owner), ("kind", kindJson r.desc.kind),
    ("attr", jstr r.desc.attr), ("writable", r.desc.writable), ("default", defaultJson r.default),
    ("wf", r.wf)]

/-- the model's own instance has `F = N = T = Str` definitionally -/
def valJson (o : Json) : PyVal (mkParams o) → Json
  | .none => Json.mkObj [("t", "none")]
  | .bool b => Json.mkObj [("t", "bool"), ("v", b)]
  | .int i => Json.mkObj [("t", "int"), ("v", toString i)]
  | .float f => Json.mkObj [("t", "float"), ("v", jstr (reprOfFloat f))]
  | .str s => Json.mkObj [("t", "str"), ("v", jstr s)]
  | .member c n v => Json.mkObj [("t", "member"), ("cls", jstr c), ("name", jstr n), ("value", jstr v)]
  | .naive n => Json.mkObj [("t", "naive"), ("v", jstr n)]
  | .aware t => Json.mkObj [("t", "aware"), ("f", dtJson t)]
  | .selector r => Json.mkObj [("t", "selector"), ("v", jstr r)]
  | .other => Json.mkObj [("t", "other")]

def resJson {α : Type} (f : α → Json) : Except Err α → Json
  | .ok a => Json.mkObj [("ok", f a)]
  | .error e => Json.mkObj [("exc", errName e)]

def descOf (j : Json) : Except String Desc := do
  match j.getObjValAs? Nat "row" with
  | .ok i =>
    match Capella.Gen.Pods.podTable[i]? with
    | some r => pure r.desc
    | none => throw s!"no row {i}"
  | .error _ => throw "row index expected"

def kidsOf (j : Json) (k : String) : Except String Spec := do
  let a ← j.getObjValAs? (Array Json) k
  a.toList.mapM fun e =>
    match e with
    | .arr #[.str t, .str x] => pure ⟨t.toList, some x.toList⟩
    | .arr #[.str t, .null] => pure ⟨t.toList, none⟩
    | _ => throw "bad kid"

def jkids (s : Spec) : Json :=
  Json.arr (s.map fun c => Json.arr #[jstr c.tag, match c.text with | some t => jstr t | none => Json.null]).toArray

partial def nodeOfJson (j : Json) : Except String Node := do
  let tag ← getStr j "tag"
  let href : Option Str := match j.getObjVal? "href" with | .ok (.str h) => some h.toList | _ => none
  let kids ← (← j.getObjValAs? (Array Json) "kids").toList.mapM nodeOfJson
  pure (.mk tag href (← getStr j "text") kids (← getStr j "tail"))

def fragsOfJson (j : Json) : Except String Frags := do
  let lead : Option Str := match j.getObjVal? "lead" with | .ok (.str h) => some h.toList | _ => none
  let nodes ← (← j.getObjValAs? (Array Json) "nodes").toList.mapM nodeOfJson
  pure ⟨lead, nodes⟩

partial def nodeJson : Node → Json
  | .mk tag href text kids tail =>
    Json.mkObj [("tag", jstr tag), ("href", match href with | some h => jstr h | none => Json.null),
      ("text", jstr text), ("kids", Json.arr (kids.map nodeJson).toArray), ("tail", jstr tail)]

def fragsJson (f : Frags) : Json :=
  Json.mkObj [("lead", match f.lead with | some h => jstr h | none => Json.null),
    ("nodes", Json.arr (f.nodes.map nodeJson).toArray)]

/-- `{"lead": s, "links": [[id, name, tail], …]}` -/
def ltOfJson (j : Json) : Except String LT := do
  let lead ← getStr j "lead"
  let links ← (← j.getObjValAs? (Array (Array String)) "links").toList.mapM fun a =>
    match a with
    | #[i, n, t] => pure (⟨i.toList, n.toList, t.toList⟩ : Link)
    | _ => throw "bad link"
  pure ⟨lead, links⟩

def handle (op : String) (j : Json) : Except String Json := do
  match op with
  | "table.size" => pure (Json.num Capella.Gen.Pods.podTable.length)
  | "table.row" =>
    let i ← getNat j "i"
    match Capella.Gen.Pods.podTable[i]? with
    | some r => pure (rowJson r)
    | none => throw s!"no row {i}"
  | "table.specslots" =>
    pure (Json.arr (Capella.Gen.Pods.specSlots.map fun r => Json.arr #[Json.str r.1, Json.str r.2.1, Json.str r.2.2]).toArray)
  | "pod.setget" =>
    -- set (or delete when the value is `none`), then get; also a get before
    let o := (j.getObjVal? "oracle").toOption.getD (Json.mkObj [])
    let d ← descOf j
    let a ← getAttrs j "attrs"
    let v ← valOfJson (mkParams o) rfl rfl rfl (← j.getObjVal? "value")
    let before := Capella.Pods.get (mkParams o) d a
    let r := Capella.Pods.set (mkParams o) d a v
    let after : Json := match r with
      | .ok a' => resJson (valJson o) (Capella.Pods.get (mkParams o) d a')
      | .error _ => Json.null
    let isoCls (a : Attrs) : Json :=
      match d.kind, a.get d.attr with
      | .datetime, some data =>
        match isoParse (reGet data) with
        | .ok _ => "ok" | .bad => "bad" | .foreign => "foreign"
      | _, _ => Json.null
    pure (Json.mkObj [("before", resJson (valJson o) before), ("set", resJson jattrs r), ("after", after),
      ("valid", valid (mkParams o) d v),
      ("denote", valJson o (denote (mkParams o) d v)),
      ("isoBefore", isoCls a), ("isoAfter", match r with | .ok a' => isoCls a' | .error _ => Json.null)])
  | "pod.get" =>
    let o := (j.getObjVal? "oracle").toOption.getD (Json.mkObj [])
    let d ← descOf j
    let a ← getAttrs j "attrs"
    pure (resJson (valJson o) (Capella.Pods.get (mkParams o) d a))
  | "int.repr" =>
    let s ← j.getObjValAs? String "v"
    match s.toInt? with
    | some i => pure (jstr (pyIntRepr i))
    | none => throw "bad int"
  | "int.parse" =>
    match pyIntParse (← getStr j "s") with
    | some i => pure (Json.str (toString i))
    | none => pure Json.null
  | "re.set" => pure (jstr (reSet (← getStr j "s")))
  | "re.get" => pure (jstr (reGet (← getStr j "s")))
  | "xml.ok" => pure (Json.bool (xmlOk (← getStr j "s")))
  | "spec" =>
    let o := (j.getObjVal? "oracle").toOption.getD (Json.mkObj [])
    let P := mkParams o
    let kids ← kidsOf j "kids"
    let steps ← j.getObjValAs? (Array Json) "steps"
    let mut ops : List SpecOp := []
    for st in steps do
      let so ← st.getObjValAs? String "o"
      match so with
      | "get" => ops := ops ++ [.get (← getStr st "k")]
      | "set" => ops := ops ++ [.set (← getStr st "k") (← getStr st "v")]
      | "del" => ops := ops ++ [.del (← getStr st "k")]
      | "keys" => ops := ops ++ [.keys]
      | "len" => ops := ops ++ [.len]
      | x => throw s!"unknown step {x}"
    let (s, rs) := specRun P kids ops
    let resJ : SpecRes → Json
      | .val v => Json.mkObj [("ok", jstr v)]
      | .unit => Json.mkObj [("ok", Json.null)]
      | .keys l => Json.mkObj [("ok", jstrs l)]
      | .len n => Json.mkObj [("ok", Json.num n)]
      | .err e => Json.mkObj [("exc", errName e)]
    -- which linked-text strings the model's own codec handled (the rest came from the oracle tables)
    let escKeys := (getTable o "esc").map (·.1)
    let unescKeys := (getTable o "unesc").map (·.1)
    let wp : Bool := decide (WellPaired kids)
    -- on a well-paired specification the reference dict must give the same answers (theorem `specRun_refines`)
    let dictSame : Json := if wp then Json.bool (decide ((dictRun P (absDict kids) ops).2 = rs)) else Json.null
    pure (Json.mkObj [("results", Json.arr (rs.map resJ).toArray), ("kids", jkids s),
      ("wellPaired", wp), ("dictSame", dictSame),
      ("escModelled", Json.num (escKeys.filter fun k => (parseSub k).isSome).length),
      ("escForeign", Json.num (escKeys.filter fun k => (parseSub k).isNone).length),
      ("unescModelled", Json.num (unescKeys.filter fun k => (parseSub k).isSome).length),
      ("unescForeign", Json.num (unescKeys.filter fun k => (parseSub k).isNone).length)])
  | "lt.parse" =>
    match parseSub (← getStr j "s") with
    | some f => pure (fragsJson f)
    | none => pure Json.null
  | "lt.escape.frags" =>
    pure (resJson jstr (escapeFrags (← fragsOfJson (← j.getObjVal? "frags"))))
  | "lt.unescape.frags" =>
    pure (resJson jstr (unescapeFrags (lookOf j "look") (← fragsOfJson (← j.getObjVal? "frags"))))
  | "lt.escape" =>
    match escapeLinked (← getStr j "s") with
    | some r => pure (resJson jstr r)
    | none => pure Json.null
  | "lt.unescape" =>
    match unescapeLinked (lookOf j "look") (← getStr j "s") with
    | some r => pure (resJson jstr r)
    | none => pure Json.null
  | "lt.value" =>
    -- a canonical value given as tokens: its HTML form, its stored form, what reading shows
    let v ← ltOfJson j
    let look := lookOf j "look"
    pure (Json.mkObj [("value", jstr (renderValue v)), ("raw", jstr (renderRaw v.dropLead)),
      ("view", jstr (renderValue (view look v.dropLead))), ("ok", v.ok), ("live", allLive look v),
      ("leadKept", v.leadKept), ("noMalformed", noMalformed look v),
      ("readBack", match readBack look (renderValue v) with
        | some r => resJson jstr r | none => Json.null)])
  | "dt.format" =>
    let t ← dtOfJson j
    pure (Json.mkObj [("iso", jstr (isoFormat t)), ("stored", jstr (reSet (isoFormat t))), ("valid", t.valid),
      ("isoOk", t.isoOk), ("trunc", dtJson (truncMs t))])
  | "dt.parse" =>
    match isoParse (← getStr j "s") with
    | .ok d => pure (Json.mkObj [("ok", dtJson d)])
    | .bad => pure "bad"
    | .foreign => pure "foreign"
  | _ => throw s!"unknown op {op}"

end Capella.Driver.Pods

/-- `lake env lean --run Capella/Driver/Pods.lean` -/
def main : IO Unit := Capella.Driver.runLoop Capella.Driver.Pods.handle
