import Capella.Driver.Util
import Capella.Model.Pods
import Capella.Gen.Pods
/-!
Protocol driver for the POD model (property C07).

The parameters of the model (what CPython / libxml2 compute) are supplied per request as *oracle
tables* (`"oracle": {"repair": [[s, r|null], …], "fparse": …}`) recorded by the harness from the
implementation; a lookup miss yields a sentinel that can never agree with the implementation.
Descriptors are taken from the generated table by row index, so a run ties model, table and code.
-/
namespace Capella.Driver.Pods
open Lean Capella.Driver Capella.Pods

def missS : Str := "\x00ORACLE-MISS".toList

def lookup {α : Type} (tbl : List (Str × α)) (k : Str) : Option α :=
  (tbl.find? (fun p => p.1 = k)).map (·.2)

/-- `[[key, value|null], …]` -/
def getTable (j : Json) (k : String) : List (Str × Option Str) :=
  match j.getObjVal? k with
  | .ok (.arr a) =>
    a.toList.filterMap fun e =>
      match e with
      | .arr #[.str x, .str y] => some (x.toList, some y.toList)
      | .arr #[.str x, .null] => some (x.toList, none)
      | _ => none
  | _ => []

/-- floats are identified by their `repr`; "nan"/"inf"/"-inf" are the non-finite ones -/
def floatOfRepr (s : Str) : FloatV Str :=
  if s = "nan".toList then .nan else if s = "inf".toList then .inf
  else if s = "-inf".toList then .ninf else .fin s

def reprOfFloat : FloatV Str → Str
  | .nan => "nan".toList | .inf => "inf".toList | .ninf => "-inf".toList | .fin s => s

def mkParams (o : Json) : Params :=
  let fparse := getTable o "fparse"
  let fofint := getTable o "fofint"
  let localize := getTable o "localize"
  let iso := getTable o "iso"
  let fromiso := getTable o "fromiso"      -- value: "A<tid>" aware, "N<nid>" naive, null error
  let trunc := getTable o "trunc"
  let repair := getTable o "repair"
  let esc := getTable o "esc"
  let unesc := getTable o "unesc"
  { F := Str
    fZero := "0.0".toList
    fRepr := id
    fParse := fun s => match lookup fparse s with
      | some (some r) => some (floatOfRepr r) | some none => none | none => some (.fin missS)
    fOfInt := fun i => match lookup fofint (toString i).toList with
      | some (some r) => some r | some none => none | none => some missS
    fIsZero := fun s => s = "0.0".toList || s = "-0.0".toList
    N := Str
    T := Str
    localize := fun n => match lookup localize n with
      | some r => r | none => some missS
    iso := fun t => match lookup iso t with
      | some (some r) => r | _ => missS
    fromIso := fun s => match lookup fromiso s with
      | some (some ('A' :: t)) => some (.inr t)
      | some (some ('N' :: n)) => some (.inl n)
      | some none => none
      | _ => some (.inr missS)
    truncMs := fun t => match lookup trunc t with
      | some (some r) => r | _ => missS
    repair := fun s => match lookup repair s with
      | some r => r | none => some missS
    xhtml := (o.getObjValAs? Bool "xhtml").toOption.getD false
    escLinked := fun s => match lookup esc s with
      | some r => r | none => some missS
    unescLinked := fun s => match lookup unesc s with
      | some (some r) => r | _ => missS }

def valOfJson (P : Params) (hF : P.F = Str) (hN : P.N = Str) (hT : P.T = Str) (j : Json) :
    Except String (PyVal P) := do
  let t ← j.getObjValAs? String "t"
  match t with
  | "none" => pure .none
  | "bool" => pure (.bool (← getBool j "v"))
  | "int" =>
    let s ← j.getObjValAs? String "v"
    match s.toInt? with
    | some i => pure (.int i)
    | none => throw s!"bad int {s}"
  | "float" => pure (.float (hF ▸ floatOfRepr (← getStr j "v")))
  | "str" => pure (.str (← getStr j "v"))
  | "member" => pure (.member (← getStr j "cls") (← getStr j "name") (← getStr j "value"))
  | "naive" => pure (.naive (hN ▸ (← getStr j "v")))
  | "aware" => pure (.aware (hT ▸ (← getStr j "v")))
  | "selector" => pure (.selector (← getStr j "v"))
  | "other" => pure .other
  | x => throw s!"unknown value type {x}"

def errName : Err → String
  | .typeError => "TypeError" | .valueError => "ValueError" | .keyError => "KeyError"
  | .assertionError => "AssertionError" | .attributeError => "AttributeError"
  | .overflowError => "OverflowError" | .unsupported => "Unsupported"

def jattrs (a : Attrs) : Json := Json.arr (a.map fun p => Json.arr #[jstr p.1, jstr p.2]).toArray

def getAttrs (j : Json) (k : String) : Except String Attrs := do
  let a ← j.getObjValAs? (Array (Array String)) k
  a.toList.mapM fun p =>
    match p with
    | #[x, y] => pure (x.toList, y.toList)
    | _ => throw "bad attrs"

def kindJson : Kind → Json
  | .string => "string" | .html => "html" | .bool => "bool" | .int => "int" | .float => "float"
  | .datetime => "datetime" | .selector => "selector"
  | .enum e n => Json.mkObj [("enum", jstr e.name), ("stringy", e.stringy), ("default", jstr n),
      ("members", Json.arr (e.members.map fun m => Json.arr #[jstr m.1, jstr m.2]).toArray)]
  | .other n => Json.mkObj [("other", jstr n)]

def defaultJson : DefaultLit → Json
  | .emptyStr => "emptyStr" | .emptyMarkup => "emptyMarkup" | .false => "false"
  | .zeroInt => "zeroInt" | .zeroFloat => "zeroFloat" | .none => "none"
  | .selectorEmpty => "selectorEmpty"
  | .member n => Json.mkObj [("member", jstr n)]
  | .other r => Json.mkObj [("other", r)]

def rowJson (r : Row) : Json :=
  Json.mkObj [("cls", r.cls), ("pyname", r.pyname), ("owner", r.owner), ("kind", kindJson r.desc.kind),
    ("attr", jstr r.desc.attr), ("writable", r.desc.writable), ("default", defaultJson r.default),
    ("wf", r.wf)]

/-- the model's own instance has `F = N = T = Str` definitionally -/
def valJson (o : Json) : PyVal (mkParams o) → Json
  | .none => Json.mkObj [("t", "none")]
  | .bool b => Json.mkObj [("t", "bool"), ("v", b)]
  | .int i => Json.mkObj [("t", "int"), ("v", toString i)]
  | .float f => Json.mkObj [("t", "float"), ("v", jstr (reprOfFloat f))]
  | .str s => Json.mkObj [("t", "str"), ("v", jstr s)]
  | .member c n v => Json.mkObj [("t", "member"), ("cls", jstr c), ("name", jstr n), ("value", jstr v)]
  | .naive n => Json.mkObj [("t", "naive"), ("v", jstr n)]
  | .aware t => Json.mkObj [("t", "aware"), ("v", jstr t)]
  | .selector r => Json.mkObj [("t", "selector"), ("v", jstr r)]
  | .other => Json.mkObj [("t", "other")]

def resJson {α : Type} (f : α → Json) : Except Err α → Json
  | .ok a => Json.mkObj [("ok", f a)]
  | .error e => Json.mkObj [("exc", errName e)]

def descOf (j : Json) : Except String Desc := do
  match j.getObjValAs? Nat "row" with
  | .ok i =>
    match Capella.Gen.Pods.podTable[i]? with
    | some r => pure r.desc
    | none => throw s!"no row {i}"
  | .error _ => throw "row index expected"

def kidsOf (j : Json) (k : String) : Except String Spec := do
  let a ← j.getObjValAs? (Array Json) k
  a.toList.mapM fun e =>
    match e with
    | .arr #[.str t, .str x] => pure ⟨t.toList, some x.toList⟩
    | .arr #[.str t, .null] => pure ⟨t.toList, none⟩
    | _ => throw "bad kid"

def jkids (s : Spec) : Json :=
  Json.arr (s.map fun c => Json.arr #[jstr c.tag, match c.text with | some t => jstr t | none => Json.null]).toArray

def handle (op : String) (j : Json) : Except String Json := do
  match op with
  | "table.size" => pure (Json.num Capella.Gen.Pods.podTable.length)
  | "table.row" =>
    let i ← getNat j "i"
    match Capella.Gen.Pods.podTable[i]? with
    | some r => pure (rowJson r)
    | none => throw s!"no row {i}"
  | "pod.setget" =>
    -- set (or delete when the value is `none`), then get; also a get before
    let o := (j.getObjVal? "oracle").toOption.getD (Json.mkObj [])
    let d ← descOf j
    let a ← getAttrs j "attrs"
    let v ← valOfJson (mkParams o) rfl rfl rfl (← j.getObjVal? "value")
    let before := Capella.Pods.get (mkParams o) d a
    let r := Capella.Pods.set (mkParams o) d a v
    let after : Json := match r with
      | .ok a' => resJson (valJson o) (Capella.Pods.get (mkParams o) d a')
      | .error _ => Json.null
    pure (Json.mkObj [("before", resJson (valJson o) before), ("set", resJson jattrs r), ("after", after),
      ("valid", valid (mkParams o) d v),
      ("denote", valJson o (denote (mkParams o) d v))])
  | "pod.get" =>
    let o := (j.getObjVal? "oracle").toOption.getD (Json.mkObj [])
    let d ← descOf j
    let a ← getAttrs j "attrs"
    pure (resJson (valJson o) (Capella.Pods.get (mkParams o) d a))
  | "int.repr" =>
    let s ← j.getObjValAs? String "v"
    match s.toInt? with
    | some i => pure (jstr (pyIntRepr i))
    | none => throw "bad int"
  | "int.parse" =>
    match pyIntParse (← getStr j "s") with
    | some i => pure (Json.str (toString i))
    | none => pure Json.null
  | "re.set" => pure (jstr (reSet (← getStr j "s")))
  | "re.get" => pure (jstr (reGet (← getStr j "s")))
  | "xml.ok" => pure (Json.bool (xmlOk (← getStr j "s")))
  | "spec" =>
    let o := (j.getObjVal? "oracle").toOption.getD (Json.mkObj [])
    let P := mkParams o
    let kids ← kidsOf j "kids"
    let steps ← j.getObjValAs? (Array Json) "steps"
    let mut s := kids
    let mut outs : Array Json := #[]
    for st in steps do
      let so ← st.getObjValAs? String "o"
      match so with
      | "get" =>
        outs := outs.push (resJson jstr (specGet P s (← getStr st "k")))
      | "set" =>
        match specSet P s (← getStr st "k") (← getStr st "v") with
        | .ok s' => s := s'; outs := outs.push (Json.mkObj [("ok", Json.null)])
        | .error e => outs := outs.push (Json.mkObj [("exc", errName e)])
      | "del" =>
        match specDel s (← getStr st "k") with
        | .ok s' => s := s'; outs := outs.push (Json.mkObj [("ok", Json.null)])
        | .error e => outs := outs.push (Json.mkObj [("exc", errName e)])
      | "keys" => outs := outs.push (Json.mkObj [("ok", jstrs (specKeys s))])
      | x => throw s!"unknown step {x}"
    pure (Json.mkObj [("results", Json.arr outs), ("kids", jkids s)])
  | _ => throw s!"unknown op {op}"

end Capella.Driver.Pods

/-- `lake env lean --run Capella/Driver/Pods.lean` -/
def main : IO Unit := Capella.Driver.runLoop Capella.Driver.Pods.handle
