import Capella.Driver.Util
import Capella.Model.Delete
open Lean Capella.Driver Capella.Delete
namespace Capella.Driver.Delete

def kindOf : String → Except String RefKind
  | "attrList" => pure .attrList | "attrSingle" => pure .attrSingle | "linkElem" => pure .linkElem
  | "refusing" => pure .refusing | "readOnly" => pure .readOnly | "unexposed" => pure .unexposed
  | k => throw s!"unknown ref kind {k}"

def refOf (j : Json) : Except String Ref := do
  pure { owner := ← j.getObjValAs? Nat "owner", slot := ← j.getObjValAs? String "slot",
         kind := ← kindOf (← j.getObjValAs? String "kind"), target := ← j.getObjValAs? Nat "target",
         carrier := ← j.getObjValAs? Nat "carrier" }

def jnat (n : Nat) : Json := Json.num (JsonNumber.fromNat n)

/-- `delete {elems, refs, sub}` → `{"elems": [...], "refs": [indices of surviving input refs]}` or `"NotImplementedError"` -/
def handle (op : String) (j : Json) : Except String Json := do
  match op with
  | "delete" =>
    let elems ← j.getObjValAs? (Array Nat) "elems"
    let refs ← (← j.getObjValAs? (Array Json) "refs").toList.mapM refOf
    let sub ← j.getObjValAs? (Array Nat) "sub"
    -- "local": the members of `sub` that hang below the target in its own fragment file (default: all)
    let loc := match j.getObjValAs? (Array Nat) "local" with | .ok a => a.toList | .error _ => sub.toList
    -- "parentless": the elements to delete that have no parent element (roots of fragment files)
    let orphan := match j.getObjValAs? (Array Nat) "parentless" with | .ok a => a.toList | .error _ => []
    match checked elems.toList orphan (deleteAcrossFragments { elems := elems.toList, refs := refs } sub.toList loc) with
    | .error .notImplemented => pure (Json.str "NotImplementedError")
    | .error .other => pure (Json.str "Error")
    | .ok g =>
      let surviving := (refs.zipIdx.filter (fun (r, _) => r ∈ g.refs)).map (fun (_, i) => jnat i)
      pure (Json.mkObj [("elems", Json.arr (g.elems.map jnat).toArray), ("refs", Json.arr surviving.toArray)])
  | _ => throw s!"unknown op {op}"

end Capella.Driver.Delete

def main : IO Unit := Capella.Driver.runLoop Capella.Driver.Delete.handle
