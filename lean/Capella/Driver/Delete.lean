import Capella.Driver.Util
import Capella.Model.Delete
import Capella.Model.DeclDelete
open Lean Capella.Driver Capella.Delete
namespace Capella.Driver.Delete

def kindOf : String → Except String RefKind
  | "attrList" => pure .attrList | "attrSingle" => pure .attrSingle | "linkElem" => pure .linkElem
  | "refusing" => pure .refusing | "readOnly" => pure .readOnly | "unexposed" => pure .unexposed
  | k => throw s!"unknown ref kind {k}"

def refOf (j : Json) : Except String Ref := do
  pure { owner := ← j.getObjValAs? Nat "owner", slot := ← j.getObjValAs? String "slot",
         kind := ← kindOf (← j.getObjValAs? String "kind"), target := ← j.getObjValAs? Nat "target",
         carrier := ← j.getObjValAs? Nat "carrier" }

def jnat (n : Nat) : Json := Json.num (JsonNumber.fromNat n)

/-- `delete {elems, refs, sub}` → `{"elems": [...], "refs": [indices of surviving input refs]}` or `"NotImplementedError"` -/
def handle (op : String) (j : Json) : Except String Json := do
  match op with
  | "delete" =>
    let elems ← j.getObjValAs? (Array Nat) "elems"
    let refs ← (← j.getObjValAs? (Array Json) "refs").toList.mapM refOf
    let sub ← j.getObjValAs? (Array Nat) "sub"
    -- "local": the members of `sub` that hang below the target in its own fragment file (default: all)
    let loc := match j.getObjValAs? (Array Nat) "local" with | .ok a => a.toList | .error _ => sub.toList
    -- "parentless": the elements to delete that have no parent element (roots of fragment files)
    let orphan := match j.getObjValAs? (Array Nat) "parentless" with | .ok a => a.toList | .error _ => []
    match checked elems.toList orphan (deleteAcrossFragments { elems := elems.toList, refs := refs } sub.toList loc) with
    | .error .notImplemented => pure (Json.str "NotImplementedError")
    | .error .other => pure (Json.str "Error")
    | .ok g =>
      let surviving := (refs.zipIdx.filter (fun (r, _) => r ∈ g.refs)).map (fun (_, i) => jnat i)
      pure (Json.mkObj [("elems", Json.arr (g.elems.map jnat).toArray), ("refs", Json.arr surviving.toArray)])
  | "decl-delete" =>
    -- one `delete:` instruction on one parent (`Model/DeclDelete.lean: operateDelete`):
    -- {elems, refs, subs: [[member, [subtree], [local part]]], parentless, lists: [[attr, [members]]], entries: [[attr, null | [uuids]]]}
    let elems ← j.getObjValAs? (Array Nat) "elems"
    let refs ← (← j.getObjValAs? (Array Json) "refs").toList.mapM refOf
    let subs ← (← j.getObjValAs? (Array Json) "subs").toList.mapM fun t => do
      let a ← t.getArr?
      if h : a.size = 3 then
        let m ← (a[0]).getNat?
        let s ← fromJson? (α := Array Nat) (a[1])
        let l ← fromJson? (α := Array Nat) (a[2])
        pure (m, s.toList, l.toList)
      else throw "subs: triple expected"
    let orphan ← j.getObjValAs? (Array Nat) "parentless"
    let lists ← (← j.getObjValAs? (Array Json) "lists").toList.mapM fun t => do
      let a ← t.getArr?
      if h : a.size = 2 then
        let attr ← (a[0]).getStr?
        let ms ← fromJson? (α := Array Nat) (a[1])
        pure (attr, ms.toList)
      else throw "lists: pair expected"
    let entries ← (← j.getObjValAs? (Array Json) "entries").toList.mapM fun t => do
      let a ← t.getArr?
      if h : a.size = 2 then
        let attr ← (a[0]).getStr?
        match a[1] with
        | .null => pure (Capella.DeclDelete.Entry.whole attr)
        | v => do
          let ms ← fromJson? (α := Array Nat) v
          pure (Capella.DeclDelete.Entry.members attr ms.toList)
      else throw "entries: pair expected"
    let c : Capella.DeclDelete.Ctx := { subs := subs, parentless := orphan.toList }
    let r := Capella.DeclDelete.operateDelete c lists { elems := elems.toList, refs := refs } [] entries
    let err := match r.err with
      | none => "ok" | some .notImplemented => "NotImplementedError" | some .keyError => "KeyError"
      | some .valueError => "ValueError" | some .other => "Error"
    let surviving := (refs.zipIdx.filter (fun (q, _) => q ∈ r.g.refs)).map (fun (_, i) => jnat i)
    -- "gone": the members of the touched lists that are no longer in the model (the objects deleted, and members that
    -- were link elements pointing at one of them); "deleted": the objects handed to the per-object deletion, in order
    let gone := ((lists.flatMap (·.2)).filter (fun m => !r.g.elems.contains m)).eraseDups
    pure (Json.mkObj [("outcome", Json.str err), ("deleted", Json.arr (r.deleted.map jnat).toArray),
                      ("gone", Json.arr (gone.map jnat).toArray),
                      ("elems", Json.arr (r.g.elems.map jnat).toArray), ("refs", Json.arr surviving.toArray)])
  | _ => throw s!"unknown op {op}"

end Capella.Driver.Delete

def main : IO Unit := Capella.Driver.runLoop Capella.Driver.Delete.handle
