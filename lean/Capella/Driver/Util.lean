import Lean.Data.Json
/-! Helpers shared by the protocol drivers: one JSON object per line in, one per line out. -/
namespace Capella.Driver
open Lean

abbrev Str := List Char

def getStr (j : Json) (k : String) : Except String Str := do
  let s ← (j.getObjValAs? String k)
  pure s.toList

def getStrList (j : Json) (k : String) : Except String (List Str) := do
  let a ← (j.getObjValAs? (Array String) k)
  pure (a.toList.map String.toList)

def getNat (j : Json) (k : String) : Except String Nat := j.getObjValAs? Nat k
def getInt (j : Json) (k : String) : Except String Int := j.getObjValAs? Int k
def getBool (j : Json) (k : String) : Except String Bool := j.getObjValAs? Bool k

def jstr (s : Str) : Json := Json.str (String.ofList s)
def jstrs (l : List Str) : Json := Json.arr (l.map jstr).toArray

def utf8 (s : String) : List UInt8 := s.toUTF8.toList

end Capella.Driver
