import Lean.Data.Json
/-! Helpers shared by the protocol drivers: one JSON object per line in, one per line out. -/
namespace Capella.Driver
open Lean

abbrev Str := List Char

def getStr (j : Json) (k : String) : Except String Str := do
  let s ← (j.getObjValAs? String k)
  pure s.toList

def getStrList (j : Json) (k : String) : Except String (List Str) := do
  let a ← (j.getObjValAs? (Array String) k)
  pure (a.toList.map String.toList)

def getNat (j : Json) (k : String) : Except String Nat := j.getObjValAs? Nat k
def getInt (j : Json) (k : String) : Except String Int := j.getObjValAs? Int k
def getBool (j : Json) (k : String) : Except String Bool := j.getObjValAs? Bool k

def jstr (s : Str) : Json := Json.str (String.ofList s)
def jstrs (l : List Str) : Json := Json.arr (l.map jstr).toArray

def utf8 (s : String) : List UInt8 := s.toUTF8.toList


/-- answer one protocol line: `{"ok": …}` or `{"err": …}` -/
def answer (dispatch : String → Json → Except String Json) (line : String) : String :=
  match Json.parse line with
  | .error e => (Json.mkObj [("err", Json.str s!"parse: {e}")]).compress
  | .ok j =>
    match (do let op ← j.getObjValAs? String "op"; dispatch op j) with
    | .ok r => (Json.mkObj [("ok", r)]).compress
    | .error e => (Json.mkObj [("err", Json.str e)]).compress

partial def loop (dispatch : String → Json → Except String Json)
    (h : IO.FS.Stream) (out : IO.FS.Stream) : IO Unit := do
  let line ← h.getLine
  if line.isEmpty then return ()
  let l := line.trimAscii.toString
  if !l.isEmpty then out.putStrLn (answer dispatch l)
  loop dispatch h out

/-- the whole driver: stdin lines → stdout lines -/
def runLoop (dispatch : String → Json → Except String Json) : IO Unit := do
  let out ← IO.getStdout
  loop dispatch (← IO.getStdin) out
  out.flush

end Capella.Driver
