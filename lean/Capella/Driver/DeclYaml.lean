import Capella.Driver.Util
import Capella.Model.DeclYaml
/-!
Protocol driver for the YAML layer of `decl`.

dval: `{"s":str}|{"plain":[tag,str]}|{"p":id}|{"u":uuid}|{"f":[[k,dval]…]}|{"n":[ty,[[k,dval]…]]}|{"m":[[k,dval]…]}|{"l":[dval…]}`
node: `{"sc":[tag,str]}|{"mp":[tag,[[node,node]…]]}|{"sq":[node…]}`
ops: `yaml.represent {v}` → node; `yaml.construct {n}` → `{"ok":dval}|{"error":kind}`;
`yaml.dump {instrs:[dval…], meta:[[k,dval]…]}` → [node…]; `yaml.load {docs:[node…]}` → `{"meta","instrs"}|{"error":…}`;
`pep440 {s}` → bool; `verify {present,written_by,url,revision,entrypoint,info_url,info_rev,info_entrypoint,new_enough}` → kind
-/
namespace Capella.Driver.DeclYaml
open Lean Capella.Driver Capella.DeclYaml

def str2 (a : Array Json) : Except String (Str × Str) := do
  match a.toList with
  | [x, y] => do pure ((← x.getStr?).toList, (← y.getStr?).toList)
  | _ => throw "pair of strings expected"

partial def dval (j : Json) : Except String DVal := do
  let kvs (x : Json) : Except String (List (Str × DVal)) := do
    (← x.getArr?).toList.mapM fun e => do
      match (← e.getArr?).toList with
      | [k, v] => do pure ((← k.getStr?).toList, ← dval v)
      | _ => throw "pair expected"
  match j.getObjVal? "s", j.getObjVal? "plain", j.getObjVal? "p", j.getObjVal? "u" with
  | .ok v, _, _, _ => do pure (.str (← v.getStr?).toList)
  | _, .ok v, _, _ => do let (t, s) ← str2 (← v.getArr?); pure (.plain t s)
  | _, _, .ok v, _ => do pure (.promise (← v.getStr?).toList)
  | _, _, _, .ok v => do pure (.uuid (← v.getStr?).toList)
  | _, _, _, _ =>
    match j.getObjVal? "f", j.getObjVal? "n", j.getObjVal? "m", j.getObjVal? "l" with
    | .ok v, _, _, _ => do pure (.find (← kvs v))
    | _, .ok v, _, _ => do
      match (← v.getArr?).toList with
      | [t, kw] => do pure (.newobj (← dval t) (← kvs kw))
      | _ => throw "newobj: [ty, kw]"
    | _, _, .ok v, _ => do pure (.map (← kvs v))
    | _, _, _, .ok v => do pure (.list (← (← v.getArr?).toList.mapM dval))
    | _, _, _, _ => throw "dval expected"

partial def node (j : Json) : Except String Node := do
  match j.getObjVal? "sc", j.getObjVal? "mp", j.getObjVal? "sq" with
  | .ok v, _, _ => do let (t, s) ← str2 (← v.getArr?); pure (.scalar t s)
  | _, .ok v, _ => do
    match (← v.getArr?).toList with
    | [t, kvs] => do
      let l ← (← kvs.getArr?).toList.mapM fun e => do
        match (← e.getArr?).toList with
        | [k, x] => do pure (← node k, ← node x)
        | _ => throw "pair expected"
      pure (.mapping (← t.getStr?).toList l)
    | _ => throw "mapping: [tag, pairs]"
  | _, _, .ok v => do
    match (← v.getArr?).toList with
    | [t, l] => do pure (.seq (← t.getStr?).toList (← (← l.getArr?).toList.mapM node))
    | _ => throw "seq: [tag, items]"
  | _, _, _ => throw "node expected"

partial def jdval : DVal → Json
  | .str s => Json.mkObj [("s", jstr s)]
  | .plain t s => Json.mkObj [("plain", Json.arr #[jstr t, jstr s])]
  | .promise p => Json.mkObj [("p", jstr p)]
  | .uuid u => Json.mkObj [("u", jstr u)]
  | .find kvs => Json.mkObj [("f", Json.arr (kvs.map fun (k, v) => Json.arr #[jstr k, jdval v]).toArray)]
  | .newobj t kvs => Json.mkObj [("n", Json.arr #[jdval t, Json.arr (kvs.map fun (k, v) => Json.arr #[jstr k, jdval v]).toArray])]
  | .map kvs => Json.mkObj [("m", Json.arr (kvs.map fun (k, v) => Json.arr #[jstr k, jdval v]).toArray)]
  | .list l => Json.mkObj [("l", Json.arr (l.map jdval).toArray)]

partial def jnode : Node → Json
  | .scalar t v => Json.mkObj [("sc", Json.arr #[jstr t, jstr v])]
  | .mapping t kvs => Json.mkObj [("mp", Json.arr #[jstr t, Json.arr (kvs.map fun (k, v) => Json.arr #[jnode k, jnode v]).toArray])]
  | .seq t l => Json.mkObj [("sq", Json.arr #[jstr t, Json.arr (l.map jnode).toArray])]

def yerr : YErr → String
  | .typeError => "typeError" | .valueError => "valueError" | .unhashable => "unhashable"

def optS (j : Json) (k : String) : Except String (Option Str) :=
  match j.getObjVal? k with
  | .ok .null => pure none
  | .ok v => do pure (some (← v.getStr?).toList)
  | .error _ => pure none

def handle (op : String) (j : Json) : Except String Json := do
  match op with
  | "yaml.represent" => pure (jnode (represent (← dval (← j.getObjVal? "v"))))
  | "yaml.construct" =>
    match construct (← node (← j.getObjVal? "n")) with
    | .ok v => pure (Json.mkObj [("ok", jdval v)])
    | .error e => pure (Json.mkObj [("error", yerr e)])
  | "yaml.dump" =>
    let instrs ← (← (← j.getObjVal? "instrs").getArr?).toList.mapM dval
    let md ← dval (Json.mkObj [("m", ← j.getObjVal? "meta")])
    match md with
    | .map kvs => pure (Json.arr ((dumpDocs instrs kvs).map jnode).toArray)
    | _ => throw "meta"
  | "yaml.load" =>
    let docs ← (← (← j.getObjVal? "docs").getArr?).toList.mapM node
    match loadWithMetadata docs with
    | .ok (m, i) => pure (Json.mkObj [("meta", jdval (.map m)), ("instrs", jdval (.list i))])
    | .error (.yaml e) => pure (Json.mkObj [("error", yerr e)])
    | .error .count => pure (Json.mkObj [("error", "count")])
    | .error .shape => pure (Json.mkObj [("error", "shape")])
  | "pep440" => pure (Json.bool (isPep440 (← getStr j "s")))
  | "verify" =>
    let m : Meta := {
      present := ← getBool j "present", writtenBy := ← getStr j "written_by",
      url := ← optS j "url", revision := ← optS j "revision", entrypoint := ← getStr j "entrypoint" }
    let info : Info := { url := ← optS j "info_url", revHash := ← optS j "info_rev", entrypoint := ← getStr j "info_entrypoint" }
    match verifyMetadata (← getBool j "new_enough") info m with
    | .ok () => pure (Json.str "ok")
    | .error .noMetadata => pure (Json.str "noMetadata")
    | .error .noWriter => pure (Json.str "noWriter")
    | .error .malformedVersion => pure (Json.str "malformedVersion")
    | .error .tooOld => pure (Json.str "tooOld")
    | .error .url => pure (Json.str "url")
    | .error .revision => pure (Json.str "revision")
    | .error .entrypoint => pure (Json.str "entrypoint")
  | _ => throw s!"unknown op {op}"

end Capella.Driver.DeclYaml

/-- `lake env lean --run Capella/Driver/DeclYaml.lean` -/
def main : IO Unit := Capella.Driver.runLoop Capella.Driver.DeclYaml.handle
