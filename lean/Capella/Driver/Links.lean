import Capella.Driver.Util
import Capella.Model.Links
namespace Capella.Driver.Links
open Lean Capella.Driver Capella.Path Capella.Links

def errName : Err → String
  | .valueError => "ValueError"
  | .keyMissing => "KeyError"
  | .keyAmbiguous => "Ambiguous"
  | .typeError => "TypeError"

def jexc {α : Type} (f : α → Json) : Except Err α → Json
  | .ok a => Json.mkObj [("r", f a)]
  | .error e => Json.mkObj [("e", Json.str (errName e))]

def jopt (o : Option Str) : Json := match o with | some s => jstr s | none => Json.null

def idAttrOf : String → Except String IdAttr
  | "id" => pure .id | "uid" => pure .uid | "xmi:id" => pure .xmiId
  | a => throw s!"unknown id attribute {a}"

def idAttrName : IdAttr → String
  | .id => "id" | .uid => "uid" | .xmiId => "xmi:id"

def getEl (j : Json) : Except String El := do
  let ids ← j.getObjValAs? (Array (Array String)) "ids"
  let ids ← ids.toList.mapM (fun p =>
    match p.toList with
    | [a, v] => do pure ((← idAttrOf a), v.toList)
    | _ => throw "bad id pair")
  let xt ← j.getObjVal? "xtype"
  let xtype ← match xt with
    | Json.null => pure none
    | Json.str s => pure (some s.toList)
    | _ => throw "bad xtype"
  pure ⟨ids, xtype⟩

def jEl (e : El) : Json :=
  Json.mkObj [("ids", Json.arr (e.ids.map (fun p => Json.arr #[Json.str (idAttrName p.1), jstr p.2])).toArray),
              ("xtype", jopt e.xtype)]

def getFrag (j : Json) : Except String Frag := do
  let path ← getStrList j "path"
  let els ← j.getObjValAs? (Array Json) "elems"
  let elems ← els.toList.mapM getEl
  pure ⟨path, elems⟩

def getOptBool (j : Json) : Except String (Option Bool) :=
  match j with
  | Json.null => pure none
  | Json.bool b => pure (some b)
  | _ => throw "bad optional bool"

def nth {α : Type} (l : List α) (i : Nat) (what : String) : Except String α :=
  match l[i]? with
  | some a => pure a
  | none => throw s!"{what} index {i} out of range"

/-- `[tree index, element index]` → the element with the fragment that holds it -/
def member (trees : List Frag) (t : Json) : Except String (Frag × El) := do
  let p ← (fromJson? t : Except String (Array Nat))
  match p.toList with
  | [ti, ei] => do
    let toF ← nth trees ti "tree"
    let b ← nth toF.elems ei "element"
    pure (toF, b)
  | _ => throw "bad target"

def query (trees : List Frag) (q : Json) : Except String Json := do
  let a ← (fromJson? q : Except String (Array Json))
  let l : Loader := ⟨trees⟩
  match a.toList with
  | [Json.str "create", fi, ti, ei, incl] =>
    let fromF ← nth trees (← fromJson? fi) "tree"
    let toF ← nth trees (← fromJson? ti) "tree"
    let b ← nth toF.elems (← fromJson? ei) "element"
    pure (jexc jstr (createLink fromF toF b (← getOptBool incl)))
  | [Json.str "follow", Json.str s] =>
    pure (jexc jEl (followLink l s.toList))
  | [Json.str "follows", Json.str s, Json.bool ign] =>
    pure (jexc (fun es => Json.arr (es.map jEl).toArray) (followLinks l s.toList ign))
  | [Json.str "setlinks", fi, Json.arr ts] =>
    let fromF ← nth trees (← fromJson? fi) "tree"
    let targets ← ts.toList.mapM (member trees)
    pure (jexc (fun ss => jstr (joinSpace ss)) (setLinks fromF targets))
  | [Json.str "attrinsert", fi, Json.arr ts, idx, v] =>
    let fromF ← nth trees (← fromJson? fi) "tree"
    let members ← ts.toList.mapM (member trees)
    pure (jexc (fun ss => jstr (joinSpace ss)) (attrInsert fromF members (← fromJson? idx) (← member trees v)))
  | [Json.str "attrdelete", fi, Json.arr ts, idx] =>
    let fromF ← nth trees (← fromJson? fi) "tree"
    let members ← ts.toList.mapM (member trees)
    pure (jexc (fun ss => jstr (joinSpace ss)) (attrDelete fromF members (← fromJson? idx)))
  | _ => throw "unknown query"

def handle (op : String) (j : Json) : Except String Json := do
  match op with
  | "links.relstr" =>
    pure (jstr (relpathStr (← getStrList j "to") (← getStrList j "from")))
  | "links.quote_path" =>
    pure (jstr (Capella.Quote.quote true (enc (relpathStr (← getStrList j "to") (← getStrList j "from")))))
  | "links.suffix" => pure (jstr (suffix (← getStr j "name")))
  | "links.kind" =>
    pure (Json.str (match kindOf (← getStrList j "path") with
      | .semantic => "SEMANTIC" | .visual => "VISUAL" | .other => "OTHER"))
  | "links.unquote_ref" => pure (jstr (unquoteRef (← getStr j "s")))
  | "links.loadref" => pure (jstrs (loadRef (← getStrList j "path") (← getStr j "ref")))
  | "links.parse" =>
    pure (match parseLink (← getStr j "s") with
      | none => Json.null
      | some lk => Json.arr #[jopt lk.xtype, jopt lk.fragment, jstr lk.ref])
  | "links.words" => pure (jstrs (pyWords (← getStr j "s")))
  | "links.split" => pure (jexc jstrs (splitLinks (← getStr j "s")))
  | "links.batch" =>
    let ts ← j.getObjValAs? (Array Json) "trees"
    let trees ← ts.toList.mapM getFrag
    let qs ← j.getObjValAs? (Array Json) "queries"
    let rs ← qs.toList.mapM (query trees)
    pure (Json.arr rs.toArray)
  | _ => throw s!"unknown op {op}"

end Capella.Driver.Links

/-- `lake env lean --run Capella/Driver/Links.lean` -/
def main : IO Unit := Capella.Driver.runLoop Capella.Driver.Links.handle
