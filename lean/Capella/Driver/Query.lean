import Capella.Driver.Util
import Capella.Model.Query
import Capella.Model.QuerySave
namespace Capella.Driver.Query
open Lean Capella.Driver Capella.Query

def optNat (j : Json) (k : String) : Option Nat :=
  match j.getObjVal? k with
  | .ok v => (v.getNat?).toOption
  | _ => none

def strOr (j : Json) (k : String) : Capella.Query.Str :=
  match j.getObjValAs? String k with
  | .ok s => s.toList
  | _ => []

def boolOr (j : Json) (k : String) (d : Bool) : Bool :=
  match j.getObjValAs? Bool k with
  | .ok b => b
  | _ => d

def parseAttrs (j : Json) : Except String Attrs := do
  let arr ← j.getArr?
  arr.toList.mapM (fun kv => do
    let k ← (← kv.getArrVal? 0).getStr?
    let v ← (← kv.getArrVal? 1).getStr?
    pure (k.toList, v.toList))

def parseRel (j : Json) : Except String Rel := do
  let name ← getStr j "name"
  let k ← j.getObjValAs? String "k"
  match k with
  | "attr" => pure ⟨name, .attr (← getStr j "x")⟩
  | "child" => pure ⟨name, .child (← getStr j "x") (← getStr j "xt") (← getStr j "f")⟩
  | _ => throw s!"unknown relation kind {k}"

def parseNode (j : Json) : Except String (Node × List Rel) := do
  let attrs ← match j.getObjVal? "attrs" with
    | .ok a => parseAttrs a
    | _ => pure []
  let rels ← match j.getObjVal? "rels" with
    | .ok a => do (← a.getArr?).toList.mapM parseRel
    | _ => pure []
  pure ({ uid := strOr j "id", tag := strOr j "tag", xtype := strOr j "xt", attrs := attrs,
          parent := optNat j "p", sem := boolOr j "sem" true, placeholder := boolOr j "ph" false,
          visual := boolOr j "visual" false }, rels)

def parseAtom (j : Json) : Except String Atom :=
  match j.getObjVal? "s" with
  | .ok (Json.str s) => pure (.s s.toList)
  | _ => match j.getObjVal? "i" with
    | .ok v => do pure (.i (← v.getInt?))
    | _ => pure .none

def parseKey (j : Json) : Except String Key :=
  match j with
  | Json.null => pure none
  | _ => match j.getObjVal? "a" with
    | .ok a => do pure (some (.atom (← parseAtom a)))
    | _ => do
      let m ← j.getObjVal? "m"
      let l ← (← m.getArr?).toList.mapM parseAtom
      pure (some (.many l))

def jnats (l : List Nat) : Json := Json.arr (l.map (fun (n : Nat) => Json.num (JsonNumber.fromNat n))).toArray

def halves (rep : Bool) (keys : List (Nat × Key)) (vals : List Atom) : Json :=
  Json.mkObj [
    ("by", jnats ((filterBy rep true (·.2) vals keys).map (·.1))),
    ("ex", jnats ((filterBy rep false (·.2) vals keys).map (·.1)))]

def jrefs (l : List (Nat × Capella.Query.Str × Nat)) : Json :=
  Json.arr (l.map (fun x => Json.arr #[Json.num (JsonNumber.fromNat x.1), jstr x.2.1, Json.num (JsonNumber.fromNat x.2.2)])).toArray

def handle (op : String) (j : Json) : Except String Json := do
  match op with
  | "filter" =>
    let items ← (← (← j.getObjVal? "items").getArr?).toList.mapM parseKey
    let vals ← (← (← j.getObjVal? "vals").getArr?).toList.mapM parseAtom
    let keys := (List.range items.length).zip items
    let one := match single (filterBy true true (·.2) vals keys) with
      | .ok x => Json.num (JsonNumber.fromNat x.1)
      | .error .noMatch => Json.str "KeyError"
      | .error .multiple => Json.str "KeyError"
    pure (Json.mkObj [("repaired", halves true keys vals), ("coded", halves false keys vals), ("single", one)])
  | "search" =>
    let nodes := (← (← (← j.getObjVal? "nodes").getArr?).toList.mapM parseNode).map (·.1)
    let idx ← (← (← j.getObjVal? "index").getArr?).toList.mapM (fun e => do
      let xt ← (← e.getArrVal? 0).getStr?
      let is ← (← (← e.getArrVal? 1).getArr?).toList.mapM (fun n => n.getNat?)
      pure (xt.toList, is))
    let handlers ← getStrList j "handlers"
    let qs ← (← j.getObjVal? "queries").getArr?
    let answers ← qs.toList.mapM (fun q => do
      let args ← getStrList q "args"
      let below := optNat q "below"
      match resolve handlers (args.map TypeArg.str) [] with
      | .error _ => pure (Json.mkObj [("err", Json.str "ValueError")], Json.mkObj [("err", Json.str "ValueError")])
      | .ok xts =>
        let sorted := match xts with
          | [xt] => indexSortedB idx xt
          | _ => false
        pure (Json.mkObj [("ok", jnats (search nodes idx xts below)), ("sorted", Json.bool sorted)],
              Json.mkObj [("ok", jnats (scan nodes xts below))]))
    pure (Json.mkObj [("consistent", Json.bool (indexConsistentB nodes idx)),
      ("results", Json.arr (answers.map (·.1)).toArray), ("scans", Json.arr (answers.map (·.2)).toArray)])
  | "saveindex" =>
    -- the state right after `save()`: per semantic fragment, does `update_namespaces` replace the root
    -- (prefixes declared before vs. prefixes in use) and what does the rebuilt type index look like
    let nodes := (← (← (← j.getObjVal? "nodes").getArr?).toList.mapM parseNode).map (·.1)
    let typed := typedItems nodes
    let frs ← (← (← j.getObjVal? "frags").getArr?).toList.mapM (fun f => do
      let lo ← f.getObjValAs? Nat "lo"
      let hi ← f.getObjValAs? Nat "hi"
      let declared ← getStrList f "declared"
      let items := typed.filter (fun p => decide (lo ≤ p.1) && decide (p.1 < hi))
      pure (Json.mkObj [("replace", Json.bool (needsNewRoot declared items)),
        ("rebuilt", Json.arr ((rebuildOf items).map (fun p => Json.arr #[jstr p.1, jnats p.2])).toArray)]))
    pure (Json.mkObj [("frags", Json.arr frs.toArray)])
  | "findrefs" =>
    let parsed ← (← (← j.getObjVal? "nodes").getArr?).toList.mapM parseNode
    let nodes := parsed.map (·.1)
    let relArr := (parsed.map (·.2)).toArray
    let rels : Nat → List Rel := fun i => relArr.getD i []
    let targets ← getStrList j "targets"
    let ys := targets.map (fun u => lookupId nodes u)
    -- `relTargets nodes i r` does not depend on the target: evaluated once per (element, relation)
    let table : Array (List (Rel × Option (List Nat))) :=
      ((List.range nodes.length).map (fun i => (rels i).map (fun r => (r, relTargets nodes i r)))).toArray
    let val : Nat → Rel → Option (List Nat) := fun i r =>
      match (table.getD i []).find? (fun e => e.1 == r) with
      | some e => e.2
      | none => relTargets nodes i r
    pure (Json.mkObj [
      ("results", Json.arr (ys.map (fun y => match y with
        | some y => jrefs (findRefsV nodes val rels y) | none => Json.null)).toArray),
      ("brute", Json.arr (ys.map (fun y => match y with
        | some y => jrefs (bruteRefsV nodes val rels y) | none => Json.null)).toArray)])
  | _ => throw s!"unknown op {op}"

end Capella.Driver.Query

/-- `lake env lean --run Capella/Driver/Query.lean` -/
def main : IO Unit := Capella.Driver.runLoop Capella.Driver.Query.handle
