import Capella.Driver.Util
import Capella.Model.CoupledList
open Lean Capella.Driver Capella.CoupledList
namespace Capella.Driver.CoupledList

def kidsOf (j : Json) : Except String (List Child) := do
  let a ← j.getObjValAs? (Array Json) "kids"
  a.toList.mapM (fun c => do
    let p ← (fromJson? c : Except String (Array Json))
    match p.toList with
    | [n, m] => pure ((← fromJson? n : Nat), (← fromJson? m : Bool))
    | _ => throw "kid must be [nid, matches]")

def jnat (n : Nat) : Json := Json.num (JsonNumber.fromNat n)

def handle (op : String) (j : Json) : Except String Json := do
  if op == "clist.linkclear" then   -- children left after `del owner.<link relation>`
    let raw ← j.getObjValAs? (Array Json) "lkids"
    let lk ← raw.toList.mapM (fun c => do
      pure ({ nid := ← c.getObjValAs? Nat "nid", tag := ← c.getObjValAs? String "tag",
              xt := ← c.getObjValAs? String "xt", target := 0 } : LinkKid))
    let tag := (j.getObjValAs? String "tag").toOption
    let xts ← j.getObjValAs? (Array String) "xts"
    return Json.arr ((linkClear tag xts.toList lk).map (fun k => jnat k.nid)).toArray
  let kids ← kidsOf j
  if op == "clist.assign" then   -- children sequence after `owner.rel = new` / `lst[i] = x`
    let new ← j.getObjValAs? (Array Nat) "new"
    return Json.arr ((assign kids new.toList).map (fun c => jnat c.1)).toArray
  let i ← j.getObjValAs? Int "i"
  let x ← j.getObjValAs? Nat "x"
  match op with
  | "clist.insert" =>  -- children sequence after the insert
    pure (Json.arr ((insertChild kids i x).map (fun c => jnat c.1)).toArray)
  | "clist.check" =>   -- the view after the insert
    pure (Json.arr ((view (insertChild kids i x)).map jnat).toArray)
  | "clist.insertOld" =>
    match insertChildOld kids i x with
    | .ok r => pure (Json.arr ((view r).map jnat).toArray)
    | .error _ => pure (Json.str "IndexError")
  | _ => throw s!"unknown op {op}"

end Capella.Driver.CoupledList

def main : IO Unit := Capella.Driver.runLoop Capella.Driver.CoupledList.handle
