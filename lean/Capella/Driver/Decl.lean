import Capella.Driver.Util
import Capella.Model.Decl
import Capella.Gen.DeclMeta
/-!
Protocol driver for the `decl.apply` machine.

`{"op":"apply","dflt":[[attr,cls]…],"graph":{"objs":[{"id","cls","scal":[[k,rval]…],"lists":[[k,[id…]]…]}…]},
  "doc":[instr…]}` → `{"graph":…, "promises":[[p,id]…], "steps":n}` or `{"error":kind, …}`

value encodings: rval `{"s":str}|{"o":id}`; atom `{"s":str}|{"p":promise}|{"u":id}|{"o":id}`;
val = atom | `{"f":{"ty":str|null,"keys":[[k,atom]…]}}`;
item `{"ref":val}` | `{"str":s,"nid"}` | `{"nid","pid","ty","scal":[[k,val]…],"kids":[[k,[item…]]…]}`;
setval `{"v":val}|{"l":[item…]}`; syncobj `{"nid","nid2","ty","keys","pid","set","ext","sync"}`;
instr `{"parent":val,"create","ext","set","sync","del"}` (all optional but parent).
-/
namespace Capella.Driver.Decl
open Lean Capella.Driver Capella.Decl

def optStr (j : Json) (k : String) : Except String (Option Str) :=
  match j.getObjVal? k with
  | .error _ => pure none
  | .ok .null => pure none
  | .ok v => do let s ← v.getStr?; pure (some s.toList)

def arrOf (j : Json) (k : String) : Except String (List Json) :=
  match j.getObjVal? k with
  | .error _ => pure []
  | .ok .null => pure []
  | .ok v => do let a ← v.getArr?; pure a.toList

/-- `[[k, x]…]` -/
def pairs {α : Type} (f : Json → Except String α) (l : List Json) : Except String (List (Str × α)) :=
  l.mapM fun e => do
    let a ← e.getArr?
    match a.toList with
    | [k, v] => do let ks ← k.getStr?; let x ← f v; pure (ks.toList, x)
    | _ => throw "pair expected"

def rval (j : Json) : Except String RVal :=
  match j.getObjVal? "s" with
  | .ok v => do let s ← v.getStr?; pure (.str s.toList)
  | .error _ => do let i ← j.getObjValAs? Nat "o"; pure (.obj i)

def atom (j : Json) : Except String Atom :=
  match j.getObjVal? "s", j.getObjVal? "p", j.getObjVal? "u", j.getObjVal? "o" with
  | .ok v, _, _, _ => do let s ← v.getStr?; pure (.str s.toList)
  | _, .ok v, _, _ => do let s ← v.getStr?; pure (.promise s.toList)
  | _, _, .ok v, _ => do let i ← v.getNat?; pure (.uuid i)
  | _, _, _, .ok v => do let i ← v.getNat?; pure (.obj i)
  | _, _, _, _ => throw "atom expected"

def val (j : Json) : Except String Val :=
  match j.getObjVal? "f" with
  | .ok f => do
    let ty ← optStr f "ty"
    let keys ← pairs atom (← arrOf f "keys")
    pure (.find ty keys)
  | .error _ => do pure (.atom (← atom j))

partial def item (j : Json) : Except String Item :=
  match j.getObjVal? "ref", j.getObjVal? "str" with
  | .ok v, _ => do pure (.ref (← val v))
  | _, .ok v => do
    let nid ← j.getObjValAs? Nat "nid"
    let s ← v.getStr?
    pure (.str nid s.toList)
  | _, _ => do
    let nid ← j.getObjValAs? Nat "nid"
    let pid ← optStr j "pid"
    let ty ← optStr j "ty"
    let scal ← pairs val (← arrOf j "scal")
    let kids ← pairs (fun l => do let a ← l.getArr?; a.toList.mapM item) (← arrOf j "kids")
    pure (.obj nid pid ty scal kids)

def itemList (l : Json) : Except String (List Item) := do
  let a ← l.getArr?
  a.toList.mapM item

def setVal (j : Json) : Except String SetVal :=
  match j.getObjVal? "l" with
  | .ok l => do pure (.list (← itemList l))
  | .error _ => do pure (.scalar (← val (← j.getObjVal? "v")))

partial def syncObj (j : Json) : Except String SyncObj := do
  let nid ← j.getObjValAs? Nat "nid"
  let nid2 ← j.getObjValAs? Nat "nid2"
  let ty ← optStr j "ty"
  let keys ← pairs atom (← arrOf j "keys")
  let pid ← optStr j "pid"
  let set ← pairs setVal (← arrOf j "set")
  let ext ← pairs itemList (← arrOf j "ext")
  let sync ← pairs (fun l => do let a ← l.getArr?; a.toList.mapM syncObj) (← arrOf j "sync")
  pure (.mk nid nid2 ty keys pid set ext sync)

def instr (j : Json) : Except String Instr := do
  let parent ← val (← j.getObjVal? "parent")
  let create ← pairs itemList (← arrOf j "create")
  let ext ← pairs itemList (← arrOf j "ext")
  let set ← pairs setVal (← arrOf j "set")
  let sync ← pairs (fun l => do let a ← l.getArr?; a.toList.mapM syncObj) (← arrOf j "sync")
  let del ← pairs (fun l => do let a ← l.getArr?; a.toList.mapM val) (← arrOf j "del")
  pure { parent, create, ext, set, sync, del }

def graphIn (j : Json) : Except String Graph := do
  let objs ← arrOf j "objs"
  let mut g : Graph := {}
  for o in objs do
    let id ← o.getObjValAs? Nat "id"
    let cls ← getStr o "cls"
    let scal ← pairs rval (← arrOf o "scal")
    let lists ← pairs (fun l => do let a ← l.getArr?; a.toList.mapM (·.getNat?)) (← arrOf o "lists")
    g := { g with
      objs := g.objs ++ [(id, cls)]
      scal := g.scal ++ scal.map (fun kv => ((id, kv.1), kv.2))
      edges := g.edges ++ (lists.map (fun kl => kl.2.map (fun m => (id, kl.1, m)))).flatten }
  pure g

def jrval : RVal → Json
  | .str s => Json.mkObj [("s", jstr s)]
  | .obj i => Json.mkObj [("o", Json.num i)]

/-- attribute names that have a list at object `i`, in order of first appearance -/
def listAttrs (g : Graph) (i : Id) : List Str :=
  ((g.edges.filter (·.1 == i)).map (·.2.1)).eraseDups

def graphOut (g : Graph) : Json :=
  Json.mkObj [("objs", Json.arr (g.objs.map (fun (i, c) =>
    Json.mkObj [
      ("id", Json.num i), ("cls", jstr c),
      ("scal", Json.arr ((g.scal.filter (·.1.1 == i)).map
        (fun e => Json.arr #[jstr e.1.2, jrval e.2])).toArray),
      ("lists", Json.arr ((listAttrs g i).map
        (fun a => Json.arr #[jstr a, Json.arr ((g.members i a).map (fun (m : Nat) => Json.num m)).toArray])).toArray)
    ])).toArray)]

def errOut : Err → Json
  | .dupPromise p => Json.mkObj [("error", "dupPromise"), ("promise", jstr p)]
  | .unfulfilled ps => Json.mkObj [("error", "unfulfilled"), ("promises", jstrs ps)]
  | .notFound => Json.mkObj [("error", "notFound")]
  | .ambiguous => Json.mkObj [("error", "ambiguous")]
  | .keyError => Json.mkObj [("error", "keyError")]
  | .typeError => Json.mkObj [("error", "typeError")]
  | .valueError => Json.mkObj [("error", "valueError")]
  | .diverge => Json.mkObj [("error", "diverge")]
  | .outOfFuel => Json.mkObj [("error", "outOfFuel")]

/-- number of transitions of the run (for the evidence: how far below the proved bound) -/
def countSteps (mm : MM) : Nat → Nat → State → Nat
  | 0, n, _ => n
  | f + 1, n, s =>
    match step mm s with
    | .ok (some s') => countSteps mm f (n + 1) s'
    | _ => n

/-- which shape a parked entry has: a whole instruction (unresolved parent) or `{"parent": obj, op: …}` -/
def actionKind : Action → String
  | .whole _ => "whole"
  | .piece _ (.item _ _) => "extend"
  | .piece _ (.setE _ _) => "set"
  | .piece _ (.sync _ _) => "sync"
  | .piece _ (.resync _ _ _ _ _) => "sync"

/-- the metamodel of a request: `"mm":"gen"` = the table generated from the live classes
(`Capella/Gen/DeclMeta.lean`), else the permissive one over `"dflt":[[attr,cls]…]` -/
def mmOf (j : Json) : Except String MM := do
  match j.getObjVal? "mm" with
  | .ok (.str "gen") => pure Capella.Gen.DeclMeta.mm
  | _ =>
    let dflt ← pairs (fun v => do let s ← v.getStr?; pure s.toList) (← arrOf j "dflt")
    pure (MM.free dflt)

def handle (op : String) (j : Json) : Except String Json := do
  match op with
  | "apply" =>
    let dflt ← mmOf j
    let g ← graphIn (← j.getObjVal? "graph")
    let doc ← (← arrOf j "doc").mapM instr
    let s0 := init g doc
    let bound := s0.measure
    -- the state in which the `while instructions:` loop ended (the no-progress fixpoint): what is still parked
    let parked : List Json := match run dflt (bound + 1) s0 with
      | some (.ok sf) => sf.deferred.map (fun e => Json.arr #[jstr e.1, Json.str (actionKind e.2)])
      | _ => []
    match apply dflt g doc with
    | .error e => pure (((errOut e).setObjVal! "bound" (Json.num bound)).setObjVal! "parked" (Json.arr parked.toArray))
    | .ok (g', ps) =>
      pure (Json.mkObj [
        ("graph", graphOut g'),
        ("promises", Json.arr (ps.map (fun (p, i) => Json.arr #[jstr p, Json.num i])).toArray),
        ("steps", Json.num (countSteps dflt (bound + 1) 0 s0)),
        ("bound", Json.num bound)])
  | "apply2" =>
    -- the same document twice (second copy with its own creation ids): C13 idempotence
    let dflt ← mmOf j
    let g ← graphIn (← j.getObjVal? "graph")
    let doc ← (← arrOf j "doc").mapM instr
    let doc2 ← (← arrOf j "doc2").mapM instr
    match apply dflt g doc with
    | .error e => pure (Json.mkObj [("first", errOut e)])
    | .ok (g1, ps1) =>
      let first := Json.mkObj [("graph", graphOut g1),
        ("promises", Json.arr (ps1.map (fun (p, i) => Json.arr #[jstr p, Json.num i])).toArray)]
      match apply dflt g1 doc2 with
      | .error e => pure (Json.mkObj [("first", first), ("second", errOut e)])
      | .ok (g2, ps2) =>
        pure (Json.mkObj [("first", first),
          ("second", Json.mkObj [("graph", graphOut g2),
            ("promises", Json.arr (ps2.map (fun (p, i) => Json.arr #[jstr p, Json.num i])).toArray)]),
          ("created", Json.num (g2.objs.length - g1.objs.length)),
          ("same", Json.bool (decide (g2 = g1)))])
  | _ => throw s!"unknown op {op}"

end Capella.Driver.Decl

/-- `lake env lean --run Capella/Driver/Decl.lean` -/
def main : IO Unit := Capella.Driver.runLoop Capella.Driver.Decl.handle
