import Capella.Driver.Util
import Capella.Model.Geom
import Capella.Model.GeomEdge
import Capella.Model.GeomTree
import Capella.Model.GeomCircle
import Capella.Model.GeomEdgeEnd
import Capella.Gen.GeomCmp
/-!
Line-protocol driver for `Capella.Geom` (property C17).

Numbers: an integer JSON number, or `[num, den]`. Answers use `[num, den]` pairs.
Vectors `[x, y]` (answers: flat `[xnum, xden, ynum, yden]`), boxes `[x, y, w, h]`, rectangles `[minx, miny, maxx, maxy]`.
-/
namespace Capella.Driver.Geom
open Lean Capella.Driver Capella.Geom

def ratOf (j : Json) : Except String Rat :=
  match j with
  | .arr a =>
    if a.size = 2 then do
      let n ← (a[0]!).getInt?
      let d ← (a[1]!).getInt?
      if d = 0 then throw "zero denominator" else pure ((n : Rat) / (d : Rat))
    else throw "rational must be [num, den]"
  | _ => do let n ← j.getInt?; pure (n : Rat)

def ratsOf (j : Json) (n : Nat) : Except String (Array Rat) := do
  let a ← j.getArr?
  if a.size ≠ n then throw s!"expected {n} numbers, got {a.size}"
  a.mapM ratOf

def v2Of (j : Json) : Except String V2 := do
  let a ← ratsOf j 2
  pure ⟨a[0]!, a[1]!⟩

def boxOf (j : Json) (port : Bool := false) : Except String Box := do
  let a ← ratsOf j 4
  pure { pos := ⟨a[0]!, a[1]!⟩, size := ⟨a[2]!, a[3]!⟩, port := port }

def rectOf (j : Json) : Except String Rect := do
  let a ← ratsOf j 4
  pure ⟨a[0]!, a[1]!, a[2]!, a[3]!⟩

def get (j : Json) (k : String) : Except String Json := j.getObjVal? k

def jrat (r : Rat) : Json := Json.arr #[Json.num (JsonNumber.fromInt r.num), Json.num (JsonNumber.fromNat r.den)]
def jv2 (v : V2) : Json := Json.arr #[Json.num (JsonNumber.fromInt v.x.num), Json.num (JsonNumber.fromNat v.x.den),
  Json.num (JsonNumber.fromInt v.y.num), Json.num (JsonNumber.fromNat v.y.den)]
def jrect (r : Rect) : Json := Json.arr #[jrat r.minx, jrat r.miny, jrat r.maxx, jrat r.maxy]

def errName : Err → String
  | .parallel => "parallel" | .noDirection => "noDirection" | .noIntersection => "noIntersection"
  | .multiIntersection => "multiIntersection" | .axisZero => "axisZero" | .degenerate => "degenerate"
  | .zeroSegment => "zeroSegment" | .emptyEdge => "emptyEdge"

def jres (r : Except Err V2) : Json :=
  match r with
  | .ok v => Json.mkObj [("r", jv2 v)]
  | .error e => Json.mkObj [("e", Json.str (errName e))]

def styleOf : String → Except String Style
  | "oblique" => pure .oblique | "manhattan" => pure .manhattan | "tree" => pure .tree
  | s => throw s!"unknown style {s}"

/-- on a tie of the closest snap: what each of the guards whose side faces the source would have returned (a float `atan2`
may pick either neighbour of the corner; the sides beyond the centre are not alternatives: `closest_snap_faces_source`) -/
def closestAlts (b : Box) (source : V2) : List V2 :=
  [Side.right, .bottom, .top, .left].filterMap fun s =>
    let l := sideLine b s
    match lineIntersect b.center source l.1 l.2 with
    | .ok q => if 0 < (q - b.center).dot (source - b.center) then some q else none
    | .error _ => none

/-- the source the closest snap is run with, if `vectorSnap … oblique` ends there -/
def closestArg (b : Box) (p s : V2) : Option V2 :=
  if p = s then some p
  else if ¬ inBox b p ∧ s = b.center then some p
  else none

def snapAnswer (b : Box) (p s : V2) (st : Style) : Json :=
  let base := jres (vectorSnap b p s st)
  match st, closestArg b p s with
  | .oblique, some src =>
    if closestTie b src ∧ src ≠ b.center then base.mergeObj (Json.mkObj [("tie", Json.arr ((closestAlts b src).map jv2).toArray)])
    else base
  | _, _ => base

def range (lo hi : Int) : List Int := (List.range (hi - lo + 1).toNat).map (fun (i : Nat) => lo + Int.ofNat i)

/-! ### edge chain (`Model/GeomEdge.lean`) -/

/-- the decision of `snap_oblique` the driver runs the model with -/
def decMid : V2 → V2 → Bool := angleGe ((cosSqLo + cosSqHi) / 2)

/-- `math.isclose(a, b)` may differ from `a = b` -/
def isNear (a b : Rat) : Bool := a ≠ b ∧ rabs (a - b) ≤ rabs (max (rabs a) (rabs b)) / 100000000

/-- branch tags, angle tie and `isclose` tie of one `snapEnd` call (re-evaluates the guards of the model) -/
def endInfo (st : Style) (b : Box) (pts : List V2) : List String × Bool × Bool :=
  match pts with
  | e :: nx :: rest =>
    match st with
    | .oblique =>
      match vectorSnap b e nx .oblique with
      | .error _ => (["obl:first-snap-error"], false, false)
      | .ok q =>
        let tie := angleTie (e - nx) (q - nx)
        let z := (if e - nx = ⟨0, 0⟩ then ["obl:zero-direction"] else []) ++ (if q - nx = ⟨0, 0⟩ then ["obl:snapped-onto-source"] else [])
        if decMid (e - nx) (q - nx) then
          -- a two-point edge re-snaps with `source = point`, i.e. through `__vector_snap_closest`: when the neighbour lies on
          -- a diagonal of the box its atan2-based side choice may go to either neighbouring side; both meet in the corner
          -- facing the neighbour (`closest_snap_faces_source`; since /repo `alpha <= angle` on all four diagonals), so this is
          -- compared like any other input
          ((match rest.head? with | some _ => "obl:resnap:third-point" | none => "obl:resnap:two-points") :: z, tie, false)
        else ("obl:keep" :: z, tie, false)
    | .manhattan =>
      let axis := closestaxis (e - nx)
      let al := onAxis axis (e - nx)
      let e1 : V2 := if al then e else manhattanProject axis e nx
      let t1 := (if al then "man:aligned" else "man:projected") ++ (if axis.x ≠ 0 then ":h" else ":v")
      match vectorSnap b e1 nx .manhattan with
      | .error _ => ([t1, "man:snap-error"], false, false)
      | .ok q =>
        if axis.x ≠ 0 then ([t1, if q.y = e1.y then "man:h:direct" else "man:h:bend"], false, isNear q.y e1.y)
        else ([t1, if q.x = e1.x then "man:v:direct" else "man:v:bend"], false, isNear q.x e1.x)
    | .tree =>
      match vectorSnap b e nx .tree with
      | .error _ => (["tree:snap-error"], false, false)
      | .ok q => ([if q.x = e.x then "tree:direct" else "tree:bend"], false, isNear q.x e.x)
  | _ => (["end:too-few-points"], false, false)

def edgeAnswer (i : EdgeIn) : Json :=
  let sb := boxBounds i.src i.srcLabels
  let refpos : V2 := sb.toBox.pos + sb.toBox.size.had i.anchor
  let raw := i.rel.map (fun r => refpos + r)
  let bend := extractRelBendpoints sb i.anchor i.rel
  let t0 := if raw = [] then "pts:none-stored" else if bend = [] then "pts:collapsed" else "pts:stored"
  let t0 := if bend = [] then [t0, "route:" ++ (match i.style with | .oblique => "oblique" | .manhattan => "manhattan" | .tree => "tree")] else [t0]
  match edgePoints i with
  | .error e => Json.mkObj [("e", Json.str (errName e)), ("br", toJson (t0 ++ ["pts:route-error"]))]
  | .ok pts =>
    let (tt, tie1, near1) := endInfo i.style i.tgt pts.reverse
    let tt := tt.map ("tgt." ++ ·)
    match snapEnd decMid i.style i.tgt pts.reverse with
    | .error e => Json.mkObj [("e", Json.str (errName e)), ("br", toJson (t0 ++ tt))]
    | .ok r =>
      let (ts, tie2, near2) := endInfo i.style i.src r.reverse
      let ts := ts.map ("src." ++ ·)
      let extra := [("br", toJson (t0 ++ tt ++ ts)), ("tie", Json.bool (tie1 || tie2)), ("near", Json.bool (near1 || near2))]
      match snapEnd decMid i.style i.src r.reverse with
      | .error e => Json.mkObj (("e", Json.str (errName e)) :: extra)
      | .ok out => Json.mkObj (("pts", Json.arr (out.map jv2).toArray) :: extra)

def boxesOf (j : Json) : Except String (List Box) := do
  (← j.getArr?).toList.mapM (fun l => boxOf l)

def edgeInOf (j : Json) : Except String EdgeIn := do
  let sp ← (do let p ← get j "sport"; p.getBool?) <|> pure false
  let tp ← (do let p ← get j "tport"; p.getBool?) <|> pure false
  pure { src := ← boxOf (← get j "src") sp, srcLabels := ← boxesOf (← get j "slabels"),
         tgt := ← boxOf (← get j "tgt") tp, tgtLabels := ← boxesOf (← get j "tlabels"),
         anchor := ← v2Of (← get j "anchor"), rel := ← (← (← get j "rel").getArr?).toList.mapM v2Of,
         style := ← styleOf (← j.getObjValAs? String "style") }

/-! ### box nesting (`Model/GeomTree.lean`) -/

/-- `{"layout": [x, y, w, h], "port": b, "flat": b, "kids": [...]}` -/
partial def nodeOf (j : Json) : Except String Node := do
  let a ← ratsOf (← get j "layout") 4
  let port ← (← get j "port").getBool?
  let flat ← (← get j "flat").getBool?
  let kids ← (← (← get j "kids").getArr?).toList.mapM nodeOf
  pure (.mk (layoutRel a[0]! a[1]! port) (layoutSize a[2]! a[3]! port flat) port kids)

def jbox (b : Box) : Json := Json.arr #[jv2 b.pos, jv2 b.size]

/-- branch tags: re-evaluates `snapToParent` node by node, parents before children -/
partial def treeTags (oh m : Rat) (parent : Option Box) : Node → List String
  | .mk rel size port kids =>
    match parent with
    | none => "tree:top-level" :: kids.flatMap (treeTags oh m (some { pos := rel, size := size, port := port }))
    | some pb =>
      let child : Box := { pos := pb.pos + rel, size := size, port := port }
      match snapToParent oh m pb child with
      | .error e => [if port then "tree:port:error-" ++ errName e else "tree:child:clamped-to-nothing"]
      | .ok box =>
        let t := if port then (if box.pos = child.pos then "tree:port:on-border-already" else "tree:port:moved")
          else (if box.pos = child.pos then "tree:child:pos-kept" else "tree:child:pos-clamped") ++
               (if box.size = child.size then "+size-kept" else "+size-shrunk")
        t :: kids.flatMap (treeTags oh m (some box))

def treeAnswer (oh m : Rat) (n : Node) : Json :=
  let tags := toJson (treeTags oh m none n)
  match placeTop oh m n with
  | .error e => Json.mkObj [("e", Json.str (errName e)), ("br", tags)]
  | .ok p => Json.mkObj [("boxes", Json.arr (p.boxes.map jbox).toArray), ("br", tags)]

/-! ### edges attached to edges (`Model/GeomEdgeEnd.lean`) -/

/-- `{"box": [x, y, w, h], "port": b, "labels": [...]}` or `{"edge": [[x, y], ...], "labels": [...]}` -/
def endOf (j : Json) : Except String End := do
  let labels ← boxesOf (← get j "labels")
  match j.getObjVal? "edge" with
  | .ok pts => pure (.edge (← (← pts.getArr?).toList.mapM v2Of) labels)
  | .error _ =>
    let port ← (do let p ← get j "port"; p.getBool?) <|> pure false
    pure (.box (← boxOf (← get j "box") port) labels)

def endTag (pre : String) : End → String
  | .box _ _ => pre ++ ":box"
  | .edge pts _ => pre ++ (match edgeCenter pts with | some _ => ":edge:axis-parallel" | none => ":edge:oblique-segments")

def edgeEAnswer (i : EdgeInE) : Json :=
  let bend := extractRelBendpoints i.src.bounds i.anchor i.rel
  let tags := [endTag "endE:src" i.src, endTag "endE:tgt" i.tgt,
    if bend = [] then "endE:route:" ++ (match i.style with | .oblique => "oblique" | .manhattan => "manhattan" | .tree => "tree") else "endE:stored"]
  match edgeRouteE decMid i with
  | .error e => Json.mkObj [("e", Json.str (errName e)), ("br", toJson tags)]
  | .ok out => Json.mkObj [("pts", Json.arr (out.map jv2).toArray), ("br", toJson tags)]

def handle (op : String) (j : Json) : Except String Json := do
  match op with
  | "sites" =>
    -- the generated comparison-site table with the class of every site, and the declared jumps
    pure (Json.mkObj [("sites", Json.arr ((Capella.Gen.GeomCmp.sites.map fun s => Json.mkObj [("file", Json.str s.file), ("func", Json.str s.func),
        ("op", Json.str s.op), ("lhs", Json.str s.lhs), ("rhs", Json.str s.rhs), ("tol", Json.str s.tol), ("coord", Json.bool s.coord),
        ("class", Json.str (classify s).tag)]).toArray)),
      ("jumps", toJson Capella.Gen.GeomCmp.declaredJumps)])
  | "edgeE" =>
    let i : EdgeInE := { src := ← endOf (← get j "src"), tgt := ← endOf (← get j "tgt"), anchor := ← v2Of (← get j "anchor"),
                         rel := ← (← (← get j "rel").getArr?).toList.mapM v2Of, style := ← styleOf (← j.getObjValAs? String "style") }
    pure (edgeEAnswer i)
  | "circle" =>
    -- residuals of the relation `circleSnapRel` on a given (float) result: all three are 0 resp. >= 0 for the exact point
    let c ← v2Of (← get j "c")
    let radius ← ratOf (← get j "r")
    let vector ← v2Of (← get j "vector")
    let source ← v2Of (← get j "source")
    let d := circleDir c vector source
    if d = ⟨0, 0⟩ then pure (Json.mkObj [("e", Json.str "noDirection"), ("br", toJson ["circle:no-direction"])]) else
    let res ← v2Of (← get j "res")
    pure (Json.mkObj [("onCircle", jrat ((res - c).sqlength - radius * radius)), ("cross", jrat (cross (res - c) d)),
      ("dot", jrat ((res - c).dot d)), ("dlen2", jrat d.sqlength), ("holds", Json.bool (decide (circleSnapRel c radius vector source res))),
      ("br", toJson [if vector = c then "circle:from-centre-towards-source" else "circle:through-the-point"])])
  | "tree" => pure (treeAnswer (← ratOf (← get j "overhang")) (← ratOf (← get j "margin")) (← nodeOf (← get j "root")))
  | "edge" => pure (edgeAnswer (← edgeInOf j))
  | "snapEnd" =>
    -- one `snaptarget` call on points given outermost-first
    let port ← (do let p ← get j "port"; p.getBool?) <|> pure false
    let b ← boxOf (← get j "box") port
    let st ← styleOf (← j.getObjValAs? String "style")
    let pts ← (← (← get j "pts").getArr?).toList.mapM v2Of
    let (tags, tie, near) := endInfo st b pts
    let extra := [("br", toJson tags), ("tie", Json.bool tie), ("near", Json.bool near)]
    match snapEnd decMid st b pts with
    | .error e => pure (Json.mkObj (("e", Json.str (errName e)) :: extra))
    | .ok out => pure (Json.mkObj (("pts", Json.arr (out.map jv2).toArray) :: extra))
  | "snap" =>
    let port ← (do let p ← get j "port"; p.getBool?) <|> pure false
    let b ← boxOf (← get j "box") port
    let p ← v2Of (← get j "p")
    let s ← v2Of (← get j "s")
    let st ← styleOf (← j.getObjValAs? String "style")
    pure (snapAnswer b p s st)
  | "snap.grid" =>
    -- all (p, s) with p, s in {lo..hi}², p-major, x-major inside a point
    let port ← (do let p ← get j "port"; p.getBool?) <|> pure false
    let b ← boxOf (← get j "box") port
    let lo ← getInt j "lo"
    let hi ← getInt j "hi"
    let st ← styleOf (← j.getObjValAs? String "style")
    let pts : List V2 := (range lo hi).flatMap fun (x : Int) => (range lo hi).map fun (y : Int) => (⟨(x : Rat), (y : Rat)⟩ : V2)
    pure (Json.arr (pts.flatMap fun p => pts.map fun s => snapAnswer b p s st).toArray)
  | "intersect" =>
    let a ← (← get j "pts").getArr?
    if a.size ≠ 4 then throw "four points" else
    pure (jres (lineIntersect (← v2Of a[0]!) (← v2Of a[1]!) (← v2Of a[2]!) (← v2Of a[3]!)))
  | "closestaxis" => pure (jv2 (closestaxis (← v2Of (← get j "d"))))
  | "boxsnap" =>
    pure (jv2 (boxsnap (← v2Of (← get j "p")) (← v2Of (← get j "c1")) (← v2Of (← get j "c2"))))
  | "snapPort" =>
    let parent ← boxOf (← get j "parent")
    let child ← boxOf (← get j "child") true
    let oh ← ratOf (← get j "overhang")
    let mb := midBox parent child oh
    let mid := child.pos + child.size.sdiv 2
    let base := jres (snapPort parent child oh)
    if closestTie mb mid ∧ mid ≠ mb.center then
      pure (base.mergeObj (Json.mkObj [("tie", Json.arr ((closestAlts mb mid).map (fun q => jv2 (child.pos + (q - mid)))).toArray)]))
    else pure base
  | "snapChild" =>
    let parent ← boxOf (← get j "parent")
    let child ← boxOf (← get j "child")
    let raw ← v2Of (← get j "raw")
    let m ← ratOf (← get j "margin")
    let (p, s) := snapChild parent child raw m
    pure (Json.arr #[jv2 p, jv2 s])
  | "boxBounds" =>
    let b ← boxOf (← get j "box")
    let ls ← (← (← get j "labels").getArr?).toList.mapM (fun l => boxOf l)
    pure (jrect (boxBounds b ls))
  | "edgeBounds" =>
    let ls ← (← (← get j "labels").getArr?).toList.mapM (fun l => boxOf l)
    let ps ← (← (← get j "points").getArr?).toList.mapM v2Of
    match ps with
    | [] => throw "edge without points"
    | p0 :: rest => pure (jrect (edgeBounds ls p0 rest))
  | "circleBounds" =>
    pure (jrect (circleBounds (← v2Of (← get j "c")) (← ratOf (← get j "r"))))
  | "viewport" =>
    let rs ← (← (← get j "rects").getArr?).toList.mapM rectOf
    pure (match viewport rs with | some r => jrect r | none => Json.null)
  | "edgeSnap" =>
    let ps ← (← (← get j "points").getArr?).toList.mapM v2Of
    pure (jres (edgeSnap ps (← v2Of (← get j "v"))))
  | "route" =>
    let kind ← j.getObjValAs? String "kind"
    let sp ← (do let p ← get j "sport"; p.getBool?) <|> pure false
    let tp ← (do let p ← get j "tport"; p.getBool?) <|> pure false
    let s ← boxOf (← get j "source") sp
    let t ← boxOf (← get j "target") tp
    match kind with
    | "oblique" => pure (Json.arr ((routeOblique s t).map jv2).toArray)
    | "tree" => pure (Json.arr ((routeTree (Rect.ofBox s) (Rect.ofBox t)).map jv2).toArray)
    | "manhattan" =>
      match routeManhattan s t with
      | .ok ps => pure (Json.arr (ps.map jv2).toArray)
      | .error e => pure (Json.mkObj [("e", Json.str (errName e))])
    | k => throw s!"unknown route {k}"
  | _ => throw s!"unknown op {op}"

end Capella.Driver.Geom

/-- `lake env lean --run Capella/Driver/Geom.lean` -/
def main : IO Unit := Capella.Driver.runLoop Capella.Driver.Geom.handle
