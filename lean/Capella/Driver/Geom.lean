import Capella.Driver.Util
import Capella.Model.Geom
/-!
Line-protocol driver for `Capella.Geom` (property C17).

Numbers: an integer JSON number, or `[num, den]`. Answers use `[num, den]` pairs.
Vectors `[x, y]` (answers: flat `[xnum, xden, ynum, yden]`), boxes `[x, y, w, h]`, rectangles `[minx, miny, maxx, maxy]`.
-/
namespace Capella.Driver.Geom
open Lean Capella.Driver Capella.Geom

def ratOf (j : Json) : Except String Rat :=
  match j with
  | .arr a =>
    if a.size = 2 then do
      let n ← (a[0]!).getInt?
      let d ← (a[1]!).getInt?
      if d = 0 then throw "zero denominator" else pure ((n : Rat) / (d : Rat))
    else throw "rational must be [num, den]"
  | _ => do let n ← j.getInt?; pure (n : Rat)

def ratsOf (j : Json) (n : Nat) : Except String (Array Rat) := do
  let a ← j.getArr?
  if a.size ≠ n then throw s!"expected {n} numbers, got {a.size}"
  a.mapM ratOf

def v2Of (j : Json) : Except String V2 := do
  let a ← ratsOf j 2
  pure ⟨a[0]!, a[1]!⟩

def boxOf (j : Json) (port : Bool := false) : Except String Box := do
  let a ← ratsOf j 4
  pure { pos := ⟨a[0]!, a[1]!⟩, size := ⟨a[2]!, a[3]!⟩, port := port }

def rectOf (j : Json) : Except String Rect := do
  let a ← ratsOf j 4
  pure ⟨a[0]!, a[1]!, a[2]!, a[3]!⟩

def get (j : Json) (k : String) : Except String Json := j.getObjVal? k

def jrat (r : Rat) : Json := Json.arr #[Json.num (JsonNumber.fromInt r.num), Json.num (JsonNumber.fromNat r.den)]
def jv2 (v : V2) : Json := Json.arr #[Json.num (JsonNumber.fromInt v.x.num), Json.num (JsonNumber.fromNat v.x.den),
  Json.num (JsonNumber.fromInt v.y.num), Json.num (JsonNumber.fromNat v.y.den)]
def jrect (r : Rect) : Json := Json.arr #[jrat r.minx, jrat r.miny, jrat r.maxx, jrat r.maxy]

def errName : Err → String
  | .parallel => "parallel" | .noDirection => "noDirection" | .noIntersection => "noIntersection"
  | .multiIntersection => "multiIntersection" | .axisZero => "axisZero" | .degenerate => "degenerate"
  | .zeroSegment => "zeroSegment" | .emptyEdge => "emptyEdge"

def jres (r : Except Err V2) : Json :=
  match r with
  | .ok v => Json.mkObj [("r", jv2 v)]
  | .error e => Json.mkObj [("e", Json.str (errName e))]

def styleOf : String → Except String Style
  | "oblique" => pure .oblique | "manhattan" => pure .manhattan | "tree" => pure .tree
  | s => throw s!"unknown style {s}"

/-- on a tie of the closest snap: what each of the four guards would have returned -/
def closestAlts (b : Box) (source : V2) : List V2 :=
  [Side.right, .bottom, .top, .left].filterMap fun s =>
    let l := sideLine b s
    match lineIntersect b.center source l.1 l.2 with
    | .ok q => some q
    | .error _ => none

/-- the source the closest snap is run with, if `vectorSnap … oblique` ends there -/
def closestArg (b : Box) (p s : V2) : Option V2 :=
  if p = s then some p
  else if ¬ inBox b p ∧ s = b.center then some p
  else none

def snapAnswer (b : Box) (p s : V2) (st : Style) : Json :=
  let base := jres (vectorSnap b p s st)
  match st, closestArg b p s with
  | .oblique, some src =>
    if closestTie b src ∧ src ≠ b.center then base.mergeObj (Json.mkObj [("tie", Json.arr ((closestAlts b src).map jv2).toArray)])
    else base
  | _, _ => base

def range (lo hi : Int) : List Int := (List.range (hi - lo + 1).toNat).map (fun (i : Nat) => lo + Int.ofNat i)

def handle (op : String) (j : Json) : Except String Json := do
  match op with
  | "snap" =>
    let port ← (do let p ← get j "port"; p.getBool?) <|> pure false
    let b ← boxOf (← get j "box") port
    let p ← v2Of (← get j "p")
    let s ← v2Of (← get j "s")
    let st ← styleOf (← j.getObjValAs? String "style")
    pure (snapAnswer b p s st)
  | "snap.grid" =>
    -- all (p, s) with p, s in {lo..hi}², p-major, x-major inside a point
    let port ← (do let p ← get j "port"; p.getBool?) <|> pure false
    let b ← boxOf (← get j "box") port
    let lo ← getInt j "lo"
    let hi ← getInt j "hi"
    let st ← styleOf (← j.getObjValAs? String "style")
    let pts : List V2 := (range lo hi).flatMap fun (x : Int) => (range lo hi).map fun (y : Int) => (⟨(x : Rat), (y : Rat)⟩ : V2)
    pure (Json.arr (pts.flatMap fun p => pts.map fun s => snapAnswer b p s st).toArray)
  | "intersect" =>
    let a ← (← get j "pts").getArr?
    if a.size ≠ 4 then throw "four points" else
    pure (jres (lineIntersect (← v2Of a[0]!) (← v2Of a[1]!) (← v2Of a[2]!) (← v2Of a[3]!)))
  | "closestaxis" => pure (jv2 (closestaxis (← v2Of (← get j "d"))))
  | "boxsnap" =>
    pure (jv2 (boxsnap (← v2Of (← get j "p")) (← v2Of (← get j "c1")) (← v2Of (← get j "c2"))))
  | "snapPort" =>
    let parent ← boxOf (← get j "parent")
    let child ← boxOf (← get j "child") true
    let oh ← ratOf (← get j "overhang")
    let mb := midBox parent child oh
    let mid := child.pos + child.size.sdiv 2
    let base := jres (snapPort parent child oh)
    if closestTie mb mid ∧ mid ≠ mb.center then
      pure (base.mergeObj (Json.mkObj [("tie", Json.arr ((closestAlts mb mid).map (fun q => jv2 (child.pos + (q - mid)))).toArray)]))
    else pure base
  | "snapChild" =>
    let parent ← boxOf (← get j "parent")
    let child ← boxOf (← get j "child")
    let raw ← v2Of (← get j "raw")
    let m ← ratOf (← get j "margin")
    let (p, s) := snapChild parent child raw m
    pure (Json.arr #[jv2 p, jv2 s])
  | "boxBounds" =>
    let b ← boxOf (← get j "box")
    let ls ← (← (← get j "labels").getArr?).toList.mapM (fun l => boxOf l)
    pure (jrect (boxBounds b ls))
  | "edgeBounds" =>
    let ls ← (← (← get j "labels").getArr?).toList.mapM (fun l => boxOf l)
    let ps ← (← (← get j "points").getArr?).toList.mapM v2Of
    match ps with
    | [] => throw "edge without points"
    | p0 :: rest => pure (jrect (edgeBounds ls p0 rest))
  | "circleBounds" =>
    pure (jrect (circleBounds (← v2Of (← get j "c")) (← ratOf (← get j "r"))))
  | "viewport" =>
    let rs ← (← (← get j "rects").getArr?).toList.mapM rectOf
    pure (match viewport rs with | some r => jrect r | none => Json.null)
  | "edgeSnap" =>
    let ps ← (← (← get j "points").getArr?).toList.mapM v2Of
    pure (jres (edgeSnap ps (← v2Of (← get j "v"))))
  | "route" =>
    let kind ← j.getObjValAs? String "kind"
    let sp ← (do let p ← get j "sport"; p.getBool?) <|> pure false
    let tp ← (do let p ← get j "tport"; p.getBool?) <|> pure false
    let s ← boxOf (← get j "source") sp
    let t ← boxOf (← get j "target") tp
    match kind with
    | "oblique" => pure (Json.arr ((routeOblique s t).map jv2).toArray)
    | "tree" => pure (Json.arr ((routeTree (Rect.ofBox s) (Rect.ofBox t)).map jv2).toArray)
    | "manhattan" =>
      match routeManhattan s t with
      | .ok ps => pure (Json.arr (ps.map jv2).toArray)
      | .error e => pure (Json.mkObj [("e", Json.str (errName e))])
    | k => throw s!"unknown route {k}"
  | _ => throw s!"unknown op {op}"

end Capella.Driver.Geom

/-- `lake env lean --run Capella/Driver/Geom.lean` -/
def main : IO Unit := Capella.Driver.runLoop Capella.Driver.Geom.handle
