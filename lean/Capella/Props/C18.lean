import Capella.Lemmas.Svg
import Capella.Lemmas.SvgDefsUnique
import Capella.Lemmas.SvgRows
import Capella.Lemmas.SvgTotal
import Capella.Lemmas.SvgAllIds
import Capella.Lemmas.Wrap
import Capella.Lemmas.WrapChars
import Capella.Lemmas.SvgText
import Capella.Gen.StylesWF

/-!
# C18 — SVG output is well-formed, complete and self-contained

Property theorems only; helper lemmas live in `Capella/Lemmas/Svg.lean` and `Lemmas/Wrap.lean`, the
style / marker / symbol tables are generated into `Capella/Gen/Styles*.lean` from the live objects.

The model (`Capella/Model/Svg.lean`) reduces `draw_object` to what the statement is about: the one
group added per object (id, class string), the ids referenced, the ids deployed into `<defs>`, the
view box. Label geometry (PIL metrics) and svgwrite's serialisation/escaping are parameters — the
property is *partial* there; text wrapping is proved for every text-extent function.
-/
namespace Capella.Props.C18
open Capella.Svg Capella.Wrap Capella.Gen.Styles Capella.SvgText

/-- The generated tables are well-formed (kernel-checked, chunk by chunk): every marker named by a
style exists as a factory and returns an element with the id it is given; every paint value is one
svgwrite accepts; nothing unclassified; every symbol factory produces the id it is registered under,
its dependencies exist, every reference inside its fragment is defined by it or a dependency, no
dependency walk loops; `ErrorSymbol`, `PortSymbol`, `ComponentPortSymbol` exist. -/
theorem tables_wf : tables.WF ∧ styleEntries.all (entryWF markerRows) = true ∧
    markerRows.all markerWF = true ∧ symbolRows.all (symbolDepsTerminate symbolRows) = true :=
  ⟨⟨fun r hr => (List.all_eq_true.mp symbols_wf) r hr, error_symbol_present⟩,
   styles_wf, markers_wf, symbols_terminate⟩

/-- **Every internal reference points to a definition — one object.** For every table whose symbol
table is well-formed, every diagram class (known or not), every object (any kind, any style class,
any style overrides, labels, features, …): if `draw_object` succeeds, each id referenced from the
group it adds — marker, gradient, symbol — and each id referenced from inside the deployed symbol
fragments is among the ids `draw_object` deploys into `<defs>`. -/
theorem defs_closed (T : Tables) (wf : T.WF) (dc : Option (List Char)) (o : Obj) (d : Drawn)
    (h : drawObject T dc o = .ok d) : ∀ r ∈ d.refs, r ∈ d.defs :=
  drawObject_closed wf h

/-- … in particular for the generated tables. -/
theorem defs_closed_generated (dc : Option (List Char)) (o : Obj) (d : Drawn)
    (h : drawObject tables dc o = .ok d) : ∀ r ∈ d.refs, r ∈ d.defs :=
  drawObject_closed tables_wf.1 h

/-- **Every internal reference points to a definition — whole document**, for every diagram
(any number of elements, hidden or not). -/
theorem render_defs_closed (T : Tables) (wf : T.WF) (dg : Diagram) (doc : Doc)
    (h : render T dg = .ok doc) : ∀ r ∈ doc.refs, r ∈ doc.defs := by
  unfold render renderWith at h
  simp only [bind, Except.bind] at h
  cases hd : drawAll (drawObjectWith true T dg.cls) (encodeDiagram dg).2 with
  | error e => simp [hd] at h
  | ok drawn =>
    simp only [hd, pure, Except.pure, Except.ok.injEq] at h
    subst h
    exact forall2_closed (fun o d ho => drawObject_closed wf ho) (drawAll_ok hd)

/-- **Exactly one group per visible element, carrying its id and style class.** The groups of the
document are, in order, one per non-hidden element: id = the element's uuid, class =
`<Box|Edge|Circle> <styleclass> context-…`. -/
theorem one_group_per_visible (T : Tables) (dg : Diagram) (doc : Doc) (h : render T dg = .ok doc) :
    doc.groups = ((dg.elems.filter (fun e => !e.hidden)).map fun e =>
      ({ id := e.obj.id, cls := groupClass e.obj.kind e.obj.cls e.obj.context } : Group)) := by
  unfold render renderWith at h
  simp only [bind, Except.bind] at h
  cases hd : drawAll (drawObjectWith true T dg.cls) (encodeDiagram dg).2 with
  | error e => simp [hd] at h
  | ok drawn =>
    simp only [hd, pure, Except.pure, Except.ok.injEq] at h
    subst h
    have := forall2_groups (g := fun o => ({ id := o.id, cls := groupClass o.kind o.cls o.context } : Group))
      (fun o d ho => drawObject_group ho) (drawAll_ok hd)
    simp only [this, encodeDiagram, List.map_map]
    rfl

/-- **Hidden elements do not appear**: no group carries the id of a hidden element (unless a
visible element has the same id). -/
theorem hidden_absent (T : Tables) (dg : Diagram) (doc : Doc) (h : render T dg = .ok doc)
    (i : (List Char)) (hvis : ∀ e ∈ dg.elems, e.hidden = false → e.obj.id ≠ i) :
    ∀ g ∈ doc.groups, g.id ≠ i := by
  rw [one_group_per_visible T dg doc h]
  intro g hg
  obtain ⟨e, he, rfl⟩ := List.mem_map.mp hg
  simp only [List.mem_filter, Bool.not_eq_eq_eq_not, Bool.not_true] at he
  exact hvis e he.1 he.2

/-- **The view box is the (rounded) viewport plus the fixed margin**: 10 to the left and top,
20 added to width and height; all zero-based when the diagram has no viewport. -/
theorem viewbox_is_viewport_plus_margin (T : Tables) (dg : Diagram) (doc : Doc)
    (h : render T dg = .ok doc) :
    doc.viewBox = match dg.viewport with
      | some v => (intround v.x - 10, intround v.y - 10, intround v.w + 20, intround v.h + 20)
      | none => (-10, -10, 20, 20) := by
  unfold render renderWith at h
  simp only [bind, Except.bind] at h
  cases hd : drawAll (drawObjectWith true T dg.cls) (encodeDiagram dg).2 with
  | error e => simp [hd] at h
  | ok drawn =>
    simp only [hd, pure, Except.pure, Except.ok.injEq] at h
    subst h
    cases hv : dg.viewport <;> simp [encodeDiagram, viewBox, hv]

/-- `_intround` rounds a non-negative coordinate to a nearest integer. -/
theorem intround_nearest (q : Rat) (hq : 0 ≤ q) :
    (intround q : Rat) ≤ q + 1 / 2 ∧ q + 1 / 2 < (intround q : Rat) + 1 := by
  have hpos : q + 1 / 2 ≥ 0 := by
    have : (0 : Rat) ≤ 1 / 2 := by decide +kernel
    exact Rat.add_nonneg hq this
  unfold intround
  simp only [hpos, if_true]
  refine ⟨Rat.floor_le _, ?_⟩
  have := Rat.lt_floor_add_one (q + 1 / 2)
  simpa [Rat.intCast_add] using this

/-- The composition before the repair of `_deploy_defs` (markers read through `super()`, i.e. only
the class default is deployed) does **not** deploy a marker named by a style override.
Kept so that a reverted repair is recognisable by name. -/
theorem marker_override_undeployed_before_repair :
    ¬ ∀ (s : Styling) (rs ds : List (List Char)), styleRefs styleEntries s = .ok rs →
        deployIdsDefaultOnly styleEntries markerRows s = .ok ds → ∀ r ∈ rs, r ∈ ds := by
  intro h
  have := h { dc := none, cls := "Edge.ComponentExchange".toList, pfx := [],
              attrs := [("stroke".toList, .color "4A4A97".toList), ("marker-end".toList, .str "DiamondMark".toList)] }
    ["DiamondMark_4A4A97".toList] [] (by decide +kernel) (by decide +kernel)
    "DiamondMark_4A4A97".toList (by simp)
  simp at this

/-- The composition before the repair of `_add_decofactory` (the `Error` fragment deployed under
its own id) leaves `#{cls}Symbol` undefined for a style class without symbol factory. -/
theorem fallback_symbol_undefined_before_repair :
    ¬ ∀ (cls : (List Char)) (ds : List (List Char)), symbolDefsErrorId symbolRows cls = .ok ds →
        cls ++ symbolSuffix ∈ ds := by
  intro h
  have := h "Note".toList ["ErrorSymbol".toList] (by decide +kernel)
  revert this
  decide +kernel

/-! ### known finding: `symbol` elements of a style class with rectangle-only style attributes

`_draw_symbol` passes the whole object style to a `<use>` element; for the five `Box.*` classes
whose default style has `rx`/`ry` (e.g. `Class`) svgwrite raises `ValueError("Invalid attribute
'rx' for svg-element <use>")`, so the combination (symbol, Class) — which the statement's "every
combination of … element kind and element style class" includes, although Capella never produces
it — is not rendered at all. Recorded in `known_findings.jsonl`, not repaired. -/

/-- the full claim: every plain element of every kind and table style class can be drawn -/
def C18_every_combination_draws : Prop :=
  ∀ (dc : Option (List Char)) (k : Kind) (cls : (List Char)),
    (∃ e ∈ styleEntries, e.oc = styleType k ++ '.' :: cls) →
    ∃ d, drawObject tables dc (plainObj k cls) = .ok d

theorem C18_every_combination_draws_fails : ¬ C18_every_combination_draws := by
  intro h
  obtain ⟨d, hd⟩ := h (some "Class Diagram Blank".toList) .symbol "Class".toList (by decide +kernel)
  have : drawObject tables (some "Class Diagram Blank".toList) (plainObj .symbol "Class".toList)
      = .error .invalidAttribute := by decide +kernel
  rw [this] at hd
  cases hd

/-- the excluded inputs, exactly as the model excludes them: the rejection needs a `symbol`
element drawn with `<use>` whose resolved object style carries `rx` or `ry`; every other kind is
never rejected this way (partial statement; that all remaining table combinations do draw is
established by the exhaustive correspondence run, not by proof). -/
theorem C18_use_rejection_partial (T : Tables) (o : Obj) (p : Prep) (h : useRejects T o p = true) :
    o.kind = .symbol ∧ ∃ a ∈ p.objStyle.attrs, a.1 = rxKey ∨ a.1 = ryKey := by
  unfold useRejects at h
  simp only [Bool.and_eq_true, decide_eq_true_eq, List.any_eq_true, Bool.or_eq_true] at h
  exact ⟨h.1.1, h.2⟩



/-- the generated tables satisfy the per-entry conditions of `unstyled_draws` (kernel-checked, chunk by chunk):
markers occur only on `Edge.*` entries and name a factory, no marker under a `text_` key, every `Edge.*` stroke is a
colour and `__GLOBAL__`/`Edge` has one, no symbol dependency walk loops, the `Error` symbol exists -/
theorem tables_plain : PlainTables tables :=
  ⟨fun e he => (List.all_eq_true.mp styles_plain) e he, global_edge_stroke, symbols_terminate, error_symbol_present⟩

/-- **Every element without style overrides draws — for EVERY diagram class and EVERY style class**, in the style
tables or not, any kind, with any labels, floating labels, features, children: `draw_object` succeeds, or it is
the one known rejection (`ValueError: Invalid attribute 'rx' for svg-element <use>`): a `symbol`-kind element whose
resolved style carries `rx`/`ry`. (Lifts what the exhaustive run established row by row to a theorem.) -/
theorem every_unstyled_element_draws (dc : Option (List Char)) (o : Obj) (ho : o.style = []) :
    (∃ d, drawObject tables dc o = .ok d) ∨
    (drawObject tables dc o = .error .invalidAttribute ∧ o.kind = .symbol ∧
      ∃ D, getStyle styleEntries dc (styleType o.kind ++ '.' :: o.cls) = .ok D ∧
        ∃ a ∈ (prepare tables dc o D).objStyle.attrs, a.1 = rxKey ∨ a.1 = ryKey) := by
  rcases unstyled_draws tables_plain dc o ho with h | ⟨he, D, hD, hu⟩
  · exact .inl h
  · obtain ⟨hk, ha⟩ := C18_use_rejection_partial tables o _ hu
    exact .inr ⟨he, hk, D, hD, ha⟩


/-- **… and with style overrides**: every element whose overrides obey the rules the table entries obey (a marker only on
an edge or circle and naming a factory; no marker under a `text_` key; a stroke on an edge or circle parses as a colour —
the decidable `overridePlainOK`, which the driver evaluates on every generated case) draws, for every diagram class and
style class, or is the `rx`/`ry` rejection. Classes whose name contains "symbol" (`get_style` returns `{}`) are left out
when there are overrides. -/
theorem every_styled_element_draws (dc : Option (List Char)) (o : Obj)
    (hov : o.style.all (overridePlainOK markerRows (isEdgeType o.kind)) = true)
    (hns : o.style = [] ∨ isInfixOfB "symbol".toList ((styleType o.kind ++ '.' :: o.cls).map lowerChar) = false) :
    (∃ d, drawObject tables dc o = .ok d) ∨
    (drawObject tables dc o = .error .invalidAttribute ∧ o.kind = .symbol) := by
  rcases styled_draws tables_plain dc o (overridePlainOK_ok hov) hns with h | ⟨he, D, _, hu⟩
  · exact .inl h
  · exact .inr ⟨he, (C18_use_rejection_partial tables o _ hu).1⟩

/-- the exact rows of the style table that can make that happen: the only entries with `rx`/`ry` -/
theorem rx_ry_rows :
    (styleEntries.filter fun e => e.props.any fun p => p.1 = rxKey || p.1 = ryKey).map (fun e => (e.dc, e.oc)) =
      [("Class Diagram Blank".toList, "Box.Class".toList),
       ("Logical Data Flow Blank".toList, "Box.LogicalFunction".toList),
       ("Operational Activity Interaction Blank".toList, "Box.OperationalActivity".toList),
       ("Physical Architecture Blank".toList, "Box.PhysicalBehaviorComponent".toList),
       ("System Data Flow Blank".toList, "Box.SystemFunction".toList)] := by decide +kernel

/-! ### the `<defs>` section as a state: closure through every shortcut, nothing deployed twice

`Capella/Model/SvgDefs.lean` models what `Drawing` keeps between `draw_object` calls (`<defs>` in
document order, `deco_cache`) and how `_add_decofactory` / `_deploy_defs` skip what is already there. -/

/-- the generated tables: colour values are hex strings; symbol dependencies have depth ≤ 1 (hence a rank
that strictly decreases along `needs`); marker names and `CustomGradient` contain no `_` -/
theorem tables_defs_wf : StylesHexOK styleEntries ∧
    (∀ cls r, findSymbol symbolRows cls = some r → ∀ d ∈ r.deps, rankOf symbolRows d < rankOf symbolRows cls) ∧
    (∀ m ∈ markerRows, '_' ∉ m.name) ∧ '_' ∉ gradName := by
  refine ⟨?_, rankOf_decreases symbols_depth, ?_, ?_⟩
  · intro e he p hp
    exact (List.all_eq_true.mp ((List.all_eq_true.mp styles_hex) e he)) p hp
  · intro m hm
    have h := marker_names_ok
    simp only [Bool.and_eq_true, List.all_eq_true] at h
    have := h.1 m hm
    simpa [markerNameOK] using this
  · have h := marker_names_ok
    simp only [Bool.and_eq_true] at h
    simpa using h.2

/-- **Every reference has a definition — on the real drawing state, any number of elements in any order.**
For every table with a well-formed symbol table and every diagram: when rendering succeeds, every id a group
references itself (`url(#marker)`, `url(#gradient)`, `href="#…Symbol"`) is the id of a child of `<defs>`, and
every id referenced from inside the symbol fragments is defined inside `<defs>` — although `_deploy_defs`
skips ids it finds in `defs_ids` and `_add_decofactory` is skipped for names in `deco_cache`. -/
theorem render_refs_defined (T : Tables) (wf : T.WF) (dg : Diagram) (doc : DocS) (h : renderS T dg = .ok doc) :
    (∀ r ∈ doc.outerRefs, r ∈ doc.defs.map (·.id)) ∧ ∀ r ∈ doc.refs, r ∈ doc.defs.flatMap (·.ids) := by
  unfold renderS at h
  simp only [bind, Except.bind] at h
  cases hd : drawAllS T dg.cls (encodeDiagram dg).2 {} with
  | error e => simp [hd] at h
  | ok p =>
    obtain ⟨drawn, st⟩ := p
    simp only [hd, pure, Except.pure, Except.ok.injEq] at h
    subst h
    obtain ⟨i, _, ho, hi⟩ := drawAllS_closed wf _ _ _ _ hd (Inv.empty _)
    refine ⟨ho, ?_⟩
    intro r hr
    simp only [DrawnS.refs, List.mem_flatMap, List.mem_append] at hr
    obtain ⟨d, hd', hr⟩ := hr
    rcases hr with hr | hr
    · exact i.topSub r (ho r (List.mem_flatMap.mpr ⟨d, hd', hr⟩))
    · exact hi r (List.mem_flatMap.mpr ⟨d, hd', hr⟩)

theorem count_eq_one_of_nodup {l : List (List Char)} {a : List Char} (hn : l.Nodup) (ha : a ∈ l) : l.count a = 1 := by
  induction l with
  | nil => cases ha
  | cons x xs ih =>
    rw [List.nodup_cons] at hn
    rw [List.count_cons]
    by_cases hx : x = a
    · subst hx
      have : List.count x xs = 0 := List.count_eq_zero.mpr hn.1
      simp [this]
    · have hin : a ∈ xs := by
        rcases List.mem_cons.mp ha with h | h
        · exact absurd h.symm hx
        · exact h
      simp [ih hn.2 hin, hx]

/-- **Definitions are emitted once, however many elements use them; every reference of a group has exactly
ONE definition.** For every table (well-formed symbols, hex colour values, acyclic ranked dependencies) and
every diagram whose style overrides carry hex colour values: the children of `<defs>` have pairwise different
ids, a marker or gradient defines nothing but its own id, and each id referenced by a group is the id of
exactly one child of `<defs>`. -/
theorem defs_deployed_once (T : Tables) (wf : T.WF) (hs : StylesHexOK T.styles) (rank : List Char → Nat)
    (hrank : ∀ cls r, findSymbol T.symbols cls = some r → ∀ d ∈ r.deps, rank d < rank cls)
    (dg : Diagram) (hov : ∀ e ∈ dg.elems, ∀ p ∈ e.obj.style, p.2.hexOK = true)
    (doc : DocS) (h : renderS T dg = .ok doc) :
    (doc.defs.map (·.id)).Nodup ∧ (∀ e ∈ doc.defs, e.kind ≠ .symbol → e.ids = [e.id]) ∧
    ∀ r ∈ doc.outerRefs, (doc.defs.map (·.id)).count r = 1 := by
  have hclosed := (render_refs_defined T wf dg doc h).1
  unfold renderS at h
  simp only [bind, Except.bind] at h
  cases hd : drawAllS T dg.cls (encodeDiagram dg).2 {} with
  | error e => simp [hd] at h
  | ok p =>
    obtain ⟨drawn, st⟩ := p
    simp only [hd, pure, Except.pure, Except.ok.injEq] at h
    subst h
    have hov' : ∀ o ∈ (encodeDiagram dg).2, AllVals (fun v => v.hexOK = true) o.style := by
      intro o ho
      simp only [encodeDiagram, List.mem_map, List.mem_filter] at ho
      obtain ⟨e, ⟨he, _⟩, rfl⟩ := ho
      exact hov e he
    have n := drawAllS_ninv wf hs rank hrank _ _ _ _ hov' hd NInv.empty
    exact ⟨n.nodup, n.single, fun r hr => count_eq_one_of_nodup n.nodup (hclosed r hr)⟩

/-- … in particular for the generated tables (every diagram, any overrides with hex colour values). -/
theorem defs_deployed_once_generated (dg : Diagram) (hov : ∀ e ∈ dg.elems, ∀ p ∈ e.obj.style, p.2.hexOK = true)
    (doc : DocS) (h : renderS tables dg = .ok doc) :
    (doc.defs.map (·.id)).Nodup ∧ (∀ e ∈ doc.defs, e.kind ≠ .symbol → e.ids = [e.id]) ∧
    ∀ r ∈ doc.outerRefs, (doc.defs.map (·.id)).count r = 1 :=
  defs_deployed_once tables tables_wf.1 tables_defs_wf.1 (rankOf symbolRows) tables_defs_wf.2.1 dg hov doc h

/-- **`Styling._generate_id` is injective in (name, colours)**: two markers / gradients get the same id only
if they have the same factory name and the same colour list (names without `_` — all marker names and
`CustomGradient`, by `tables_defs_wf` — and `_`-free colour strings, which every `RGB.tohex()` is). -/
theorem generate_id_injective (n n' : List Char) (hs hs' : List (List Char)) (hn : '_' ∉ n) (hn' : '_' ∉ n')
    (hc : ∀ h ∈ hs, '_' ∉ h) (hc' : ∀ h ∈ hs', '_' ∉ h) (he : joinId n hs = joinId n' hs') : n = n' ∧ hs = hs' :=
  joinId_injective hn hn' hc hc' he

/-- the colour strings that reach `_generate_id` are `_`-free: `RGB.fromcss(v).tohex()` of a hex-valued `v` -/
theorem generate_id_colours_clean (v : Val) (h : List Char) (hv : v.hexOK = true) (hh : hexOf v = .ok h) : '_' ∉ h :=
  fun hin => (hexOf_clean hv hh '_' hin).2 rfl


/-- **Rendering any diagram of rule-abiding elements succeeds, and the document is complete and self-contained** (end to end,
on the real drawing state): for every diagram — any diagram class, any number of elements of any kind and style class, hidden or
not, with any labels — whose visible elements carry only overrides that obey `overridePlainOK` (hex colour values), rendering
either raises the one known `rx`/`ry` rejection or yields a document in which every reference of a group is the id of
exactly one child of `<defs>`, every reference from inside a symbol fragment is defined, the children of `<defs>` have pairwise
different ids, and there is exactly one group per visible element, in order, with its id and class. -/
theorem render_total_and_sound (dg : Diagram)
    (hov : ∀ e ∈ dg.elems, e.hidden = false →
      e.obj.style.all (overridePlainOK markerRows (isEdgeType e.obj.kind)) = true ∧
      (e.obj.style = [] ∨ isInfixOfB "symbol".toList ((styleType e.obj.kind ++ '.' :: e.obj.cls).map lowerChar) = false))
    (hhex : ∀ e ∈ dg.elems, ∀ p ∈ e.obj.style, p.2.hexOK = true) :
    renderS tables dg = .error .invalidAttribute ∨
    ∃ doc, renderS tables dg = .ok doc ∧
      (∀ r ∈ doc.outerRefs, (doc.defs.map (·.id)).count r = 1) ∧
      (∀ r ∈ doc.refs, r ∈ doc.defs.flatMap (·.ids)) ∧
      (doc.defs.map (·.id)).Nodup ∧
      doc.groups = ((dg.elems.filter (fun e => !e.hidden)).map fun e =>
        ({ id := e.obj.id, cls := groupClass e.obj.kind e.obj.cls e.obj.context } : Group)) := by
  rcases renderS_total tables_plain dg (fun e he hv => ⟨overridePlainOK_ok (hov e he hv).1, (hov e he hv).2⟩) with ⟨doc, hd⟩ | he
  · right
    obtain ⟨hn, _, hone⟩ := defs_deployed_once_generated dg hhex doc hd
    refine ⟨doc, hd, hone, (render_refs_defined tables tables_wf.1 dg doc hd).2, hn, ?_⟩
    -- the groups: `drawObjectS` adds the same group as `draw_object`
    unfold renderS at hd
    simp only [bind, Except.bind] at hd
    cases hda : drawAllS tables dg.cls (encodeDiagram dg).2 {} with
    | error e => simp [hda] at hd
    | ok p =>
      obtain ⟨drawn, st⟩ := p
      simp only [hda, pure, Except.pure, Except.ok.injEq] at hd
      subst hd
      simp only
      have hg : ∀ (os : List Obj) (st st' : DState) (ds : List DrawnS), drawAllS tables dg.cls os st = .ok (ds, st') →
          ds.map (·.group) = os.map fun o => ({ id := o.id, cls := groupClass o.kind o.cls o.context } : Group) := by
        intro os
        induction os with
        | nil => intro st st' ds h; simp only [drawAllS, Except.ok.injEq, Prod.mk.injEq] at h; rw [← h.1]; rfl
        | cons o os ih =>
          intro st st' ds h
          simp only [drawAllS, bind, Except.bind] at h
          cases h1 : drawObjectS tables dg.cls o st with
          | error e => rw [h1] at h; cases h
          | ok p1 =>
            obtain ⟨d, st1⟩ := p1
            rw [h1] at h
            simp only at h
            cases h2 : drawAllS tables dg.cls os st1 with
            | error e => rw [h2] at h; cases h
            | ok p2 =>
              obtain ⟨ds', st2⟩ := p2
              rw [h2] at h
              simp only [pure, Except.pure, Except.ok.injEq, Prod.mk.injEq] at h
              rw [← h.1]
              simp only [List.map_cons, ih _ _ _ h2]
              congr 1
              -- the group of one object
              unfold drawObjectS at h1
              simp only [bind, Except.bind] at h1
              cases hgs : getStyle tables.styles dg.cls (styleType o.kind ++ '.' :: o.cls) with
              | error e => rw [hgs] at h1; cases h1
              | ok D =>
                rw [hgs] at h1
                simp only at h1
                split at h1
                · cases h1
                · cases a1 : styleRefs tables.styles (prepare tables dg.cls o D).objStyle with
                  | error e => rw [a1] at h1; cases h1
                  | ok x1 =>
                    rw [a1] at h1; simp only at h1
                    cases a2 : textRefsOf tables (prepare tables dg.cls o D) with
                    | error e => rw [a2] at h1; cases h1
                    | ok x2 =>
                      rw [a2] at h1; simp only at h1
                      cases a3 : useLoop tables.symbols (prepare tables dg.cls o D).uses st with
                      | error e => rw [a3] at h1; cases h1
                      | ok x3 =>
                        rw [a3] at h1; simp only at h1
                        cases a4 : deployDefs tables.styles tables.markers (prepare tables dg.cls o D).objStyle x3 with
                        | error e => rw [a4] at h1; cases h1
                        | ok x4 =>
                          rw [a4] at h1; simp only at h1
                          cases a5 : deployDefs tables.styles tables.markers (prepare tables dg.cls o D).textStyle x4 with
                          | error e => rw [a5] at h1; cases h1
                          | ok x5 =>
                            rw [a5] at h1
                            simp only [pure, Except.pure, Except.ok.injEq, Prod.mk.injEq] at h1
                            rw [← h1.1]
      rw [hg _ _ _ _ hda]
      simp only [encodeDiagram, List.map_map]
      rfl
  · exact .inl he

/-! #### ids defined *inside* symbol fragments: not unique

The full claim "no id is defined twice in the document" is false: three icon factories each define the radial
gradient `brown_oval` (with identical content — `digests_consistent`), so a diagram showing two of them defines
it twice. References still resolve, to identical definitions; the statement of C18 does not ask for uniqueness. -/

/-- the full claim: no id at all is defined twice -/
def C18_all_ids_unique : Prop :=
  ∀ (dg : Diagram) (doc : DocS), renderS tables dg = .ok doc → (doc.defs.flatMap (·.ids)).Nodup

def missionAndCapability : Diagram :=
  { cls := some "Missions Capabilities Blank".toList, viewport := none,
    elems := [⟨false, { plainObj .box "Mission".toList with id := "m".toList, hasLabel := true }⟩,
              ⟨false, { plainObj .box "Capability".toList with id := "c".toList, hasLabel := true }⟩] }

theorem C18_all_ids_unique_fails : ¬ C18_all_ids_unique := by
  intro h
  have hr : (renderS tables missionAndCapability).map (fun d => d.defs.flatMap (·.ids)) =
      .ok ["MissionSymbol".toList, "brown_oval".toList, "CapabilitySymbol".toList, "brown_oval".toList] := by
    decide +kernel
  cases hd : renderS tables missionAndCapability with
  | error e => rw [hd] at hr; cases hr
  | ok doc =>
    have := h missionAndCapability doc hd
    rw [hd] at hr
    simp only [Except.map, Except.ok.injEq] at hr
    rw [hr] at this
    revert this
    decide

/-- the strongest true statement (partial): an id that is defined twice is never the id of a child of `<defs>`
— it sits inside a `<symbol>` fragment (`defs_deployed_once`: children's ids are pairwise different, markers and
gradients define only their own id) —, the ids that two fragments of the generated symbol table share are exactly
the observed ones (`brown_oval`), and equal ids there have byte-identical definitions. -/
theorem C18_all_ids_unique_partial :
    clashIds symbolRows = ["brown_oval".toList] ∧ digestsConsistent symbolIdDigests = true ∧
    (symbolRows.filter (·.ids.contains "brown_oval".toList)).map (·.name) =
      ["OperationalCapabilitySymbol".toList, "MissionSymbol".toList, "CapabilitySymbol".toList] :=
  ⟨clash_ids_eq.trans (by decide +kernel), digests_consistent, by decide +kernel⟩


/-- **… and when no two deployed fragments share an id, no id at all is defined twice.** For every diagram whose style
overrides carry upper-case hex colour values (what `RGB.tohex()` writes): if rendering succeeds and the decidable
`noClash` holds of the resulting document — no two *deployed* registered symbol fragments share an id, which for the
generated table means: at most one of the three `brown_oval` icons is shown — then all ids defined in `<defs>`, those
inside symbol fragments included, are pairwise different. (The driver evaluates `noClash` on every case and the harness
compares it with the duplicate ids of the real document.) Needs from the table: fragment ids pairwise different, none
shaped like a generated marker / gradient id, only a fragment's own id ends in `Symbol`, the `Error` fragment defines
nothing but its id (`symbols_row_ids`, `error_ids_ok`), upper-case hex colours (`styles_upper`). -/
theorem all_ids_unique_when_no_clash (dg : Diagram) (hov : ∀ e ∈ dg.elems, ∀ p ∈ e.obj.style, p.2.upperOK = true)
    (doc : DocS) (h : renderS tables dg = .ok doc) (hc : noClash symbolRows (doc.defs.map (·.id)) = true) :
    (doc.defs.flatMap (·.ids)).Nodup := by
  have hn := (defs_deployed_once_generated dg (fun e he p hp => upperOK_hexOK _ (hov e he p hp)) doc h).1
  refine allIds_nodup (fun r hr => (List.all_eq_true.mp symbols_wf) r hr) symbols_row_ids hn ?_ hc
  unfold renderS at h
  simp only [bind, Except.bind] at h
  cases hd : drawAllS tables dg.cls (encodeDiagram dg).2 {} with
  | error e => simp [hd] at h
  | ok p =>
    obtain ⟨drawn, st⟩ := p
    simp only [hd, pure, Except.pure, Except.ok.injEq] at h
    subst h
    have hov' : ∀ o ∈ (encodeDiagram dg).2, AllVals (fun v => v.upperOK = true) o.style := by
      intro o ho
      simp only [encodeDiagram, List.mem_map, List.mem_filter] at ho
      obtain ⟨e, ⟨he, _⟩, rfl⟩ := ho
      exact hov e he
    have hup : StylesUpperOK tables.styles := fun e he p hp =>
      (List.all_eq_true.mp ((List.all_eq_true.mp styles_upper) e he)) p hp
    exact drawAllS_shaped error_ids_ok hup _ _ _ _ hov' hd (fun _ he => nomatch he)

/-! ### label text -/

/-- **Wrapping neither drops, adds, splits nor reorders a word** — for every text-extent function,
every width, every whitespace predicate that contains the space character, every text: the words
of the wrapped lines, concatenated, are the words of the text. -/
theorem wrap_preserves_words (sp : Char → Bool) (hsp : sp ' ' = true) (ext : (List Char) → Rat) (width : Rat)
    (lines : List (List Char)) :
    (wordWrap sp ext width lines).flatMap (words sp) = lines.flatMap (words sp) := by
  unfold wordWrap
  have h := wrapLines_words hsp ext width lines true
  cases hw : wrapLines sp ext width true lines with
  | nil => rw [hw] at h; simp [← h, words_nil]
  | cons l ls => rw [hw] at h; exact h

/-- A wrapped line of two or more words fits into the width (only a single word can stick out);
no wrapped line of a non-blank input line is empty. -/
theorem wrapped_lines_fit (ext : (List Char) → Rat) (width : Rat) (ws : List (List Char)) :
    (∀ l ∈ packW ext width [] ws, l.length ≥ 2 → ext (joinSp l) ≤ width) ∧
    (∀ l ∈ packW ext width [] ws, l ≠ []) ∧ (packW ext width [] ws).flatten = ws :=
  ⟨packW_fits ext width ws [] (fun h => by simp at h), packW_nonempty ext width ws [],
   by simpa using packW_flatten ext width ws []⟩

/-- **Vertical overflow only truncates and marks**: the rendered lines are a prefix of the given
lines (nothing cut), or a prefix whose last line `ov` is replaced by `ov ++ "..."` resp. by the
first wrap line of `ov` (at the width left of the dots) followed by `"..."` — a cut is always
marked. -/
theorem overflow_shape (sp : Char → Bool) (extW extH : (List Char) → Rat) (lines : List (List Char)) (height maxW : Rat) :
    vOverflow sp extW extH lines height maxW = lines ∨
    ∃ (pre : List (List Char)) (ov body : (List Char)),
      vOverflow sp extW extH lines height maxW = pre ++ [body ++ dots] ∧ (pre ++ [ov]) <+: lines ∧
      (body = ov ∨ body = (wordWrap sp extW (((maxW - extW dots).floor : Int) : Rat)
        (if ov = [] then [] else [ov])).headD []) := by
  unfold vOverflow
  have hpre := fitLoop_prefix extH height lines 0 none
  cases hf : fitLoop extH height 0 none lines with
  | mk rendered o =>
    rw [hf] at hpre
    cases o with
    | none =>
      left
      have hc := fitLoop_complete extH height lines 0 none (by rw [hf])
      rw [hf] at hc
      exact hc
    | some ov =>
      right
      have hshape := fitLoop_overflow extH height lines 0 none ov (by rw [hf])
      rw [hf] at hshape
      have hbody : ∀ body', (if extW (ov ++ dots) < maxW then ov ++ dots
            else (wordWrap sp (fun s => extW s) (((maxW - extW dots).floor : Int) : Rat)
              (if ov = [] then [] else [ov])).headD [] ++ dots) = body' →
          ∃ body, body' = body ++ dots ∧ (body = ov ∨
            body = (wordWrap sp extW (((maxW - extW dots).floor : Int) : Rat) (if ov = [] then [] else [ov])).headD []) := by
        intro body' hb
        split at hb
        · exact ⟨ov, hb.symm, .inl rfl⟩
        · exact ⟨_, hb.symm, .inr rfl⟩
      obtain ⟨body, hb1, hb2⟩ := hbody _ rfl
      rcases hshape with ⟨hnil, hovl⟩ | hlast
      · simp only at hnil hovl
        subst hnil
        simp only [if_true]
        refine ⟨[], ov, body, by simpa using hb1, ?_, hb2⟩
        cases lines with
        | nil => simp [fitLoop] at hf
        | cons l ls => simp at hovl; subst hovl; simp
      · simp only at hlast
        have hne : rendered ≠ [] := by intro h; rw [h] at hlast; cases hlast
        simp only [hne, if_false]
        refine ⟨rendered.dropLast, ov, body, by rw [hb1], ?_, hb2⟩
        have : rendered.dropLast ++ [ov] = rendered := by
          have h1 := List.dropLast_concat_getLast hne
          have h2 : rendered.getLast hne = ov := by
            have := List.getLast?_eq_some_getLast hne
            rw [hlast] at this
            exact (Option.some.inj this).symm
          rw [h2] at h1; exact h1
        rw [this]; exact hpre


theorem flatMap_prefix {α β : Type} (f : α → List β) {l₁ l₂ : List α} (h : l₁ <+: l₂) : l₁.flatMap f <+: l₂.flatMap f := by
  obtain ⟨t, rfl⟩ := h
  rw [List.flatMap_append]
  exact List.prefix_append _ _

/-- **A label's text survives rendering: unaltered apart from wrapping, or a marked prefix.** For every text, every
extent function, every box size (zero and negative included), icon or not: `render_hbounded_lines` either fails its
assertions, or returns the wrapped lines — whose words are exactly the words of the label, in order, and no `...` is
added —, or returns `pre ++ [body ++ "..."]` where the words of `pre ++ [body]` are a *prefix* of the label's words:
no word is lost in the middle, duplicated, reordered or invented, and a cut is always marked. -/
theorem label_text_preserved (sp : Char → Bool) (hsp : sp ' ' = true) (extW extH : List Char → Rat)
    (text : List (List Char)) (rectW rectH pad icon : Rat) (out : List (List Char))
    (h : renderLabel sp extW extH text rectW rectH pad icon = some out) :
    (out = hOverflowLines sp extW text rectW pad icon ∧ out.flatMap (words sp) = text.flatMap (words sp)) ∨
    ∃ (pre : List (List Char)) (body : List Char), out = pre ++ [body ++ dots] ∧
      (pre ++ [body]).flatMap (words sp) <+: text.flatMap (words sp) := by
  unfold renderLabel at h
  split at h
  · cases h
  · simp only at h
    split at h
    · cases h
    · simp only [Option.some.injEq] at h
      subst h
      have hw : (hOverflowLines sp extW text rectW pad icon).flatMap (words sp) = text.flatMap (words sp) :=
        wrap_preserves_words sp hsp extW _ text
      rcases overflow_shape sp extW extH (hOverflowLines sp extW text rectW pad icon) rectH
          (maxWidth extW (hOverflowLines sp extW text rectW pad icon)) with heq | ⟨pre, ov, body, heq, hpre, hbody⟩
      · exact .inl ⟨heq, by rw [heq]; exact hw⟩
      · refine .inr ⟨pre, body, heq, ?_⟩
        rw [← hw]
        refine List.IsPrefix.trans ?_ (flatMap_prefix (words sp) hpre)
        simp only [List.flatMap_append, List.flatMap_cons, List.flatMap_nil, List.append_nil]
        apply (List.prefix_append_right_inj _).mpr
        rcases hbody with rfl | rfl
        · exact List.prefix_refl _
        · have hww := wrap_preserves_words sp hsp extW
            ((((maxWidth extW (hOverflowLines sp extW text rectW pad icon)) - extW dots).floor : Int) : Rat)
            (if ov = [] then [] else [ov])
          have hov : (if ov = [] then [] else [ov]).flatMap (words sp) = words sp ov := by
            by_cases ho : ov = []
            · simp [ho, words_nil]
            · simp [ho]
          rw [hov] at hww
          cases hl : wordWrap sp extW ((((maxWidth extW (hOverflowLines sp extW text rectW pad icon)) - extW dots).floor : Int) : Rat)
              (if ov = [] then [] else [ov]) with
          | nil => simp [words_nil]
          | cons l ls =>
            rw [hl] at hww
            simp only [List.headD_cons]
            rw [← hww, List.flatMap_cons]
            exact List.prefix_append _ _

/-- **Ellipsis iff the lines do not fit**: when every wrapped line fits into the height the result is the wrapped
lines themselves; when one does not, the result ends in a line that ends in `...`. -/
theorem ellipsis_iff_overflow (sp : Char → Bool) (extW extH : List Char → Rat) (lines : List (List Char)) (height maxW : Rat) :
    ((fitLoop extH height 0 none lines).2 = none → vOverflow sp extW extH lines height maxW = lines) ∧
    ((fitLoop extH height 0 none lines).2 ≠ none →
      ∃ pre body, vOverflow sp extW extH lines height maxW = pre ++ [body ++ dots]) := by
  constructor
  · intro hn
    unfold vOverflow
    have hc := fitLoop_complete extH height lines 0 none hn
    cases hf : fitLoop extH height 0 none lines with
    | mk rendered o =>
      rw [hf] at hn hc
      simp only at hn hc
      subst hn
      exact hc
  · intro hn
    unfold vOverflow
    cases hf : fitLoop extH height 0 none lines with
    | mk rendered o =>
      rw [hf] at hn
      cases o with
      | none => exact absurd rfl hn
      | some ov =>
        simp only
        by_cases hr : rendered = []
        · simp only [hr, if_true]
          split
          · exact ⟨[], ov, rfl⟩
          · exact ⟨[], _, rfl⟩
        · simp only [hr, if_false]
          split
          · exact ⟨rendered.dropLast, ov, rfl⟩
          · exact ⟨rendered.dropLast, _, rfl⟩

/-- several labels of one builder: concatenation, label by label -/
theorem labels_rendered_in_order (sp : Char → Bool) (extW extH : List Char → Rat) (rectW rectH pad icon : Rat) :
    ∀ (labels : List (List (List Char))) (out : List (List Char)),
      renderLabels sp extW extH rectW rectH pad icon labels = some out →
      ∃ parts : List (List (List Char)), out = parts.flatten ∧ parts.length = labels.length ∧
        ∀ p ∈ parts.zip labels, renderLabel sp extW extH p.2 rectW rectH pad icon = some p.1 := by
  intro labels
  induction labels with
  | nil => intro out h; simp only [renderLabels, Option.some.injEq] at h; subst h; exact ⟨[], rfl, rfl, fun _ hp => nomatch hp⟩
  | cons t ts ih =>
    intro out h
    simp only [renderLabels] at h
    cases h1 : renderLabel sp extW extH t rectW rectH pad icon with
    | none => rw [h1] at h; simp at h
    | some a =>
      cases h2 : renderLabels sp extW extH rectW rectH pad icon ts with
      | none => rw [h1, h2] at h; simp at h
      | some b =>
        rw [h1, h2] at h
        simp only [Option.some.injEq] at h
        subst h
        obtain ⟨parts, hb, hlen, hall⟩ := ih b h2
        refine ⟨a :: parts, by simp [hb], by simp [hlen], ?_⟩
        intro p hp
        simp only [List.zip_cons_cons, List.mem_cons] at hp
        rcases hp with rfl | hp
        · exact h1
        · exact hall p hp


/-- **Rendering invents no character**: every character of a rendered label line is a character of the label, the
joining space of the wrap, or a dot of the ellipsis. -/
theorem rendered_chars_from_label (sp : Char → Bool) (extW extH : List Char → Rat) (text : List (List Char))
    (rectW rectH pad icon : Rat) (out : List (List Char)) (h : renderLabel sp extW extH text rectW rectH pad icon = some out) :
    ∀ l ∈ out, ∀ c ∈ l, c = '.' ∨ c = ' ' ∨ ∃ ln ∈ text, c ∈ ln := by
  unfold renderLabel at h
  split at h
  · cases h
  · simp only at h
    split at h
    · cases h
    · simp only [Option.some.injEq] at h
      subst h
      intro l hl c hc
      rcases vOverflow_chars extW extH _ rectH _ l hl c hc with h | h | ⟨ln, hln, h⟩
      · exact .inl h
      · exact .inr (.inl h)
      · rcases wordWrap_chars extW _ text ln hln c h with h' | h'
        · exact .inr (.inl h')
        · exact .inr (.inr h')

/-- **Label text is escaped, never interpreted — given the escaping svgwrite applies** (`_escape_cdata`, compared
with the real `TSpan(...).tostring()` on every run): for every label whose characters are XML characters, every
rendered line, written as the text of a `<tspan>`, contains no `<`, consists of XML characters only, and is read
back by an XML parser as exactly that line (the lines of `text.splitlines()` contain no CR, which a parser would
normalise). -/
theorem label_lines_xml_safe (sp : Char → Bool) (extW extH : List Char → Rat) (text : List (List Char))
    (hlegal : ∀ ln ∈ text, ln.all xmlLegal = true) (hcr : ∀ ln ∈ text, '\r' ∉ ln)
    (rectW rectH pad icon : Rat) (out : List (List Char)) (h : renderLabel sp extW extH text rectW rectH pad icon = some out) :
    ∀ l ∈ out, '<' ∉ escText l ∧ (escText l).all xmlLegal = true ∧ unesc (escText l) = some l := by
  intro l hl
  have hnocr : '\r' ∉ l := by
    intro hc
    rcases rendered_chars_from_label sp extW extH text rectW rectH pad icon out h l hl _ hc with h' | h' | ⟨ln, hln, hc'⟩
    · revert h'; decide
    · revert h'; decide
    · exact hcr ln hln hc'
  have hall : l.all xmlLegal = true := by
    rw [List.all_eq_true]
    intro c hc
    rcases rendered_chars_from_label sp extW extH text rectW rectH pad icon out h l hl c hc with rfl | rfl | ⟨ln, hln, hc'⟩
    · decide
    · decide
    · exact (List.all_eq_true.mp (hlegal ln hln)) c hc'
  exact ⟨(escText_safe l).1, (escText_safe l).2 hall, escText_roundtrip l hnocr⟩

/-- the same for attribute values (element ids, `class` with the style class and the `context-…` tokens):
no `<`, no `"`, XML characters only, read back unchanged -/
theorem attribute_values_xml_safe (v : List Char) (hlegal : v.all xmlLegal = true) :
    '<' ∉ escAttr v ∧ '"' ∉ escAttr v ∧ (escAttr v).all xmlLegal = true ∧ unesc (escAttr v) = some v :=
  ⟨(escAttr_safe v).1, (escAttr_safe v).2.1, (escAttr_safe v).2.2 hlegal, escAttr_roundtrip v⟩

/-! ## Non-vacuity -/

-- an association edge with an overridden end marker in a class diagram: referenced = deployed
example : (drawObject tables (some "Class Diagram Blank".toList)
    { kind := .edge, id := "e1".toList, cls := "Association".toList, context := [], hasLabel := false,
      nFloating := 0, nEdgeLabels := 1, nFeatures := 0, hasChildren := false, hasDescription := false,
      style := [("marker-start".toList, .str "FilledDiamondMark".toList)] }).map (fun d => (d.refs, d.defs))
    = .ok (["FilledDiamondMark_000000".toList, "FineArrowMark_000000".toList],
           ["FilledDiamondMark_000000".toList, "FineArrowMark_000000".toList]) := by decide +kernel

-- a symbol whose style class has no factory: the fallback fragment is deployed under the requested id
example : (drawObject tables none
    { kind := .symbol, id := "s1".toList, cls := "Note".toList, context := ["c".toList], hasLabel := false,
      nFloating := 0, nEdgeLabels := 0, nFeatures := 0, hasChildren := false, hasDescription := false,
      style := [] }).map (fun d => (d.group.cls, d.refs, d.defs))
    = .ok ("Box Note context-c".toList, ["NoteSymbol".toList], ["NoteSymbol".toList]) := by decide +kernel

-- a human-actor box with a label: the stick figure its icon uses is deployed as a dependency
example : (drawObject tables (some "Physical Architecture Blank".toList)
    { kind := .box, id := "b1".toList, cls := "PhysicalNodeHumanActor".toList, context := [], hasLabel := true,
      nFloating := 0, nEdgeLabels := 0, nFeatures := 0, hasChildren := false, hasDescription := false,
      style := [] }).map (fun d => d.refs.all d.defs.contains && d.refs.contains "StickFigureSymbol".toList)
    = .ok true := by decide +kernel

-- wrapping with a concrete extent (1 per character), width 5
example : wordWrap (· = ' ') (fun s => (s.length : Rat)) 5 ["  ab cd  efg h".toList]
    = ["  ab cd".toList, "efg h".toList] := by decide +kernel

-- a history: two edges sharing marker and stroke, a gradient used by two boxes, a human actor after a stick figure:
-- each definition once, in deployment order
def historyExample : Diagram :=
  let e1 : Obj := { plainObj .edge "ComponentExchange".toList with id := "e1".toList, style := [("marker-end".toList, .str "DiamondMark".toList)] }
  let e2 : Obj := { plainObj .edge "FunctionalExchange".toList with id := "e2".toList, style := [("marker-end".toList, .str "DiamondMark".toList), ("stroke".toList, .str "#4a4a97".toList)] }
  let s1 : Obj := { plainObj .symbol "StickFigure".toList with id := "s".toList }
  let b1 : Obj := { plainObj .box "LogicalHumanActor".toList with id := "b".toList, hasLabel := true }
  let b2 : Obj := { plainObj .box "LogicalActor".toList with id := "b2".toList }
  { cls := some "Logical Architecture Blank".toList, viewport := none,
    elems := [⟨false, e1⟩, ⟨false, e2⟩, ⟨false, e2⟩, ⟨false, s1⟩, ⟨false, b1⟩, ⟨false, b2⟩] }

example : (renderS tables historyExample).map (fun d => d.defs.map (·.id)) =
    .ok ["DiamondMark_4A4A97".toList, "StickFigureSymbol".toList, "LogicalHumanActorSymbol".toList,
         "CustomGradient_C3E6FF_96B1DA".toList, "CustomGradient_DAFDFF_C6E6FF".toList] := by
  decide +kernel

-- the hypotheses of `render_total_and_sound` hold for that history (decidable), so its conclusion applies
example : ∃ doc, renderS tables historyExample = .ok doc ∧ (doc.defs.map (·.id)).Nodup ∧
    ∀ r ∈ doc.outerRefs, (doc.defs.map (·.id)).count r = 1 := by
  rcases render_total_and_sound historyExample (by decide +kernel) (by decide +kernel) with h | ⟨doc, hd, hone, _, hn, _⟩
  · have hv : (renderS tables historyExample).map (fun d => d.defs.length) = .ok 5 := by decide +kernel
    rw [h] at hv; cases hv
  · exact ⟨doc, hd, hn, hone⟩

-- no clash in that history: all ids, inner ones included, are pairwise different
example : ∀ doc, renderS tables historyExample = .ok doc → (doc.defs.flatMap (·.ids)).Nodup := by
  intro doc hd
  refine all_ids_unique_when_no_clash historyExample (by decide +kernel) doc hd ?_
  have hv : (renderS tables historyExample).map (fun d => noClash symbolRows (d.defs.map (·.id))) = .ok true := by
    decide +kernel
  rw [hd] at hv
  simpa [Except.map] using hv
-- … and `noClash` is what fails for the Mission + Capability diagram
example : (renderS tables missionAndCapability).map (fun d => noClash symbolRows (d.defs.map (·.id))) = .ok false := by
  decide +kernel

-- a label of five words in a box two lines high (extent: 1 per character wide, 1 high): two lines, the second cut and marked
example : renderLabel (· = ' ') (fun s => (s.length : Rat)) (fun _ => 1) ["ab cd efg hi jk".toList] 6 2 0 0
    = some ["ab cd".toList, "efg...".toList] := by decide +kernel
-- the same label with enough room: all words, no dots
example : renderLabel (· = ' ') (fun s => (s.length : Rat)) (fun _ => 1) ["ab cd efg hi jk".toList] 6 9 0 0
    = some ["ab cd".toList, "efg hi".toList, "jk".toList] := by decide +kernel
-- a box narrower than icon + padding: `assert max_text_width >= 0` fails
example : renderLabel (· = ' ') (fun s => (s.length : Rat)) (fun _ => 1) ["ab".toList] 10 9 1 20 = none := by decide +kernel

-- markup in a label is escaped and read back as text
example : escText "a<b>&amp;]]>".toList = "a&lt;b&gt;&amp;amp;]]&gt;".toList ∧
    unesc "a&lt;b&gt;&amp;amp;]]&gt;".toList = some "a<b>&amp;]]>".toList := by decide +kernel

-- an unknown style class in an unknown diagram class, with label and features: draws (Error fallback icon)
example : (drawObject tables (some "No Such Diagram".toList)
    { plainObj .symbol "NoSuchClass".toList with nFloating := 2 }).map (fun d => d.defs)
    = .ok ["NoSuchClassSymbol".toList] := by decide +kernel

end Capella.Props.C18
