import Capella.Lemmas.Query
import Capella.Lemmas.QueryList
import Capella.Lemmas.QuerySlice
import Capella.Lemmas.QueryTable
import Capella.Lemmas.QuerySave
import Capella.Gen.Hier
import Capella.Gen.HierRels

/-!
# C10 — queries return exactly what a brute-force scan of the model would

Property theorems only; helper lemmas live in `Capella/Lemmas/Query.lean`, the model in
`Capella/Model/Query.lean`.
-/
namespace Capella.Props.C10
open Capella.Query Capella.QList Capella.QTable

/-- Type search is sound and complete: with a type index that is consistent with the trees, `search`
(any set of types, optional `below` anchor) returns exactly the nodes a full scan finds. -/
theorem search_sound_complete (nodes : List Node) (idx : Index) (h : IndexConsistent nodes idx)
    (xts : List Str) (below : Option Nat) (i : Nat) :
    i ∈ search nodes idx xts below ↔ i ∈ scan nodes xts below :=
  search_iff_scan nodes idx h xts below i

/-- … and returns no object twice. -/
theorem search_no_duplicates (nodes : List Node) (idx : Index) (h : IndexConsistent nodes idx)
    (xts : List Str) (below : Option Nat) : (search nodes idx xts below).Nodup :=
  search_nodup nodes idx h xts below

/-- A short type name stands for exactly the registered types `…:<name>`; an unknown one raises. -/
theorem resolve_short_name (handlers : List Str) (s : Str) (hc : s.contains ':' = false)
    (hg : genericNames.contains s = false) :
    resolve handlers [.str s] [] =
      (if (handlers.filter (fun h => endsWith h (':' :: s))).isEmpty then .error ()
       else .ok (handlers.filter (fun h => endsWith h (':' :: s)))) := by
  unfold resolve
  rw [if_neg (by rw [hc]; exact Bool.false_ne_true), if_neg (by rw [hg]; exact Bool.false_ne_true)]
  simp only [List.nil_append]
  split <;> simp [resolve]

/-- The pre-filter never drops a true reference: if a link-storing relation of `i` holds `y`, then
`#id(y)` is spelled in an attribute of `i` or of one of its children, i.e. `i` passes the XPath. -/
theorem prefilter_complete (nodes : List Node) (rels : Nat → List Rel) (hshape : LinkShape nodes rels)
    (i y : Nat) (hi : i < nodes.length) (hnv : nonVisual nodes i = true)
    (r : Rel) (hr : r ∈ rels i) (ts : List Nat) (hts : relTargets nodes i r = some ts) (hy : y ∈ ts) :
    i ∈ prefilter nodes (uidAt nodes y) := by
  exact mem_prefilter_of_spelled nodes _ i hi hnv (target_spelled nodes rels hshape i y r hr ts hts hy)

/-- Hence `find_references` equals the brute-force evaluation of every relation of every
non-visual element — as a list, order included. -/
theorem findrefs_eq_brute (nodes : List Node) (rels : Nat → List Rel) (hshape : LinkShape nodes rels)
    (y : Nat) : findRefs nodes rels y = bruteRefs nodes rels y :=
  findRefs_eq_bruteRefs nodes rels hshape y

/-- Soundness: every reported `(x, relation, index)` really has `y` at that index of that relation
of `x` (no link-shape hypothesis needed). -/
theorem findrefs_sound (nodes : List Node) (rels : Nat → List Rel) (y : Nat) (x : Nat × Str × Nat)
    (h : x ∈ findRefs nodes rels y) :
    ∃ r ∈ rels x.1, r.name = x.2.1 ∧ ∃ ts, relTargets nodes x.1 r = some ts ∧ ts[x.2.2]? = some y := by
  unfold findRefs findRefsV at h
  simp only [List.mem_flatMap] at h
  obtain ⟨i, _, hx⟩ := h
  obtain ⟨h1, r, hr, hn, ts, hts, hk⟩ := mem_refsAt nodes rels y i x hx
  rw [h1]
  exact ⟨r, hr, hn, ts, hts, hk⟩

/-- Completeness: whenever a link-storing relation `r` of a non-visual element `i` holds `y`,
`find_references y` reports `(i, r, k)` for some index `k`. -/
theorem findrefs_complete (nodes : List Node) (rels : Nat → List Rel) (hshape : LinkShape nodes rels)
    (i y : Nat) (hi : i < nodes.length) (hnv : nonVisual nodes i = true)
    (r : Rel) (hr : r ∈ rels i) (ts : List Nat) (hts : relTargets nodes i r = some ts) (hy : y ∈ ts) :
    ∃ k, (i, r.name, k) ∈ findRefs nodes rels y := by
  rw [findrefs_eq_brute nodes rels hshape]
  refine ⟨ts.idxOf y, ?_⟩
  unfold bruteRefs bruteRefsV
  simp only [List.mem_flatMap, List.mem_filter, List.mem_range]
  refine ⟨i, ⟨hi, hnv⟩, ?_⟩
  unfold refsAtV
  simp only [List.mem_filterMap]
  refine ⟨r, hr, ?_⟩
  rw [hts]
  simp only [idxOf?, List.contains_iff_mem, hy, if_true, Option.map_some]

/-- Without the link-shape hypothesis completeness fails: `follow_link` accepts a bare id in a
reference child, the XPath looks for `#id`. -/
theorem findrefs_complete_needs_shape :
    ¬ ∀ (nodes : List Node) (rels : Nat → List Rel) (y : Nat),
        findRefs nodes rels y = bruteRefs nodes rels y := by
  intro h
  have := h
    [{ uid := "x".toList, tag := "e".toList },
     { uid := "l".toList, tag := "link".toList, xtype := "T".toList, attrs := [("href".toList, "y".toList)], parent := some 0 },
     { uid := "y".toList, tag := "e".toList }]
    (fun i => if i = 0 then [⟨"targets".toList, .child "link".toList "T".toList "href".toList⟩] else [])
    2
  revert this
  decide

/-- Back-references are exactly the scan: the objects of the candidate types that hold `y` in one
of the named relations. -/
theorem backref_spec (nodes : List Node) (idx : Index) (h : IndexConsistent nodes idx)
    (rels : Nat → List Rel) (classes attrs : List Str) (y c : Nat) :
    c ∈ backref nodes idx rels classes attrs y ↔
      c ∈ scan nodes classes none ∧ holds nodes rels attrs y c = true := by
  unfold backref
  rw [List.mem_filter, search_sound_complete nodes idx h]

/-- Filters preserve order: the result is a sub-list of the list. -/
theorem filter_order_preserving {α : Type} (rep pos : Bool) (key : α → Key) (vals : List Atom)
    (l : List α) : List.Sublist (filterBy rep pos key vals l) l :=
  List.filter_sublist

/-- Partition (repaired `ismatch`): for every list, attribute and value set, `by` and `exclude`
are the two halves of an order-preserving interleaving that reconstructs the list. -/
theorem filter_partition {α : Type} (key : α → Key) (vals : List Atom) (l : List α) :
    merge (l.map (fun x => ismatch true true (key x) vals))
      (filterBy true true key vals l) (filterBy true false key vals l) = l := by
  unfold filterBy
  have : l.filter (fun x => ismatch true false (key x) vals)
      = l.filter (fun x => !ismatch true true (key x) vals) :=
    List.filter_congr (fun x _ => ismatch_complement_repaired (key x) vals)
  rw [this]
  exact merge_filter _ l

/-- … and no element is in both halves. -/
theorem filter_disjoint {α : Type} (key : α → Key) (vals : List Atom) (l : List α) (x : α)
    (h1 : x ∈ filterBy true true key vals l) : x ∉ filterBy true false key vals l := by
  unfold filterBy at *
  intro h2
  have a := (List.mem_filter.mp h1).2
  have b := (List.mem_filter.mp h2).2
  rw [ismatch_complement_repaired, a] at b
  cases b

/-- The coded `ismatch` partitions only lists in which every element has the attribute
(the hypothesis the proof forces). -/
theorem filter_partition_coded {α : Type} (key : α → Key) (vals : List Atom) (l : List α)
    (hall : ∀ x ∈ l, key x ≠ none) :
    merge (l.map (fun x => ismatch false true (key x) vals))
      (filterBy false true key vals l) (filterBy false false key vals l) = l := by
  unfold filterBy
  have : l.filter (fun x => ismatch false false (key x) vals)
      = l.filter (fun x => !ismatch false true (key x) vals) :=
    List.filter_congr (fun x hx => ismatch_complement_coded (key x) vals (hall x hx))
  rw [this]
  exact merge_filter _ l

/-- The full statement is false for the coded `ismatch`: in a mixed list an element lacking the
attribute is in neither half. -/
def C10_filter_coded_full : Prop :=
  ∀ (l : List Key) (vals : List Atom),
    (filterBy false true id vals l).length + (filterBy false false id vals l).length = l.length

theorem C10_filter_coded_full_fails : ¬ C10_filter_coded_full := by
  intro h
  have := h [some (.atom (.s "a".toList)), none] [.s "a".toList]
  revert this
  decide

/-- `single=True` succeeds exactly when there is one match … -/
theorem single_ok_iff_one {α : Type} (ms : List α) (x : α) : single ms = .ok x ↔ ms = [x] :=
  single_ok_iff ms x

/-- … and fails on zero or several matches. -/
theorem single_fails_on_0_or_many {α : Type} (ms : List α) (h : ms.length ≠ 1) :
    single ms = .error .noMatch ∨ single ms = .error .multiple := by
  cases ms with
  | nil => left; rfl
  | cons a r =>
    cases r with
    | nil => simp at h
    | cons b t => right; rfl

/-- `lst - other` is the order-preserving sub-list of the elements whose uuid does not occur in `other`. -/
theorem sub_spec {α : Type} (key : α → Str) (l other : List α) :
    List.Sublist (sub key l other) l ∧ ∀ x, x ∈ sub key l other ↔ x ∈ l ∧ key x ∉ other.map key := by
  refine ⟨List.filter_sublist, fun x => ?_⟩
  unfold sub
  simp [List.mem_filter]

/-- `map` yields every mapped object exactly once: keys are unique, everything comes from some
element, and every mapped uuid is represented. -/
theorem map_spec {α β : Type} (f : α → List β) (key : β → Str) (l : List α) :
    ((mapFlat f key l).map key).Nodup ∧
    (∀ y ∈ mapFlat f key l, ∃ x ∈ l, y ∈ f x) ∧
    (∀ x ∈ l, ∀ y ∈ f x, ∃ y' ∈ mapFlat f key l, key y' = key y) := by
  unfold mapFlat
  refine ⟨(dedupBy_keys_nodup key _ []).1, ?_, ?_⟩
  · intro y hy
    have := mem_dedupBy key _ [] y hy
    simpa [List.mem_flatMap] using this
  · intro x hx y hy
    exact key_mem_dedupBy key _ [] y (List.mem_flatMap.mpr ⟨x, hx, hy⟩) (by simp)


/-! ## `ElementList` and its filter objects as coded (`Model/QueryList.lean`) -/

/-- Every pair of filter names `by_<a>` / `exclude_<a>s` of a list denotes the same attribute path
with opposite polarity (and only `by_name` / `by_uuid` promise a single result by default). -/
theorem filter_names_complementary (a : Str) :
    parseName false ("by_".toList ++ a) =
      some { path := splitDots a, positive := true, single := (a = "name".toList || a = "uuid".toList) } ∧
    parseName false ("exclude_".toList ++ a ++ "s".toList) =
      some { path := splitDots a, positive := false } :=
  ⟨parseName_by a, parseName_exclude a⟩

/-- … and on a mixed list `by_type` / `exclude_types` are the two polarities of the lowercase
filter on the class name. -/
theorem filter_names_mixed_type :
    parseName true "by_type".toList =
      some { path := ["__class__".toList, "__name__".toList], positive := true, lowercase := true } ∧
    parseName true "exclude_types".toList =
      some { path := ["__class__".toList, "__name__".toList], positive := false, lowercase := true } := by
  constructor <;> rfl

/-- Partition, for the filter objects as coded, in any object world: for every attribute path
(dotted or not, lowercase variant or not), every value tuple and every list, `by` and `exclude`
either raise the same exception or return `l.filter p` and `l.filter (¬ p)` for one predicate `p` —
complementary, disjoint, order-preserving; elements lacking the attribute included. -/
theorem call_partition (w : World) (path : List Str) (s1 s2 lc : Bool) (vals : List Atom) (l : List Nat) :
    (∃ e, call w ⟨path, true, s1, lc⟩ vals (some false) l = .error e ∧
          call w ⟨path, false, s2, lc⟩ vals (some false) l = .error e) ∨
    (∃ p : Nat → Bool, call w ⟨path, true, s1, lc⟩ vals (some false) l = .ok (.list (l.filter p)) ∧
          call w ⟨path, false, s2, lc⟩ vals (some false) l = .ok (.list (l.filter (fun x => !p x)))) :=
  call_partition_core w path s1 s2 lc vals l

/-- … hence the two results interleave back to the list. -/
theorem call_partition_merge (w : World) (path : List Str) (s1 s2 lc : Bool) (vals : List Atom) (l B E : List Nat)
    (hb : call w ⟨path, true, s1, lc⟩ vals (some false) l = .ok (.list B))
    (he : call w ⟨path, false, s2, lc⟩ vals (some false) l = .ok (.list E)) :
    ∃ mask, merge mask B E = l ∧ ∀ x, x ∈ B → x ∉ E := by
  rcases call_partition w path s1 s2 lc vals l with ⟨e, h1, _⟩ | ⟨p, h1, h2⟩
  · rw [h1] at hb; cases hb
  · rw [h1] at hb; rw [h2] at he
    cases hb; cases he
    refine ⟨l.map p, merge_filter p l, ?_⟩
    intro x hx hx'
    have a := (List.mem_filter.mp hx).2
    have b := (List.mem_filter.mp hx').2
    simp [a] at b

/-- A call that promises a single result (explicit `single=True`, or the default of `by_name` /
`by_uuid`) returns `x` exactly when `x` is the only match, and raises `KeyError` on zero or several. -/
theorem call_single (w : World) (f : Filter) (vals vs : List Atom) (l ms : List Nat) (single : Option Bool)
    (hs : single.getD f.single = true)
    (hv : valuesOf f vals = .ok vs) (hm : matchesE w f vs l = .ok ms) :
    (∀ x, call w f vals single l = .ok (.one x) ↔ ms = [x]) ∧
    (ms.length ≠ 1 → call w f vals single l = .error .keyError) := by
  unfold call
  rw [hv]; simp only []; rw [hm]; simp only [hs, if_true]
  constructor
  · intro x
    match ms with
    | [] => simp
    | [y] => simp
    | _ :: _ :: _ => simp
  · intro hl
    match ms, hl with
    | [], _ => rfl
    | [y], hl => simp at hl
    | _ :: _ :: _, _ => rfl

/-- The lowercase filter (`by_type`) selects exactly the elements whose class name equals the value
up to case. -/
theorem by_type_spec (w : World) (path : List Str) (x : Nat) (c v : Str) (pos : Bool)
    (hc : pathOf w x path = some (.atom (.s c))) :
    ismatchE w ⟨path, pos, false, true⟩ x [.s (lower v)] = .ok (pos == decide (lower c = lower v)) := by
  simp [ismatchE, extractKey, hc, ismatch, eq_comm]

/-- A nested filter `lst.by_a.b` evaluates `b` on what `a` yields; a missing link anywhere in the
chain is a missing attribute. -/
theorem nested_path (w : World) (x : Nat) (p : List Str) (b : Str) :
    pathOf w x (p ++ [b]) = (pathOf w x p).bind (fun v => getPath w v [b]) :=
  getPath_append w p [b] (.obj x)

/-- `getattr(lst, "by_a.b")` walks the same path as `lst.by_a.b`. -/
theorem nested_name (a b : Str) :
    (parseName false ("by_".toList ++ (a ++ '.' :: b))).map (·.path) = some (splitDots a ++ splitDots b) := by
  rw [parseName_by, Option.map_some, splitDots_dot]

/-- Iterating a filter yields each key occurring in the list exactly once (and raises unless every
element has an atomic key) … -/
theorem iter_spec (w : World) (f : Filter) (l : List Nat) (ks : List Atom) (h : iterKeys w f l [] = .ok ks) :
    ks.Nodup ∧ (∀ a, a ∈ ks ↔ ∃ x ∈ l, extractKey w f x = .ok (.atom a)) := by
  obtain ⟨h1, _, h3, _⟩ := iterKeys_spec w f l [] ks h
  exact ⟨h1, fun a => by rw [h3 a]; simp⟩

/-- … and, as its docstring promises, every yielded value gives a non-empty list when filtered for. -/
theorem iter_values_match (w : World) (path : List Str) (s : Bool) (l : List Nat) (ks : List Atom)
    (h : iterKeys w ⟨path, true, s, false⟩ l [] = .ok ks) (a : Atom) (ha : a ∈ ks) :
    ∃ ms, call w ⟨path, true, s, false⟩ [a] (some false) l = .ok (.list ms) ∧ ms ≠ [] := by
  obtain ⟨_, _, h3, h4⟩ := iterKeys_spec w _ l [] ks h
  obtain ⟨_, x, hx, hk⟩ := (h3 a).mp ha
  obtain ⟨ms, hms⟩ := matchesE_total w ⟨path, true, s, false⟩ [a] l
    (fun y hy => by obtain ⟨b, hb⟩ := h4 y hy; exact ⟨_, hb⟩)
  refine ⟨ms, ?_, ?_⟩
  · simp [call, valuesOf, hms]
  · rw [matchesE_ok w _ [a] l ms hms]
    intro he
    have : x ∈ l.filter (matchFlag w ⟨path, true, s, false⟩ [a]) := by
      refine List.mem_filter.mpr ⟨hx, ?_⟩
      simp [matchFlag, ismatchE, hk, ismatch]
    rw [he] at this
    cases this

/-- `v in lst.by_a` is "filtering for `v` gives a non-empty list". -/
theorem filter_contains_spec (w : World) (f : Filter) (v : Atom) (vs : List Atom) (l ms : List Nat)
    (hv : valuesOf f [v] = .ok vs) (hm : matchesE w f vs l = .ok ms) :
    containsE w f v l = .ok (!ms.isEmpty) :=
  containsE_of_matches w f v vs hv l ms hm

/-- `lst.filter("a.b")` keeps, in order, the elements whose attribute value is truthy; it raises
`AttributeError` exactly when some element lacks the attribute. -/
theorem filter_pred_spec (w : World) (path : List Str) (l : List Nat) :
    ((∀ x ∈ l, (pathOf w x path).isSome = true) → filterPath w path l = .ok (l.filter (truthyAt w path))) ∧
    ((∃ x ∈ l, pathOf w x path = none) → filterPath w path l = .error .attributeError) := by
  refine ⟨?_, filterPath_error w path l⟩
  intro hall
  obtain ⟨r, hr⟩ := filterPath_total w path l hall
  rw [hr, (filterPath_ok w path l r hr).2]

/-- `map`: the loop with its set of seen uuids returns the first occurrence of every uuid among the
flattened images, in order (elements without the attribute contribute nothing); any image that is
not a model element makes it raise `TypeError`. -/
theorem map_loop_spec (w : World) (uuid : Nat → Str) (a : Str) (l : List Nat) :
    (∀ img : Nat → List Nat, (∀ x ∈ l, imagesOf w a x = .ok (img x)) →
      map1 w uuid a l = .ok (firstOcc uuid (l.flatMap img))) ∧
    ((∃ x ∈ l, imagesOf w a x = .error .typeError) → map1 w uuid a l = .error .typeError) := by
  refine ⟨fun img h => map1_spec w uuid a img l h, fun h => ?_⟩
  unfold map1
  rw [mapStep_error w uuid a l {} h]

/-- `map("a.b")` is `map("b")` of `map("a")`. -/
theorem map_dotted (w : World) (uuid : Nat → Str) (p q : List Str) (l : List Nat) :
    mapPath w uuid (p ++ q) l =
      (match mapPath w uuid p l with
       | .ok l' => mapPath w uuid q l'
       | .error e => .error e) :=
  mapPath_append w uuid p q l

/-- `firstOcc` is what it says: a sub-list without repeated uuids that still has every uuid. -/
theorem firstOcc_spec (uuid : Nat → Str) (l : List Nat) :
    List.Sublist (firstOcc uuid l) l ∧ ((firstOcc uuid l).map uuid).Nodup ∧
    ∀ x ∈ l, ∃ y ∈ firstOcc uuid l, uuid y = uuid x := by
  have h : dedupBy uuid l [] = firstOcc uuid l := by rw [dedupBy_eq_firstOcc]; simp
  rw [← h]
  refine ⟨?_, (dedupBy_keys_nodup uuid l []).1, fun x hx => key_mem_dedupBy uuid l [] x hx (by simp)⟩
  rw [h]
  clear h
  induction l with
  | nil => exact List.Sublist.slnil
  | cons x r ih => exact (List.Sublist.trans List.filter_sublist ih).cons₂ x

/-- `a + b` concatenates (no de-duplication), `b.__radd__(a)` the other way round; the result is a
plain list only if both have the same specific element class. -/
theorem add_spec (ca cb : ListClass) (a b : List Nat) :
    (add ca cb a b false).2 = a ++ b ∧ (add ca cb a b true).2 = b ++ a ∧
    ((add ca cb a b false).1 = .mixed ∨
      ((add ca cb a b false).1 = .plain (elemclassOf ca) ∧ elemclassOf ca = elemclassOf cb)) := by
  refine ⟨rfl, rfl, ?_⟩
  unfold add
  simp only []
  split
  · rename_i h; exact Or.inr ⟨rfl, h.1⟩
  · exact Or.inl rfl

/-- `lst["key"]` returns the element whose map key equals `key` iff it is the only one;
no such element is a `KeyError` (which `get` turns into the default), several a `ValueError`. -/
theorem map_lookup_spec (w : World) (mk : List Str) (key : Atom) (l c : List Nat)
    (hc : mapCandidates w mk key l = .ok c) :
    (∀ x, mapFind w (some mk) key l = .ok x ↔ c = [x]) ∧
    (c = [] → mapFind w (some mk) key l = .error .keyError ∧ ∀ mv, getDefault w (some mk) mv key l = .ok none) ∧
    (2 ≤ c.length → mapFind w (some mk) key l = .error .valueError) ∧
    c = l.filter (hasMapKey w mk key) := by
  refine ⟨?_, ?_, ?_, mapCandidates_ok w mk key l c hc⟩
  · intro x
    simp only [mapFind, hc]
    match c with
    | [] => simp
    | [y] => simp
    | _ :: _ :: _ => simp
  · intro h
    subst h
    simp [mapFind, hc, getDefault, getStrItem]
  · intro h
    match c, h with
    | _ :: _ :: _, _ => simp [mapFind, hc]


/-! ## over the generated class hierarchy and relation table (`Gen/Hier.lean`, `Gen/HierRels.lean`) -/

/-- For every back-reference accessor of every class (as the code declares them now): every
registered type whose wrapper class is a target class *or a subclass of one* is among the types the
accessor searches.  Kernel-checked row by row; a new class or accessor that breaks it fails the build. -/
theorem backref_candidates_closed (b : BackRef) (hb : b ∈ Gen.Hier.backrefs) (hne : b.targets ≠ [])
    (h : Handler) (hh : h ∈ Gen.Hier.handlers) (hi : isInst h b.targets = true) :
    h.xt ∈ candidates Gen.Hier.handlers b :=
  candidates_closed _ b (Gen.Hier.backrefs_ok b hb) hne h hh hi

/-- … and it searches nothing else: a searched type is the one `build_xtype` gives for a target class
(then whatever is registered under it is an instance) or the registered type of an instance. -/
theorem backref_candidates_sound (b : BackRef) (hb : b ∈ Gen.Hier.backrefs) (x : Nat)
    (hx : x ∈ candidates Gen.Hier.handlers b) :
    (some x ∈ b.builts ∧ ∀ h ∈ Gen.Hier.handlers, h.xt = x → isInst h b.targets = true) ∨
      ∃ h ∈ Gen.Hier.handlers, h.xt = x ∧ isInst h b.targets = true :=
  candidates_sound _ b (Gen.Hier.backrefs_ok b hb) x hx

/-- Class-level completeness of back-references: in any store with a consistent index, an element
whose type is registered for (a subclass of) a target class of a generated back-reference `b` — or any
typed element when `b` names no class — and that holds `y` in a named relation is in `b`'s value. -/
theorem backref_complete_by_class (nodes : List Node) (idx : Index) (hc : IndexConsistent nodes idx)
    (rels : Nat → List Rel) (tname : Nat → Str) (b : BackRef) (hb : b ∈ Gen.Hier.backrefs)
    (attrs : List Str) (y c : Nat) (n : Node) (hn : nodes[c]? = some n) (hsem : n.sem = true)
    (hxne : n.xtype ≠ []) (hph : n.placeholder = false)
    (hinst : b.targets = [] ∨
      ∃ h ∈ Gen.Hier.handlers, isInst h b.targets = true ∧ n.xtype = tname h.xt)
    (hholds : holds nodes rels attrs y c = true) :
    c ∈ backref nodes idx rels ((candidates Gen.Hier.handlers b).map tname) attrs y := by
  refine (backref_spec nodes idx hc rels _ attrs y c).mpr ⟨(mem_scan nodes _ none c).mpr ?_, hholds⟩
  refine ⟨n, hn, hsem, hxne, hph, ?_, rfl⟩
  unfold typeOk
  rcases hinst with h0 | ⟨h, hh, hi, hx⟩
  · simp [candidates, h0]
  · by_cases hne : b.targets = []
    · simp [candidates, hne]
    · have := backref_candidates_closed b hb hne h hh hi
      rw [hx]
      simp only [Bool.or_eq_true, List.contains_iff_mem]
      exact Or.inr (List.mem_map_of_mem this)

/-- No link-storing relation of any class keeps its links in an attribute called `href` — the one
attribute the XPath of `find_references` skips.  (Kernel-checked: `rowOk` of every generated row.) -/
theorem table_relations_nohref (c : ClassRels) (_hc : c ∈ Gen.HierRels.classes) (t : TRel)
    (ht : t ∈ trelsOf Gen.HierRels.rows c) :
    (∀ a, t.base.kind = .attr a → a ≠ hrefName) ∧ (∀ tag xt f, t.base.kind = .child tag xt f → f ≠ hrefName) := by
  unfold trelsOf at ht
  obtain ⟨p, _, hp⟩ := List.mem_filterMap.mp ht
  exact toTRel_nohref Gen.HierRels.rows Gen.HierRels.rows_ok p t hp

/-- `find_references` over the generated relation table — list-valued, single-valued (`no_list`),
`PhysicalLinkEnds`, `Typecast`, `Index` views alike — equals the brute-force evaluation of every
table relation of every non-visual element, as lists.  The only assumption left is the C05 fact that
stored child links contain `#`. -/
theorem findrefs_table_eq_brute (nodes : List Node) (trels : Nat → List TRel)
    (hfrom : ∀ i, trels i = [] ∨ ∃ c ∈ Gen.HierRels.classes, trels i = trelsOf Gen.HierRels.rows c)
    (hhash : ∀ i r tag xt follow, r ∈ basesOf trels i → r.kind = .child tag xt follow →
      ∀ j ∈ childrenOf nodes i, ∀ l, aget (attrsAt nodes j) follow = some l → l ≠ [] → '#' ∈ l)
    (y : Nat) : findRefsT nodes trels y = bruteRefsT nodes trels y := by
  apply findRefsT_eq_bruteRefsT
  refine ⟨hhash, ?_⟩
  intro i r hr
  obtain ⟨t, ht, hbase⟩ := List.mem_map.mp hr
  subst hbase
  rcases hfrom i with h0 | ⟨c, hc, hcr⟩
  · rw [h0] at ht; cases ht
  · rw [hcr] at ht; exact table_relations_nohref c hc t ht

/-- Completeness for every view: whenever a table relation of a non-visual element evaluates to a
value containing `y`, `find_references y` reports it — with the index for a list, with `None` for a
single-valued relation whose value is `y`. -/
theorem findrefs_table_complete (nodes : List Node) (trels : Nat → List TRel)
    (hfrom : ∀ i, trels i = [] ∨ ∃ c ∈ Gen.HierRels.classes, trels i = trelsOf Gen.HierRels.rows c)
    (hhash : ∀ i r tag xt follow, r ∈ basesOf trels i → r.kind = .child tag xt follow →
      ∀ j ∈ childrenOf nodes i, ∀ l, aget (attrsAt nodes j) follow = some l → l ≠ [] → '#' ∈ l)
    (i y : Nat) (hi : i < nodes.length) (hnv : nonVisual nodes i = true) (t : TRel) (ht : t ∈ trels i)
    (ts : List Nat) (hts : viewTargets nodes i t = some ts) :
    (t.view = .list → y ∈ ts → ∃ k, (i, t.base.name, some k) ∈ findRefsT nodes trels y) ∧
    (t.view ≠ .list → ts = [y] → (i, t.base.name, none) ∈ findRefsT nodes trels y) := by
  rw [findrefs_table_eq_brute nodes trels hfrom hhash]
  have hmem : ∀ x, x ∈ refsAtT nodes trels y i → x ∈ bruteRefsT nodes trels y := by
    intro x hx
    unfold bruteRefsT bruteRefsTV
    exact List.mem_flatMap.mpr ⟨i, List.mem_filter.mpr ⟨List.mem_range.mpr hi, hnv⟩, hx⟩
  constructor
  · intro hv hy
    refine ⟨ts.idxOf y, hmem _ ?_⟩
    unfold refsAtT refsAtTV
    refine List.mem_filterMap.mpr ⟨t, ht, ?_⟩
    rw [hts, hv]
    simp [idxOf?, hy]
  · intro hv he
    refine hmem _ ?_
    unfold refsAtT refsAtTV
    refine List.mem_filterMap.mpr ⟨t, ht, ?_⟩
    rw [hts]
    cases hview : t.view with
    | list => exact absurd hview hv
    | single => simp [he]
    | index k => simp [he]

/-- The skipped attribute matters: a relation that kept its links in `href` would make
`find_references` incomplete (which is why `rowOk` demands another name). -/
theorem findrefs_complete_needs_nohref :
    ¬ ∀ (nodes : List Node) (rels : Nat → List Rel) (y : Nat),
        (∀ i r tag xt follow, r ∈ rels i → r.kind = .child tag xt follow →
          ∀ j ∈ childrenOf nodes i, ∀ l, aget (attrsAt nodes j) follow = some l → l ≠ [] → '#' ∈ l) →
        findRefs nodes rels y = bruteRefs nodes rels y := by
  intro h
  have := h
    [{ uid := "x".toList, tag := "e".toList, attrs := [("href".toList, "#y".toList)] },
     { uid := "y".toList, tag := "e".toList }]
    (fun i => if i = 0 then [⟨"target".toList, .attr "href".toList⟩] else [])
    1
    (by
      intro i r tag xt follow hr hk
      by_cases h0 : i = 0
      · subst h0
        simp only [if_true, List.mem_cons, List.not_mem_nil, or_false] at hr
        subst hr
        cases hk
      · simp [h0] at hr)
  revert this
  decide


/-! ## order of search results, indices, slices, single-valued back-references -/

/-- In a state whose index lists the nodes of a type in document order (a freshly loaded model), a
search for one type returns exactly the document-order scan — equal as lists, not only as sets. -/
theorem search_single_type_document_order (nodes : List Node) (idx : Index) (hc : IndexConsistent nodes idx)
    (xt : Str) (below : Option Nat) (hs : indexSortedB idx xt = true) :
    search nodes idx [xt] below = scan nodes [xt] below := by
  apply pairwise_lt_ext
  · unfold search
    refine List.Pairwise.sublist (List.Sublist.trans List.filter_sublist List.filter_sublist) ?_
    exact pairwise_of_adjacent _ (by simpa [indexSortedB] using hs)
  · unfold scan
    exact List.Pairwise.sublist List.filter_sublist List.pairwise_lt_range
  · exact fun x => search_sound_complete nodes idx hc [xt] below x

/-- `lst[i]`: a non-negative index counts from the front, a negative one from the back; anything
outside `-len … len-1` is an `IndexError`. -/
theorem index_spec {α : Type} (l : List α) (i : Int) :
    (0 ≤ i → pyIndex l i = l[i.toNat]?) ∧
    (i < 0 → pyIndex l i = if (l.length : Int) + i < 0 then none else l[((l.length : Int) + i).toNat]?) :=
  ⟨pyIndex_nonneg l i, pyIndex_neg l i⟩

/-- `lst[start:stop:step]` for every start / stop / step (`None`, negative, out of range): with
`(a, b, st) = slice.indices(len)`, the result consists of the elements at `a, a+st, a+2·st, …` — all
of them valid positions strictly before `b` (after `b` for a negative step), and the progression is
not cut short. Step 0 is the only `ValueError`. -/
theorem slice_spec {α : Type} (s : Slice) (l : List α) :
    (pySlice s l = none ↔ s.step = some 0) ∧
    ∀ r, pySlice s l = some r → ∃ a b st, sliceIndices s l.length = some (a, b, st) ∧
      r.length = sliceLen a b st ∧
      (∀ j : Nat, j < r.length → r[j]? = l[(a + j * st).toNat]? ∧ 0 ≤ a + j * st ∧ a + j * st < l.length ∧
        (0 < st → a + j * st < b) ∧ (st < 0 → b < a + j * st)) ∧
      (0 < st → b ≤ a + (r.length : Int) * st ∨ b ≤ a) ∧ (st < 0 → a + (r.length : Int) * st ≤ b ∨ a ≤ b) := by
  constructor
  · unfold pySlice sliceIndices
    cases hs : s.step with
    | none => simp
    | some v => by_cases hv : v = 0 <;> simp [hv]
  · intro r h
    unfold pySlice at h
    cases hi : sliceIndices s l.length with
    | none => rw [hi] at h; cases h
    | some t =>
      obtain ⟨a, b, st⟩ := t
      rw [hi] at h
      simp only [Option.some.injEq] at h
      refine ⟨a, b, st, rfl, ?_⟩
      have hst : st ≠ 0 := by
        unfold sliceIndices at hi
        simp only [] at hi
        split at hi
        · cases hi
        · rename_i hne
          simp only [Option.some.injEq, Prod.mk.injEq] at hi
          rw [← hi.2.2]; exact hne
      rcases Int.lt_or_gt_of_ne hst with hneg | hpos
      · obtain ⟨ha1, ha2, hb1, hb2⟩ := sliceIndices_neg s l.length a b st hi hneg
        have hrange : ∀ j : Nat, j < sliceLen a b st → b < a + j * st ∧ a + j * st ≤ a := by
          intro j hj
          have hm : (j : Int) * st ≤ 0 := Int.mul_nonpos_of_nonneg_of_nonpos (by omega) (by omega)
          rcases sliceLen_neg a b st hneg with ⟨h1, _⟩ | ⟨_, h0⟩
          · exact ⟨h1 j hj, by omega⟩
          · rw [h0] at hj; exact absurd hj (Nat.not_lt_zero j)
        obtain ⟨hl, hg⟩ := takeStep_spec l st (sliceLen a b st) a (by
          intro j hj
          have := hrange j hj
          omega)
        subst h
        refine ⟨hl, ?_, fun hp => absurd hp (by omega), ?_⟩
        · intro j hj
          rw [hl] at hj
          have := hrange j hj
          exact ⟨hg j hj, by omega, by omega, fun hp => absurd hp (by omega), fun _ => this.1⟩
        · intro _
          rw [hl]
          rcases sliceLen_neg a b st hneg with ⟨_, h2⟩ | ⟨h2, _⟩
          · exact Or.inl h2
          · exact Or.inr h2
      · obtain ⟨ha1, ha2, hb1, hb2⟩ := sliceIndices_pos s l.length a b st hi hpos
        have hrange : ∀ j : Nat, j < sliceLen a b st → a + j * st < b ∧ a ≤ a + j * st := by
          intro j hj
          have hm : 0 ≤ (j : Int) * st := Int.mul_nonneg (by omega) (by omega)
          rcases sliceLen_pos a b st hpos with ⟨h1, _⟩ | ⟨_, h0⟩
          · exact ⟨h1 j hj, by omega⟩
          · rw [h0] at hj; exact absurd hj (Nat.not_lt_zero j)
        obtain ⟨hl, hg⟩ := takeStep_spec l st (sliceLen a b st) a (by
          intro j hj
          have := hrange j hj
          omega)
        subst h
        refine ⟨hl, ?_, ?_, fun hn => absurd hn (by omega)⟩
        · intro j hj
          rw [hl] at hj
          have := hrange j hj
          exact ⟨hg j hj, by omega, by omega, fun _ => this.1, fun hn => absurd hn (by omega)⟩
        · intro _
          rw [hl]
          rcases sliceLen_pos a b st hpos with ⟨_, h2⟩ | ⟨h2, _⟩
          · exact Or.inl h2
          · exact Or.inr h2

/-- A single-valued back-reference (`aslist=None`) hands out `None` for no referrer, the referrer
for exactly one, and raises for several; a list-valued one hands out the list. -/
theorem backref_single_spec (l : List Nat) :
    noList true l = some (.list l) ∧
    (noList false l = some (.one none) ↔ l = []) ∧
    (∀ x, noList false l = some (.one (some x)) ↔ l = [x]) ∧
    (noList false l = none ↔ 2 ≤ l.length) := by
  refine ⟨rfl, ?_, ?_, ?_⟩
  · match l with
    | [] => simp [noList]
    | [_] => simp [noList]
    | _ :: _ :: _ => simp [noList]
  · intro x
    match l with
    | [] => simp [noList]
    | [_] => simp [noList]
    | _ :: _ :: _ => simp [noList]
  · match l with
    | [] => simp [noList]
    | [_] => simp [noList]
    | _ :: _ :: _ => simp [noList]

/-! ## queries in the same session after `save()` -/

/-- `idcache_rebuild`: the index built by a walk lists exactly the typed elements walked — every
`(element, type)` pair, each element once (buckets in order of first appearance, elements in
document order). -/
theorem rebuilt_index_exact (items : List (Nat × Str)) : FragExact (rebuildOf items) items :=
  rebuildOf_exact items

/-- `update_namespaces` re-creates the root element of a fragment exactly when the namespace prefixes
the root declares differ, as a set, from `xmi`, `xsi` and the prefixes of the types that occur in the
fragment — i.e. when the first element of a metamodel package was created or the last one deleted. -/
theorem save_replaces_root_iff (declared : List Str) (items : List (Nat × Str)) :
    needsNewRoot declared items = false ↔
      ∀ s, s ∈ declared ↔ (s = "xmi".toList ∨ s = "xsi".toList ∨ ∃ it ∈ items, nsPrefix it.2 = s) := by
  unfold needsNewRoot
  rw [Bool.not_eq_false', sameSet_iff]
  exact forall_congr' (fun s => by rw [mem_neededPrefixes])

/-- After `save()` the type index is consistent with the trees again, whichever fragments had their
root element replaced: a replaced fragment's index is rebuilt by a walk, an untouched fragment keeps
an index that listed exactly its elements, and the fragments' elements together are the typed
elements of the trees. -/
theorem save_keeps_index_consistent (nodes : List Node) (frs : List SavedFragment)
    (hkept : ∀ f ∈ frs, f.replaced = false → FragExact f.old f.items)
    (hcover : (frs.flatMap (·.items)).Perm (typedItems nodes)) :
    IndexConsistent nodes (savedIndex frs) :=
  savedIndex_consistent' nodes frs hkept hcover

/-- Hence a type search in the same session after `save()` (any types — the roots' types included —
and any `below` anchor) returns exactly what the full scan of the live trees finds, nothing twice. -/
theorem search_after_save_sound_complete (nodes : List Node) (frs : List SavedFragment)
    (hkept : ∀ f ∈ frs, f.replaced = false → FragExact f.old f.items)
    (hcover : (frs.flatMap (·.items)).Perm (typedItems nodes))
    (xts : List Str) (below : Option Nat) :
    (∀ i, i ∈ search nodes (savedIndex frs) xts below ↔ i ∈ scan nodes xts below) ∧
      (search nodes (savedIndex frs) xts below).Nodup :=
  ⟨fun i => search_sound_complete nodes _ (save_keeps_index_consistent nodes frs hkept hcover) xts below i,
   search_no_duplicates nodes _ (save_keeps_index_consistent nodes frs hkept hcover) xts below⟩

/-- The rebuild is needed: an index that still lists an element which is in no tree any more (the
replaced root, if only its id were re-pointed) is not consistent, whatever else it contains. -/
theorem stale_entry_breaks_consistency (nodes : List Node) (idx : Index) (xt : Str) (i : Nat)
    (ho : nodes.length ≤ i) (hm : ∃ p ∈ idx, p.1 = xt ∧ i ∈ p.2) : ¬ IndexConsistent nodes idx :=
  orphan_inconsistent nodes idx xt i ho hm

-- Non-vacuity
def exNodes : List Node :=
  [{ uid := "p".toList, xtype := "a:Pkg".toList },
   { uid := "f".toList, xtype := "a:Fn".toList, parent := some 0,
     attrs := [("alloc".toList, "#g a:Fn other.capella#h".toList)] },
   { uid := "g".toList, xtype := "a:Fn".toList, parent := some 1 },
   { uid := "h".toList, xtype := "a:Fn".toList }]
def exIdx : Index := [("a:Pkg".toList, [0]), ("a:Fn".toList, [1, 2, 3])]
def exRels : Nat → List Rel := fun _ => [⟨"allocated".toList, .attr "alloc".toList⟩]

example : indexConsistentB exNodes exIdx = true := by decide
example : search exNodes exIdx ["a:Fn".toList] (some 0) = [1, 2] := by decide
example : scan exNodes ["a:Fn".toList] (some 0) = [1, 2] := by decide
example : findRefs exNodes exRels 3 = [(1, "allocated".toList, 1)] := by decide
example : bruteRefs exNodes exRels 2 = [(1, "allocated".toList, 0)] := by decide
example : filterBy true false id [.s "a".toList] [some (.atom (.s "a".toList)), none, some (.many [.s "b".toList])]
    = [none, some (.many [.s "b".toList])] := by decide
example : single [1, 2] = (.error .multiple : Except SingleErr Nat) := rfl

-- list model
deriving instance DecidableEq for Except
def exWorld : World := fun n a =>
  if a = "name".toList then (if n = 0 then some (.atom (.s "A".toList)) else if n = 1 then some (.atom (.s "B".toList)) else none)
  else if a = "parent".toList then (if n = 1 then some (.obj 0) else if n = 2 then some (.obj 0) else none)
  else none
example : call exWorld ⟨["name".toList], true, false, false⟩ [.s "A".toList] (some false) [0, 1, 2] = .ok (.list [0]) := by decide
example : call exWorld ⟨["name".toList], false, false, false⟩ [.s "A".toList] (some false) [0, 1, 2] = .ok (.list [1, 2]) := by decide
example : call exWorld ⟨["parent".toList, "name".toList], true, false, false⟩ [.s "A".toList] none [0, 1, 2] = .ok (.list [1, 2]) := by decide
example : call exWorld ⟨["name".toList], true, true, false⟩ [.s "Z".toList] none [0, 1, 2] = .error .keyError := by decide
example : iterKeys exWorld ⟨["name".toList], true, false, false⟩ [0, 1] [] = .ok [.s "A".toList, .s "B".toList] := by decide
example : iterKeys exWorld ⟨["name".toList], true, false, false⟩ [0, 1, 2] [] = .error .attributeError := by decide
example : map1 exWorld (fun n => [Char.ofNat (65 + n)]) "parent".toList [0, 1, 2] = .ok [0] := by decide
example : filterPath exWorld ["name".toList] [0, 1, 2] = .error .attributeError := by decide
example : pySlice { start := some (-2), step := some (-1) } [10, 11, 12, 13] = some [12, 11, 10] := by decide
example : pySlice { start := some 1, stop := some 100, step := some 2 } [10, 11, 12, 13] = some [11, 13] := by decide
example : pySlice { step := some 0 } [1, 2] = (none : Option (List Nat)) := by decide
example : pyIndex [10, 11, 12] (-1) = some 12 ∧ pyIndex [10, 11, 12] 3 = none ∧ pyIndex [10, 11, 12] (-4) = none := by decide
example : parseName true "by_type".toList ≠ parseName false "by_type".toList := by decide
-- generated tables: a back-reference whose candidates include a proper subclass of its target class
example : (Gen.Hier.backrefs.any (fun b => Gen.Hier.handlers.any (fun h =>
    isInst h b.targets && !b.targets.contains h.cls))) = true := by decide +kernel
-- ... single-valued and multi-target back-references exist
example : (Gen.Hier.backrefs.any (fun b => !b.aslist)) = true ∧
    (Gen.Hier.backrefs.any (fun b => decide (2 ≤ b.targets.length))) = true := by decide +kernel
-- ... single-valued link rows, wrappers and both link-storing kinds occur in the relation table
example : (Gen.HierRels.rows.any (fun r => r.kind.linkStoring && !r.aslist)) = true ∧
    (Gen.HierRels.rows.any (fun r => r.kind.isWrapper)) = true := by decide +kernel
example : noList false [3, 4] = none ∧ noList false [3] = some (.one (some 3)) := by decide
example : indexSortedB exIdx "a:Fn".toList = true := by decide

-- save(): a requirement module (node 4, package `r`) was created below `p`; the root declared `xmi xsi a`
def exSaved : List Node := exNodes ++ [{ uid := "m".toList, xtype := "r:Mod".toList, parent := some 0 }]
example : typedItems exSaved = [(0, "a:Pkg".toList), (1, "a:Fn".toList), (2, "a:Fn".toList), (3, "a:Fn".toList), (4, "r:Mod".toList)] := by decide
example : needsNewRoot ["a".toList, "xmi".toList, "xsi".toList] (typedItems exSaved) = true ∧
    needsNewRoot ["a".toList, "xmi".toList, "xsi".toList] (typedItems exNodes) = false := by decide
example : rebuildOf (typedItems exSaved) = exIdx ++ [("r:Mod".toList, [4])] := by decide
example : savedIndex [⟨true, [("a:Pkg".toList, [99])], typedItems exSaved⟩] = exIdx ++ [("r:Mod".toList, [4])] := by decide
example : search exSaved (savedIndex [⟨true, [], typedItems exSaved⟩]) ["a:Pkg".toList] none = [0] := by decide
-- the hypotheses of `search_after_save_sound_complete` are satisfiable with a kept and a replaced fragment
example : ∃ frs : List SavedFragment, frs.length = 2 ∧ (∃ f ∈ frs, f.replaced = false) ∧ (∃ f ∈ frs, f.replaced = true) ∧
    (∀ f ∈ frs, f.replaced = false → FragExact f.old f.items) ∧ (frs.flatMap (·.items)).Perm (typedItems exSaved) := by
  refine ⟨[⟨false, rebuildOf (itemsIn exSaved 0 4), itemsIn exSaved 0 4⟩, ⟨true, [], itemsIn exSaved 4 5⟩], rfl,
    ⟨_, List.mem_cons_self, rfl⟩, ⟨_, List.mem_cons_of_mem _ List.mem_cons_self, rfl⟩, ?_, by decide⟩
  intro f hf hr
  simp only [List.mem_cons, List.not_mem_nil, or_false] at hf
  rcases hf with rfl | rfl
  · exact rebuildOf_exact _
  · cases hr
-- the stale root: index entry 99 is in no tree, and the search hands it out although the scan does not find it
example : search exSaved [("a:Pkg".toList, [99])] ["a:Pkg".toList] none = [99] ∧ scan exSaved ["a:Pkg".toList] none = [0] := by decide

end Capella.Props.C10
