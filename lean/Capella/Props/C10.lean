import Capella.Lemmas.Query

/-!
# C10 — queries return exactly what a brute-force scan of the model would

Property theorems only; helper lemmas live in `Capella/Lemmas/Query.lean`, the model in
`Capella/Model/Query.lean`.
-/
namespace Capella.Props.C10
open Capella.Query

/-- Type search is sound and complete: with a type index that is consistent with the trees, `search`
(any set of types, optional `below` anchor) returns exactly the nodes a full scan finds. -/
theorem search_sound_complete (nodes : List Node) (idx : Index) (h : IndexConsistent nodes idx)
    (xts : List Str) (below : Option Nat) (i : Nat) :
    i ∈ search nodes idx xts below ↔ i ∈ scan nodes xts below :=
  search_iff_scan nodes idx h xts below i

/-- … and returns no object twice. -/
theorem search_no_duplicates (nodes : List Node) (idx : Index) (h : IndexConsistent nodes idx)
    (xts : List Str) (below : Option Nat) : (search nodes idx xts below).Nodup :=
  search_nodup nodes idx h xts below

/-- A short type name stands for exactly the registered types `…:<name>`; an unknown one raises. -/
theorem resolve_short_name (handlers : List Str) (s : Str) (hc : s.contains ':' = false)
    (hg : genericNames.contains s = false) :
    resolve handlers [.str s] [] =
      (if (handlers.filter (fun h => endsWith h (':' :: s))).isEmpty then .error ()
       else .ok (handlers.filter (fun h => endsWith h (':' :: s)))) := by
  unfold resolve
  rw [if_neg (by rw [hc]; exact Bool.false_ne_true), if_neg (by rw [hg]; exact Bool.false_ne_true)]
  simp only [List.nil_append]
  split <;> simp [resolve]

/-- The pre-filter never drops a true reference: if a link-storing relation of `i` holds `y`, then
`#id(y)` is spelled in an attribute of `i` or of one of its children, i.e. `i` passes the XPath. -/
theorem prefilter_complete (nodes : List Node) (rels : Nat → List Rel) (hshape : LinkShape nodes rels)
    (i y : Nat) (hi : i < nodes.length) (hnv : nonVisual nodes i = true)
    (r : Rel) (hr : r ∈ rels i) (ts : List Nat) (hts : relTargets nodes i r = some ts) (hy : y ∈ ts) :
    i ∈ prefilter nodes (uidAt nodes y) := by
  exact mem_prefilter_of_spelled nodes _ i hi hnv (target_spelled nodes rels hshape i y r hr ts hts hy)

/-- Hence `find_references` equals the brute-force evaluation of every relation of every
non-visual element — as a list, order included. -/
theorem findrefs_eq_brute (nodes : List Node) (rels : Nat → List Rel) (hshape : LinkShape nodes rels)
    (y : Nat) : findRefs nodes rels y = bruteRefs nodes rels y :=
  findRefs_eq_bruteRefs nodes rels hshape y

/-- Soundness: every reported `(x, relation, index)` really has `y` at that index of that relation
of `x` (no link-shape hypothesis needed). -/
theorem findrefs_sound (nodes : List Node) (rels : Nat → List Rel) (y : Nat) (x : Nat × Str × Nat)
    (h : x ∈ findRefs nodes rels y) :
    ∃ r ∈ rels x.1, r.name = x.2.1 ∧ ∃ ts, relTargets nodes x.1 r = some ts ∧ ts[x.2.2]? = some y := by
  unfold findRefs findRefsV at h
  simp only [List.mem_flatMap] at h
  obtain ⟨i, _, hx⟩ := h
  obtain ⟨h1, r, hr, hn, ts, hts, hk⟩ := mem_refsAt nodes rels y i x hx
  rw [h1]
  exact ⟨r, hr, hn, ts, hts, hk⟩

/-- Completeness: whenever a link-storing relation `r` of a non-visual element `i` holds `y`,
`find_references y` reports `(i, r, k)` for some index `k`. -/
theorem findrefs_complete (nodes : List Node) (rels : Nat → List Rel) (hshape : LinkShape nodes rels)
    (i y : Nat) (hi : i < nodes.length) (hnv : nonVisual nodes i = true)
    (r : Rel) (hr : r ∈ rels i) (ts : List Nat) (hts : relTargets nodes i r = some ts) (hy : y ∈ ts) :
    ∃ k, (i, r.name, k) ∈ findRefs nodes rels y := by
  rw [findrefs_eq_brute nodes rels hshape]
  refine ⟨ts.idxOf y, ?_⟩
  unfold bruteRefs bruteRefsV
  simp only [List.mem_flatMap, List.mem_filter, List.mem_range]
  refine ⟨i, ⟨hi, hnv⟩, ?_⟩
  unfold refsAtV
  simp only [List.mem_filterMap]
  refine ⟨r, hr, ?_⟩
  rw [hts]
  simp only [idxOf?, List.contains_iff_mem, hy, if_true, Option.map_some]

/-- Without the link-shape hypothesis completeness fails: `follow_link` accepts a bare id in a
reference child, the XPath looks for `#id`. -/
theorem findrefs_complete_needs_shape :
    ¬ ∀ (nodes : List Node) (rels : Nat → List Rel) (y : Nat),
        findRefs nodes rels y = bruteRefs nodes rels y := by
  intro h
  have := h
    [{ uid := "x".toList, tag := "e".toList },
     { uid := "l".toList, tag := "link".toList, xtype := "T".toList, attrs := [("href".toList, "y".toList)], parent := some 0 },
     { uid := "y".toList, tag := "e".toList }]
    (fun i => if i = 0 then [⟨"targets".toList, .child "link".toList "T".toList "href".toList⟩] else [])
    2
  revert this
  decide

/-- Back-references are exactly the scan: the objects of the candidate types that hold `y` in one
of the named relations. -/
theorem backref_spec (nodes : List Node) (idx : Index) (h : IndexConsistent nodes idx)
    (rels : Nat → List Rel) (classes attrs : List Str) (y c : Nat) :
    c ∈ backref nodes idx rels classes attrs y ↔
      c ∈ scan nodes classes none ∧ holds nodes rels attrs y c = true := by
  unfold backref
  rw [List.mem_filter, search_sound_complete nodes idx h]

/-- Filters preserve order: the result is a sub-list of the list. -/
theorem filter_order_preserving {α : Type} (rep pos : Bool) (key : α → Key) (vals : List Atom)
    (l : List α) : List.Sublist (filterBy rep pos key vals l) l :=
  List.filter_sublist

/-- Partition (repaired `ismatch`): for every list, attribute and value set, `by` and `exclude`
are the two halves of an order-preserving interleaving that reconstructs the list. -/
theorem filter_partition {α : Type} (key : α → Key) (vals : List Atom) (l : List α) :
    merge (l.map (fun x => ismatch true true (key x) vals))
      (filterBy true true key vals l) (filterBy true false key vals l) = l := by
  unfold filterBy
  have : l.filter (fun x => ismatch true false (key x) vals)
      = l.filter (fun x => !ismatch true true (key x) vals) :=
    List.filter_congr (fun x _ => ismatch_complement_repaired (key x) vals)
  rw [this]
  exact merge_filter _ l

/-- … and no element is in both halves. -/
theorem filter_disjoint {α : Type} (key : α → Key) (vals : List Atom) (l : List α) (x : α)
    (h1 : x ∈ filterBy true true key vals l) : x ∉ filterBy true false key vals l := by
  unfold filterBy at *
  intro h2
  have a := (List.mem_filter.mp h1).2
  have b := (List.mem_filter.mp h2).2
  rw [ismatch_complement_repaired, a] at b
  cases b

/-- The coded `ismatch` partitions only lists in which every element has the attribute
(the hypothesis the proof forces). -/
theorem filter_partition_coded {α : Type} (key : α → Key) (vals : List Atom) (l : List α)
    (hall : ∀ x ∈ l, key x ≠ none) :
    merge (l.map (fun x => ismatch false true (key x) vals))
      (filterBy false true key vals l) (filterBy false false key vals l) = l := by
  unfold filterBy
  have : l.filter (fun x => ismatch false false (key x) vals)
      = l.filter (fun x => !ismatch false true (key x) vals) :=
    List.filter_congr (fun x hx => ismatch_complement_coded (key x) vals (hall x hx))
  rw [this]
  exact merge_filter _ l

/-- The full statement is false for the coded `ismatch`: in a mixed list an element lacking the
attribute is in neither half. -/
def C10_filter_coded_full : Prop :=
  ∀ (l : List Key) (vals : List Atom),
    (filterBy false true id vals l).length + (filterBy false false id vals l).length = l.length

theorem C10_filter_coded_full_fails : ¬ C10_filter_coded_full := by
  intro h
  have := h [some (.atom (.s "a".toList)), none] [.s "a".toList]
  revert this
  decide

/-- `single=True` succeeds exactly when there is one match … -/
theorem single_ok_iff_one {α : Type} (ms : List α) (x : α) : single ms = .ok x ↔ ms = [x] :=
  single_ok_iff ms x

/-- … and fails on zero or several matches. -/
theorem single_fails_on_0_or_many {α : Type} (ms : List α) (h : ms.length ≠ 1) :
    single ms = .error .noMatch ∨ single ms = .error .multiple := by
  cases ms with
  | nil => left; rfl
  | cons a r =>
    cases r with
    | nil => simp at h
    | cons b t => right; rfl

/-- `lst - other` is the order-preserving sub-list of the elements whose uuid does not occur in `other`. -/
theorem sub_spec {α : Type} (key : α → Str) (l other : List α) :
    List.Sublist (sub key l other) l ∧ ∀ x, x ∈ sub key l other ↔ x ∈ l ∧ key x ∉ other.map key := by
  refine ⟨List.filter_sublist, fun x => ?_⟩
  unfold sub
  simp [List.mem_filter]

/-- `map` yields every mapped object exactly once: keys are unique, everything comes from some
element, and every mapped uuid is represented. -/
theorem map_spec {α β : Type} (f : α → List β) (key : β → Str) (l : List α) :
    ((mapFlat f key l).map key).Nodup ∧
    (∀ y ∈ mapFlat f key l, ∃ x ∈ l, y ∈ f x) ∧
    (∀ x ∈ l, ∀ y ∈ f x, ∃ y' ∈ mapFlat f key l, key y' = key y) := by
  unfold mapFlat
  refine ⟨(dedupBy_keys_nodup key _ []).1, ?_, ?_⟩
  · intro y hy
    have := mem_dedupBy key _ [] y hy
    simpa [List.mem_flatMap] using this
  · intro x hx y hy
    exact key_mem_dedupBy key _ [] y (List.mem_flatMap.mpr ⟨x, hx, hy⟩) (by simp)

-- Non-vacuity
def exNodes : List Node :=
  [{ uid := "p".toList, xtype := "a:Pkg".toList },
   { uid := "f".toList, xtype := "a:Fn".toList, parent := some 0,
     attrs := [("alloc".toList, "#g a:Fn other.capella#h".toList)] },
   { uid := "g".toList, xtype := "a:Fn".toList, parent := some 1 },
   { uid := "h".toList, xtype := "a:Fn".toList }]
def exIdx : Index := [("a:Pkg".toList, [0]), ("a:Fn".toList, [1, 2, 3])]
def exRels : Nat → List Rel := fun _ => [⟨"allocated".toList, .attr "alloc".toList⟩]

example : indexConsistentB exNodes exIdx = true := by decide
example : search exNodes exIdx ["a:Fn".toList] (some 0) = [1, 2] := by decide
example : scan exNodes ["a:Fn".toList] (some 0) = [1, 2] := by decide
example : findRefs exNodes exRels 3 = [(1, "allocated".toList, 1)] := by decide
example : bruteRefs exNodes exRels 2 = [(1, "allocated".toList, 0)] := by decide
example : filterBy true false id [.s "a".toList] [some (.atom (.s "a".toList)), none, some (.many [.s "b".toList])]
    = [none, some (.many [.s "b".toList])] := by decide
example : single [1, 2] = (.error .multiple : Except SingleErr Nat) := rfl

end Capella.Props.C10
