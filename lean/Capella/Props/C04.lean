import Capella.Lemmas.Index
import Capella.Lemmas.IndexApi
import Capella.Lemmas.AccessorProps
import Capella.Lemmas.AccessorRound5

/-!
# C04 — UUIDs stay unique at load, creation and save; failed creation leaves no trace
-/
namespace Capella.Props.C04
open Capella.Index

/-- A freshly generated UUID is carried by no element of any loaded fragment; it is one of the drawn
candidates and ends up reserved in the parent's fragment (for every stream of random draws). -/
theorem generated_uuid_is_fresh (l l' : Loader) (fi : Nat) (cands : List String) (k : String)
    (hc : ∀ f ∈ l, Consistent f) (hu : (allIds l).Nodup)
    (h : generateUuid l fi none cands = .ok (l', k)) :
    k ∉ allIds l ∧ k ∈ cands ∧ l' = l.modify fi (fun f => idcacheReserve f k) :=
  generateUuid_random l l' fi cands k (fun f hf => (hc f hf).1) hu h

/-- Requesting a UUID that is in use fails with ValueError … -/
theorem wanted_uuid_in_use_fails (l : Loader) (fi : Nat) (cands : List String) (k : String)
    (hc : ∀ f ∈ l, Consistent f) (hu : (allIds l).Nodup) (hk : k ∈ allIds l) :
    generateUuid l fi (some k) cands = .error .valueError :=
  generateUuid_want_used l fi cands k (fun f hf => (hc f hf).1) hu hk

/-- … and a free one is granted as requested. -/
theorem wanted_uuid_free_granted (l : Loader) (fi : Nat) (cands : List String) (k : String)
    (hc : ∀ f ∈ l, Consistent f) (hk : k ∉ allIds l) :
    generateUuid l fi (some k) cands = .ok (l.modify fi (fun f => idcacheReserve f k), k) :=
  generateUuid_want_free l fi cands k (fun f hf => (hc f hf).1) hk

/-- **Every created object receives a UUID used nowhere else, and the model stays sound**: the API-level
creation (`new_uuid` → element carrying exactly that id → attach → index), for any requested id or any
stream of random draws, yields a loader whose indexes agree with the trees and whose ids are still
pairwise distinct; the id it used occurred in no loaded fragment before. No side condition is left to
the caller. -/
theorem creation_keeps_uuids_unique (l l' : Loader) (fi pos : Nat) (want : Option String)
    (cands : List String) (mk : String → Entry) (k : String) (hi : Inv l) (hmk : ∀ s, (mk s).ids = [s])
    (h : apiCreate l fi pos want cands mk = .ok (l', k)) : Inv l' ∧ k ∉ allIds l :=
  apiCreate_inv l l' fi pos want cands mk k hi hmk h

/-- Indexing a fragment in which one id sits on two different elements is refused
(`CorruptModelError`) unless duplicates are explicitly ignored — for every position of the two. -/
theorem load_refuses_duplicate_in_fragment (f : Frag) (hign : f.ignDups = false)
    (e1 e2 : Entry) (h1 : e1 ∈ f.tree) (h2 : e2 ∈ f.tree) (k : String)
    (hk1 : k ∈ e1.ids) (hk2 : k ∈ e2.ids) (hne : e1.nid ≠ e2.nid) :
    idcacheRebuild f = .error .corrupt :=
  rebuild_refuses_dups f hign e1 e2 h1 h2 k hk1 hk2 hne

/-- The cross-fragment check (as repaired) passes exactly when no id is indexed in two fragments,
whatever their number and order (fragments and library resources alike). -/
theorem cross_fragment_check_spec (l : Loader) :
    hasCrossDups l = false ↔ l.Pairwise (fun f g => ∀ k ∈ keysOf g, k ∉ keysOf f) := by
  have := checkDupsFrom_false_iff l []
  simpa [hasCrossDups] using this

/-- The check as it was before the repair (`seen_ids` never updated) never fires: kept so that a
reverted repair is recognisable by name. -/
theorem cross_fragment_check_old_never_fires (l : Loader) : hasCrossDupsOld l = false :=
  hasCrossDupsOld_false l

/-- A creation that fails after any number of nested objects were already built leaves the
fragment exactly as before: same tree, same answer for every id (the reserved id is free again),
same type index. `nested` is arbitrary, i.e. every failure point. -/
theorem failed_creation_leaves_no_trace (f f' : Frag) (pos : Nat) (uuid : String) (outer : Entry)
    (nested : List Entry) (hc : Consistent f)
    (hfreshIds : ∀ k ∈ scanIds (outer :: nested), k ∉ scanIds f.tree)
    (hfreshNids : ∀ e ∈ f.tree, ∀ s ∈ outer :: nested, s.nid ≠ e.nid)
    (hfree : fragGet f uuid = none)
    (h : createFailing f pos uuid outer nested = .ok f') :
    f'.tree = f.tree ∧ (∀ k, fragGet f' k = fragGet f k) ∧ (∀ x n, (x, n) ∈ f'.xtc ↔ (x, n) ∈ f.xtc) :=
  createFailing_atomic f f' pos uuid outer nested hc hfreshIds hfreshNids hfree h

/-- The roll-back as it was before the repair leaves the nested object resolvable. -/
theorem failed_creation_old_leaves_trace :
    ¬ ∀ (f f' : Frag) (pos : Nat) (uuid : String) (outer : Entry) (nested : List Entry),
        createFailingOld f pos uuid outer nested = .ok f' → ∀ k, fragGet f' k = fragGet f k := by
  intro h
  let f : Frag := { name := "m", semantic := true, ignDups := false, tree := [], idc := [], xtc := [], hrefs := [] }
  let outer : Entry := { nid := 1, ids := ["o"], xt := some "T", href := none }
  let inner : Entry := { nid := 2, ids := ["i"], xt := some "U", href := none }
  have := h f _ 0 "o" outer [inner] (by rfl) "i"
  revert this
  decide

/-- The `new_uuid` bracket closes cleanly: after a successful block no reservation is left behind,
whether the file type indexes ids (the element was indexed: the fragment is returned as is) or not
(`.afm`, viewpoint activation: the reservation is dropped); a block that never used the id raises. -/
theorem new_uuid_exit_leaves_no_reservation (f f' : Frag) (ix : Bool) (k : String)
    (h : newUuidExit f ix k = .ok f') : dget f'.idc k ≠ some none := by
  unfold newUuidExit at h
  split at h
  · split at h
    · cases h
    · simp only [Except.ok.injEq] at h
      subst h
      simp [idcacheRemoveKey, dget_ddel]
  · rename_i hne
    simp only [Except.ok.injEq] at h
    subst h
    exact fun hk => hne hk

theorem new_uuid_unused_raises (f : Frag) (k : String) (h : dget f.idc k = some none) :
    newUuidExit f true k = .error .runtime := by
  simp [newUuidExit, h]

/-- Before the repair the exit check raised KeyError for every id that was still only reserved —
also for the legitimate case of a file type that does not index ids — and cleaned nothing up. -/
theorem new_uuid_exit_old_raises_keyerror (f : Frag) (k : String) (h : dget f.idc k = some none) :
    newUuidExitOld f k = .error .keyError := by
  simp [newUuidExitOld, fragGet, h]

-- Non-vacuity
example :
    let f : Frag := { name := "m", semantic := true, ignDups := false,
                      tree := [{ nid := 5, ids := ["r"], xt := some "R", href := none }],
                      idc := [("r", some 5)], xtc := [("R", 5)], hrefs := [] }
    (createFailing f 1 "o" { nid := 1, ids := ["o"], xt := some "T", href := none }
        [{ nid := 2, ids := ["i"], xt := some "U", href := none }]).toOption.map
      (fun f' => (f'.tree.map (·.nid), f'.idc, f'.xtc)) = some ([5], [("r", some 5)], [("R", 5)]) := by decide
example :
    let f1 : Frag := { name := "a", semantic := true, ignDups := false, tree := [], idc := [("x", some 1)], xtc := [], hrefs := [] }
    let f2 : Frag := { name := "b", semantic := true, ignDups := false, tree := [], idc := [("x", some 2)], xtc := [], hrefs := [] }
    hasCrossDups [f1, f2] = true ∧ hasCrossDupsOld [f1, f2] = false := by decide

/-! ### creation through the accessors (`Model/Accessor.lean`) -/
section Accessor
open Capella.Accessor Capella.AccTable

/-- UUIDs stay model-wide unique (and every index right) over every session of API calls — creations with drawn or
requested ids, nested creations, failing creations, link elements, moves, deletions — with no side condition on the
arguments: the freshness of a new id is established by `generate_uuid` itself against the indexes. -/
theorem api_session_keeps_ids_unique (t : Tables) (cs : List (Call × List String × List Nat)) (s : State)
    (h : IxInv s.ix) : (allIds (apiRun t cs s).ix).Nodup :=
  (apiRun_ixinv t cs s h).inv.ids

/-- A creation whose type hint matches no class, several classes, or that lacks a needed hint, fails with that
error before anything is reserved, appended or indexed: every tree, every index and the set of detached elements are
exactly as before. -/
theorem creation_with_bad_type_leaves_no_trace (fuel : Nat) (t : Tables) (row : ARow) (parent : Nat)
    (xmltag hint : Option String) (kw : List (String × Slot × KwVal)) (s : State) (e : Capella.Accessor.Err)
    (h : (resolveXtype t row hint s).val = .error e) :
    (accCreate fuel t row parent xmltag hint kw s).val = .error e ∧
    Same s (accCreate fuel t row parent xmltag hint kw s).st :=
  accCreate_bad_type fuel t row parent xmltag hint kw s e h

/-- Round 5. An attribute assignment of any POD kind cannot introduce or remove a UUID: the set of ids the indexes know
is literally the same afterwards – whatever the value, returning or raising. -/
theorem pod_assignment_keeps_every_id (t : Tables) (o : Nat) (d : Capella.Pods.Desc)
    (rp : List (List Char × Option (List Char))) (v : PodLit) (s : State) :
    allIds (apiStep t (.podSetK o d rp v) s).st.ix = allIds s.ix := by
  rw [((ixkeep_apiStep_pod t o d rp v).keep s).1]

/-- Round 5. A creation through a `RoleTagAccessor` whose class lives in a module below no `xsi:type` anchor
(`build_xtype` raises TypeError) fails before anything is reserved, appended or indexed – an instance of the theorem
above with the generated column `CRow.built`. -/
theorem creation_of_class_without_anchor_leaves_no_trace (fuel : Nat) (t : Tables) (row : ARow) (parent : Nat)
    (xmltag : Option String) (kw : List (String × Slot × KwVal)) (c : CRow) (s : State)
    (hk : row.kind = .roleTagAccessor) (hc : row.classes = [c.name]) (ht : t.cls c.name = some c) (hb : c.built = none) :
    (accCreate fuel t row parent xmltag none kw s).val = .error .typeError ∧
    Same s (accCreate fuel t row parent xmltag none kw s).st := by
  apply accCreate_bad_type
  simp [resolveXtype, guessXtype, hk, hc, ht, buildXtype, hb, bind, hit, modS, raise]

end Accessor

-- Non-vacuity: an unknown type hint is such a failing creation.
example : (match (Capella.Accessor.resolveXtype ⟨[], []⟩
      ⟨"C", "members", .directProxyAccessor, true, true, 0, false, ["T"], none, none, none, [], false, none, [], none, []⟩
      (some "NoSuchClass") { frags := [], ix := [] }).val with
    | .error .valueError => true | _ => false) = true := by decide +kernel

end Capella.Props.C04
