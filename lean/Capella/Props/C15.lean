import Capella.Lemmas.TxnSave

/-!
# C15 — a failed save leaves the files on disk exactly as they were

Property theorems only; the model is `Capella/Model/Txn.lean`, helper lemmas live in
`Capella/Lemmas/Txn.lean` and `Capella/Lemmas/TxnSave.lean`.

Reading guide.  `save tmp ord σ pre dry frags s` is `MelodyLoader.save` on a `LocalFileHandler`:
`tmp` is `_tmpname`, `ord` the iteration order of the handler's Python `set` (any permutation), `σ`
the fault schedule (which effectful call fails, with which exception), `pre` what the checks before
the transaction raise, `frags` the files to write.  A save makes five effectful calls per file
(`open`, `serialize`, `write` declaration, `write` payload, `close`) and then one `replace` per file.
`s.fs : path → Option bytes` is the directory, `s.txn` the handler's private transaction set.
-/
namespace Capella.Props.C15
open Capella.Txn

variable {P : Type} [DecidableEq P] (tmp : P → P) (ord : List P → List P)

/-- **For every fault point up to and including the first rename, and every fault kind**: if the
`k`-th effectful call of a save fails (`k < 5·n`: any open / serialisation / write / close of any of
the `n` files; `k = 5·n`: the first rename of a non-dry save), then the caller sees exactly the
injected error, the handler's transaction is reset, and every path of the directory is as it was
before the call or is one of the save's temporary names and does not exist. -/
theorem failed_save_restores (hord : ∀ l, (ord l).Perm l) (s : St P) (h : s.txn = none)
    (frags : List (Frag P)) (hg : GoodFrags [] frags) (dry : Bool) (k : Nat) (f : Fault)
    (hk : k < 5 * frags.length ∨ (k = 5 * frags.length ∧ dry = false ∧ frags ≠ [])) :
    (save tmp ord (single (s.clock + k) f) none dry frags s).2 = some f.err ∧
    (save tmp ord (single (s.clock + k) f) none dry frags s).1.txn = none ∧
    ∀ q, (save tmp ord (single (s.clock + k) f) none dry frags s).1.fs q = s.fs q ∨
      (q ∈ tmps tmp frags ∧ (save tmp ord (single (s.clock + k) f) none dry frags s).1.fs q = none) :=
  ⟨(single_fault_restores tmp ord hord s h frags hg dry k f hk).1,
   transaction_txn tmp ord _ dry _ s h,
   (single_fault_restores tmp ord hord s h frags hg dry k f hk).2⟩

/-- The same with the usual precondition that no stale temporary file was lying around: the
directory after the failed save *is* the directory before it. -/
theorem failed_save_restores_exact (hord : ∀ l, (ord l).Perm l) (s : St P) (h : s.txn = none)
    (frags : List (Frag P)) (hg : GoodFrags [] frags) (dry : Bool) (k : Nat) (f : Fault)
    (hk : k < 5 * frags.length ∨ (k = 5 * frags.length ∧ dry = false ∧ frags ≠ []))
    (hclean : ∀ q ∈ tmps tmp frags, s.fs q = none) :
    (save tmp ord (single (s.clock + k) f) none dry frags s).1.fs = s.fs := by
  funext q
  rcases (single_fault_restores tmp ord hord s h frags hg dry k f hk).2 q with hq | ⟨hm, hq⟩
  · exact hq
  · rw [hq, hclean q hm]

/-- Any transaction body (fragment writes, duplicate names, missing directories, exceptions raised
by the caller, attempts to nest a transaction), any number of faults inside the body: if the body
ends with error `e` and clean-up itself meets no fault, `e` is what the caller sees, the transaction
is reset and the directory is restored. -/
theorem abort_restores (σ : Sched) (hord : ∀ l, (ord l).Perm l) (dry : Bool) (body : List (Op P)) (s : St P)
    (h : s.txn = none) (e : Err) (he : (afterBody tmp σ body s).2 = some e)
    (hq : QuietFrom σ (afterBody tmp σ body s).1.clock) :
    (transaction tmp ord σ dry body s).2 = some e ∧
    (transaction tmp ord σ dry body s).1.txn = none ∧
    ∀ q, (transaction tmp ord σ dry body s).1.fs q = s.fs q ∨
      (q ∈ (paths body).map tmp ∧ (transaction tmp ord σ dry body s).1.fs q = none) :=
  ⟨(abort_restores' tmp ord σ hord dry body s h e he hq).1, transaction_txn tmp ord σ dry body s h,
   (abort_restores' tmp ord σ hord dry body s h e he hq).2⟩

/-- If clean-up runs into `OSError`s (a temp file cannot be removed), the error that aborted the
transaction is still the one the caller sees — it is never masked by clean-up trouble. -/
theorem original_error_not_masked (σ : Sched) (dry : Bool) (body : List (Op P)) (s : St P)
    (h : s.txn = none) (e : Err) (he : (afterBody tmp σ body s).2 = some e)
    (hos : ∀ n f, (afterBody tmp σ body s).1.clock ≤ n → σ n = some f → f.err.isOS = true) :
    (transaction tmp ord σ dry body s).2 = some e :=
  body_error_reported tmp ord σ dry body s h e he hos

/-- Whatever happens — any body, any fault sequence, faults during commit or clean-up included —
the handler is never left with an open transaction. -/
theorem transaction_always_reset (σ : Sched) (dry : Bool) (body : List (Op P)) (s : St P)
    (h : s.txn = none) : (transaction tmp ord σ dry body s).1.txn = none :=
  transaction_txn tmp ord σ dry body s h

/-- A dry-run save changes nothing: no error, transaction reset, every path as before (or a temp
name that does not exist). -/
theorem dry_run_noop (hord : ∀ l, (ord l).Perm l) (s : St P) (h : s.txn = none)
    (frags : List (Frag P)) (hg : GoodFrags [] frags) (hok : TmpOK tmp (frags.map (·.path))) :
    (save tmp ord noFault none true frags s).2 = none ∧
    (save tmp ord noFault none true frags s).1.txn = none ∧
    ∀ q, (save tmp ord noFault none true frags s).1.fs q = s.fs q ∨
      (q ∈ tmps tmp frags ∧ (save tmp ord noFault none true frags s).1.fs q = none) := by
  have he : (afterBody tmp noFault (frags.map Op.frag) s).2 = none := by
    have := noFault_succeeds tmp ord hord s h frags hg hok true
    simp only [save] at this
    rw [transaction_phases tmp ord noFault true _ s h] at this
    rcases hb : (afterBody tmp noFault (frags.map Op.frag) s).2 with _ | e
    · rfl
    · simp [afterCleanup, afterCommit, hb] at this
      split at this <;> simp_all
  have := dry_restores' tmp ord noFault hord (frags.map Op.frag) s h he (noFault_quietFrom _)
  rw [paths_map_tmp] at this
  exact ⟨this.1, transaction_txn tmp ord _ true _ s h, this.2⟩

/-- A save that reports success — under any schedule — has put the complete new content
(declaration ++ payload) in place of every file it writes, left no temporary file and touched
nothing else. -/
theorem commit_complete (σ : Sched) (hord : ∀ l, (ord l).Perm l) (s : St P) (h : s.txn = none)
    (frags : List (Frag P)) (hg : GoodFrags [] frags) (hok : TmpOK tmp (frags.map (·.path)))
    (hs : (save tmp ord σ none false frags s).2 = none) :
    (save tmp ord σ none false frags s).1.txn = none ∧
    (∀ fr ∈ frags, (save tmp ord σ none false frags s).1.fs fr.path = some (fr.decl ++ fr.payload)) ∧
    (∀ q ∈ tmps tmp frags, (save tmp ord σ none false frags s).1.fs q = none) ∧
    (∀ q, q ∉ frags.map (·.path) → q ∉ tmps tmp frags →
      (save tmp ord σ none false frags s).1.fs q = s.fs q) := by
  have hsp := success_spec tmp ord σ hord s h frags hg hok hs
  refine ⟨transaction_txn tmp ord σ false _ s h, ?_, ?_, ?_⟩
  · intro fr hfr
    rw [hsp, committed, newContent_mem frags hg.1 fr hfr]
  · intro q hq
    have hnp : q ∉ frags.map (·.path) := by
      intro hm
      obtain ⟨a, ha, rfl⟩ := List.mem_map.mp hq
      exact hok.2 a.path (List.mem_map_of_mem ha) _ hm rfl
    rw [hsp, committed, newContent_none frags q hnp]
    simp [hq]
  · intro q h1 h2
    rw [hsp, committed, newContent_none frags q h1]
    simp [h2]

/-- Under **any** fault sequence and in any mode, no model file is ever torn: a path that is not a
temporary name is byte-identical to before or holds the complete new content of that file. -/
theorem never_torn (σ : Sched) (hord : ∀ l, (ord l).Perm l) (s : St P) (h : s.txn = none)
    (frags : List (Frag P)) (hg : GoodFrags [] frags) (hok : TmpOK tmp (frags.map (·.path))) (dry : Bool) :
    ∀ q, q ∉ tmps tmp frags →
      (save tmp ord σ none dry frags s).1.fs q = s.fs q ∨
      (q ∈ frags.map (·.path) ∧ (save tmp ord σ none dry frags s).1.fs q = newContent frags q) :=
  never_torn' tmp ord σ hord s h frags hg hok dry

/-- After a first save that went wrong in **any** way (any fault sequence, any mode, any set
iteration order), a second save on the same handler succeeds and installs the complete new content
of every file, with no temporary file left. -/
theorem retry_succeeds (σ : Sched) (ord' : List P → List P) (hord' : ∀ l, (ord' l).Perm l) (s : St P)
    (h : s.txn = none) (frags : List (Frag P)) (hg : GoodFrags [] frags)
    (hok : TmpOK tmp (frags.map (·.path))) (dry : Bool) :
    let s1 := (save tmp ord σ none dry frags s).1
    (save tmp ord' noFault none false frags s1).2 = none ∧
    (save tmp ord' noFault none false frags s1).1.txn = none ∧
    ∀ q, (save tmp ord' noFault none false frags s1).1.fs q = committed tmp frags s1.fs q := by
  intro s1
  have h1 : s1.txn = none := transaction_txn tmp ord σ dry _ s h
  have hs := noFault_succeeds tmp ord' hord' s1 h1 frags hg hok false
  exact ⟨hs, transaction_txn tmp ord' noFault false _ s1 h1,
    success_spec tmp ord' noFault hord' s1 h1 frags hg hok hs⟩

/-- The checks of `MelodyLoader.save` run before the transaction opens: if they raise, nothing at
all has happened. -/
theorem checks_come_first (σ : Sched) (e : Err) (dry : Bool) (frags : List (Frag P)) (s : St P) :
    save tmp ord σ (some e) dry frags s = (s, some e) := rfl

/-- A second transaction cannot be opened while one is running, and the attempt touches nothing. -/
theorem nested_refused (σ : Sched) (dry : Bool) (body : List (Op P)) (s : St P) (l : List P)
    (h : s.txn = some l) : transaction tmp ord σ dry body s = (s, some .alreadyOpen) := by
  simp [transaction, h]

/-! ## The pinned code before the repair did not have the property -/

section witness
def w_tmp : Nat → Nat := (· + 100)
def w_frags : List (Frag Nat) := [{ path := 1, decl := [1], payload := [7] }, { path := 2, decl := [1], payload := [8] }]
def w_s : St Nat := { fs := fun q => if q = 1 then some [1, 5] else none, txn := none, clock := 0, log := [] }
end witness

/-- `write_transaction` as it was before `fix: roll back a failed local write transaction …`:
when opening the second temp file fails with ENOSPC the caller sees a `FileNotFoundError` (errno 2)
instead, and the handler keeps its transaction set — every later save is refused.  Kept so that a
reverted repair is recognisable by name. -/
theorem pinned_open_fault_masks_and_sticks :
    let r := transactionOld w_tmp id (single 5 ⟨.os 28, false⟩) false (w_frags.map Op.frag) w_s
    r.2 = some (.os 2) ∧ r.1.txn ≠ none ∧
    (transactionOld w_tmp id noFault false (w_frags.map Op.frag) r.1).2 = some .alreadyOpen := by
  decide

/-! ## Non-vacuity -/

example : GoodFrags ([] : List Nat) w_frags := by
  refine ⟨by decide, ?_⟩
  intro fr hfr
  simp [w_frags] at hfr
  rcases hfr with rfl | rfl <;> simp

example : TmpOK w_tmp (w_frags.map (·.path)) := by
  refine ⟨?_, ?_⟩ <;> decide

/-- the repaired code on the same witness: injected error seen, transaction reset, file 1 as before -/
example :
    let r := save w_tmp id (single 5 ⟨.os 28, false⟩) none false w_frags w_s
    r.2 = some (.os 28) ∧ r.1.txn = none ∧ r.1.fs 1 = some [1, 5] ∧ r.1.fs 101 = none ∧ r.1.fs 102 = none := by
  decide

/-- a fault at the first rename (index 10 = 5·2) -/
example :
    let r := save w_tmp id (single 10 ⟨.interrupt, false⟩) none false w_frags w_s
    r.2 = some .interrupt ∧ r.1.txn = none ∧ r.1.fs 1 = some [1, 5] ∧ r.1.fs 2 = none ∧ r.1.fs 101 = none := by
  decide

/-- a fault at the second rename is outside `failed_save_restores` (`k = 11 > 5·2`): file 1 is new,
file 2 is not there yet — but nothing is torn and nothing is left behind -/
example :
    let r := save w_tmp id (single 11 ⟨.os 5, false⟩) none false w_frags w_s
    r.2 = some (.os 5) ∧ r.1.txn = none ∧ r.1.fs 1 = some [1, 7] ∧ r.1.fs 2 = none ∧ r.1.fs 102 = none := by
  decide

/-- fault-free save -/
example :
    let r := save w_tmp id noFault none false w_frags w_s
    r.2 = none ∧ r.1.fs 1 = some [1, 7] ∧ r.1.fs 2 = some [1, 8] ∧ r.1.fs 101 = none := by
  decide

end Capella.Props.C15
