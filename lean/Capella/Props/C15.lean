import Capella.Lemmas.TxnSave
import Capella.Lemmas.TxnClash
import Capella.Lemmas.TmpName
import Capella.Model.TxnLinks

/-!
# C15 — a failed save leaves the files on disk exactly as they were

Property theorems only; the model is `Capella/Model/Txn.lean`, helper lemmas live in
`Capella/Lemmas/Txn.lean` and `Capella/Lemmas/TxnSave.lean`.

Reading guide.  `save tmp ord σ pre dry frags s` is `MelodyLoader.save` on a `LocalFileHandler`:
`tmp` is `_tmpname`, `ord` the iteration order of the handler's Python `set` (any permutation), `σ`
the fault schedule (which effectful call fails, with which exception), `pre` what the checks before
the transaction raise, `frags` the files to write.  A save makes five effectful calls per file
(`open`, `serialize`, `write` declaration, `write` payload, `close`) and then one `replace` per file.
`s.fs : path → Option bytes` is the directory, `s.txn` the handler's private transaction set.

Temp names.  `TmpOK tmp names` says: different names have different temp names and no temp name is one
of the names.  Since `fix: refuse clashing temporary file names` the handler checks exactly this when a
file is opened for writing (`clash`): a save for which it fails is refused before the clashing file is
touched (`clash_refused`), a save that succeeds satisfies it (`success_means_usable_temp_names`), and for
the real `_tmpname` it follows from two syntactic conditions on the file names
(`local_tmp_names_usable`).  The theorems about "the k-th call of a save" and about retries keep it as
a hypothesis, because a refused save has no k-th call.
-/
namespace Capella.Props.C15
open Capella.Txn

variable {P : Type} [DecidableEq P] (tmp : P → P) (ord : List P → List P)

/-- **For every fault point up to and including the first rename, and every fault kind**: if the
`k`-th effectful call of a save fails (`k < 5·n`: any open / serialisation / write / close of any of
the `n` files; `k = 5·n`: the first rename of a non-dry save), then the caller sees exactly the
injected error, the handler's transaction is reset, and every path of the directory is as it was
before the call or is one of the save's temporary names and does not exist. -/
theorem failed_save_restores (hord : ∀ l, (ord l).Perm l) (s : St P) (h : s.txn = none)
    (frags : List (Frag P)) (hg : GoodFrags [] frags) (hok : TmpOK tmp (frags.map (·.path)))
    (dry : Bool) (k : Nat) (f : Fault)
    (hk : k < 5 * frags.length ∨ (k = 5 * frags.length ∧ dry = false ∧ frags ≠ [])) :
    (save tmp ord (single (s.clock + k) f) none dry frags s).2 = some f.err ∧
    (save tmp ord (single (s.clock + k) f) none dry frags s).1.txn = none ∧
    ∀ q, (save tmp ord (single (s.clock + k) f) none dry frags s).1.fs q = s.fs q ∨
      (q ∈ tmps tmp frags ∧ (save tmp ord (single (s.clock + k) f) none dry frags s).1.fs q = none) :=
  ⟨(single_fault_restores tmp ord hord s h frags hg hok dry k f hk).1,
   transaction_txn tmp ord _ dry _ s h,
   (single_fault_restores tmp ord hord s h frags hg hok dry k f hk).2⟩

/-- The same with the usual precondition that no stale temporary file was lying around: the
directory after the failed save *is* the directory before it. -/
theorem failed_save_restores_exact (hord : ∀ l, (ord l).Perm l) (s : St P) (h : s.txn = none)
    (frags : List (Frag P)) (hg : GoodFrags [] frags) (hok : TmpOK tmp (frags.map (·.path)))
    (dry : Bool) (k : Nat) (f : Fault)
    (hk : k < 5 * frags.length ∨ (k = 5 * frags.length ∧ dry = false ∧ frags ≠ []))
    (hclean : ∀ q ∈ tmps tmp frags, s.fs q = none) :
    (save tmp ord (single (s.clock + k) f) none dry frags s).1.fs = s.fs := by
  funext q
  rcases (single_fault_restores tmp ord hord s h frags hg hok dry k f hk).2 q with hq | ⟨hm, hq⟩
  · exact hq
  · rw [hq, hclean q hm]

/-- Any transaction body (fragment writes, duplicate names, missing directories, exceptions raised
by the caller, attempts to nest a transaction), any number of faults inside the body: if the body
ends with error `e` and clean-up itself meets no fault, `e` is what the caller sees, the transaction
is reset and the directory is restored. -/
theorem abort_restores (σ : Sched) (hord : ∀ l, (ord l).Perm l) (dry : Bool) (body : List (Op P)) (s : St P)
    (h : s.txn = none) (e : Err) (he : (afterBody tmp σ body s).2 = some e)
    (hq : QuietFrom σ (afterBody tmp σ body s).1.clock) :
    (transaction tmp ord σ dry body s).2 = some e ∧
    (transaction tmp ord σ dry body s).1.txn = none ∧
    ∀ q, (transaction tmp ord σ dry body s).1.fs q = s.fs q ∨
      (q ∈ (paths body).map tmp ∧ (transaction tmp ord σ dry body s).1.fs q = none) :=
  ⟨(abort_restores' tmp ord σ hord dry body s h e he hq).1, transaction_txn tmp ord σ dry body s h,
   (abort_restores' tmp ord σ hord dry body s h e he hq).2⟩

/-- If clean-up runs into `OSError`s (a temp file cannot be removed), the error that aborted the
transaction is still the one the caller sees — it is never masked by clean-up trouble. -/
theorem original_error_not_masked (σ : Sched) (dry : Bool) (body : List (Op P)) (s : St P)
    (h : s.txn = none) (e : Err) (he : (afterBody tmp σ body s).2 = some e)
    (hos : ∀ n f, (afterBody tmp σ body s).1.clock ≤ n → σ n = some f → f.err.isOS = true) :
    (transaction tmp ord σ dry body s).2 = some e :=
  body_error_reported tmp ord σ dry body s h e he hos

/-- Whatever happens — any body, any fault sequence, faults during commit or clean-up included —
the handler is never left with an open transaction. -/
theorem transaction_always_reset (σ : Sched) (dry : Bool) (body : List (Op P)) (s : St P)
    (h : s.txn = none) : (transaction tmp ord σ dry body s).1.txn = none :=
  transaction_txn tmp ord σ dry body s h

/-- A dry-run save changes nothing: no error, transaction reset, every path as before (or a temp
name that does not exist). -/
theorem dry_run_noop (hord : ∀ l, (ord l).Perm l) (s : St P) (h : s.txn = none)
    (frags : List (Frag P)) (hg : GoodFrags [] frags) (hok : TmpOK tmp (frags.map (·.path))) :
    (save tmp ord noFault none true frags s).2 = none ∧
    (save tmp ord noFault none true frags s).1.txn = none ∧
    ∀ q, (save tmp ord noFault none true frags s).1.fs q = s.fs q ∨
      (q ∈ tmps tmp frags ∧ (save tmp ord noFault none true frags s).1.fs q = none) := by
  have he : (afterBody tmp noFault (frags.map Op.frag) s).2 = none := by
    have := noFault_succeeds tmp ord hord s h frags hg hok true
    simp only [save] at this
    rw [transaction_phases tmp ord noFault true _ s h] at this
    rcases hb : (afterBody tmp noFault (frags.map Op.frag) s).2 with _ | e
    · rfl
    · simp [afterCleanup, afterCommit, hb] at this
      split at this <;> simp_all
  have := dry_restores' tmp ord noFault hord (frags.map Op.frag) s h he (noFault_quietFrom _)
  rw [paths_map_tmp] at this
  exact ⟨this.1, transaction_txn tmp ord _ true _ s h, this.2⟩

/-- A save that reports success — under any schedule — has put the complete new content
(declaration ++ payload) in place of every file it writes, left no temporary file and touched
nothing else.  (No hypothesis on the temp names any more: the handler's own check guarantees that a
save which gets this far never shared a temp file between two targets.) -/
theorem commit_complete (σ : Sched) (hord : ∀ l, (ord l).Perm l) (s : St P) (h : s.txn = none)
    (frags : List (Frag P)) (hg : GoodFrags [] frags)
    (hs : (save tmp ord σ none false frags s).2 = none) :
    (save tmp ord σ none false frags s).1.txn = none ∧
    (∀ fr ∈ frags, (save tmp ord σ none false frags s).1.fs fr.path = some (fr.decl ++ fr.payload)) ∧
    (∀ q ∈ tmps tmp frags, (save tmp ord σ none false frags s).1.fs q = none) ∧
    (∀ q, q ∉ frags.map (·.path) → q ∉ tmps tmp frags →
      (save tmp ord σ none false frags s).1.fs q = s.fs q) := by
  have hok : TmpOK tmp (frags.map (·.path)) := (success_TmpOK tmp ord σ false frags s h hs).1
  have hsp := success_spec tmp ord σ hord s h frags hg hok hs
  refine ⟨transaction_txn tmp ord σ false _ s h, ?_, ?_, ?_⟩
  · intro fr hfr
    rw [hsp, committed, newContent_mem frags hg.1 fr hfr]
  · intro q hq
    have hnp : q ∉ frags.map (·.path) := by
      intro hm
      obtain ⟨a, ha, rfl⟩ := List.mem_map.mp hq
      exact hok.2 a.path (List.mem_map_of_mem ha) _ hm rfl
    rw [hsp, committed, newContent_none frags q hnp]
    simp [hq]
  · intro q h1 h2
    rw [hsp, committed, newContent_none frags q h1]
    simp [h2]

/-- Under **any** fault sequence and in any mode, no model file is ever torn: a path that is not a
temporary name is byte-identical to before or holds the complete new content of that file. -/
theorem never_torn (σ : Sched) (hord : ∀ l, (ord l).Perm l) (s : St P) (h : s.txn = none)
    (frags : List (Frag P)) (hg : GoodFrags [] frags) (hok : TmpOK tmp (frags.map (·.path))) (dry : Bool) :
    ∀ q, q ∉ tmps tmp frags →
      (save tmp ord σ none dry frags s).1.fs q = s.fs q ∨
      (q ∈ frags.map (·.path) ∧ (save tmp ord σ none dry frags s).1.fs q = newContent frags q) :=
  never_torn' tmp ord σ hord s h frags hg hok dry

/-- After a first save that went wrong in **any** way (any fault sequence, any mode, any set
iteration order), a second save on the same handler succeeds and installs the complete new content
of every file, with no temporary file left. -/
theorem retry_succeeds (σ : Sched) (ord' : List P → List P) (hord' : ∀ l, (ord' l).Perm l) (s : St P)
    (h : s.txn = none) (frags : List (Frag P)) (hg : GoodFrags [] frags)
    (hok : TmpOK tmp (frags.map (·.path))) (dry : Bool) :
    let s1 := (save tmp ord σ none dry frags s).1
    (save tmp ord' noFault none false frags s1).2 = none ∧
    (save tmp ord' noFault none false frags s1).1.txn = none ∧
    ∀ q, (save tmp ord' noFault none false frags s1).1.fs q = committed tmp frags s1.fs q := by
  intro s1
  have h1 : s1.txn = none := transaction_txn tmp ord σ dry _ s h
  have hs := noFault_succeeds tmp ord' hord' s1 h1 frags hg hok false
  exact ⟨hs, transaction_txn tmp ord' noFault false _ s1 h1,
    success_spec tmp ord' noFault hord' s1 h1 frags hg hok hs⟩

/-- one earlier save of a history on the same handler: its fault schedule, what its pre-checks raised, its mode, the
files it was to write (the model may have been edited in between: each save has its own `frags`), and the iteration
order its `set` happened to have -/
structure PastSave (P : Type) where
  σ : Sched
  pre : Option Err
  dry : Bool
  frags : List (Frag P)
  ord : List P → List P

/-- the handler and the directory after a history of saves -/
def afterHistory (hist : List (PastSave P)) (s : St P) : St P :=
  hist.foldl (fun s h => (save tmp h.ord h.σ h.pre h.dry h.frags s).1) s

theorem afterHistory_txn (hist : List (PastSave P)) : ∀ (s : St P), s.txn = none → (afterHistory tmp hist s).txn = none := by
  induction hist with
  | nil => intro s h; exact h
  | cons p rest ih =>
    intro s h
    simp only [afterHistory, List.foldl_cons]
    apply ih
    cases hp : p.pre with
    | none => simp only [save]; exact transaction_txn tmp p.ord p.σ p.dry _ s h
    | some e => simpa [save] using h

/-- **Any history, then a save.**  After any number of earlier saves on the same handler and model object — failed at
any point with any fault sequence, refused by the pre-checks, dry runs, successful ones, each with its own set of
files (edits in between) — a fault-free save succeeds, resets the transaction and installs the complete new content
of **every** file it is given, leaving no temporary file: nothing an earlier save did or recorded makes a later save
skip a file. -/
theorem save_after_any_history (hord : ∀ l, (ord l).Perm l) (hist : List (PastSave P)) (s : St P) (h : s.txn = none)
    (frags : List (Frag P)) (hg : GoodFrags [] frags) (hok : TmpOK tmp (frags.map (·.path))) :
    let s1 := afterHistory tmp hist s
    (save tmp ord noFault none false frags s1).2 = none ∧
    (save tmp ord noFault none false frags s1).1.txn = none ∧
    ∀ q, (save tmp ord noFault none false frags s1).1.fs q = committed tmp frags s1.fs q := by
  intro s1
  have h1 : s1.txn = none := afterHistory_txn tmp hist s h
  have hs := noFault_succeeds tmp ord hord s1 h1 frags hg hok false
  exact ⟨hs, transaction_txn tmp ord noFault false _ s1 h1,
    success_spec tmp ord noFault hord s1 h1 frags hg hok hs⟩

/-! ## Symbolic links (round 5)

`s.fs` holds the entries of the directory as `lstat` sees them; `linkOf b = some q`: the entry with bytes `b` is a
symbolic link that leads to `q` (see `Model/TxnLinks.lean`).  The map covers every path — the root of the handler and
whatever directory a link leads into. -/

/-- **A failed save and symbolic links**: under the hypotheses of `failed_save_restores_exact` (any fault point up to
and including the first rename, any fault kind), for any reading of entries as links: every link is still a link with
the same text and the entry it leads to is what it was; no path that did not exist before exists afterwards — in
particular no temporary file beside the file a link leads to; and reading any path through its links gives what it
gave before. -/
theorem failed_save_keeps_links (linkOf : Bytes → Option P) (hord : ∀ l, (ord l).Perm l) (s : St P) (h : s.txn = none)
    (frags : List (Frag P)) (hg : GoodFrags [] frags) (hok : TmpOK tmp (frags.map (·.path)))
    (dry : Bool) (k : Nat) (f : Fault)
    (hk : k < 5 * frags.length ∨ (k = 5 * frags.length ∧ dry = false ∧ frags ≠ []))
    (hclean : ∀ q ∈ tmps tmp frags, s.fs q = none) :
    (∀ p b q, s.fs p = some b → linkOf b = some q →
      (save tmp ord (single (s.clock + k) f) none dry frags s).1.fs p = some b ∧
      (save tmp ord (single (s.clock + k) f) none dry frags s).1.fs q = s.fs q) ∧
    (∀ r, s.fs r = none → (save tmp ord (single (s.clock + k) f) none dry frags s).1.fs r = none) ∧
    (∀ n p, readThrough linkOf (save tmp ord (single (s.clock + k) f) none dry frags s).1.fs n p =
      readThrough linkOf s.fs n p) := by
  have he := failed_save_restores_exact tmp ord hord s h frags hg hok dry k f hk hclean
  rw [he]
  exact ⟨fun p b q hp _ => ⟨hp, rfl⟩, fun r hr => hr, fun n p => rfl⟩

/-- **A dry run and symbolic links**: a fault-free dry-run save (no stale temp file beforehand) leaves the whole map as
it was — every link, what it leads to, and no new entry anywhere. -/
theorem dry_run_keeps_links (linkOf : Bytes → Option P) (hord : ∀ l, (ord l).Perm l) (s : St P) (h : s.txn = none)
    (frags : List (Frag P)) (hg : GoodFrags [] frags) (hok : TmpOK tmp (frags.map (·.path)))
    (hclean : ∀ q ∈ tmps tmp frags, s.fs q = none) :
    (save tmp ord noFault none true frags s).1.fs = s.fs ∧
    (∀ n p, readThrough linkOf (save tmp ord noFault none true frags s).1.fs n p = readThrough linkOf s.fs n p) := by
  have he : (save tmp ord noFault none true frags s).1.fs = s.fs := by
    funext q
    rcases (dry_run_noop tmp ord hord s h frags hg hok).2.2 q with hq | ⟨hm, hq⟩
    · exact hq
    · rw [hq, hclean q hm]
  rw [he]
  exact ⟨rfl, fun n p => rfl⟩

/-- What the code does *as coded* when a save SUCCEEDS on a file that is a symbolic link (not demanded by the property,
recorded because the harness observes it): the entry is replaced by the regular file with the complete new content —
the link is gone — and the file the link led to (not itself written, not a temp name) keeps its old content. -/
theorem commit_replaces_link_keeps_target (linkOf : Bytes → Option P) (σ : Sched) (hord : ∀ l, (ord l).Perm l) (s : St P)
    (h : s.txn = none) (frags : List (Frag P)) (hg : GoodFrags [] frags)
    (hs : (save tmp ord σ none false frags s).2 = none)
    (fr : Frag P) (hfr : fr ∈ frags) (b : Bytes) (q : P) (_hp : s.fs fr.path = some b) (_hl : linkOf b = some q)
    (hq1 : q ∉ frags.map (·.path)) (hq2 : q ∉ tmps tmp frags) :
    (save tmp ord σ none false frags s).1.fs fr.path = some (fr.decl ++ fr.payload) ∧
    (save tmp ord σ none false frags s).1.fs q = s.fs q :=
  ⟨(commit_complete tmp ord σ hord s h frags hg hs).2.1 fr hfr,
   (commit_complete tmp ord σ hord s h frags hg hs).2.2.2 q hq1 hq2⟩

/-- The checks of `MelodyLoader.save` run before the transaction opens: if they raise, nothing at
all has happened. -/
theorem checks_come_first (σ : Sched) (e : Err) (dry : Bool) (frags : List (Frag P)) (s : St P) :
    save tmp ord σ (some e) dry frags s = (s, some e) := rfl

/-- A second transaction cannot be opened while one is running, and the attempt touches nothing. -/
theorem nested_refused (σ : Sched) (dry : Bool) (body : List (Op P)) (s : St P) (l : List P)
    (h : s.txn = some l) : transaction tmp ord σ dry body s = (s, some .alreadyOpen) := by
  simp [transaction, h]


/-! ## Temp names: enforced by the handler, proved for `_tmpname` -/

/-- A save that reports success — any schedule, any mode — wrote pairwise different names whose temp
names are pairwise different and none of which is itself a target: the handler refuses anything else. -/
theorem success_means_usable_temp_names (σ : Sched) (dry : Bool) (frags : List (Frag P)) (s : St P)
    (h : s.txn = none) (hs : (save tmp ord σ none dry frags s).2 = none) :
    TmpOK tmp (frags.map (·.path)) ∧ (frags.map (·.path)).Nodup :=
  success_TmpOK tmp ord σ dry frags s h hs

/-- **A save whose temp names clash is refused before the clashing file is touched.**  If the temp
names of the files are not usable, the list of files splits at the first name `open` refuses: the
files before it went to their temp files, then the handler raises; the caller sees that refusal, the
transaction is reset, and every path is as before or is the temp name of one of the *earlier* files and
does not exist.  The refused file, its temp name and all later files were never touched.
(No fault; faults inside a refused save are covered by `abort_restores`.) -/
theorem clash_refused (σ : Sched) (hord : ∀ l, (ord l).Perm l) (dry : Bool) (frags : List (Frag P)) (s : St P)
    (h : s.txn = none) (hg : GoodFrags [] frags) (hbad : ¬ TmpOK tmp (frags.map (·.path)))
    (hq : QuietFrom σ s.clock) :
    (save tmp ord σ none dry frags s).2 = some .tmpClash ∧
    (save tmp ord σ none dry frags s).1.txn = none ∧
    ∃ pre fr post, frags = pre ++ fr :: post ∧ clash tmp (pre.map (·.path)) fr.path = true ∧
      ∀ q, (save tmp ord σ none dry frags s).1.fs q = s.fs q ∨
        (q ∈ tmps tmp pre ∧ (save tmp ord σ none dry frags s).1.fs q = none) := by
  rcases tmpOK_or_clash tmp (frags.map (·.path)) hg.1 with hok | ⟨pre, p, post, he, hpre, hcl⟩
  · exact absurd hok hbad
  · obtain ⟨fpre, frest, rfl, rfl, hm2⟩ := List.map_eq_append_iff.mp he
    obtain ⟨fr, fpost, rfl, rfl, rfl⟩ := List.map_eq_cons_iff.mp hm2
    have := clash_refused' tmp ord σ hord dry fpre fpost fr s h hg hpre hcl hq
    exact ⟨this.1, transaction_txn tmp ord σ dry _ s h, fpre, fr, fpost, rfl, hcl, this.2⟩

/-- Without faults a save of pairwise different files in existing directories has exactly two
outcomes: it completes (everything installed, no temp file left), or it is refused because of a
temp-name clash and nothing but temp files of earlier fragments was ever created. -/
theorem save_completes_or_is_refused (hord : ∀ l, (ord l).Perm l) (frags : List (Frag P)) (s : St P)
    (h : s.txn = none) (hg : GoodFrags [] frags) :
    ((save tmp ord noFault none false frags s).2 = none ∧
      ∀ q, (save tmp ord noFault none false frags s).1.fs q = committed tmp frags s.fs q) ∨
    ((save tmp ord noFault none false frags s).2 = some .tmpClash ∧
      ∀ q, (save tmp ord noFault none false frags s).1.fs q = s.fs q ∨
        (q ∈ tmps tmp frags ∧ (save tmp ord noFault none false frags s).1.fs q = none)) := by
  by_cases hok : TmpOK tmp (frags.map (·.path))
  · have hs := noFault_succeeds tmp ord hord s h frags hg hok false
    exact Or.inl ⟨hs, success_spec tmp ord noFault hord s h frags hg hok hs⟩
  · obtain ⟨h1, _, pre, fr, post, he, _, h3⟩ :=
      clash_refused tmp ord noFault hord false frags s h hg hok (noFault_quietFrom _)
    refine Or.inr ⟨h1, fun q => ?_⟩
    rcases h3 q with h4 | ⟨h4, h5⟩
    · exact Or.inl h4
    · refine Or.inr ⟨?_, h5⟩
      subst he
      simp only [tmps, List.map_append, List.mem_append] at h4 ⊢
      exact Or.inl h4

/-- **The real `_tmpname` gives usable temp names** under two syntactic conditions on the files of a
save: the last component of every path has at most 250 bytes of UTF-8, and no last component has
itself the shape `.….tmp`.  (This replaces the former blanket assumption; it is what the harness'
corpus models satisfy, and what `TmpOK` demands of a caller.) -/
theorem local_tmp_names_usable (ps : List (List Capella.Path.Str))
    (hne : ∀ p ∈ ps, p ≠ [])
    (hshort : ∀ p ∈ ps, ∀ n, p.getLast? = some n → Capella.Path.utf8Len n ≤ 250)
    (hshape : ∀ p ∈ ps, ∀ n, p.getLast? = some n → ¬ Capella.Path.TmpShaped n) :
    TmpOK Capella.Path.tmpPath ps :=
  Capella.Path.tmpPath_ok ps hne hshort hshape

/-! ## The pinned code before the repair did not have the property -/

section witness
def w_tmp : Nat → Nat := (· + 100)
def w_frags : List (Frag Nat) := [{ path := 1, decl := [1], payload := [7] }, { path := 2, decl := [1], payload := [8] }]
def w_s : St Nat := { fs := fun q => if q = 1 then some [1, 5] else none, txn := none, clock := 0, log := [] }
end witness

/-- `write_transaction` as it was before `fix: roll back a failed local write transaction …`:
when opening the second temp file fails with ENOSPC the caller sees a `FileNotFoundError` (errno 2)
instead, and the handler keeps its transaction set — every later save is refused.  Kept so that a
reverted repair is recognisable by name. -/
theorem pinned_open_fault_masks_and_sticks :
    let r := transactionOld w_tmp id (single 5 ⟨.os 28, false⟩) false (w_frags.map Op.frag) w_s
    r.2 = some (.os 2) ∧ r.1.txn ≠ none ∧
    (transactionOld w_tmp id noFault false (w_frags.map Op.frag) r.1).2 = some .alreadyOpen := by
  decide

section witness2
/-- two names with the same temp name (what the 250-character cut does to two long sibling names) -/
def w_tmp2 : Nat → Nat := fun n => if n = 1 ∨ n = 2 then 100 else n + 100
def w_s2 : St Nat := { fs := fun q => if q = 1 then some [1, 5] else if q = 2 then some [1, 6] else none,
                       txn := none, clock := 0, log := [] }
end witness2

/-- `open` as it was before `fix: refuse clashing temporary file names …`: two files that share a temp
name, no fault at all — the second write truncates the first one's temp file, the first rename puts the
*second* file's content under the first name, the second rename fails with ENOENT.  File 1 now holds
file 2's content.  Kept so that a reverted repair is recognisable by name. -/
theorem pinned_shared_temp_name_mixes_contents :
    let r := saveNoCheck w_tmp2 id noFault false w_frags w_s2
    r.2 = some (.os 2) ∧ r.1.fs 1 = some [1, 8] ∧ r.1.fs 2 = some [1, 6] := by
  decide

/-! ## Non-vacuity -/

/-- the repaired code on the same witness: refused, both files as before, nothing left behind -/
example :
    let r := save w_tmp2 id noFault none false w_frags w_s2
    r.2 = some .tmpClash ∧ r.1.txn = none ∧ r.1.fs 1 = some [1, 5] ∧ r.1.fs 2 = some [1, 6] ∧ r.1.fs 100 = none := by
  decide

example : ¬ TmpOK w_tmp2 (w_frags.map (·.path)) := by
  intro h
  exact absurd (h.1 1 (by decide) 2 (by decide) (by decide)) (by decide)

/-- `local_tmp_names_usable` applies to ordinary model file names -/
example : TmpOK Capella.Path.tmpPath [["m.aird".toList], ["fragments".toList, "Part 0.capellafragment".toList]] := by
  apply local_tmp_names_usable
  · decide
  · intro p hp n hn
    simp only [List.mem_cons, List.not_mem_nil, or_false] at hp
    rcases hp with rfl | rfl <;> (simp at hn; subst hn; decide)
  · intro p hp n hn
    simp only [List.mem_cons, List.not_mem_nil, or_false] at hp
    rcases hp with rfl | rfl <;> (simp at hn; subst hn; decide)

example : GoodFrags ([] : List Nat) w_frags := by
  refine ⟨by decide, ?_⟩
  intro fr hfr
  simp [w_frags] at hfr
  rcases hfr with rfl | rfl <;> simp

example : TmpOK w_tmp (w_frags.map (·.path)) := by
  refine ⟨?_, ?_⟩ <;> decide

/-- the repaired code on the same witness: injected error seen, transaction reset, file 1 as before -/
example :
    let r := save w_tmp id (single 5 ⟨.os 28, false⟩) none false w_frags w_s
    r.2 = some (.os 28) ∧ r.1.txn = none ∧ r.1.fs 1 = some [1, 5] ∧ r.1.fs 101 = none ∧ r.1.fs 102 = none := by
  decide

/-- a fault at the first rename (index 10 = 5·2) -/
example :
    let r := save w_tmp id (single 10 ⟨.interrupt, false⟩) none false w_frags w_s
    r.2 = some .interrupt ∧ r.1.txn = none ∧ r.1.fs 1 = some [1, 5] ∧ r.1.fs 2 = none ∧ r.1.fs 101 = none := by
  decide

/-- a fault at the second rename is outside `failed_save_restores` (`k = 11 > 5·2`): file 1 is new,
file 2 is not there yet — but nothing is torn and nothing is left behind -/
example :
    let r := save w_tmp id (single 11 ⟨.os 5, false⟩) none false w_frags w_s
    r.2 = some (.os 5) ∧ r.1.txn = none ∧ r.1.fs 1 = some [1, 7] ∧ r.1.fs 2 = none ∧ r.1.fs 102 = none := by
  decide

/-- fault-free save -/
example :
    let r := save w_tmp id noFault none false w_frags w_s
    r.2 = none ∧ r.1.fs 1 = some [1, 7] ∧ r.1.fs 2 = some [1, 8] ∧ r.1.fs 101 = none := by
  decide

/-- a history: a save that fails while the second file is closed (index 9), a dry run, then the real save — both files
hold their complete new content, the first one too although it "went through" twice before -/
example :
    let hist : List (PastSave Nat) := [⟨single 9 ⟨.os 28, false⟩, none, false, w_frags, id⟩, ⟨noFault, none, true, w_frags, id⟩]
    let s1 := afterHistory w_tmp hist w_s
    let r := save w_tmp id noFault none false w_frags s1
    s1.fs 1 = some [1, 5] ∧ s1.fs 2 = none ∧ r.2 = none ∧ r.1.fs 1 = some [1, 7] ∧ r.1.fs 2 = some [1, 8] ∧
    r.1.fs 101 = none ∧ r.1.fs 102 = none := by
  decide

section witness3
/-- entries `[0, q]` are symbolic links to `q` -/
def w_link : Bytes → Option Nat
  | [0, q] => some q
  | _ => none
/-- file 1 is a link to 50 (a file in another directory: its temp name would be 150), file 2 does not exist yet -/
def w_s3 : St Nat := { fs := fun q => if q = 1 then some [0, 50] else if q = 50 then some [1, 5] else none,
                       txn := none, clock := 0, log := [] }
end witness3

/-- a save that fails while the second file is opened: file 1 is still the link, what it leads to is unchanged, no temp
file beside the link (101) or beside what it leads to (150); reading 1 gives the old content -/
example :
    let r := save w_tmp id (single 5 ⟨.os 28, true⟩) none false w_frags w_s3
    r.2 = some (.os 28) ∧ r.1.fs 1 = some [0, 50] ∧ r.1.fs 50 = some [1, 5] ∧ r.1.fs 101 = none ∧ r.1.fs 150 = none ∧
    r.1.fs 102 = none ∧ readThrough w_link r.1.fs 3 1 = some [1, 5] := by
  decide

/-- a dry run on the same directory -/
example :
    let r := save w_tmp id noFault none true w_frags w_s3
    r.2 = none ∧ r.1.fs 1 = some [0, 50] ∧ r.1.fs 50 = some [1, 5] ∧ r.1.fs 101 = none ∧ r.1.fs 150 = none := by
  decide

/-- a successful save, as coded: the link is replaced by the regular file, what it led to keeps its old content -/
example :
    let r := save w_tmp id noFault none false w_frags w_s3
    r.2 = none ∧ r.1.fs 1 = some [1, 7] ∧ r.1.fs 50 = some [1, 5] ∧ readThrough w_link r.1.fs 3 1 = some [1, 7] := by
  decide

end Capella.Props.C15
