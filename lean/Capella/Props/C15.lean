import Capella.Model.Txn

/-!
# C15 — a failed save leaves the files on disk exactly as they were
-/
namespace Capella.Props.C15
open Capella.Txn

/-- A second transaction cannot be opened while one is running, and the attempt touches nothing. -/
theorem nested_refused {P : Type} [DecidableEq P] (tmp : P → P) (ord : List P → List P) (σ : Sched)
    (dry : Bool) (body : List (Op P)) (s : St P) (l : List P) (h : s.txn = some l) :
    transaction tmp ord σ dry body s = (s, some .alreadyOpen) := by
  simp [transaction, h]

end Capella.Props.C15
