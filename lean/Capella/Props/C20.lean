import Capella.Lemmas.Reqif
import Capella.Lemmas.ReqifXml
import Capella.Lemmas.ReqifOrder

/-!
# C20 — ReqIF export is closed, unique and covers every requirement exactly once

Property theorems only; the model is `Capella/Model/Reqif.lean` (one definition per exporter function),
helper lemmas live in `Capella/Lemmas/Reqif.lean`.

`doc x m` is the abstract document `export_module` writes for module `m` (`x` = the rich-text
conversion, a parameter); `«export» x m` is `.ok (doc x m)` or the exception the code raises first.
Hypotheses that appear below:
* `Identity m` — distinct model elements have distinct (case-insensitive) uuids, and a definition or
  data type reached through several attributes is one object;
* `Typed m` — an enumeration attribute that has a definition has an enumeration definition, and its
  values are values of that definition's data type (the metamodel's typing);
* `hasEnumWithoutDef m = false` — no enumeration attribute lacks a definition (the recorded finding:
  the exporter raises for those).
-/
namespace Capella.Props.C20
open Capella.Reqif

/-! ## the exporter produces a document -/

/-- The statement "exporting any module produces a document" at full strength (the rich-text
converter is only assumed to accept `<div>…</div>` wrappers, as lxml does). -/
def C20_total : Prop :=
  ∀ (x : Str → Option Str) (m : Module), (x emptyDiv).isSome = true → (∀ s, (x (wrapDiv s)).isSome = true) →
    ∃ d, «export» x m = .ok d

/-- It does not hold for the code as it is: a module with one requirement carrying an enumeration
attribute without definition makes `_build_spec_object_types` fail its assertion. -/
theorem C20_total_fails : ¬ C20_total := by
  intro h
  let r : Req := { uuid := ['r'], longName := [], identifier := [], chapterName := [], name := [], text := [],
                   type := none, attrs := [{ defn := none, value := .enum [] }] }
  let m : Module := { modelUuid := ['m'], uuid := ['u'], longName := [], description := [], type := none,
                      reqs := [r], folders := [] }
  obtain ⟨d, hd⟩ := h (fun _ => some []) m rfl (fun _ => rfl)
  have : «export» (fun _ => some []) m = .error .assertion := export_assertion _ m (by decide) (by decide)
  rw [this] at hd
  cases hd

/-- The exact excluded inputs: without an enumeration attribute that lacks a definition, and without a
link that violates the metamodel's classes where the exporter looks (`hasClassViolation`: an enumeration
definition typed by a plain data type, an enumeration attribute defined by a plain definition), the
exporter returns the document `doc x m` for every module tree, every iteration order of its sets, every
text and every converter that accepts `<div>` wrappers — in particular blank or comment-only fields and
any markup characters. -/
theorem export_total_partial (x : Str → Option Str) (m : Module) (hx : (x emptyDiv).isSome = true)
    (hdiv : ∀ s, (x (wrapDiv s)).isSome = true) (hE : hasEnumWithoutDef m = false)
    (hC : hasClassViolation m = false) :
    «export» x m = .ok (doc x m) :=
  export_ok x m hx hdiv hE hC

/-- and with an enumeration attribute without definition the outcome is exactly the assertion failure
(no document) on class-correct modules, -/
theorem export_enum_without_definition (x : Str → Option Str) (m : Module) (hE : hasEnumWithoutDef m = true)
    (hC : hasClassViolation m = false) :
    «export» x m = .error .assertion :=
  export_assertion x m hE hC

/-- and in general each of the excluded inputs means that no document is written: the export raises the
`AssertionError` or the `AttributeError`, whichever the iteration order reaches first. The exclusion is
exact: `export_total_partial` is the converse. -/
theorem export_excluded_inputs_fail (x : Str → Option Str) (m : Module)
    (h : hasEnumWithoutDef m = true ∨ hasClassViolation m = true) :
    ∃ e, «export» x m = .error e ∧ (e = .assertion ∨ e = .attribute) :=
  export_no_document x m h

/-- A successful export is the document `doc x m`. -/
theorem export_eq_doc (x : Str → Option Str) (m : Module) (d : Doc) (h : «export» x m = .ok d) : d = doc x m := by
  unfold «export» at h
  split at h
  · cases h
  · exact (Except.ok.inj h).symm

/-! ## closed -/

/-- "Every reference resolves" at full strength: for every module that is exported and whose elements are
identified by their uuids. -/
def C20_closed_full : Prop :=
  ∀ (x : Str → Option Str) (m : Module) (d : Doc), «export» x m = .ok d → Identity m → ∀ i ∈ d.refs, i ∈ d.defs

private def staleE1 : DataType := { uuid := "d1".toList, longName := [], values := [{ uuid := "e1".toList, longName := [], description := [] }] }
private def staleE2 : DataType := { uuid := "d2".toList, longName := [], values := [{ uuid := "e2".toList, longName := [], description := [] }] }
private def staleDef : AttrDef :=
  { uuid := "a1".toList, longName := [], description := [], isEnum := true, multiValued := false, dataType := some staleE2 }
/-- the witness: the definition was re-typed from data type `d1` to `d2` after value `e1` had been chosen -/
private def staleM : Module :=
  { modelUuid := "mm".toList, uuid := "m0".toList, longName := [], description := [], type := none,
    reqs := [{ uuid := "r1".toList, longName := [], identifier := [], chapterName := [], name := [], text := [], type := none,
               attrs := [{ defn := some staleDef, value := .enum ["e1".toList] }] }],
    folders := [] }

/-- It does not hold for the code: an enumeration attribute may hold a value that is not a value of its
definition's (current) data type — class-correct, reachable by re-assigning `definition.data_type` — and
the exporter writes the `ENUM-VALUE-REF` although only the definition's data type is emitted. -/
theorem C20_closed_full_fails : ¬ C20_closed_full := by
  intro h
  have hx : «export» (fun s => some s) staleM = .ok (doc (fun s => some s) staleM) :=
    export_ok _ staleM rfl (fun _ => rfl) (by decide) (by decide)
  have := h _ staleM _ hx ⟨by decide, by decide, by decide⟩ (.obj "E1".toList) (by decide)
  revert this
  decide

/-- The strongest statement the code satisfies, with the exact excluded inputs: every `*-REF` of an
exported document is the `IDENTIFIER` of an element of that document — datatype references of attribute
definitions, definition references of values (standard and custom, with and without definition, under the
requirement's own type), spec-object-type, specification-type and spec-object references unconditionally,
enumeration value references whenever every choice is a value of a data type that is emitted with its
values (`EnumRefsCovered`). Holds for every iteration order of the exporter's sets. -/
theorem refs_closed_partial (x : Str → Option Str) (m : Module) (d : Doc) (h : «export» x m = .ok d)
    (hI : Identity m) (hC : EnumRefsCovered m) : ∀ i ∈ d.refs, i ∈ d.defs := by
  have hd := export_eq_doc x m d h
  subst hd
  exact refs_closed_cov x m (req_raw_uuids_nodup m hI) hC

/-- … and the exclusion is exact: in a closed document every enumeration choice resolves to an element
identified by a plain uuid (`objUuids`: an `ENUM-VALUE`, or — only if uuids are shared across kinds — another
object). -/
theorem refs_closed_only_if (x : Str → Option Str) (m : Module) (h : ∀ i ∈ (doc x m).refs, i ∈ (doc x m).defs) :
    ∀ r ∈ m.dfs, ∀ a ∈ r.attrs, ∀ u ∈ a.value.enumRefs, u ∈ objUuids m := by
  intro r hr a ha u hu
  have href : Ident.obj u ∈ (doc x m).refs := by
    simp only [Doc.refs, List.mem_append, List.mem_flatMap]
    refine Or.inl (Or.inr ⟨specObject x r, ?_, ?_⟩)
    · rw [doc_specObjects]; exact List.mem_map_of_mem hr
    · simp only [SpecObjectEl.refs, specObject, List.mem_append, List.mem_flatMap, List.mem_map]
      exact Or.inl (Or.inr ⟨attrValue a, ⟨a, ha, rfl⟩, by simp [AttrValueEl.refs, attrValue, hu]⟩)
  have hdef := (defs_perm x m).mem_iff.mp (h _ href)
  have : Ident.obj u ∈ (defsU m).filter Ident.isObj := List.mem_filter.mpr ⟨hdef, rfl⟩
  rw [defsU_filter_obj] at this
  simpa using this

/-- The metamodel's typing is a sufficient condition: every `*-REF` of an exported document of a typed
module is the `IDENTIFIER` of an element of that document. -/
theorem refs_closed (x : Str → Option Str) (m : Module) (d : Doc) (h : «export» x m = .ok d)
    (hI : Identity m) (hT : Typed m) : ∀ i ∈ d.refs, i ∈ d.defs := by
  have hd := export_eq_doc x m d h
  subst hd
  have hE : hasEnumWithoutDef m = false := by
    cases hh : hasEnumWithoutDef m with
    | false => rfl
    | true =>
      obtain ⟨e, he, _⟩ := export_no_document x m (Or.inl hh)
      rw [he] at h; cases h
  exact refs_closed' x m (req_raw_uuids_nodup m hI) hT hI.dts hE

/-- `Typed` implies the exact condition (so `refs_closed` is an instance of `refs_closed_partial`). -/
theorem typed_implies_covered (m : Module) (hI : Identity m) (hT : Typed m) (hE : hasEnumWithoutDef m = false) :
    EnumRefsCovered m :=
  typed_covered m (req_raw_uuids_nodup m hI) hT hI.dts hE

/-- The reference scheme before the repair is not closed: a definition-less attribute was referenced
as `NULLTYPE--<T>` while its definition is `_NULL-ATTRIBUTE-DEFINITION--<T>`. -/
theorem nulltype_ref_dangles (k : Kind) : refAttrDefOldBody k none ≠ attrDefOldBody k none := by
  cases k <;> decide

/-! ## unique -/

/-- All identifiers of an exported document are pairwise distinct (as structured identifiers). -/
theorem ids_unique (x : Str → Option Str) (m : Module) (d : Doc) (h : «export» x m = .ok d) (hI : Identity m) :
    d.defs.Nodup := by
  have hd := export_eq_doc x m d h
  subst hd
  exact defs_nodup x m hI

/-- Before the repair (`datatypeElOld`) an enumeration definition under a simple attribute wrote its
values into the simple datatype as well: with an enumeration attribute of the same definition both
emitted datatypes carry the same `ENUM-VALUE` identifiers. -/
theorem old_specified_values_duplicate :
    let d : AttrDef := { uuid := "a1".toList, longName := [], description := [], isEnum := true, multiValued := false,
                         dataType := some { uuid := "d1".toList, longName := [], values := [{ uuid := "e1".toList, longName := [], description := [] }] } }
    ¬ ((datatypeElOld (some d, .string)).ids ++ (datatypeElOld (some d, .enumeration)).ids).Nodup ∧
      ((datatypeEl (some d, .string)).ids ++ (datatypeEl (some d, .enumeration)).ids).Nodup := by
  decide

/-- The identifier texts the code builds (`"_" + uuid.upper()`, `…--HIER`, `_<DEF>.<TYPE>--<KIND>`,
`_STD-ATTRIBUTE-<TYPE>-ReqIF.<name>`, the `NULL-…` words, …) determine the identifier: two shaped
identifiers with the same text are equal. Shaped = every uuid in it is hex digits and dashes. -/
theorem render_injective (i j : Ident) (hi : i.Shaped) (hj : j.Shaped) (h : i.render = j.render) : i = j :=
  render_inj hi hj h

/-- All `IDENTIFIER` strings of an exported document are pairwise distinct, for every module whose
uuids are hex-and-dash texts (after upper-casing) and identify its elements. -/
theorem id_strings_unique (x : Str → Option Str) (m : Module) (d : Doc) (h : «export» x m = .ok d)
    (hI : Identity m) (hS : UuidShaped m) : (d.defs.map Ident.render).Nodup := by
  have hd := export_eq_doc x m d h
  subst hd
  exact rendered_defs_nodup x m hI hS

/-! ## every requirement exactly once, in depth-first order -/

/-- `m.dfs` lists exactly the requirements contained in the module, directly or in nested folders. -/
theorem dfs_complete (m : Module) (r : Req) : r ∈ m.dfs ↔ m.Contains r :=
  Module.mem_dfs_iff m r

/-- The spec objects and the hierarchy entries (with their `SPEC-OBJECT-REF`s) are both the module's
depth-first order — requirements of a container first, then its folders, recursively — for every
folder tree; the three traversals the exporter codes separately agree. -/
theorem each_req_once (x : Str → Option Str) (m : Module) :
    (doc x m).specObjects.map (·.uuid) = m.dfs.map (fun r => up r.uuid) ∧
    (doc x m).specification.children.map (·.uuid) = m.dfs.map (fun r => up r.uuid) := by
  rw [doc_specObjects, doc_children]
  simp [specObject, hierEl, Function.comp_def]

/-- "exactly once": a contained requirement occurs once among the spec objects and once in the
hierarchy, and nothing else occurs there. -/
theorem exactly_once (x : Str → Option Str) (m : Module) (hI : Identity m) (r : Req) (hr : m.Contains r) :
    ((doc x m).specObjects.map (·.uuid)).count (up r.uuid) = 1 ∧
    ((doc x m).specification.children.map (·.uuid)).count (up r.uuid) = 1 := by
  obtain ⟨h1, h2⟩ := each_req_once x m
  rw [h1, h2]
  have hn := req_uuids_nodup m hI
  have hm : up r.uuid ∈ m.dfs.map (fun r => up r.uuid) :=
    List.mem_map.mpr ⟨r, (Module.mem_dfs_iff m r).mpr hr, rfl⟩
  simp [hn.count, hm]

/-! ## fields, values and enumeration choices intact -/

/-- Position by position the spec objects are the encodings of the requirements in depth-first order. -/
theorem spec_objects_pointwise (x : Str → Option Str) (m : Module) :
    (doc x m).specObjects = m.dfs.map (specObject x) :=
  doc_specObjects x m

/-- The encoding of one requirement: its identifier, long name, the four standard fields under the
standard definitions of its own type (ForeignID verbatim; the XHTML fields converted from the escaped
plain text resp. the stored HTML, blank input falling back to the empty value), and one value per
attribute, in order, each under the definition identifier scoped by the requirement's type. -/
theorem fields_intact (x : Str → Option Str) (r : Req) :
    (specObject x r).uuid = up r.uuid ∧
    (specObject x r).longName = nonEmpty r.longName ∧
    (specObject x r).std =
      [⟨"ForeignID".toList, .string, some r.identifier⟩,
       ⟨"ChapterName".toList, .xhtml, toXhtml x (if r.chapterName = [] then emptyDiv else escape r.chapterName)⟩,
       ⟨"Name".toList, .xhtml, toXhtml x (if r.name = [] then emptyDiv else escape r.name)⟩,
       ⟨"Text".toList, .xhtml, toXhtml x (if r.text = [] then emptyDiv else r.text)⟩] ∧
    (specObject x r).attrs.map (·.kind) = r.attrs.map (·.value.kind) ∧
    (specObject x r).attrs.map (·.ad) = r.attrs.map (fun a => a.defn.map (fun d => up d.uuid)) := by
  refine ⟨rfl, rfl, ?_, ?_, ?_⟩
  · simp [specObject, stdValues, stdSpecObjectAttrs, htmlSource, Field.get, Field.isHtml]
  · simp [specObject, attrValue, Function.comp_def]
  · simp [specObject, attrValue, Function.comp_def]

/-- Every exported attribute value reads back as the attribute's value (enumeration choices
included, in order), for every value that is not exported as a placeholder. -/
theorem values_intact (a : Attr) (h : a.value.Proper) :
    Value.decode (attrValue a).kind (attrValue a).theValue (attrValue a).enumRefs = some a.value.upper :=
  Value.decode_render a.value h

/-- `markupsafe.escape` leaves no markup-significant character in a plain-text field. -/
theorem escape_no_markup (s : Str) : ∀ c ∈ escape s, c ≠ '<' ∧ c ≠ '>' ∧ c ≠ '"' ∧ c ≠ '\'' := by
  intro c hc
  simp only [escape, List.mem_flatMap] at hc
  obtain ⟨a, _, hc⟩ := hc
  split at hc
  · revert c; decide
  · split at hc
    · revert c; decide
    · split at hc
      · revert c; decide
      · split at hc
        · revert c; decide
        · split at hc
          · revert c; decide
          · simp only [List.mem_singleton] at hc
            subst hc
            simp_all

/-! ## compressed export contains the same document -/

/-- Whatever the target and the `compress` argument, the document a reader gets back from the
output (the plain bytes, or the single member of the archive) is the serialisation of the same
abstract document. -/
theorem compress_same_document {β : Type} (ser : Doc → β) (d : Doc) (t : Target) (c : Option Bool) :
    (write ser d t c).document = some (ser d) := by
  unfold write
  split <;> rfl

/-- An explicit `compress` argument is honoured for every target; without one, exactly the paths
ending in `.reqifz` are compressed. -/
theorem compress_decision (t : Target) :
    (∀ b, compressDecision t (some b) = b) ∧
    compressDecision t none = (match t with | .path p => endsWith p ".reqifz".toList | .stream => false) := by
  refine ⟨fun b => rfl, ?_⟩
  cases t <;> rfl

/-- The decision as coded before the repair ignored an explicit `compress=True`. -/
theorem old_decision_ignores_explicit (t : Target) : compressDecisionOld t (some true) = false := by
  cases t <;> rfl

/-! ## the iteration order of the exporter's sets (`PYTHONHASHSEED`) -/

/-- All theorems of this file hold for every `Module.setOrder`. What the order can change: the custom
attribute definitions of a spec type are, in whatever order the set yields them, a rearrangement of the
definitions first seen under that requirement type — a list that does not mention the order. -/
theorem spec_type_attributes_any_order (m : Module) (t : Option ReqType) :
    (specObjectType m t).custom.Perm ((adefsSeen m (t.map (·.uuid))).map attrDefEl) :=
  custom_attrdefs_perm m t

/-- What it cannot change: the emitted datatype elements. For every module that is exported, a datatype
element is emitted iff it is the element of some collected definition — whichever definition reached
`visited_types` first, identifier, kind, long name and specified values are the same. (The right-hand side
does not mention the order.) -/
theorem datatypes_any_order (m : Module) (hI : Identity m) (hE : hasEnumWithoutDef m = false)
    (hC : hasClassViolation m = false) (d : DatatypeEl) :
    d ∈ customDatatypes m ↔ ∃ x ∈ allAdefsSeen m, datatypeEl x = d := by
  constructor
  · intro hd
    obtain ⟨x, hx, rfl⟩ := List.mem_map.mp (mem_of_mem_dedupBy hd)
    exact ⟨x, mem_allAdefs_iff_seen.mp hx, rfl⟩
  · rintro ⟨x, hx, rfl⟩
    have hx' := mem_allAdefs_iff_seen.mpr hx
    obtain ⟨e, he, hk⟩ := exists_mem_dedupBy (·.key) ((allAdefs m).map datatypeEl) (datatypeEl x)
      (List.mem_map_of_mem hx')
    obtain ⟨y, hy, rfl⟩ := List.mem_map.mp (mem_of_mem_dedupBy he)
    rw [← datatypeEl_determined m hI.dts hE hC hy hx' hk]
    exact he

/-! ## the element tree that is serialised -/

/-- The skeleton of every exported tree: `REQ-IF` holds exactly `THE-HEADER` and `CORE-CONTENT`, in
that order; the header holds one `REQ-IF-HEADER` identified by the model's uuid with the six fields
once each (comment, creation time, tool ids, version `1.1`, title — the metadata values where given, the
module's long name as default title); the content holds the six sections once each, in schema order,
`SPEC-RELATIONS` and `SPEC-RELATION-GROUPS` empty, one element per datatype / spec type (+ the
specification type) / spec object, and one `SPECIFICATION`. -/
theorem tree_skeleton (e : Env) (md : Metadata) (m : Module) (d : Doc) :
    d.toXml (header e md m) =
      .el (tg "REQ-IF") [((tg "xsi:schemaLocation"), schemaLocation)] none
        [wrapEl (tg "THE-HEADER")
          [.el (tg "REQ-IF-HEADER") [(sIDENTIFIER, '_' :: d.headerUuid)] none
            [textEl (tg "COMMENT") (md.comment.getD e.defaultComment),
             textEl (tg "CREATION-TIME") (md.creationTime.getD e.now),
             textEl (tg "REQ-IF-TOOL-ID") e.toolId,
             textEl (tg "REQ-IF-VERSION") "1.1".toList,
             textEl (tg "SOURCE-TOOL-ID") e.sourceToolId,
             textEl (tg "TITLE") (md.title.getD m.longName)]],
         wrapEl (tg "CORE-CONTENT")
          [wrapEl (tg "REQ-IF-CONTENT")
            [wrapEl (tg "DATATYPES") (d.datatypes.map (DatatypeEl.toXml (md.creationTime.getD e.now))),
             wrapEl (tg "SPEC-TYPES") (d.specTypes.map (SpecTypeEl.toXml (md.creationTime.getD e.now))
               ++ [d.specificationType.toXml (md.creationTime.getD e.now)]),
             wrapEl (tg "SPEC-OBJECTS") (d.specObjects.map (SpecObjectEl.toXml (md.creationTime.getD e.now))),
             wrapEl (tg "SPEC-RELATIONS") [],
             wrapEl (tg "SPECIFICATIONS") [d.specification.toXml (md.creationTime.getD e.now)],
             wrapEl (tg "SPEC-RELATION-GROUPS") []]]] :=
  rfl

/-- Every element of the tree that is identifiable in ReqIF (datatype and attribute definitions, enum
values, spec types, spec objects, the specification, hierarchy entries, the header) carries an
`IDENTIFIER`; every identified element except the header carries `LAST-CHANGE`, and its value is the
header's creation time; no other element carries either attribute. -/
theorem tree_identified (h : HeaderEl) (d : Doc) : (d.toXml h).all (identCheck h.creationTime) = true :=
  Doc.toXml_all h d

/-- Scanning the tree for `IDENTIFIER` attributes yields, in document order, exactly the rendered
identifiers `Doc.defs` the theorems above speak about. -/
theorem tree_identifiers (h : HeaderEl) (d : Doc) : (d.toXml h).idents = d.defs.map Ident.render :=
  Doc.toXml_idents h d

/-- Scanning the tree for elements whose tag ends in `-REF` yields, in document order, exactly the
rendered references `Doc.refs` (for every document whose simple values carry no enumeration references,
which holds for every document the model builds). -/
theorem tree_references (x : Str → Option Str) (m : Module) (h : HeaderEl) :
    ((doc x m).toXml h).refTexts = (doc x m).refs.map Ident.render :=
  Doc.toXml_refTexts h _ (doc_valuesShaped x m)

/-- Closed, on the tree: the text of every `*-REF` element of an exported tree is the `IDENTIFIER`
attribute of an element of the same tree. -/
theorem tree_refs_closed (x : Str → Option Str) (e : Env) (md : Metadata) (m : Module) (t : Xml)
    (h : exportXml x e md m = .ok t) (hI : Identity m) (hT : Typed m) : ∀ s ∈ t.refTexts, s ∈ t.idents := by
  unfold exportXml at h
  split at h
  · cases h
  · next d hd =>
    cases h
    have hdoc := export_eq_doc x m d hd
    subst hdoc
    intro s hs
    rw [tree_references] at hs
    rw [tree_identifiers]
    obtain ⟨i, hi, rfl⟩ := List.mem_map.mp hs
    exact List.mem_map.mpr ⟨i, refs_closed x m _ hd hI hT i hi, rfl⟩

/-- Unique, on the tree: the `IDENTIFIER` attribute values of an exported tree are pairwise distinct
strings. -/
theorem tree_ids_unique (x : Str → Option Str) (e : Env) (md : Metadata) (m : Module) (t : Xml)
    (h : exportXml x e md m = .ok t) (hI : Identity m) (hS : UuidShaped m) : t.idents.Nodup := by
  unfold exportXml at h
  split at h
  · cases h
  · next d hd =>
    cases h
    rw [tree_identifiers]
    exact id_strings_unique x m d hd hI hS

/-- The tree exists exactly when the abstract export succeeds, and then it is the tree of `doc x m`
under the header built from the metadata. -/
theorem tree_of_export (x : Str → Option Str) (e : Env) (md : Metadata) (m : Module)
    (hx : (x emptyDiv).isSome = true) (hdiv : ∀ s, (x (wrapDiv s)).isSome = true) (hE : hasEnumWithoutDef m = false)
    (hC : hasClassViolation m = false) :
    exportXml x e md m = .ok ((doc x m).toXml (header e md m)) := by
  unfold exportXml
  rw [export_total_partial x m hx hdiv hE hC]

/-! ## the theorems are not vacuous -/

section examples

private def dt : DataType :=
  { uuid := "d1".toList, longName := "E".toList,
    values := [{ uuid := "e1".toList, longName := "a".toList, description := [] },
               { uuid := "e2".toList, longName := "b".toList, description := [] }] }
private def ad : AttrDef :=
  { uuid := "a1".toList, longName := "Sel".toList, description := [], isEnum := true,
    multiValued := true, dataType := some dt }
private def rt : ReqType := { uuid := "t1".toList, longName := "T".toList, description := [] }
private def r1 : Req :=
  { uuid := "r1".toList, longName := "one".toList, identifier := "ID".toList, chapterName := [],
    name := "a<b".toList, text := [], type := some rt,
    attrs := [{ defn := some ad, value := .enum ["e2".toList, "e1".toList] },
              { defn := none, value := .string "s".toList }] }
private def r2 : Req :=
  { uuid := "r2".toList, longName := [], identifier := [], chapterName := [], name := [], text := [],
    type := none, attrs := [{ defn := none, value := .string "t".toList }, { defn := none, value := .int (-5) }] }
private def r3 : Req := { r2 with uuid := "r3".toList, type := some rt }
private def m0 : Module :=
  { modelUuid := "mm".toList, uuid := "m0".toList, longName := "M".toList, description := [],
    type := none, reqs := [r1], folders := [.mk [r2] [.mk [r3] []], .mk [] []] }
private def conv : Str → Option Str := fun s => some s

/-- a module with nested folders, a typed and an untyped requirement, attributes with and without
definition under two types, an enumeration with two choices: it is exported, -/
example : «export» conv m0 = .ok (doc conv m0) :=
  export_total_partial conv m0 rfl (fun _ => rfl) (by decide) (by decide)
/-- its depth-first order is r1, r2, r3, -/
example : m0.dfs.map (·.uuid) = ["r1".toList, "r2".toList, "r3".toList] := by decide
/-- it has references, all defined, -/
example : (doc conv m0).refs.length = 42 ∧ (doc conv m0).refs.all (fun i => (doc conv m0).defs.contains i) = true := by
  decide
/-- and its 35 identifiers are distinct, as strings too; -/
example : ((doc conv m0).defs.map Ident.render).length = 35 ∧ ((doc conv m0).defs.map Ident.render).Nodup := by
  decide
/-- the hypotheses of the theorems hold for it (object identity by uuid; enumeration typing), -/
example : Identity m0 := ⟨by decide, by decide, by decide⟩
private def m0Typed : Typed m0 := by
  intro r hr a ha vs d hv hd
  have hr' : r = r1 ∨ r = r2 ∨ r = r3 := by
    have : m0.dfs = [r1, r2, r3] := by decide
    simpa [this] using hr
  rcases hr' with rfl | rfl | rfl
  · simp only [r1, List.mem_cons, List.not_mem_nil, or_false] at ha
    rcases ha with rfl | rfl
    · simp only [Option.some.injEq, Value.enum.injEq] at hd hv
      subst hd hv
      exact ⟨rfl, by decide⟩
    · cases hv
  · simp only [r2, List.mem_cons, List.not_mem_nil, or_false] at ha
    rcases ha with rfl | rfl <;> cases hv
  · simp only [r3, r2, List.mem_cons, List.not_mem_nil, or_false] at ha
    rcases ha with rfl | rfl <;> cases hv
example : Typed m0 := m0Typed
/-- so the theorems apply to it: all of its references resolve and its identifiers are distinct, -/
example : (∀ i ∈ (doc conv m0).refs, i ∈ (doc conv m0).defs) ∧ (doc conv m0).defs.Nodup :=
  have hI : Identity m0 := ⟨by decide, by decide, by decide⟩
  have hx := export_total_partial conv m0 rfl (fun _ => rfl) (by decide) (by decide)
  ⟨refs_closed conv m0 _ hx hI m0Typed, ids_unique conv m0 _ hx hI⟩
/-- its uuids are shaped once they look like uuids (here: a variant with hex-and-dash uuids), -/
example : Ident.Shaped (.attrDef (some "0A-1".toList) none .string) ∧
    (Ident.attrDef (some "0A-1".toList) none .string).render
      = "_NULL-ATTRIBUTE-DEFINITION.0A-1--STRING".toList := by
  constructor
  · exact ⟨fun s hs => by cases hs; unfold UuidLike; decide, fun s hs => by cases hs⟩
  · decide
/-- the markup character of the plain-text name is escaped before conversion, -/
example : ((specObject conv r1).std.map (·.theValue))[2]? = some (some "a&lt;b".toList) := by decide
/-- and the integer value reads back. -/
example : Value.decode .integer (Value.int (-5)).render [] = some (.int (-5)) :=
  Value.decode_render (.int (-5)) trivial

/-- the tree of the example module: 35 identifiers and 42 references found by the generic scans, every
reference text is an identifier text, the check of identified elements holds -/
example : ((doc conv m0).toXml (header ⟨"c".toList, "2020-01-01T00:00:00Z".toList, "t".toList, "s".toList⟩ ⟨none, none, none⟩ m0)).idents.length = 35
    ∧ ((doc conv m0).toXml (header ⟨"c".toList, "2020-01-01T00:00:00Z".toList, "t".toList, "s".toList⟩ ⟨none, none, none⟩ m0)).refTexts.length = 42 := by
  rw [tree_identifiers, tree_references]
  simp only [List.length_map]
  decide

/-- an order that reverses every set is a legal `setOrder`; the example module under it is exported, closed
and unique as well, and the custom definitions of type `t1` come out in the other order -/
private def m0r : Module := { m0 with setOrder := fun _ l => l.reverse, setOrder_perm := fun _ l => List.reverse_perm l }
example : (specObjectType m0r (some rt)).custom = (specObjectType m0 (some rt)).custom.reverse
    ∧ (specObjectType m0 (some rt)).custom.length = 3 := by decide
example : (doc conv m0r).refs.all (fun i => (doc conv m0r).defs.contains i) = true
    ∧ ((doc conv m0r).defs.map Ident.render).Nodup := by decide

end examples

end Capella.Props.C20
