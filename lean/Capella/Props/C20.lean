import Capella.Model.Reqif

namespace Capella.Props.C20
open Capella.Reqif

/-- Compressed export contains the same document: whatever the target and the `compress` argument,
the document a reader gets back from the output is the serialisation of the same abstract document. -/
theorem compress_same_document {β : Type} (ser : Doc → β) (d : Doc) (t : Target) (c : Option Bool) :
    (write ser d t c).document = some (ser d) := by
  unfold write
  split <;> rfl

end Capella.Props.C20
