import Capella.Props.C01
import Capella.Lemmas.XmlEdit
import Capella.Lemmas.XmlNsUpdate
import Capella.Lemmas.XmlEmpty
import Capella.Gen.Ns

/-!
# C02 — a saved model reloads to exactly what was in memory

Property theorems only.  The writer and the reader are those of C01 (`Model/Xml.lean`,
`Model/XmlParse.lean`), repaired where a counter-example of this property showed (text `]]>`,
white-space-only text).  The tree edits of the object layer are `Model/XmlEdit.lean`; what the
descriptors of the object layer do to the tree is observed at every `save()` of the random API
histories in `harness/props/c02.py`, not modelled here.
-/
namespace Capella.Props.C02
open Capella.Xml

/-- **`save_reload`**: whatever `ModelFile.write_xml` writes for a Capella-shaped in-memory
document — semantic (80 columns), visual or metadata fragment — reads back as that document in
file order … -/
theorem save_reload (k : FragKind) (d : Doc) (hwf : wfDoc d = true) :
    parse (writeXml k d) = some (canonDoc d) :=
  Capella.Props.C01.parse_writeXml k d hwf

/-- … and the file order carries exactly the information that was in memory: same elements in the
same order, same tag, text and tail, the same attributes and namespace declarations (as sets). -/
theorem reload_info_equal (k : FragKind) (d : Doc) (hwf : wfDoc d = true) :
    ∃ d', parse (writeXml k d) = some d' ∧ InfoEqDoc d' d :=
  ⟨canonDoc d, save_reload k d hwf, canonDoc_infoEq d hwf⟩

/-- **The saved bytes identify the document**: two Capella-shaped in-memory documents that save to the same
bytes (as whatever kinds of fragment) are the same document up to the order-insensitive parts (`canonDoc`) —
saving never merges two different states into one file content. -/
theorem saved_bytes_identify_document (k k' : FragKind) (d d' : Doc)
    (hwf : wfDoc d = true) (hwf' : wfDoc d' = true) (h : writeXml k d = writeXml k' d') :
    canonDoc d = canonDoc d' := by
  have h1 := save_reload k d hwf
  have h2 := save_reload k' d' hwf'
  rw [h] at h1
  rw [h1] at h2
  exact Option.some.inj h2

/-- No accepted tree edit leads out of the Capella-shaped documents: setting an attribute with a
declared name to **any** XML-legal string, deleting an attribute, setting the text of a childless
element to any non-empty XML-legal string (white space included), inserting a well-formed child
below an element without text, removing a child. -/
theorem edit_keeps_shape (ed : Edit) (d : Doc) (hwf : wfDoc d = true) (hok : ed.ok d = true) :
    wfDoc (ed.apply d) = true :=
  edit_preserves_wf ed d hwf hok

/-- **`history_save_reload`**: after any finite history of accepted edits, saving and reloading
yields a document that is information-equal to the one in memory — for every fragment kind. -/
theorem history_save_reload (k : FragKind) (es : List Edit) (d : Doc) (hwf : wfDoc d = true)
    (hok : okAll es d = true) :
    ∃ d', parse (writeXml k (applyAll es d)) = some d' ∧ InfoEqDoc d' (applyAll es d) :=
  reload_info_equal k _ (history_preserves_wf es d hwf hok)

/-- Several save–edit–save rounds: `save()` does not replace the in-memory trees, so every save
point sees a prefix of the history — and each of them reloads to what was in memory then. -/
theorem every_save_point (k : FragKind) (es₁ es₂ : List Edit) (d : Doc) (hwf : wfDoc d = true)
    (hok : okAll (es₁ ++ es₂) d = true) :
    (∃ d', parse (writeXml k (applyAll es₁ d)) = some d' ∧ InfoEqDoc d' (applyAll es₁ d)) ∧
    (∃ d', parse (writeXml k (applyAll (es₁ ++ es₂) d)) = some d' ∧
      InfoEqDoc d' (applyAll (es₁ ++ es₂) d)) := by
  rw [okAll_append, Bool.and_eq_true] at hok
  refine ⟨history_save_reload k es₁ d hwf hok.1, ?_⟩
  exact history_save_reload k (es₁ ++ es₂) d hwf (by rw [okAll_append, hok.1, hok.2]; rfl)

/-- Attribute values are unconstrained: every XML-legal string survives `set` + save + reload
(instance of the above spelled out for one attribute on the root). -/
theorem any_legal_string_survives (k : FragKind) (d : Doc) (hwf : wfDoc d = true) (name v : Str)
    (hok : (Edit.setAttr [] name v).ok d = true) :
    ∃ d', parse (writeXml k ((Edit.setAttr [] name v).apply d)) = some d' ∧
      InfoEqDoc d' ((Edit.setAttr [] name v).apply d) :=
  history_save_reload k [Edit.setAttr [] name v] d hwf (by simp [okAll, hok])


/-! ## The namespace map is recomputed before every save (`update_namespaces`)

`updateNs` (`Model/XmlNsUpdate.lean`) mirrors `ModelFile.update_namespaces` over the plugin table that is
generated from the live `NAMESPACES_PLUGINS` on every run (`Gen/Ns.lean`); the facts about the table the
proofs need are kernel-checked there (`rows_ok`, `init_ok`). -/

open Capella.Gen.Ns in
/-- the live plugin table satisfies what the theorems below assume of a table -/
theorem live_table_ok : TableOk Capella.Gen.Ns.plugins := ⟨rows_ok, init_ok⟩

/-- **Declared = used.**  After `update_namespaces` the root declares `xmi`, `xsi` and exactly the
bindings some element of the tree asks for (its type's prefix with the URI of the plugin at the activated
viewpoint version, or — for a prefix the table does not know — with the URI the element sees): nothing
that is asked for is missing, nothing else is declared, and no prefix is declared twice. -/
theorem update_declares_exactly (vps : List (Str × Str)) (d d' : Doc)
    (h : updateNs Capella.Gen.Ns.plugins vps d = .ok d') (hd : (keysOf d.root.nsdecls).Nodup) :
    (∀ b, b ∈ d'.root.nsdecls ↔ b ∈ nsInit ∨ Asked Capella.Gen.Ns.plugins vps (iterS [] d.root) b) ∧
    (keysOf d'.root.nsdecls).Nodup := by
  obtain ⟨n, hn, hmem⟩ := updateNs_decls _ vps d d' h
  refine ⟨fun b => ?_, updateNs_decls_nodup _ vps d d' h hd⟩
  rw [hmem b]
  exact scanGo_mem _ vps _ nsInit n hn b

/-- **Idempotence.**  Updating the namespaces of an updated document changes nothing — in particular a
second `save()` without edits in between serialises the very same trees. -/
theorem update_idempotent (vps : List (Str × Str)) (d d' : Doc)
    (h : updateNs Capella.Gen.Ns.plugins vps d = .ok d') :
    updateNs Capella.Gen.Ns.plugins vps d' = .ok d' :=
  updateNs_idem _ vps live_table_ok.init d d' h

/-- **Only the declarations change.**  On a document whose root carries no text and no tail and which has
at most one comment behind the root, the comments without tails (every parsed file), `update_namespaces`
leaves the comments, the
root's tag, attributes and children — the whole element tree — as they are; only the root's namespace
declarations may differ. -/
theorem update_only_declarations (vps : List (Str × Str)) (d d' : Doc)
    (h : updateNs Capella.Gen.Ns.plugins vps d = .ok d')
    (htext : d.root.text = none) (htail : d.root.tail = none) (hpost : d.post.length ≤ 1)
    (hct : ∀ c ∈ d.pre ++ d.post, c.tail = none) :
    d'.pre = d.pre ∧ d'.post = d.post ∧
      ∃ nsd', d'.root = .mk d.root.tag nsd' d.root.attrs d.root.text d.root.tail d.root.kids := by
  obtain ⟨n, _, hcase⟩ := updateNs_shape _ vps d d' h
  obtain ⟨pre, root, post⟩ := d
  obtain ⟨tag, nsd, attrs, text, tail, kids⟩ := root
  simp only [Elem.text, Elem.tail] at htext htail
  subst htext htail
  rcases hcase with ⟨_, rfl⟩ | ⟨_, _, _, rfl⟩
  · exact ⟨rfl, rfl, nsd, rfl⟩
  · refine ⟨map_dropTail_of_ok (fun c hc => hct c (List.mem_append_left _ hc)), ?_, sortKV n, rfl⟩
    simp only
    rw [reverse_short post hpost]
    exact map_dropTail_of_ok (fun c hc => hct c (List.mem_append_right _ hc))

/-- **What `save()` serialises is Capella-shaped**: `update_namespaces` maps Capella-shaped documents to
Capella-shaped documents (viewpoint versions free of markup characters; the computed declarations bind one
prefix per URI — which can only fail if an unknown prefix is bound to the URI of a known plugin). -/
theorem update_keeps_shape (vps : List (Str × Str)) (hv : VpsOk vps) (d d' : Doc) (hwf : wfDoc d = true)
    (h : updateNs Capella.Gen.Ns.plugins vps d = .ok d')
    (huniq : (d'.root.nsdecls.map (·.2)).Nodup) : wfDoc d' = true :=
  updateNs_wf _ vps live_table_ok hv d d' hwf h huniq

/-- **`history_update_save_reload`** — the whole of `save()`: after any finite history of accepted edits the
namespaces are recomputed, the result is written and read back; what is read back is information-equal
to the (updated) document in memory. -/
theorem history_update_save_reload (k : FragKind) (vps : List (Str × Str)) (hv : VpsOk vps) (es : List Edit)
    (d d' : Doc) (hwf : wfDoc d = true) (hok : okAll es d = true)
    (h : updateNs Capella.Gen.Ns.plugins vps (applyAll es d) = .ok d')
    (huniq : (d'.root.nsdecls.map (·.2)).Nodup) :
    ∃ d'', parse (writeXml k d') = some d'' ∧ InfoEqDoc d'' d' :=
  reload_info_equal k d' (update_keeps_shape vps hv _ d' (history_preserves_wf es d hwf hok) h huniq)

/-! ### Fragment placeholders ask like every other element

A fragmented model keeps, in the parent file, a placeholder `<tag xsi:type="p:T" href="file#id"/>` for the element
that lives in its own fragment file.  The type on the placeholder is written into the parent file, so its prefix has
to be declared there — also when no other element of the file uses that namespace (the main `.capella` of a project
fragmented per architecture layer).  Replayed on the implementation by `harness/props/xml_ns.py` (`ns.witness`,
`ns.history` with placeholder edits) and on fragmented API histories by `harness/props/c02.py` (`ns.api`). -/

/-- **Nothing that is asked for is missing — whoever asks.**  Every binding any element of the tree asks for is
declared on the root after `update_namespaces`; no property of the asking element (children, attributes, an
`href`) exempts it. -/
theorem every_asker_declared (vps : List (Str × Str)) (d d' : Doc)
    (h : updateNs Capella.Gen.Ns.plugins vps d = .ok d') (hd : (keysOf d.root.nsdecls).Nodup)
    (x : Item) (hx : x ∈ iterS [] d.root) (b : Str × Str)
    (hw : wanted Capella.Gen.Ns.plugins vps x.1 x.2.1 x.2.2 = .ok (some b)) :
    b ∈ d'.root.nsdecls :=
  ((update_declares_exactly vps d d' h hd).1 b).2 (Or.inr ⟨x, hx, hw⟩)

/-- **The type on a fragment placeholder is declared in the file that holds the placeholder.** -/
theorem placeholder_type_declared (vps : List (Str × Str)) (d d' : Doc)
    (h : updateNs Capella.Gen.Ns.plugins vps d = .ok d') (hd : (keysOf d.root.nsdecls).Nodup)
    (x : Item) (hx : x ∈ iterS [] d.root) (_hp : isPlaceholder x = true) (b : Str × Str)
    (hw : wanted Capella.Gen.Ns.plugins vps x.1 x.2.1 x.2.2 = .ok (some b)) :
    b ∈ d'.root.nsdecls :=
  every_asker_declared vps d d' h hd x hx b hw

/-- the main file of a project whose Operational Analysis layer lives in its own fragment: the only element of the
`oa` package left in the file is the placeholder.  The root still declares every namespace the unfragmented
file declared (as Capella / `harness/fragmenter.py` leave it), one of them (`zz`) unused. -/
def layerPlaceholderDoc : Doc :=
  ⟨[⟨"Capella_Version_5.0.0".toList, none⟩],
   .mk (clark "http://www.polarsys.org/capella/core/modeller/5.0.0".toList "Project".toList)
     [("xmi".toList, XMI), ("xsi".toList, XSI),
      ("org.polarsys.capella.core.data.capellamodeller".toList, "http://www.polarsys.org/capella/core/modeller/5.0.0".toList),
      ("org.polarsys.capella.core.data.oa".toList, "http://www.polarsys.org/capella/core/oa/5.0.0".toList),
      ("zz".toList, "http://zz".toList)]
     [(clark XMI "version".toList, "2.0".toList), ("id".toList, "p".toList)] none none
     [.mk "ownedModelRoots".toList []
        [(attXT, "org.polarsys.capella.core.data.capellamodeller:SystemEngineering".toList), ("id".toList, "se".toList)] none none
        [.mk "ownedArchitectures".toList []
           [(attXT, "org.polarsys.capella.core.data.oa:OperationalAnalysis".toList),
            ("href".toList, "fragments/OA.capellafragment#oa".toList)] none none []]],
   []⟩

def layerVps : List (Str × Str) := [("org.polarsys.capella.core.viewpoint".toList, "5.0.0".toList)]

/-- the root is replaced (the unused `zz` goes) and the namespace of the type that only the placeholder carries
stays declared, with the URI of the activated viewpoint version; every type prefix of the written file is declared -/
theorem layer_placeholder_keeps_its_namespace :
    (match updateNs Capella.Gen.Ns.plugins layerVps layerPlaceholderDoc with
     | .ok d' =>
        (d'.root.nsdecls.map (·.1)) ==
          ["org.polarsys.capella.core.data.capellamodeller".toList, "org.polarsys.capella.core.data.oa".toList,
           "xmi".toList, "xsi".toList] &&
        lookupNs "org.polarsys.capella.core.data.oa".toList d'.root.nsdecls
          == some "http://www.polarsys.org/capella/core/oa/5.0.0".toList &&
        typePrefixesDeclared Capella.Gen.Ns.plugins d' && Elem.beqL d'.root.kids layerPlaceholderDoc.root.kids
     | .error _ => false) = true := by
  decide +kernel

/-- **Placeholders have to be scanned.**  A collection that takes the used namespaces from the non-placeholder
elements only (one representative per type out of an index that hides placeholders) is *not* equivalent to the
walk over the tree: on the layer-fragmented main file it loses the `oa` namespace, which the file still uses. -/
theorem placeholders_must_be_scanned :
    (match newNsmap Capella.Gen.Ns.plugins layerVps layerPlaceholderDoc.root,
           newNsmapSkippingPlaceholders Capella.Gen.Ns.plugins layerVps layerPlaceholderDoc.root with
     | .ok n, .ok n' =>
        (lookupNs "org.polarsys.capella.core.data.oa".toList n).isSome &&
        (lookupNs "org.polarsys.capella.core.data.oa".toList n').isNone
     | _, _ => false) = true := by
  decide +kernel

/-! ### The boundary of the namespace theorems (witnesses, replayed on the implementation by
`harness/props/xml_ns.py`, stream `ns.witness`) -/

/-- the full statement one would like: after the update *every* type prefix occurring in the tree is
declared on the root -/
def update_declares_all_full : Prop :=
  ∀ (vps : List (Str × Str)) (d : Doc),
    (match updateNs Capella.Gen.Ns.plugins vps d with
     | .ok d' => typePrefixesDeclared Capella.Gen.Ns.plugins d'
     | .error _ => true) = true

/-- a type prefix that is neither a known plugin nor declared where it is used -/
def undeclaredWitness : Doc :=
  ⟨[], .mk "a".toList [("xmi".toList, XMI), ("xsi".toList, XSI), ("zz".toList, "http://zz".toList)] [] none none
    [.mk "k".toList [] [(attXT, "yy:R".toList)] none none []], []⟩

/-- … does not hold: an unknown, undeclared prefix is skipped ("Undefined and unknown namespace" in the
log) and the file is written with it.  `update_declares_exactly` is the part that holds (every binding an
element *can* ask for is declared). -/
theorem update_declares_all_full_fails : ¬ update_declares_all_full := by
  intro h
  have := h [] undeclaredWitness
  revert this
  decide +kernel

/-- the text of a root that has to be replaced is not copied (`makeelement` + `extend`) -/
theorem root_text_lost_on_replace :
    let d : Doc := ⟨[], .mk "a".toList [("xmi".toList, XMI), ("xsi".toList, XSI), ("zz".toList, "http://zz".toList)]
      [] (some "hello".toList) none [], []⟩
    wfDoc d = true ∧ (match updateNs Capella.Gen.Ns.plugins [] d with
      | .ok d' => d'.root.text == none && d'.root.nsdecls == [("xmi".toList, XMI), ("xsi".toList, XSI)]
      | .error _ => false) = true := by
  decide +kernel

/-- comments behind a replaced root come back in reverse order (`addnext` in a forward loop) -/
theorem trailing_comments_reversed :
    let d : Doc := ⟨[⟨"A".toList, none⟩, ⟨"B".toList, none⟩],
      .mk "a".toList [("xmi".toList, XMI), ("xsi".toList, XSI), ("zz".toList, "http://zz".toList)] [] none none [],
      [⟨"C".toList, none⟩, ⟨"D".toList, none⟩]⟩
    (match updateNs Capella.Gen.Ns.plugins [] d with
      | .ok d' => d'.pre == d.pre && d'.post == [⟨"D".toList, none⟩, ⟨"C".toList, none⟩]
      | .error _ => false) = true := by
  decide +kernel

/-- a versioned plugin whose viewpoint is not activated makes `save()` raise before anything is written -/
theorem missing_viewpoint_refused :
    let d : Doc := ⟨[], .mk "a".toList [("xmi".toList, XMI), ("xsi".toList, XSI)] [] none none
      [.mk "k".toList [] [(attXT, "re:CatalogElement".toList)] none none []], []⟩
    (match updateNs Capella.Gen.Ns.plugins [] d with | .error .viewpointMissing => true | _ => false) = true ∧
    (match updateNs Capella.Gen.Ns.plugins [("org.polarsys.capella.core.viewpoint".toList, "".toList)] d with
      | .error .viewpointMissing => true | _ => false) = true := by
  decide +kernel


/-! ## Empty-string texts (what the object layer really writes)

The edit link of `harness/props/c02.py` (every observed API step as a script of modelled edits) showed that the
object layer sets `element.text = ""` — e.g. a specification body set to `""` —, which the contract
`Edit.ok` above excludes.  `""` and "no text" are the same XML information (`<bodies></bodies>`); the
theorems below widen the domain accordingly: `wfDocE` = Capella-shaped up to `""` texts, `Edit.okE` = the
contract up to `""` texts, `dropDoc` = every `""` read as "no text".  On documents without `""` texts they
say what the theorems above say (`strict_domain_is_special_case`). -/

/-- **`save_reload` up to empty texts**: what `write_xml` writes for a document that is Capella-shaped up to
`""` texts reads back as that document with every `""` text replaced by "no text", in file order. -/
theorem save_reload_empty (k : FragKind) (d : Doc) (hwf : wfDocE d = true) :
    parse (writeXml k d) = some (canonDoc (dropDoc d)) :=
  parse_writeXmlE k d hwf

/-- … which carries exactly the information that was in memory (`""` ≡ no text). -/
theorem reload_info_equal_empty (k : FragKind) (d : Doc) (hwf : wfDocE d = true) :
    ∃ d', parse (writeXml k d) = some d' ∧ InfoEqDoc d' (dropDoc d) :=
  ⟨canonDoc (dropDoc d), save_reload_empty k d hwf, canonDoc_infoEq (dropDoc d) (wfDoc_drop hwf)⟩

/-- every edit the widened contract accepts (now including `element.text = ""` on a childless element and
inserted subtrees containing such texts) keeps a document in the widened domain -/
theorem edit_keeps_shape_empty (ed : Edit) (d : Doc) (hwf : wfDocE d = true) (hok : ed.okE d = true) :
    wfDocE (ed.apply d) = true :=
  edit_preserves_wfE ed d hwf hok

/-- **`history_save_reload` for what the API really does**: after any finite history of edits accepted by the
widened contract, save + reload gives a document information-equal to memory up to `""` ≡ no text. -/
theorem history_save_reload_empty (k : FragKind) (es : List Edit) (d : Doc) (hwf : wfDocE d = true)
    (hok : okAllE es d = true) :
    ∃ d', parse (writeXml k (applyAll es d)) = some d' ∧ InfoEqDoc d' (dropDoc (applyAll es d)) :=
  reload_info_equal_empty k _ (history_preserves_wfE es d hwf hok)

/-- the theorems of the first part are the special case of documents without `""` texts -/
theorem strict_domain_is_special_case (d : Doc) (hwf : wfDoc d = true) : wfDocE d = true ∧ dropDoc d = d :=
  wfDocE_of_wfDoc hwf

/-- **Observed steps compose.**  The harness checks every single API step of a history (script `esᵢ` leads
from the tree before to the tree after, and `okAllE esᵢ` holds there); then the concatenation of the
scripts is an accepted history of the initial document leading to the final one — the hypothesis of
`history_save_reload_empty` is what was checked, step by step. -/
theorem observed_steps_compose (steps : List (List Edit)) (d : Doc) (h : okSteps steps d = true) :
    okAllE steps.flatten d = true := by
  induction steps generalizing d with
  | nil => rfl
  | cons s rest ih =>
    simp only [okSteps, Bool.and_eq_true] at h
    rw [List.flatten_cons, okAllE_append, Bool.and_eq_true]
    exact ⟨h.1, ih (applyAll s d) h.2⟩

/-! ## The boundary (what an edit must not do, with witnesses) -/

/-- Setting the text to the empty string leaves the domain: it reloads as "no text" (the same XML
information, a different lxml value). -/
theorem empty_text_not_shaped :
    let d : Doc := ⟨[], .mk "bodies".toList [] [] none none [], []⟩
    wfDoc d = true ∧ (Edit.setText [] (some [])).ok d = false ∧
      (parse (writeXml .semantic ((Edit.setText [] (some [])).apply d))).map (·.root.text) = some none := by
  decide

/-- Text on an element that has children (mixed content) is refused by `Edit.ok`; the writer would
drop the children's tails. -/
theorem mixed_content_refused :
    let d : Doc := ⟨[], .mk "a".toList [] [] none none [.mk "b".toList [] [] none none []], []⟩
    wfDoc d = true ∧ (Edit.setText [] (some "t".toList)).ok d = false := by
  decide

/-! ## Non-vacuity -/

def base : Doc :=
  ⟨[⟨"Capella_Version_6.0.0".toList, none⟩],
   .mk (clark "http://c/m".toList "Project".toList)
     [("xmi".toList, XMI), ("xsi".toList, XSI), ("m".toList, "http://c/m".toList)]
     [(clark XMI "version".toList, "2.0".toList), ("id".toList, "r".toList)] none none
     [.mk "ownedX".toList [] [("id".toList, "x".toList)] none none
        [.mk "bodies".toList [] [] (some "b".toList) none []]],
   []⟩

/-- a history: rename with every kind of awkward character, white-space-only body, a new child
with an `xsi:type`, delete an attribute, remove a child -/
def hist : List Edit :=
  [.setAttr [0] "name".toList "a<b>&\"'\t\n\r]]> \u0085 ".toList,
   .setText [0, 0] (some " \n ".toList),
   .insertKid [] 1 (.mk "ownedY".toList [] [(clark XSI "type".toList, "m:T".toList), ("id".toList, "y".toList)] none none []),
   .delAttr [] "id".toList,
   .removeKid [0] 0]

example : wfDoc base = true := by decide
example : okAll hist base = true := by decide
example : Doc.beq (applyAll hist base) base = false := by decide
example : ∃ d', parse (writeXml .semantic (applyAll hist base)) = some d' ∧ InfoEqDoc d' (applyAll hist base) :=
  history_save_reload .semantic hist base (by decide) (by decide)

/-! ### Non-vacuity of the empty-text theorems -/

/-- a history that sets a body to `""` (as the object layer does) and inserts a child with an empty body -/
def histE : List Edit :=
  [.setText [0, 0] (some []),
   .insertKid [] 1 (.mk "ownedY".toList [] [("id".toList, "y".toList)] none none
      [.mk "bodies".toList [] [] (some []) none []]),
   .setAttr [1] "name".toList "n".toList]

example : okAll histE base = false := by decide
example : okAllE histE base = true := by decide
example : wfDoc (applyAll histE base) = false ∧ wfDocE (applyAll histE base) = true := by decide
example : Doc.beq (dropDoc (applyAll histE base)) (applyAll histE base) = false := by decide
example : ∃ d', parse (writeXml .semantic (applyAll histE base)) = some d' ∧ InfoEqDoc d' (dropDoc (applyAll histE base)) :=
  history_save_reload_empty .semantic histE base (by decide) (by decide)

/-! ### Non-vacuity of the namespace theorems -/

/-- a root that declares an unused namespace and lacks two that new elements need (one plugin without a
version, one whose URI carries the rounded viewpoint version) -/
def nsBase : Doc :=
  ⟨[⟨"Capella_Version_6.0.0".toList, none⟩],
   .mk "Project".toList
     [("xmi".toList, XMI), ("xsi".toList, XSI), ("zz".toList, "http://zz".toList)]
     [(clark XMI "version".toList, "2.0".toList), ("id".toList, "r".toList)] none none
     [.mk "ownedExtensions".toList [] [(attXT, "Requirements:Requirement".toList), ("id".toList, "q".toList)] none none [],
      .mk "ownedX".toList [] [(attXT, "re:CatalogElement".toList)] none none []],
   []⟩

def nsVps : List (Str × Str) := [("org.polarsys.capella.core.viewpoint".toList, "6.1.2".toList)]

def nsAfter : Doc :=
  ⟨nsBase.pre,
   .mk nsBase.root.tag
     [("Requirements".toList, "http://www.polarsys.org/kitalpha/requirements".toList),
      ("re".toList, "http://www.polarsys.org/capella/common/re/6.0.0".toList),
      ("xmi".toList, XMI), ("xsi".toList, XSI)]
     nsBase.root.attrs none none nsBase.root.kids, []⟩

example : wfDoc nsBase = true := by decide +kernel
example : (match updateNs Capella.Gen.Ns.plugins nsVps nsBase with | .ok d' => Doc.beq d' nsAfter | .error _ => false) = true := by
  decide +kernel
example : wfDoc nsAfter = true := by decide +kernel
example : VpsOk nsVps := by
  intro kv hkv c hc
  simp only [nsVps, List.mem_singleton] at hkv
  subst hkv
  revert c
  decide
example : TableOk Capella.Gen.Ns.plugins := live_table_ok
/-- the placeholder of `layerPlaceholderDoc` is an element of the walk, is a placeholder, and asks for `oa` -/
example : ∃ x ∈ iterS [] layerPlaceholderDoc.root, isPlaceholder x = true ∧
    wanted Capella.Gen.Ns.plugins layerVps x.1 x.2.1 x.2.2 =
      .ok (some ("org.polarsys.capella.core.data.oa".toList, "http://www.polarsys.org/capella/core/oa/5.0.0".toList)) :=
  ⟨(iterS [] layerPlaceholderDoc.root)[2]!, by decide +kernel, by decide +kernel, by rfl⟩
example : wfDoc layerPlaceholderDoc = true := by decide +kernel
example : (keysOf layerPlaceholderDoc.root.nsdecls).Nodup := by decide +kernel


end Capella.Props.C02
