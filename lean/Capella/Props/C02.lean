import Capella.Props.C01
import Capella.Model.XmlEdit

/-!
# C02 — a saved model reloads to exactly what was in memory

Property theorems only.  The writer and the reader are those of C01 (`Model/Xml.lean`,
`Model/XmlParse.lean`); the tree edits of the object layer are `Model/XmlEdit.lean`.
-/
namespace Capella.Props.C02
open Capella.Xml

/-- **`save_reload`**: whatever `ModelFile.write_xml` writes for a Capella-shaped in-memory
document — semantic (80 columns), visual or metadata fragment — reads back as that document, in
file order. -/
theorem save_reload (k : FragKind) (d : Doc) (hwf : wfDoc d = true) :
    parse (writeXml k d) = some (canonDoc d) :=
  Capella.Props.C01.parse_writeXml k d hwf

end Capella.Props.C02
