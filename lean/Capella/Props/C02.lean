import Capella.Props.C01
import Capella.Lemmas.XmlEdit

/-!
# C02 — a saved model reloads to exactly what was in memory

Property theorems only.  The writer and the reader are those of C01 (`Model/Xml.lean`,
`Model/XmlParse.lean`), repaired where a counter-example of this property showed (text `]]>`,
white-space-only text).  The tree edits of the object layer are `Model/XmlEdit.lean`; what the
descriptors of the object layer do to the tree is observed at every `save()` of the random API
histories in `harness/props/c02.py`, not modelled here.
-/
namespace Capella.Props.C02
open Capella.Xml

/-- **`save_reload`**: whatever `ModelFile.write_xml` writes for a Capella-shaped in-memory
document — semantic (80 columns), visual or metadata fragment — reads back as that document in
file order … -/
theorem save_reload (k : FragKind) (d : Doc) (hwf : wfDoc d = true) :
    parse (writeXml k d) = some (canonDoc d) :=
  Capella.Props.C01.parse_writeXml k d hwf

/-- … and the file order carries exactly the information that was in memory: same elements in the
same order, same tag, text and tail, the same attributes and namespace declarations (as sets). -/
theorem reload_info_equal (k : FragKind) (d : Doc) (hwf : wfDoc d = true) :
    ∃ d', parse (writeXml k d) = some d' ∧ InfoEqDoc d' d :=
  ⟨canonDoc d, save_reload k d hwf, canonDoc_infoEq d hwf⟩

/-- No accepted tree edit leads out of the Capella-shaped documents: setting an attribute with a
declared name to **any** XML-legal string, deleting an attribute, setting the text of a childless
element to any non-empty XML-legal string (white space included), inserting a well-formed child
below an element without text, removing a child. -/
theorem edit_keeps_shape (ed : Edit) (d : Doc) (hwf : wfDoc d = true) (hok : ed.ok d = true) :
    wfDoc (ed.apply d) = true :=
  edit_preserves_wf ed d hwf hok

/-- **`history_save_reload`**: after any finite history of accepted edits, saving and reloading
yields a document that is information-equal to the one in memory — for every fragment kind. -/
theorem history_save_reload (k : FragKind) (es : List Edit) (d : Doc) (hwf : wfDoc d = true)
    (hok : okAll es d = true) :
    ∃ d', parse (writeXml k (applyAll es d)) = some d' ∧ InfoEqDoc d' (applyAll es d) :=
  reload_info_equal k _ (history_preserves_wf es d hwf hok)

/-- Several save–edit–save rounds: `save()` does not replace the in-memory trees, so every save
point sees a prefix of the history — and each of them reloads to what was in memory then. -/
theorem every_save_point (k : FragKind) (es₁ es₂ : List Edit) (d : Doc) (hwf : wfDoc d = true)
    (hok : okAll (es₁ ++ es₂) d = true) :
    (∃ d', parse (writeXml k (applyAll es₁ d)) = some d' ∧ InfoEqDoc d' (applyAll es₁ d)) ∧
    (∃ d', parse (writeXml k (applyAll (es₁ ++ es₂) d)) = some d' ∧
      InfoEqDoc d' (applyAll (es₁ ++ es₂) d)) := by
  rw [okAll_append, Bool.and_eq_true] at hok
  refine ⟨history_save_reload k es₁ d hwf hok.1, ?_⟩
  exact history_save_reload k (es₁ ++ es₂) d hwf (by rw [okAll_append, hok.1, hok.2]; rfl)

/-- Attribute values are unconstrained: every XML-legal string survives `set` + save + reload
(instance of the above spelled out for one attribute on the root). -/
theorem any_legal_string_survives (k : FragKind) (d : Doc) (hwf : wfDoc d = true) (name v : Str)
    (hok : (Edit.setAttr [] name v).ok d = true) :
    ∃ d', parse (writeXml k ((Edit.setAttr [] name v).apply d)) = some d' ∧
      InfoEqDoc d' ((Edit.setAttr [] name v).apply d) :=
  history_save_reload k [Edit.setAttr [] name v] d hwf (by simp [okAll, hok])

/-! ## The boundary (what an edit must not do, with witnesses) -/

/-- Setting the text to the empty string leaves the domain: it reloads as "no text" (the same XML
information, a different lxml value). -/
theorem empty_text_not_shaped :
    let d : Doc := ⟨[], .mk "bodies".toList [] [] none none [], []⟩
    wfDoc d = true ∧ (Edit.setText [] (some [])).ok d = false ∧
      (parse (writeXml .semantic ((Edit.setText [] (some [])).apply d))).map (·.root.text) = some none := by
  decide

/-- Text on an element that has children (mixed content) is refused by `Edit.ok`; the writer would
drop the children's tails. -/
theorem mixed_content_refused :
    let d : Doc := ⟨[], .mk "a".toList [] [] none none [.mk "b".toList [] [] none none []], []⟩
    wfDoc d = true ∧ (Edit.setText [] (some "t".toList)).ok d = false := by
  decide

/-! ## Non-vacuity -/

def base : Doc :=
  ⟨[⟨"Capella_Version_6.0.0".toList, none⟩],
   .mk (clark "http://c/m".toList "Project".toList)
     [("xmi".toList, XMI), ("xsi".toList, XSI), ("m".toList, "http://c/m".toList)]
     [(clark XMI "version".toList, "2.0".toList), ("id".toList, "r".toList)] none none
     [.mk "ownedX".toList [] [("id".toList, "x".toList)] none none
        [.mk "bodies".toList [] [] (some "b".toList) none []]],
   []⟩

/-- a history: rename with every kind of awkward character, white-space-only body, a new child
with an `xsi:type`, delete an attribute, remove a child -/
def hist : List Edit :=
  [.setAttr [0] "name".toList "a<b>&\"'\t\n\r]]> \u0085 ".toList,
   .setText [0, 0] (some " \n ".toList),
   .insertKid [] 1 (.mk "ownedY".toList [] [(clark XSI "type".toList, "m:T".toList), ("id".toList, "y".toList)] none none []),
   .delAttr [] "id".toList,
   .removeKid [0] 0]

example : wfDoc base = true := by decide
example : okAll hist base = true := by decide
example : Doc.beq (applyAll hist base) base = false := by decide
example : ∃ d', parse (writeXml .semantic (applyAll hist base)) = some d' ∧ InfoEqDoc d' (applyAll hist base) :=
  history_save_reload .semantic hist base (by decide) (by decide)

end Capella.Props.C02
