import Capella.Model.Git

/-!
# C16 — saving to a git repository creates exactly one faithful commit, or none
-/
namespace Capella.Props.C16
open Capella.Git

/-- Writing through the handler needs a transaction; the refusal changes nothing. -/
theorem write_needs_txn {P : Type} (s : St P) (h : s.txnOpen = false) :
    openWrite s = (s, some .needsTxn) := by
  simp [openWrite, h]

end Capella.Props.C16
