import Capella.Lemmas.GitTxn
import Capella.Lemmas.GitPush
import Capella.Lemmas.GitPrepared

/-!
# C16 — saving to a git repository creates exactly one faithful commit, or none

Property theorems only; the model is `Capella/Model/Git.lean`, helper lemmas live in
`Capella/Lemmas/Git.lean` and `Capella/Lemmas/GitTxn.lean`.

Reading guide. `transaction fault rev o body s` is `with handler.write_transaction(**o): body` on a
handler whose `revision` is `rev`; `s` holds the repository (commits, refs) and the handler's private
work tree (`head`, `index`, `files`); `fault` names the git command that fails, if any.
`Valid s` says the handler is between transactions with a clean work tree (`git status` empty);
`Restored s s'` says refs, HEAD, files and index content are as in `s` and no transaction is open.
`writeOps ws` is a body that writes and closes the files `ws` (in order; later writes win).

Transaction objects.  `handler.write_transaction(**o)` only *makes* an object (`create`: options, target ref);
`with tx: body` *enters* it (`enterRun`: `__enter__` reads `rev-parse HEAD` **then**).  `Step`/`World`/`runSteps`
are histories of such steps on one handler (`Model/GitPrepared.lean`); the section "Transaction objects made
earlier, entered later" below says that every theorem of this file holds for them with `s` = the state at entry.

Push.  `transactionPush fault rev o po body s rem` is the same `with` block with `push=po.push`, together
with the refs `rem` of the remote `origin` (`Model/GitPush.lean`).  The remote accepts a push iff it does
not decline (`po.declines`: hook, unreachable, not configured) and the update is a fast-forward
(`remoteAccepts`).  With `po.push = false` it *is* `transaction` (`push_off_is_transaction`), so the
theorems above are the `push=False` case.
-/
namespace Capella.Props.C16
open Capella.Git

variable {P : Type} [DecidableEq P]

/-- **A successful save is exactly one faithful commit.** Exactly one commit is appended; its parent is
the commit the handler was at; its tree is the parent's tree with exactly the written paths replaced
by the written bytes; only the target ref moves, to the new commit; the work tree follows and is
clean again (so the statement applies to the next transaction as well). -/
theorem commit_spec (rev : Str) (o : Opts) (ws : List (P × Bytes)) (s : St P) (hv : Valid s)
    (hobj : objectLike (o.remoteBranch.getD rev) = false) (hd : o.dry = false)
    (hn : o.ignoreEmpty = false ∨ (applyWrites ws s.index).same (treeOf s s.head) = false) :
    let r := transaction none rev o (writeOps ws) s
    r.2 = none ∧
    (∃ k, r.1.commits = s.commits ++ [k] ∧ k.parent = some s.head ∧
      ∀ q, k.tree.get q = match lastWrite ws q with
        | some c => some c
        | none => (treeOf s s.head).get q) ∧
    r.1.refs = setRef s.refs (qualify (o.remoteBranch.getD rev)) s.commits.length ∧
    r.1.head = s.commits.length ∧ Valid r.1 := by
  obtain ⟨h1, h2, h3, h4, h5⟩ := commit_spec' rev o ws s hv hobj hd hn
  exact ⟨h1, ⟨_, h2, rfl, fun q => writes_index_get ws s hv q⟩, h3, h4, h5⟩

/-- The condition of `commit_spec` holds as soon as one written file differs from the parent's. -/
theorem changed_means_commit (ws : List (P × Bytes)) (s : St P) (p : P) (b : Bytes)
    (hl : lastWrite ws p = some b) (hne : (treeOf s s.head).get p ≠ some b) :
    (applyWrites ws s.index).same (treeOf s s.head) = false :=
  changed_not_same ws s p b hl hne

/-- **A save that changes no file creates no commit**: no new commit object, no ref moves, work
tree as before. -/
theorem empty_no_commit (rev : Str) (o : Opts) (ws : List (P × Bytes)) (s : St P) (hv : Valid s)
    (hobj : objectLike (o.remoteBranch.getD rev) = false) (hi : o.ignoreEmpty = true)
    (hsame : ∀ w ∈ ws, (treeOf s s.head).get w.1 = some w.2) :
    let r := transaction none rev o (writeOps ws) s
    r.2 = none ∧ Restored s r.1 ∧ r.1.commits = s.commits ∧ Valid r.1 :=
  empty_no_commit' rev o ws s hv hobj hi hsame

/-- **Abort at every point.** Whatever the body does (writes, files left open, half-written files, a
nested transaction, a missing directory) — if it ends with an error, the caller sees that error, no
commit is created, no ref moves, and HEAD, index and files are as before. -/
theorem abort_restores (rev : Str) (o : Opts) (body : List (Op P)) (s : St P) (hv : Valid s)
    (hobj : objectLike (o.remoteBranch.getD rev) = false) (e : Err)
    (hb : (runBody none (objectLike rev) body (entered s)).2 = some e) :
    let r := transaction none rev o body s
    r.2 = some e ∧ Restored s r.1 ∧ r.1.commits = s.commits ∧ Valid r.1 :=
  abort_restores' rev o body s hv hobj e hb

/-- in particular: any body cut off after any number of operations by an exception -/
theorem abort_at_every_point (rev : Str) (o : Opts) (body : List (Op P)) (k : Nat) (s : St P) (hv : Valid s)
    (hobj : objectLike (o.remoteBranch.getD rev) = false) :
    let r := transaction none rev o (body.take k ++ [Op.raise]) s
    r.2 ≠ none ∧ Restored s r.1 ∧ r.1.commits = s.commits ∧ Valid r.1 := by
  obtain ⟨e, he⟩ := runBody_append_raise none (objectLike rev) (body.take k) (entered s)
  have := abort_restores' rev o _ s hv hobj e he
  exact ⟨by rw [this.1]; simp, this.2⟩

/-- **Dry run**: a commit object is created but no ref moves and the work tree is restored. -/
theorem dry_run_restores (rev : Str) (o : Opts) (ws : List (P × Bytes)) (s : St P) (hv : Valid s)
    (hobj : objectLike (o.remoteBranch.getD rev) = false) (hd : o.dry = true)
    (hn : o.ignoreEmpty = false ∨ (applyWrites ws s.index).same (treeOf s s.head) = false) :
    let r := transaction none rev o (writeOps ws) s
    r.2 = none ∧ Restored s r.1 ∧ (∃ k, r.1.commits = s.commits ++ [k]) ∧ Valid r.1 :=
  dry_run_restores' rev o ws s hv hobj hd hn

/-- **Any git command may fail** (`rev-parse`, `add`, `write-tree`, `cat-file`, `commit-tree`,
`reset --soft`, `update-ref`), for any body: either the transaction commits, or everything is
restored — unless the command that is refused is the roll-back itself (`reset --hard` / `clean`). -/
theorem git_failure_restores (fault : Option Nat) (rev : Str) (o : Opts) (body : List (Op P)) (s : St P)
    (hv : Valid s) (hobj : objectLike (o.remoteBranch.getD rev) = false) :
    let r := transaction fault rev o body s
    (r.2 = none ∧ o.dry = false ∧
      r.1.refs = setRef s.refs (qualify (o.remoteBranch.getD rev)) s.commits.length) ∨
    Restored s r.1 ∨
    (r.2 = some .gitfail ∧ (r.1.trace.head? = some .resetHard ∨ r.1.trace.head? = some .clean)) :=
  restored_unless_committed fault rev o body s hv hobj

/-- In every case — any failing command, the roll-back included — the handler can start a new
transaction afterwards, and a ref only ever moves when the transaction reports success. -/
theorem handler_usable_refs_safe (fault : Option Nat) (rev : Str) (o : Opts) (body : List (Op P)) (s : St P)
    (ho : s.txnOpen = false) :
    let r := transaction fault rev o body s
    r.1.txnOpen = false ∧
    (r.1.refs = s.refs ∨ (r.2 = none ∧ o.dry = false ∧
      r.1.refs = setRef s.refs (qualify (o.remoteBranch.getD rev)) s.commits.length)) :=
  txn_closed_refs_safe fault rev o body s ho

/-- A target that looks like a git object name (`remote_branch`, or the handler's revision when no
`remote_branch` is given) is refused before anything happens. -/
theorem refuses_objectlike_ref (fault : Option Nat) (rev : Str) (o : Opts) (body : List (Op P)) (s : St P)
    (hobj : objectLike (o.remoteBranch.getD rev) = true) :
    let r := transaction fault rev o body s
    r.2 = some .objectlike ∧ r.1.commits = s.commits ∧ r.1.refs = s.refs ∧ r.1.head = s.head ∧
    r.1.index = s.index ∧ r.1.files = s.files ∧ r.1.txnOpen = s.txnOpen :=
  objectlike_refused fault rev o body s hobj

/-- A handler opened on a commit hash cannot commit without `remote_branch`: a name of at least four
hex digits (a 40-digit hash in particular) is object-like. -/
theorem hash_is_objectlike (s : Str) (h4 : 4 ≤ s.length) (hx : s.all isHex = true) (hs : '/' ∉ s) :
    objectLike s = true :=
  hex_objectLike s h4 hx hs

/-- Writing through the handler needs a transaction; the refusal changes nothing. -/
theorem write_needs_txn (s : St P) (h : s.txnOpen = false) : openWrite s = (s, some .needsTxn) := by
  simp [openWrite, h]


/-! ## Push: the remote sees exactly one commit, or none -/

/-- Without `push` the transaction with a remote is the transaction without one, and the remote is
untouched: every theorem of this file about `transaction` is the `push=False` instance. -/
theorem push_off_is_transaction (fault : Option Nat) (rev : Str) (o : Opts) (po : PushOpts) (body : List (Op P))
    (s : St P) (rem : Remote) (h : po.push = false) :
    transactionPush fault rev o po body s rem = (transaction fault rev o body s, rem) :=
  transactionPush_off fault rev o po body s rem h

/-- **The remote sees one commit or none** — for every body, every failing git command (the push and the
restoring `update-ref` included), every option set and every state of the remote: after the transaction
the remote's refs are exactly as before, or the transaction reported success, was a real (non-dry)
pushing one that the remote did not decline, and exactly the remote's target ref was set — to the
handler's new HEAD, which is also where the local target ref points. -/
theorem remote_sees_one_commit_or_none (fault : Option Nat) (rev : Str) (o : Opts) (po : PushOpts)
    (body : List (Op P)) (s : St P) (rem : Remote) :
    let r := transactionPush fault rev o po body s rem
    r.2 = rem ∨
    (r.1.2 = none ∧ po.push = true ∧ o.dry = false ∧ po.declines = false ∧
      r.2 = setRef rem (qualify (o.remoteBranch.getD rev)) r.1.1.head ∧
      getRef r.1.1.refs (qualify (o.remoteBranch.getD rev)) = some r.1.1.head) :=
  transactionPush_remote fault rev o po body s rem

/-- **A pushing save** (no git failure, clean handler, something to commit): exactly one commit is created,
with the handler's HEAD as parent and the written files over the parent's tree.  If the remote accepts it
(does not decline, fast-forward), local and remote target ref both point at it and HEAD follows.  If the
remote refuses, the caller sees the git error, the remote is untouched, every local ref answers as
before the transaction (the branch was put back), HEAD, files and index are those from before; in both
cases the handler is clean again (`Valid`), so the next transaction of any sequence starts from a state
these theorems apply to. -/
theorem push_spec (rev : Str) (o : Opts) (po : PushOpts) (ws : List (P × Bytes)) (s : St P) (rem : Remote)
    (hv : Valid s) (hobj : objectLike (o.remoteBranch.getD rev) = false) (hp : po.push = true)
    (hd : o.dry = false)
    (hn : o.ignoreEmpty = false ∨ (applyWrites ws s.index).same (treeOf s s.head) = false) :
    let r := transactionPush none rev o po (writeOps ws) s rem
    let k : Commit P := { parent := some s.head, tree := applyWrites ws s.index, info := o.info }
    let target := qualify (o.remoteBranch.getD rev)
    r.1.1.commits = s.commits ++ [k] ∧ Valid r.1.1 ∧
    ((remoteAccepts po.declines (s.commits ++ [k]) rem target s.commits.length = true ∧
        r.1.2 = none ∧ r.2 = setRef rem target s.commits.length ∧
        r.1.1.refs = setRef s.refs target s.commits.length ∧ r.1.1.head = s.commits.length) ∨
     (remoteAccepts po.declines (s.commits ++ [k]) rem target s.commits.length = false ∧
        r.1.2 = some .gitfail ∧ r.2 = rem ∧ SameRefs r.1.1.refs s.refs ∧ r.1.1.head = s.head ∧
        r.1.1.files = s.files ∧ (∀ p, r.1.1.index.get p = s.index.get p))) :=
  push_spec' rev o po ws s rem hv hobj hp hd hn

/-- **Any failing command, with or without push**: the transaction is closed afterwards, and the local
refs answer as before, or the transaction reported success and exactly the target ref was set to the
new commit, or — only with `push=True` — the caller sees the git error and the branch still has the
commit because the very `update-ref` that puts it back after a refused push was itself refused. -/
theorem push_failure_refs_safe (fault : Option Nat) (rev : Str) (o : Opts) (po : PushOpts) (body : List (Op P))
    (s : St P) (rem : Remote) (ho : s.txnOpen = false) :
    let r := transactionPush fault rev o po body s rem
    r.1.1.txnOpen = false ∧
    (SameRefs r.1.1.refs s.refs ∨
      (r.1.2 = none ∧ o.dry = false ∧
        r.1.1.refs = setRef s.refs (qualify (o.remoteBranch.getD rev)) s.commits.length) ∨
      (r.1.2 = some .gitfail ∧ po.push = true ∧
        r.1.1.refs = setRef s.refs (qualify (o.remoteBranch.getD rev)) s.commits.length)) :=
  transactionPush_refs_safe fault rev o po body s rem ho


/-! ## Transaction objects made earlier, entered later -/

/-- `with handler.write_transaction(**o): body` is: make the object, enter it at once. -/
theorem with_is_create_then_enter (fault : Option Nat) (rev : Str) (o : Opts) (po : PushOpts)
    (body : List (Op P)) (s : St P) (rem : Remote) :
    transactionPush fault rev o po body s rem =
      match create fault rev o po s with
      | (s0, .error e) => ((s0, some e), rem)
      | (s0, .ok tx) => enterRun fault rev tx body s0 rem :=
  transactionPush_eq_create_enter fault rev o po body s rem

/-- **When the object was made does not matter.**  A transaction object made at any earlier moment (in any state
`s'` of the repository and the handler, e.g. before other saves moved the handler's HEAD), entered now in state `s`,
behaves exactly like a transaction made now: the base revision is read by `__enter__`.  Hence every theorem of this
file about `transaction` / `transactionPush` holds for prepared objects with `s` = the state at entry. -/
theorem prepared_is_fresh (fault fault' : Option Nat) (rev : Str) (o : Opts) (po : PushOpts) (s' : St P) (tx : Txn)
    (hc : (create fault' rev o po s').2 = .ok tx) (body : List (Op P)) (s : St P) (rem : Remote) :
    enterRun fault rev tx body { s with calls := 0, trace := [] } rem = transactionPush fault rev o po body s rem :=
  enterRun_of_created fault fault' rev o po s' tx hc body s rem

/-- `commit_spec` for an object made earlier: exactly one commit, **its parent is the handler's HEAD right before
THIS save** (not the HEAD of the time the object was made), tree = parent's tree with the written paths replaced,
only the target ref moves, the handler is clean again, the remote is untouched (`push=False`). -/
theorem prepared_commit_spec (fault' : Option Nat) (rev : Str) (o : Opts) (po : PushOpts) (s' : St P) (tx : Txn)
    (hc : (create fault' rev o po s').2 = .ok tx) (hp : po.push = false)
    (ws : List (P × Bytes)) (s : St P) (rem : Remote) (hv : Valid s) (hd : o.dry = false)
    (hn : o.ignoreEmpty = false ∨ (applyWrites ws s.index).same (treeOf s s.head) = false) :
    let r := enterRun none rev tx (writeOps ws) { s with calls := 0, trace := [] } rem
    r.1.2 = none ∧
    (∃ k, r.1.1.commits = s.commits ++ [k] ∧ k.parent = some s.head ∧
      ∀ q, k.tree.get q = match lastWrite ws q with
        | some c => some c
        | none => (treeOf s s.head).get q) ∧
    r.1.1.refs = setRef s.refs (qualify (o.remoteBranch.getD rev)) s.commits.length ∧
    r.1.1.head = s.commits.length ∧ Valid r.1.1 ∧ r.2 = rem := by
  intro r
  have hr : r = (transaction none rev o (writeOps ws) s, rem) := by
    simp only [r]
    rw [enterRun_of_created none fault' rev o po s' tx hc, transactionPush_off none rev o po _ s rem hp]
  have hobj := (create_ok fault' rev o po s' tx hc).1
  obtain ⟨h1, h2, h3, h4, h5⟩ := commit_spec rev o ws s hv hobj hd hn
  rw [hr]
  exact ⟨h1, h2, h3, h4, h5, rfl⟩

/-- `abort_restores` for an object made earlier: after an abort the work tree is in the state it had right before
THIS transaction was entered. -/
theorem prepared_abort_restores (fault' : Option Nat) (rev : Str) (o : Opts) (po : PushOpts) (s' : St P) (tx : Txn)
    (hc : (create fault' rev o po s').2 = .ok tx) (hp : po.push = false)
    (body : List (Op P)) (s : St P) (rem : Remote) (hv : Valid s) (e : Err)
    (hb : (runBody none (objectLike rev) body (entered s)).2 = some e) :
    let r := enterRun none rev tx body { s with calls := 0, trace := [] } rem
    r.1.2 = some e ∧ Restored s r.1.1 ∧ r.1.1.commits = s.commits ∧ Valid r.1.1 ∧ r.2 = rem := by
  intro r
  have hr : r = (transaction none rev o body s, rem) := by
    simp only [r]
    rw [enterRun_of_created none fault' rev o po s' tx hc, transactionPush_off none rev o po _ s rem hp]
  have hobj := (create_ok fault' rev o po s' tx hc).1
  obtain ⟨h1, h2, h3, h4⟩ := abort_restores rev o body s hv hobj e hb
  rw [hr]
  exact ⟨h1, h2, h3, h4, rfl⟩

/-- **The parent is the HEAD at entry, in every interleaving.**  Take any history of steps on one handler — making
transaction objects, entering objects made long before, in any order, the same object several times, with any
bodies, aborts, dry runs, pushes and failing git commands — and any step `st` of it.  The step adds no commit or
exactly one; that commit's parent is the commit the handler's work tree was at right before this step; and the
commit is still at its place at the end of the history (nothing a later step does takes it away).  No hypothesis
on the state, the pool of objects or the options. -/
theorem prepared_parent_is_head_at_entry (rev : Str) (pre post : List (Step P)) (st : Step P) (w : World P) :
    let w1 := runSteps rev pre w
    let w2 := (step rev st w1).1
    let wf := runSteps rev (pre ++ st :: post) w
    (w2.st.commits = w1.st.commits ∨
      ∃ k, w2.st.commits = w1.st.commits ++ [k] ∧ k.parent = some w1.st.head ∧
        wf.st.commits[w1.st.commits.length]? = some k) ∧
    ∃ more, wf.st.commits = w2.st.commits ++ more :=
  interleaving_parent rev pre post st w

/-! ## The pinned code before the repairs did not have the property -/

section witness
def w_s : St Nat :=
  { commits := [{ parent := none, tree := [(1, [10]), (2, [20])] }], refs := [("refs/heads/master".toList, 0)],
    head := 0, index := [(1, [10]), (2, [20])], files := Tree.get [(1, [10]), (2, [20])],
    txnOpen := false, calls := 0, trace := [] }
def w_rev : Str := "refs/heads/master".toList
/-- the object and the base revision a `createStale` returned (a refused creation: a dummy) -/
def staleOf (r : St Nat × Except Err (Txn × Nat)) : Txn × Nat :=
  match r.2 with
  | .ok x => x
  | .error _ => ({ o := {}, po := {}, target := [] }, 0)
end witness

/-- before `fix: roll back the git work tree …`: after a dry run the index keeps the written file, and
the next real commit on the same handler contains it although that transaction wrote another file -/
theorem pinned_dry_run_leaks :
    let r1 := transactionOld none w_rev { dry := true } (writeOps [(1, [11])]) w_s
    let r2 := transactionOld none w_rev {} (writeOps [(2, [21])]) r1.1
    r1.1.index.get 1 = some [11] ∧ r2.2 = none ∧ (treeOf r2.1 r2.1.head).get 1 = some [11] := by
  decide

/-- before `fix: commit on top of the work tree HEAD …`: two saves to the same `remote_branch` both
get the original commit as parent -/
theorem pinned_remote_branch_parent :
    let o : Opts := { remoteBranch := some "out".toList }
    let r1 := transactionOld none w_rev o (writeOps [(1, [11])]) w_s
    let r2 := transactionOld none w_rev o (writeOps [(2, [21])]) r1.1
    r1.1.head = 1 ∧ (r2.1.commits[2]?).map (·.parent) = some (some 0) := by
  decide

/-- before `fix: take the commit off the local branch again when the push fails`: the remote's `master`
has a commit the handler does not know (id 7: somebody else pushed), the push is rejected as
non-fast-forward, the caller sees the git error and the work tree is rolled back — but the local
`master` keeps the new commit. -/
theorem pinned_refused_push_keeps_commit :
    let r := transactionPushOld none w_rev {} { push := true } (writeOps [(1, [11])]) w_s [(w_rev, 7)]
    r.1.2 = some .gitfail ∧ r.2 = [(w_rev, 7)] ∧ r.1.1.head = 0 ∧ getRef r.1.1.refs w_rev = some 1 := by
  decide


/-- NOT the code — the variant that reads the base revision when the transaction object is made and keeps it: two
prepared objects entered one after the other; the second commit's parent is the stale commit 0, `master` moves
onto it and the first save's commit 1 falls off the branch. -/
theorem stale_base_breaks_parent :
    let ca := createStale (P := Nat) none w_rev {} {} w_s
    let cb := createStale none w_rev {} {} ca.1
    let r1 := enterRunStale none w_rev (staleOf ca).1 (staleOf ca).2 (writeOps [(1, [11])]) cb.1 []
    let r2 := enterRunStale none w_rev (staleOf cb).1 (staleOf cb).2 (writeOps [(2, [21])]) r1.1.1 r1.2
    ca.2.toOption.isSome = true ∧ cb.2.toOption.isSome = true ∧
    r1.1.1.head = 1 ∧ r2.1.2 = none ∧ (r2.1.1.commits[2]?).map (·.parent) = some (some 0) ∧
    getRef r2.1.1.refs w_rev = some 2 := by
  decide

/-- … and an aborted one puts the work tree back onto the stale commit instead of the one it was at -/
theorem stale_base_breaks_abort :
    let ca := createStale (P := Nat) none w_rev {} {} w_s
    let cb := createStale none w_rev {} {} ca.1
    let r1 := enterRunStale none w_rev (staleOf ca).1 (staleOf ca).2 (writeOps [(1, [11])]) cb.1 []
    let r2 := enterRunStale none w_rev (staleOf cb).1 (staleOf cb).2 [Op.write 2 [21], Op.raise] r1.1.1 r1.2
    r1.1.1.head = 1 ∧ r2.1.2 = some .abort ∧ r2.1.1.head = 0 := by
  decide

/-! ## Non-vacuity -/

/-- the code on the same history (make A, make B, enter A, enter B, then B once more with an abort): B's commit sits
on A's, `master` is at B's commit, the abort leaves HEAD there -/
example :
    let steps : List (Step Nat) := [.create {} {}, .create {} {}, .run 0 none (writeOps [(1, [11])]),
      .run 1 none (writeOps [(2, [21])]), .run 1 none [Op.write 1 [12], Op.raise]]
    let w := runSteps w_rev steps { st := w_s, rem := [], pool := [] }
    w.st.commits.length = 3 ∧ (w.st.commits[1]?).map (·.parent) = some (some 0) ∧
    (w.st.commits[2]?).map (·.parent) = some (some 1) ∧ getRef w.st.refs w_rev = some 2 ∧ w.st.head = 2 ∧
    w.st.files 1 = some [11] := by
  decide

/-- the same object entered twice: the second commit sits on the first -/
example :
    let steps : List (Step Nat) := [.create {} {}, .run 0 none (writeOps [(1, [11])]), .run 0 none (writeOps [(1, [12])])]
    let w := runSteps w_rev steps { st := w_s, rem := [], pool := [] }
    (w.st.commits[2]?).map (·.parent) = some (some 1) ∧ w.st.head = 2 := by
  decide

/-- the repaired code on the same history: refused, remote untouched, `master` back at commit 0 -/
example :
    let r := transactionPush none w_rev {} { push := true } (writeOps [(1, [11])]) w_s [(w_rev, 7)]
    r.1.2 = some .gitfail ∧ r.2 = [(w_rev, 7)] ∧ r.1.1.head = 0 ∧ getRef r.1.1.refs w_rev = some 0 ∧
    r.1.1.commits.length = 2 := by
  decide

/-- a remote in sync takes the push: remote and local `master` at the new commit; a second pushing save goes on top -/
example :
    let r1 := transactionPush none w_rev {} { push := true } (writeOps [(1, [11])]) w_s [(w_rev, 0)]
    let r2 := transactionPush none w_rev {} { push := true } (writeOps [(2, [21])]) r1.1.1 r1.2
    r1.1.2 = none ∧ getRef r1.2 w_rev = some 1 ∧ getRef r1.1.1.refs w_rev = some 1 ∧
    r2.1.2 = none ∧ getRef r2.2 w_rev = some 2 ∧ (r2.1.1.commits[2]?).map (·.parent) = some (some 1) := by
  decide

/-- a new remote branch is created; a declining remote (hook) refuses even a fast-forward -/
example :
    let o : Opts := { remoteBranch := some "out".toList }
    let r1 := transactionPush none w_rev o { push := true } (writeOps [(1, [11])]) w_s [(w_rev, 0)]
    let r2 := transactionPush none w_rev {} { push := true, declines := true } (writeOps [(1, [11])]) w_s [(w_rev, 0)]
    getRef r1.2 "refs/heads/out".toList = some 1 ∧ getRef r1.2 w_rev = some 0 ∧
    r2.1.2 = some .gitfail ∧ r2.2 = [(w_rev, 0)] ∧ getRef r2.1.1.refs w_rev = some 0 := by
  decide

/-- the restoring `update-ref` refused (command 9: rev-parse HEAD, add, rev-parse target, write-tree, cat-file,
commit-tree, reset --soft, update-ref, push, update-ref): the third case of `push_failure_refs_safe` -/
example :
    let r := transactionPush (some 9) w_rev {} { push := true } (writeOps [(1, [11])]) w_s [(w_rev, 7)]
    r.1.2 = some .gitfail ∧ getRef r.1.1.refs w_rev = some 1 ∧ r.2 = [(w_rev, 7)] := by
  decide

example : Valid w_s := by
  refine ⟨rfl, by decide, ?_, ?_⟩ <;> intro p <;> rfl

/-- the repaired code on the same histories: the second commit's parent is the first, and a dry run
leaks nothing -/
example :
    let o : Opts := { remoteBranch := some "out".toList }
    let r1 := transaction none w_rev o (writeOps [(1, [11])]) w_s
    let r2 := transaction none w_rev o (writeOps [(2, [21])]) r1.1
    (r2.1.commits[2]?).map (·.parent) = some (some 1) ∧ r2.1.refs.head? = some ("refs/heads/out".toList, 2) := by
  decide

example :
    let r1 := transaction none w_rev { dry := true } (writeOps [(1, [11])]) w_s
    let r2 := transaction none w_rev {} (writeOps [(2, [21])]) r1.1
    r1.1.index.get 1 = some [10] ∧ (treeOf r2.1 r2.1.head).get 1 = some [10] ∧
    (treeOf r2.1 r2.1.head).get 2 = some [21] := by
  decide

example : objectLike "refs/heads/deadbeef".toList = true ∧ objectLike "FETCH_HEAD".toList = true ∧
    objectLike "refs/heads/master".toList = false ∧ objectLike "dea".toList = false := by decide

/-- `commit-tree` fails (index 4: rev-parse, add, write-tree, cat-file, commit-tree): restored -/
example :
    let r := transaction (some 4) w_rev {} (writeOps [(1, [11])]) w_s
    r.2 = some .gitfail ∧ r.1.index.get 1 = some [10] ∧ r.1.files 1 = some [10] ∧ r.1.refs = w_s.refs := by
  decide

end Capella.Props.C16
