import Capella.Lemmas.Delete
import Capella.Lemmas.AccessorProps

/-!
# C09 — deleting an object is all-or-nothing and leaves no reachable reference to it

`Capella.Delete.delete g sub` is the two-phase deletion of the elements `sub` (target and
descendants) on the reference graph `g` as the object layer exposes it.
-/
namespace Capella.Props.C09
open Capella.Delete

/-- A successful deletion, for every graph and every deleted set:
(1) nothing that refuses purging pointed into the deleted set;
(2) every remaining reference existed before and is stored outside the deleted set — nothing is
    added or redirected;
(3) no remaining reference that a writable relation exposes points at a deleted element;
(4) every remaining element existed before and is not one of the deleted ones. -/
theorem delete_ok (g g' : G) (sub : List Nat) (h : delete g sub = .ok g') :
    (∀ r ∈ g.refs, r.target ∈ sub → r.kind ≠ .refusing) ∧
    (∀ q ∈ g'.refs, q ∈ g.refs ∧ q.owner ∉ sub) ∧
    (∀ q ∈ g'.refs, q.target ∈ sub → q.kind = .readOnly ∨ q.kind = .unexposed) ∧
    (∀ n ∈ g'.elems, n ∈ g.elems ∧ n ∉ sub) :=
  delete_spec g g' sub h

/-- "Attribute links and link elements alike": a link element that pointed at a deleted element is
itself removed from the model — it does not survive as an element without a target. -/
theorem delete_removes_link_elements (g g' : G) (sub : List Nat) (h : delete g sub = .ok g')
    (r : Ref) (hr : r ∈ g.refs) (ht : r.target ∈ sub) (hk : r.kind = .linkElem) :
    r.carrier ∉ g'.elems :=
  delete_removes_link_elements' g g' sub h r hr ht hk

/-- A reference that refuses purging (a physical link end) anywhere into the deleted set makes the
deletion raise; the function yields no new graph: the model is exactly as before. The enter phase
only collects, so this holds wherever the refusing reference sits among the reported ones. -/
theorem delete_refused_changes_nothing (g : G) (sub : List Nat) (r : Ref) (hr : r ∈ g.refs)
    (ht : r.target ∈ sub) (hk : r.kind = .refusing) :
    delete g sub = .error .notImplemented :=
  delete_refused g sub r hr ht hk

/-- A member that is the root of its own fragment file makes the deletion raise before anything is entered: no new
graph, whatever the rest of the request is (fix `refuse to delete the root of a fragment file before anything is removed`). -/
theorem delete_of_fragment_root_refused (roots parentless : List Nat) (k : Except Err G) (n : Nat)
    (hn : n ∈ roots) (hp : n ∈ parentless) : checked roots parentless k = .error .notImplemented := by
  unfold checked
  have : roots.any (· ∈ parentless) = true := List.any_eq_true.mpr ⟨n, hn, by simpa using hp⟩
  simp [this]

/-- … and without such a member the check is transparent. -/
theorem delete_checked_transparent (roots parentless : List Nat) (k : Except Err G)
    (h : ∀ n ∈ roots, n ∉ parentless) : checked roots parentless k = k := by
  unfold checked
  have : roots.any (· ∈ parentless) = false := by
    rw [List.any_eq_false]; intro n hn; simpa using h n hn
  simp [this]

example : (checked [1, 2] [2] (delete { elems := [1, 2], refs := [] } [1])).toOption.isNone = true := by decide
example : (checked [1] [2] (delete { elems := [1, 2], refs := [] } [1])).toOption.map (·.elems) = some [2] := by decide

/-- References that survive keep their relative order (lists are filtered, never rebuilt). -/
theorem delete_keeps_order (g g' : G) (sub : List Nat) (h : delete g sub = .ok g') :
    g'.refs.Sublist g.refs := by
  unfold delete at h
  simp only [bind, Except.bind, pure, Except.pure] at h
  split at h
  · cases h
  · rename_i exits _
    simp only [Except.ok.injEq] at h
    subst h
    have step : ∀ (es : List Exit) (refs : List Ref), (es.foldl (runExit sub) refs).Sublist refs := by
      intro es
      induction es with
      | nil => intro refs; exact List.Sublist.refl _
      | cons e es ih =>
        intro refs
        refine (ih _).trans ?_
        cases e <;> exact List.filter_sublist
    exact (step _ _).trans List.filter_sublist

/-- The statement at full strength — "removes exactly that object with its descendants" — for a
subtree that continues in another fragment file. -/
def C09_full : Prop :=
  ∀ (g g' : G) (sub localSub : List Nat), (∀ n ∈ localSub, n ∈ sub) →
    deleteAcrossFragments g sub localSub = .ok g' → ∀ n ∈ g'.elems, n ∉ sub

/-- It fails: a descendant that is the root of its own fragment file survives the deletion of its
ancestor (known finding `deleted-id-still-in-tree|fragment-spanning`; replayed on the implementation
by the check on a fragmented copy of the corpus model). -/
theorem C09_full_fails : ¬ C09_full := by
  intro h
  have := h { elems := [1, 2, 3], refs := [] } _ [1, 2] [1] (by decide) (by rfl) 2 (by decide)
  exact this (by decide)

/-- With the whole subtree in one fragment file (`localSub = sub`) the coded deletion is `delete`,
for which `delete_ok` holds. -/
theorem delete_single_fragment_partial (g : G) (sub : List Nat) :
    deleteAcrossFragments g sub sub = delete g sub := rfl

-- Non-vacuity: a port referenced from a function-port allocation list, a link element and a physical link end
def exG : G := { elems := [1, 2, 3, 4, 5],
                 refs := [⟨2, "allocated", .attrList, 1, 2⟩, ⟨3, "links", .linkElem, 1, 4⟩, ⟨5, "ends", .refusing, 3, 5⟩] }
example : (delete exG [1]).toOption.map (fun g => (g.elems, g.refs.length)) = some ([2, 3, 5], 1) := by decide
example : (delete exG [3]).toOption.isNone = true := by decide

/-! ### deletion through the accessors (`Model/Accessor.lean`: `_delete` over the real tree) -/
section Accessor
open Capella.Accessor Capella.AccTable

/-- The enter phase of `_delete` — walking the subtrees (also into other fragment files), searching the references
of every element, entering one purge context per writable referring relation — writes nothing, whatever it returns
or raises. -/
theorem deletion_enter_phase_writes_nothing (t : Tables) (self : ARow) (elements : List Nat) (s : State) :
    Same s (deleteEnter t self elements s).st :=
  (frame_deleteEnter t self elements).fr s

/-- **Refusal is all-or-nothing**: if any purge context refuses on entering (a `PhysicalLinkEndsAccessor` reference,
a `TypecastAccessor` whose class lacks the attribute, a dangling placeholder, …) the deletion raises that error and
every tree, every index and the set of detached elements are exactly as before. -/
theorem refused_deletion_changes_nothing_api (t : Tables) (self : ARow) (elements : List Nat) (s : State)
    (e : Capella.Accessor.Err) (h : (deleteEnter t self elements s).val = .error e) :
    (deleteElems t self elements s).val = .error e ∧ Same s (deleteElems t self elements s).st :=
  deleteElems_refused t self elements s e h

/-- Deleting through any entry point keeps the indexes right: whatever is removed (the subtrees, the purged link
elements) is un-indexed by the very instruction that removes it. -/
theorem deletion_keeps_indexes_right (t : Tables) (self : ARow) (elements : List Nat) (s : State) (h : IxInv s.ix) :
    IxInv (deleteElems t self elements s).st.ix :=
  (pres_deleteElems t self elements).pres s h

end Accessor

-- Non-vacuity: the enter phase can fail (here: the target is not an element of the model), which is the hypothesis
-- of `refused_deletion_changes_nothing_api`.
example : (match (Capella.Accessor.deleteEnter ⟨[], []⟩
      ⟨"C", "members", .directProxyAccessor, true, true, 0, false, ["T"], none, none, none, [], false, none, [], none, []⟩
      [99] { frags := [], ix := [] }).val with
    | .error _ => true | .ok _ => false) = true := by decide +kernel

end Capella.Props.C09
