import Capella.Lemmas.Delete
import Capella.Lemmas.AccessorProps
import Capella.Lemmas.AccessorRound5
import Capella.Lemmas.DeclDelete

/-!
# C09 — deleting an object is all-or-nothing and leaves no reachable reference to it

`Capella.Delete.delete g sub` is the two-phase deletion of the elements `sub` (target and
descendants) on the reference graph `g` as the object layer exposes it.
-/
namespace Capella.Props.C09
open Capella.Delete

/-- A successful deletion, for every graph and every deleted set:
(1) nothing that refuses purging pointed into the deleted set;
(2) every remaining reference existed before and is stored outside the deleted set — nothing is
    added or redirected;
(3) no remaining reference that a writable relation exposes points at a deleted element;
(4) every remaining element existed before and is not one of the deleted ones. -/
theorem delete_ok (g g' : G) (sub : List Nat) (h : delete g sub = .ok g') :
    (∀ r ∈ g.refs, r.target ∈ sub → r.kind ≠ .refusing) ∧
    (∀ q ∈ g'.refs, q ∈ g.refs ∧ q.owner ∉ sub) ∧
    (∀ q ∈ g'.refs, q.target ∈ sub → q.kind = .readOnly ∨ q.kind = .unexposed) ∧
    (∀ n ∈ g'.elems, n ∈ g.elems ∧ n ∉ sub) :=
  delete_spec g g' sub h

/-- "Attribute links and link elements alike": a link element that pointed at a deleted element is
itself removed from the model — it does not survive as an element without a target. -/
theorem delete_removes_link_elements (g g' : G) (sub : List Nat) (h : delete g sub = .ok g')
    (r : Ref) (hr : r ∈ g.refs) (ht : r.target ∈ sub) (hk : r.kind = .linkElem) :
    r.carrier ∉ g'.elems :=
  delete_removes_link_elements' g g' sub h r hr ht hk

/-- A reference that refuses purging (a physical link end) anywhere into the deleted set makes the
deletion raise; the function yields no new graph: the model is exactly as before. The enter phase
only collects, so this holds wherever the refusing reference sits among the reported ones. -/
theorem delete_refused_changes_nothing (g : G) (sub : List Nat) (r : Ref) (hr : r ∈ g.refs)
    (ht : r.target ∈ sub) (hk : r.kind = .refusing) :
    delete g sub = .error .notImplemented :=
  delete_refused g sub r hr ht hk

/-- A member that is the root of its own fragment file makes the deletion raise before anything is entered: no new
graph, whatever the rest of the request is (fix `refuse to delete the root of a fragment file before anything is removed`). -/
theorem delete_of_fragment_root_refused (roots parentless : List Nat) (k : Except Err G) (n : Nat)
    (hn : n ∈ roots) (hp : n ∈ parentless) : checked roots parentless k = .error .notImplemented := by
  unfold checked
  have : roots.any (· ∈ parentless) = true := List.any_eq_true.mpr ⟨n, hn, by simpa using hp⟩
  simp [this]

/-- … and without such a member the check is transparent. -/
theorem delete_checked_transparent (roots parentless : List Nat) (k : Except Err G)
    (h : ∀ n ∈ roots, n ∉ parentless) : checked roots parentless k = k := by
  unfold checked
  have : roots.any (· ∈ parentless) = false := by
    rw [List.any_eq_false]; intro n hn; simpa using h n hn
  simp [this]

example : (checked [1, 2] [2] (delete { elems := [1, 2], refs := [] } [1])).toOption.isNone = true := by decide
example : (checked [1] [2] (delete { elems := [1, 2], refs := [] } [1])).toOption.map (·.elems) = some [2] := by decide

/-- References that survive keep their relative order (lists are filtered, never rebuilt). -/
theorem delete_keeps_order (g g' : G) (sub : List Nat) (h : delete g sub = .ok g') :
    g'.refs.Sublist g.refs := by
  unfold delete at h
  simp only [bind, Except.bind, pure, Except.pure] at h
  split at h
  · cases h
  · rename_i exits _
    simp only [Except.ok.injEq] at h
    subst h
    have step : ∀ (es : List Exit) (refs : List Ref), (es.foldl (runExit sub) refs).Sublist refs := by
      intro es
      induction es with
      | nil => intro refs; exact List.Sublist.refl _
      | cons e es ih =>
        intro refs
        refine (ih _).trans ?_
        cases e <;> exact List.filter_sublist
    exact (step _ _).trans List.filter_sublist

/-- The statement at full strength — "removes exactly that object with its descendants" — for a
subtree that continues in another fragment file. -/
def C09_full : Prop :=
  ∀ (g g' : G) (sub localSub : List Nat), (∀ n ∈ localSub, n ∈ sub) →
    deleteAcrossFragments g sub localSub = .ok g' → ∀ n ∈ g'.elems, n ∉ sub

/-- It fails: a descendant that is the root of its own fragment file survives the deletion of its
ancestor (known finding `deleted-id-still-in-tree|fragment-spanning`; replayed on the implementation
by the check on a fragmented copy of the corpus model). -/
theorem C09_full_fails : ¬ C09_full := by
  intro h
  have := h { elems := [1, 2, 3], refs := [] } _ [1, 2] [1] (by decide) (by rfl) 2 (by decide)
  exact this (by decide)

/-- With the whole subtree in one fragment file (`localSub = sub`) the coded deletion is `delete`,
for which `delete_ok` holds. -/
theorem delete_single_fragment_partial (g : G) (sub : List Nat) :
    deleteAcrossFragments g sub sub = delete g sub := rfl

-- Non-vacuity: a port referenced from a function-port allocation list, a link element and a physical link end
def exG : G := { elems := [1, 2, 3, 4, 5],
                 refs := [⟨2, "allocated", .attrList, 1, 2⟩, ⟨3, "links", .linkElem, 1, 4⟩, ⟨5, "ends", .refusing, 3, 5⟩] }
example : (delete exG [1]).toOption.map (fun g => (g.elems, g.refs.length)) = some ([2, 3, 5], 1) := by decide
example : (delete exG [3]).toOption.isNone = true := by decide

/-! ### deletion through the accessors (`Model/Accessor.lean`: `_delete` over the real tree) -/
section Accessor
open Capella.Accessor Capella.AccTable

/-- The enter phase of `_delete` — walking the subtrees (also into other fragment files), searching the references
of every element, entering one purge context per writable referring relation — writes nothing, whatever it returns
or raises. -/
theorem deletion_enter_phase_writes_nothing (t : Tables) (self : ARow) (elements : List Nat) (s : State) :
    Same s (deleteEnter t self elements s).st :=
  (frame_deleteEnter t self elements).fr s

/-- **Refusal is all-or-nothing**: if any purge context refuses on entering (a `PhysicalLinkEndsAccessor` reference,
a `TypecastAccessor` whose class lacks the attribute, a dangling placeholder, …) the deletion raises that error and
every tree, every index and the set of detached elements are exactly as before. -/
theorem refused_deletion_changes_nothing_api (t : Tables) (self : ARow) (elements : List Nat) (s : State)
    (e : Capella.Accessor.Err) (h : (deleteEnter t self elements s).val = .error e) :
    (deleteElems t self elements s).val = .error e ∧ Same s (deleteElems t self elements s).st :=
  deleteElems_refused t self elements s e h

/-- Deleting through any entry point keeps the indexes right: whatever is removed (the subtrees, the purged link
elements) is un-indexed by the very instruction that removes it. -/
theorem deletion_keeps_indexes_right (t : Tables) (self : ARow) (elements : List Nat) (s : State) (h : IxInv s.ix) :
    IxInv (deleteElems t self elements s).st.ix :=
  (pres_deleteElems t self elements).pres s h

end Accessor

/-! ### the declarative entry point (`decl.py: _operate_delete`, `Model/DeclDelete.lean`) -/
section Decl
open Capella.DeclDelete

/-- **Exactly the named objects, whatever the order they are named in.** A `delete:` entry that names members of one
coupled list (`ms`, no member twice) and runs to its end has handed exactly the named objects, in the order named, to
the per-object deletion; the list has lost exactly those members and keeps all others in their order; the state is
the one reached by deleting exactly the named objects. `del1` (the per-object deletion) and `res` (`by_uuid`) are
arbitrary: this is the index arithmetic of the loop alone. -/
theorem decl_delete_removes_exactly_the_named {σ : Type} (del1 : σ → Nat → Except DeclDelete.Err σ)
    (res : σ → Nat → Bool) (s : σ) (ms named : List Nat) (hnd : ms.Nodup)
    (h : (delMembers del1 res s ms [] named).err = none) :
    (delMembers del1 res s ms [] named).deleted = named ∧
    (delMembers del1 res s ms [] named).members = ms.filter (fun m => decide (m ∉ named)) ∧
    applyAll del1 s named = some (delMembers del1 res s ms [] named).st := by
  obtain ⟨k, _, h1, h2, h3, h4⟩ := delMembers_spec del1 res s ms [] named hnd
  have hk := h4.mp h
  subst hk
  simp only [List.take_length, List.nil_append] at h1 h2 h3
  exact ⟨h1, h2, h3⟩

/-- **Every permutation**: the same members named in another order leave the same list behind and delete the same
set of objects. -/
theorem decl_delete_order_independent {σ : Type} (del1 : σ → Nat → Except DeclDelete.Err σ)
    (res : σ → Nat → Bool) (s : σ) (ms named named' : List Nat) (hnd : ms.Nodup) (hp : named.Perm named')
    (h : (delMembers del1 res s ms [] named).err = none) (h' : (delMembers del1 res s ms [] named').err = none) :
    (delMembers del1 res s ms [] named).members = (delMembers del1 res s ms [] named').members ∧
    (delMembers del1 res s ms [] named).deleted.Perm (delMembers del1 res s ms [] named').deleted := by
  obtain ⟨a1, a2, _⟩ := decl_delete_removes_exactly_the_named del1 res s ms named hnd h
  obtain ⟨b1, b2, _⟩ := decl_delete_removes_exactly_the_named del1 res s ms named' hnd h'
  rw [a1, a2, b1, b2]
  refine ⟨List.filter_congr (fun x _ => ?_), hp⟩
  simp [hp.mem_iff]

/-- **A refusal is per object**: when the entry ends with an error, the objects named in front of the failing one —
exactly those — are deleted; the failing object, everything named after it and every other member are still in the
list, and the state is the one reached by deleting exactly that prefix (the failing deletion itself changed nothing:
`delete_refused_changes_nothing`, `refused_deletion_changes_nothing_api`). -/
theorem decl_delete_refusal_keeps_the_rest {σ : Type} (del1 : σ → Nat → Except DeclDelete.Err σ)
    (res : σ → Nat → Bool) (s : σ) (ms named : List Nat) (hnd : ms.Nodup) (e : DeclDelete.Err)
    (h : (delMembers del1 res s ms [] named).err = some e) :
    ∃ k, k < named.length ∧
      (delMembers del1 res s ms [] named).deleted = named.take k ∧
      (delMembers del1 res s ms [] named).members = ms.filter (fun m => decide (m ∉ named.take k)) ∧
      applyAll del1 s (named.take k) = some (delMembers del1 res s ms [] named).st := by
  obtain ⟨k, hk, h1, h2, h3, h4⟩ := delMembers_spec del1 res s ms [] named hnd
  refine ⟨k, ?_, by simpa using h1, h2, h3⟩
  rcases Nat.lt_or_eq_of_le hk with hlt | heq
  · exact hlt
  · rw [h4.mpr heq] at h; cases h

/-- **On the reference graph** (per-object deletion = the two-phase deletion of `Model/Delete.lean`, subtrees within
one fragment file): after an entry that ran to its end every named object is gone with its whole subtree, no
remaining reference is stored inside a deleted subtree or — if a writable relation exposes it — points into one,
and every remaining element and reference existed before. -/
theorem decl_delete_on_graph (c : Ctx) (hloc : ∀ x, c.loc x = c.sub x) (g : G) (ms named : List Nat)
    (hnd : ms.Nodup) (h : (delMembers (del1 c) resolvable g ms [] named).err = none) :
    let g' := (delMembers (del1 c) resolvable g ms [] named).st
    (∀ x ∈ named, ∀ n ∈ c.sub x, n ∉ g'.elems) ∧
    (∀ x ∈ named, ∀ q ∈ g'.refs, q.owner ∉ c.sub x ∧
      (q.target ∈ c.sub x → q.kind = .readOnly ∨ q.kind = .unexposed)) ∧
    (∀ q ∈ g'.refs, q ∈ g.refs) ∧ (∀ n ∈ g'.elems, n ∈ g.elems) := by
  obtain ⟨_, _, h3⟩ := decl_delete_removes_exactly_the_named (del1 c) resolvable g ms named hnd h
  obtain ⟨b1, b2, b3, b4⟩ := applyAll_spec c hloc named g _ h3
  exact ⟨b3, b4, b1, b2⟩

/-- **Nothing else has been removed**: an element of the model that lies in none of the named subtrees and is not a
link element pointing into one of them (such a link element IS a reference to a deleted object and goes with it) is
still in the model after the entry has run. -/
theorem decl_delete_keeps_everything_else (c : Ctx) (hloc : ∀ x, c.loc x = c.sub x) (g : G) (ms named : List Nat)
    (hnd : ms.Nodup) (h : (delMembers (del1 c) resolvable g ms [] named).err = none) (n : Nat) (hn : n ∈ g.elems)
    (hs : ∀ x ∈ named, n ∉ c.sub x)
    (hl : ∀ x ∈ named, ∀ q ∈ g.refs, q.kind = .linkElem → q.target ∈ c.sub x → q.carrier ≠ n) :
    n ∈ (delMembers (del1 c) resolvable g ms [] named).st.elems := by
  obtain ⟨_, _, h3⟩ := decl_delete_removes_exactly_the_named (del1 c) resolvable g ms named hnd h
  exact applyAll_keeps_the_rest c hloc named g _ h3 n hn hs hl

end Decl

-- Non-vacuity: members 1..4 of one list, 3 holds a child 30 that a link element 9 of element 8 points at; named out of
-- list order [3, 1]: exactly 1, 3 (with 30 and the link element) go, 2 and 4 stay; a refusing reference to 4 stops
-- [1, 4, 2] after 1.
def exD : G := { elems := [1, 2, 3, 4, 30, 8, 9, 7],
                 refs := [⟨8, "links", .linkElem, 30, 9⟩, ⟨7, "ends", .refusing, 4, 7⟩] }
def exC : DeclDelete.Ctx := { subs := [(3, [3, 30], [3, 30])], parentless := [] }
example : (let r := DeclDelete.delMembers (DeclDelete.del1 exC) DeclDelete.resolvable exD [1, 2, 3, 4] [] [3, 1]
    (r.err, r.deleted, r.members, r.st.elems)) = (none, [3, 1], [2, 4], [2, 4, 8, 7]) := by decide
example : (let r := DeclDelete.delMembers (DeclDelete.del1 exC) DeclDelete.resolvable exD [1, 2, 3, 4] [] [1, 4, 2]
    (r.err, r.deleted, r.members, r.st.elems)) = (some .notImplemented, [1], [2, 3, 4], [2, 3, 4, 30, 8, 9, 7]) := by decide
def exR1 := DeclDelete.operateDelete exC [("a", [1, 2, 3, 4]), ("b", [8])] exD []
  [DeclDelete.Entry.members "a" [4], DeclDelete.Entry.whole "b"]
example : (exR1.err, exR1.deleted) = (some DeclDelete.Err.notImplemented, []) := by decide
def exR2 := DeclDelete.operateDelete exC [("a", [1, 2, 3, 4]), ("b", [8, 7])] exD []
  [DeclDelete.Entry.members "a" [3, 2], DeclDelete.Entry.whole "b", DeclDelete.Entry.members "a" [1]]
example : (exR2.err, exR2.deleted, exR2.g.elems) = (none, [3, 2, 8, 7, 1], [4]) := by decide

/-! ### round 5: deletion through the relations that delegate or are virtual -/
section Round5
open Capella.Accessor Capella.AccTable

/-- `RequirementsRelationAccessor.delete` of an object that is not among the relations of the list's owner is refused
with ValueError and nothing changes. -/
theorem requirements_relation_delete_of_non_member_changes_nothing (t : Tables) (row : ARow) (o : Nat) (es : List Nat)
    (x : Nat) (rels : List Nat) (s : State) (hk : row.kind = .requirementsRelationAccessor)
    (hr : (findRelations o s).val = .ok rels) (hx : rels.contains x = false) :
    (accDelete t row o es x s).val = .error .valueError ∧ Same s (accDelete t row o es x s).st :=
  reqRel_delete_not_member t row o es x rels s hk hr hx

/-- `TypecastAccessor.delete` IS the `delete` of the relation it casts, on the same list and object (so every C09
theorem about that relation's deletion applies); when the class it casts to has no such relation the call raises and
changes nothing. Deletion through a virtual ReqIF relation is refused with NotImplementedError and changes nothing. -/
theorem deletion_through_delegating_relations (t : Tables) (row : ARow) (o : Nat) (es : List Nat) (x : Nat) (s : State) :
    (row.kind = .typecastAccessor →
      (∀ inner, (typecastTarget t row s).val = .ok inner →
        accDelete t row o es x s = accDeleteBase t inner o es x
          { (typecastTarget t row s).st with hits := "typecast.delete" :: (typecastTarget t row s).st.hits }) ∧
      (∀ e, (typecastTarget t row s).val = .error e →
        (accDelete t row o es x s).val = .error e ∧ Same s (accDelete t row o es x s).st)) ∧
    (row.kind = .elementRelationAccessor →
      (accDelete t row o es x s).val = .error .notImplemented ∧ Same s (accDelete t row o es x s).st) :=
  ⟨fun hk => typecast_delete_delegates t row o es x s hk,
   fun hk => (elementRelation_refuses t row o es 0 .foreign x [] s hk).2.1⟩

end Round5

-- Non-vacuity (round 5): in a model without relation elements no object is a member of `Requirement.relations`.
example : (match (Capella.Accessor.accDelete ⟨[], []⟩
      ⟨"R", "relations", .requirementsRelationAccessor, true, true, 0, false, [], none, none, none, [], false, none, [], some "long_name", []⟩
      1 [] 2 { frags := [{ name := "m", semantic := true, idtypes := ["id"], rows := [⟨1, none, "root", [("id", "r")], none⟩, ⟨2, some 1, "k", [("id", "k")], none⟩] }], ix := [] }).val with
    | .error .valueError => true | _ => false) = true := by decide +kernel

-- Non-vacuity: the enter phase can fail (here: the target is not an element of the model), which is the hypothesis
-- of `refused_deletion_changes_nothing_api`.
example : (match (Capella.Accessor.deleteEnter ⟨[], []⟩
      ⟨"C", "members", .directProxyAccessor, true, true, 0, false, ["T"], none, none, none, [], false, none, [], none, []⟩
      [99] { frags := [], ix := [] }).val with
    | .error _ => true | .ok _ => false) = true := by decide +kernel

end Capella.Props.C09
