import Capella.Lemmas.Path
import Capella.Lemmas.Quote
import Capella.Lemmas.TmpName
import Capella.Lemmas.Http
import Capella.Lemmas.Symlink

/-!
# C14 — file handlers never reach outside their root

Property theorems only; helper lemmas live in `Capella/Lemmas`.
The handler compositions are `Capella.Path.target` (one clause per handler, as coded).
-/
namespace Capella.Props.C14
open Capella.Path Capella.Quote

/-- `normalize_pure_path` never returns a `..`, `.`, empty or slash-bearing component,
for every base and every path (any strings, any number of raw segments). -/
theorem normalize_clean (base path : List Str) :
    ∀ c ∈ normalize base path, c ≠ [] ∧ c ≠ dot ∧ c ≠ dotdot ∧ '/' ∉ c :=
  normalize_clean' base path

/-- For every handler, every configured `subdir` string and every file name, the parts touched by
`open(name)` start with the normalised subdir and continue with clean components only:
the access is lexically below `<root>/<subdir>`. -/
theorem target_under_subdir (h : Handler) (subdir name : Str) :
    normalize [] [subdir] <+: target h subdir name ∧ Clean (target h subdir name) := by
  have hc : Clean (normalize [] [subdir] ++ normalize [] [name]) := by
    intro c hc
    rcases List.mem_append.mp hc with h | h
    · exact normalize_clean' _ _ c h
    · exact normalize_clean' _ _ c h
  cases h <;> exact ⟨List.prefix_append _ _, hc⟩

/-- **A normalised path is a fixed point of the `..`-collapsing loop**: running the loop of
`normalize_pure_path` over what it returned changes nothing, for every base and path — so a handler that
normalises a name twice (e.g. `joinpath` on a `FilePath` that was itself produced by `joinpath`) touches the
same file as one that normalises once. -/
theorem normalized_is_fixpoint (base path : List Str) :
    collapse (normalize base path) = normalize base path := by
  have h := foldl_collapse_of_clean (normalize base path) [] (normalize_clean' base path)
  simpa [collapse] using h

/-- Resolving a clean relative reference below a clean directory only appends: the directory stays a
prefix of the result, nothing of it is consumed (no component can climb). -/
theorem resolve_clean_appends (dir ref : List Str) (hd : Clean dir) (hr : Clean ref) :
    resolve dir ref = dir ++ ref := by
  have hc : Clean (dir ++ ref) := fun c hc =>
    (List.mem_append.mp hc).elim (hd c) (hr c)
  have h := foldl_collapse_of_clean (dir ++ ref) [] hc
  simpa [resolve, collapse] using h

/-- `FilePath.joinpath` stays inside the handler-relative space (never climbs above `rootdir`). -/
theorem joinpath_clean (self : List Str) (path : Str) : Clean (joinpath self path) :=
  normalize_clean' _ _

/-- The temporary file the local handler writes is a sibling of its target. -/
theorem tmp_is_sibling (parts : List Str) : (tmpPath parts).dropLast = parts.dropLast := by
  unfold tmpPath
  split
  · rfl
  · simp

/-- and its name is a clean component whenever the target's name has no slash -/
theorem tmp_name_clean (n : Str) (h : '/' ∉ n) : CleanComp (tmpName n) := by
  refine ⟨by simp [tmpName], ?_, ?_, ?_⟩
  · simp [tmpName, dot]
  · simp only [tmpName, dotdot, ne_eq, List.cons.injEq, true_and]
    intro hh
    cases hn : takeBytes 250 n with
    | nil => rw [hn] at hh; simp at hh
    | cons a as => rw [hn] at hh; simp at hh
  · simp only [tmpName, List.mem_cons, List.mem_append, not_or]
    refine ⟨by decide, ?_, by decide, by decide, by decide, by decide, by simp⟩
    intro hm; exact h (takeBytes_subset 250 n '/' hm)

/-- The temp name always fits the 255-**byte** limit of a file name, for names of any length in any
script (the cut counts UTF-8 bytes and drops whole characters), and a name of at most 250 bytes is
embedded unchanged. -/
theorem tmp_name_fits (n : Str) :
    utf8Len (tmpName n) ≤ 255 ∧ (utf8Len n ≤ 250 → tmpName n = '.' :: (n ++ ['.', 't', 'm', 'p'])) :=
  ⟨tmpName_utf8Len_le n, fun h => by simp [tmpName, takeBytes_eq_self 250 n h]⟩

/-- The pinned cut after 250 *characters* did not: 126 two-byte characters (a legal 252-byte file name)
gave a 257-byte temp name, so such a file could never be written through a transaction. -/
theorem pinned_tmp_name_too_long : ¬ ∀ n : Str, utf8Len (tmpNameOld n) ≤ 255 := fun h =>
  absurd (h (List.replicate 126 'é')) (Nat.not_le.mpr tmpNameOld_too_long)

/-- The composition the in-memory, zip, git and GitLab handlers used before the repair
(`normalize(name, base=subdir)`) does *not* have the property: witness `subdir="sub"`,
`name="../x"`. Kept so that a reverted repair is recognisable by name. -/
theorem viaBase_escapes :
    ¬ ∀ subdir name : Str, normalize [] [subdir] <+: targetViaBase subdir name := by
  intro h
  have := h ['s','u','b'] ['.','.','/','x']
  revert this
  decide

/-- Percent-quoting is invertible, for both `safe` settings and every byte string. -/
theorem unquote_quote (s : Bool) (bs : List UInt8) : unquote (quote s bs) = bs :=
  unquote_quote' s bs

/-- Quoting is injective: two different names never collide in a quoted request path or link. -/
theorem quote_injective (s : Bool) (a b : List UInt8) (h : quote s a = quote s b) : a = b := by
  have := congrArg unquote h
  rwa [unquote_quote, unquote_quote] at this

/-- Text inserted into a URL placeholder cannot add query or fragment structure, and with
`safe=""` (`%q`) no path structure either. -/
theorem quote_no_structure (s : Bool) (bs : List UInt8) :
    ∀ c ∈ quote s bs, c ≠ '?' ∧ c ≠ '#' ∧ c ≠ ' ' ∧ (s = false → c ≠ '/') := by
  intro c hc
  have h := quote_chars s bs c hc
  refine ⟨?_, ?_, ?_, ?_⟩
  · rintro rfl; cases s <;> simp [okChar, alwaysSafe] at h
  · rintro rfl; cases s <;> simp [okChar, alwaysSafe] at h
  · rintro rfl; cases s <;> simp [okChar, alwaysSafe] at h
  · rintro rfl rfl; simp [okChar, alwaysSafe] at h

/-- A quoted path segment is a dot-segment only if the component itself was one, so the clean
components produced by `normalize` can never make the URL climb. -/
theorem quote_not_dots (s : Bool) (bs : List UInt8)
    (h1 : bs ≠ [46]) (h2 : bs ≠ [46, 46]) :
    quote s bs ≠ ['.'] ∧ quote s bs ≠ ['.', '.'] := by
  constructor
  · intro h
    have := unquote_quote' s bs
    rw [h] at this
    exact h1 this.symm
  · intro h
    have := unquote_quote' s bs
    rw [h] at this
    exact h2 this.symm

/-- `/` is kept literally with `safe="/"`, so quoting distributes over the segments. -/
theorem quote_distrib (a b : List UInt8) :
    quote true (a ++ 47 :: b) = quote true a ++ '/' :: quote true b := by
  simp [quote, quoteByte, isSafe, alwaysSafe]

/-! ## Symbolic links below the root

The statement quantifies over file *names*; what a name physically denotes also depends on the symbolic
links that whoever owns the directory (or the git repository) put below the root.  The handlers do not
resolve links themselves (the local handler's `is_file` / `is_dir` call `resolve()` only to follow them).
What can be said exactly: -/

/-- **Physically below the root when the links are safe**: if every symbolic link located below the root
has a relative target without `..`, then for every handler, subdir and file name the physical location
that `open(name)` reaches — after following links, to any depth, through links to links — is below the
root (a link loop resolves to nothing at all). -/
theorem physical_confined (ls : Links) (root : List Str) (hs : SafeLinks ls root) (fuel : Nat)
    (h : Handler) (subdir name : Str) (r : List Str)
    (hp : physical ls fuel root h subdir name = some r) : root <+: r := by
  refine realpath_confined ls root hs fuel root _ (List.prefix_refl _) ?_ r hp
  intro hm
  exact ((target_under_subdir h subdir name).2 _ hm).2.2.1 rfl

/-- without links the physical location is the lexical one: `<root>/<normalised subdir>/<normalised name>` -/
theorem physical_no_links (root : List Str) (h : Handler) (subdir name : Str) (fuel : Nat)
    (hf : (target h subdir name).length ≤ fuel) :
    physical [] fuel root h subdir name = some (root ++ target h subdir name) :=
  realpath_no_links _ (target_under_subdir h subdir name).2 fuel root hf

/-- **A link with an absolute target, or with `..`, does lead outside** — the handlers do not prevent
that: with `<root>/l -> /etc` the name `l/passwd` is lexically below the root and physically `/etc/passwd`;
with `<root>/sub/up -> ../..` the name `sub/up/x` is physically `<root>/../x`. -/
theorem unsafe_link_escapes :
    let root := [['r']]
    physical [([['r'], ['l']], "/etc".toList)] 9 root .localDir [] "l/passwd".toList
      = some ["etc".toList, "passwd".toList] ∧
    physical [([['r'], "sub".toList, "up".toList], "../..".toList)] 9 root .localDir [] "sub/up/x".toList
      = some [['x']] := by
  decide

/-! ## HTTP: the URL template language (`%s %q %d %n %e %%`) -/

section http
open Capella.Http

/-- **The file name cannot add query or fragment structure, for every template**: whatever URL template
the handler was given (any mix of the escapes, literal percent signs, none at all), whatever subdir and
file name — the requested URL has exactly as many `?`, `#` and blanks as the template itself. -/
theorem http_request_no_new_structure (path subdir name u : Str)
    (h : request path subdir name = .url u) :
    u.count '?' = (initTemplate path).count '?' ∧ u.count '#' = (initTemplate path).count '#' ∧
    u.count ' ' = (initTemplate path).count ' ' := by
  unfold request expand at h
  split at h
  · cases h
  · split at h
    · rename_i u' hs
      cases h
      refine ⟨?_, ?_, ?_⟩
      · rw [subst_count _ '?' (Or.inl rfl) _ _ hs, lits_count '?' (Or.inl rfl)]
      · rw [subst_count _ '#' (Or.inr (Or.inl rfl)) _ _ hs, lits_count '#' (Or.inr (Or.inl rfl))]
      · rw [subst_count _ ' ' (Or.inr (Or.inr rfl)) _ _ hs, lits_count ' ' (Or.inr (Or.inr rfl))]
    · cases h

/-- **The request stays under the template's prefix**: the literal text of the template in front of its
first escape (scheme, host, base path) is a prefix of every requested URL. -/
theorem http_request_under_prefix (path subdir name u : Str)
    (h : request path subdir name = .url u) :
    litPrefix (scan (initTemplate path)) <+: u := by
  unfold request expand at h
  split at h
  · cases h
  · split at h
    · rename_i u' hs
      cases h
      exact subst_prefix _ _ _ hs
    · cases h

/-- what goes into `%q` has no `/` (nor `?`, `#`, blank): it is one opaque query value -/
theorem http_q_value_opaque (parts : List Str) (v : Str) (h : value parts 'q' = some v) :
    '/' ∉ v ∧ '?' ∉ v ∧ '#' ∉ v :=
  ⟨value_q_no_slash parts v h,
   fun hm => (value_chars parts 'q' v h _ hm).1 rfl, fun hm => (value_chars parts 'q' v h _ hm).2.1 rfl⟩

/-- a name that normalises to nothing (`""`, `"."`, `".."`, `"a/.."` with an empty subdir) is refused
before any request is made, whatever the template -/
theorem http_empty_name_refused (path : Str) : request path [] ['.', '.'] = .valueError := by
  have h : Capella.Path.target .http [] ['.', '.'] = [] := by decide
  simp [request, expand, h]

end http

-- Non-vacuity: concrete inputs on which the statements say something.
example : target .git ['s','u','b'] ['.','.','/','x'] = [['s','u','b'], ['x']] := by decide
example : normalize [] [['/','a','/','.','.','/','.','.','/','b','/','/','c']] = [['b'], ['c']] := by decide
-- the fixed point and the append law on concrete values (a path with climbs; a clean reference below a clean dir)
example : collapse (normalize [['a','/','.','.']] [['.','.','/','b','/','c','/','.','.']]) = [['b']] := by decide
example : resolve [['s','u','b']] [['x'], ['y']] = [['s','u','b'], ['x'], ['y']] := by decide
example : quote false [47, 63, 35, 0xC3, 0xA9] = "%2F%3F%23%C3%A9".toList := by decide

/-- the default template, a query template with an encoded slash, and the name/extension escapes -/
example : Capella.Http.request "https://h/base//".toList "sub".toList "../a b/x?.y#z".toList
    = .url "https://h/base/sub/a%20b/x%3F.y%23z".toList := by decide
example : Capella.Http.request "https://h/api?f=%2F%q&x=1#frag".toList [] "d/my model.aird".toList
    = .url "https://h/api?f=%2Fd%2Fmy%20model.aird&x=1#frag".toList := by decide
example : Capella.Http.request "https://h/%d/-/%n.%e".toList [] "d.x/a.tar.gz".toList
    = .url "https://h/d.x/-/a.tar.gz".toList := by decide
example : Capella.Http.request "https://h/%c3%a9/%s".toList [] "a".toList = .keyError 'c' := by decide
example : Capella.Http.litPrefix (Capella.Http.scan (Capella.Http.initTemplate "https://h/base".toList))
    = "https://h/base/".toList := by decide

/-- safe links: a link to a sibling directory, a link to a link, and a loop (which resolves to nothing) -/
example :
    let ls : Links := [([['r'], ['a']], "b/c".toList), ([['r'], ['b'], ['c']], "./d".toList), ([['r'], ['x']], "y".toList), ([['r'], ['y']], "x".toList)]
    SafeLinks ls [['r']] ∧
    physical ls 20 [['r']] .localDir [] "a/f".toList = some [['r'], ['b'], ['d'], ['f']] ∧
    physical ls 20 [['r']] .localDir [] "x".toList = none := by
  refine ⟨?_, by decide, by decide⟩
  intro l t hl _
  simp only [linkAt] at hl
  have : t ∈ ["b/c".toList, "./d".toList, "y".toList, "x".toList] := by
    obtain ⟨e, he, rfl⟩ := Option.map_eq_some_iff.mp hl
    have := List.mem_of_find?_eq_some he
    simp only [List.mem_cons, List.not_mem_nil, or_false] at this
    rcases this with rfl | rfl | rfl | rfl <;> simp
  simp only [List.mem_cons, List.not_mem_nil, or_false] at this
  rcases this with rfl | rfl | rfl | rfl <;> exact ⟨by decide, by decide⟩

end Capella.Props.C14
