import Capella.Lemmas.Path
import Capella.Lemmas.Quote
import Capella.Lemmas.TmpName

/-!
# C14 — file handlers never reach outside their root

Property theorems only; helper lemmas live in `Capella/Lemmas`.
The handler compositions are `Capella.Path.target` (one clause per handler, as coded).
-/
namespace Capella.Props.C14
open Capella.Path Capella.Quote

/-- `normalize_pure_path` never returns a `..`, `.`, empty or slash-bearing component,
for every base and every path (any strings, any number of raw segments). -/
theorem normalize_clean (base path : List Str) :
    ∀ c ∈ normalize base path, c ≠ [] ∧ c ≠ dot ∧ c ≠ dotdot ∧ '/' ∉ c :=
  normalize_clean' base path

/-- For every handler, every configured `subdir` string and every file name, the parts touched by
`open(name)` start with the normalised subdir and continue with clean components only:
the access is lexically below `<root>/<subdir>`. -/
theorem target_under_subdir (h : Handler) (subdir name : Str) :
    normalize [] [subdir] <+: target h subdir name ∧ Clean (target h subdir name) := by
  have hc : Clean (normalize [] [subdir] ++ normalize [] [name]) := by
    intro c hc
    rcases List.mem_append.mp hc with h | h
    · exact normalize_clean' _ _ c h
    · exact normalize_clean' _ _ c h
  cases h <;> exact ⟨List.prefix_append _ _, hc⟩

/-- `FilePath.joinpath` stays inside the handler-relative space (never climbs above `rootdir`). -/
theorem joinpath_clean (self : List Str) (path : Str) : Clean (joinpath self path) :=
  normalize_clean' _ _

/-- The temporary file the local handler writes is a sibling of its target. -/
theorem tmp_is_sibling (parts : List Str) : (tmpPath parts).dropLast = parts.dropLast := by
  unfold tmpPath
  split
  · rfl
  · simp

/-- and its name is a clean component whenever the target's name has no slash -/
theorem tmp_name_clean (n : Str) (h : '/' ∉ n) : CleanComp (tmpName n) := by
  refine ⟨by simp [tmpName], ?_, ?_, ?_⟩
  · simp [tmpName, dot]
  · simp only [tmpName, dotdot, ne_eq, List.cons.injEq, true_and]
    intro hh
    cases hn : takeBytes 250 n with
    | nil => rw [hn] at hh; simp at hh
    | cons a as => rw [hn] at hh; simp at hh
  · simp only [tmpName, List.mem_cons, List.mem_append, not_or]
    refine ⟨by decide, ?_, by decide, by decide, by decide, by decide, by simp⟩
    intro hm; exact h (takeBytes_subset 250 n '/' hm)

/-- The temp name always fits the 255-**byte** limit of a file name, for names of any length in any
script (the cut counts UTF-8 bytes and drops whole characters), and a name of at most 250 bytes is
embedded unchanged. -/
theorem tmp_name_fits (n : Str) :
    utf8Len (tmpName n) ≤ 255 ∧ (utf8Len n ≤ 250 → tmpName n = '.' :: (n ++ ['.', 't', 'm', 'p'])) :=
  ⟨tmpName_utf8Len_le n, fun h => by simp [tmpName, takeBytes_eq_self 250 n h]⟩

/-- The pinned cut after 250 *characters* did not: 126 two-byte characters (a legal 252-byte file name)
gave a 257-byte temp name, so such a file could never be written through a transaction. -/
theorem pinned_tmp_name_too_long : ¬ ∀ n : Str, utf8Len (tmpNameOld n) ≤ 255 := fun h =>
  absurd (h (List.replicate 126 'é')) (Nat.not_le.mpr tmpNameOld_too_long)

/-- The composition the in-memory, zip, git and GitLab handlers used before the repair
(`normalize(name, base=subdir)`) does *not* have the property: witness `subdir="sub"`,
`name="../x"`. Kept so that a reverted repair is recognisable by name. -/
theorem viaBase_escapes :
    ¬ ∀ subdir name : Str, normalize [] [subdir] <+: targetViaBase subdir name := by
  intro h
  have := h ['s','u','b'] ['.','.','/','x']
  revert this
  decide

/-- Percent-quoting is invertible, for both `safe` settings and every byte string. -/
theorem unquote_quote (s : Bool) (bs : List UInt8) : unquote (quote s bs) = bs :=
  unquote_quote' s bs

/-- Text inserted into a URL placeholder cannot add query or fragment structure, and with
`safe=""` (`%q`) no path structure either. -/
theorem quote_no_structure (s : Bool) (bs : List UInt8) :
    ∀ c ∈ quote s bs, c ≠ '?' ∧ c ≠ '#' ∧ c ≠ ' ' ∧ (s = false → c ≠ '/') := by
  intro c hc
  have h := quote_chars s bs c hc
  refine ⟨?_, ?_, ?_, ?_⟩
  · rintro rfl; cases s <;> simp [okChar, alwaysSafe] at h
  · rintro rfl; cases s <;> simp [okChar, alwaysSafe] at h
  · rintro rfl; cases s <;> simp [okChar, alwaysSafe] at h
  · rintro rfl rfl; simp [okChar, alwaysSafe] at h

/-- A quoted path segment is a dot-segment only if the component itself was one, so the clean
components produced by `normalize` can never make the URL climb. -/
theorem quote_not_dots (s : Bool) (bs : List UInt8)
    (h1 : bs ≠ [46]) (h2 : bs ≠ [46, 46]) :
    quote s bs ≠ ['.'] ∧ quote s bs ≠ ['.', '.'] := by
  constructor
  · intro h
    have := unquote_quote' s bs
    rw [h] at this
    exact h1 this.symm
  · intro h
    have := unquote_quote' s bs
    rw [h] at this
    exact h2 this.symm

/-- `/` is kept literally with `safe="/"`, so quoting distributes over the segments. -/
theorem quote_distrib (a b : List UInt8) :
    quote true (a ++ 47 :: b) = quote true a ++ '/' :: quote true b := by
  simp [quote, quoteByte, isSafe, alwaysSafe]

-- Non-vacuity: concrete inputs on which the statements say something.
example : target .git ['s','u','b'] ['.','.','/','x'] = [['s','u','b'], ['x']] := by decide
example : normalize [] [['/','a','/','.','.','/','.','.','/','b','/','/','c']] = [['b'], ['c']] := by decide
example : quote false [47, 63, 35, 0xC3, 0xA9] = "%2F%3F%23%C3%A9".toList := by decide

end Capella.Props.C14
