import Capella.Lemmas.PodsH
import Capella.Lemmas.PodsToy
import Capella.Lemmas.PodsSpec2
import Capella.Gen.Pods

/-!
# C07 — attribute values read back as written

Property theorems only; helper lemmas live in `Capella/Lemmas/Pods*.lean`, the model in
`Capella/Model/Pods.lean`, the descriptor table (every POD slot of every registered model class,
regenerated from `/repo` on every run) in `Capella/Gen/Pods*.lean`.

`P : Params` stands for what CPython and libxml2 do (`str(float)`, `isoformat`, `repair_html`, …);
`P.Lawful` lists the laws assumed about them. They are sampled on the implementation by
`harness/props/c07.py`; `Toy.lawful` shows that they are satisfiable.
-/
namespace Capella.Props.C07
open Capella.Pods

/-- **Round trip, generic.** For every well-formed descriptor `d`, every attribute map `a` and every
value `v` of `d`'s domain (`valid`), if the write is permitted (the descriptor is writable, or its
XML attribute is still absent), `d.__set__(obj, v)` succeeds and `d.__get__(obj)` then returns the
value `v` stands for (`denote`: `v` itself, except HTML → repaired HTML, timestamp → cut to
milliseconds, enum member name → the member, `int`/`bool` for a float or int attribute → that
number), up to `0.0 == -0.0`. -/
theorem pod_roundtrip (P : Params) (hP : P.Lawful) (d : Desc) (hd : d.wf = true)
    (a : Attrs) (v : PyVal P) (hv : valid P d v = true)
    (hw : d.writable = true ∨ a.has d.attr = false) :
    ∃ a', set P d a v = .ok a' ∧ ∃ w, get P d a' = .ok w ∧ Same P w (denote P d v) :=
  get_set_of_codec d a v hw (codec_cases hP d hd v hv)

/-- **Round trip, for every row of the generated table**: every POD slot of every registered model
class is a well-formed descriptor (kernel-checked per chunk), hence round-trips. -/
theorem pod_roundtrip_table (P : Params) (hP : P.Lawful) :
    ∀ r ∈ Capella.Gen.Pods.podTable, ∀ (a : Attrs) (v : PyVal P), valid P r.desc v = true →
      (r.desc.writable = true ∨ a.has r.desc.attr = false) →
      ∃ a', set P r.desc a v = .ok a' ∧ ∃ w, get P r.desc a' = .ok w ∧ Same P w (denote P r.desc v) :=
  fun r hr a v hv hw =>
    pod_roundtrip P hP r.desc (Row.desc_wf r (Capella.Gen.Pods.podTable_wf r hr)) a v hv hw

/-- The statement's "repair is idempotent", read literally for a parameter instance: reading back
is a fixpoint for every valid value. -/
def readback_fixpoint_full (P : Params) : Prop :=
  ∀ (d : Desc), d.wf = true → ∀ v : PyVal P, valid P d v = true →
    valid P d (denote P d v) = true ∧ denote P d (denote P d v) = denote P d v

/-- **Reading back is a fixpoint** ("repair is idempotent", "millisecond precision") — the part
that holds: on every valid value *on which `repair_html` is stable after one pass* (`stableAt`:
all non-HTML values, and the HTML fragments whose repaired form repairs to itself) the value read
back is itself valid and stands for itself, so a second write/read cycle returns the same value.
libxml2 does not give this for raw-text elements (`<script>a<b</script>`): known finding
`repair_html|not-idempotent|rawtext-element`, judged by the monitor. -/
theorem readback_fixpoint_partial (P : Params) (hP : P.Lawful) (d : Desc) (hd : d.wf = true)
    (v : PyVal P) (hv : valid P d v = true) (hst : stableAt P d v = true) :
    valid P d (denote P d v) = true ∧ denote P d (denote P d v) = denote P d v :=
  valid_denote hP d hd v hv hst

/-- The stability hypothesis cannot be dropped: for a lawful parameter instance whose `repair` is
not idempotent (it prepends a character on every pass — as libxml2 re-escapes raw text on every
pass) the full statement fails. -/
theorem readback_fixpoint_full_fails : ∃ P : Params, P.Lawful ∧ ¬ readback_fixpoint_full P := by
  refine ⟨Toy.growing, Toy.growing_lawful, ?_⟩
  intro h
  have h2 := (h ⟨.html, ['d'], true⟩ rfl (.str ['a']) rfl).2
  have e1 : denote Toy.growing ⟨.html, ['d'], true⟩ (.str ['a']) = .str ['x', 'a'] := rfl
  have e2 : denote Toy.growing ⟨.html, ['d'], true⟩ (.str ['x', 'a']) = .str ['x', 'x', 'a'] := rfl
  rw [e1, e2] at h2
  injection h2 with h3
  exact absurd h3 (by decide)

/-- **Default elision.** Assigning `None`, or a value that is not different from the default
(`value != default` is false), removes the XML attribute (and leaves every other attribute alone). -/
theorem default_elided (P : Params) (d : Desc) (a : Attrs) (v : PyVal P)
    (hw : d.writable = true ∨ a.has d.attr = false)
    (h : isNone v = true ∨ neDefault P d v = false) :
    set P d a v = .ok (a.pop d.attr) ∧ (a.pop d.attr).get d.attr = none :=
  ⟨set_elides d a v hw h, Attrs.get_pop_same a d.attr⟩

/-- The default value itself is "not different from the default" for every descriptor kind of the
table (timestamps: the default is `None`, covered by the `None` case of `default_elided`). -/
theorem default_is_default (P : Params) (hP : P.Lawful) :
    ∀ r ∈ Capella.Gen.Pods.podTable, r.desc.kind ≠ .datetime →
      neDefault P r.desc (defaultVal P r.desc) = false := by
  intro r hr hk
  have hwf := Row.desc_wf r (Capella.Gen.Pods.podTable_wf r hr)
  refine neDefault_default hP r.desc hk ?_
  intro n hn
  simp [Desc.wf, hn] at hwf

/-- … and so is the *name* of an enum's default member, for every enum slot of the table
(this is where `_StringyEnumMixin` matters; the table obligation checks every enum class for it). -/
theorem default_by_name_is_default (P : Params) :
    ∀ r ∈ Capella.Gen.Pods.podTable, ∀ e n, r.desc.kind = .enum e n →
      neDefault P r.desc (.str n) = false := by
  intro r hr e n hk
  have hwf := Row.desc_wf r (Capella.Gen.Pods.podTable_wf r hr)
  obtain ⟨cls, py, owner, ⟨kind, a, w⟩, dflt⟩ := r
  simp only at hk
  subst hk
  simp only [Desc.wf, Bool.and_eq_true, EnumCls.wf] at hwf
  exact neDefault_default_name a w e n hwf.1.2

/-- **An absent attribute reads as the default.** -/
theorem absent_reads_default (P : Params) (d : Desc) (a : Attrs) (h : a.get d.attr = none) :
    get P d a = .ok (defaultVal P d) := by
  simp [Pods.get, h]

/-- **Read-only attributes reject changes**: once the XML attribute is present, every assignment
and every deletion raises `TypeError`; the check is the first thing `__set__` does, so nothing has
been modified. -/
theorem readonly_rejects (P : Params) (d : Desc) (a : Attrs) (v : PyVal P)
    (hw : d.writable = false) (hp : a.has d.attr = true) :
    set P d a v = .error .typeError ∧ del P d a = .error .typeError :=
  ⟨set_readonly d a v hw hp, set_readonly d a .none hw hp⟩

/-- The statement read literally: *every* assignment to a read-only slot of the table is rejected. -/
def readonly_full : Prop :=
  ∀ (P : Params), ∀ r ∈ Capella.Gen.Pods.podTable, r.desc.writable = false →
    ∀ (a : Attrs) (v : PyVal P), ∃ e, set P r.desc a v = .error e

/-- It does not hold as coded: `writable=False` is write-once. A `ControlNode` whose `kind` is the
default `OR` has no `kind` attribute, and `node.kind = "AND"` is accepted (recorded as a known
finding; `readonly_rejects` is the part that does hold). -/
theorem readonly_full_fails : ¬ readonly_full := by
  intro h
  have hmem : (⟨"capellambse.metamodel.fa.ControlNode", "kind", "ControlNode",
      ⟨.enum Capella.Gen.Pods.e_ControlNodeKind "OR".toList, "kind".toList, false⟩,
      .member "OR".toList⟩ : Row) ∈ Capella.Gen.Pods.podTable := by decide +kernel
  obtain ⟨e, he⟩ := h Toy.params _ hmem rfl [] (.str "AND".toList)
  have hok : Pods.set Toy.params ⟨.enum Capella.Gen.Pods.e_ControlNodeKind "OR".toList, "kind".toList, false⟩
      [] (.str "AND".toList) = .ok [("kind".toList, "AND".toList)] := by rfl
  rw [hok] at he
  cases he

/-- **Frame.** A successful assignment changes nothing but the descriptor's own XML attribute:
the other attributes keep their values and their order. -/
theorem set_touches_only_own_attribute (P : Params) (d : Desc) (a a' : Attrs) (v : PyVal P)
    (h : set P d a v = .ok a') :
    a'.pop d.attr = a.pop d.attr ∧ ∀ k, k ≠ d.attr → a'.get k = a.get k :=
  ⟨set_frame d a a' v h, fun k hk => set_frame_get d a a' v h k hk⟩

/-- No two descriptor slots of one class share an XML attribute (per chunk; a chunk holds whole
classes), so by the frame theorem assigning one typed attribute never changes another. -/
theorem slots_do_not_alias : ∀ c ∈ Capella.Gen.Pods.chunks, slotsDistinct c = true :=
  Capella.Gen.Pods.chunks_distinct

/-- **Specifications (`_Specification`) are a mapping**: on a specification whose `languages` and
`bodies` children pair up (what Capella writes), for arbitrary other children interleaved, a
successful `spec[k] = v` keeps the pairing, `spec[k]` then returns `v` (for `LinkedText` /
`capella:linkedText`: the rendering of the escaped form, `unescape(escape(v))`), and every other
key reads what it read before. (`LinkedText` and `capella:linkedText` are one key.) -/
theorem spec_get_set (P : Params) (s s' : Spec) (k v : Str) (hb : Balanced s)
    (h : specSet P s k v = .ok s') :
    Balanced s' ∧ specGet P s' k = .ok (specView P k v) ∧
      ∀ k', specAlias k' ≠ specAlias k → specGet P s' k' = specGet P s k' :=
  spec_get_set' s s' k v hb h

/-- `int(str(i)) == i` for every integer (own decimal codec, ASCII). -/
theorem int_codec (i : Int) : pyIntParse (pyIntRepr i) = some i ∧ xmlOk (pyIntRepr i) = true :=
  ⟨pyIntParse_repr i, xmlOk_pyIntRepr i⟩

/-- `DatetimePOD.re_get` undoes `DatetimePOD.re_set` on every string on which `re_set` matches or
`re_get` does not (every `isoformat` output; sampled) — and `re_set` keeps XML-legal text legal. -/
theorem datetime_regex_inverse (s : Str) (h : IsoShape s) :
    reGet (reSet s) = s ∧ (xmlOk s = true → xmlOk (reSet s) = true) :=
  ⟨reGet_reSet s h, xmlOk_reSet s⟩

/-- `FloatPOD._from_xml` as it was before the repair (`float(data)`) cannot read what `_to_xml`
writes for `+inf`. Kept so that a reverted repair is recognisable by name. -/
theorem float_inf_unreadable_before_fix (P : Params) (h : P.fParse star = none) :
    toXml P ⟨.float, ['v'], true⟩ (.float .inf) = .ok star ∧
      floatFromXmlOld P star = .error .valueError ∧ floatFromXml P star = .ok .inf := by
  simp [toXml, floatToXml, floatFromXmlOld, floatFromXml, h]

-- Non-vacuity: a lawful parameter instance exists, and concrete descriptors/values compute.
example : Toy.params.Lawful := Toy.lawful
example : Capella.Gen.Pods.podTable.length = Capella.Gen.Pods.nRows := Capella.Gen.Pods.nRows_ok
example : Pods.set Toy.params ⟨.int, ['v'], true⟩ [(['i','d'], ['x'])] (.int (-42))
    = .ok [(['i','d'], ['x']), (['v'], ['-','4','2'])] := by rfl
example : Pods.get Toy.params ⟨.int, ['v'], true⟩ [(['v'], [' ','-','4','_','2'])] = .ok (.int (-42)) := by rfl
example : Pods.set Toy.params ⟨.float, ['v'], true⟩ [] (.float .inf) = .ok [(['v'], ['*'])] := by rfl
example : Pods.get Toy.params ⟨.float, ['v'], true⟩ [(['v'], ['*'])] = .ok (.float .inf) := by rfl
example : Pods.set Toy.params ⟨.datetime, ['v'], true⟩ [] (.aware (1 : Fin 3))
    = .ok [(['v'], "1999-12-31T00:00:00.000-0530".toList)] := by rfl
example : Pods.get Toy.params ⟨.datetime, ['v'], true⟩ [(['v'], "1999-12-31T00:00:00.000-0530".toList)]
    = .ok (.aware (1 : Fin 3)) := by rfl
example : Pods.set Toy.params ⟨.enum Capella.Gen.Pods.e_ControlNodeKind "OR".toList, ['k'], true⟩
    [(['k'], "AND".toList)] (.str "OR".toList) = .ok [] := by rfl
example : specSet Toy.params [⟨['x'], none⟩, ⟨tBodies, some ['o','l','d']⟩, ⟨tLanguages, some ['p','y']⟩] ['p','y'] ['n','e','w']
    = .ok [⟨['x'], none⟩, ⟨tBodies, some ['n','e','w']⟩, ⟨tLanguages, some ['p','y']⟩] := by rfl
example : specGet Toy.params [⟨tBodies, some ['b']⟩, ⟨tLanguages, some kLinked⟩] kAlias = .ok ['b'] := by rfl
example : Pods.set Toy.params ⟨.string, ['i','d'], false⟩ [(['i','d'], ['x'])] (.str ['y'])
    = .error .typeError := by rfl

end Capella.Props.C07
