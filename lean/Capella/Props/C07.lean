import Capella.Lemmas.PodsH
import Capella.Lemmas.PodsToy
import Capella.Lemmas.PodsSpec2
import Capella.Lemmas.PodsSpecMap2
import Capella.Lemmas.PodsLinked2
import Capella.Lemmas.PodsDt3
import Capella.Lemmas.PodsFloat
import Capella.Gen.Pods

/-!
# C07 — attribute values read back as written

Property theorems only; helper lemmas live in `Capella/Lemmas/Pods*.lean`, the model in
`Capella/Model/Pods.lean`, the descriptor table (every POD slot of every registered model class,
regenerated from `/repo` on every run) in `Capella/Gen/Pods*.lean`.

`P : Params` stands for what CPython and libxml2 do (`str(float)`, `isoformat`, `repair_html`, …);
`P.Lawful` lists the laws assumed about them. They are sampled on the implementation by
`harness/props/c07.py`; `Toy.lawful` shows that they are satisfiable.
-/
namespace Capella.Props.C07
open Capella.Pods

/-- **Round trip, generic.** For every well-formed descriptor `d`, every attribute map `a` and every
value `v` of `d`'s domain (`valid`), if the write is permitted (the descriptor is writable, or its
XML attribute is still absent), `d.__set__(obj, v)` succeeds and `d.__get__(obj)` then returns the
value `v` stands for (`denote`: `v` itself, except HTML → repaired HTML, timestamp → cut to
milliseconds, enum member name → the member, `int`/`bool` for a float or int attribute → that
number), up to `0.0 == -0.0`. -/
theorem pod_roundtrip (P : Params) (hP : P.Lawful) (d : Desc) (hd : d.wf = true)
    (a : Attrs) (v : PyVal P) (hv : valid P d v = true)
    (hw : d.writable = true ∨ a.has d.attr = false) :
    ∃ a', set P d a v = .ok a' ∧ ∃ w, get P d a' = .ok w ∧ Same P w (denote P d v) :=
  get_set_of_codec d a v hw (codec_cases hP d hd v hv)

/-- **Round trip, for every row of the generated table**: every POD slot of every registered model
class is a well-formed descriptor (kernel-checked per chunk), hence round-trips. -/
theorem pod_roundtrip_table (P : Params) (hP : P.Lawful) :
    ∀ r ∈ Capella.Gen.Pods.podTable, ∀ (a : Attrs) (v : PyVal P), valid P r.desc v = true →
      (r.desc.writable = true ∨ a.has r.desc.attr = false) →
      ∃ a', set P r.desc a v = .ok a' ∧ ∃ w, get P r.desc a' = .ok w ∧ Same P w (denote P r.desc v) :=
  fun r hr a v hv hw =>
    pod_roundtrip P hP r.desc (Row.desc_wf r (Capella.Gen.Pods.podTable_wf r hr)) a v hv hw

/-- The statement's "repair is idempotent", read literally for a parameter instance: reading back
is a fixpoint for every valid value. -/
def readback_fixpoint_full (P : Params) : Prop :=
  ∀ (d : Desc), d.wf = true → ∀ v : PyVal P, valid P d v = true →
    valid P d (denote P d v) = true ∧ denote P d (denote P d v) = denote P d v

/-- **Reading back is a fixpoint** ("repair is idempotent", "millisecond precision") — the part
that holds: on every valid value *on which `repair_html` is stable after one pass* (`stableAt`:
all non-HTML values, and the HTML fragments whose repaired form repairs to itself) the value read
back is itself valid and stands for itself, so a second write/read cycle returns the same value.
libxml2 does not give this for raw-text elements (`<script>a<b</script>`): known finding
`repair_html|not-idempotent|rawtext-element`, judged by the monitor. -/
theorem readback_fixpoint_partial (P : Params) (hP : P.Lawful) (d : Desc) (hd : d.wf = true)
    (v : PyVal P) (hv : valid P d v = true) (hst : stableAt P d v = true) :
    valid P d (denote P d v) = true ∧ denote P d (denote P d v) = denote P d v :=
  valid_denote hP d hd v hv hst

/-- The stability hypothesis cannot be dropped: for a lawful parameter instance whose `repair` is
not idempotent (it prepends a character on every pass — as libxml2 re-escapes raw text on every
pass) the full statement fails. -/
theorem readback_fixpoint_full_fails : ∃ P : Params, P.Lawful ∧ ¬ readback_fixpoint_full P := by
  refine ⟨Toy.growing, Toy.growing_lawful, ?_⟩
  intro h
  have h2 := (h ⟨.html, ['d'], true⟩ rfl (.str ['a']) rfl).2
  have e1 : denote Toy.growing ⟨.html, ['d'], true⟩ (.str ['a']) = .str ['x', 'a'] := rfl
  have e2 : denote Toy.growing ⟨.html, ['d'], true⟩ (.str ['x', 'a']) = .str ['x', 'x', 'a'] := rfl
  rw [e1, e2] at h2
  injection h2 with h3
  exact absurd h3 (by decide)

/-- **Default elision.** Assigning `None`, or a value that is not different from the default
(`value != default` is false), removes the XML attribute (and leaves every other attribute alone). -/
theorem default_elided (P : Params) (d : Desc) (a : Attrs) (v : PyVal P)
    (hw : d.writable = true ∨ a.has d.attr = false)
    (h : isNone v = true ∨ neDefault P d v = false) :
    set P d a v = .ok (a.pop d.attr) ∧ (a.pop d.attr).get d.attr = none :=
  ⟨set_elides d a v hw h, Attrs.get_pop_same a d.attr⟩

/-- The default value itself is "not different from the default" for every descriptor kind of the
table (timestamps: the default is `None`, covered by the `None` case of `default_elided`). -/
theorem default_is_default (P : Params) (hP : P.Lawful) :
    ∀ r ∈ Capella.Gen.Pods.podTable, r.desc.kind ≠ .datetime →
      neDefault P r.desc (defaultVal P r.desc) = false := by
  intro r hr hk
  have hwf := Row.desc_wf r (Capella.Gen.Pods.podTable_wf r hr)
  refine neDefault_default hP r.desc hk ?_
  intro n hn
  simp [Desc.wf, hn] at hwf

/-- … and so is the *name* of an enum's default member, for every enum slot of the table
(this is where `_StringyEnumMixin` matters; the table obligation checks every enum class for it). -/
theorem default_by_name_is_default (P : Params) :
    ∀ r ∈ Capella.Gen.Pods.podTable, ∀ e n, r.desc.kind = .enum e n →
      neDefault P r.desc (.str n) = false := by
  intro r hr e n hk
  have hwf := Row.desc_wf r (Capella.Gen.Pods.podTable_wf r hr)
  obtain ⟨cls, py, owner, ⟨kind, a, w⟩, dflt⟩ := r
  simp only at hk
  subst hk
  simp only [Desc.wf, Bool.and_eq_true, EnumCls.wf] at hwf
  exact neDefault_default_name a w e n hwf.1.2

/-- **An absent attribute reads as the default.** -/
theorem absent_reads_default (P : Params) (d : Desc) (a : Attrs) (h : a.get d.attr = none) :
    get P d a = .ok (defaultVal P d) := by
  simp [Pods.get, h]

/-- **Read-only attributes reject changes**: once the XML attribute is present, every assignment
and every deletion raises `TypeError`; the check is the first thing `__set__` does, so nothing has
been modified. -/
theorem readonly_rejects (P : Params) (d : Desc) (a : Attrs) (v : PyVal P)
    (hw : d.writable = false) (hp : a.has d.attr = true) :
    set P d a v = .error .typeError ∧ del P d a = .error .typeError :=
  ⟨set_readonly d a v hw hp, set_readonly d a .none hw hp⟩

/-- The statement read literally: *every* assignment to a read-only slot of the table is rejected. -/
def readonly_full : Prop :=
  ∀ (P : Params), ∀ r ∈ Capella.Gen.Pods.podTable, r.desc.writable = false →
    ∀ (a : Attrs) (v : PyVal P), ∃ e, set P r.desc a v = .error e

/-- It does not hold as coded: `writable=False` is write-once. A `ControlNode` whose `kind` is the
default `OR` has no `kind` attribute, and `node.kind = "AND"` is accepted (recorded as a known
finding; `readonly_rejects` is the part that does hold). -/
theorem readonly_full_fails : ¬ readonly_full := by
  intro h
  have hmem : (⟨"capellambse.metamodel.fa.ControlNode", "kind", "ControlNode",
      ⟨.enum Capella.Gen.Pods.e_ControlNodeKind "OR".toList, "kind".toList, false⟩,
      .member "OR".toList⟩ : Row) ∈ Capella.Gen.Pods.podTable := by decide +kernel
  obtain ⟨e, he⟩ := h Toy.params _ hmem rfl [] (.str "AND".toList)
  have hok : Pods.set Toy.params ⟨.enum Capella.Gen.Pods.e_ControlNodeKind "OR".toList, "kind".toList, false⟩
      [] (.str "AND".toList) = .ok [("kind".toList, "AND".toList)] := by rfl
  rw [hok] at he
  cases he

/-- **Frame.** A successful assignment changes nothing but the descriptor's own XML attribute:
the other attributes keep their values and their order. -/
theorem set_touches_only_own_attribute (P : Params) (d : Desc) (a a' : Attrs) (v : PyVal P)
    (h : set P d a v = .ok a') :
    a'.pop d.attr = a.pop d.attr ∧ ∀ k, k ≠ d.attr → a'.get k = a.get k :=
  ⟨set_frame d a a' v h, fun k hk => set_frame_get d a a' v h k hk⟩

/-- No two descriptor slots of one class share an XML attribute (per chunk; a chunk holds whole
classes), so by the frame theorem assigning one typed attribute never changes another. -/
theorem slots_do_not_alias : ∀ c ∈ Capella.Gen.Pods.chunks, slotsDistinct c = true :=
  Capella.Gen.Pods.chunks_distinct

/-- **Specifications (`_Specification`) are a mapping**: on a specification whose `languages` and
`bodies` children pair up (what Capella writes), for arbitrary other children interleaved, a
successful `spec[k] = v` keeps the pairing, `spec[k]` then returns `v` (for `LinkedText` /
`capella:linkedText`: the rendering of the escaped form, `unescape(escape(v))`), and every other
key reads what it read before. (`LinkedText` and `capella:linkedText` are one key.) -/
theorem spec_get_set (P : Params) (s s' : Spec) (k v : Str) (hb : Balanced s)
    (h : specSet P s k v = .ok s') :
    Balanced s' ∧ specGet P s' k = .ok (specView P k v) ∧
      ∀ k', specAlias k' ≠ specAlias k → specGet P s' k' = specGet P s k' :=
  spec_get_set' s s' k v hb h

/-- `int(str(i)) == i` for every integer (own decimal codec, ASCII). -/
theorem int_codec (i : Int) : pyIntParse (pyIntRepr i) = some i ∧ xmlOk (pyIntRepr i) = true :=
  ⟨pyIntParse_repr i, xmlOk_pyIntRepr i⟩

/-- Two different integers are never written as the same attribute text. -/
theorem int_repr_injective (i j : Int) (h : pyIntRepr i = pyIntRepr j) : i = j := by
  have h1 := (int_codec i).1
  rw [h, (int_codec j).1] at h1
  exact (Option.some.inj h1).symm

/-- `DatetimePOD.re_get` undoes `DatetimePOD.re_set` on every string on which `re_set` matches or
`re_get` does not (every `isoformat` output; sampled) — and `re_set` keeps XML-legal text legal. -/
theorem datetime_regex_inverse (s : Str) (h : IsoShape s) :
    reGet (reSet s) = s ∧ (xmlOk s = true → xmlOk (reSet s) = true) :=
  ⟨reGet_reSet s h, xmlOk_reSet s⟩

/-- `FloatPOD._from_xml` as it was before the repair (`float(data)`) cannot read what `_to_xml`
writes for `+inf`. Kept so that a reverted repair is recognisable by name. -/
theorem float_inf_unreadable_before_fix (P : Params) (h : P.fParse star = none) :
    toXml P ⟨.float, ['v'], true⟩ (.float .inf) = .ok star ∧
      floatFromXmlOld P star = .error .valueError ∧ floatFromXml P star = .ok .inf := by
  simp [toXml, floatToXml, floatFromXmlOld, floatFromXml, h]

/-! ## Linked text (`escape_linked_text` / `unescape_linked_text`, modelled in `Model/PodsLinked.lean`) -/

/-- **What reading a linked text shows, exactly.** For every canonical value `v` (leading text, then links each
followed by text; any XML-legal characters except CR) and every state of the model (`look` = `loader[id]` and
the target's name), `spec["LinkedText"] = v` followed by `spec["LinkedText"]` — escape through libxml2's parser
on the sub-language, store, parse again, unescape — returns the rendering of `view look v.dropLead`: live links
with the target's *current* name, unnamed targets with a placeholder name, dead links (unknown or malformed id)
as literal text joined to their neighbours, a whitespace-only leading text dropped. No bound on the number of
links or the length of the text. -/
theorem linked_text_readback (look : Str → Target) (v : LT) (h : v.ok = true) :
    readBack look (renderValue v) = some (.ok (renderValue (view look v.dropLead))) :=
  readBack_value look v h

/-- The statement read literally: every canonical linked-text value is read back as written. -/
def linked_text_roundtrip_full : Prop :=
  ∀ (look : Str → Target) (v : LT), v.ok = true → readBack look (renderValue v) = some (.ok (renderValue v))

/-- It does not hold as coded: a dead link reads back as the text `<deleted element …>` (known finding
`spec.linkedtext|dead-link-reads-as-placeholder`), and a whitespace-only leading text is dropped (known finding
`spec.linkedtext|whitespace-only-leading-text-dropped`). Both witnesses are replayed on the implementation. -/
theorem linked_text_roundtrip_full_fails : ¬ linked_text_roundtrip_full := by
  intro h
  have h1 := h (fun _ => .missing) ⟨[], [⟨['u'], ['n'], []⟩]⟩ (by decide)
  rw [readBack_value _ _ (by decide)] at h1
  simp only [Option.some.injEq, Except.ok.injEq] at h1
  revert h1
  decide

/-- the second witness: a blank before the first link is lost -/
theorem linked_text_whitespace_lead_dropped :
    readBack (fun _ => .named ['n']) (renderValue ⟨[' '], [⟨['u'], ['n'], []⟩]⟩) =
      some (.ok (renderValue ⟨[], [⟨['u'], ['n'], []⟩]⟩)) := by
  rw [readBack_value _ _ (by decide)]
  have e : view (fun _ => Target.named ['n']) (LT.dropLead ⟨[' '], [⟨['u'], ['n'], []⟩]⟩)
      = ⟨[], [⟨['u'], ['n'], []⟩]⟩ := by decide
  rw [e]

/-- **Round trip** — the part that holds, with the exact excluded inputs as hypotheses: if every link is live
and carries its target's current name and the leading text is empty or not whitespace-only, the value read
back is the value assigned (`unescape (escape v) = v`). -/
theorem linked_text_roundtrip_partial (look : Str → Target) (v : LT) (h : v.ok = true)
    (hl : allLive look v = true) (hk : v.leadKept = true) :
    readBack look (renderValue v) = some (.ok (renderValue v)) :=
  readBack_live look v h hl hk

/-- **`escape` is injective** up to what it does not store (the display names of links) and the dropped
whitespace-only lead: two canonical values with the same stored form have the same text runs and link ids. -/
theorem linked_text_escape_injective (a b : LT) (ha : a.ok = true) (hb : b.ok = true)
    (h : escapeLinked (renderValue a) = escapeLinked (renderValue b)) :
    a.dropLead.skeleton = b.dropLead.skeleton :=
  escapeLinked_inj a b ha hb h

/-- **The stored form is XML-safe**: it is `renderRaw v.dropLead`, consists of XML-legal characters only (lxml
accepts it as element text) and the parser of the sub-language reads it back to exactly the tokens it was
rendered from — every `<` in it opens an `<a href="…"/>`, every `&` one of the five references. -/
theorem linked_text_stored_form (v : LT) (h : v.ok = true) :
    escapeLinked (renderValue v) = some (.ok (renderRaw v.dropLead)) ∧
      xmlOk (renderRaw v.dropLead) = true ∧
      parseSub (renderRaw v.dropLead) = some ⟨leadOf v.dropLead.lead, v.dropLead.links.map rawNode⟩ :=
  ⟨escapeLinked_value v h, xmlOk_renderRaw _ (dropLead_ok v h), parseSub_renderRaw _ (dropLead_ok v h)⟩

/-- Before the repair, a link id that `follow_link` calls malformed (`hlink://a b c`) was accepted by the
setter and made the getter raise ValueError; now it reads as a deleted element. Kept so that a reverted repair is
recognisable by name. -/
theorem malformed_link_unreadable_before_fix (look : Str → Target) (l : Link) (h : look l.id = .malformed) :
    unescLinkOld look l.id l.tail = .error .valueError ∧
      unescNode look (rawNode l) = .ok (sDeletedL ++ htmlEscape l.id ++ sEntGt ++ htmlEscape l.tail) :=
  unescLinkOld_malformed look l h

/-! ## Timestamps (`isoformat` / `fromisoformat` on the shapes the code writes, `Model/PodsDt.lean`) -/

/-- **Timestamps round-trip to the millisecond** — the part that holds: for every valid aware datetime `t`
(years 1–9999, any offset strictly inside ±24 h with microsecond resolution) whose offset is zero or at least one
second, the XML text `re_set.sub("", t.isoformat("T", "milliseconds"))` is XML-legal and
`fromisoformat(re_get.sub(":", ·))` of it is `t` with the sub-millisecond part cut off — same local fields, same
offset. -/
theorem datetime_iso_partial (t : DT) (hv : t.valid = true) (hq : ¬ subSecondOffset t) :
    isoParse (reGet (reSet (isoFormat t))) = .ok (truncMs t) ∧ xmlOk (reSet (isoFormat t)) = true :=
  ⟨stored_roundtrip_ok t hv hq, xmlOk_stored t⟩

/-- The statement read literally: every valid aware datetime is read back (to the millisecond). -/
def datetime_iso_full : Prop :=
  ∀ t : DT, t.valid = true → isoParse (reGet (reSet (isoFormat t))) = .ok (truncMs t)

/-- It does not hold: CPython's `fromisoformat` returns UTC whenever the whole-seconds part of the offset is 0,
so `timezone(timedelta(microseconds=500000))` is read back as UTC (known finding
`pod.get|read-back-differs|datetime:aware-subsecond-offset`; witness replayed on the implementation). -/
theorem datetime_iso_full_fails : ¬ datetime_iso_full := by
  intro h
  have h1 := h quirkDT quirk_witness.1
  rw [stored_roundtrip] at h1
  exact quirk_witness.2.2.2.2 h1

/-- … and that is the only exception: the round trip holds **iff** the offset is not sub-second. -/
theorem datetime_iso_exact (t : DT) (hv : t.valid = true) :
    isoParse (isoFormat t) = .ok (truncMs t) ↔ ¬ subSecondOffset t :=
  isoParse_isoFormat_iff t hv

/-- Capella's own spelling: for an offset of whole minutes the stored text ends in `+HHMM` (no colon), for any
other offset it is the `isoformat` text unchanged. -/
theorem datetime_stored_shape (t : DT) :
    (t.off % 60000000 = 0 → reSet (isoFormat t) = isoCompact t) ∧
      (t.off % 60000000 ≠ 0 → reSet (isoFormat t) = isoFormat t) :=
  ⟨reSet_isoFormat_minutes t, reSet_isoFormat_seconds t⟩

/-- **Round trip with the concrete timestamp codec**: for `withDT P …` (aware values are `DT`, `isoformat`,
`fromisoformat`, truncation are the functions of the model) nothing about datetimes is assumed any more —
`pod_roundtrip` holds with the datetime laws *proved*. What remains a parameter: `astimezone()` of a naive value
and `fromisoformat` on shapes the code never writes. -/
theorem pod_roundtrip_concrete_datetime (P : Params) (hP : P.Lawful) (localize : P.N → Option DT)
    (foreign : Str → Option (P.N ⊕ DT)) (d : Desc) (hd : d.wf = true) (a : Attrs)
    (v : PyVal (withDT P localize foreign)) (hv : valid (withDT P localize foreign) d v = true)
    (hw : d.writable = true ∨ a.has d.attr = false) :
    ∃ a', set (withDT P localize foreign) d a v = .ok a' ∧
      ∃ w, get (withDT P localize foreign) d a' = .ok w ∧ Same _ w (denote (withDT P localize foreign) d v) :=
  pod_roundtrip (withDT P localize foreign) (withDT_lawful P hP localize foreign) d hd a v hv hw

/-! ## Specifications as a mutable mapping (`Model/PodsSpecMap.lean`) -/

/-- **`_Specification` refines a Python dict with insertion order.** On a specification whose `languages` /
`bodies` children pair up, all have a text and the keys are distinct (`WellPaired`), for arbitrary other children
interleaved, every history of `get` / `set` / `del` / `keys` / `len` operations — of any length — keeps the
invariant, returns exactly what the same history returns on the association list `absDict s` (new keys appended
at the end, existing keys updated in place, deleted keys removed, order of the others kept; `LinkedText` and
`capella:linkedText` one key), and never touches a child that is not a `languages` / `bodies`. -/
theorem spec_is_mutable_mapping (P : Params) (ops : List SpecOp) (s : Spec) (hw : WellPaired s) :
    WellPaired (specRun P s ops).1 ∧
      dictRun P (absDict s) ops = (absDict (specRun P s ops).1, (specRun P s ops).2) ∧
      others (specRun P s ops).1 = others s :=
  specRun_refines P ops s hw

/-- **Deletion**: after a successful `del spec[k]` the key is gone, every other key reads what it read before,
the keys are the old ones without `k` (order kept) and the length dropped by one. -/
theorem spec_del_removes (P : Params) (s s' : Spec) (k : Str) (hw : WellPaired s) (h : specDel s k = .ok s') :
    WellPaired s' ∧ specGet P s' k = .error .keyError ∧
      specKeys s' = (specKeys s).erase (specAlias k) ∧
      (∀ k', specAlias k' ≠ specAlias k → specGet P s' k' = specGet P s k') ∧
      specLen s' + 1 = specLen s ∧ others s' = others s :=
  specDel_removes P s s' k hw h

/-- **Insertion order**: a new key goes last, an existing key keeps its place. -/
theorem spec_set_order (P : Params) (s s' : Spec) (k v : Str) (hw : WellPaired s)
    (h : specSet P s k v = .ok s') :
    (specAlias k ∉ specKeys s → specKeys s' = specKeys s ++ [specAlias k] ∧ specLen s' = specLen s + 1) ∧
      (specAlias k ∈ specKeys s → specKeys s' = specKeys s ∧ specLen s' = specLen s) :=
  ⟨specSet_new_appends P s s' k v hw h, specSet_existing_keeps_keys P s s' k v hw h⟩

/-- What a caller observes depends only on the mapping, not on foreign children or on how the children are
interleaved. -/
theorem spec_layout_invisible (P : Params) (ops : List SpecOp) (s₁ s₂ : Spec)
    (h₁ : WellPaired s₁) (h₂ : WellPaired s₂) (h : absDict s₁ = absDict s₂) :
    (specRun P s₁ ops).2 = (specRun P s₂ ops).2 ∧
      absDict (specRun P s₁ ops).1 = absDict (specRun P s₂ ops).1 :=
  specRun_observations P ops s₁ s₂ h₁ h₂ h

/-! ## Floats: special values, default elision, acceptance set (`Lemmas/PodsFloat.lean`) -/

/-- **Special values.** `+inf` is written as `*` and `*` is read as `+inf`; `nan` and `-inf` are rejected with
ValueError before anything is written; a finite float is written as `str(x)`. -/
theorem float_special_values (P : Params) (attr : Str) (w : Bool) (a : Attrs) (hw : w = true ∨ a.has attr = false) :
    set P ⟨.float, attr, w⟩ a (.float .inf) = .ok (a.set attr star) ∧
      get P ⟨.float, attr, w⟩ (a.set attr star) = .ok (.float .inf) ∧
      set P ⟨.float, attr, w⟩ a (.float .nan) = .error .valueError ∧
      set P ⟨.float, attr, w⟩ a (.float .ninf) = .error .valueError :=
  float_special P attr w a hw

/-- **Default elision for floats**: `0.0`, `-0.0`, the int `0` and `False` all compare equal to the default
and remove the attribute. -/
theorem float_default_elision (P : Params) (hP : P.Lawful) (attr : Str) (a : Attrs) (v : PyVal P)
    (hz : floatZeroLike P v = true) :
    set P ⟨.float, attr, true⟩ a v = .ok (a.pop attr) :=
  float_zero_elided P hP attr a v hz

/-- **The exact acceptance set of the float setter**: an assignment to a writable float slot succeeds iff the
value is in the slot's domain (`None`, `+inf`, a finite float, or an int / bool that `float()` can convert) —
for every attribute map. -/
theorem float_setter_acceptance (P : Params) (hP : P.Lawful) (h0 : (P.fOfInt 0).isSome = true) (attr : Str)
    (a : Attrs) (v : PyVal P) :
    (∃ a', set P ⟨.float, attr, true⟩ a v = .ok a') ↔ valid P ⟨.float, attr, true⟩ v = true :=
  float_accepts_iff P hP h0 attr a v

/-- Every float slot of the generated table is a well-formed float descriptor with default `0.0`, so the three
float theorems and `pod_roundtrip` apply to each of them. -/
theorem float_rows_covered :
    ∀ r ∈ Capella.Gen.Pods.podTable, r.desc.kind = .float → r.desc.wf = true ∧ r.default = .zeroFloat := by
  intro r hr hk
  have hwf := Capella.Gen.Pods.podTable_wf r hr
  refine ⟨Row.desc_wf r hwf, ?_⟩
  obtain ⟨cls, py, owner, ⟨kind, a, w⟩, dflt⟩ := r
  simp only at hk
  subst hk
  cases dflt <;> simp [Row.wf] at hwf ⊢

-- Non-vacuity: a lawful parameter instance exists, and concrete descriptors/values compute.
example : Toy.params.Lawful := Toy.lawful
example : Capella.Gen.Pods.podTable.length = Capella.Gen.Pods.nRows := Capella.Gen.Pods.nRows_ok
example : Pods.set Toy.params ⟨.int, ['v'], true⟩ [(['i','d'], ['x'])] (.int (-42))
    = .ok [(['i','d'], ['x']), (['v'], ['-','4','2'])] := by rfl
example : Pods.get Toy.params ⟨.int, ['v'], true⟩ [(['v'], [' ','-','4','_','2'])] = .ok (.int (-42)) := by rfl
example : Pods.set Toy.params ⟨.float, ['v'], true⟩ [] (.float .inf) = .ok [(['v'], ['*'])] := by rfl
example : Pods.get Toy.params ⟨.float, ['v'], true⟩ [(['v'], ['*'])] = .ok (.float .inf) := by rfl
example : Pods.set Toy.params ⟨.datetime, ['v'], true⟩ [] (.aware (1 : Fin 3))
    = .ok [(['v'], "1999-12-31T00:00:00.000-0530".toList)] := by rfl
example : Pods.get Toy.params ⟨.datetime, ['v'], true⟩ [(['v'], "1999-12-31T00:00:00.000-0530".toList)]
    = .ok (.aware (1 : Fin 3)) := by rfl
example : Pods.set Toy.params ⟨.enum Capella.Gen.Pods.e_ControlNodeKind "OR".toList, ['k'], true⟩
    [(['k'], "AND".toList)] (.str "OR".toList) = .ok [] := by rfl
example : specSet Toy.params [⟨['x'], none⟩, ⟨tBodies, some ['o','l','d']⟩, ⟨tLanguages, some ['p','y']⟩] ['p','y'] ['n','e','w']
    = .ok [⟨['x'], none⟩, ⟨tBodies, some ['n','e','w']⟩, ⟨tLanguages, some ['p','y']⟩] := by rfl
example : specGet Toy.params [⟨tBodies, some ['b']⟩, ⟨tLanguages, some kLinked⟩] kAlias = .ok ['b'] := by rfl
example : Pods.set Toy.params ⟨.string, ['i','d'], false⟩ [(['i','d'], ['x'])] (.str ['y'])
    = .error .typeError := by rfl

/-- a live link, text with markup-significant characters before and after it: read back as written -/
example : readBack (fun _ => .named "n&m".toList) (renderValue ⟨"a<".toList, [⟨"u".toList, "n&m".toList, " > t".toList⟩]⟩)
    = some (.ok (renderValue ⟨"a<".toList, [⟨"u".toList, "n&m".toList, " > t".toList⟩]⟩)) :=
  linked_text_roundtrip_partial _ _ (by decide) (by decide) (by decide)
example : renderValue ⟨"a<".toList, [⟨"u".toList, "n&m".toList, " > t".toList⟩]⟩
    = "a&lt;<a href=\"hlink://u\">n&amp;m</a> &gt; t".toList := by decide
example : renderRaw ⟨"a<".toList, [⟨"u".toList, "n&m".toList, " > t".toList⟩]⟩ = "a&lt;<a href=\"u\"/> &gt; t".toList := by decide
example : view (fun h => if h = ['u'] then .named ['N'] else .missing)
    ⟨['a'], [⟨['u'], ['o'], ['b']⟩, ⟨['g'], ['x'], ['!']⟩]⟩ = ⟨['a'], [⟨['u'], ['N'], "b<deleted element g>!".toList⟩]⟩ := by decide
example : (⟨"a".toList, [⟨"u".toList, "n".toList, " t".toList⟩]⟩ : LT).ok = true ∧
    allLive (fun _ => .named "n".toList) ⟨"a".toList, [⟨"u".toList, "n".toList, " t".toList⟩]⟩ = true := by decide
example : isoFormat ⟨1, 1, 1, 0, 0, 0, 999999, -86340000000⟩ = "0001-01-01T00:00:00.999-23:59".toList := by decide
example : reSet (isoFormat ⟨2021, 7, 23, 15, 0, 0, 0, 7200000000⟩) = "2021-07-23T15:00:00.000+0200".toList := by decide
example : isoParse "2021-02-30T00:00:00.000+01:00".toList = .bad := by decide
example : (⟨9999, 12, 31, 23, 59, 59, 999999, 0⟩ : DT).valid = true ∧ ¬ subSecondOffset ⟨9999, 12, 31, 23, 59, 59, 999999, 0⟩ := by decide
example : WellPaired [⟨['x'], none⟩, ⟨tBodies, some ['b']⟩, ⟨tLanguages, some "python".toList⟩] := by decide
example : (specRun Toy.params [⟨tBodies, some ['b']⟩, ⟨tLanguages, some ['p']⟩]
    [.set ['q'] ['c'], .keys, .del ['p'], .len, .get ['p']]).2
    = [.unit, .keys [['p'], ['q']], .unit, .len 1, .err .keyError] := by decide
example : floatZeroLike Toy.params (.int 0) = true := by rfl

end Capella.Props.C07
