import Capella.Lemmas.CoupledList
import Capella.Lemmas.CoupledAssign
import Capella.Gen.Descr
import Capella.Gen.Acc
import Capella.Lemmas.AccessorProps
import Capella.Lemmas.AccessorRound5

/-!
# C08 — model-coupled lists behave like Python lists and write through

`view kids` is what a freshly fetched list shows (the matching children of the owner, in document
order); the list object in hand mirrors every accepted operation with Python's own `list.insert` /
`del`, so "mirror = fresh" is exactly `view (op kids) = pyOp (view kids)`.
-/
namespace Capella.Props.C08
open Capella.CoupledList Capella.DescrTable

/-- Containment lists (DirectProxy / RoleTag / AttributeMatcher): inserting at ANY integer index —
negative, zero, beyond both ends — among arbitrarily interleaved other children yields exactly what
`list.insert` yields on the view. -/
theorem containment_insert_refines_list (kids : List Child) (hn : (kids.map (·.1)).Nodup)
    (i : Int) (x : Nat) :
    view (insertChild kids i x) = pyInsert (view kids) i x :=
  insertChild_view' kids hn i x

/-- … and no other child of the owner is added, removed or reordered. -/
theorem containment_insert_frame (kids : List Child) (i : Int) (x : Nat) :
    others (insertChild kids i x) = others kids :=
  insertChild_others' kids i x

/-- The index translation as it was before the repair does not refine `list.insert`:
`insert(-1, x)` with another child kind trailing the list appends instead of inserting before the
last member. -/
theorem containment_insert_old_fails :
    ¬ ∀ (kids : List Child) (i : Int) (x : Nat) (r : List Child),
        insertChildOld kids i x = .ok r → view r = pyInsert (view kids) i x := by
  intro h
  have := h [(1, true), (2, false)] (-1) 9 _ (by rfl)
  revert this
  decide

/-- Deleting a member removes exactly it from the view, and nothing else from the owner. -/
theorem containment_delete_refines_list (kids : List Child) (x : Nat) :
    view (deleteChild kids x) = (view kids).filter (· ≠ x) ∧
    others (deleteChild kids x) = (others kids).filter (· ≠ x) :=
  ⟨deleteChild_view' kids x, deleteChild_others' kids x⟩

/-- Item assignment and whole-list assignment on a containment list (the repaired `__set__`: drop
the members that are not kept, then move every new member into place): the view becomes exactly the
assigned sequence — any length, any mix of kept members, moved-in objects and reorderings — and no
other child of the owner is touched. -/
theorem containment_assign_refines_list (kids : List Child) (new : List Nat)
    (hn : (kids.map (·.1)).Nodup) (hnew : new.Nodup) (hfree : ∀ x ∈ new, x ∉ others kids) :
    view (assign kids new) = new ∧ others (assign kids new) = others kids :=
  assign_spec' kids new hn hnew hfree

/-- Link-element lists (LinkAccessor): an accepted insertion at any integer index is `list.insert`. -/
theorem link_insert_refines_list (targets : List Nat) (hn : targets.Nodup) (u : Bool) (i : Int)
    (x : Nat) (r : List Nat) (h : linkInsert targets u i x = .ok r) :
    r = pyInsert targets i x :=
  linkInsert_spec' targets hn u i x r h

/-- Clearing (or re-assigning) one link-element relation leaves every sibling relation alone, also when
both store their link elements under the same XML tag and are told apart by `xsi:type` only
(`FunctionalChain.involved_links` / `involved_functions`). -/
theorem link_clear_spares_siblings (tag tag' : Option String) (xts xts' : List String)
    (kids : List LinkKid) (hdis : ∀ x ∈ xts', x ∉ xts) :
    linkTargets tag' xts' (linkClear tag xts kids) = linkTargets tag' xts' kids ∧
    linkTargets tag xts (linkClear tag xts kids) = [] := by
  constructor
  · unfold linkTargets linkClear
    rw [List.filter_filter]
    congr 1
    apply List.filter_congr
    intro k _
    by_cases h : isRef tag' xts' k = true
    · have hx : k.xt ∈ xts' := by
        simp only [isRef, Bool.and_eq_true, List.contains_iff_mem] at h
        exact h.2
      have : isRef tag xts k = false := by
        simp only [isRef, Bool.and_eq_false_iff, List.contains_eq_mem, decide_eq_false_iff_not]
        exact Or.inr (hdis _ hx)
      simp [h, this]
    · simp [h]
  · unfold linkTargets linkClear
    rw [List.filter_filter]
    simp

/-- Uniqueness-enforcing link lists reject a member that is already present (and, being a pure
rejection, change nothing). -/
theorem unique_rejects_duplicate (targets : List Nat) (i : Int) (x : Nat) (hx : x ∈ targets) :
    linkInsert targets true i x = .error .nonUnique := by
  simp [linkInsert, hx]

/-- Attribute-link lists are rewritten as a whole from `[*lst[:i], x, *lst[i:]]`: `list.insert` by
construction; the only proof obligation is the link round trip (C05). -/
theorem attr_insert_is_list_insert (targets : List Nat) (i : Int) (x : Nat) :
    attrInsert targets i x = pyInsert targets i x := rfl

/-- Fixed-length relations never grow: an insertion into a full list is rejected, an accepted one
happened below the limit. -/
theorem fixed_length_kept (fixed : Nat) (targets : List Nat) (i : Int) (x : Nat) (r : List Nat)
    (h : fixedLenInsert fixed targets i x = .ok r) : fixed = 0 ∨ targets.length < fixed := by
  unfold fixedLenInsert at h
  split at h
  · cases h
  · rename_i hc
    by_cases hf : fixed = 0
    · exact Or.inl hf
    · right
      apply Classical.byContradiction
      intro hlt
      exact hc ⟨hf, Nat.le_of_not_lt hlt⟩

/-- Every list-valued writable relation of every registered model class (generated from the live
classes on every run) is stored in one of the ways the theorems above treat. -/
theorem every_list_relation_covered :
    ∀ r ∈ Capella.Gen.Descr.table, r.writable = true → r.aslist = true → r.storage.isSome = true := by
  intro r hr hw hl
  have := Capella.Gen.Descr.table_covered r hr
  simpa [Row.covered, hw, hl] using this

-- Non-vacuity
example : view (insertChild [(1, true), (7, false), (2, true), (8, false)] (-1) 9) = [1, 9, 2] := by decide
example : view (insertChild [(1, true), (7, false), (2, true), (8, false)] (-7) 9) = [9, 1, 2] := by decide
example : view (insertChild [(1, true), (7, false), (2, true), (8, false)] 5 9) = [1, 2, 9] := by decide
example : view (assign [(1, true), (7, false), (2, true), (3, true), (8, false)] [3, 9, 1]) = [3, 9, 1] := by decide
example : others (assign [(1, true), (7, false), (2, true), (3, true), (8, false)] [3, 9, 1]) = [7, 8] := by decide
example : (Capella.Gen.Descr.table.filter (fun r => r.writable && r.aslist)).length > 100 := by decide +kernel

/-! ### the accessor layer (`Model/Accessor.lean`) -/
section Accessor
open Capella.Accessor Capella.AccTable

/-- Every relation descriptor of every registered class that is writable is of a kind whose mutation methods the
accessor model implements (DirectProxy / AttributeMatcher / RoleTag / Link / AttrProxy / PhysicalLinkEnds) or of a
kind that only delegates (Typecast, the virtual ReqIF relations), and carries the parameters that kind needs
(kernel-checked per 50-row chunk of the table generated from the live classes on every run). -/
theorem every_writable_relation_implemented : ∀ r ∈ Capella.Gen.Acc.table, r.implemented = true :=
  Capella.Gen.Acc.table_implemented

/-- A rejected insertion changes nothing — `NewObject`s and objects of another model, for every relation kind, every
index and every list in hand: no tree, no index, no detached element differs afterwards. -/
theorem rejected_insert_changes_nothing (t : Tables) (row : ARow) (owner : Nat) (elems : List Nat) (i : Int) (s : State) :
    (∀ h, Same s (listInsert t row owner elems i (.newObject h) s).st) ∧ Same s (listInsert t row owner elems i .foreign s).st :=
  ⟨fun h => (frame_listInsert_newObject t row owner elems i h).fr s, (frame_listInsert_foreign t row owner elems i).fr s⟩

/-- A fixed-length relation that is full refuses every insertion with TypeError and changes nothing. -/
theorem full_fixed_length_list_refuses_insert (t : Tables) (row : ARow) (owner : Nat) (elems : List Nat) (i : Int) (v : Val) (s : State)
    (hf : row.fixed ≠ 0) (hl : elems.length ≥ row.fixed) :
    (listInsert t row owner elems i v s).val = .error .typeError ∧ Same s (listInsert t row owner elems i v s).st :=
  listInsert_fixed t row owner elems i v s hf hl

/-- The member sequence `AttrProxyAccessor.insert` writes is Python's `list.insert` applied to the list in hand, for
every integer index (so the list in hand, which mirrors the edit with `list.insert`, and the stored attribute agree). -/
theorem attr_insert_writes_list_insert (elems : List Nat) (i : Int) (v : Nat) :
    elems.take (pySliceBound elems.length i) ++ [v] ++ elems.drop (pySliceBound elems.length i)
      = Capella.CoupledList.pyInsert elems i v :=
  attrInsert_seq elems i v

/-- Which members an assignment to a containment list removes from the model (`DirectProxyAccessor.__set__`, reached by
`owner.rel = […]`, `lst[i] = x` and `lst[a:b] = […]`): exactly the members whose OWN ELEMENT is not among the assigned
objects. Element identity decides – the objects' `==` (which `EnumerationLiteral`, the ReqIF enum values and types
override to compare a name) plays no part: a member that merely equals an assigned object is dropped, an assigned
member is never dropped. -/
theorem assignment_drops_by_element_identity (lst : List Nat) (values : List Val) (v : Nat) :
    v ∈ setDropped lst values ↔ v ∈ lst ∧ ¬ (∃ w ∈ values, w = Val.elem v) :=
  mem_setDropped lst values v

/-- Item assignment at a valid position of a list without repeated members, with an object that is not a member:
the one member dropped is the one at that position (whatever the other members or the new object compare equal to). -/
theorem item_assignment_drops_exactly_the_replaced_member (elems : List Nat) (hn : elems.Nodup) (k : Nat)
    (hk : k < elems.length) (x : Nat) (hx : x ∉ elems) (v : Nat) :
    v ∈ setDropped elems ((elems.map Val.elem).set k (Val.elem x)) ↔ v = elems[k] := by
  rw [mem_setDropped]
  constructor
  · rintro ⟨hv, hnot⟩
    obtain ⟨j, hj, rfl⟩ := List.getElem_of_mem hv
    by_cases hjk : j = k
    · subst hjk; rfl
    · exfalso; apply hnot
      refine ⟨Val.elem elems[j], ?_, rfl⟩
      rw [List.mem_iff_getElem]
      refine ⟨j, by simpa using hj, ?_⟩
      rw [List.getElem_set_ne (Ne.symm hjk)]
      simp
  · rintro rfl
    refine ⟨List.getElem_mem hk, ?_⟩
    rintro ⟨w, hw, rfl⟩
    obtain ⟨j, hj, hje⟩ := List.getElem_of_mem hw
    have hj' : j < elems.length := by simpa using hj
    by_cases hjk : j = k
    · subst hjk
      rw [List.getElem_set_self] at hje
      simp only [Val.elem.injEq] at hje
      exact hx (hje ▸ List.getElem_mem hk)
    · rw [List.getElem_set_ne (Ne.symm hjk)] at hje
      simp only [List.getElem_map, Val.elem.injEq] at hje
      exact hjk ((List.getElem_inj hn).mp hje)
/-- Slice assignment hands the accessor what Python's `l[lo:hi] = vs` gives on the list in hand; the whole range is
whole-list assignment, a one-element range at a valid position is item assignment, and an empty range is
`list.insert` – for every integer bound. -/
theorem slice_assignment_is_python_slice_assignment (l : List Nat) (vs : List Nat) (k : Nat) (hk : k < l.length)
    (i : Int) (v : Nat) :
    pySetSlice l 0 l.length vs = vs ∧ pySetSlice l k (k + 1) [v] = l.set k v ∧
    pySetSlice l i i [v] = Capella.CoupledList.pyInsert l i v :=
  ⟨pySetSlice_whole l vs, pySetSlice_one l k v hk, pySetSlice_empty_range l i v⟩

/-- FULL statement for deleting from an attribute-link list: the member sequence `AttrProxyAccessor.delete` writes
(`[i for i in elmlist if i is not obj]`) is the list in hand without ONE occurrence of the object – what `del l[i]` /
`l.remove(x)` leave of a Python list. -/
def C08_attr_delete_full : Prop :=
  ∀ (elems : List Nat) (obj : Nat), elems.filter (· != obj) = elems.erase obj

/-- … which the code does not satisfy: an object held twice loses both positions (listed finding
`member-held-twice-deleted-everywhere|AttrProxyAccessor|…`; `accessor.delete(list, obj)` is not told the position). -/
theorem C08_attr_delete_fails : ¬ C08_attr_delete_full := by
  intro h
  have := h [1, 1] 1
  revert this
  decide

/-- … and does satisfy for every list that holds the deleted object at most once (in particular every list without
repeated members). -/
theorem C08_attr_delete_partial (elems : List Nat) (obj : Nat) (h : elems.count obj ≤ 1) :
    elems.filter (· != obj) = elems.erase obj := by
  induction elems with
  | nil => rfl
  | cons a t ih =>
    by_cases ha : a = obj
    · subst ha
      have hc : t.count a = 0 := by
        rw [List.count_cons_self] at h; omega
      have hnm : a ∉ t := List.count_eq_zero.mp hc
      have hf : t.filter (· != a) = t := by
        apply List.filter_eq_self.mpr
        intro x hx
        have : x ≠ a := fun e => hnm (e ▸ hx)
        simpa using this
      simp [hf]
    · have hc : t.count obj ≤ 1 := by
        rw [List.count_cons_of_ne ha] at h; exact h
      have hne : (a != obj) = true := by simpa using ha
      have hne' : (a == obj) = false := by simpa using ha
      simp only [List.filter_cons, hne, if_true, List.erase_cons, hne', ih hc]
      simp

/-- Round 5. The virtual ReqIF relations (`ModelElement.requirements`, `Requirement.related`) refuse every edit of their
lists – `insert`/`append` and `del`/`remove` with NotImplementedError, whole-list / item / slice assignment and `del
owner.rel` with TypeError – and nothing changes: no tree, no index, no detached element. -/
theorem virtual_relation_refuses_every_edit (t : Tables) (row : ARow) (o : Nat) (es : List Nat) (i : Int) (v : Val) (x : Nat)
    (vs : List Val) (s : State) (hk : row.kind = .elementRelationAccessor) :
    ((accInsert t row o es i v s).val = .error .notImplemented ∧ Same s (accInsert t row o es i v s).st) ∧
    ((accDelete t row o es x s).val = .error .notImplemented ∧ Same s (accDelete t row o es x s).st) ∧
    ((accSet t row o vs s).val = .error .typeError ∧ Same s (accSet t row o vs s).st) ∧
    ((accDel t row o s).val = .error .typeError ∧ Same s (accDel t row o s).st) :=
  elementRelation_refuses t row o es i v x vs s hk

/-- Round 5. `TypecastAccessor.insert` of an object that is not an instance of the class the relation casts to is refused
with TypeError before the relation it delegates to is looked up; nothing changes. -/
theorem typecast_insert_of_wrong_class_changes_nothing (t : Tables) (row : ARow) (o : Nat) (es : List Nat) (i : Int) (v : Nat)
    (cls : String) (s : State) (hk : row.kind = .typecastAccessor) (hc : row.elemClass = some cls)
    (hi : (isInstanceOf t v cls s).val = .ok false) :
    (accInsert t row o es i (.elem v) s).val = .error .typeError ∧ Same s (accInsert t row o es i (.elem v) s).st :=
  typecast_insert_wrong_class t row o es i v cls s hk hc hi

end Accessor

-- Non-vacuity (round 5): element 3 of a small model has the unregistered type "T", so its class is `ModelElement`; it is
-- not an instance of the class "X" a Typecast relation casts to; the list of a Typecast relation is coupled to the
-- relation of that name on the owner's class.
section Round5Example
open Capella.Accessor Capella.AccTable Capella.Index
def r5Rows : List Capella.Accessor.Row :=
  [⟨1, none, "root", [("id", "r")], none⟩, ⟨2, some 1, "ownedPkg", [("id", "p")], some "P"⟩,
   ⟨3, some 2, "ownedMember", [("id", "m")], some "T"⟩]
def r5State : State := { frags := [{ name := "m", semantic := true, idtypes := ["id"], rows := r5Rows }], ix := [] }
def r5ME : CRow := ⟨"capellambse.model._obj.ModelElement", "ModelElement", none, none, [], ["capellambse.model._obj.ModelElement"], none⟩
def r5Inner : ARow := ⟨"capellambse.model._obj.ModelElement", "links", .linkAccessor, true, true, 0, false, ["L"], some "ownedLinks", some "target", none, [], false, none, [], none, []⟩
def r5Cast : ARow := ⟨"capellambse.model._obj.ModelElement", "xs", .typecastAccessor, true, true, 0, false, [], none, some "links", none, [], false, some "X", [], none, []⟩
def r5Virt : ARow := ⟨"capellambse.model._obj.ModelElement", "requirements", .elementRelationAccessor, true, true, 0, false, [], none, none, none, [], false, none, [], some "long_name", []⟩
def r5T : Tables := ⟨[r5Inner, r5Cast, r5Virt], [r5ME]⟩
example : (match (isInstanceOf r5T 3 "X" r5State).val with | .ok false => true | _ => false) = true := by decide +kernel
example : (match (coupledRow r5T r5Cast 2 r5State).val with | .ok r => r.attr == "links" | _ => false) = true := by decide +kernel
example : (match (apiStep r5T (.insert r5Virt 2 (some []) 0 (.elem 3)) r5State).val with
    | .error .notImplemented => true | _ => false) = true := by decide +kernel
end Round5Example

-- Non-vacuity (round 4): members 1, 2, 3; `lst[0] = 9` drops 1 only; `owner.rel = [3, 1]` drops 2 only
example : Capella.Accessor.setDropped [1, 2, 3] [.elem 9, .elem 2, .elem 3] = [1] := by decide
example : Capella.Accessor.setDropped [1, 2, 3] [.elem 3, .str "2", .elem 1] = [2] := by decide
example : Capella.Accessor.pySetSlice [1, 2, 3, 4] 1 3 [9] = [1, 9, 4] := by decide
example : Capella.Accessor.pySetSlice [1, 2, 3, 4] (-1) 1 [9] = [1, 2, 3, 9, 4] := by decide

example : (Capella.Gen.Acc.table.filter (fun r => r.writable)).length > 300 := by decide +kernel

end Capella.Props.C08
