import Capella.Lemmas.CoupledList
import Capella.Lemmas.CoupledAssign
import Capella.Gen.Descr
import Capella.Gen.Acc
import Capella.Lemmas.AccessorProps

/-!
# C08 — model-coupled lists behave like Python lists and write through

`view kids` is what a freshly fetched list shows (the matching children of the owner, in document
order); the list object in hand mirrors every accepted operation with Python's own `list.insert` /
`del`, so "mirror = fresh" is exactly `view (op kids) = pyOp (view kids)`.
-/
namespace Capella.Props.C08
open Capella.CoupledList Capella.DescrTable

/-- Containment lists (DirectProxy / RoleTag / AttributeMatcher): inserting at ANY integer index —
negative, zero, beyond both ends — among arbitrarily interleaved other children yields exactly what
`list.insert` yields on the view. -/
theorem containment_insert_refines_list (kids : List Child) (hn : (kids.map (·.1)).Nodup)
    (i : Int) (x : Nat) :
    view (insertChild kids i x) = pyInsert (view kids) i x :=
  insertChild_view' kids hn i x

/-- … and no other child of the owner is added, removed or reordered. -/
theorem containment_insert_frame (kids : List Child) (i : Int) (x : Nat) :
    others (insertChild kids i x) = others kids :=
  insertChild_others' kids i x

/-- The index translation as it was before the repair does not refine `list.insert`:
`insert(-1, x)` with another child kind trailing the list appends instead of inserting before the
last member. -/
theorem containment_insert_old_fails :
    ¬ ∀ (kids : List Child) (i : Int) (x : Nat) (r : List Child),
        insertChildOld kids i x = .ok r → view r = pyInsert (view kids) i x := by
  intro h
  have := h [(1, true), (2, false)] (-1) 9 _ (by rfl)
  revert this
  decide

/-- Deleting a member removes exactly it from the view, and nothing else from the owner. -/
theorem containment_delete_refines_list (kids : List Child) (x : Nat) :
    view (deleteChild kids x) = (view kids).filter (· ≠ x) ∧
    others (deleteChild kids x) = (others kids).filter (· ≠ x) :=
  ⟨deleteChild_view' kids x, deleteChild_others' kids x⟩

/-- Item assignment and whole-list assignment on a containment list (the repaired `__set__`: drop
the members that are not kept, then move every new member into place): the view becomes exactly the
assigned sequence — any length, any mix of kept members, moved-in objects and reorderings — and no
other child of the owner is touched. -/
theorem containment_assign_refines_list (kids : List Child) (new : List Nat)
    (hn : (kids.map (·.1)).Nodup) (hnew : new.Nodup) (hfree : ∀ x ∈ new, x ∉ others kids) :
    view (assign kids new) = new ∧ others (assign kids new) = others kids :=
  assign_spec' kids new hn hnew hfree

/-- Link-element lists (LinkAccessor): an accepted insertion at any integer index is `list.insert`. -/
theorem link_insert_refines_list (targets : List Nat) (hn : targets.Nodup) (u : Bool) (i : Int)
    (x : Nat) (r : List Nat) (h : linkInsert targets u i x = .ok r) :
    r = pyInsert targets i x :=
  linkInsert_spec' targets hn u i x r h

/-- Clearing (or re-assigning) one link-element relation leaves every sibling relation alone, also when
both store their link elements under the same XML tag and are told apart by `xsi:type` only
(`FunctionalChain.involved_links` / `involved_functions`). -/
theorem link_clear_spares_siblings (tag tag' : Option String) (xts xts' : List String)
    (kids : List LinkKid) (hdis : ∀ x ∈ xts', x ∉ xts) :
    linkTargets tag' xts' (linkClear tag xts kids) = linkTargets tag' xts' kids ∧
    linkTargets tag xts (linkClear tag xts kids) = [] := by
  constructor
  · unfold linkTargets linkClear
    rw [List.filter_filter]
    congr 1
    apply List.filter_congr
    intro k _
    by_cases h : isRef tag' xts' k = true
    · have hx : k.xt ∈ xts' := by
        simp only [isRef, Bool.and_eq_true, List.contains_iff_mem] at h
        exact h.2
      have : isRef tag xts k = false := by
        simp only [isRef, Bool.and_eq_false_iff, List.contains_eq_mem, decide_eq_false_iff_not]
        exact Or.inr (hdis _ hx)
      simp [h, this]
    · simp [h]
  · unfold linkTargets linkClear
    rw [List.filter_filter]
    simp

/-- Uniqueness-enforcing link lists reject a member that is already present (and, being a pure
rejection, change nothing). -/
theorem unique_rejects_duplicate (targets : List Nat) (i : Int) (x : Nat) (hx : x ∈ targets) :
    linkInsert targets true i x = .error .nonUnique := by
  simp [linkInsert, hx]

/-- Attribute-link lists are rewritten as a whole from `[*lst[:i], x, *lst[i:]]`: `list.insert` by
construction; the only proof obligation is the link round trip (C05). -/
theorem attr_insert_is_list_insert (targets : List Nat) (i : Int) (x : Nat) :
    attrInsert targets i x = pyInsert targets i x := rfl

/-- Fixed-length relations never grow: an insertion into a full list is rejected, an accepted one
happened below the limit. -/
theorem fixed_length_kept (fixed : Nat) (targets : List Nat) (i : Int) (x : Nat) (r : List Nat)
    (h : fixedLenInsert fixed targets i x = .ok r) : fixed = 0 ∨ targets.length < fixed := by
  unfold fixedLenInsert at h
  split at h
  · cases h
  · rename_i hc
    by_cases hf : fixed = 0
    · exact Or.inl hf
    · right
      apply Classical.byContradiction
      intro hlt
      exact hc ⟨hf, Nat.le_of_not_lt hlt⟩

/-- Every list-valued writable relation of every registered model class (generated from the live
classes on every run) is stored in one of the ways the theorems above treat. -/
theorem every_list_relation_covered :
    ∀ r ∈ Capella.Gen.Descr.table, r.writable = true → r.aslist = true → r.storage.isSome = true := by
  intro r hr hw hl
  have := Capella.Gen.Descr.table_covered r hr
  simpa [Row.covered, hw, hl] using this

-- Non-vacuity
example : view (insertChild [(1, true), (7, false), (2, true), (8, false)] (-1) 9) = [1, 9, 2] := by decide
example : view (insertChild [(1, true), (7, false), (2, true), (8, false)] (-7) 9) = [9, 1, 2] := by decide
example : view (insertChild [(1, true), (7, false), (2, true), (8, false)] 5 9) = [1, 2, 9] := by decide
example : view (assign [(1, true), (7, false), (2, true), (3, true), (8, false)] [3, 9, 1]) = [3, 9, 1] := by decide
example : others (assign [(1, true), (7, false), (2, true), (3, true), (8, false)] [3, 9, 1]) = [7, 8] := by decide
example : (Capella.Gen.Descr.table.filter (fun r => r.writable && r.aslist)).length > 100 := by decide +kernel

/-! ### the accessor layer (`Model/Accessor.lean`) -/
section Accessor
open Capella.Accessor Capella.AccTable

/-- Every relation descriptor of every registered class that is writable is of a kind whose mutation methods the
accessor model implements (DirectProxy / AttributeMatcher / RoleTag / Link / AttrProxy / PhysicalLinkEnds) or of a
kind that only delegates (Typecast, the virtual ReqIF relations), and carries the parameters that kind needs
(kernel-checked per 50-row chunk of the table generated from the live classes on every run). -/
theorem every_writable_relation_implemented : ∀ r ∈ Capella.Gen.Acc.table, r.implemented = true :=
  Capella.Gen.Acc.table_implemented

/-- A rejected insertion changes nothing — `NewObject`s and objects of another model, for every relation kind, every
index and every list in hand: no tree, no index, no detached element differs afterwards. -/
theorem rejected_insert_changes_nothing (row : ARow) (owner : Nat) (elems : List Nat) (i : Int) (s : State) :
    (∀ h, Same s (listInsert row owner elems i (.newObject h) s).st) ∧ Same s (listInsert row owner elems i .foreign s).st :=
  ⟨fun h => (frame_listInsert_newObject row owner elems i h).fr s, (frame_listInsert_foreign row owner elems i).fr s⟩

/-- A fixed-length relation that is full refuses every insertion with TypeError and changes nothing. -/
theorem full_fixed_length_list_refuses_insert (row : ARow) (owner : Nat) (elems : List Nat) (i : Int) (v : Val) (s : State)
    (hf : row.fixed ≠ 0) (hl : elems.length ≥ row.fixed) :
    (listInsert row owner elems i v s).val = .error .typeError ∧ Same s (listInsert row owner elems i v s).st :=
  listInsert_fixed row owner elems i v s hf hl

/-- The member sequence `AttrProxyAccessor.insert` writes is Python's `list.insert` applied to the list in hand, for
every integer index (so the list in hand, which mirrors the edit with `list.insert`, and the stored attribute agree). -/
theorem attr_insert_writes_list_insert (elems : List Nat) (i : Int) (v : Nat) :
    elems.take (pySliceBound elems.length i) ++ [v] ++ elems.drop (pySliceBound elems.length i)
      = Capella.CoupledList.pyInsert elems i v :=
  attrInsert_seq elems i v

end Accessor

example : (Capella.Gen.Acc.table.filter (fun r => r.writable)).length > 300 := by decide +kernel

end Capella.Props.C08
