import Capella.Lemmas.GeomSnap
import Capella.Lemmas.GeomTranslate
import Capella.Lemmas.GeomView
import Capella.Lemmas.GeomMore
import Capella.Lemmas.GeomEdge
import Capella.Lemmas.GeomTree
import Capella.Lemmas.GeomCircle
import Capella.Lemmas.GeomRobust
import Capella.Lemmas.GeomEdgeEnd
import Capella.Gen.GeomCmp

/-!
# C17 — parsed diagrams are geometrically sound and independent of absolute position

Property theorems about the geometry kernel (`Capella.Geom`, exact over `Rat`); helper lemmas live in
`Capella/Lemmas/Geom*.lean`. Of the aird parser that composes these functions the edge chain is modelled
(`Model/GeomEdge.lean`: what `aird/_edge_factories.generic_factory` does to the points of an edge between two boxes —
bend point decoding, default routes, `snaptarget` with `snap_oblique/_manhattan/_tree`); the XML walking, labels, text
extents and filters are not (they are covered by the metamorphic run of `harness/props/c17.py`), so C17 as a whole
is partial.

A `Box` carries its `port` flag, so every `∀ b : Box` ranges over ports and non-ports.
-/
namespace Capella.Props.C17
open Capella.Geom

/-- Snapping never fails: for every proper box (positive width and height), every point, every source and
every routing style, port or not, `Box.vector_snap` returns a point — none of the Python assertions
(`doesn't have a direction`, `doesn't intersect`, `intersects multiple`, `closestaxis returned (0,0)`) and
no escaping `ValueError("Lines are parallel")` is reachable. -/
theorem snap_total (b : Box) (p s : V2) (st : Style) (hw : 0 < b.size.x) (hh : 0 < b.size.y) :
    ∃ q, vectorSnap b p s st = .ok q := by
  by_cases h : st = .tree
  · subst h; exact ⟨_, rfl⟩
  · obtain ⟨q, hq, _⟩ := vectorSnap_spec b p s st hw hh h
    exact ⟨q, hq⟩

/-- Oblique (including the closest-side snap used when `point == source` or no source is given) and
Manhattan snapping return a point on the outline of the box, for every box, point and approach direction. -/
theorem snap_on_outline (b : Box) (p s q : V2) (st : Style) (hw : 0 < b.size.x) (hh : 0 < b.size.y)
    (hst : st ≠ .tree) (hq : vectorSnap b p s st = .ok q) : onOutline b q := by
  obtain ⟨q', hq', ho⟩ := vectorSnap_spec b p s st hw hh hst
  rw [hq] at hq'
  cases hq'
  exact ho

/-- The full statement for tree routing — "a point on the top or bottom side, for every box, point and
approach direction" — which the code does *not* satisfy. -/
def tree_snap_on_side_full : Prop :=
  ∀ (b : Box) (p s q : V2), 0 < b.size.x → 0 < b.size.y →
    vectorSnap b p s .tree = .ok q → onTopOrBottom b q

/-- Witness 1: `point.x` outside the box's x-range is kept
(`Box((0,0),(1,1)).vector_snap((-1,-1), source=(-1,0), style=TREE) = (-1, 1)`). -/
theorem tree_snap_on_side_full_fails : ¬ tree_snap_on_side_full := by
  intro h
  have := h ⟨⟨0, 0⟩, ⟨1, 1⟩, false⟩ ⟨-1, -1⟩ ⟨-1, 0⟩ ⟨-1, 1⟩ (by decide +kernel) (by decide +kernel) (by decide +kernel)
  revert this
  decide +kernel

/-- Witness 2: `point == source` returns `point ∓ (1, 0)`, even for a point inside the box's x-range
(`Box((0,0),(4,4)).vector_snap((1,2), source=(1,2), style=TREE) = (2, 2)`). -/
theorem tree_snap_point_eq_source_fails :
    ¬ ∀ (b : Box) (p q : V2), 0 < b.size.x → 0 < b.size.y → b.pos.x ≤ p.x → p.x ≤ b.pos.x + b.size.x →
      vectorSnap b p p .tree = .ok q → onTopOrBottom b q := by
  intro h
  have := h ⟨⟨0, 0⟩, ⟨4, 4⟩, false⟩ ⟨1, 2⟩ ⟨2, 2⟩ (by decide +kernel) (by decide +kernel) (by decide +kernel) (by decide +kernel) (by decide +kernel)
  revert this
  decide +kernel

/-- What does hold for tree routing: with `point ≠ source`, the result is on the top or bottom *side* of the
box whenever the box is a port or `point.x` lies within the box's x-range (exactly the excluded inputs of
the two witnesses above). -/
theorem tree_snap_top_or_bottom_partial (b : Box) (p s q : V2) (hw : 0 < b.size.x)
    (hne : p ≠ s) (hx : b.port = true ∨ (b.pos.x ≤ p.x ∧ p.x ≤ b.pos.x + b.size.x))
    (hq : vectorSnap b p s .tree = .ok q) : onTopOrBottom b q := by
  have hd : p - s ≠ ⟨0, 0⟩ := fun h => hne ((sub_eq_zero_iff p s).mp h)
  simp only [vectorSnap] at hq
  cases hq
  exact snapTree_side b p (p - s) (le_of_lt hw) hd hx

/-- … and then it is a point of the outline. -/
theorem tree_snap_on_outline_partial (b : Box) (p s q : V2) (hw : 0 < b.size.x) (hh : 0 < b.size.y)
    (hne : p ≠ s) (hx : b.port = true ∨ (b.pos.x ≤ p.x ∧ p.x ≤ b.pos.x + b.size.x))
    (hq : vectorSnap b p s .tree = .ok q) : onOutline b q :=
  onOutline_of_onTopOrBottom b q (le_of_lt hh) (tree_snap_top_or_bottom_partial b p s q hw hne hx hq)

/-- Without the x-range condition the result is still on the top or the bottom *line* of the box and keeps
`point.x` (non-port) resp. sits at the middle of the side (port). -/
theorem tree_snap_on_line (b : Box) (p s q : V2) (hne : p ≠ s) (hq : vectorSnap b p s .tree = .ok q) :
    (q.y = b.pos.y ∨ q.y = b.pos.y + b.size.y) ∧
    q.x = (if b.port then b.pos.x + b.size.x / 2 else p.x) := by
  have hd : p - s ≠ ⟨0, 0⟩ := fun h => hne ((sub_eq_zero_iff p s).mp h)
  simp only [vectorSnap] at hq
  cases hq
  exact ⟨snapTree_line b p (p - s) hd, snapTree_x b p (p - s) hd⟩

/-- `Box.snap_to_parent` for a port: if the port is at least as large as the overhang and the parent is large
enough for the "mid box" to have positive width and height, snapping succeeds, the port's centre lies on the
outline of the mid box, and the port rectangle is attached to the parent's border (it meets the parent and
is not inside its open interior). -/
theorem port_on_border (parent child : Box) (overhang : Rat) (h0 : 0 ≤ overhang)
    (hsx : overhang ≤ child.size.x) (hsy : overhang ≤ child.size.y)
    (hx : child.size.x < parent.size.x + 2 * overhang) (hy : child.size.y < parent.size.y + 2 * overhang) :
    ∃ pos', snapPort parent child overhang = .ok pos' ∧ portAttached parent pos' child.size ∧
      onOutline (midBox parent child overhang) (pos' + child.size.sdiv 2) :=
  snapPort_spec parent child overhang h0 hsx hsy hx hy

/-- `Box.snap_to_parent` for a child: the parent's margin is kept on the top and left, and in every
direction in which the child keeps a positive size it does not reach into the margin on the far side. -/
theorem child_keeps_margin (parent child : Box) (raw : V2) (m : Rat) :
    let r := snapChild parent child raw m
    parent.pos.x + m ≤ r.1.x ∧ parent.pos.y + m ≤ r.1.y ∧
    (0 < r.2.x → r.1.x + r.2.x ≤ parent.pos.x + parent.size.x - m) ∧
    (0 < r.2.y → r.1.y + r.2.y ≤ parent.pos.y + parent.size.y - m) :=
  snapChild_spec parent child raw m

/-- `Diagram.calculate_viewport`: for any list of element bounds, the viewport encloses every one of them … -/
theorem viewport_encloses (bounds : List Rect) (v : Rect) (h : viewport bounds = some v) :
    ∀ r ∈ bounds, v.encloses r :=
  ((viewport_fold_spec bounds none v h).2).1

/-- … it is the least such rectangle … -/
theorem viewport_least (bounds : List Rect) (v c : Rect) (h : viewport bounds = some v)
    (hc : ∀ r ∈ bounds, c.encloses r) : c.encloses v :=
  ((viewport_fold_spec bounds none v h).2).2 c (fun _ ha => nomatch ha) hc

/-- … and it exists as soon as there is one visible element. -/
theorem viewport_defined (bounds : List Rect) (h : bounds ≠ []) : ∃ v, viewport bounds = some v :=
  viewport_some bounds h

/-- `Box.bounds` encloses the box and each of its floating labels; `Edge.bounds` every point and label. -/
theorem bounds_enclose (b : Box) (labels elabels : List Box) (p0 : V2) (points : List V2) :
    ((boxBounds b labels).encloses (Rect.ofBox b) ∧ ∀ l ∈ labels, (boxBounds b labels).encloses (Rect.ofBox l)) ∧
    ((∀ p ∈ p0 :: points, (edgeBounds elabels p0 points).encloses (Rect.ofPoint p)) ∧
      ∀ l ∈ elabels, (edgeBounds elabels p0 points).encloses (Rect.ofBox l)) :=
  ⟨boxBounds_encloses b labels, edgeBounds_encloses elabels p0 points⟩

/-- Position independence of snapping: moving the box, the point and the source by the same vector moves the
result by exactly that vector — for every style, port or not, including the error outcomes. -/
theorem translate_equivariant_snap (b : Box) (p s v : V2) (st : Style) :
    vectorSnap (b.translate v) (p + v) (s + v) st = (vectorSnap b p s st).map (· + v) :=
  vectorSnap_translate b p s v st

/-- … of `line_intersect` … -/
theorem translate_equivariant_intersect (p1 p2 p3 p4 v : V2) :
    lineIntersect (p1 + v) (p2 + v) (p3 + v) (p4 + v) = (lineIntersect p1 p2 p3 p4).map (· + v) :=
  lineIntersect_translate p1 p2 p3 p4 v

/-- … of the viewport computation … -/
theorem translate_equivariant_viewport (bounds : List Rect) (v : V2) :
    viewport (bounds.map (·.translate v)) = (viewport bounds).map (·.translate v) :=
  viewport_translate bounds v

/-- … and of the soundness predicate itself: being on the outline does not depend on where the box is. -/
theorem on_outline_translate (b : Box) (q v : V2) : onOutline (b.translate v) (q + v) ↔ onOutline b q :=
  onOutline_translate b q v

/-- … of `Box.snap_to_parent` (parent and port/child moved together) … -/
theorem translate_equivariant_snap_to_parent (parent child : Box) (overhang margin : Rat) (raw v : V2) :
    snapPort (parent.translate v) (child.translate v) overhang = (snapPort parent child overhang).map (· + v) ∧
    snapChild (parent.translate v) (child.translate v) raw margin =
      ((snapChild parent child raw margin).1 + v, (snapChild parent child raw margin).2) :=
  ⟨snapPort_translate parent child overhang v, snapChild_translate parent child raw margin v⟩

/-- … of `Box.bounds` and `Edge.bounds` … -/
theorem translate_equivariant_bounds (b : Box) (labels elabels : List Box) (p0 : V2) (points : List V2) (v : V2) :
    boxBounds (b.translate v) (labels.map (·.translate v)) = (boxBounds b labels).translate v ∧
    edgeBounds (elabels.map (·.translate v)) (p0 + v) (points.map (· + v)) = (edgeBounds elabels p0 points).translate v :=
  ⟨boxBounds_translate b labels v, edgeBounds_translate elabels p0 points v⟩

/-- … and of the default routes `route_oblique` / `route_manhattan`. -/
theorem translate_equivariant_routes (s t : Box) (v : V2) :
    routeOblique (s.translate v) (t.translate v) = (routeOblique s t).map (· + v) ∧
    routeManhattan (s.translate v) (t.translate v) = (routeManhattan s t).map (fun l => l.map (· + v)) :=
  ⟨routeOblique_translate s t v, routeManhattan_translate s t v⟩

/-- `Vector2D.boxsnap` returns a point on the outline of the box spanned by the two corners (any order,
degenerate boxes included), for every point. -/
theorem boxsnap_on_outline (self c1 c2 : V2) : onOutline (rectBox c1 c2) (boxsnap self c1 c2) :=
  Capella.Geom.boxsnap_on_outline self c1 c2

/-- `Edge.vector_snap`: whenever it returns (no zero-length segment), the point lies on one of the edge's
segments. -/
theorem edge_snap_on_edge (points : List V2) (v q : V2) (h : edgeSnap points v = .ok q) : onPolyline points q :=
  edgeSnap_on_edge points v q h

/-- `route_manhattan` between two proper boxes succeeds, starts on the outline of the source and ends on the
outline of the target. -/
theorem route_manhattan_ends_on_outlines (s t : Box) (hsw : 0 < s.size.x) (hsh : 0 < s.size.y)
    (htw : 0 < t.size.x) (hth : 0 < t.size.y) :
    ∃ a m1 m2 z, routeManhattan s t = .ok [a, m1, m2, z] ∧ onOutline s a ∧ onOutline t z :=
  routeManhattan_ends s t hsw hsh htw hth

/-- The model of `__vector_snap_oblique` that `vectorSnap` runs (`snapObliqueLit`: the repaired code statement by
statement — `(miss, intersection)` pairs, `min(key=miss)`, three assertions) returns exactly what the form used
in the proofs (`snapOblique`: first in-range hit, all in-range hits equal) returns. -/
theorem oblique_model_is_code (b : Box) (point source : V2) (h : point ≠ source) :
    snapObliqueLit b point source = snapOblique b point source :=
  snapObliqueLit_eq b point source h


/-! ## The edge chain (`aird/_edge_factories.py`) -/

/-- Position independence of a whole edge: moving the two boxes an edge connects (with their floating labels) by the
same vector moves every point of the edge `generic_factory` builds by exactly that vector — stored bend point lists
of any length and the default routes, all three routing styles, ports or not, including the error outcomes, and for
every way `dec` of deciding `snap_oblique`'s "deviates by one radian or more". -/
theorem translate_equivariant_edge_route (dec : V2 → V2 → Bool) (i : EdgeIn) (v : V2) :
    edgeRoute dec (i.translate v) = (edgeRoute dec i).map (fun l => l.map (· + v)) :=
  edgeRoute_translate dec i v

/-- … and of one `snaptarget` call on a point list of any length. -/
theorem translate_equivariant_snaptarget (dec : V2 → V2 → Bool) (st : Style) (b : Box) (pts : List V2) (v : V2) :
    snapEnd dec st (b.translate v) (pts.map (· + v)) = (snapEnd dec st b pts).map (fun l => l.map (· + v)) :=
  snapEnd_translate dec st b pts v

/-- … and of the decoding of the stored source-relative bend points. -/
theorem translate_equivariant_bendpoints (sb : Rect) (anchor : V2) (rel : List V2) (v : V2) :
    extractRelBendpoints (sb.translate v) anchor rel = (extractRelBendpoints sb anchor rel).map (· + v) :=
  extractRelBendpoints_translate sb anchor rel v

/-- `snaptarget` touches only the end it is called for: the end point is replaced by one or two points, every other
point stays, and the new end point is what `Box.vector_snap` returned. -/
theorem snaptarget_changes_only_the_end (dec : V2 → V2 → Bool) (st : Style) (b : Box) (e nx : V2) (rest l : List V2)
    (h : snapEnd dec st b (e :: nx :: rest) = .ok l) :
    ∃ q pre, l = q :: (pre ++ nx :: rest) ∧ pre.length ≤ 1 ∧ ∃ p s, vectorSnap b p s st = .ok q :=
  snapEnd_shape dec st b e nx rest l h

/-- Every straight- or Manhattan-routed edge between two proper boxes is built without error, has at least two points,
starts on the outline of its source and ends on the outline of its target — whatever bend points are stored (any
number, anywhere), for ports and non-ports, for every `dec`. -/
theorem edge_route_ends_on_outlines (dec : V2 → V2 → Bool) (i : EdgeIn) (hsw : 0 < i.src.size.x) (hsh : 0 < i.src.size.y)
    (htw : 0 < i.tgt.size.x) (hth : 0 < i.tgt.size.y) (hst : i.style ≠ .tree) :
    ∃ first mid last, edgeRoute dec i = .ok (first :: (mid ++ [last])) ∧ onOutline i.src first ∧ onOutline i.tgt last := by
  obtain ⟨first, mid, last, hr, ⟨p1, s1, h1⟩, ⟨p2, s2, h2⟩⟩ := edgeRoute_ok dec i hsw hsh htw hth
  exact ⟨first, mid, last, hr, snap_on_outline i.src p1 s1 first i.style hsw hsh hst h1,
    snap_on_outline i.tgt p2 s2 last i.style htw hth hst h2⟩

/-- Tree-routed edges are built without error as well (their ends are `Box.vector_snap(style=TREE)` results). -/
theorem edge_route_total (dec : V2 → V2 → Bool) (i : EdgeIn) (hsw : 0 < i.src.size.x) (hsh : 0 < i.src.size.y)
    (htw : 0 < i.tgt.size.x) (hth : 0 < i.tgt.size.y) :
    ∃ first mid last, edgeRoute dec i = .ok (first :: (mid ++ [last])) := by
  obtain ⟨first, mid, last, hr, _⟩ := edgeRoute_ok dec i hsw hsh htw hth
  exact ⟨first, mid, last, hr⟩

/-- The full statement for the end of a tree-routed edge, which the code does not satisfy. -/
def tree_edge_end_on_side_full : Prop :=
  ∀ (dec : V2 → V2 → Bool) (b : Box) (pts l : List V2) (q : V2), 0 < b.size.x → 0 < b.size.y →
    snapEnd dec .tree b pts = .ok l → l.head? = some q → onTopOrBottom b q

/-- Witness (the known finding seen through `snaptarget`): the end keeps its x beside the box
(`snaptarget([(-1, -1), (-1, 0)], 0, 1, Box((0, 0), (2, 2)), routingstyle="tree")` ends in `(-1, 2)`). -/
theorem tree_edge_end_on_side_full_fails : ¬ tree_edge_end_on_side_full := by
  intro h
  have := h (fun _ _ => false) ⟨⟨0, 0⟩, ⟨2, 2⟩, false⟩ [⟨-1, -1⟩, ⟨-1, 0⟩] [⟨-1, 2⟩, ⟨-1, 0⟩] ⟨-1, 2⟩
    (by decide +kernel) (by decide +kernel) (by decide +kernel) rfl
  revert this
  decide +kernel

/-- What does hold: a tree-routed edge whose last two stored points differ ends on the top or bottom side of a port
(since the repair of `snap_tree`: at the middle of that side), and on the top or bottom side of any other box whose
x-range contains the stored end point. -/
theorem tree_edge_end_on_side_partial (dec : V2 → V2 → Bool) (b : Box) (e nx q : V2) (rest l : List V2)
    (hw : 0 < b.size.x) (hne : e ≠ nx) (hx : b.port = true ∨ (b.pos.x ≤ e.x ∧ e.x ≤ b.pos.x + b.size.x))
    (h : snapEnd dec .tree b (e :: nx :: rest) = .ok l) (hq : l.head? = some q) : onTopOrBottom b q := by
  rw [snapEnd_tree_head dec b e nx rest l h] at hq
  cases hq
  have hd : e - nx ≠ ⟨0, 0⟩ := fun h => hne ((sub_eq_zero_iff e nx).mp h)
  exact snapTree_side b e (e - nx) (le_of_lt hw) hd hx


/-! ## Box nesting (`aird/_box_factories.generic_factory` + `Box.snap_to_parent` down a tree of any depth) -/

/-- Position independence of a whole box tree: placing a node (with everything nested in it, to any depth, ports
included) below a parent moved by `v` gives the same tree moved by `v` — error outcomes included. -/
theorem translate_equivariant_box_tree (oh m : Rat) (v : V2) (parent : Box) (n : Node) :
    place oh m (parent.translate v) n = (place oh m parent n).map (Placed.translate v) :=
  place_translate oh m v parent n

/-- Moving one top-level node — changing only its stored position — moves that node and all of its contents by exactly
the displacement (and, the placement being a function of the node alone, nothing else). -/
theorem move_top_level_node (oh m : Rat) (v : V2) (n : Node) :
    placeTop oh m (n.moveTop v) = (placeTop oh m n).map (Placed.translate v) :=
  placeTop_move oh m v n

/-- What `snap_to_parent` guarantees down a whole tree: whenever placing succeeds (no box is clamped to nothing),
every non-port box lies inside its parent keeping the margin on all four sides, and every port that fits (at least as
large as the overhang, parent large enough) is attached to its parent's border — at every depth. -/
theorem box_tree_nested (oh m : Rat) (h0 : 0 ≤ oh) (parent : Box) (n : Node) (p : Placed)
    (h : place oh m parent n = .ok p) : Nested oh m parent p :=
  place_nested oh m h0 parent n p h

/-- … hence every box reached through non-port boxes lies inside *every* ancestor: inside `outer` whenever the
parent does (non-negative margin). -/
theorem box_tree_inside_ancestors (oh m : Rat) (h0 : 0 ≤ oh) (hm : 0 ≤ m) (outer parent : Box)
    (hpar : insideMargin 0 outer parent) (n : Node) (p : Placed) (h : place oh m parent n = .ok p) : AllInside outer p :=
  nested_allInside oh m hm outer parent hpar p (place_nested oh m h0 parent n p h)

/-- … in particular everything nested in a top-level node lies inside that node's box. -/
theorem top_level_node_encloses_contents (oh m : Rat) (h0 : 0 ≤ oh) (hm : 0 ≤ m) (rel size : V2) (port : Bool)
    (kids : List Node) (ks : List Placed)
    (h : placeList oh m { pos := rel, size := size, port := port } kids = .ok ks) :
    AllInsideList { pos := rel, size := size, port := port } ks :=
  nestedList_allInside oh m hm _ _ (insideMargin_self _) ks (placeList_nested oh m h0 _ kids ks h)


/-! ## `Circle.vector_snap` (as a relation: the code needs a square root) -/

/-- The relation "`r` lies on the circle and `r - centre` is a non-negative multiple of the direction" determines `r`:
there is exactly one point `Circle.vector_snap` may return, and it can be named without a square root. -/
theorem circle_snap_unique (c : V2) (radius : Rat) (vector source r r' : V2)
    (h : circleSnapRel c radius vector source r) (h' : circleSnapRel c radius vector source r') : r = r' :=
  onCircleInDir_unique c radius _ r r' h h'

/-- Position independence of `Circle.vector_snap` (as repaired): moving the circle, the point and the source by the
same vector moves the snapped point by exactly that vector. -/
theorem translate_equivariant_circle_snap (c : V2) (radius : Rat) (vector source r v : V2) :
    circleSnapRel (c + v) radius (vector + v) (source + v) (r + v) ↔ circleSnapRel c radius vector source r := by
  unfold circleSnapRel
  rw [circleDir_translate, onCircleInDir_translate]

/-- What the code did before the repair (`center + vector.normalized * radius` with the *absolute* `vector`) was not
position independent: the circle around the origin with radius 5 snaps `(3, 4)` to itself, but moved by `(10, 0)`
the point `(13, 4)` is not what the moved circle returns. -/
theorem circle_snap_before_repair_not_equivariant :
    ¬ ∀ (c : V2) (radius : Rat) (vector source r v : V2), circleSnapRelOld c radius vector source r →
      circleSnapRelOld (c + v) radius (vector + v) (source + v) (r + v) := by
  intro h
  have := h ⟨0, 0⟩ 5 ⟨3, 4⟩ ⟨9, 9⟩ ⟨3, 4⟩ ⟨10, 0⟩ (by decide +kernel)
  revert this
  decide +kernel

/-! ## Edges attached to edges (`generic_factory` with an `Edge` as source or target)

`EdgeInE` generalises `EdgeIn`: an end is a box with its floating labels or another edge with its points and visible labels.
For an edge end the code does not call `snaptarget` (`isinstance(targetport, diagram.Box)`), takes `Edge.bounds` for the
reference position of the stored bend points and for `route_tree`, and `Edge.center` / `Edge.vector_snap(center)` in
`route_oblique` / `route_manhattan` (`Edge.center` needs `sqrt`: modelled for axis-parallel polylines, `degenerate` otherwise). -/

/-- The extended model restricted to two boxes is the model all theorems above are about. -/
theorem edge_route_with_ends_extends (dec : V2 → V2 → Bool) (i : EdgeIn) : edgeRouteE dec i.toE = edgeRoute dec i :=
  edgeRouteE_boxes dec i

/-- Position independence with edge ends: moving both ends (boxes with labels, edges with all their points and labels) by
`v` moves every point of the built edge by exactly `v` — stored bend points of any length, the three default routes, all
styles, error outcomes included, for every `dec`. -/
theorem translate_equivariant_edge_route_with_ends (dec : V2 → V2 → Bool) (i : EdgeInE) (v : V2) :
    edgeRouteE dec (i.translate v) = (edgeRouteE dec i).map (fun l => l.map (· + v)) :=
  edgeRouteE_translate dec i v

/-- … of `Edge.vector_snap` and `Edge.center` themselves. -/
theorem translate_equivariant_edge_snap_center (pts : List V2) (p v : V2) :
    edgeSnap (pts.map (· + v)) (p + v) = (edgeSnap pts p).map (· + v) ∧
    edgeCenter (pts.map (· + v)) = (edgeCenter pts).map (· + v) :=
  ⟨edgeSnap_translate pts p v, edgeCenter_translate pts v⟩

/-- The end at an edge is left exactly as stored or routed (no snap), at the target … -/
theorem edge_end_at_edge_untouched_target (dec : V2 → V2 → Bool) (i : EdgeInE) (tp : List V2) (tl : List Box) (l pts : List V2)
    (ht : i.tgt = .edge tp tl) (h : edgeRouteE dec i = .ok l) (hp : edgePointsE i = .ok pts) : l.getLast? = pts.getLast? :=
  edgeRouteE_edge_target_untouched dec i tp tl l pts ht h hp

/-- … and at the source. -/
theorem edge_end_at_edge_untouched_source (dec : V2 → V2 → Bool) (i : EdgeInE) (sp : List V2) (sl : List Box) (l pts : List V2)
    (hs : i.src = .edge sp sl) (h : edgeRouteE dec i = .ok l) (hp : edgePointsE i = .ok pts) : l.head? = pts.head? :=
  edgeRouteE_edge_source_untouched dec i sp sl l pts hs h hp

/-- `Edge.center` of an axis-parallel polyline lies on the polyline (so the default route to an edge ends on that edge). -/
theorem edge_center_on_edge (pts : List V2) (c : V2) (h : edgeCenter pts = some c) (h2 : 2 ≤ pts.length) :
    onPolyline pts c ∨ c ∈ pts :=
  edgeCenter_on_polyline pts c h h2

/-! ## Float-boundary robustness

The model is exact (`Rat`), the code is binary64: on the boundary of a comparison of computed coordinates a rounding error
decides which branch the code takes.  What the exact model can carry: (i) every such comparison of the live code is
classified (generated table, kernel-checked); (ii) on each branch the snaps are Lipschitz in the end point, and the branch
verdicts are locally constant away from their boundaries — so a perturbation `≤ ε` of an input that is not on a boundary
moves the result `≤ K·ε`; (iii) on the boundaries classified `agree` both branches give the same point (corner hits
coincide: the oblique result is *the* point of the outline on the line through source and point), and (iv) on the
boundaries classified `jump` they do not — proved below for the three snaps; these are exactly the inputs on which
rounding can flip the geometry by a macroscopic amount (the class of /repo 47523e4), the declared ties of the
boundary-directed correspondence run. -/

/-- Every comparison, `isclose`, `closestaxis` and truth test of computed coordinates in `diagram/_diagram.py`,
`_vector2d.py`, `aird/_edge_factories.py`, `_box_factories.py`, `_common.py` (AST pass over the live sources) has a class
in `Model/GeomSites.lean`: declared jump, jump behind a tolerance, branches agree, `min`/`max`, unreachable assertion, stored
integers, or outside the model. -/
theorem every_coordinate_comparison_classified :
    ∀ s ∈ Capella.Gen.GeomCmp.sites, s.coord = true → classified s = true :=
  Capella.Gen.GeomCmp.all_classified

/-- Manhattan snap, robustness on a branch: two end points in the same zone of the box's range (below / inside / above,
for the axis of the approach direction) that are approached along the same axis are snapped to points that are no further
apart than the end points themselves (Lipschitz constant 1 in the sup-norm); ports included. -/
theorem manhattan_snap_lipschitz (b : Box) (p p' d d' q q' : V2) (hax : closestaxis d = closestaxis d')
    (hz : manhattanZone b (closestaxis d) p = manhattanZone b (closestaxis d) p')
    (h : snapManhattan b p d = .ok q) (h' : snapManhattan b p' d' = .ok q') : distInf q q' ≤ distInf p p' :=
  snapManhattan_lipschitz b p p' d d' q q' hax hz h h'

/-- … and the axis is locally constant: a perturbation of the direction smaller than `| |d.x| − |d.y| |` does not change
`closestaxis`; the only boundary is the tie `|d.x| = |d.y|`. -/
theorem manhattan_axis_stable (d e : V2) (h : rabs e.x + rabs e.y < rabs (rabs d.x - rabs d.y)) :
    closestaxis (d + e) = closestaxis d :=
  closestaxis_stable d e h

/-- Declared jump `manhattan:range-border`: for a non-port box approached horizontally, an end point exactly on the bottom
border line and the same point moved outward by ANY `ε > 0` are snapped to points half the box width apart — no tolerance
protects this comparison (`point.y > pos.y + size.y`). -/
theorem manhattan_jump_at_range_border (b : Box) (hp : b.port = false) (hw : 0 ≤ b.size.x) (hh : 0 ≤ b.size.y) (d p : V2)
    (hax : (closestaxis d).x ≠ 0) (hy : p.y = b.pos.y + b.size.y) (ε : Rat) (hε : 0 < ε) :
    ∃ q q', snapManhattan b p d = .ok q ∧ snapManhattan b ⟨p.x, p.y + ε⟩ d = .ok q' ∧
      rabs (q.x - q'.x) = b.size.x / 2 ∧ q.y = q'.y :=
  snapManhattan_jump_at_border b hp hw hh d p hax hy ε hε

/-- Tree snap, robustness on a branch: with the same top/bottom verdict two end points are snapped to points no further
apart than they are; the verdict is locally constant away from `direction.y = 0`. -/
theorem tree_snap_lipschitz (b : Box) (p p' d d' : V2) (hd : d ≠ ⟨0, 0⟩) (hd' : d' ≠ ⟨0, 0⟩)
    (hc : treeBottom b p d ↔ treeBottom b p' d') : distInf (snapTree b p d) (snapTree b p' d') ≤ distInf p p' :=
  snapTree_lipschitz b p p' d d' hd hd' hc

theorem tree_verdict_stable (b : Box) (p p' d e : V2) (h : rabs e.y < rabs d.y) :
    treeBottom b p' (d + e) ↔ treeBottom b p d :=
  treeBottom_stable b p p' d e h

/-- Declared jump `tree:direction-level`: a horizontal approach and the same approach tilted by ANY `ε > 0` end on opposite
sides of the box (the results differ by the full height). -/
theorem tree_jump_at_level (b : Box) (hp : b.port = false) (p : V2) (hy : p.y ≠ b.pos.y) (dx : Rat) (hdx : dx ≠ 0)
    (ε : Rat) (hε : 0 < ε) :
    (snapTree b p ⟨dx, 0⟩).y - (snapTree b p ⟨dx, ε⟩).y = b.size.y ∧ (snapTree b p ⟨dx, 0⟩).x = (snapTree b p ⟨dx, ε⟩).x :=
  snapTree_jump_at_horizontal b hp p hy dx hdx ε hε

/-- Oblique snap: for an end point inside the closed box the result lies on the line through source and end point (and on
the outline, `snap_on_outline`).  This is why the branches of the direction-sign tests agree on their boundaries: whichever
border is tried, the answer is the same point of the plane. -/
theorem oblique_result_on_edge_line (b : Box) (p s q : V2) (hin : inBox b p) (hne : p ≠ s)
    (h : snapOblique b p s = .ok q) : cross2 (q - s) (p - s) = 0 :=
  snapOblique_collinear b p s q hin hne h

/-- Oblique snap, robustness on a horizontal border: two end points inside the box, both at least `m > 0` away from the
source in `y`, at most `ε` apart, whose edges enter through the same horizontal border `y = Y`: the results differ by at
most `K·ε` with `K = |Y − s.y|·(|p.x − s.x| + |p.y − s.y|) / m²` (stated without division). -/
theorem oblique_snap_lipschitz_horizontal (b : Box) (p p' s q q' : V2) (Y m ε : Rat) (hin : inBox b p) (hin' : inBox b p')
    (hm : 0 < m) (h : m ≤ rabs (p.y - s.y)) (h' : m ≤ rabs (p'.y - s.y)) (hε : distInf p p' ≤ ε)
    (hq : snapOblique b p s = .ok q) (hq' : snapOblique b p' s = .ok q') (hY : q.y = Y) (hY' : q'.y = Y) :
    rabs (q.x - q'.x) * (m * m) ≤ rabs (Y - s.y) * (rabs (p.x - s.x) + rabs (p.y - s.y)) * ε ∧ q.y = q'.y := by
  have hy : p.y ≠ s.y := ne_of_lt_rabs_sub hm h
  have hy' : p'.y ≠ s.y := ne_of_lt_rabs_sub hm h'
  have hne : p ≠ s := fun e => hy (by rw [e])
  have hne' : p' ≠ s := fun e => hy' (by rw [e])
  rw [snapOblique_hlineX b p s q Y hin hne hy hq hY, snapOblique_hlineX b p' s q' Y hin' hne' hy' hq' hY']
  exact ⟨hlineX_lipschitz s p p' Y m ε hm h h' hε, by rw [hY, hY']⟩

/-- … and on a vertical border. -/
theorem oblique_snap_lipschitz_vertical (b : Box) (p p' s q q' : V2) (X m ε : Rat) (hin : inBox b p) (hin' : inBox b p')
    (hm : 0 < m) (h : m ≤ rabs (p.x - s.x)) (h' : m ≤ rabs (p'.x - s.x)) (hε : distInf p p' ≤ ε)
    (hq : snapOblique b p s = .ok q) (hq' : snapOblique b p' s = .ok q') (hX : q.x = X) (hX' : q'.x = X) :
    rabs (q.y - q'.y) * (m * m) ≤ rabs (X - s.x) * (rabs (p.y - s.y) + rabs (p.x - s.x)) * ε ∧ q.x = q'.x := by
  have hx : p.x ≠ s.x := ne_of_lt_rabs_sub hm h
  have hx' : p'.x ≠ s.x := ne_of_lt_rabs_sub hm h'
  have hne : p ≠ s := fun e => hx (by rw [e])
  have hne' : p' ≠ s := fun e => hx' (by rw [e])
  rw [snapOblique_vlineY b p s q X hin hne hx hq hX, snapOblique_vlineY b p' s q' X hin' hne' hx' hq' hX']
  exact ⟨vlineY_lipschitz s p p' X m ε hm h h' hε, by rw [hX, hX']⟩

/-- Agreement in a corner: when the result is the corner `(X, Y)`, the formula of the horizontal border and the formula of
the vertical border both give it — the two candidate borders of `__vector_snap_oblique` cannot disagree. -/
theorem oblique_corner_agreement (b : Box) (p s q : V2) (hin : inBox b p) (hx : p.x ≠ s.x) (hy : p.y ≠ s.y)
    (h : snapOblique b p s = .ok q) : hlineX s p q.y = q.x ∧ vlineY s p q.x = q.y :=
  have hne : p ≠ s := fun e => hx (by rw [e])
  ⟨(snapOblique_hlineX b p s q q.y hin hne hy h rfl).symm, (snapOblique_vlineY b p s q q.x hin hne hx h rfl).symm⟩

/-- Declared jump `oblique:containment` (in the code behind a tolerance of 1e-6 since /repo 47523e4; in the exact model at
the border itself): an end point on the bottom border is kept, the same point moved outward by any `ε > 0` (other than
onto the source) is replaced by the box centre and the edge enters 3/4 px further right — for every `ε`, however small. -/
theorem oblique_jump_at_containment (ε : Rat) (hε : 0 < ε) (h3 : ε ≠ 3) :
    snapObliqueLit ⟨⟨0, 0⟩, ⟨4, 2⟩, false⟩ ⟨1, 2⟩ ⟨1, 5⟩ = .ok ⟨1, 2⟩ ∧
    snapObliqueLit ⟨⟨0, 0⟩, ⟨4, 2⟩, false⟩ ⟨1, 2 + ε⟩ ⟨1, 5⟩ = .ok ⟨7/4, 2⟩ :=
  ⟨snapObliqueLit_on_border, snapObliqueLit_jump_outside ε hε h3⟩

/-- The closest-side snap (`Box.vector_snap(point)` without a source, or with `point == source`) of any point other than
the centre ends on the ray from the centre towards that point: the side chosen faces the source, for every direction, the
four diagonals through the corners included (there the two neighbouring sides meet in the corner facing the source).
Holds since /repo `alpha <= angle` (before, a source exactly on the diagonal beyond the top-right corner was snapped to the
bottom-left corner: the former declared jump `closest:diagonal-top-right`). -/
theorem closest_snap_faces_source (b : Box) (s q : V2) (hw : 0 < b.size.x) (hh : 0 < b.size.y) (hc : s ≠ b.center)
    (h : snapClosest b s = .ok q) : 0 < (q - b.center).dot (s - b.center) :=
  snapClosest_faces_source b s q hw hh hc h

/-- The full statement "the closest-side snap of a source outside the box ends on the side facing the source" (the one the
code did not satisfy before the repair; its former witness was `Box((0,0),(2,2)).vector_snap((3,-1)) = (0, 2)`). -/
theorem closest_snap_faces_source_full (b : Box) (s q : V2) (hw : 0 < b.size.x) (hh : 0 < b.size.y) (hout : ¬ inBox b s)
    (h : snapClosest b s = .ok q) : 0 < (q - b.center).dot (s - b.center) :=
  closest_snap_faces_source b s q hw hh (fun e => hout (e ▸ center_inBox b hw hh)) h

/-! ## Non-vacuity -/

-- the call that used to fail `assert len(intersections) < 2` (edge aimed at a corner)
example : vectorSnap ⟨⟨0, 0⟩, ⟨10, 10⟩, false⟩ ⟨5, 5⟩ ⟨-5, -5⟩ .oblique = .ok ⟨0, 0⟩ := by decide +kernel
-- the call that used to fail `assert direction.x or direction.y` (source in the centre, point outside)
example : vectorSnap ⟨⟨0, 0⟩, ⟨2, 2⟩, false⟩ ⟨-1, -1⟩ ⟨1, 1⟩ .oblique = .ok ⟨0, 0⟩ := by decide +kernel
-- an ordinary oblique snap with a non-integer answer, and the closest snap on the diagonal through the top-right corner
-- (the near corner since the repair of `alpha <= angle`; it was the far corner `(0, 2)` before)
example : vectorSnap ⟨⟨0, 0⟩, ⟨4, 2⟩, false⟩ ⟨2, 1⟩ ⟨5, 5⟩ .oblique = .ok ⟨11/4, 2⟩ := by decide +kernel
example : vectorSnap ⟨⟨0, 0⟩, ⟨4, 2⟩, false⟩ ⟨6, -1⟩ ⟨6, -1⟩ .oblique = .ok ⟨4, 0⟩ := by decide +kernel
example : snapClosest ⟨⟨0, 0⟩, ⟨2, 2⟩, false⟩ ⟨3, -1⟩ = .ok ⟨2, 0⟩ := by decide +kernel
-- Manhattan: port and non-port differ
example : vectorSnap ⟨⟨0, 0⟩, ⟨4, 2⟩, false⟩ ⟨3, 1/2⟩ ⟨9, 1⟩ .manhattan = .ok ⟨4, 1/2⟩ := by decide +kernel
example : vectorSnap ⟨⟨0, 0⟩, ⟨4, 2⟩, true⟩ ⟨3, 1/2⟩ ⟨9, 1⟩ .manhattan = .ok ⟨4, 1⟩ := by decide +kernel
-- tree: hypotheses of the partial theorem are satisfiable, and its conclusion is not trivial
example : vectorSnap ⟨⟨0, 0⟩, ⟨4, 2⟩, false⟩ ⟨1, 5⟩ ⟨1, 9⟩ .tree = .ok ⟨1, 2⟩ := by decide +kernel
example : onTopOrBottom ⟨⟨0, 0⟩, ⟨4, 2⟩, false⟩ ⟨1, 2⟩ ∧ ¬ onTopOrBottom ⟨⟨0, 0⟩, ⟨4, 2⟩, false⟩ ⟨5, 2⟩ := by decide +kernel
-- the outline predicate separates: corner yes, interior no, outside no
example : onOutline ⟨⟨0, 0⟩, ⟨4, 2⟩, false⟩ ⟨4, 2⟩ ∧ ¬ onOutline ⟨⟨0, 0⟩, ⟨4, 2⟩, false⟩ ⟨1, 1⟩ ∧
    ¬ onOutline ⟨⟨0, 0⟩, ⟨4, 2⟩, false⟩ ⟨5, 2⟩ := by decide +kernel
-- a 10x10 port dropped inside a 100x50 parent ends 2 px over the nearest border
example : snapPort ⟨⟨0, 0⟩, ⟨100, 50⟩, false⟩ ⟨⟨80, 20⟩, ⟨10, 10⟩, true⟩ 2 = .ok ⟨92, 20⟩ := by decide +kernel
example : portAttached ⟨⟨0, 0⟩, ⟨100, 50⟩, false⟩ ⟨92, 20⟩ ⟨10, 10⟩ ∧
    ¬ portAttached ⟨⟨0, 0⟩, ⟨100, 50⟩, false⟩ ⟨80, 20⟩ ⟨10, 10⟩ := by
  constructor <;> simp [portAttached] <;> norm_num
-- boxsnap from inside goes to the nearest side; Edge.vector_snap projects; a Manhattan route
example : boxsnap ⟨1, 2⟩ ⟨4, 4⟩ ⟨0, 0⟩ = ⟨0, 2⟩ := by decide +kernel
example : edgeSnap [⟨0, 0⟩, ⟨4, 0⟩, ⟨4, 4⟩] ⟨3, 1⟩ = .ok ⟨3, 0⟩ := by decide +kernel
example : routeManhattan ⟨⟨0, 0⟩, ⟨2, 2⟩, false⟩ ⟨⟨10, 0⟩, ⟨2, 4⟩, false⟩ = .ok [⟨2, 1⟩, ⟨6, 1⟩, ⟨6, 2⟩, ⟨10, 2⟩] := by
  decide +kernel
-- viewport of two rectangles
example : viewport [⟨0, 0, 2, 2⟩, ⟨-1, 1, 1, 5⟩] = some ⟨-1, 0, 2, 5⟩ := by decide +kernel
-- translation really moves things
example : vectorSnap ((⟨⟨0, 0⟩, ⟨10, 10⟩, false⟩ : Box).translate ⟨-100, 7⟩) (⟨5, 5⟩ + ⟨-100, 7⟩) (⟨-5, -5⟩ + ⟨-100, 7⟩) .oblique
    = .ok ⟨-100, 7⟩ := by decide +kernel

-- an edge with three stored bend points, Manhattan: the last point is projected, snapped and a bend is kept
-- (`generic_factory` returns [(10, 5), (15, 5), (15, 45), (30, 45)] for this input)
example : edgeRoute (angleGe ((cosSqLo + cosSqHi) / 2))
    ⟨⟨⟨0, 0⟩, ⟨10, 10⟩, false⟩, [], ⟨⟨30, 40⟩, ⟨20, 10⟩, false⟩, [], ⟨1/2, 1/2⟩, [⟨0, 0⟩, ⟨10, 0⟩, ⟨35, 40⟩], .manhattan⟩
    = .ok [⟨10, 5⟩, ⟨15, 5⟩, ⟨15, 45⟩, ⟨30, 45⟩] := by decide +kernel
-- a tree edge into a port ends in the middle of the port's bottom side, the inserted bend before it
example : snapEnd (fun _ _ => false) .tree ⟨⟨30, 40⟩, ⟨20, 10⟩, true⟩ [⟨35, 45⟩, ⟨35, 60⟩, ⟨5, 60⟩]
    = .ok [⟨40, 50⟩, ⟨40, 60⟩, ⟨35, 60⟩, ⟨5, 60⟩] := by decide +kernel
-- snap_oblique re-snaps when the snapped point deviates by more than a radian, and keeps it otherwise
example : snapEnd (angleGe ((cosSqLo + cosSqHi) / 2)) .oblique ⟨⟨0, 0⟩, ⟨2, 2⟩, false⟩ [⟨-1, 0⟩, ⟨0, 1⟩, ⟨1, 1⟩]
    = .ok [⟨2, 1⟩, ⟨0, 1⟩, ⟨1, 1⟩] := by decide +kernel
example : snapEnd (angleGe ((cosSqLo + cosSqHi) / 2)) .oblique ⟨⟨0, 0⟩, ⟨2, 2⟩, false⟩ [⟨1, 1⟩, ⟨5, 1⟩]
    = .ok [⟨2, 1⟩, ⟨5, 1⟩] := by decide +kernel
-- all stored bend points equal: the default route is used
example : extractRelBendpoints ⟨0, 0, 10, 10⟩ ⟨1/2, 1/2⟩ [⟨3, 4⟩, ⟨3, 4⟩] = [] ∧
    extractRelBendpoints ⟨0, 0, 10, 10⟩ ⟨1/4, 1⟩ [⟨3, 4⟩, ⟨0, 0⟩] = [⟨11/2, 14⟩, ⟨5/2, 10⟩] := by decide +kernel

-- a three-level tree: a child overflowing on the right is shrunk, its own child is clamped into it, a port is moved
-- onto the border (what `_box_factories.generic_factory` builds for this layout, see design/C17.md)
example : (placeTop 2 2 (.mk (layoutRel 10 20 false) (layoutSize 200 100 false true) false
      [.mk (layoutRel 180 50 false) (layoutSize 80 80 false false) false [.mk (layoutRel 0 0 false) (layoutSize 500 5 false true) false []],
       .mk (layoutRel 50 50 true) (layoutSize 0 0 true false) true [],
       .mk (layoutRel (-50) (-50) false) (layoutSize 10 10 false false) false []])).map Placed.boxes
    = .ok [⟨⟨15, 25⟩, ⟨198, 98⟩, false⟩, ⟨⟨200, 80⟩, ⟨11, 41⟩, false⟩, ⟨⟨205, 85⟩, ⟨4, 3⟩, false⟩,
           ⟨⟨13, 239/3⟩, ⟨10, 10⟩, true⟩, ⟨⟨17, 27⟩, ⟨10, 10⟩, false⟩] := by decide +kernel
-- a child pushed completely out of its parent is outside the model
example : (placeTop 2 2 (.mk ⟨0, 0⟩ ⟨20, 20⟩ false [.mk ⟨30, 0⟩ ⟨5, 5⟩ false []])).map Placed.boxes = .error .degenerate := by
  decide +kernel
-- the nesting predicate separates
example : insideMargin 2 ⟨⟨0, 0⟩, ⟨20, 20⟩, false⟩ ⟨⟨2, 2⟩, ⟨16, 16⟩, false⟩ ∧
    ¬ insideMargin 2 ⟨⟨0, 0⟩, ⟨20, 20⟩, false⟩ ⟨⟨2, 2⟩, ⟨17, 16⟩, false⟩ := by decide +kernel

-- Circle.vector_snap: a point outside is pulled onto the circle along the ray from the centre; from the centre itself
-- the snap goes towards the source; other points of the circle do not satisfy the relation
example : circleSnapRel ⟨10, 0⟩ 5 ⟨16, 8⟩ ⟨0, 0⟩ ⟨13, 4⟩ ∧ circleSnapRel ⟨10, 0⟩ 5 ⟨10, 0⟩ ⟨10, 7⟩ ⟨10, 5⟩ ∧
    ¬ circleSnapRel ⟨10, 0⟩ 5 ⟨16, 8⟩ ⟨0, 0⟩ ⟨7, -4⟩ ∧ ¬ circleSnapRel ⟨10, 0⟩ 5 ⟨16, 8⟩ ⟨0, 0⟩ ⟨15, 0⟩ := by decide +kernel

-- robustness: the zones separate, the hypotheses of the Lipschitz theorems are satisfiable, the declared jumps are listed
example : manhattanZone ⟨⟨0, 0⟩, ⟨4, 2⟩, false⟩ ⟨1, 0⟩ ⟨1, 2⟩ = .inside ∧ manhattanZone ⟨⟨0, 0⟩, ⟨4, 2⟩, false⟩ ⟨1, 0⟩ ⟨1, 3⟩ = .above ∧
    manhattanZone ⟨⟨0, 0⟩, ⟨4, 2⟩, false⟩ ⟨0, 1⟩ ⟨-1, 1⟩ = .below := by decide +kernel
example : snapOblique ⟨⟨0, 0⟩, ⟨4, 2⟩, false⟩ ⟨2, 1⟩ ⟨5, 5⟩ = .ok ⟨11/4, 2⟩ ∧ hlineX ⟨5, 5⟩ ⟨2, 1⟩ 2 = 11/4 ∧
    distInf ⟨2, 1⟩ ⟨17/8, 1⟩ = 1/8 := by decide +kernel
example : "manhattan:range-border" ∈ Capella.Gen.GeomCmp.declaredJumps ∧ "tree:direction-level" ∈ Capella.Gen.GeomCmp.declaredJumps ∧
    "oblique:containment" ∉ Capella.Gen.GeomCmp.declaredJumps := by decide +kernel

-- edges attached to edges: the centre of an axis-parallel polyline; a polyline with an oblique segment is outside the model;
-- stored bend points towards an edge keep their last point; the default Manhattan route ends in the other edge's centre
example : edgeCenter [⟨0, 0⟩, ⟨4, 0⟩, ⟨4, 6⟩] = some ⟨4, 1⟩ ∧ edgeCenter [⟨0, 0⟩, ⟨3, 4⟩] = none := by decide +kernel
example : edgeRouteE (fun _ _ => false) ⟨.box ⟨⟨0, 0⟩, ⟨10, 10⟩, false⟩ [], .edge [⟨30, 0⟩, ⟨30, 40⟩] [], ⟨1/2, 1/2⟩, [⟨0, 0⟩, ⟨20, 0⟩, ⟨25, 7⟩], .oblique⟩
    = .ok [⟨10, 5⟩, ⟨25, 5⟩, ⟨30, 12⟩] := by decide +kernel
example : edgeRouteE (fun _ _ => false) ⟨.box ⟨⟨0, 0⟩, ⟨10, 10⟩, false⟩ [], .edge [⟨30, 0⟩, ⟨30, 40⟩] [], ⟨1/2, 1/2⟩, [], .manhattan⟩
    = .ok [⟨10, 5⟩, ⟨20, 5⟩, ⟨20, 20⟩, ⟨30, 20⟩] := by decide +kernel

end Capella.Props.C17
