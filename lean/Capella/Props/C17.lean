import Capella.Model.Geom
namespace Capella.Props.C17
open Capella.Geom
theorem placeholder : closestaxis ⟨0, 0⟩ = ⟨1, 0⟩ := by decide
end Capella.Props.C17
