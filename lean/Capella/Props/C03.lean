import Capella.Lemmas.Index
namespace Capella.Props.C03
open Capella.Index
theorem placeholder_build : True := trivial
end Capella.Props.C03
