import Capella.Lemmas.Index
import Capella.Lemmas.IndexUnique
import Capella.Lemmas.IndexHref
import Capella.Lemmas.IndexApi
import Capella.Lemmas.AccessorApi
import Capella.Lemmas.AccessorProps
import Capella.Lemmas.AccessorRound5

/-!
# C03 — UUID and type lookups always agree with the actual model tree

State: `Capella.Index.Loader` — per fragment the pre-order scan of its tree and the three
hand-maintained indexes. `Consistent f` says: the id index answers exactly like a scan of the tree
(reserved ids answer "absent") and the type index is exactly the set of typed elements of the tree.
Every mutation site of the object layer issues instructions of the protocol `Capella.Index.Op`; the
correspondence run checks after each API step that the implementation's private dictionaries equal
the model's.
-/
namespace Capella.Props.C03
open Capella.Index

/-- Loading (and re-indexing after the root element was replaced on save) establishes consistency,
whatever the tree looks like. -/
theorem load_consistent (f f' : Frag) (h : idcacheRebuild f = .ok f') :
    Consistent f' ∧ f'.tree = f.tree :=
  rebuild_consistent f f' h

/-- Every instruction of the index protocol — attach+index (create / insert / move in),
un-index+detach (delete / purge / move out), reserve, un-reserve, rebuild, reorder, root swap —
keeps every fragment consistent, under the precondition its call site guarantees. -/
theorem step_keeps_consistent (l l' : Loader) (op : Op)
    (hc : ∀ f ∈ l, Consistent f) (hw : WFOp l op) (h : step l op = .ok l') :
    ∀ f ∈ l', Consistent f :=
  step_consistent l l' op hc hw h

/-- … hence so does every finite history of instructions (any length, any interleaving of kinds). -/
theorem history_keeps_consistent (ops : List Op) (l l' : Loader)
    (hc : ∀ f ∈ l, Consistent f) (hw : WFRun l ops) (h : run l ops = .ok l') :
    ∀ f ∈ l', Consistent f :=
  run_consistent ops l l' hc hw h

/-- Model-wide uniqueness of ids is an invariant of the protocol too: fresh ids on attach (what
`generate_uuid` guarantees, C04), nothing else can introduce a second carrier of an id. -/
theorem history_keeps_ids_unique (ops : List Op) (l l' : Loader)
    (hu : (allIds l).Nodup) (hw : WFRunU l ops) (h : run l ops = .ok l') : (allIds l').Nodup :=
  run_unique ops l l' hu hw h

/-- Together: after ANY finite history of well-formed instructions from a consistent state with
unique ids, every element of every fragment is found by each of its ids, and nothing else is. -/
theorem after_any_history_lookup_is_exact (ops : List Op) (l l' : Loader)
    (hc : ∀ f ∈ l, Consistent f) (hu : (allIds l).Nodup)
    (hw : WFRun l ops) (hwu : WFRunU l ops) (h : run l ops = .ok l') (k : String) :
    (∀ f ∈ l', ∀ e ∈ f.tree, k ∈ e.ids → lookup l' k = .ok e.nid) ∧
    (k ∉ allIds l' → lookup l' k = .error .keyError) := by
  have hc' := run_consistent ops l l' hc hw h
  have hu' := run_unique ops l l' hu hwu h
  exact ⟨fun f hf e he hk => lookup_complete l' k (fun f hf => (hc' f hf).1) hu' f hf e he hk,
         fun hk => Capella.Index.lookup_absent l' k (fun f hf => (hc' f hf).1) hk⟩

/-- Deleting (a subtree and the link elements purged with it, each in its own fragment) keeps the
loader consistent with unique ids; what is asked of the caller is only that each removed segment
consists of elements of the fragment it is removed from. -/
theorem deletion_keeps_invariant (segs : List (Nat × List Entry)) (l l' : Loader) (hi : Inv l)
    (hw : WFRun l (segs.map (fun (fi, seg) => Op.detach fi seg)))
    (h : apiDelete l segs = .ok l') : Inv l' :=
  apiDelete_inv segs l l' hi hw h

/-- Lookup is sound: whatever `by_uuid` returns is an element of a loaded fragment carrying that id. -/
theorem lookup_returns_tree_element (l : Loader) (k : String) (n : Nat)
    (hc : ∀ f ∈ l, Consistent f) (h : lookup l k = .ok n) :
    ∃ f ∈ l, ∃ e ∈ f.tree, e.nid = n ∧ k ∈ e.ids :=
  lookup_sound l k n (fun f hf => (hc f hf).1) h

/-- Lookup is complete: with model-wide unique ids, every element of every loaded fragment is
found under each of its ids, and it is that very element. -/
theorem lookup_finds_every_element (l : Loader) (k : String)
    (hc : ∀ f ∈ l, Consistent f) (hu : (allIds l).Nodup)
    (f : Frag) (hf : f ∈ l) (e : Entry) (he : e ∈ f.tree) (hk : k ∈ e.ids) :
    lookup l k = .ok e.nid :=
  lookup_complete l k (fun f hf => (hc f hf).1) hu f hf e he hk

/-- Deleted, purged or never-existing ids fail with KeyError. -/
theorem lookup_absent_fails (l : Loader) (k : String)
    (hc : ∀ f ∈ l, Consistent f) (hk : k ∉ allIds l) : lookup l k = .error .keyError :=
  Capella.Index.lookup_absent l k (fun f hf => (hc f hf).1) hk

/-- The type index of a consistent fragment is exactly the typed elements of its tree. -/
theorem search_is_scan (f : Frag) (hc : Consistent f) (x : String) (n : Nat) :
    (x, n) ∈ f.xtc ↔ ∃ e ∈ f.tree, e.xt = some x ∧ e.nid = n :=
  hc.2 x n

/-- The third index — which placeholder element stands for a fragmented element (`__hrefsources`,
what upward navigation across a fragment boundary relies on, C06) — is consistent after loading and
is kept so by attaching a subtree with fresh placeholders and by un-indexing + detaching a subtree. -/
theorem placeholder_index_consistent :
    (∀ f f', idcacheRebuild f = .ok f' → HrefConsistent f') ∧
    (∀ f f' pos seg, HrefConsistent f → (∀ k ∈ scanHrefs seg, k ∉ scanHrefs f.tree) →
        attach f pos seg = .ok f' → HrefConsistent f') ∧
    (∀ f f' seg, HrefConsistent f → (scanHrefs f.tree).Nodup → (f.tree.map (·.nid)).Nodup →
        SegOf seg f.tree → detach f seg = .ok f' → HrefConsistent f') :=
  ⟨rebuild_hrefConsistent, attach_hrefConsistent, detach_hrefConsistent⟩

/-- What `LinkAccessor.purge_references` did before the repair — removing an element from the tree
without un-indexing it — does NOT preserve consistency (the purged element stays resolvable). -/
theorem detach_without_unindex_breaks :
    ¬ ∀ (f : Frag) (seg : List Entry), Consistent f → Consistent (detachNoIndex f seg) := by
  intro h
  let e : Entry := { nid := 7, ids := ["k"], xt := some "T", href := none }
  let f : Frag := { name := "m", semantic := true, ignDups := false, tree := [e],
                    idc := [("k", some 7)], xtc := [("T", 7)], hrefs := [] }
  have hc : Consistent f := by
    have := (rebuild_consistent { f with idc := [], xtc := [] } f (by rfl)).1
    exact this
  have := (h f [e] hc).1 "k"
  revert this
  decide

/-! ### the object layer: which accessor method issues which instruction (`Model/Accessor.lean`) -/

section Accessor
open Capella.Accessor Capella.AccTable

/-- An index instruction that passes the accessor model's guard (`opOk`: the decidable form of the call-site
preconditions) is well-formed for the index protocol in the state it is issued in. -/
theorem guarded_instruction_is_wellformed (l : Loader) (op : Op) (hi : IxInv l) (h : opOk l op = true) :
    WFOp l op ∧ WFOpU l op :=
  opOk_sound l op hi h

/-- **Every API call keeps the indexes right** — for every descriptor row of the generated table (every relation
of every registered class), every method (create / insert / item deletion / item assignment / whole-relation
assignment / `del` / role assignment / attribute set), every argument, every list object in hand (fresh or
outdated), every uuid draw, and whether the call returns or raises: if before the call every fragment's id and type
index equal the scan of its tree, ids are model-wide unique and element identities distinct, the same holds after. -/
theorem api_call_keeps_indexes_right (t : Tables) (c : Call) (s : State) (draws : List String) (fresh : List Nat)
    (h : IxInv s.ix) : IxInv (apiStep t c (beginCall s draws fresh)).st.ix :=
  (pres_apiStep t c).pres _ h

/-- … and so does every finite session of API calls (an exception ends a call, not the session). -/
theorem api_session_keeps_indexes_right (t : Tables) (cs : List (Call × List String × List Nat)) (s : State)
    (h : IxInv s.ix) : IxInv (apiRun t cs s).ix :=
  apiRun_ixinv t cs s h

/-- After any session of API calls a lookup by id returns exactly the element that carries the id in some loaded
tree, and fails for ids no element carries (deleted, purged, replaced, never used). -/
theorem after_any_api_session_lookup_is_exact (t : Tables) (cs : List (Call × List String × List Nat)) (s : State)
    (h : IxInv s.ix) (k : String) :
    (∀ n, lookup (apiRun t cs s).ix k = .ok n → ∃ f ∈ (apiRun t cs s).ix, ∃ e ∈ f.tree, e.nid = n ∧ k ∈ e.ids) ∧
    (∀ f ∈ (apiRun t cs s).ix, ∀ e ∈ f.tree, k ∈ e.ids → lookup (apiRun t cs s).ix k = .ok e.nid) ∧
    (k ∉ allIds (apiRun t cs s).ix → lookup (apiRun t cs s).ix k = .error .keyError) := by
  have hi := apiRun_ixinv t cs s h
  exact ⟨fun n hn => lookup_sound _ k n (fun f hf => (hi.inv.cons f hf).1) hn,
         fun f hf e he hk => lookup_complete _ k (fun f hf => (hi.inv.cons f hf).1) hi.inv.ids f hf e he hk,
         fun hk => lookup_absent _ k (fun f hf => (hi.inv.cons f hf).1) hk⟩

/-- Moving an object into a list owned by the object itself or by one of its own descendants is refused before
anything is un-indexed (the unrepaired code un-indexed the whole subtree and only then failed in lxml, so `by_uuid` lost
elements that were still in the tree): the call raises ValueError and every tree and every index is as before. -/
theorem move_below_itself_changes_nothing (parent idx v : Nat) (s : State)
    (h : (subtreeRows s v).any (·.nid == parent) = true) :
    (moveElem parent idx v s).val = .error .valueError ∧ Same s (moveElem parent idx v s).st :=
  moveElem_below_itself parent idx v s h

/-- Round 5. Assigning a POD attribute through the API – `obj.name = …`, `obj.description = …` (HTML, whatever libxml2's
repair makes of the value), a Bool, Int or Enum attribute – with whatever value, for whatever element, returning or
raising (write-once attribute, wrong type, unknown enum member, XML-illegal text): no index dictionary of any fragment
changes and no index instruction is issued.  (An attribute the index reads – an id, `href`, the type – is never written
silently: the model declines such a call.) -/
theorem pod_assignment_never_touches_indexes (t : Tables) (o : Nat) (d : Capella.Pods.Desc)
    (rp : List (List Char × Option (List Char))) (v : PodLit) (s : State) :
    (apiStep t (.podSetK o d rp v) s).st.ix = s.ix ∧ (apiStep t (.podSetK o d rp v) s).st.log = s.log :=
  (ixkeep_apiStep_pod t o d rp v).keep s

end Accessor

-- Non-vacuity: a concrete two-step history whose preconditions hold.
def exE1 : Entry := { nid := 1, ids := ["a"], xt := some "T", href := none }
def exE2 : Entry := { nid := 2, ids := ["b"], xt := some "U", href := none }
def exF0 : Frag := { name := "m", semantic := true, ignDups := false, tree := [exE1],
                     idc := [("a", some 1)], xtc := [("T", 1)], hrefs := [] }
example :
    (run [exF0] [.attach 0 1 [exE2], .detach 0 [exE1]]).toOption.map
        (fun l => l.map (fun f => (f.tree.map (·.nid), f.idc, f.xtc)))
      = some [([2], [("b", some 2)], [("U", 2)])] := by rfl

-- Non-vacuity for the accessor layer: a one-fragment model (root, one package with one member) satisfies the
-- invariant's computable part; an attribute set through the API changes that attribute and nothing in the index; an
-- object of another model offered to the containment list is refused with ValueError.
section AccessorExample
open Capella.Accessor Capella.AccTable

def exRow : ARow := ⟨"C", "members", .directProxyAccessor, true, true, 0, false, ["T"], none, none, none, [], false, none, [], none, []⟩
def exRows : List Row :=
  [⟨1, none, "root", [("id", "r")], none⟩, ⟨2, some 1, "ownedPkg", [("id", "p")], some "P"⟩,
   ⟨3, some 2, "ownedMember", [("id", "m")], some "T"⟩]
def exIx : Loader :=
  match idcacheRebuild { name := "m", semantic := true, ignDups := false, tree := exRows.map (entryOf ["id"]), idc := [], xtc := [], hrefs := [] } with
  | .ok f => [f]
  | .error _ => []
def exState : State := { frags := [{ name := "m", semantic := true, idtypes := ["id"], rows := exRows }], ix := exIx }
def exAfter : State := (apiStep ⟨[exRow], []⟩ (.podSet 3 "name" true "x") (beginCall exState [] [])).st

example : (exAfter.frags.map (·.rows.map (·.attrs)), (lookup exAfter.ix "m").toOption, (lookup exAfter.ix "zz").toOption)
    = ([[[("id", "r")], [("id", "p")], [("id", "m"), ("name", "x")]]], some 3, none) := by decide +kernel
example : (match (apiStep ⟨[exRow], []⟩ (.insert exRow 2 (some [3]) 0 .foreign) (beginCall exState [] [])).val with
    | .error .valueError => true | _ => false) = true := by decide +kernel
-- Round 5: `obj.description = "<p>x</p>"` (HTMLStringPOD; the repair is an input) stores the repaired text; assigning the
-- default of a BoolPOD removes the attribute (default elision); a Python `int` offered to a BoolPOD fails its assertion;
-- none of them changes a dictionary.
def exHtml : Capella.Pods.Desc := ⟨.html, "description".toList, true⟩
def exBool : Capella.Pods.Desc := ⟨.bool, "abstract".toList, true⟩
def exAfterH : State := (apiStep ⟨[exRow], []⟩ (.podSetK 3 exHtml [("<p>x".toList, some "<p>x</p>".toList)] (.str "<p>x")) (beginCall exState [] [])).st
example : (exAfterH.frags.map (·.rows.map (·.attrs)), exAfterH.log.length)
    = ([[[("id", "r")], [("id", "p")], [("id", "m"), ("description", "<p>x</p>")]]], 0) := by decide +kernel
example : ((apiStep ⟨[exRow], []⟩ (.podSetK 3 exBool [] (.bool false)) (beginCall exAfterH [] [])).st.frags.map (·.rows.map (·.attrs)))
    = [[[("id", "r")], [("id", "p")], [("id", "m"), ("description", "<p>x</p>")]]] := by decide +kernel
example : (match (apiStep ⟨[exRow], []⟩ (.podSetK 3 exBool [] (.int 1)) (beginCall exState [] [])).val with
    | .error .assertion => true | _ => false) = true := by decide +kernel
end AccessorExample

end Capella.Props.C03
