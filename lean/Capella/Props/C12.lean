import Capella.Lemmas.Decl
import Capella.Lemmas.DeclCE2
import Capella.Lemmas.DeclOrder2
import Capella.Lemmas.DeclAttr2
import Capella.Lemmas.DeclAll2
import Capella.Lemmas.DeclAll3

/-!
# C12 — declarative modelling resolves promises independently of declaration order

Property theorems only; the machine is `Capella/Model/Decl.lean` (`decl.apply` as coded), the lemmas
live in `Capella/Lemmas/Decl.lean` (all documents) and `Capella/Lemmas/DeclCE.lean` (create/extend
documents).  Fresh UUIDs are inputs: every object description carries the id (`nid`) its object gets.
-/
namespace Capella.Props.C12
open Capella.Decl

/-! ## all documents (create, extend, set, sync, delete) -/

/-- The `while instructions:` loop of `apply` ends, for every document and every model, within
`measure` transitions, where `measure = D·(T+1) + Q` (`D` pending `promise_id`s, `T` mass of
agenda+queue+deferred, `Q` mass of agenda+queue): `apply` is the loop's result followed by the
`UnfulfilledPromisesError` check, never the model's out-of-fuel value. -/
theorem apply_terminates (mm : MM) (g : Graph) (doc : List Instr) :
    ∃ r, run mm ((init g doc).measure + 1) (init g doc) = some r ∧ apply mm g doc = r.bind finish := by
  have h := run_measure_some mm ((init g doc).measure + 1) (init g doc) (by omega)
  cases hr : run mm ((init g doc).measure + 1) (init g doc) with
  | none => simp [hr] at h
  | some r => exact ⟨r, rfl, by simp [apply, hr]⟩

/-- Every transition strictly lowers the measure (the loop cannot cycle, whatever is deferred and
re-queued). -/
theorem step_lowers_measure {mm : MM} {s s' : State} (h : step mm s = .ok (some s')) :
    s'.measure < s.measure := step_measure h

/-- Extra fuel never changes the outcome. -/
theorem fuel_irrelevant (mm : MM) (n : Nat) (s : State) (r) (h : run mm n s = some r) (k : Nat) :
    run mm (n + k) s = some r := by
  induction k with
  | zero => exact h
  | succ k ih => exact run_mono mm (n + k) s r ih

/-- `!promise p` resolves to whatever `promises[p]` holds and to nothing else; when `p` is not bound the
private signal carries exactly `p` (so the entry is filed under `p`, not dropped). -/
theorem resolve_promise_is_binding (ps : Promises) (g : Graph) (p : Str) :
    resolveVal ps g (.atom (.promise p)) =
      match ps.lookup p with
      | some i => .ok (.obj i)
      | none => .error (.unres p) := rfl

/-- Registering a promise id that is already bound fails with "promise_id defined twice"
(`ValueError`), whatever the state. -/
theorem duplicate_binding_raises (s : State) (p : Str) (i j : Id) (h : s.ps.lookup p = some j) :
    s.fulfil p i = .error (.dupPromise p) := by
  simp [State.fulfil, h]

/-- Along every run (any document): a binding, once made, is never changed or removed, and no id is
bound twice. -/
theorem bindings_never_change {mm : MM} (n : Nat) (s r : State)
    (h : run mm n s = some (.ok r)) :
    (∀ p i, s.ps.lookup p = some i → r.ps.lookup p = some i) ∧
    ((s.ps.map Prod.fst).Nodup → (r.ps.map Prod.fst).Nodup) := run_ps n s r h

/-- When the loop ends with entries still deferred, `apply` raises `UnfulfilledPromisesError` naming
exactly the promise ids entries are filed under. -/
theorem leftover_deferred_raises (s : State) (p : Str) (a : Action) (rest : List (Str × Action))
    (h : s.deferred = (p, a) :: rest) :
    finish s = .error (.unfulfilled ((p :: rest.map (·.1)).eraseDups)) := by
  simp [finish, h]

/-! ## create/extend documents

`DocCE st pm doc`: every instruction has only `create`/`extend`, its parent and every reference entry
of a list are plain `!promise`/`!uuid` values (attribute values may be anything, including `!find`);
with `st = True` additionally `pm` sends every declared `promise_id` to the id of its object description.
`docN sc pm F doc` sums a weight `F` over the effects the document describes (objects, list
memberships, promise bindings, promise uses); `ind e` is the indicator of one effect; `sc` is the class
an object gets as a function of list name and `_type` hint (irrelevant for weights that ignore classes).
The theorems about promises hold for **every** metamodel `mm` (generated table or permissive). -/

/-- placeholder class function for weights that ignore classes -/
def sc0 : Str → Option Str → Str := fun a _ => a

/-- create/extend documents (structure only) -/
def PlainCE (doc : List Instr) : Prop := DocCE False (fun _ => none) doc

/-- number of object descriptions with id `i` that carry `promise_id: p` -/
def declCount (doc : List Instr) (p : Str) (i : Id) : Nat :=
  docN sc0 (fun _ => none) (ind (.bind p i)) doc

/-- number of object descriptions that carry `promise_id: p` -/
def declTotal (doc : List Instr) (p : Str) : Nat :=
  docN sc0 (fun _ => none) (fun e => match e with | .bind q _ => if q = p then 1 else 0 | _ => 0) doc

/-- number of places that reference `!promise p` (parents, list entries, attribute values, find keys) -/
def useCount (doc : List Instr) (p : Str) : Nat :=
  docN sc0 (fun _ => none) (ind (.use p)) doc

/-- **Every promise ends up pointing at the object that declared it**: the mapping returned by a
successful `apply` contains the pair `(p, i)` exactly as often as the document contains an object
description with id `i` and `promise_id: p` — nothing else is bound, nothing declared is missing. -/
theorem promise_points_to_declarer {mm g doc g' ps'} (hdoc : PlainCE doc)
    (h : apply mm g doc = .ok (g', ps')) (p : Str) (i : Id) :
    ps'.count (p, i) = declCount doc p i := by
  have hdoc' : DocCE False (fun _ => none) doc := hdoc
  have := apply_ce (sc := sc0) hdoc' h (ind (.bind p i)) (Or.inr (by intro o a m; simp [ind]))
    (Or.inr (by intro j c c'; simp [ind])) (quiet_of_not_use _ (by intro q; simp))
  rw [resN_bind, resN_bind] at this
  simpa [declCount] using this

theorem resN_key (g : Graph) (ps : Promises) (p : Str) :
    resN (fun e => match e with | .bind q _ => if q = p then 1 else 0 | _ => 0) g ps =
      (ps.map Prod.fst).count p := by
  unfold resN
  simp only [sumBy_zero, Nat.add_zero]
  induction ps with
  | nil => simp [sumBy]
  | cons x t ih =>
    simp only [sumBy, ih, List.map_cons, List.count_cons]
    by_cases hx : x.1 = p <;> simp [hx] <;> omega

/-- **A promise id declared twice makes the application fail**: a successful `apply` means every
promise id is carried by at most one object description. -/
theorem duplicate_promise_raises {mm g doc g' ps'} (hdoc : PlainCE doc)
    (h : apply mm g doc = .ok (g', ps')) (p : Str) : declTotal doc p ≤ 1 := by
  have hdoc' : DocCE False (fun _ => none) doc := hdoc
  have hc := apply_ce (sc := sc0) hdoc' h (fun e => match e with | .bind q _ => if q = p then 1 else 0 | _ => 0)
    (Or.inr (by intro o a m; rfl)) (Or.inr (by intro j c c'; rfl)) (by intro q j _; rfl)
  rw [resN_key, resN_key] at hc
  obtain ⟨r, hr, ha⟩ := apply_terminates mm g doc
  rw [ha] at h
  cases r with
  | error e => simp [Except.bind] at h
  | ok sf =>
    have hnd := (run_ps _ _ _ hr).2 (by simp [init])
    simp only [Except.bind, finish] at h
    split at h
    · cases h
      have := List.nodup_iff_count.mp hnd p
      simp [declTotal] at hc ⊢
      omega
    · cases h

/-- **A reference to a promise nobody declares makes the application fail**: after a successful `apply`
every promise id the document references anywhere is bound (hence, by `promise_points_to_declarer`,
declared). -/
theorem unfulfilled_raises {mm g doc g' ps'} (hdoc : PlainCE doc)
    (h : apply mm g doc = .ok (g', ps')) (p : Str) (hu : 0 < useCount doc p) :
    ∃ i, ps'.lookup p = some i := by
  cases hl : ps'.lookup p with
  | some i => exact ⟨i, rfl⟩
  | none =>
    exfalso
    have hdoc' : DocCE False (fun _ => none) doc := hdoc
    have hq : Quiet (ind (.use p)) ps' := by
      intro q j hj
      simp only [ind]
      split
      · rename_i he; cases he; rw [hl] at hj; cases hj
      · rfl
    have := apply_ce (sc := sc0) hdoc' h (ind (.use p)) (Or.inr (by intro o a m; simp [ind]))
      (Or.inr (by intro j c c'; simp [ind])) hq
    simp [resN, ind, sumBy_zero, useCount] at this hu
    omega

/-! ## order independence -/

/-- results agree exactly: classes, attributes, lists **in order**, promise bindings -/
def Same (r r' : Graph × Promises) : Prop :=
  (∀ o a, r.1.members o a = r'.1.members o a) ∧ (∀ i, r.1.clsOf i = r'.1.clsOf i) ∧
  (∀ i k, r.1.getScal i k = r'.1.getScal i k) ∧ (∀ p, r.2.lookup p = r'.2.lookup p)

mutual
/-- the lists an object description fills: (its own id, attribute) for every list-valued attribute -/
def itemSrcs : Item → List (Id × Str)
  | .obj nid _ _ _ kids => kidsSrcs nid kids
  | .ref _ => []
  | .str _ _ => []
def kidsSrcs (nid : Id) : List (Str × List Item) → List (Id × Str)
  | [] => []
  | (a, l) :: t => (nid, a) :: (itemsSrcs l ++ kidsSrcs nid t)
def itemsSrcs : List Item → List (Id × Str)
  | [] => []
  | x :: t => itemSrcs x ++ itemsSrcs t
end

/-- every list (owner, attribute) a document extends, once per place that extends it -/
def docSrcs (pm : Str → Option Id) (doc : List Instr) : List (Id × Str) :=
  doc.flatMap fun i => kidsSrcs ((valId pm i.parent).getD 0) (i.create ++ i.ext)

/-- "instructions that do not extend the same list" -/
def NoSharedList (pm : Str → Option Id) (doc : List Instr) : Prop := (docSrcs pm doc).Nodup

/-- The property as stated, for create/extend documents: reordering the instructions of a document
in which no list is extended from two places does not change the result. **False** for the code as it
is (`C12_full_fails`). -/
def C12_full : Prop :=
  ∀ (dflt : List (Str × Str)) (g : Graph) (pm : Str → Option Id) (doc doc' : List Instr) (r r' : Graph × Promises),
    DocCE True pm doc → NoSharedList pm doc → doc.Perm doc' →
    apply (MM.free dflt) g doc = .ok r → apply (MM.free dflt) g doc' = .ok r' → Same r r'

def s (x : String) : Str := x.toList

/-- the witness: two classes `C1 (super: !promise K)`, `C2` extended into package 1; `K` declared inside
a new sub-package (a different list). Object 1 is the data package. -/
def witness : List Instr := [
  { parent := .atom (.uuid 1),
    ext := [(s "classes", [
      .obj 10 none none [(s "name", .atom (.str (s "C1"))), (s "super", .atom (.promise (s "K")))] [],
      .obj 11 none none [(s "name", .atom (.str (s "C2")))] []])] },
  { parent := .atom (.uuid 1),
    ext := [(s "packages", [
      .obj 12 none none [(s "name", .atom (.str (s "P")))]
        [(s "classes", [.obj 13 (some (s "K")) none [(s "name", .atom (.str (s "K")))] []])]])] }]

def witnessGraph : Graph := { objs := [(1, s "DataPkg")] }
def witnessPm : Str → Option Id := fun p => if p = s "K" then some 13 else none

/-- use-then-declare gives `[C2, C1]`, declare-then-use gives `[C1, C2]` -/
def classesOf (r : Except Err (Graph × Promises)) : Option (List Id) :=
  match r with
  | .ok r => some (r.1.members 1 (s "classes"))
  | .error _ => none

theorem witness_orders :
    classesOf (apply (MM.free []) witnessGraph witness) = some [11, 10] ∧
    classesOf (apply (MM.free []) witnessGraph witness.reverse) = some [10, 11] := by
  decide


theorem witness_ce : DocCE True witnessPm witness := by
  intro i hi
  simp only [witness, List.mem_cons, List.mem_nil_iff, or_false] at hi
  rcases hi with rfl | rfl <;>
    simp [Instr.all, kidsAll, itemsAll, Item.all, ceHead, ceQ, pidOK, witnessPm]

theorem witness_noShared : NoSharedList witnessPm witness := by
  unfold NoSharedList; decide

/-- The code does **not** have the property as stated: in the witness no list is extended from two
places, yet the order of `C1`, `C2` in `classes` depends on whether `K` (which lives in another list)
is declared before or after its use — an object description with an unresolved scalar `!promise` is
deferred whole and created after its later siblings. (Replayed on the implementation on every run:
known finding `apply|sibling-order-depends-on-declaration-order|scalar-promise`.) -/
theorem C12_full_fails : ¬ C12_full := by
  intro h
  have hw := witness_orders
  cases h1 : apply (MM.free []) witnessGraph witness with
  | error e => simp [h1, classesOf] at hw
  | ok r =>
    cases h2 : apply (MM.free []) witnessGraph witness.reverse with
    | error e => simp [h2, classesOf] at hw
    | ok r' =>
      have hs := h [] witnessGraph witnessPm witness witness.reverse r r' witness_ce witness_noShared
        (List.reverse_perm witness).symm h1 h2
      have := hs.1 1 (s "classes")
      simp only [h1, h2, classesOf, Option.some.injEq] at hw
      rw [hw.1, hw.2] at this
      cases this

/-- **Order independence, as far as the code has it** (`C12_partial`): for create/extend documents whose
promise ids are consistently declared, any two orders of the instructions that both succeed yield the
same objects (ids and classes), the same members in every list **up to their order**, and the same
promise bindings. No hypothesis about shared lists is needed for this form. The metamodel may be any in
which the class of a new object is a function of list name and type hint (`StaticCls`; the permissive
metamodels `MM.free dflt` are such: `C12_partial_free`). -/
theorem C12_partial {mm : MM} {sc : Str → Option Str → Str} {g : Graph} {pm : Str → Option Id} {doc doc' : List Instr}
    {r r' : Graph × Promises} (hsc : StaticCls mm sc) (hdoc : DocCE True pm doc) (hp : doc.Perm doc')
    (h : apply mm g doc = .ok r) (h' : apply mm g doc' = .ok r') :
    r.1.objs.Perm r'.1.objs ∧ (∀ o a, (r.1.members o a).Perm (r'.1.members o a)) ∧
    (∀ p, r.2.lookup p = r'.2.lookup p) := by
  obtain ⟨g1, ps1⟩ := r
  obtain ⟨g2, ps2⟩ := r'
  have hdoc' : DocCE True pm doc' := fun i hi => hdoc i (hp.mem_iff.mpr hi)
  have key : ∀ e, (∀ p, e ≠ .use p) → resN (ind e) g1 ps1 = resN (ind e) g2 ps2 := by
    intro e he
    have a := apply_ce (sc := sc) hdoc h (ind e) (Or.inl trivial) (Or.inl hsc) (quiet_of_not_use _ he)
    have b := apply_ce (sc := sc) hdoc' h' (ind e) (Or.inl trivial) (Or.inl hsc) (quiet_of_not_use _ he)
    rw [a, b, docN_perm hp]
  have hobjs : g1.objs.Perm g2.objs := by
    rw [List.perm_iff_count]
    intro ⟨i, c⟩
    have := key (.obj i c) (by intro p; simp)
    rwa [resN_obj, resN_obj] at this
  have hedges : g1.edges.Perm g2.edges := by
    rw [List.perm_iff_count]
    intro ⟨o, a, m⟩
    have := key (.edge o a m) (by intro p; simp)
    rwa [resN_edge, resN_edge] at this
  have hps : ps1.Perm ps2 := by
    rw [List.perm_iff_count]
    intro ⟨p, i⟩
    have := key (.bind p i) (by intro q; simp)
    rwa [resN_bind, resN_bind] at this
  exact ⟨hobjs, fun o a => members_perm hedges o a,
    fun p => lookup_of_perm hps (apply_ok_nodup h) (apply_ok_nodup h') p⟩

/-- `C12_partial` for the permissive metamodels (the statement of the earlier rounds, unchanged) -/
theorem C12_partial_free {dflt : List (Str × Str)} {g : Graph} {pm : Str → Option Id} {doc doc' : List Instr}
    {r r' : Graph × Promises} (hdoc : DocCE True pm doc) (hp : doc.Perm doc')
    (h : apply (MM.free dflt) g doc = .ok r) (h' : apply (MM.free dflt) g doc' = .ok r') :
    r.1.objs.Perm r'.1.objs ∧ (∀ o a, (r.1.members o a).Perm (r'.1.members o a)) ∧
    (∀ p, r.2.lookup p = r'.2.lookup p) :=
  C12_partial (staticCls_free dflt) hdoc hp h h'

/-- … and for **every** metamodel (generated table included), where the class of a new object may depend
on the class of its parent: the same object ids, the same members of every list up to order, the same
promise bindings. -/
theorem C12_partial_any {mm : MM} {g : Graph} {pm : Str → Option Id} {doc doc' : List Instr}
    {r r' : Graph × Promises} (hdoc : DocCE True pm doc) (hp : doc.Perm doc')
    (h : apply mm g doc = .ok r) (h' : apply mm g doc' = .ok r') :
    (r.1.objs.map Prod.fst).Perm (r'.1.objs.map Prod.fst) ∧ (∀ o a, (r.1.members o a).Perm (r'.1.members o a)) ∧
    (∀ p, r.2.lookup p = r'.2.lookup p) := by
  obtain ⟨g1, ps1⟩ := r
  obtain ⟨g2, ps2⟩ := r'
  have hdoc' : DocCE True pm doc' := fun i hi => hdoc i (hp.mem_iff.mpr hi)
  have key : ∀ F, ClsBlind F → (∀ ps, Quiet F ps) → resN F g1 ps1 = resN F g2 ps2 := by
    intro F hF hq
    have a := apply_ce (sc := sc0) hdoc h F (Or.inl trivial) (Or.inr hF) (hq _)
    have b := apply_ce (sc := sc0) hdoc' h' F (Or.inl trivial) (Or.inr hF) (hq _)
    rw [a, b, docN_perm hp]
  have hedges : g1.edges.Perm g2.edges := by
    rw [List.perm_iff_count]
    intro ⟨o, a, m⟩
    have := key (ind (.edge o a m)) (by intro j c c'; simp [ind]) (fun ps => quiet_of_not_use ps (by intro p; simp))
    rwa [resN_edge, resN_edge] at this
  have hps : ps1.Perm ps2 := by
    rw [List.perm_iff_count]
    intro ⟨p, i⟩
    have := key (ind (.bind p i)) (by intro j c c'; simp [ind]) (fun ps => quiet_of_not_use ps (by intro q; simp))
    rwa [resN_bind, resN_bind] at this
  have hids : (g1.objs.map Prod.fst).Perm (g2.objs.map Prod.fst) := by
    rw [List.perm_iff_count]
    intro i
    have := key (fun e => match e with | .obj j _ => if j = i then 1 else 0 | _ => 0)
      (by intro j c c'; rfl) (fun ps => by intro p j _; rfl)
    simpa [resN, sumBy_zero, sumBy_idCount] using this
  exact ⟨hids, fun o a => members_perm hedges o a,
    fun p => lookup_of_perm hps (apply_ok_nodup h) (apply_ok_nodup h') p⟩

/-! ## success and failure do not depend on the order

`CleanDoc g doc`: create/extend only; parents and reference entries of lists are `!promise` or `!uuid` of
an object of the initial graph `g`; attribute values are plain strings, `!promise` or such `!uuid`s (a
`!find` is evaluated against the model of its moment and is outside this fragment, as are plain-string
children); `mm.Total`: the metamodel accepts every creation (its TypeErrors/ValueErrors are raised per
creation site and are compared by the correspondence).  The two known order findings concern the *order of
siblings* in the result and do not touch these statements. -/

/-- **If one order of the instructions can be applied, every order can** — whatever is deferred, re-queued
and deferred again on the way: nothing is lost and nothing raises. -/
theorem success_order_independent {mm : MM} {g : Graph} {doc doc' : List Instr} {r : Graph × Promises}
    (ht : mm.Total) (hdoc : CleanDoc g doc) (hp : doc.Perm doc') (h : apply mm g doc = .ok r) :
    ∃ r', apply mm g doc' = .ok r' :=
  success_transfers ht hdoc hp h

/-- **If one order raises, every order raises** (a dangling `!promise` or a duplicated `promise_id` is never
silently accepted in some lucky order). -/
theorem failure_order_independent {mm : MM} {g : Graph} {doc doc' : List Instr} {e : Err}
    (ht : mm.Total) (hdoc : CleanDoc g doc) (hp : doc.Perm doc') (h : apply mm g doc = .error e) :
    ∃ e', apply mm g doc' = .error e' := by
  cases h' : apply mm g doc' with
  | error e' => exact ⟨e', rfl⟩
  | ok r' =>
    have hdoc' : CleanDoc g doc' := fun i hi => hdoc i (hp.mem_iff.mpr hi)
    obtain ⟨r, hr⟩ := success_transfers ht hdoc' hp.symm h'
    rw [h] at hr; cases hr

/-- **The only ways such a document fails**: "promise_id defined twice" for an id the document declares
at least twice, or `UnfulfilledPromisesError` naming a non-empty set of ids each of which the document
references. -/
theorem failure_kinds {mm : MM} {g : Graph} {doc : List Instr} {e : Err} (ht : mm.Total)
    (hdoc : CleanDoc g doc) (h : apply mm g doc = .error e) :
    (∃ p, e = .dupPromise p ∧ 2 ≤ docN scN pm0 (keyInd p) doc) ∨
    (∃ l, e = .unfulfilled l ∧ l ≠ [] ∧ ∀ p ∈ l, 1 ≤ docN scN pm0 (ind (.use p)) doc) :=
  clean_apply_error ht hdoc h

/-- a duplicated id fails in **every** order: no order of a document that declares an id twice succeeds -/
theorem duplicate_fails_in_every_order {mm : MM} {g : Graph} {doc doc' : List Instr} {p : Str}
    (hdoc : PlainCE doc) (hp : doc.Perm doc') (h2 : 2 ≤ declTotal doc p) (r : Graph × Promises) :
    apply mm g doc' ≠ .ok r := by
  intro h
  have hdoc' : PlainCE doc' := fun i hi => hdoc i (hp.mem_iff.mpr hi)
  have := duplicate_promise_raises (mm := mm) (g := g) (g' := r.1) (ps' := r.2) hdoc' h p
  have hperm : declTotal doc' p = declTotal doc p := (docN_perm hp).symm
  omega

/-! ## scalar attribute values

`atomsHead`: attribute values are plain strings, `!promise` or `!uuid` (a `!find` is evaluated against the
model of its moment), attribute names of one object description are distinct (a YAML mapping), no plain-string
children; `FreshDoc`: the ids of the creation sites are pairwise distinct and not in the graph (they stand for
freshly drawn UUIDs); `ScalDom g` / distinct keys: the initial graph is well formed. -/

/-- **The attribute values are part of the conserved effects**: after a successful `apply` the scalar
entries of the graph are exactly those it had plus, for every object description, its simple attributes
with every `!promise` value replaced by the object that declares the promise — nothing is lost, nothing
is written twice, whatever was deferred on the way. -/
theorem attribute_values_conserved {mm : MM} {sc : Str → Option Str → Str} {pm : Str → Option Id} {g : Graph}
    {doc : List Instr} {g' : Graph} {ps' : Promises} (hdoc : DocCE True pm doc)
    (hat : ∀ i ∈ doc, i.all atomsHead (fun _ => True)) (hfresh : FreshDoc sc pm g doc) (hdom : ScalDom g)
    (hnd : (g.scal.map Prod.fst).Nodup) (h : apply mm g doc = .ok (g', ps')) :
    (∀ G, sumBy G g'.scal = sumBy G g.scal + docA pm G doc) ∧ (g'.scal.map Prod.fst).Nodup :=
  apply_attrs hdoc hat hfresh hdom hnd h

/-- **Any two successful orders give every attribute of every object the same value** (reference-valued
attributes set through promises included) — for every metamodel. Together with `C12_partial_any`: the two
results agree in objects, list members up to order, promise bindings and all scalar attributes. -/
theorem C12_scalars {mm : MM} {sc : Str → Option Str → Str} {pm : Str → Option Id} {g : Graph}
    {doc doc' : List Instr} {r r' : Graph × Promises} (hdoc : DocCE True pm doc)
    (hat : ∀ i ∈ doc, i.all atomsHead (fun _ => True)) (hfresh : FreshDoc sc pm g doc) (hdom : ScalDom g)
    (hnd : (g.scal.map Prod.fst).Nodup) (hp : doc.Perm doc')
    (h : apply mm g doc = .ok r) (h' : apply mm g doc' = .ok r') :
    ∀ i k, r.1.getScal i k = r'.1.getScal i k :=
  scalars_order_independent (g1 := r.1) (ps1 := r.2) (g2 := r'.1) (ps2 := r'.2) hdoc hat hfresh hdom hnd hp h h'

/-! ## every document: create, extend, set (scalar and list), sync (found and create branch, nested), delete

`declaredAll doc p`: the number of `promise_id: p` sites anywhere in the document — object descriptions below
`create` / `extend` / a `set` list / the `extend` of a sync entry, and sync entries themselves.
`dropAll doc p`: how many of them the create branch of `_operate_sync` can lose when it builds the new object
from `find | set | extend` (Python `dict |`: a list below `set` that is overridden by a list of the same name
below `extend` disappears with everything declared inside it); `0` for every document whose sync entries
have distinct `set` and `extend` keys. -/

def declaredAll (doc : List Instr) (p : Str) : Nat := docPid (indS p) doc
def dropAll (doc : List Instr) (p : Str) : Nat := docDrop (indS p) doc

/-- **The loop as coded stops exactly when no progress is possible** (any document, any model): when
`while instructions:` ends, the deque and the running generator are empty and every entry still parked in
`deferred` is filed under a promise id that is not in `promises` — there is no lost wake-up (binding an id
re-queues everything filed under it: `State.fulfil`) and no entry waits for something already bound. -/
theorem loop_ends_at_fixpoint {mm : MM} {g : Graph} {doc : List Instr} {n : Nat} {sf : State}
    (h : run mm n (init g doc) = some (.ok sf)) :
    sf.agenda = [] ∧ sf.queue = [] ∧ ∀ e ∈ sf.deferred, sf.ps.lookup e.1 = none :=
  run_end_fixpoint n _ sf (init_unbound g doc) h

/-- **"No progress" detection is exact**: `apply` returns the bindings iff the loop ended with nothing parked;
otherwise it raises `UnfulfilledPromisesError` naming exactly the ids entries are parked under, and every one
of them is unbound at that moment (never an id that some executed declaration bound). -/
theorem no_progress_detection {mm : MM} {g : Graph} {doc : List Instr} {sf : State}
    (hr : run mm ((init g doc).measure + 1) (init g doc) = some (.ok sf)) :
    (sf.deferred = [] → apply mm g doc = .ok (sf.g, sf.ps)) ∧
    (sf.deferred ≠ [] → apply mm g doc = .error (.unfulfilled (sf.deferred.map (·.1)).eraseDups) ∧
      ∀ p ∈ (sf.deferred.map (·.1)).eraseDups, sf.ps.lookup p = none) := by
  obtain ⟨_, _, hu⟩ := loop_ends_at_fixpoint hr
  constructor
  · intro hd; simp [apply, hr, Except.bind, finish, hd]
  · intro hd
    constructor
    · cases hdd : sf.deferred with
      | nil => exact absurd hdd hd
      | cons x t => simp [apply, hr, Except.bind, finish, hdd]
    · intro p hp
      obtain ⟨e, he, rfl⟩ := List.mem_map.mp (List.mem_eraseDups.mp hp)
      exact hu e he

/-- **Nothing is bound that the document does not declare** (every document): an id in the returned mapping
is carried by a `promise_id` site of the document. -/
theorem bound_only_if_declared_all {mm g doc g' ps'} (h : apply mm g doc = .ok (g', ps')) (p : Str) (i : Id)
    (hb : ps'.lookup p = some i) : 1 ≤ declaredAll doc p := by
  have := (apply_acct (indS p) h).1
  rw [bound_indS] at this
  have : 0 < (ps'.map Prod.fst).count p := List.count_pos_iff.mpr (lookup_mem_keys hb)
  unfold declaredAll; omega

/-- **A promise id declared twice makes the application fail — for set, sync (both branches) and delete
documents as well**: after a successful `apply` of a document that cannot lose declarations in a
`find | set | extend` merge, every promise id is carried by at most one site (object description or sync entry). -/
theorem duplicate_promise_raises_all {mm g doc g' ps'} (h : apply mm g doc = .ok (g', ps')) (p : Str)
    (hd : dropAll doc p = 0) : declaredAll doc p ≤ 1 := by
  have := (apply_acct (indS p) h).2
  rw [bound_indS] at this
  have hn := List.nodup_iff_count.mp (apply_ok_nodup h) p
  unfold declaredAll dropAll at *; omega

/-- **… and every declaration is carried out**: such a document's declared ids are all in the returned mapping
(with `bound_only_if_declared_all`: the mapping's keys are exactly the declared ids, each bound once). -/
theorem declared_is_bound_all {mm g doc g' ps'} (h : apply mm g doc = .ok (g', ps')) (p : Str)
    (hd : dropAll doc p = 0) (hdecl : 1 ≤ declaredAll doc p) : ∃ i, ps'.lookup p = some i := by
  have := (apply_acct (indS p) h).2
  rw [bound_indS] at this
  cases hl : ps'.lookup p with
  | some i => exact ⟨i, rfl⟩
  | none =>
    have := List.count_eq_zero.mpr (lookup_none_not_mem _ _ hl)
    unfold declaredAll dropAll at *; omega

/-- in general the loss is bounded by the drop potential: `declared ≤ bound + drop` -/
theorem declared_le_bound_plus_drop {mm g doc g' ps'} (h : apply mm g doc = .ok (g', ps')) (p : Str) :
    declaredAll doc p ≤ (ps'.map Prod.fst).count p + dropAll doc p := by
  have := (apply_acct (indS p) h).2
  rw [bound_indS] at this
  exact this

/-- `!promise` below `delete:` raises ValueError whatever the state (it is never parked) -/
theorem delete_promise_raises (st : State) (par : Id) (attr p : Str) :
    stepDel st par attr (.atom (.promise p)) = .error .valueError := rfl

/-! ### an unresolvable promise is parked, and what is parked is never dropped (set, sync, whole instructions) -/

/-- `set: {attr: !promise p}` (or a `!find` with `p` inside) with `p` unbound: the entry is filed under `p` -/
theorem set_unresolved_is_parked (st : State) (par : Id) (attr : Str) (v : Val) (p : Str)
    (h : resolveVal st.ps st.g v = .error (.unres p)) :
    stepSet st par attr (.scalar v) = .ok (st.defer p (.piece par (.setE attr (.scalar v)))) := by
  simp [stepSet, h]

/-- a sync entry whose `find` holds an unbound `!promise p`: the whole entry is filed under `p` -/
theorem sync_find_unresolved_is_parked (st : State) (par : Id) (attr : Str) (nid nid2 ty keys pid set ext sync) (p : Str)
    (h : resolveFind st.ps st.g (st.g.members par attr) ty keys = .error (.unres p)) :
    stepSync st par attr (.mk nid nid2 ty keys pid set ext sync) =
      .ok (st.defer p (.piece par (.sync attr (.mk nid nid2 ty keys pid set ext sync)))) := by
  simp [stepSync, h]

/-- the create branch of a sync entry (nothing found) whose scalar `set` values hold an unbound `!promise p`:
the whole entry is filed under `p` and nothing is created yet (the repaired behaviour, /repo d590fcb) -/
theorem sync_create_set_unresolved_is_parked (st : State) (par : Id) (attr : Str) (nid nid2 ty keys pid set ext sync rk)
    (p : Str) (hf : resolveFind st.ps st.g (st.g.members par attr) ty keys = .ok (none, rk))
    (h : checkSetScalars st.ps st.g set = some (.unres p)) :
    stepSync st par attr (.mk nid nid2 ty keys pid set ext sync) =
      .ok (st.defer p (.piece par (.sync attr (.mk nid nid2 ty keys pid set ext sync)))) := by
  simp [stepSync, hf, h]

/-- an instruction whose `parent` is an unbound `!promise p` is re-filed whole under `p` -/
theorem parent_unresolved_is_parked (mm : MM) (st : State) (i : Instr) (p : Str)
    (h : resolveVal st.ps st.g i.parent = .error (.unres p)) :
    startAction mm st (.whole i) = .ok (st.defer p (.whole i)) := by
  simp [startAction, h]

/-- **What is parked is never silently dropped** (every document, every operator): if at some state of the
loop an entry is filed under `p` and the loop ends without `p` having been bound, the entry is still there and
`apply` raises `UnfulfilledPromisesError` naming `p`. -/
theorem parked_entry_raises {mm : MM} {n : Nat} {st sf : State} {p : Str} (hr : run mm n st = some (.ok sf))
    (hp : ∃ e ∈ st.deferred, e.1 = p) (hn : sf.ps.lookup p = none) :
    ∃ l, finish sf = .error (.unfulfilled l) ∧ p ∈ l := by
  obtain ⟨e, he, hpe⟩ := run_keeps_parked n st sf hr hp hn
  cases hd : sf.deferred with
  | nil => rw [hd] at he; cases he
  | cons x t =>
    refine ⟨(sf.deferred.map (·.1)).eraseDups, by simp [finish, hd], ?_⟩
    exact List.mem_eraseDups.mpr (List.mem_map.mpr ⟨e, he, hpe⟩)

/-- The statement without the hypothesis on the merge: "success ⇒ every id declared at most once". **False**
for the code as it is (`duplicate_all_full_fails`). -/
def Duplicate_all_full : Prop :=
  ∀ (mm : MM) (g : Graph) (doc : List Instr) (r : Graph × Promises) (p : Str),
    apply mm g doc = .ok r → declaredAll doc p ≤ 1

/-- the witness: a sync entry (create branch) whose `set: {classes: [{promise_id: K}]}` is overridden by
`extend: {classes: []}`; a second instruction declares `K` again -/
def dropWitness : List Instr := [
  { parent := .atom (.uuid 1),
    sync := [(s "packages", [.mk 20 21 none [(s "name", .str (s "P"))] none
      [(s "classes", .list [.obj 22 (some (s "K")) none [(s "name", .atom (.str (s "A")))] []])]
      [(s "classes", [])] []])] },
  { parent := .atom (.uuid 1),
    ext := [(s "classes", [.obj 23 (some (s "K")) none [(s "name", .atom (.str (s "B")))] []])] }]

theorem dropWitness_ok :
    (match apply (MM.free []) witnessGraph dropWitness with | .ok r => some r.2 | .error _ => none)
      = some [(s "K", 23)] ∧ declaredAll dropWitness (s "K") = 2 ∧ dropAll dropWitness (s "K") = 1 := by
  decide

theorem duplicate_all_full_fails : ¬ Duplicate_all_full := by
  intro h
  have hw := dropWitness_ok
  cases h1 : apply (MM.free []) witnessGraph dropWitness with
  | error e => simp [h1] at hw
  | ok r =>
    have := h _ _ _ r (s "K") h1
    omega

/-! ## non-vacuity -/

/-- the witness is a create/extend document, both orders succeed, `K` is bound to its declarer (13) -/
example : PlainCE witness := by
  intro i hi
  simp only [witness, List.mem_cons, List.mem_nil_iff, or_false] at hi
  rcases hi with rfl | rfl <;> simp [Instr.all, kidsAll, itemsAll, Item.all, ceHead, ceQ, pidOK]

example : (match apply (MM.free []) witnessGraph witness with | .ok r => some r.2 | .error _ => none) = some [(s "K", 13)] := by
  decide
example : declCount witness (s "K") 13 = 1 ∧ declTotal witness (s "K") = 1 ∧ useCount witness (s "K") = 1 := by
  decide
/-- a dangling reference raises `UnfulfilledPromisesError`, a duplicated id raises "defined twice" -/
example : (match apply (MM.free []) witnessGraph [witness.head!] with | .error e => some e | .ok _ => none)
    = some (.unfulfilled [s "K"]) := by decide
example : (match apply (MM.free []) witnessGraph (witness ++ [witness.getLast!]) with | .error e => some e | .ok _ => none)
    = some (.dupPromise (s "K")) := by decide
/-- the witness is a clean document over its graph under the permissive metamodel: both orders succeed
(`witness_orders`), as `success_order_independent` says -/
example : CleanDoc witnessGraph witness := by
  intro i hi
  simp only [witness, List.mem_cons, List.mem_nil_iff, or_false] at hi
  rcases hi with rfl | rfl <;>
    simp [Instr.all, kidsAll, itemsAll, Item.all, cleanHead, cleanQ, Val.cleanRef, Val.cleanScal, Atom.okIn] <;> decide
example : (MM.free []).Total := total_free []
/-- the witness satisfies the hypotheses of `C12_scalars`; in both orders `C1.super` is the declarer of `K` -/
example : (∀ i ∈ witness, i.all atomsHead (fun _ => True)) ∧ ScalDom witnessGraph := by
  refine ⟨?_, by intro e he; simp [witnessGraph] at he⟩
  intro i hi
  simp only [witness, List.mem_cons, List.mem_nil_iff, or_false] at hi
  rcases hi with rfl | rfl <;> simp [Instr.all, kidsAll, itemsAll, Item.all, atomsHead, s] <;> decide
example : (match apply (MM.free []) witnessGraph witness, apply (MM.free []) witnessGraph witness.reverse with
    | .ok r, .ok r' => some (r.1.getScal 10 (s "super"), r'.1.getScal 10 (s "super"))
    | _, _ => none) = some (some (.obj 13), some (.obj 13)) := by decide
/-- … and a dangling reference fails in both orders, a cyclic pair of promises fails as unfulfilled -/
example : (match apply (MM.free []) witnessGraph [witness.head!] with | .error e => some e | .ok _ => none)
    = some (.unfulfilled [s "K"]) := by decide
def cyclic : List Instr := [
  { parent := .atom (.uuid 1),
    ext := [(s "classes", [
      .obj 10 (some (s "A")) none [(s "super", .atom (.promise (s "B")))] [],
      .obj 11 (some (s "B")) none [(s "super", .atom (.promise (s "A")))] []])] }]
example : (match apply (MM.free []) witnessGraph cyclic with | .error e => some e | .ok _ => none)
    = some (.unfulfilled [s "B", s "A"]) := by decide
/-- the measure of the witness and a transition that lowers it -/
example : (init witnessGraph witness).measure = 23 := by decide

/-- all-document theorems: a set + sync (found and create branch) + delete document; the loop ends at the
fixpoint, ids are bound exactly once, nothing can be dropped -/
def opsDoc : List Instr := [
  { parent := .atom (.promise (s "c")),
    set := [(s "super", .scalar (.atom (.promise (s "k")))),
            (s "owned_properties", .list [.obj 30 (some (s "pr")) none [(s "name", .atom (.str (s "x")))] []])] },
  { parent := .atom (.uuid 1),
    sync := [(s "classes", [
      .mk 31 41 none [(s "name", .str (s "C"))] (some (s "c")) [] [] [],
      .mk 32 42 none [(s "name", .str (s "K"))] (some (s "k")) [(s "super", .scalar (.atom (.promise (s "c"))))] [] []])],
    del := [(s "classes", [.atom (.uuid 5)])] }]
def opsGraph : Graph :=
  { objs := [(1, s "DataPkg"), (5, s "Class")], scal := [((5, s "name"), .str (s "C"))], edges := [(1, s "classes", 5)] }
example : (match apply (MM.free []) opsGraph opsDoc with | .ok r => some r.2 | .error _ => none)
    = some [(s "c", 5), (s "k", 32), (s "pr", 30)] := by decide
example : declaredAll opsDoc (s "c") = 1 ∧ declaredAll opsDoc (s "pr") = 1 ∧ dropAll opsDoc (s "c") = 0 := by decide
/-- a stuck document: the loop ends with two entries parked under unbound ids; `apply` names exactly those -/
def stuckDoc : List Instr := [
  { parent := .atom (.promise (s "nobody")), set := [(s "name", .scalar (.atom (.str (s "x"))))] },
  { parent := .atom (.uuid 1), sync := [(s "classes", [
      .mk 31 41 none [(s "name", .str (s "C"))] (some (s "c")) [(s "super", .scalar (.atom (.promise (s "ghost"))))] [] []])] }]
example : (match apply (MM.free []) opsGraph stuckDoc with | .error e => some e | .ok _ => none)
    = some (.unfulfilled [s "nobody", s "ghost"]) := by decide
example : (match run (MM.free []) ((init opsGraph stuckDoc).measure + 1) (init opsGraph stuckDoc) with
    | some (.ok sf) => some (sf.deferred.map (·.1), sf.ps, sf.queue.length, sf.agenda.length) | _ => none)
    = some ([s "nobody", s "ghost"], [(s "c", 5)], 0, 0) := by decide

end Capella.Props.C12
