import Capella.Lemmas.XmlRoundTrip
import Capella.Lemmas.XmlCanon
import Capella.Lemmas.XmlLayout
import Capella.Gen.Exs
import Capella.Lemmas.XmlNsUpdate
import Capella.Gen.Ns
import Capella.Lemmas.XmlBytes
import Capella.Lemmas.XmlWide
import Capella.Lemmas.XmlLayoutTag

/-!
# C01 — unmodified load-then-save reproduces Capella's files byte for byte

Property theorems only; helper lemmas live in `Capella/Lemmas/Xml*.lean`.  The model of the writer
(`exs.py`) is `Capella/Model/Xml.lean`, the reader (lxml as `ModelFile.__init__` configures it) is
`Capella/Model/XmlParse.lean`; both are tied to `/repo` by the correspondence runs of
`harness/props/c01.py`, the constants by the kernel-checked obligations of `Capella/Gen/Exs.lean`.
-/
namespace Capella.Props.C01
open Capella.Xml

/-- Entity escaping is invertible on **every** string: decoding what `_escape` wrote gives the
original back (no bound on length, every code point, including the control characters lxml itself
would refuse). -/
theorem escape_roundtrip (s : Str) : unescape (escape isEscText s) = some s :=
  unescGo_escape false s (by simp)

/-- The same through the XML parser's stricter decoder (a character reference must denote an XML
`Char`): every string lxml can hold comes back unchanged. -/
theorem escape_roundtrip_xml (s : Str) (h : s.all xmlChar = true) :
    unescapeXml (escape isEscText s) = some s :=
  unescGo_escape true s (fun _ => h)

/-- An escaped value cannot forge a boundary: it contains no `"`, no `<` and no control character
(so neither attribute-value normalisation nor end-of-line handling touches it). -/
theorem escape_safe (s : Str) :
    ∀ c ∈ escape isEscText s, c ≠ '"' ∧ c ≠ '<' ∧ isCtl c = false :=
  escape_text_safe s

/-- Element text, tails and comment tails are written with `P_ESCAPE_CONTENT`; that, too, is
invertible on every string … -/
theorem content_roundtrip (s : Str) : unescape (escapeContent s) = some s :=
  by rw [escapeContent_eq]; exact unescGo_escapeC false s (by simp) 0

theorem content_roundtrip_xml (s : Str) (h : s.all xmlChar = true) :
    unescapeXml (escapeContent s) = some s :=
  by rw [escapeContent_eq]; exact unescGo_escapeC true s (fun _ => h) 0

/-- … and written text contains no `<`, no control character and never the sequence `]]>`, which
XML forbids in character data (before the repair of `_serialize_text`'s default pattern a text such
as `x[y[0]]>1` produced a file that could not be loaded again). -/
theorem content_safe (s : Str) :
    (∀ c ∈ escapeContent s, c ≠ '<' ∧ isCtl c = false) ∧ hasCdataEnd (escapeContent s) = false :=
  by
  rw [escapeContent_eq]
  exact ⟨fun c hc => (escapeC_safe s 0 c hc).2, by simpa using hasCdataEnd_escapeC s 0 (by omega)⟩

/-- Attribute values keep `]]>` as it is (it is legal there and Capella writes it so); only text
is affected by the look-behind. -/
theorem attr_keeps_cdata_end : escape isEscText "a]]>b".toList = "a]]>b".toList := by decide

/-- **`parse_ser`** — the writer is canonical up to layout: for **every** line length, reading
what was written for a Capella-shaped document (`wfDoc`: no mixed content, no empty-string text,
one prefix per namespace, nothing redeclared, comments without `>`) gives the document back, with
attributes and namespace declarations in the order the file imposes (`canonDoc`). -/
theorem parse_ser (ll : Nat) (d : Doc) (hwf : wfDoc d = true) :
    parse (serialize ll true [] true d) = some (canonDoc d) := by
  unfold parse
  rw [stripDecl_serialize ll d hwf]
  exact parseBody_serialize [] (by intro c hc; simp at hc) ll d hwf

/-- The same for the complete file `ModelFile.write_xml` produces (XML declaration in front,
80 columns for semantic fragments, unbounded otherwise). -/
theorem parse_writeXml (k : FragKind) (d : Doc) (hwf : wfDoc d = true) :
    parse (writeXml k d) = some (canonDoc d) := by
  unfold parse
  rw [stripDecl_writeXml]
  exact parseBody_serialize ['\n'] nlOnly_nl _ d hwf

/-- A document that already is in file order (every file Capella or this writer produced)
comes back unchanged. -/
theorem parse_ser_canonical (ll : Nat) (d : Doc) (hwf : wfDoc d = true) (hc : canonDoc d = d) :
    parse (serialize ll true [] true d) = some d := by
  rw [parse_ser ll d hwf, hc]

/-- **Layout independence**: the wrap column decides where line breaks go and nothing else —
two writes with different line lengths read back as the same document. -/
theorem layout_independent (ll₁ ll₂ : Nat) (d : Doc) (hwf : wfDoc d = true) :
    parse (serialize ll₁ true [] true d) = parse (serialize ll₂ true [] true d) := by
  rw [parse_ser ll₁ d hwf, parse_ser ll₂ d hwf]

/-- The writer loses nothing: two Capella-shaped documents with the same bytes are the same
document up to file order. -/
theorem ser_injective (ll : Nat) (d₁ d₂ : Doc) (h₁ : wfDoc d₁ = true) (h₂ : wfDoc d₂ = true)
    (h : serialize ll true [] true d₁ = serialize ll true [] true d₂) : canonDoc d₁ = canonDoc d₂ := by
  have := parse_ser ll d₁ h₁
  rw [h, parse_ser ll d₂ h₂] at this
  exact (Option.some.inj this).symm

/-- Write–parse–write is a fixpoint for documents in file order (in particular for everything
that was loaded from a file this writer or Capella wrote). -/
theorem ser_idempotent (ll : Nat) (d : Doc) (hwf : wfDoc d = true) (hc : canonDoc d = d) :
    (parse (serialize ll true [] true d)).map (serialize ll true [] true) =
      some (serialize ll true [] true d) := by
  rw [parse_ser_canonical ll d hwf hc]; rfl

/-- The writer is a function of the information in the tree: writing the document in file order
gives the same bytes as writing the in-memory document (whose attributes and namespace
declarations may be in any order). -/
theorem ser_canon (ll : Nat) (d : Doc) (hwf : wfDoc d = true) :
    serialize ll true [] true (canonDoc d) = serialize ll true [] true d :=
  serialize_canon ll true d hwf

/-- **Write–parse–write is a fixpoint for every Capella-shaped tree** and every line length —
"writing a tree, parsing the result and writing again gives the same bytes". -/
theorem ser_idempotent_full (ll : Nat) (d : Doc) (hwf : wfDoc d = true) :
    (parse (serialize ll true [] true d)).map (serialize ll true [] true) =
      some (serialize ll true [] true d) := by
  rw [parse_ser ll d hwf, Option.map_some, ser_canon ll d hwf]

/-- **`wrap_spec`, part 1 — the counter is the column.**  The `pos` the attribute loop carries is
the real column of what it has written (no written name or value contains a line break —
`escape_safe`), so "`pos > line_length`" tests the real column. -/
theorem wrap_column_exact (ll ai : Nat) (isRoot : Bool) (ws : List (Str × Str))
    (hnl : ∀ w ∈ ws, '\n' ∉ w.1 ∧ '\n' ∉ w.2) (pos : Nat) (force : Bool) :
    (serAttrs ll ai isRoot ws pos force).2 = colAfter pos (serAttrs ll ai isRoot ws pos force).1 :=
  serAttrs_pos_exact ll ai isRoot ws hnl pos force

/-- **`wrap_spec`, part 2 — the rule.**  In front of an attribute the writer breaks the line
(and indents by `ai`) iff the column exceeds the line length or a break is forced (after the
root's `id`); otherwise it writes one space.  The next decision is taken at the column reached. -/
theorem wrap_rule (ll ai : Nat) (isRoot : Bool) (w : Str × Str) (rest : List (Str × Str))
    (pos : Nat) (force : Bool) :
    (serAttrs ll ai isRoot (w :: rest) pos force).1 =
      (if breaksAt ll pos force then '\n' :: List.replicate ai ' ' else [' ']) ++ attrText w ++
      (serAttrs ll ai isRoot rest
        ((if breaksAt ll pos force then ai else pos + 1) + w.1.length + w.2.length + 3)
        (isRoot && w.1 == "id".toList)).1 :=
  serAttrs_cons ll ai isRoot w rest pos force

/-- **`wrap_spec`, part 3 — an unbounded line never breaks** (visual and metadata fragments are
written with `sys.maxsize`): if the tag fits, all attributes are on one line. -/
theorem wrap_never_when_fits (ll ai : Nat) (ws : List (Str × Str)) (pos : Nat)
    (hfit : pos + (flatAttrs ws).length ≤ ll + 1) :
    (serAttrs ll ai false ws pos false).1 = flatAttrs ws :=
  serAttrs_flat ll ai ws pos hfit

/-- Attribute-level layout independence, on its own: whatever line length, column and forced
break, the reader gets the same attribute list from a start tag. -/
theorem attrs_layout_independent (ll₁ ll₂ ai₁ ai₂ : Nat) (r₁ r₂ : Bool) (ws : List (Str × Str))
    (dv : Str × Str → Str) (hok : ∀ w ∈ ws, lexName w.1 ∧ valReads w.2 (dv w))
    (p₁ p₂ : Nat) (f₁ f₂ sc : Bool) (X : Str) :
    lexAttrs (ws.length + 1) ((serAttrs ll₁ ai₁ r₁ ws p₁ f₁).1 ++ (closerStr sc ++ X)) =
    lexAttrs (ws.length + 1) ((serAttrs ll₂ ai₂ r₂ ws p₂ f₂).1 ++ (closerStr sc ++ X)) := by
  have h1 := lexAttrs_serAttrs ll₁ ai₁ r₁ ws dv hok p₁ f₁ sc X 0
  have h2 := lexAttrs_serAttrs ll₂ ai₂ r₂ ws dv hok p₂ f₂ sc X 0
  simp only [Nat.zero_add] at h1 h2
  rw [h1, h2]


/-! ## Namespace declarations on save (`update_namespaces`; the model is `Model/XmlNsUpdate.lean`, the
plugin table `Gen/Ns.lean` is generated from the live `NAMESPACES_PLUGINS`; the theorems about edited
models are in `Props/C02.lean`) -/

/-- **The root is only replaced when it actually changed**: if the root already declares exactly the
namespaces the recomputation arrives at (in any order), `update_namespaces` hands back the very same
document. -/
theorem untouched_root_kept (vps : List (Str × Str)) (d d' : Doc) (n : List (Str × Str))
    (hn : newNsmap Capella.Gen.Ns.plugins vps d.root = .ok n) (he : dictEq d.root.nsdecls n = true)
    (h : updateNs Capella.Gen.Ns.plugins vps d = .ok d') : d' = d := by
  obtain ⟨n', hn', hcase⟩ := updateNs_shape _ vps d d' h
  rw [hn] at hn'
  simp only [Except.ok.injEq] at hn'
  subst hn'
  rcases hcase with ⟨_, rfl⟩ | ⟨hf, _⟩
  · rfl
  · rw [he] at hf; simp at hf

/-- **Unmodified load-then-save**: take a file this writer (or Capella) produced from a Capella-shaped
document in file order whose root declares exactly the namespaces in use.  Loading it, recomputing the
namespaces and writing it again — what `MelodyModel.save()` does — reproduces the file byte for byte. -/
theorem load_save_fixpoint (k : FragKind) (vps : List (Str × Str)) (d : Doc) (n : List (Str × Str))
    (hwf : wfDoc d = true) (hc : canonDoc d = d)
    (hn : newNsmap Capella.Gen.Ns.plugins vps d.root = .ok n) (he : dictEq d.root.nsdecls n = true) :
    (parse (writeXml k d)).bind (fun x =>
        match updateNs Capella.Gen.Ns.plugins vps x with
        | .ok y => some (writeXml k y)
        | .error _ => none) = some (writeXml k d) := by
  rw [parse_writeXml k d hwf, hc]
  simp only [Option.bind_some, updateNs, hn, he, if_true]

/-- **The declarations the writer emits after the recomputation are exactly the namespaces in use**: `xmi`,
`xsi` and what the elements of the tree ask for — "any set of used namespaces". -/
theorem declarations_are_used_namespaces (vps : List (Str × Str)) (d d' : Doc)
    (h : updateNs Capella.Gen.Ns.plugins vps d = .ok d') (b : Str × Str) :
    b ∈ d'.root.nsdecls ↔ b ∈ nsInit ∨ Asked Capella.Gen.Ns.plugins vps (iterS [] d.root) b := by
  obtain ⟨n, hn, hmem⟩ := updateNs_decls _ vps d d' h
  rw [hmem b]
  exact scanGo_mem _ vps _ nsInit n hn b


/-! ## The UTF-8 boundary: bytes of the tag, code points everywhere else -/

/-- the width `_serialize_element` adds for the tag (`len(tag.encode("utf-8"))`) is the length of the
byte sequence CPython's encoder produces (`encodeUtf8`, tied to `str.encode` by the stream `encode`) -/
theorem tag_width_is_encoded_length (tag : Str) : utf8Len tag = (encodeUtf8 tag).length :=
  utf8Len_eq_encode tag

/-- **the column handed to the attribute loop**, for every tag, ASCII or not: it is the true column
(counted in characters, as all other widths are) plus the number of continuation bytes of the tag … -/
theorem tag_column_formula (pos : Nat) (tagS : Str) (hnl : '\n' ∉ tagS) :
    pos + 1 + utf8Len tagS = colAfter pos ('<' :: tagS) + (utf8Len tagS - tagS.length) :=
  stag_column pos tagS hnl

/-- … hence exact for the tags Capella has (Ecore names, ASCII) and only for those: together with
`wrap_column_exact` the whole start tag is laid out by its true columns. -/
theorem tag_column_exact_iff_ascii (pos : Nat) (tagS : Str) (hnl : '\n' ∉ tagS) :
    pos + 1 + utf8Len tagS = colAfter pos ('<' :: tagS) ↔ tagS.all isAscii = true := by
  rw [stag_column pos tagS hnl, ← utf8Len_eq_length_iff]
  have := utf8Len_ge_length tagS
  omega

/-- a non-ASCII tag is outside what Capella writes; there the writer breaks the line early (witness: the
column after `<éééééééé a="1"` is 15 ≤ 20, the byte-based counter says 23 > 20) -/
theorem nonascii_tag_breaks_early :
    serialize 20 true [] true ⟨[], .mk "éééééééé".toList [] [("a".toList, "1".toList), ("b".toList, "2".toList)] none none [], []⟩
      = "<éééééééé a=\"1\"\n    b=\"2\"/>\n".toList ∧
    serialize 20 true [] true ⟨[], .mk "eeeeeeee".toList [] [("a".toList, "1".toList), ("b".toList, "2".toList)] none none [], []⟩
      = "<eeeeeeee a=\"1\" b=\"2\"/>\n".toList := by
  decide


/-! ## The widened domain (round 5): what the writer reads, what it drops, what it refuses

`Model/XmlWide.lean`: `viewDoc false` erases white-space-only / `""` tails and white-space-only / `""` text in
front of children; `viewDoc true` erases in addition the tail of every childless element below the root.
`wfDocW d = wfDocE (viewDoc false d)`, `wfDocV d = wfDocE (viewDoc true d)`, `readBack l d = canonDoc (dropDoc
(viewDoc l d))`. -/

/-- **The writer reads only the view** — for *every* tree (no well-formedness hypothesis), every line length,
with or without siblings, root or sub-element: a tree and its view are written byte for byte alike.  I.e.
`(x.tail or "").strip()` false → the tail is not written; blank text in front of children is not written; the
tail of a childless element (other than the one handed to `serialize`) is never even looked at. -/
theorem writer_reads_only_the_view (lossy : Bool) (ll : Nat) (sib : Bool) (pns : List (Str × Str))
    (isRoot : Bool) (d : Doc) :
    serialize ll sib pns isRoot (viewDoc lossy d) = serialize ll sib pns isRoot d :=
  serialize_view lossy ll sib pns isRoot d

/-- **`parse_ser` on the widened domain**: a document that is Capella-shaped *once the unread white space is taken
away* — blank tails anywhere (elements, sibling comments), blank or `""` text in front of children, `""` text on
childless elements, white-space-only text on childless elements — is read back, from the complete file and for
**every** line length, as its view in file order with `""` read as "no text". -/
theorem parse_ser_wide (ll : Nat) (d : Doc) (hwf : wfDocW d = true) :
    parse (declare "utf-8".toList ++ serialize ll true [] true d) = some (readBack false d) :=
  parse_declared_view false ll d hwf

/-- the same without the declaration (`exs.serialize` alone), when the view is Capella-shaped proper -/
theorem parse_ser_wide_nodecl (ll : Nat) (d : Doc) (hwf : wfDoc (viewDoc false d) = true) :
    parse (serialize ll true [] true d) = some (canonDoc (viewDoc false d)) :=
  parse_ser_view false ll d hwf

/-- **Exactly when the tree itself comes back** on the widened domain: iff it carries nothing the writer does not
read and is in file order.  (`wfDoc d ∧ canonDoc d = d` is the special case `parse_ser_canonical`.) -/
theorem roundtrip_exact_iff (ll : Nat) (d : Doc) (hwf : wfDocW d = true) :
    parse (declare "utf-8".toList ++ serialize ll true [] true d) = some d ↔ readBack false d = d := by
  rw [parse_ser_wide ll d hwf]
  exact ⟨fun h => Option.some.inj h, fun h => by rw [h]⟩

/-- **Tails of childless elements are dropped, and that is all that is dropped**: if the tree is Capella-shaped
apart from such tails (`wfDocV`), the file reads back as the tree without them … -/
theorem leaf_tails_lost (ll : Nat) (d : Doc) (hwf : wfDocV d = true) :
    parse (declare "utf-8".toList ++ serialize ll true [] true d) = some (readBack true d) :=
  parse_declared_view true ll d hwf

/-- … and two trees that differ only there are written alike (no hypothesis). -/
theorem leaf_tails_invisible (ll : Nat) (sib : Bool) (pns : List (Str × Str)) (isRoot : Bool) (d₁ d₂ : Doc)
    (h : viewDoc true d₁ = viewDoc true d₂) :
    serialize ll sib pns isRoot d₁ = serialize ll sib pns isRoot d₂ := by
  rw [← serialize_view true ll sib pns isRoot d₁, h, serialize_view]

/-- **Write–parse–write is a fixpoint on the widened domain**, for every line length, provided no childless element
outside `ALWAYS_EXPANDED_TAGS` has the text `""` (`collapsesE`; see `ser_idempotent_anytree_fails`).  Holds for the
lossy view as well: losing a leaf tail does not move the bytes. -/
theorem ser_idempotent_wide (lossy : Bool) (ll : Nat) (d : Doc) (hwf : wfDocE (viewDoc lossy d) = true)
    (hc : collapsesE d.root = false) :
    (parse (declare "utf-8".toList ++ serialize ll true [] true d)).map (serialize ll true [] true) =
      some (serialize ll true [] true d) := by
  rw [parse_declared_view lossy ll d hwf, Option.map_some, serialize_readBack lossy ll d hwf hc]

/-- the statement without the proviso … -/
def ser_idempotent_anytree : Prop :=
  ∀ (ll : Nat) (d : Doc), wfDocW d = true →
    (parse (declare "utf-8".toList ++ serialize ll true [] true d)).map (serialize ll true [] true) =
      some (serialize ll true [] true d)

/-- the witness (replayed on the implementation by the stream `wide:empty-text-collapses`): `e.text = ""` on a
childless `<a>` -/
def collapseWitness : Doc := ⟨[], .mk "a".toList [] [] (some []) none [], []⟩

/-- … **fails**: `<a></a>` is read as an element without text, which is written `<a/>`. -/
theorem ser_idempotent_anytree_fails : ¬ ser_idempotent_anytree := by
  intro h
  have := h 80 collapseWitness (by decide)
  revert this
  decide

/-- the proviso is exactly the missing hypothesis -/
theorem ser_idempotent_anytree_partial (ll : Nat) (d : Doc) (hwf : wfDocW d = true)
    (hc : collapsesE d.root = false) :
    (parse (declare "utf-8".toList ++ serialize ll true [] true d)).map (serialize ll true [] true) =
      some (serialize ll true [] true d) :=
  ser_idempotent_wide false ll d hwf hc

/-! ### outside the widened domain: what happens exactly (witnesses; each is a correspondence case) -/

/-- a non-blank tail on an element **with** children is written after *each* of its children (the loop writes
`element.tail`), never after the element itself -/
theorem parent_tail_written_after_each_child :
    let d : Doc := ⟨[], .mk "r".toList [] [] none none
      [.mk "a".toList [] [] none (some "T".toList) [.mk "b".toList [] [] none none [], .mk "c".toList [] [] none none []]], []⟩
    wfDocV d = false ∧ serialize 80 true [] true d = "<r>\n  <a>\n    <b/>T<c/>T</a>\n</r>\n".toList := by
  decide

/-- a non-blank tail on the root is written after the root: not a document any more -/
theorem root_tail_unreadable :
    let d : Doc := ⟨[], .mk "a".toList [] [] none (some "T".toList) [], []⟩
    wfDocV d = false ∧ serialize 80 true [] true d = "<a/>T\n".toList ∧
      parse (serialize 80 true [] true d) = none := by
  decide

/-- a non-blank tail on a sibling comment likewise -/
theorem comment_tail_unreadable :
    let d : Doc := ⟨[⟨"c".toList, some "x".toList⟩], .mk "r".toList [] [] none none [], []⟩
    wfDocV d = false ∧ serialize 80 true [] true d = "\n<!--c-->x<r/>\n".toList ∧
      parse (serialize 80 true [] true d) = none := by
  decide

/-- non-blank text in front of children is written; the line breaks the writer puts between the children then
read back as tails (libxml2 keeps blank text in an element whose first child is text) — the tree differs, the
bytes of a second write do not -/
theorem text_before_children_reads_tails :
    let d : Doc := ⟨[], .mk "r".toList [] [] (some "h".toList) none [.mk "b".toList [] [] none none []], []⟩
    wfDocV d = false ∧ serialize 80 true [] true d = "<r>h<b/>\n</r>\n".toList ∧
      (parse (serialize 80 true [] true d)).map (fun x => x.root.kids.map Elem.tail) = some [some "\n".toList] ∧
      (parse (serialize 80 true [] true d)).map (serialize 80 true [] true) = some (serialize 80 true [] true d) := by
  decide

/-! ### comments and processing instructions inside elements: refused -/

/-- **A tree with a comment or PI inside an element is never written**: `serialize` raises (the `TypeError` of
`P_NAME.search(<function>)`, or whatever an element earlier in document order raises) — for every tree, every
position of the node, every line length. -/
theorem inner_comment_never_written (ll : Nat) (sib : Bool) (pns : List (Str × Str)) (isRoot : Bool)
    (pre post : List Comment) (n : Node) (h : n.hasCom = true) :
    ∃ e, serializeN ll sib pns isRoot pre n post = .error e := by
  unfold serializeN
  have := Node.err_of_hasCom pns n h
  cases he : Node.err pns n with
  | some e => exact ⟨e, rfl⟩
  | none => rw [he] at this; simp at this

/-- on element-only trees `serializeN` is the writer of `Model/Xml.lean` with the errors of `elemErr` -/
theorem serializeN_elements (ll : Nat) (sib : Bool) (pns : List (Str × Str)) (isRoot : Bool) (d : Doc) :
    serializeN ll sib pns isRoot d.pre (Node.ofElem d.root) d.post =
      match elemErr pns d.root with
      | some e => .error (.writer e)
      | none => .ok (serialize ll sib pns isRoot d) := by
  unfold serializeN
  rw [Node.err_ofElem, Node.toElem_ofElem]
  cases elemErr pns d.root <;> rfl

/-- the exception is the `TypeError`, unless an element before the comment has an undeclared namespace -/
theorem inner_comment_typeerror :
    errOf (serializeN 80 true [] true [] (.el "r".toList [] [] none none
      [.el "k".toList [] [] none none [.com "in".toList none]]) []) = some .typeError ∧
    errOf (serializeN 80 true [] true [] (.el "r".toList [] [] none none
      [.el "{u}k".toList [] [] none none [], .com "in".toList none]) []) = some (.writer .value) := by
  decide

/-! ### the column of a whole start tag, for every tag name -/

/-- **`wrap_column_exact` for the whole start tag `<tag a="v" …` of any element**: the counter after the attribute
loop is the true column (code points) plus the number of continuation bytes of the tag
(`len(tag.encode()) - len(tag)`) as long as the loop has not broken the line, and exactly the true column from
the first break on (a break resets the counter to the attribute indent). -/
theorem stag_column_exact (ll ai : Nat) (isRoot : Bool) (ws : List (Str × Str))
    (hnl : ∀ w ∈ ws, '\n' ∉ w.1 ∧ '\n' ∉ w.2) (pos : Nat) (tagS : Str) (ht : '\n' ∉ tagS) :
    (serAttrs ll ai isRoot ws (pos + 1 + utf8Len tagS) false).2 =
      colAfter pos ('<' :: tagS ++ (serAttrs ll ai isRoot ws (pos + 1 + utf8Len tagS) false).1) +
        (if '\n' ∈ (serAttrs ll ai isRoot ws (pos + 1 + utf8Len tagS) false).1 then 0
         else utf8Len tagS - tagS.length) :=
  stag_pos_formula ll ai isRoot ws hnl pos tagS ht

/-- for the tags the corpus can contain (Ecore names: ASCII) the surplus is 0: the counter **is** the column of
the whole start tag, attributes with any characters included -/
theorem stag_column_exact_ascii (ll ai : Nat) (isRoot : Bool) (ws : List (Str × Str))
    (hnl : ∀ w ∈ ws, '\n' ∉ w.1 ∧ '\n' ∉ w.2) (pos : Nat) (tagS : Str) (ht : '\n' ∉ tagS)
    (ha : tagS.all isAscii = true) :
    (serAttrs ll ai isRoot ws (pos + 1 + utf8Len tagS) false).2 =
      colAfter pos ('<' :: tagS ++ (serAttrs ll ai isRoot ws (pos + 1 + utf8Len tagS) false).1) := by
  rw [stag_column_exact ll ai isRoot ws hnl pos tagS ht, (utf8Len_eq_length_iff tagS).mpr ha]
  simp

/-! ## The boundary of `wfDoc` (each clause excluded for a reason; witnesses) -/

/-- Mixed content is outside the domain: the writer tests the *parent's* tail inside the child
loop and never writes a child's tail — the tail `T` of `<b/>` is lost. -/
theorem mixed_content_lost :
    let d : Doc := ⟨[], .mk "a".toList [] [] none none [.mk "b".toList [] [] none (some "T".toList) []], []⟩
    wfDoc d = false ∧ serialize 80 true [] true d = "<a>\n  <b/>\n</a>\n".toList := by
  decide

/-- An empty-string text (`element.text = ""`) is not written and reads back as "no text" — the
same XML information, but not the same lxml value, hence outside `wfDoc`. -/
theorem empty_text_reads_none :
    let d : Doc := ⟨[], .mk "bodies".toList [] [] (some []) none [], []⟩
    wfDoc d = false ∧ serialize 80 true [] true d = "<bodies></bodies>\n".toList ∧
      (parse (serialize 80 true [] true d)).map (·.root.text) = some none := by
  decide

/-- White-space-only text **is** content on a childless element and is written as it is (before the
repair of the `.strip()` test in `_serialize_element` a body of one space was silently dropped). -/
theorem blank_text_kept :
    let d : Doc := ⟨[], .mk "bodies".toList [] [] (some " ".toList) none [], []⟩
    wfDoc d = true ∧ serialize 80 true [] true d = "<bodies> </bodies>\n".toList := by
  decide

/-- `>` in a sibling comment is written as `&gt;`, which a comment does not decode. -/
theorem comment_gt_not_roundtrip :
    let d : Doc := ⟨[⟨"a>b".toList, none⟩], .mk "r".toList [] [] none none [], []⟩
    wfDoc d = false ∧ (parse (serialize 80 true [] true d)).map (·.pre) =
      some [⟨"a&gt;b".toList, none⟩] := by
  decide

/-- A namespace URI is written without escaping: one containing `&` gives a file that cannot be
read. -/
theorem uri_amp_unreadable :
    let d : Doc := ⟨[], .mk "r".toList [("p".toList, "http://x/?a&b".toList)] [] none none [], []⟩
    wfDoc d = false ∧ parse (serialize 80 true [] true d) = none := by
  decide

/-! ## Non-vacuity -/

example : escape isEscText "a\"b&c<d\t\n\x7f>é".toList = "a&quot;b&amp;c&lt;d&#x9;&#xA;&#x7F;>é".toList := by
  decide
example : unescape "a&quot;b&amp;c&lt;d&#x9;&#xA;&#x7F;>é".toList = some "a\"b&c<d\t\n\x7f>é".toList := by
  decide
-- the strict decoder really is stricter: U+0001 is no XML `Char`
example : unescapeXml (escape isEscText [Char.ofNat 1]) = none := by decide
example : unescape (escape isEscText [Char.ofNat 1]) = some [Char.ofNat 1] := by decide

example : escapeContent "x[y[0]]>1 >= ]>".toList = "x[y[0]]&gt;1 >= ]>".toList := by decide
example : hasCdataEnd "x[y[0]]>1".toList = true := by decide
example : escapeContent "]]]>>".toList = "]]]&gt;>".toList := by decide

-- a Capella-shaped document: version comment, namespaces, wrapped root tag, escaped attribute,
-- text, an always-expanded empty `bodies`
def sample : Doc :=
  ⟨[⟨"Capella_Version_5.0.0".toList, none⟩],
   .mk (clark "http://c/m".toList "Project".toList)
     [("xsi".toList, XSI), ("m".toList, "http://c/m".toList), ("xmi".toList, XMI)]
     [("name".toList, "a<b \"q\" & c\n".toList), (clark XMI "version".toList, "2.0".toList), ("id".toList, "i1".toList)]
     none none
     [.mk "ownedX".toList [] [(clark XSI "type".toList, "m:T".toList)] none none
        [.mk "bodies".toList [] [] (some "x[y[0]]>1\nline 2".toList) none [],
         .mk "bodies".toList [] [] none none []]],
   [⟨"end".toList, none⟩]⟩

example : wfDoc sample = true := by decide
example : Doc.beq (canonDoc sample) sample = false := by decide
example : parse (serialize 30 true [] true sample) = some (canonDoc sample) := parse_ser 30 sample (by decide)
example : serialize 30 true [] true sample ≠ serialize 80 true [] true sample := by decide
-- layout: the second attribute moves to the next line once the column has passed `ll`
example : serialize 16 true [] true ⟨[], .mk "r".toList [] [("a".toList, "0123456789".toList), ("b".toList, "x>\"".toList)] none none [], []⟩
    = "<r a=\"0123456789\"\n    b=\"x>&quot;\"/>\n".toList := by decide
example : serialize 17 true [] true ⟨[], .mk "r".toList [] [("a".toList, "0123456789".toList), ("b".toList, "x".toList)] none none [], []⟩
    = "<r a=\"0123456789\" b=\"x\"/>\n".toList := by decide
example : wfDoc (canonDoc sample) = true ∧ Doc.beq (canonDoc (canonDoc sample)) (canonDoc sample) = true := by decide

-- the namespace theorems: a root in file order that declares exactly what is used stays as it is
def nsSample : Doc :=
  ⟨[⟨"Capella_Version_6.0.0".toList, none⟩],
   .mk "Project".toList [("xmi".toList, XMI), ("xsi".toList, XSI), ("re".toList, "http://www.polarsys.org/capella/common/re/6.0.0".toList)]
     [(clark XMI "version".toList, "2.0".toList), ("id".toList, "r".toList)] none none
     [.mk "ownedX".toList [] [(attXT, "re:CatalogElement".toList)] none none []], []⟩
def nsSampleVps : List (Str × Str) := [("org.polarsys.capella.core.viewpoint".toList, "6.0.0".toList)]
example : wfDoc nsSample = true ∧ Doc.beq (canonDoc nsSample) nsSample = true := by decide +kernel
example : (match newNsmap Capella.Gen.Ns.plugins nsSampleVps nsSample.root with
    | .ok n => dictEq nsSample.root.nsdecls n | .error _ => false) = true := by decide +kernel

-- the widened domain: blank tails, blank text in front of children, a comment tail of white space, `""` on `bodies`
def wideSample : Doc :=
  ⟨[⟨"Capella_Version_6.0.0".toList, some "\n".toList⟩],
   .mk "r".toList [] [("id".toList, "1".toList)] (some "\n  ".toList) (some "\n".toList)
     [.mk "k".toList [] [] (some " ".toList) (some "\n  ".toList) [],
      .mk "bodies".toList [] [] (some []) (some []) []], []⟩
example : wfDoc wideSample = false ∧ wfDocW wideSample = true ∧ collapsesE wideSample.root = false := by decide
example : Doc.beq (readBack false wideSample) wideSample = false := by decide
example : (parse (declare "utf-8".toList ++ serialize 80 true [] true wideSample)).map (serialize 80 true [] true) =
    some (serialize 80 true [] true wideSample) := ser_idempotent_wide false 80 wideSample (by decide) (by decide)
-- a leaf tail: in `wfDocV`, not in `wfDocW`; lost on the way
def leafTailSample : Doc :=
  ⟨[], .mk "a".toList [] [] none none [.mk "b".toList [] [] none (some "T".toList) []], []⟩
example : wfDocW leafTailSample = false ∧ wfDocV leafTailSample = true ∧ losesTailE true leafTailSample.root = true := by
  decide
example : (readBack true leafTailSample).root.kids.map Elem.tail = [none] := by decide
example : collapsesE collapseWitness.root = true ∧ wfDocW collapseWitness = true := by decide
example : (Node.el "r".toList [] [] none none [.com "c".toList none]).hasCom = true := by decide
-- the start-tag formula on a non-ASCII tag: 8 continuation bytes ahead before the break, exact after it
example : (serAttrs 20 4 true [("a".toList, "1".toList)] (0 + 1 + utf8Len "éééééééé".toList) false).2 = 23 ∧
    colAfter 0 ('<' :: "éééééééé".toList ++ (serAttrs 20 4 true [("a".toList, "1".toList)] 17 false).1) = 15 := by decide
example : (serAttrs 20 4 true [("a".toList, "1".toList), ("b".toList, "2".toList)] (0 + 1 + utf8Len "éééééééé".toList) false).2 = 9 := by
  decide

example : encodeUtf8 "aé€😀".toList = [97, 195, 169, 226, 130, 172, 240, 159, 152, 128] := by decide
example : utf8Len "aé€😀".toList = 10 ∧ "aé€😀".toList.length = 4 := by decide

end Capella.Props.C01
