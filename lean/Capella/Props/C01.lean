import Capella.Lemmas.XmlEscape
import Capella.Gen.Exs

/-!
# C01 — unmodified load-then-save reproduces Capella's files byte for byte

Property theorems only; helper lemmas live in `Capella/Lemmas/Xml*.lean`.  The model of the writer
(`exs.py`) is `Capella/Model/Xml.lean`, the reader (lxml as `ModelFile.__init__` configures it) is
`Capella/Model/XmlParse.lean`; both are tied to `/repo` by the correspondence runs of
`harness/props/c01.py`, the constants by the kernel-checked obligations of `Capella/Gen/Exs.lean`.
-/
namespace Capella.Props.C01
open Capella.Xml

/-- Entity escaping is invertible on **every** string: decoding what `_escape` wrote gives the
original back (no bound on length, every code point, including the control characters lxml itself
would refuse). -/
theorem escape_roundtrip (s : Str) : unescape (escape isEscText s) = some s :=
  unescGo_escape false s (by simp)

/-- The same through the XML parser's stricter decoder (a character reference must denote an XML
`Char`): every string lxml can hold comes back unchanged. -/
theorem escape_roundtrip_xml (s : Str) (h : s.all xmlChar = true) :
    unescapeXml (escape isEscText s) = some s :=
  unescGo_escape true s (fun _ => h)

/-- An escaped value cannot forge a boundary: it contains no `"`, no `<` and no control character
(so neither attribute-value normalisation nor end-of-line handling touches it). -/
theorem escape_safe (s : Str) :
    ∀ c ∈ escape isEscText s, c ≠ '"' ∧ c ≠ '<' ∧ isCtl c = false :=
  escape_text_safe s

/-- Element text, tails and comment tails are written with `P_ESCAPE_CONTENT`; that, too, is
invertible on every string … -/
theorem content_roundtrip (s : Str) : unescape (escapeContent s) = some s :=
  by rw [escapeContent_eq]; exact unescGo_escapeC false s (by simp) 0

theorem content_roundtrip_xml (s : Str) (h : s.all xmlChar = true) :
    unescapeXml (escapeContent s) = some s :=
  by rw [escapeContent_eq]; exact unescGo_escapeC true s (fun _ => h) 0

/-- … and written text contains no `<`, no control character and never the sequence `]]>`, which
XML forbids in character data (before the repair of `_serialize_text`'s default pattern a text such
as `x[y[0]]>1` produced a file that could not be loaded again). -/
theorem content_safe (s : Str) :
    (∀ c ∈ escapeContent s, c ≠ '<' ∧ isCtl c = false) ∧ hasCdataEnd (escapeContent s) = false :=
  by
  rw [escapeContent_eq]
  exact ⟨fun c hc => (escapeC_safe s 0 c hc).2, by simpa using hasCdataEnd_escapeC s 0 (by omega)⟩

/-- Attribute values keep `]]>` as it is (it is legal there and Capella writes it so); only text
is affected by the look-behind. -/
theorem attr_keeps_cdata_end : escape isEscText "a]]>b".toList = "a]]>b".toList := by decide

/-! ## Non-vacuity -/

example : escape isEscText "a\"b&c<d\t\n\x7f>é".toList = "a&quot;b&amp;c&lt;d&#x9;&#xA;&#x7F;>é".toList := by
  decide
example : unescape "a&quot;b&amp;c&lt;d&#x9;&#xA;&#x7F;>é".toList = some "a\"b&c<d\t\n\x7f>é".toList := by
  decide
-- the strict decoder really is stricter: U+0001 is no XML `Char`
example : unescapeXml (escape isEscText [Char.ofNat 1]) = none := by decide
example : unescape (escape isEscText [Char.ofNat 1]) = some [Char.ofNat 1] := by decide

example : escapeContent "x[y[0]]>1 >= ]>".toList = "x[y[0]]&gt;1 >= ]>".toList := by decide
example : hasCdataEnd "x[y[0]]>1".toList = true := by decide
example : escapeContent "]]]>>".toList = "]]]&gt;>".toList := by decide

end Capella.Props.C01
