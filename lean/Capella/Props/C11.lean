import Capella.Lemmas.Reads

/-!
# C11 — reading and rendering never change the model

Property theorems only; helper lemmas live in `Capella/Lemmas/Reads.lean`, the model in
`Capella/Model/Reads.lean`.

Honest label: for the plain reads (`attr`, `has`, `dump`, `search`, `refsTo`) purity holds by
construction — they are functions `State → Out`.  The theorems carry real content only for
rendering, which is modelled as a fold of element factories threading the state, in the variant
that was coded (three factories write into the XML) and the repaired one.  Detection on the real
code is the job of the monitor in `harness/props/c11.py`.
-/
namespace Capella.Props.C11
open Capella.Reads

/-- Any history of read operations (attribute reads, lookups, dir/repr dumps, type searches,
reference searches, diagram renders — in any order, with repetition) leaves what `save` writes
unchanged, whatever function of the state `save` is. -/
theorem reads_pure {β : Type} (save : State → β) (s : State) (ops : List ReadOp) :
    save (run .repaired s ops).1 = save s := by
  rw [run_repaired_state]

/-- … and every answer in the history is the answer the initial state gives to that operation
alone: results do not depend on what was read or rendered before. -/
theorem reads_order_irrelevant (s : State) (ops : List ReadOp) :
    (run .repaired s ops).2 = ops.map (fun op => (step .repaired s op).2) :=
  run_repaired_outs s ops

/-- The repaired label-computing factories return the tree unchanged (one element). -/
theorem factory_tree_unchanged (s : State) (e : DElem) : (elemStep .repaired s e).1 = s :=
  elemStep_repaired_state s e

/-- Rendering a diagram with the repaired factories returns the tree unchanged. -/
theorem render_tree_unchanged (s : State) (d : Str) : (render .repaired s d).1 = s :=
  render_repaired_state s d

/-- On the same state, a repaired factory draws exactly what the coded one drew (label text and
symbol flag), for every factory kind and every attribute combination. -/
theorem factory_same_drawing (s : State) (e : DElem) :
    (elemStep .coded s e).2 = (elemStep .repaired s e).2 :=
  elemStep_same_drawing s e

/-- A whole diagram renders identically before and after the repair, provided no semantic element
is shown twice in it (the hypothesis the proof forces: see `render_same_drawing_needs_nodup`). -/
theorem render_same_drawing (s : State) (d : Str)
    (h : ∀ dg, findDiagram s.dgs d = some dg → (dg.elems.map (·.sem)).Nodup) :
    (render .coded s d).2 = (render .repaired s d).2 := by
  unfold render
  cases hd : findDiagram s.dgs d with
  | none => rfl
  | some dg =>
    exact renderElems_same_drawing [] s s dg.elems (Agree.refl _ _)
      (fun _ _ hm => by simp at hm) (h dg hd)

/-- The full statement "`run` with the factories *as coded* leaves the state unchanged" is false:
rendering one requirement relation writes its `name`. -/
def C11_coded_pure : Prop := ∀ (s : State) (ops : List ReadOp), (run .coded s ops).1 = s

def witnessState : State :=
  { sem := [⟨"r".toList, "CapellaIncomingRelation".toList, [(kRelType, "#t".toList)]⟩,
            ⟨"t".toList, "RelationType".toList, [(kLongName, "satisfies".toList)]⟩]
    dgs := [⟨"d".toList, [⟨"e1".toList, "CapellaIncomingRelation".toList, "r".toList, none, []⟩]⟩] }

theorem C11_coded_pure_fails : ¬ C11_coded_pure := by
  intro h
  have := h witnessState [.render "d".toList]
  revert this
  decide

/-- Without the no-duplicate hypothesis the coded renderer was order dependent: an include/extend
edge shown twice with different diagram-side names took the first name for both. -/
def dupState : State :=
  { sem := [⟨"x".toList, "AbstractCapabilityInclude".toList, []⟩]
    dgs := [⟨"d".toList, [⟨"e1".toList, "AbstractCapabilityInclude".toList, "x".toList, some "a".toList, []⟩,
                          ⟨"e2".toList, "AbstractCapabilityInclude".toList, "x".toList, some "b".toList, []⟩]⟩] }

theorem render_same_drawing_needs_nodup :
    ¬ ∀ (s : State) (d : Str), (render .coded s d).2 = (render .repaired s d).2 := by
  intro h
  have := h dupState "d".toList
  revert this
  decide

/-- PVMT access only ever adds: the groups present before are a prefix of the groups after. -/
theorem pvmt_additive (gs : List PVGroup) (d : PVGroup) : gs <+: (pvmtApply gs d).1 :=
  pvmtApply_fst_prefix gs d

/-- PVMT first use is idempotent: once a group has been applied (from a state with at most one
group of that name), applying again changes nothing and returns the same group. -/
theorem pvmt_first_use_idempotent (gs : List PVGroup) (d : PVGroup)
    (h : (gs.filter (fun g => g.name = d.name)).length ≤ 1) :
    pvmtApply (pvmtApply gs d).1 d = ((pvmtApply gs d).1, (pvmtApply gs d).2) := by
  exact pvmtApply_of_single _ d _ (pvmtApply_single gs d h)

/-- The hypothesis is needed: with two groups of the same name already present, `by_name(…,
single=True)` raises, is taken for "not applied", and every access appends another group. -/
theorem pvmt_idempotent_needs_unique :
    ¬ ∀ (gs : List PVGroup) (d : PVGroup),
        pvmtApply (pvmtApply gs d).1 d = ((pvmtApply gs d).1, (pvmtApply gs d).2) := by
  intro h
  have := h [⟨"D.G".toList, []⟩, ⟨"D.G".toList, []⟩] ⟨"D.G".toList, []⟩
  revert this
  decide

-- Non-vacuity: the statements say something on concrete inputs.
example : (render .coded witnessState "d".toList).2 = [⟨"e1".toList, "satisfies".toList, false⟩] := by decide
example : (render .repaired witnessState "d".toList).2 = [⟨"e1".toList, "satisfies".toList, false⟩] := by decide
example : (render .coded witnessState "d".toList).1 ≠ witnessState := by decide
example : (run .repaired witnessState [.render "d".toList, .attr "r".toList kName, .refsTo "t".toList,
    .search ["RelationType".toList]]).2
    = [.pic [⟨"e1".toList, "satisfies".toList, false⟩], .str none, .ids ["r".toList], .ids ["t".toList]] := by decide
example : (pvmtApply [] ⟨"D.G".toList, []⟩).1 = [⟨"D.G".toList, []⟩] := by decide
example : (elemStep .repaired ⟨[⟨"p".toList, "ForkPseudoState".toList, []⟩], []⟩
    ⟨"e".toList, "ForkPseudoState".toList, "p".toList, none, []⟩).2 = some ⟨"e".toList, [], true⟩ := by decide

end Capella.Props.C11
